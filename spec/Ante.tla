---------------------------- MODULE Ante ----------------------------
(* C15. Only correctly signed, fresh transactions take effect.
   The signature / fee phases of tm2/pkg/sdk/auth/ante.go as gno.land wires them, at the grain
   the statement is about: a transaction carries one signature record per required signer,

       [slot, as, key, chain, accnum, seq, body, intact, pk, ms]

   (who it claims to sign for; as the master key, a session key or an unknown session; which key
   really produced the bytes; the chain id / account number / sequence / message body that were
   signed; whether the signature bytes are intact; whether the PubKey field is present; the
   shape of a k-of-n multisignature). The ante handler accepts iff, in the order of the code:
       1. as many signatures as distinct signers            (Tx.ValidateBasic)
       2. every referenced session exists                   (phase 1)
       3. the first signer can pay the fee                  (phase 2b, DeductFees)
       4. every signature verifies against the CURRENT account number and sequence of the
          identity it signs as (master account, or session account), over this chain id and
          this body, with the identity's own key, and the key is known (PubKey field on first
          use, matching the address)                        (phase 3)
   An accepted transaction moves the fee, bumps the sequence of every signing identity by one,
   fixes the public key of a first-time signer, then runs its messages. A rejected one leaves
   no trace: the ante handler's writes are discarded by runTx (baseapp.go: `if abort return`).

   Signer sets (Kinds): A single signer with a known key; B single signer, first use; AB two
   signers; AA one signer required twice (two messages, one signature); M 2-of-3 multisig
   account; S session key of a; R a's master-signed revocation of that session.
   Every single-field corruption of one signature (Muts) and every transaction-level one (missing
   / extra / swapped signatures, fee above balance) is a separate generated input, as are
   resubmissions of an earlier transaction's exact bytes in the same block, a later block, or
   after a restart.

   The signer SET of a transaction is fixed per kind here; which accounts must sign a transaction
   whose messages have several signers each (Tx.GetSigners: order-preserving de-duplicated
   concatenation) is the second machine of C15, AnteSigners.tla.

   Named deviations: none from the statement. Not generated: malformed amino envelopes and
   self-inconsistent multisignature bit arrays (C44), expired sessions and spend limits (C16). *)
EXTENDS Integers, Sequences, FiniteSets, TLC, Json

CONSTANTS Kinds, Muts, TxMuts,
          SubWheres,   \* where a new transaction may be delivered: same block as the previous step / next block / after a restart
          ReWheres,    \* the same for resubmissions
          MaxLen

Masters == {"a", "b", "m"}
Ids == Masters \cup {"sa"}            \* identities that own a (number, sequence): accounts and the session of a
Fee == 1
Huge == 1000                          \* a fee no account can pay
Start == 20                           \* initial balance (units)

VARIABLES seq,        \* [Ids -> Nat]
          haspub,     \* [Masters -> BOOLEAN]   public key stored in the account
          alive,      \* the session of a exists
          bal,        \* [Masters \cup {"z"} -> Nat]
          accepted,   \* set of transaction records that took effect (ghost, for NoReplay)
          hist, last

vars == <<seq, haspub, alive, bal, accepted>>

Signers(k) == CASE k = "A" -> <<"a">> [] k = "B" -> <<"b">> [] k = "AB" -> <<"a", "b">> [] k = "AA" -> <<"a">>
                [] k = "M" -> <<"m">> [] k = "S" -> <<"a">> [] k = "R" -> <<"a">>
\* what the messages do once the ante handler passed: [debits per master, revoke]
Sends(k) == CASE k = "AA" -> [a |-> 2, b |-> 0, m |-> 0] [] k = "AB" -> [a |-> 1, b |-> 1, m |-> 0]
              [] k = "B" -> [a |-> 0, b |-> 1, m |-> 0] [] k = "M" -> [a |-> 0, b |-> 0, m |-> 1]
              [] k = "R" -> [a |-> 0, b |-> 0, m |-> 0] [] OTHER -> [a |-> 1, b |-> 0, m |-> 0]

IdOf(g) == IF g.as = "session" THEN "sa" ELSE g.slot

\* the correct signature for position p of a transaction of kind k, in the current state
Good(k, p) ==
  LET slot == Signers(k)[p]
      via == (k = "S") IN
  [slot |-> slot, as |-> IF via THEN "session" ELSE "master", key |-> "own", chain |-> "this", accnum |-> "own",
   seq |-> seq[IF via THEN "sa" ELSE slot], body |-> "this", intact |-> TRUE, pk |-> "with",
   ms |-> IF slot = "m" THEN "2of3" ELSE "na"]

\* single-field corruptions of one signature record
Mutate(g, mu) ==
  CASE mu = "none" -> g
    [] mu = "chain" -> [g EXCEPT !.chain = "other"]
    [] mu = "accnum" -> [g EXCEPT !.accnum = "other"]
    [] mu = "stale" -> [g EXCEPT !.seq = @ - 1]
    [] mu = "future" -> [g EXCEPT !.seq = @ + 1]
    [] mu = "body" -> [g EXCEPT !.body = "other"]
    [] mu = "flip" -> [g EXCEPT !.intact = FALSE]
    [] mu = "otherkey" -> [g EXCEPT !.key = "other"]                       \* foreign key, PubKey field names it
    [] mu = "otherkey_nopk" -> [g EXCEPT !.key = "other", !.pk = "without"] \* foreign key, no PubKey field
    [] mu = "crosskey" -> [g EXCEPT !.key = "cross"]                       \* session key for the master slot / master key for the session slot
    [] mu = "nopk" -> [g EXCEPT !.pk = "without"]                          \* valid iff the key is already stored
    [] mu = "unknownsess" -> [g EXCEPT !.as = "unknownsess"]               \* SessionAddr of no session
    [] mu = "ms1" -> [g EXCEPT !.ms = "1of3"]
    [] mu = "ms3" -> [g EXCEPT !.ms = "3of3"]
    [] mu = "msbad" -> [g EXCEPT !.ms = "2of3bad"]
MutApplies(g, mu) ==
  /\ mu = "stale" => g.seq > 0
  /\ mu \in {"ms1", "ms3", "msbad"} => g.slot = "m"
  /\ mu = "crosskey" => g.slot = "a"
  /\ mu = "unknownsess" => g.slot # "m"

\* a transaction built in the current state: kind k, corruption mu at position p, transaction-level corruption tm
Build(k, p, mu, tm) ==
  LET n == Len(Signers(k))
      sigs0 == [i \in 1..n |-> IF i = p THEN Mutate(Good(k, i), mu) ELSE Good(k, i)]
      sigs == CASE tm = "missing" -> SubSeq(sigs0, 1, n - 1)
                [] tm = "extra" -> Append(sigs0, sigs0[n])
                [] tm = "swap" -> <<sigs0[2], sigs0[1]>>
                [] OTHER -> sigs0
  IN [kind |-> k, sigs |-> sigs, fee |-> IF tm = "fee" THEN Huge ELSE Fee]

\* ------------------------------------------------------------------ the ante handler
SigOK(g, slot) ==
  LET id == IdOf(g) IN
  /\ g.slot = slot                         \* a signature made for another signer's account does not verify here
  /\ g.as # "unknownsess"
  /\ g.key = "own" /\ g.chain = "this" /\ g.accnum = "own" /\ g.body = "this" /\ g.intact
  /\ g.seq = seq[id]
  /\ (g.pk = "with" \/ id = "sa" \/ haspub[slot])       \* the key must be known: stored, or supplied and matching the address
  /\ (slot = "m" => g.ms \in {"2of3", "3of3"})

AnteOK(tx) ==
  LET sg == Signers(tx.kind) IN
  /\ Len(tx.sigs) = Len(sg)
  /\ \A i \in 1..Len(sg) : tx.sigs[i].as = "session" => (sg[i] = "a" /\ alive)
  /\ \A i \in 1..Len(sg) : tx.sigs[i].as # "unknownsess"
  /\ bal[sg[1]] >= tx.fee
  /\ \A i \in 1..Len(sg) : SigOK(tx.sigs[i], sg[i])

Proj(s, h, al, b) == [seq |-> s, haspub |-> h, alive |-> al, bal |-> b]

Deliver(tx, act, where, extra) ==
  LET sg == Signers(tx.kind)
      ids == {IdOf(tx.sigs[i]) : i \in 1..Len(sg)}
      snd == Sends(tx.kind)
      ok == AnteOK(tx)
      \* messages: every send must be affordable after the fee, else the messages fail and only the ante effects stay
      b1 == [bal EXCEPT ![sg[1]] = @ - tx.fee]
      msgok == \A x \in Masters : b1[x] >= snd[x]
      b2 == IF msgok THEN [x \in DOMAIN bal |-> IF x = "z" THEN b1[x] + snd["a"] + snd["b"] + snd["m"] ELSE b1[x] - snd[x]] ELSE b1
      seq2 == [x \in Ids |-> IF x \in ids THEN seq[x] + 1 ELSE seq[x]]
      pub2 == [x \in Masters |-> haspub[x] \/ (\E i \in 1..Len(sg) : sg[i] = x /\ tx.sigs[i].as = "master")]
      al2 == IF tx.kind = "R" /\ msgok THEN FALSE ELSE alive
  IN /\ Len(hist) < MaxLen
     /\ IF ok
        THEN /\ seq' = seq2 /\ haspub' = pub2 /\ alive' = al2 /\ bal' = b2
             /\ accepted' = accepted \cup {tx}
             /\ hist' = Append(hist, [act |-> act, tx |-> tx, where |-> where, reply |-> "accept", st |-> Proj(seq2, pub2, al2, b2)] @@ extra)
             /\ last' = [act |-> act, reply |-> "accept", tx |-> tx]
        ELSE /\ UNCHANGED vars
             /\ hist' = Append(hist, [act |-> act, tx |-> tx, where |-> where, reply |-> "reject", st |-> Proj(seq, haspub, alive, bal)] @@ extra)
             /\ last' = [act |-> act, reply |-> "reject", tx |-> tx]

Submit(k, p, mu, tm, where) ==
  /\ p \in 1..Len(Signers(k))
  /\ MutApplies(Good(k, p), mu)
  /\ tm = "swap" => Len(Signers(k)) = 2
  /\ (tm # "none") => (mu = "none" /\ p = 1)             \* one corruption at a time
  /\ k = "R" => alive
  /\ Deliver(Build(k, p, mu, tm), "Submit", where, [k |-> k, p |-> p, mu |-> mu, tm |-> tm])

\* the exact bytes of an earlier submission again
Resubmit(j, where) ==
  /\ j \in 1..Len(hist)
  /\ Deliver(hist[j].tx, "Resubmit", where, [j |-> j])

Init ==
  /\ seq = [x \in Ids |-> IF x = "a" THEN 1 ELSE 0]           \* a created its session with one transaction
  /\ haspub = [x \in Masters |-> x = "a"]
  /\ alive = TRUE
  /\ bal = [x \in Masters \cup {"z"} |-> IF x = "z" THEN 0 ELSE Start]
  /\ accepted = {}
  /\ hist = <<>>
  /\ last = [act |-> "Init", reply |-> "accept", tx |-> <<>>]

Next == \/ \E k \in Kinds, p \in 1..2, mu \in Muts, tm \in TxMuts, w \in SubWheres : Submit(k, p, mu, tm, w)
        \/ \E j \in 1..MaxLen, w \in ReWheres : Resubmit(j, w)

Spec == Init /\ [][Next]_<<vars, hist, last>>
View == <<vars, Len(hist)>>

\* ------------------------------------------------------------------ properties (C15)
\* a transaction that took effect is never accepted a second time, whatever happened in between
NoReplay == [][last'.reply = "accept" => last'.tx \notin accepted]_<<vars, last>>
\* each accepted transaction advances each signing identity's sequence by exactly one, nobody else's
SeqBumpedExactlyOnce ==
  [][last'.reply = "accept" =>
       LET tx == last'.tx
           ids == {IdOf(tx.sigs[i]) : i \in 1..Len(tx.sigs)} IN
       \A x \in Ids : seq'[x] = IF x \in ids THEN seq[x] + 1 ELSE seq[x]]_<<vars, last>>
\* a transaction rejected by the signature or fee checks leaves no state change at all, not even a fee
AnteRejectIsNoOp == [][last'.reply = "reject" => UNCHANGED <<seq, haspub, alive, bal>>]_<<vars, last>>
\* only fully and correctly signed transactions take effect: every signature of an accepted transaction was
\* made with the identity's own key over this chain, its account number, its sequence at that moment and this body
OnlyValidTakeEffect ==
  [][last'.reply = "accept" =>
       LET tx == last'.tx IN
       /\ Len(tx.sigs) = Len(Signers(tx.kind))
       /\ \A i \in 1..Len(tx.sigs) :
            LET g == tx.sigs[i] IN
            /\ g.slot = Signers(tx.kind)[i] /\ g.key = "own" /\ g.chain = "this" /\ g.accnum = "own"
            /\ g.body = "this" /\ g.intact /\ g.seq = seq[IdOf(g)]]_<<vars, last>>
\* sequences never go back
SeqMonotone == [][\A x \in Ids : seq'[x] >= seq[x]]_vars
Conservation == bal["a"] + bal["b"] + bal["m"] + bal["z"] <= 3 * Start    \* the rest sits with the fee collector
TypeOK == /\ \A x \in Ids : seq[x] \in 0..(MaxLen + 1)
          /\ \A x \in DOMAIN bal : bal[x] >= 0

Emit == PrintT(<<"TRACE", ToJson(hist)>>)
EmitAtEnd == Len(hist) < MaxLen \/ Emit
EmitEdge == PrintT(<<"EDGE", ToJson(hist')>>)
=============================================================================
