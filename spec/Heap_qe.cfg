CONSTANTS
  MaxLen = 3
  MaxArr = 3
  MaxCap = 2
  Full = FALSE
  Directed = FALSE
  Quiet = FALSE
INIT Init
NEXT Next
VIEW view
ACTION_CONSTRAINT EmitEdge
INVARIANTS WellFormed
CHECK_DEADLOCK FALSE
