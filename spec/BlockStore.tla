---------------------------- MODULE BlockStore ----------------------------
(* C41. Two stores of tm2/pkg/bft, written down with their storage layout:

   (1) store.BlockStore (tm2/pkg/bft/store/store.go): SaveBlock writes meta H:h, parts P:h:i, the
       block's LastCommit under C:(h-1), the seen commit under SC:h, and the height descriptor;
       saves must be contiguous once the store is non-empty (any first height is allowed).
       A block is [h, v]: v = content variant (number of parts, txs, which commits it carries).

   (2) the state store (tm2/pkg/bft/state/store.go): saveState writes, for the state with
       LastBlockHeight = L,  ConsensusParamsInfo at L+1 and ValidatorsInfo at L+2 (and both in full
       at InitialHeight for the first state). An info record holds the full value only when it
       changed at that height or (validators) when the height is a multiple of K =
       valSetCheckpointInterval; otherwise only LastHeightChanged. LoadValidators(h) follows
       lastStoredHeightFor = max(checkpoint below h, LastHeightChanged) and advances the proposer
       priority by (h - storedHeight) rounds.
       A validator set is [ver, age]: ver = membership version, age = number of
       IncrementProposerPriority(1) rounds applied since that version was created (updateState
       applies one per block), so "the set in effect at h" includes the proposer rotation.

   The chain of states is the one execution.go/updateState produces: validator updates decided
   in block h take effect at h+2, parameter updates at h+1.

   Named deviations: none.                                                                     *)
EXTENDS Integers, Sequences, FiniteSets, TLC, Json

CONSTANTS K,          \* validator checkpoint interval (code: 100000)
          H0,         \* InitialHeight of the chain (first block height)
          MaxLen,     \* bound on history length
          NV,         \* block content variants 1..NV
          FirstHs,    \* heights tried for the first saved block
          MaxFirst    \* their maximum

None == [ver |-> 0, age |-> 0]

VARIABLES
  \* ---- block store
  bh,        \* persisted store height (0 = empty)
  blk,       \* h -> variant of the saved block (0 = none)
  cmt,       \* h -> variant of the block whose LastCommit was saved under C:h
  seen,      \* h -> variant whose seen commit was saved under SC:h
  \* ---- state store
  last,      \* LastBlockHeight of the latest saved state (H0-2 = nothing saved yet)
  vinfo,     \* h -> [has, set, lhc]   ValidatorsInfo records (has = key present, set = None if pointer only)
  pinfo,     \* h -> [has, par, lhc]   ConsensusParamsInfo records (par = 0 if pointer only)
  cur,       \* the latest state: [vals, nextvals, lhcv, par, lhcp, vver, pver]
  tvals,     \* ghost: h -> validator set in effect at h (None = unknown)
  tpars,     \* ghost: h -> params version in effect at h (0 = unknown)
  hist

vars == <<bh, blk, cmt, seen, last, vinfo, pinfo, cur, tvals, tpars>>

BHs == 0..(MaxFirst + MaxLen + 2)              \* block-store heights tracked
SHs == (H0 - 3)..(H0 + MaxLen + 3)            \* state-store heights tracked (a window around H0 is enough)
NoV == [has |-> FALSE, set |-> None, lhc |-> 0]
NoP == [has |-> FALSE, par |-> 0, lhc |-> 0]
Max2(a, b) == IF a > b THEN a ELSE b

\* ---------------------------------------------------------------- the code's lookups
\* state/store.go LoadValidators
LoadValidators(h) ==
  IF h \notin SHs \/ ~vinfo[h].has THEN None
  ELSE IF vinfo[h].set # None THEN vinfo[h].set
  ELSE LET lsh == Max2(h - (h % K), vinfo[h].lhc)                 \* lastStoredHeightFor
           i2 == IF lsh \in SHs /\ vinfo[lsh].has /\ vinfo[lsh].set # None THEN lsh ELSE vinfo[h].lhc
       IN IF i2 \in SHs /\ vinfo[i2].has /\ vinfo[i2].set # None
          THEN [ver |-> vinfo[i2].set.ver, age |-> vinfo[i2].set.age + (h - i2)]  \* IncrementProposerPriority(h - stored)
          ELSE [ver |-> -1, age |-> 0]                                             \* the code panics here
\* state/store.go LoadConsensusParams
LoadParams(h) ==
  IF h \notin SHs \/ ~pinfo[h].has THEN 0
  ELSE IF pinfo[h].par # 0 THEN pinfo[h].par
  ELSE IF pinfo[h].lhc \in SHs /\ pinfo[pinfo[h].lhc].has THEN pinfo[pinfo[h].lhc].par ELSE -1

\* state/store.go saveValidatorsInfo / saveConsensusParamsInfo
ValInfo(h, lhc, set) == [has |-> TRUE, lhc |-> lhc, set |-> IF h = lhc \/ h % K = 0 THEN set ELSE None]
ParInfo(h, lhc, par) == [has |-> TRUE, lhc |-> lhc, par |-> IF h = lhc THEN par ELSE 0]

\* what the driver reads back through the load APIs over the whole window
Proj ==
  [height |-> bh,
   blocks |-> [i \in 1..(MaxFirst + MaxLen + 3) |-> <<blk[i - 1], cmt[i - 1], seen[i - 1]>>],      \* index i <-> height i-1
   vals   |-> [i \in 1..(MaxLen + 6) |-> LET s == LoadValidators(H0 - 3 + i) IN <<s.ver, s.age>>],   \* heights H0-2 ..
   pars   |-> [i \in 1..(MaxLen + 6) |-> LoadParams(H0 - 3 + i)],
   last   |-> last]

Init ==
  /\ bh = 0 /\ blk = [h \in BHs |-> 0] /\ cmt = [h \in BHs |-> 0] /\ seen = [h \in BHs |-> 0]
  /\ last = H0 - 2
  /\ vinfo = [h \in SHs |-> NoV] /\ pinfo = [h \in SHs |-> NoP]
  /\ cur = [vals |-> None, nextvals |-> None, lhcv |-> 0, par |-> 0, lhcp |-> 0, vver |-> 0, pver |-> 0]
  /\ tvals = [h \in SHs |-> None] /\ tpars = [h \in SHs |-> 0]
  /\ hist = <<>>

Log(rec) == hist' = Append(hist, rec @@ [st |-> Proj'])

\* ---------------------------------------------------------------- block store
SaveBlock(h, v) ==
  /\ Len(hist) < MaxLen /\ h \in BHs /\ h >= 1
  /\ IF bh # 0 /\ h # bh + 1
     THEN /\ UNCHANGED vars                                   \* panic "can only save contiguous blocks"
          /\ Log([act |-> "SaveBlock", h |-> h, v |-> v, reply |-> "panic"])
     ELSE /\ blk' = [blk EXCEPT ![h] = v]
          /\ cmt' = [cmt EXCEPT ![h - 1] = v]
          /\ seen' = [seen EXCEPT ![h] = v]
          /\ bh' = h
          /\ UNCHANGED <<last, vinfo, pinfo, cur, tvals, tpars>>
          /\ Log([act |-> "SaveBlock", h |-> h, v |-> v, reply |-> "ok"])

\* NewBlockStore / LoadState on the same database
Reopen ==
  /\ Len(hist) < MaxLen /\ UNCHANGED vars
  /\ Log([act |-> "Reopen"])

\* ---------------------------------------------------------------- state store
\* MakeGenesisState + SaveState: the first state (LastBlockHeight = H0-1)
Genesis ==
  /\ Len(hist) < MaxLen /\ last = H0 - 2
  /\ LET v0 == [ver |-> 1, age |-> 0]
         v1 == [ver |-> 1, age |-> 1] IN
     /\ cur' = [vals |-> v0, nextvals |-> v1, lhcv |-> H0, par |-> 1, lhcp |-> H0, vver |-> 1, pver |-> 1]
     /\ last' = H0 - 1
     /\ vinfo' = [vinfo EXCEPT ![H0] = ValInfo(H0, H0, v0), ![H0 + 1] = ValInfo(H0 + 1, H0, v1)]
     /\ pinfo' = [pinfo EXCEPT ![H0] = ParInfo(H0, H0, 1)]
     /\ tvals' = [tvals EXCEPT ![H0] = v0, ![H0 + 1] = v1]
     /\ tpars' = [tpars EXCEPT ![H0] = 1]
     /\ UNCHANGED <<bh, blk, cmt, seen>>
     /\ Log([act |-> "Genesis"])

\* updateState for block last+1 (cv: it carries validator updates, cp: parameter updates) + SaveState
Apply(cv, cp) ==
  /\ Len(hist) < MaxLen /\ last >= H0 - 1 /\ last + 3 \in SHs
  /\ LET hh == last + 1                                         \* header.Height
         nv == IF cv THEN [ver |-> cur.vver + 1, age |-> 1] ELSE [cur.nextvals EXCEPT !.age = @ + 1]
         lv == IF cv THEN hh + 2 ELSE cur.lhcv
         np == IF cp THEN cur.pver + 1 ELSE cur.par
         lp == IF cp THEN hh + 1 ELSE cur.lhcp IN
     /\ cur' = [vals |-> cur.nextvals, nextvals |-> nv, lhcv |-> lv, par |-> np, lhcp |-> lp,
                vver |-> IF cv THEN cur.vver + 1 ELSE cur.vver, pver |-> IF cp THEN cur.pver + 1 ELSE cur.pver]
     /\ last' = hh
     /\ pinfo' = [pinfo EXCEPT ![hh + 1] = ParInfo(hh + 1, lp, np)]
     /\ vinfo' = [vinfo EXCEPT ![hh + 2] = ValInfo(hh + 2, lv, nv)]
     /\ tvals' = [tvals EXCEPT ![hh + 2] = nv]
     /\ tpars' = [tpars EXCEPT ![hh + 1] = np]
     /\ UNCHANGED <<bh, blk, cmt, seen>>
     /\ Log([act |-> "Apply", cv |-> cv, cp |-> cp, h |-> hh])

Next == \/ \E h \in BHs, v \in 1..NV :
             /\ (bh = 0 => h \in FirstHs) /\ (bh # 0 => h \in (bh - 1)..(bh + 2))
             /\ SaveBlock(h, v)
        \/ Reopen \/ Genesis
        \/ \E cv, cp \in BOOLEAN : Apply(cv, cp)

Spec == Init /\ [][Next]_<<vars, hist>>
View == vars

\* ---------------------------------------------------------------- properties (C41)
\* every saved block is loadable and the loads are the saved data: stated on the layout
LoadEqualsSaved == \A h \in BHs : (blk[h] # 0) => (seen[h] = blk[h] /\ (h >= 1 => cmt[h - 1] = blk[h]))
Contiguous == \A h \in BHs : (blk[h] # 0 /\ h < bh) => blk[h + 1] # 0
HeightIsLastSaved == (bh = 0 /\ \A h \in BHs : blk[h] = 0) \/ (bh # 0 /\ blk[bh] # 0 /\ \A h \in BHs : h > bh => blk[h] = 0)
HeightMonotone == [][bh' >= bh]_vars
\* the lookups return the value in effect at every height, across checkpoints
ValsAtHeightCorrect == \A h \in SHs : LoadValidators(h) = tvals[h]
ParamsAtHeightCorrect == \A h \in SHs : LoadParams(h) = tpars[h]
KnownRange == \A h \in SHs : /\ (tvals[h] # None <=> (last >= H0 - 1 /\ h >= H0 /\ h <= last + 2))
                             /\ (tpars[h] # 0 <=> (last >= H0 - 1 /\ h >= H0 /\ h <= last + 1))
TypeOK == bh \in BHs /\ last \in (H0 - 2)..(H0 + MaxLen)

Emit == PrintT(<<"TRACE", ToJson(hist)>>)
EmitAtEnd == Len(hist) < MaxLen \/ Emit
EmitEdge == PrintT(<<"EDGE", ToJson(hist')>>)
=============================================================================
