---------------------------- MODULE MCValidatorSet ----------------------------
EXTENDS ValidatorSet
Ch(k, p) == [k |-> k, pow |-> p, cls |-> "ok"]
Singles(K, PV) == {<<Ch(k, p)>> : k \in K, p \in PV}
Pairs(K, PV) == {<<Ch(k1, p1), Ch(k2, p2)>> : k1 \in K, k2 \in K, p1 \in PV, p2 \in PV}
\* triples over distinct keys in ascending or descending address order
Triples(K, PV) == {<<Ch(k1, p1), Ch(k2, p2), Ch(k3, p3)>> : k1 \in K, k2 \in K, k3 \in K, p1 \in PV, p2 \in PV, p3 \in PV}
TriplesMono(K, PV) == {t \in Triples(K, PV) : (t[1].k < t[2].k /\ t[2].k < t[3].k) \/ (t[1].k > t[2].k /\ t[2].k > t[3].k)}
Malformed == { <<[k |-> 1, pow |-> 1, cls |-> "nopub"]>>, <<Ch(2, 1), [k |-> 1, pow |-> 2, cls |-> "badaddr"]>>,
               <<[k |-> 3, pow |-> 0, cls |-> "zeroaddr"]>>, <<>> }

\* fairness cfgs: every power vector over 4 keys
Vec4p3 == [1..4 -> 0..3]
Vec4p5 == [1..4 -> 0..5]
NoChanges == {}
T1 == {1}
T12 == {1, 2}
T123 == {1, 2, 3}

\* exhaustive update cfgs (3 keys)
K3 == 1..3
PVq == {-1, 0, 1, 3}
InitQ == { <<1, 1, 1>>, <<3, 0, 1>> }
ChQ == Singles(K3, PVq) \cup Pairs(K3, PVq) \cup Malformed
InitT == { <<1, 1, 1>>, <<3, 0, 1>>, <<0, 0, 0>>, <<1, 2, 5>> }
PVt == {-1, 0, 1, 2, 5}
ChT == Singles(K3, PVt) \cup Pairs(K3, PVt) \cup Malformed

\* simulation (4 keys)
K4 == 1..4
PVs == {-1, 0, 1, 2, 5}
InitS == { <<1, 1, 1, 1>>, <<5, 1, 0, 0>>, <<1, 2, 3, 4>>, <<0, 0, 2, 0>>, <<0, 0, 0, 0>>, <<5, 5, 1, 1>> }
ChS == Singles(K4, PVs) \cup Pairs(K4, PVs) \cup TriplesMono(K4, {0, 1, 2, 5}) \cup Malformed

\* bound of the total voting power: MaxTotal = 100 in the model
PVb == {0, 1, 2, 98, 99, 100, 101}
InitB == { <<1, 1, 0>>, <<99, 0, 0>>, <<98, 1, 0>>, <<0, 100, 0>>, <<1, 0, 98>>, <<97, 1, 1>> }
ChB == Singles(K3, PVb) \cup Pairs(K3, PVb)
=============================================================================
