CONSTANTS
  MaxPrice = 2147483647
  ParamSets <- ParamsS
  UsedVals <- UsedS
  StartPrices <- PricesS
  PriceCap = 100000
  MaxLen = 16
  NewParams <- ParamsS
INIT Init
NEXT Next
VIEW View
INVARIANTS TypeOK NoRatchet
PROPERTIES UpStep DownStep FloorStep StayStep BoundsStep
INVARIANT EmitAtEnd
