---------------------------- MODULE MCBaseApp ----------------------------
(* Exhaustive configuration of BaseApp.tla: transactions from a named menu chosen to hit
   every phase outcome (DESIGN 6.B C02: the cross product of fields belongs to simulation). *)
EXTENDS BaseApp
VARIABLES ntx, nblk
CONSTANTS MaxTxs, MaxBlocks

MCUsers == {"a", "b"}
MCOthers == {"z", "realm", "dep", "coll"}
MCVars == {"x"}
MCGasNeeds == {1, 2}

M(kind, to, amt, val) == [kind |-> kind, to |-> to, amt |-> amt, var |-> "x", val |-> val, dep |-> 0]
T(signer, sq, sigok, fee, gw, msgs) == [signer |-> signer, seq |-> sq, sigok |-> sigok, fee |-> fee, gw |-> gw, msgs |-> msgs]

\* seq = -1 means "the signer's current sequence" (resolved at Begin)
TxMenu == {
  T("a", -1, TRUE, 1, 5, <<M("send", "b", 1, 0)>>),                               \* valid send
  T("a", -1, TRUE, 1, 5, <<M("send", "z", 1, 0), M("send", "b", 3, 0)>>),          \* overdraft in message 2
  T("a", -1, TRUE, 1, 5, <<M("set", "b", 0, 7), M("setpanic", "b", 0, 9)>>),       \* set then panic
  T("b", -1, TRUE, 1, 5, <<M("inc", "b", 0, 0)>>),                                 \* reads what an earlier tx may have left
  T("a", -1, TRUE, 1, 2, <<M("set", "b", 0, 5)>>),                                 \* tx out of gas in message 1 (need 2) or ok (need 1)
  T("a", -1, TRUE, 1, 4, <<M("send", "b", 1, 0), M("set", "b", 0, 6)>>),           \* may run out in message 2
  T("b", -1, TRUE, 1, 6, <<M("setpay", "b", 1, 4), M("burn", "b", 0, 0)>>),        \* burns: always out of gas after a paid call
  T("b", -1, TRUE, 1, 6, <<M("setpay", "b", 2, 3)>>),                              \* paid call
  T("a", -1, FALSE, 1, 5, <<M("send", "b", 1, 0)>>),                               \* bad signature
  T("a", 7, TRUE, 1, 5, <<M("send", "b", 1, 0)>>),                                 \* stale / future sequence
  T("a", -1, TRUE, 9, 5, <<M("send", "b", 1, 0)>>),                                \* fee above balance
  T("a", -1, TRUE, 1, 7, <<M("send", "b", 1, 0)>>),                                \* GasWanted above MaxGas
  T("a", -1, TRUE, 1, 0, <<M("send", "b", 1, 0)>>),                                \* GasWanted below the ante cost
  T("z", -1, TRUE, 1, 5, <<M("send", "b", 1, 0)>>)                                 \* unknown signer
}

Resolve(t) == IF t.seq = -1 /\ t.signer \in MCUsers THEN [t EXCEPT !.seq = seq[t.signer]] ELSE t

MCInit ==
  /\ InitWith([n \in MCUsers \cup MCOthers |-> IF n \in MCUsers THEN 3 ELSE 0],
              [n \in MCUsers |-> 0], [v \in MCVars |-> 1], 6)
  /\ ntx = 0 /\ nblk = 1

MCNext ==
  \/ /\ ntx < MaxTxs
     /\ \E t \in TxMenu : Begin(Resolve(t), [pre |-> 2, total |-> -1])
     /\ ntx' = ntx + 1 /\ UNCHANGED nblk
  \/ (Ante \/ Msg \/ Charge \/ Finish) /\ UNCHANGED <<ntx, nblk>>
  \/ nblk < MaxBlocks /\ BeginBlock /\ nblk' = nblk + 1 /\ UNCHANGED ntx

MCSpec == MCInit /\ [][MCNext]_<<vars, ntx, nblk>>
TotalConserved == Total = 6
\* reachability witnesses (checked by negation in a separate run): every outcome class occurs
SomeBlockGas == res.why # "blockgas"
SomeNoBlockGas == res.why # "noblockgas"
SomePreOOG == res.why # "preoog"
=============================================================================
