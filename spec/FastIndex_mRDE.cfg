CONSTANTS
  Keys <- K2
  Vals <- V2
  MaxVer = 3
  Direct = TRUE
  Keep <- KeepAll
  NLoads = 1
  Abandon = TRUE
  Toggle = TRUE
  RemoveDeletesEntry = FALSE
  VersionGuard = TRUE
  StampGate = TRUE
  ReaderMaintains = FALSE
  StampAheadRebuilds = FALSE
  MaxLen = 14
INIT Init
NEXT Next
VIEW StateView
INVARIANTS TypeOK LiveSound ImmSound QuerySound ReaderSound StampNeverAhead
PROPERTIES LoaderLeavesDisk
