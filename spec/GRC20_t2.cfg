CONSTANTS
  NA = 3
  Cap = 7
  Amts <- AmtsL
  Vias <- ViasLedger
  MaxLen = 4
  AsCode = FALSE
  Quiet = TRUE
INIT Init
NEXT Next
VIEW View
INVARIANTS TypeOK SupplyEq
PROPERTIES FailedIsNoOp TransferNeutral AllowanceHonoured MintBurnExact

