CONSTANTS
  NA = 2
  Cap = 3
  Amts <- AmtsM
  Vias <- ViasAll
  MaxLen = 4
  AsCode = FALSE
  Quiet = FALSE
INIT Init
NEXT Next
VIEW View
INVARIANTS TypeOK SupplyEq
PROPERTIES FailedIsNoOp TransferNeutral AllowanceHonoured MintBurnExact
ACTION_CONSTRAINT EmitEdge
