SPECIFICATION Spec
CONSTANTS
  Addrs <- A4
  Amts <- Amt01
  Cap = 100
  MaxLen = 3
  MaxTime = 2
  RawOps = TRUE
  IOIns <- InsQ3
  IOOuts <- OutsQ3
  Genesis <- Gen3
VIEW View
INVARIANTS SupplyEq BalanceWellFormed SupplyWellFormed HolderHasAccount NumsUnique
PROPERTIES OnlyMintBurnChangeSupply TransferNeutral MintBurnExact FailedChangesNothing AccountsStable
ACTION_CONSTRAINT EmitEdge
