CONSTANTS
  Heights <- H13
  Rounds <- R02
  Data <- DataABC
  TS <- TS12
  MaxLen = 12
  MaxCrash = 4
INIT Init
NEXT Next
VIEW View
INVARIANTS TypeOK NoDoubleSign ReleasedPersisted MemIsDiskWhenIdle
PROPERTIES Monotone DiskMonotone
INVARIANT EmitAtEnd
