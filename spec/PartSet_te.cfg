CONSTANTS
  Totals <- Tt
  Classes <- ClsAll
  Mode = "all"
  MaxLen = 12
INIT Init
NEXT Next
VIEW View
INVARIANTS TypeOK CountIsCard CompleteIffAll OnlyGoodStored ReassembledEqualsOriginal
PROPERTIES StepShape
ACTION_CONSTRAINT EmitEdge
