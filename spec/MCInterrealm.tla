---------------------------- MODULE MCInterrealm ----------------------------
(* Constants and shape tables of Interrealm.tla.  Every name in the tables has a Gno template of the
   same name in harness/cmd/interrealm/shapes.go. *)
EXTENDS Interrealm

\* S = the MsgRun script (/e/), A = attacker realm, R = victim realm, L = trusted /p/ library,
\* Q = /p/ package written by the attacker
\* T = a library with mutating methods on named types that the victim never applied to its data (stdlib sort)
MCPkgs == {"S", "A", "R", "L", "Q", "T"}
MCKindOf == [p \in MCPkgs |-> CASE p = "S" -> "e" [] p \in {"A", "R"} -> "r" [] OTHER -> "p"]

PtrT == {"getT", "gp", "addrG", "ifaceT", "ganyT", "ptrs0", "selfT", "rangeT"}
ValT == {"valT", "gval"}
SliceP == {"getSlice", "gs", "fieldSl", "methSl", "ifaceSl", "valSl", "arrSl"}
MapP == {"getMap", "gm", "fieldM", "ifaceM", "valM"}
PtrInt == {"fieldPtr", "elemPtr", "addrField", "addrElem", "addrGI", "addrArrEl"}
PtrArr == {"arrPtr", "addrGArr"}
PtrBox == {"getBox", "gb", "fieldB"}
IntV == {"gi"}
CtlP == {"setter", "bumper", "bump", "zero", "swapown"}
StrP == {"getStrs", "gstr"}
FlP == {"getFloats", "gfl"}
NamedP == {"getScores", "gscores"}
ByteP == {"getBytes", "gbytes"}
RuneP == {"getRunes", "grunes"}
CtorP == {"ctor"}
PcurP == {"pcur"}
CbP == {"cbT", "cbSlice", "cbBox"}
Plain == PtrT \cup ValT \cup SliceP \cup MapP \cup PtrInt \cup PtrArr \cup PtrBox \cup IntV \cup CtorP \cup StrP \cup FlP \cup NamedP \cup ByteP \cup RuneP
InlOK == {"getT", "gp", "ifaceT", "ganyT", "ptrs0", "selfT", "gval", "getSlice", "gs", "fieldSl", "methSl", "ifaceSl", "valSl",
          "getMap", "gm", "fieldM", "ifaceM", "valM", "fieldPtr", "elemPtr", "arrPtr", "getBox", "gb", "fieldB", "gi",
          "getStrs", "gstr", "getFloats", "gfl", "getScores", "gscores", "getBytes", "gbytes", "getRunes", "grunes"}

TypOf(p) == CASE p \in PtrT \cup {"cbT"} -> "ptrT" [] p \in ValT -> "valT" [] p \in SliceP \cup {"cbSlice"} -> "sliceInt"
              [] p \in MapP -> "mapSI" [] p \in PtrInt -> "ptrInt" [] p \in PtrArr -> "ptrArr"
              [] p \in PtrBox \cup {"cbBox"} -> "ptrBox" [] p \in IntV -> "intv" [] p \in StrP -> "sliceStr" [] p \in FlP -> "sliceFl" [] p \in NamedP -> "namedInts" [] p \in ByteP -> "sliceByte" [] p \in RuneP -> "sliceRune" [] p \in CtorP -> "ctor" [] p \in PcurP -> "pcur" [] OTHER -> "ctl"
ViaOf(p) == CASE p = "setter" -> <<C("R", "R")>> [] p \in {"bumper", "bump", "swapown"} -> <<M("R", "R")>> [] p = "zero" -> <<X("R")>> [] OTHER -> <<>>

MCPaths == {[name |-> p, typ |-> TypOf(p), inl |-> (p \in InlOK), pname |-> (TypOf(p) \notin {"ptrT", "valT", "ctl", "ctor", "pcur", "namedInts"}), via |-> ViaOf(p)]
            : p \in Plain \cup CtlP \cup CbP \cup PcurP}

WK(nm, ty) == [name |-> nm, typ |-> ty, via |-> <<>>, needcur |-> FALSE, conv |-> None, convAt |-> 0]
WKL(nm, ty) == [name |-> nm, typ |-> ty, via |-> <<M("L", "R")>>, needcur |-> FALSE, conv |-> None, convAt |-> 0]
\* conversion kinds: re-type the victim-owned handle (conv = target package, "own" = a type the attacker declares next to
\* the statement, "U" = an unnamed type), then write through it along `via`
CV(nm, ty, cv, via, at) == [name |-> nm, typ |-> ty, via |-> via, needcur |-> FALSE, conv |-> cv, convAt |-> at]
MCWrites ==
  {WK(x, "ptrT") : x \in {"fN", "fS", "fInN", "fPN", "fArr", "fSl", "fMins", "fMdel", "fInc", "fOp", "fWhole", "fAny", "fP", "fSwap", "fApp", "fBoxV", "fTags"}}
  \cup {WKL("tBoxSet", "ptrT")}
  \cup {WK(x, "valT") : x \in {"vN", "vSl", "vM", "vPN", "vBoxV", "vArr"}}
  \cup {WK(x, "sliceInt") : x \in {"sIdx", "sInc", "sAppAlias", "sAppSpare", "sCopy", "sRange", "sReslice", "sElemPtr", "sSwap"}}
  \cup {WK(x, "mapSI") : x \in {"mIns", "mUpd", "mDel", "mInc", "mOp"}}
  \cup {WK(x, "ptrInt") : x \in {"pStar", "pInc", "pOp"}}
  \cup {WK(x, "ptrArr") : x \in {"aIdx", "aStar", "aWhole", "aSlice", "aRange"}}
  \cup {WK(x, "ptrBox") : x \in {"bV", "bTags", "bKids", "bDel", "bWhole", "bInc"}}
  \cup {WKL(x, "ptrBox") : x \in {"boxSet", "boxTag", "boxPut", "boxMV", "boxDeferSet"}}
  \cup {WK(x, "intv") : x \in {"iSet", "iInc", "iOp"}}
  \cup {WK(x, "ctor") : x \in {"cLit", "cPtr", "cNew", "cInner", "cConv"}}
  \cup {WK(x, "pcur") : x \in {"rVar", "rPrev", "rField", "rSlice", "rMap", "rClosure", "rAny"}}
  \cup {[name |-> "call", typ |-> "ctl", via |-> <<>>, needcur |-> FALSE, conv |-> None, convAt |-> 0]}
  \cup {WK(x, "sliceStr") : x \in {"ssIdx"}} \cup {WK(x, "sliceFl") : x \in {"flIdx"}} \cup {WK(x, "namedInts") : x \in {"nsIdx"}}
  \* (b) library named types with mutating methods
  \cup {CV("cvSortSwap", "sliceInt", "T", <<M("T", "R")>>, 0), CV("cvSortRev", "sliceInt", "T", <<F("T"), M("T", "R")>>, 0),
        CV("cvSortInts", "sliceInt", "T", <<F("T"), M("T", "R")>>, 1),
        CV("cvLibSet", "sliceInt", "L", <<M("L", "R")>>, 0), CV("cvLibSwap", "sliceInt", "L", <<M("L", "R")>>, 0), CV("cvLibIdx", "sliceInt", "L", <<>>, 0),
        CV("cvLibMapPut", "mapSI", "L", <<M("L", "R")>>, 0), CV("cvLibMapDel", "mapSI", "L", <<M("L", "R")>>, 0),
        CV("cvLibArrSet", "ptrArr", "L", <<M("L", "R")>>, 0), CV("cvLibArrIdx", "ptrArr", "L", <<>>, 0),
        CV("cvLibTwinSet", "ptrBox", "L", <<M("L", "R")>>, 0), CV("cvLibTwinField", "ptrBox", "L", <<>>, 0), CV("cvLibTwinVal", "ptrBox", "L", <<M("L", None)>>, 0),
        CV("cvStrSwap", "sliceStr", "T", <<M("T", "R")>>, 0), CV("cvStrSort", "sliceStr", "T", <<F("T"), M("T", "R")>>, 1),
        CV("cvFlSwap", "sliceFl", "T", <<M("T", "R")>>, 0), CV("cvFlSort", "sliceFl", "T", <<F("T"), M("T", "R")>>, 1),
        CV("cvNamedSortSwap", "namedInts", "T", <<M("T", "R")>>, 0)}
  \* (a) attacker-declared named types (value and pointer receivers; through sort.Sort)
  \cup {CV("cvOwnSet", "sliceInt", "own", <<M("own", "R")>>, 0), CV("cvOwnSetP", "sliceInt", "own", <<M("own", None)>>, 0),
        CV("cvOwnIdx", "sliceInt", "own", <<>>, 0), CV("cvOwnSort", "sliceInt", "own", <<F("T"), M("own", "R")>>, 0),
        CV("cvOwnMapPut", "mapSI", "own", <<M("own", "R")>>, 0), CV("cvOwnMapIdx", "mapSI", "own", <<>>, 0),
        CV("cvOwnArrSet", "ptrArr", "own", <<M("own", "R")>>, 0), CV("cvOwnTwinSet", "ptrBox", "own", <<M("own", "R")>>, 0)}
  \* element kinds uint8 / int32: the only sources doOpConvert lets through (to STRING only: byString / ruString are the legal control)
  \cup {WK(x, "sliceByte") : x \in {"byIdx", "byString"}} \cup {WK(x, "sliceRune") : x \in {"ruIdx", "ruString"}}
  \cup {CV("cvLibBytesSet", "sliceByte", "L", <<M("L", "R")>>, 0), CV("cvLibBytesSwap", "sliceByte", "L", <<M("L", "R")>>, 0),
        CV("cvLibBytesSetP", "sliceByte", "L", <<M("L", None)>>, 0), CV("cvOwnBytesSet", "sliceByte", "own", <<M("own", "R")>>, 0),
        CV("cvLibRunesSet", "sliceRune", "L", <<M("L", "R")>>, 0), CV("cvLibRunesSwap", "sliceRune", "L", <<M("L", "R")>>, 0),
        CV("cvLibRunesSetP", "sliceRune", "L", <<M("L", None)>>, 0), CV("cvOwnRunesSet", "sliceRune", "own", <<M("own", "R")>>, 0)}
  \* (c) unnamed <-> named
  \cup {CV("cvUnnamedIdx", "namedInts", "U", <<>>, 0), CV("cvUnnamedSort", "namedInts", "U", <<F("T"), M("T", "R")>>, 0)}

NoCur == {"bumper", "bump", "setter", "swapown"}
CX(nm, calls, paths, ponly, inl, hascur) == [name |-> nm, calls |-> calls, paths |-> paths, ponly |-> ponly, inl |-> inl, hascur |-> hascur]
BoxOnly == PtrBox
MCCtxs == {
  CX("s_main", <<>>, Plain \cup CtlP, FALSE, TRUE, TRUE),
  \* "_flush": the script ends with victim.TouchNC() (a content-preserving rewrite of all victim objects by the victim
  \* itself), so that a change the attacker made only in memory would be saved; judged on Dump() alone
  CX("s_main_flush", <<>>, Plain, FALSE, TRUE, FALSE),
  CX("a_cross_flush", <<X("A")>>, Plain, FALSE, TRUE, FALSE),
  CX("s_clo_Rx_flush", <<X("R"), C("S", "S")>>, Plain, FALSE, TRUE, FALSE),
  CX("q_fn_s_flush", <<F("Q")>>, Plain, TRUE, FALSE, FALSE),
  CX("s_fn", <<F("S")>>, Plain, FALSE, TRUE, FALSE),
  CX("s_defer", <<C("S", "S")>>, Plain, FALSE, TRUE, FALSE),
  CX("s_clo_Rx", <<X("R"), C("S", "S")>>, Plain, FALSE, TRUE, FALSE),
  CX("s_clo_Rnc", <<F("R"), C("S", "S")>>, Plain, FALSE, TRUE, FALSE),
  CX("s_fn_Rx", <<X("R"), F("S")>>, Plain, FALSE, TRUE, FALSE),
  CX("s_fn_Rnc", <<F("R"), F("S")>>, Plain, FALSE, TRUE, FALSE),
  CX("s_clo_L", <<F("L"), C("S", "S")>>, Plain, FALSE, TRUE, FALSE),
  CX("a_cross", <<X("A")>>, Plain \cup CtlP \cup PcurP, FALSE, TRUE, TRUE),
  CX("a_nc", <<F("A")>>, Plain \cup NoCur, FALSE, TRUE, FALSE),
  CX("a_clo_Rx", <<X("A"), X("R"), C("A", "A")>>, Plain, FALSE, TRUE, FALSE),
  CX("a_fn_Rx", <<X("A"), X("R"), F("A")>>, Plain, FALSE, TRUE, FALSE),
  CX("a_defer", <<X("A"), C("A", "A")>>, Plain, FALSE, TRUE, FALSE),
  CX("a_method_Rx", <<X("A"), X("R"), M("A", "A")>>, Plain, FALSE, TRUE, FALSE),
  CX("q_fn_s", <<F("Q")>>, Plain, TRUE, FALSE, FALSE),
  CX("q_fn_a", <<X("A"), F("Q")>>, Plain, TRUE, FALSE, FALSE),
  CX("q_clo_Rx", <<X("R"), C("Q", "S")>>, Plain, TRUE, FALSE, FALSE),
  \* a value receiver of a /p/ type is COPIED by the calling frame and the copy is stamped with the caller's storage
  \* context (values.go StructValue.Copy: type-driven stamping, gno-interrealm-v2 3.2 item 3): no anchor, the method
  \* inherits (documented class (C) of gno-security-guide: victim invokes a caller-supplied interface value)
  CX("q_method_Rx", <<X("R"), M("Q", None)>>, Plain, TRUE, FALSE, FALSE),
  CX("q_pmethod_Rx", <<X("R"), M("Q", "S")>>, Plain, TRUE, FALSE, FALSE),
  CX("s_method_Rx", <<X("R"), M("S", "S")>>, Plain, FALSE, TRUE, FALSE),
  CX("s_pmethod_Rx", <<X("R"), M("S", "S")>>, Plain, FALSE, TRUE, FALSE),
  CX("q_fn_Rcb", <<X("R"), F("Q")>>, {"cbSlice", "cbBox"}, TRUE, FALSE, FALSE),
  CX("s_cbparam", <<X("R"), C("S", "S")>>, CbP, FALSE, FALSE, FALSE),
  CX("s_fn_cbparam", <<X("R"), F("S")>>, CbP, FALSE, FALSE, FALSE),
  CX("a_cbparam", <<X("A"), X("R"), C("A", "A")>>, CbP, FALSE, FALSE, FALSE),
  CX("a_fn_cbparam", <<X("A"), X("R"), F("A")>>, CbP, FALSE, FALSE, FALSE),
  CX("l_apply_clo", <<M("L", "R"), C("S", "S")>>, BoxOnly, FALSE, FALSE, FALSE),
  CX("l_apply_sfn", <<M("L", "R"), F("S")>>, BoxOnly, FALSE, FALSE, FALSE),
  CX("l_apply_afn", <<X("A"), M("L", "R"), F("A")>>, BoxOnly, FALSE, FALSE, FALSE),
  CX("l_apply_qfn", <<M("L", "R"), F("Q")>>, BoxOnly, TRUE, FALSE, FALSE)
}
=============================================================================
