SPECIFICATION Spec
CONSTANTS
  Kinds <- AllKinds
  Muts <- AllMuts
  TxMuts <- AllTxMuts
  SubWheres <- AllWheres
  ReWheres <- AllWheres
  MaxLen = 7
VIEW View
INVARIANTS TypeOK Conservation
PROPERTIES NoReplay SeqBumpedExactlyOnce AnteRejectIsNoOp OnlyValidTakeEffect SeqMonotone
INVARIANT EmitAtEnd
