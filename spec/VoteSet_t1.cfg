CONSTANTS
  Power <- P1234
  Blocks <- BlocksABN
  Peers <- Peers2
  MaxLen = 6
  Classes <- ClsCore
INIT Init
NEXT Next
VIEW View
INVARIANTS TypeOK Maj23Exact Maj23Reported SumExact CommitCarriesMajority PrimaryTracked ConflictNeedsPeerClaim
PROPERTIES FirstStable

