SPECIFICATION Spec
CONSTANTS
  Sess <- S2
  Menu <- MenuQ
  Creates <- CreatesQ
  Fees <- F12
  Pre <- PreB
  MaxTime = 3
  MaxLen = 3
VIEW View
INVARIANTS TypeOK WithinLimit UsedCovers
PROPERTIES DeadAuthorizesNothing RejectIsFree StepWithinBudget Independent
ACTION_CONSTRAINT EmitEdge
