---------------------------- MODULE Coins ----------------------------
(* C18. tm2/pkg/std/coin.go: Coins.Add / Sub (AddUnsafe's two-pointer merge, removeZeroCoins,
   Coin.AddUnsafe's overflow check, validate), the comparison helpers, AmountOf, IsValid, IsZero,
   and ParseCoins(String()).

   A coin set is a sequence of [d, n] (denomination index 1..ND in lexical order, amount),
   strictly increasing in d; amounts range over Amts (zero and negative entries included, as
   Add's own doc comment allows: {2A} + {0B} = {2A}); MIN..MAX are the representable amounts
   (the driver embeds them into int64 by v -> v * 2^k, an exact homomorphism for + and -,
   so "leaves MIN..MAX" = "overflows int64").

   Two layers:
   * PROPERTY (statement of C18): the multiset model. AmountOf(s, i) = amount of denomination i
     (0 when absent); ModelAdd/ModelSub = the canonical (sorted, zero-free) sequence of the
     per-denomination sum/difference, "panic" iff some result amount leaves MIN..MAX or the
     result is invalid (a non-positive amount remains). Operands are never modified: the
     registers x, y change only by the explicit assignment x := result.
   * DESIGN: the code's algorithm as it is meant to work - Merge = AddUnsafe's merge loop with
     the zero filter producing a FRESH sequence and Sub subtracting coin by coin with the
     overflow check on the difference. The invariant ImplMatchesModel ties the two.
   The expected values of every step come from the PROPERTY layer.

   Where the code contradicts the statement (soundness rule 3, the spec does not follow it):
   * removeZeroCoins deletes in place inside an operand's backing array (DESIGN 8-F3);
   * Sub is implemented as Add(negative(b)); -1 * MinInt64 wraps, so {x<0}.Sub({MinInt64})
     panics although x - MinInt64 is representable.

   Named conventions of the comparison helpers that are not plain per-denomination quantifiers
   (cosmos heritage, documented by the doc comments / repository tests; modelled as documented,
   verdict taken on VALID sets only):
   * {}.IsAllGT(b) is false even for b = {}; IsAnyGT/IsAnyGTE ignore denominations absent from b;
   * IsEqual panics when two equally long sets differ in a denomination (TestEqualCoins):
     the driver reads "false or that panic" as not-equal.                                   *)
EXTENDS Integers, Sequences, FiniteSets, TLC, Json

CONSTANTS ND,        \* number of denominations
          Amts,      \* amounts an operand entry may carry
          MIN, MAX,  \* representable amounts
          MaxLen,    \* bound on Len(hist)
          Ops        \* enabled actions, subset of {"Add", "Sub", "Cmp", "Query", "Parse", "Swap"}

VARIABLES x, y,      \* two registers holding coin sets (x is also the accumulator)
          hist
vars == <<x, y>>
View == vars

Denoms == 1..ND
ABSENT == MIN - 1000

RECURSIVE SeqFrom(_, _)
SeqFrom(f, i) == IF i > ND THEN <<>>
                 ELSE (IF f[i] = ABSENT THEN <<>> ELSE <<[d |-> i, n |-> f[i]]>>) \o SeqFrom(f, i + 1)
CoinSeqs == {SeqFrom(f, 1) : f \in [Denoms -> Amts \cup {ABSENT}]}

\* ---------------------------------------------------------------- PROPERTY layer
AmountOf(s, i) == LET K == {k \in 1..Len(s) : s[k].d = i}
                  IN IF K = {} THEN 0 ELSE s[CHOOSE k \in K : TRUE].n
Dom(s) == {s[k].d : k \in 1..Len(s)}
InRange(v) == MIN <= v /\ v <= MAX
Canon(f) == SeqFrom([i \in Denoms |-> IF f[i] = 0 THEN ABSENT ELSE f[i]], 1)
Ok(s) == [panic |-> FALSE, out |-> s]
Panic == [panic |-> TRUE, out |-> <<>>]
\* sorted, unique, positive (denominations are valid by construction)
ValidSeq(s) == \A k \in 1..Len(s) : s[k].n > 0 /\ (k > 1 => s[k - 1].d < s[k].d)

ModelOp(a, b, sgn) ==
  LET f == [i \in Denoms |-> AmountOf(a, i) + sgn * AmountOf(b, i)] IN
  IF \E i \in Denoms : ~InRange(f[i]) THEN Panic          \* a result amount overflows
  ELSE IF \E i \in Denoms : f[i] < 0 THEN Panic           \* the result is invalid
  ELSE Ok(Canon(f))
ModelAdd(a, b) == ModelOp(a, b, 1)
ModelSub(a, b) == ModelOp(a, b, -1)

\* ---------------------------------------------------------------- DESIGN layer (coin.go)
NonZero(s) == SelectSeq(s, LAMBDA c : c.n # 0)           \* removeZeroCoins, into a fresh sequence
Cons(h, r) == IF r.panic THEN Panic ELSE Ok(h \o r.out)
One(d, n) == IF n = 0 THEN <<>> ELSE <<[d |-> d, n |-> n]>>
RECURSIVE Merge(_, _, _, _, _)
Merge(A, B, i, j, sgn) ==                                 \* AddUnsafe's loop, indexA = i, indexB = j
  IF i > Len(A)
  THEN IF j > Len(B) THEN Ok(<<>>)
       ELSE LET tail == SubSeq(B, j, Len(B)) IN           \* "return set B (excluding zero coins)"
            IF \E k \in 1..Len(tail) : ~InRange(sgn * tail[k].n) THEN Panic
            ELSE Ok(NonZero([k \in 1..Len(tail) |-> [d |-> tail[k].d, n |-> sgn * tail[k].n]]))
  ELSE IF j > Len(B) THEN Ok(NonZero(SubSeq(A, i, Len(A))))   \* "return set A (excluding zero coins)"
  ELSE LET ca == A[i]
           cb == B[j]
       IN IF ca.d < cb.d THEN Cons(One(ca.d, ca.n), Merge(A, B, i + 1, j, sgn))
          ELSE IF ca.d = cb.d
               THEN LET r == ca.n + sgn * cb.n IN          \* Coin.AddUnsafe / SubUnsafe: overflow.Add / Sub
                    IF ~InRange(r) THEN Panic ELSE Cons(One(ca.d, r), Merge(A, B, i + 1, j + 1, sgn))
               ELSE LET r == sgn * cb.n IN
                    IF ~InRange(r) THEN Panic ELSE Cons(One(cb.d, r), Merge(A, B, i, j + 1, sgn))
ImplOp(a, b, sgn) == LET r == Merge(a, b, 1, 1, sgn) IN     \* Add / Sub: res.validate() or panic
                     IF r.panic \/ ~ValidSeq(r.out) THEN Panic ELSE r

\* comparison helpers, transcribed from their code / doc comments
IsValid(s) == ValidSeq(s)
IsZero(s) == \A k \in 1..Len(s) : s[k].n = 0
DenomsSubsetOf(s, t) == Len(s) <= Len(t) /\ \A k \in 1..Len(s) : AmountOf(t, s[k].d) # 0
IsAllGT(a, b) == IF Len(a) = 0 THEN FALSE
                 ELSE IF Len(b) = 0 THEN TRUE
                 ELSE DenomsSubsetOf(b, a) /\ \A k \in 1..Len(b) : AmountOf(a, b[k].d) > b[k].n
IsAllGTE(a, b) == IF Len(b) = 0 THEN TRUE
                  ELSE IF Len(a) = 0 THEN FALSE
                  ELSE \A k \in 1..Len(b) : b[k].n <= AmountOf(a, b[k].d)
IsAllLT(a, b) == IsAllGT(b, a)
IsAllLTE(a, b) == IsAllGTE(b, a)
IsAnyGT(a, b) == Len(b) # 0 /\ \E k \in 1..Len(a) :
                   LET amt == AmountOf(b, a[k].d) IN a[k].n > amt /\ amt # 0
IsAnyGTE(a, b) == Len(b) # 0 /\ \E k \in 1..Len(a) :
                   LET amt == AmountOf(b, a[k].d) IN a[k].n >= amt /\ amt # 0
IsEqual(a, b) == a = b

\* ---------------------------------------------------------------- the machine
Init == /\ x \in CoinSeqs /\ y \in CoinSeqs
        /\ hist = <<[act |-> "Init", a |-> x, b |-> y]>>

\* x := x.Add(y) / x.Sub(y); a, b = the operands, which the call must leave as they are
Arith(op, sgn) ==
  /\ op \in Ops
  /\ Len(hist) < MaxLen
  /\ LET r == ModelOp(x, y, sgn) IN
     /\ x' = IF r.panic THEN x ELSE r.out
     /\ y' = y
     /\ hist' = Append(hist, [act |-> op, a |-> x, b |-> y,
                              reply |-> IF r.panic THEN "panic" ELSE "ok", res |-> r.out])
DoAdd == Arith("Add", 1)
DoSub == Arith("Sub", -1)

\* all comparison helpers on a pair of VALID sets
DoCmp ==
  /\ "Cmp" \in Ops
  /\ Len(hist) < MaxLen
  /\ ValidSeq(x) /\ ValidSeq(y)
  /\ UNCHANGED vars
  /\ hist' = Append(hist, [act |-> "Cmp", a |-> x, b |-> y,
                           allgt |-> IsAllGT(x, y), allgte |-> IsAllGTE(x, y),
                           alllt |-> IsAllLT(x, y), alllte |-> IsAllLTE(x, y),
                           anygt |-> IsAnyGT(x, y), anygte |-> IsAnyGTE(x, y),
                           eq |-> IsEqual(x, y)])
\* single-operand reads on any sorted set (amounts may be zero / negative)
DoQuery ==
  /\ "Query" \in Ops
  /\ Len(hist) < MaxLen
  /\ UNCHANGED vars
  /\ hist' = Append(hist, [act |-> "Query", a |-> x, b |-> y,
                           amounts |-> [i \in Denoms |-> AmountOf(x, i)],
                           valid |-> IsValid(x), zero |-> IsZero(x)])
\* ParseCoins(x.String()) on a valid set returns the same set
DoParse ==
  /\ "Parse" \in Ops
  /\ Len(hist) < MaxLen
  /\ ValidSeq(x)
  /\ UNCHANGED vars
  /\ hist' = Append(hist, [act |-> "Parse", a |-> x, b |-> y, res |-> x])
DoSwap ==
  /\ "Swap" \in Ops
  /\ Len(hist) < MaxLen
  /\ x # y
  /\ x' = y /\ y' = x
  /\ hist' = Append(hist, [act |-> "Swap", a |-> x, b |-> y])

\* single-operand actions are only taken once per x in the exhaustive configurations
Single == MaxLen > 2 \/ y = <<>>
Next == DoAdd \/ DoSub \/ DoCmp \/ (Single /\ (DoQuery \/ DoParse)) \/ DoSwap
Spec == Init /\ [][Next]_<<vars, hist>>

\* ---------------------------------------------------------------- properties (C18)
TypeOK == x \in Seq([d : Denoms, n : Int]) /\ y \in Seq([d : Denoms, n : Int])
\* the design (merge with fresh zero filter, coin-wise checked arithmetic) computes the multiset model
ImplMatchesModel == ImplOp(x, y, 1) = ModelAdd(x, y) /\ ImplOp(x, y, -1) = ModelSub(x, y)
\* results are valid coin sets: sorted, zero-free, positive
ResultValid == /\ ~ModelAdd(x, y).panic => ValidSeq(ModelAdd(x, y).out)
               /\ ~ModelSub(x, y).panic => ValidSeq(ModelSub(x, y).out)
AddCommutes == ModelAdd(x, y) = ModelAdd(y, x)
BothValid == ValidSeq(x) /\ ValidSeq(y)
\* on valid sets: (x + y) - y = x, and x - y is defined exactly when x.IsAllGTE(y)
AddSubInverse == (BothValid /\ ~ModelAdd(x, y).panic) => ModelSub(ModelAdd(x, y).out, y) = Ok(x)
SubIffGTE == BothValid => (~ModelSub(x, y).panic <=> IsAllGTE(x, y))
\* the helpers agree with per-denomination comparison on valid sets
CmpPerDenom == BothValid =>
  /\ IsAllGTE(x, y) <=> \A i \in Denoms : AmountOf(x, i) >= AmountOf(y, i)
  /\ IsAllLTE(x, y) <=> \A i \in Denoms : AmountOf(x, i) <= AmountOf(y, i)
  /\ IsAllGT(x, y) <=> (Len(x) # 0 /\ \A i \in Dom(y) : AmountOf(x, i) > AmountOf(y, i))
  /\ IsAllLT(x, y) <=> (Len(y) # 0 /\ \A i \in Dom(x) : AmountOf(x, i) < AmountOf(y, i))
  /\ IsAnyGT(x, y) <=> \E i \in Dom(x) \cap Dom(y) : AmountOf(x, i) > AmountOf(y, i)
  /\ IsAnyGTE(x, y) <=> \E i \in Dom(x) \cap Dom(y) : AmountOf(x, i) >= AmountOf(y, i)
  /\ IsEqual(x, y) <=> \A i \in Denoms : AmountOf(x, i) = AmountOf(y, i)
  /\ IsZero(x) <=> \A i \in Denoms : AmountOf(x, i) = 0

Emit == PrintT(<<"TRACE", ToJson(hist)>>)
EmitAtEnd == Len(hist) < MaxLen \/ Emit
EmitEdge == PrintT(<<"EDGE", ToJson(hist')>>)
=============================================================================
