CONSTANTS
  Part = "tree"
  NI = 2
  MaxRep = 1
  MaxN = 1
  NKeys = 5
INIT Init
NEXT Next
INVARIANTS Complete Sound SingleFieldRejected GapOnly EmitCase
