CONSTANTS
  N = 4
  Removers <- R2
  Trav <- T2
  ChanTrav <- ChanT2
  BugNoReplaceWg = FALSE
  BugNoSetRemoved = FALSE
  BugNoWakeOnRemove = FALSE
  BugNoRelink = FALSE
SPECIFICATION Spec
INVARIANTS TypeOK NoPanic RefNext RefFront RefLen RefRemoved OrderOK LiveNextLive TravOK WakeupDelivered

