---------------------------- MODULE Params ----------------------------
(* C13. Who may write which chain parameter.
   gnovm/stdlibs/chain/params/params.go (pkey: "vm:<current realm>:<key>", rejects empty keys
   and keys containing ':'), gnovm/stdlibs/sys/params/params.go (assertSysParamsRealm, prmkey),
   gno.land/pkg/sdk/vm/builtins.go (SDKParams: module prefix must be registered),
   tm2/pkg/sdk/params/keeper.go (validate -> module keeper WillSetParam), vm/auth/bank/node
   WillSetParam + Params.Validate, gno.land/pkg/sdk/vm/params_deposit.go (per-realm meta key).

   State = the abstract params store: user[ns][k] for the realm namespaces, mod[mk] for a few
   module parameters, meta = set of realms that own a "_realmmeta_<path>" accounting key.
   Actions:
     UserSet(via, ns, kind, k, v)  a program makes realm `ns` call chain/params.Set<kind>(k, v);
                                   via = how the call gets there (MsgCall of the realm, another
                                   realm crossing into it, a /p/ helper called by it, a MsgRun
                                   script). It lands at vm:<ns>:<k> or is rejected (a MsgRun
                                   script never gets to store anything, see UserSet).
     SysSet(caller, mk, v)         realm `caller` calls sys/params.SetSysParam<T>(module, sub, name, v).
   The driver dumps EVERY key of the params store after every transaction and compares the
   whole store with this state (verdict); accept/reject of the transaction is a verdict too.

   Key classes and module-parameter candidates are concrete strings in the driver
   (harness/cmd/params); KeyHasColon / KeyEmpty / ModKey attributes below describe them.      *)
EXTENDS Integers, Sequences, FiniteSets, TLC, Json

CONSTANTS Keys,      \* key classes offered to UserSet
          MaxLen,
          Quiet

NS == {"a", "b", "asub", "run"}       \* gno.land/r/verif/alpha, .../beta, .../alpha/sub, the MsgRun package of the user
Kinds == {"String", "Bool", "Int64", "Uint64", "Bytes", "BytesNil", "Strings", "AddStrings", "DelStrings"}
Vias == {"direct", "cross", "helper", "run"}
ColonKeys == {"colon", "lcolon", "tcolon", "otherrealmcolon", "modauth", "modvm", "modbank", "modnode", "metacolon"}
KeyHasColon(k) == k \in ColonKeys
KeyEmpty(k) == k = "empty"
\* who calls sys/params: the designated realm gno.land/r/sys/params (control), an ordinary realm that
\* imports sys/params, a /p/ helper importing sys/params called by an ordinary realm, a MsgRun script
Callers == {"sys", "evil", "helper", "run"}

\* module parameter candidates: id -> what the keepers must do with them
\*   ok       : accepted when the value is valid
\*   reject   : never accepted (unknown module / unknown p: key / empty submodule / ':' in the name / chain-only)
ModKeys == {"auth_memo", "auth_siglimit", "vm_deposit", "vm_price", "bank_denoms", "node_minver",
            "auth_unknown", "vm_unknown", "bank_unknown", "node_unknown", "node_valcur",
            "nomodule", "emptysub", "colonname"}
ModOK == {"auth_memo", "auth_siglimit", "vm_deposit", "vm_price", "bank_denoms", "node_minver"}
ModVals == {"good1", "good2", "bad", "wrongtype"}
ValidVal(v) == v \in {"good1", "good2"}

VARIABLES denoms,  \* bank:p:restricted_denoms as a set (subset of {"good1","good2"}): written by
                   \* SetSysParamStrings and incrementally by UpdateSysParamStrings(add / remove)
          user,    \* [NS -> [Keys -> value record or NONE]]
          mod,     \* [ModOK -> "default" | "good1" | "good2"]
          meta,    \* subset of NS
          last,    \* the step just taken (for the action properties)
          steps, hist

vars == <<user, mod, meta, denoms>>
NONE == [t |-> "none"]
\* a stored value: type tag + abstract content ("v1"/"v2" or a set of strings for list values)
Val(t, c) == [t |-> t, c |-> c]

Init == /\ user = [n \in NS |-> [k \in Keys |-> NONE]]
        /\ mod = [m \in ModOK |-> "default"]
        /\ meta = {} /\ denoms = {}
        /\ last = [act |-> "Init"]
        /\ steps = 0 /\ hist = <<>>

\* projection: only the keys that exist (the driver treats every other candidate as absent)
ProjD(u, m, mt, dn) == [denoms |-> dn, user |-> {r \in {[ns |-> n, k |-> k, val |-> u[n][k]] : n \in NS, k \in Keys} : r.val # NONE},
                   mod |-> m, meta |-> mt]
Proj(u, m, mt) == ProjD(u, m, mt, denoms)

Log(rec, st) ==
  /\ steps' = steps + 1
  /\ last' = rec
  /\ hist' = IF Quiet THEN hist
             ELSE Append(hist, [x \in DOMAIN rec \cup {"st"} |-> IF x = "st" THEN st ELSE rec[x]])

\* what Set<kind>(k, v) makes of the old value (NONE = absent); "fail" = the call panics
NewVal(old, kind, v) ==
  CASE kind \in {"String", "Bool", "Int64", "Uint64", "Bytes"} -> Val(kind, v)
    [] kind = "BytesNil" -> NONE                                   \* SetBytes(key, nil) deletes
    [] kind = "Strings" -> Val("Strings", {v})
    [] kind = "AddStrings" -> IF old = NONE THEN Val("Strings", {v})
                              ELSE IF old.t = "Strings" THEN Val("Strings", old.c \cup {v})
                              ELSE [t |-> "fail"]                  \* stored value is not a list
    [] kind = "DelStrings" -> IF old = NONE THEN Val("Strings", {})
                              ELSE IF old.t = "Strings" THEN Val("Strings", old.c \ {v})
                              ELSE [t |-> "fail"]

UserSet(via, ns, kind, k, v) ==
  /\ steps < MaxLen
  /\ (via = "run") = (ns = "run")          \* a MsgRun script writes as its own package
  /\ (via = "cross") => ns = "b"           \* realm a crosses into realm b, which writes
  /\ LET old == user[ns][k]
         nv == NewVal(old, kind, v)
         rec(reply) == [act |-> "UserSet", via |-> via, ns |-> ns, kind |-> kind, k |-> k, v |-> v, reply |-> reply]
     IN IF KeyEmpty(k) \/ KeyHasColon(k) \/ nv.t = "fail"
        THEN UNCHANGED vars /\ Log(rec("reject"), Proj(user, mod, meta))
        \* A MsgRun package is not a persistent realm: when the transaction's storage deposit is
        \* settled, a params byte delta attributed to it is refused (keeper.go processStorageDeposit,
        \* "params storage diff for unknown realm") and the whole transaction fails. Only a write
        \* that stores nothing (deleting an absent key) goes through, changing nothing.
        ELSE IF ns = "run"
        THEN UNCHANGED vars /\ Log(rec(IF nv = NONE THEN "ok" ELSE "reject"), Proj(user, mod, meta))
        ELSE LET u1 == [user EXCEPT ![ns][k] = nv]
                 \* the accounting key appears with the realm's first stored byte and stays
                 mt1 == IF nv # NONE \/ old # NONE THEN meta \cup {ns} ELSE meta
             IN /\ user' = u1 /\ meta' = mt1 /\ UNCHANGED <<mod, denoms>>
                /\ Log(rec("ok"), Proj(u1, mod, mt1))

SysSet(caller, mk, v) ==
  /\ steps < MaxLen
  /\ LET rec(reply) == [act |-> "SysSet", caller |-> caller, mk |-> mk, v |-> v, reply |-> reply]
     IN IF caller = "sys" /\ mk \in ModOK /\ ValidVal(v)
        THEN IF mk = "bank_denoms"
             THEN /\ denoms' = {v} /\ UNCHANGED <<user, mod, meta>>
                  /\ Log(rec("ok"), ProjD(user, mod, meta, {v}))
             ELSE LET m1 == [mod EXCEPT ![mk] = v] IN
                  /\ mod' = m1 /\ UNCHANGED <<user, meta, denoms>>
                  /\ Log(rec("ok"), Proj(user, m1, meta))
        ELSE UNCHANGED vars /\ Log(rec("reject"), Proj(user, mod, meta))

\* sys/params.UpdateSysParamStrings("bank", "p", "restricted_denoms", {d}, add): incremental edit of
\* a module string list; like every sys/params entry point it is reserved to gno.land/r/sys/params.
SysUpd(caller, op, d) ==
  /\ steps < MaxLen
  /\ LET rec(reply) == [act |-> "SysUpd", caller |-> caller, op |-> op, d |-> d, reply |-> reply]
     IN IF caller = "sys"
        THEN LET dn == IF op = "add" THEN denoms \cup {d} ELSE denoms \ {d} IN
             /\ denoms' = dn /\ UNCHANGED <<user, mod, meta>>
             /\ Log(rec("ok"), ProjD(user, mod, meta, dn))
        ELSE UNCHANGED vars /\ Log(rec("reject"), Proj(user, mod, meta))

\* the remaining exported setters (Bool, Uint64, Bytes) called from outside the designated realm on a
\* key the node module would accept without validation: refused, nothing changes
SysProbe(caller, fn) ==
  /\ steps < MaxLen /\ caller # "sys"
  /\ UNCHANGED vars
  /\ Log([act |-> "SysProbe", caller |-> caller, fn |-> fn, reply |-> "reject"], Proj(user, mod, meta))

\* Exhaustive exploration uses a pruned alphabet (every key class with one setter, every setter
\* with two key classes, every route with three key classes; the second caller with two module
\* keys); simulation (SimNext) draws from the full product.
Next == \/ \E via \in {"direct", "run"}, ns \in NS, k \in Keys : UserSet(via, ns, "String", k, "v1")
        \/ \E kind \in Kinds, k \in {"plain", "colon"} \cap Keys, v \in {"v1", "v2"} : UserSet("direct", "a", kind, k, v)
        \/ \E via \in {"cross", "helper"}, ns \in NS, k \in {"plain", "colon", "otherrealm"} \cap Keys :
             UserSet(via, ns, "String", k, "v1")
        \/ \E mk \in ModKeys, v \in ModVals : SysSet("sys", mk, v)
        \/ \E c \in Callers \ {"sys"}, mk \in {"auth_memo", "vm_deposit", "bank_denoms"} : steps = 0 /\ SysSet(c, mk, "good1")
        \/ \E c \in Callers \ {"sys"}, fn \in {"Bool", "Uint64", "Bytes"} : steps = 0 /\ SysProbe(c, fn)
        \/ \E op \in {"add", "del"}, d \in {"good1", "good2"} : SysUpd("sys", op, d)
        \/ \E c \in Callers \ {"sys"}, op \in {"add", "del"}, d \in {"good1", "good2"} :
             (steps = 0 \/ denoms # {}) /\ d = "good1" /\ SysUpd(c, op, d)

Pick(S) == RandomElement({x \in S : steps >= 0})
SimNext == \/ UserSet(Pick(Vias), Pick(NS), Pick(Kinds), Pick(Keys), Pick({"v1", "v2"}))
           \/ UserSet("direct", Pick({"a", "b", "asub"}), Pick(Kinds), Pick(Keys \ ColonKeys), Pick({"v1", "v2"}))
           \/ UserSet("direct", Pick({"a", "b"}), Pick(Kinds), Pick({"plain", "plain2"} \cap Keys), Pick({"v1", "v2"}))
           \/ UserSet("run", "run", Pick(Kinds), Pick(Keys), Pick({"v1", "v2"}))
           \/ UserSet("cross", "b", Pick(Kinds), Pick(Keys), Pick({"v1", "v2"}))
           \/ UserSet("helper", Pick({"a", "b", "asub"}), Pick(Kinds), Pick(Keys), Pick({"v1", "v2"}))
           \/ SysSet(Pick(Callers), Pick(ModKeys), Pick(ModVals))
           \/ SysSet("sys", Pick(ModOK), Pick(ModVals))
           \/ SysUpd(Pick(Callers), Pick({"add", "del"}), Pick({"good1", "good2"}))
           \/ SysUpd("sys", Pick({"add", "del"}), Pick({"good1", "good2"}))
           \/ SysProbe(Pick(Callers \ {"sys"}), Pick({"Bool", "Uint64", "Bytes"}))

Spec == Init /\ [][Next]_<<vars, last, steps, hist>>
View == vars

\* ------------------------------------------------------------------ properties (C13)
TypeOK == /\ meta \subseteq NS /\ denoms \subseteq {"good1", "good2"}
          /\ \A m \in ModOK : mod[m] \in {"default", "good1", "good2"}
\* a realm's writes land in that realm's own namespace and nowhere else
WritesStayInOwnNamespaceA ==
  last'.act = "UserSet" =>
    /\ \A n \in NS \ {last'.ns} : user'[n] = user[n]
    /\ mod' = mod /\ denoms' = denoms
    /\ meta' \subseteq meta \cup {last'.ns}
\* module parameters change only through the designated system realm
ModuleParamsOnlyViaSysRealmA == (mod' # mod \/ denoms' # denoms) => (last'.act \in {"SysSet", "SysUpd"} /\ last'.caller = "sys")
\* every stored module value passed its module's validation
StoredValuesValid == \A m \in ModOK : mod[m] = "default" \/ ValidVal(mod[m])
\* no stored user key is empty or contains the namespace separator
StoredKeysWellFormed == \A n \in NS, k \in Keys : user[n][k] # NONE => (~KeyEmpty(k) /\ ~KeyHasColon(k))
\* a rejected call changes nothing
RejectedIsNoOpA == last'.reply = "reject" => UNCHANGED vars
WritesStayInOwnNamespace == [][WritesStayInOwnNamespaceA]_<<vars, steps>>
ModuleParamsOnlyViaSysRealm == [][ModuleParamsOnlyViaSysRealmA]_<<vars, steps>>
RejectedIsNoOp == [][RejectedIsNoOpA]_<<vars, steps>>

Emit == PrintT(<<"TRACE", ToJson(hist)>>)
EmitAtEnd == steps < MaxLen \/ Emit
EmitEdge == PrintT(<<"EDGE", ToJson(hist')>>)
=============================================================================
