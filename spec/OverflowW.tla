---------------------------- MODULE OverflowW ----------------------------
(* C19, boundary witnesses for the wide integer types. Apalache is asked for one operand
   pair per branch outcome of each helper (class cls) at W = 16, 32, 64; the model also
   carries the PROPERTY layer's verdicts (okAdd.., rAdd..) computed by the solver from the
   definitions of Overflow.tla, so the driver needs no arithmetic of its own. Every model is
   replayed on the real generic instantiation (harness/cmd/overflow -mode witness).
   Run: apalache-mc check --length=0 --init=InitW --next=NextW --inv=NoWitness
        --view=ViewW --max-error=NClasses --cinit=CInitS64 OverflowW.tla                   *)
EXTENDS Overflow

VARIABLES
  \* @type: Int;
  cls,
  \* @type: Bool;
  okAdd,
  \* @type: Bool;
  okSub,
  \* @type: Bool;
  okMul,
  \* @type: Bool;
  okDiv,
  \* @type: Int;
  rAdd,
  \* @type: Int;
  rSub,
  \* @type: Int;
  rMul,
  \* @type: Int;
  rDiv

NClasses == 30

\* the wrapped product has the wrong sign (first conjunct of Mul's test fails)
MulSignFails == a # 0 /\ b # 0 /\ ((Wrap(a * b) < 0) # ((a < 0) # (b < 0)))
\* the wrapped product has a plausible sign; only c/b == a detects the overflow
MulOnlyRoundTripFails == a # 0 /\ b # 0 /\ ~Rep(a * b) /\ ((Wrap(a * b) < 0) = ((a < 0) # (b < 0)))

Class(k) ==
  CASE k = 1 -> a + b > MAX + 1
    [] k = 2 -> a + b < MIN - 1
    [] k = 3 -> a + b = MAX /\ a # 0 /\ b # 0
    [] k = 4 -> a + b = MIN /\ a < 0 /\ b < 0
    [] k = 5 -> a + b = MAX + 1
    [] k = 6 -> a + b = MIN - 1
    [] k = 7 -> a - b > MAX + 1
    [] k = 8 -> a - b < MIN - 1
    [] k = 9 -> a - b = MAX /\ b # 0
    [] k = 10 -> a - b = MIN /\ b # 0
    [] k = 11 -> a - b = MIN - 1
    [] k = 12 -> a - b = MAX + 1
    [] k = 13 -> MulSignFails /\ a # MIN /\ b # MIN
    [] k = 14 -> MulOnlyRoundTripFails /\ b \in 2..5
    [] k = 15 -> a = MIN /\ b = -1
    [] k = 16 -> a = -1 /\ b = MIN
    [] k = 17 -> a * b = MIN /\ b \in {2, 4} /\ MIN < 0
    [] k = 18 -> b \in 2..3 /\ a * b <= MAX /\ a * b >= MAX - 2
    [] k = 19 -> b \in 2..3 /\ a * b > MAX /\ a * b <= MAX + 3
    [] k = 20 -> a = 0 /\ b = MAX
    [] k = 21 -> a = MIN /\ b = 0
    [] k = 22 -> b = 0 /\ a # 0
    [] k = 23 -> a = MIN /\ b = -1 /\ MIN < 0
    [] k = 24 -> a = MIN /\ b = 1
    [] k = 25 -> a = 0 /\ b = MAX
    [] k = 26 -> a = MIN + 1 /\ b = -1
    [] k = 27 -> a = b /\ a > 1
    [] k = 28 -> a = MAX /\ b = 2
    [] k = 29 -> MulOnlyRoundTripFails /\ a < 0 /\ b < -1
    [] k = 30 -> a = MAX /\ b = MAX
    [] OTHER -> FALSE

InitIn(S) ==
  /\ Init
  /\ cls \in S
  /\ Class(cls)
  /\ okAdd = AddSpecOk /\ rAdd = a + b
  /\ okSub = SubSpecOk /\ rSub = a - b
  /\ okMul = MulSpecOk /\ rMul = a * b
  /\ okDiv = DivSpecOk /\ rDiv = DivSpecR
InitW == InitIn(1..NClasses)
\* the same in three parts (run in parallel)
InitW1 == InitIn(1..10)
InitW2 == InitIn(11..20)
InitW3 == InitIn(21..NClasses)
NextW == UNCHANGED <<a, b, cls, okAdd, okSub, okMul, okDiv, rAdd, rSub, rMul, rDiv>>
\* "violated" by every reachable state: each reported violation is one witness
NoWitness == cls = 0
ViewW == cls
=============================================================================
