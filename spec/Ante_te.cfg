SPECIFICATION Spec
CONSTANTS
  Kinds <- AllKinds
  Muts <- AllMuts
  TxMuts <- AllTxMuts
  SubWheres <- WNext
  ReWheres <- AllWheres
  MaxLen = 3
VIEW View
INVARIANTS TypeOK Conservation
PROPERTIES NoReplay SeqBumpedExactlyOnce AnteRejectIsNoOp OnlyValidTakeEffect SeqMonotone
ACTION_CONSTRAINT EmitEdge
