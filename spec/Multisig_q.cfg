CONSTANTS
  NK <- NKq
  Extras <- ExtrasQ
  MaxNel = 2
  MaxLen = 5
INIT Init
NEXT Next
VIEW View
INVARIANTS TypeOK AlgoIsProperty HonestExact NoForgery MarkedAllValid

