CONSTANTS
  Chans <- Ch12
  BadCh = 9
  MaxPay = 2
  Hdr = 1
  RecvCap <- Cap12
  QCap = 1
  MsgLens <- Lens03
  MaxMsgs = 2
  MaxInject = 1
  InjectKinds <- InjBad
  Senders <- OnlyA
  Stoppers <- OnlyA
INIT Init
NEXT Next
INVARIANTS TypeOK PerChannelFIFOExactlyOnce NoPartialDelivery CompleteAtCleanClose
PROPERTIES MalformedCloses
