---------------------------- MODULE MCBank ----------------------------
(* Constants of the Bank.tla configurations (cfg files cannot hold records / sequences). *)
EXTENDS Bank

Z == [d \in {"u", "t"} |-> 0]
C(u, t) == [d \in {"u", "t"} |-> IF d = "u" THEN u ELSE t]
NV == [type |-> "none", ov |-> Z, start |-> 0, end |-> 0]

\* scenario 1 (plain embedding): a plain funded account, b continuous vesting (2u over time 1..5), c / coll absent
Gen1 == << [a |-> "a", kind |-> "gno", wl |-> FALSE, amt |-> C(3, 2), vs |-> NV],
           [a |-> "b", kind |-> "vest", wl |-> FALSE, amt |-> C(3, 1),
            vs |-> [type |-> "cont", ov |-> C(2, 0), start |-> 1, end |-> 5]] >>
\* scenario 2 (scaled embedding, Cap = 7 = MaxInt64): balances close to the cap, b delayed vesting in BOTH tiers
Gen2 == << [a |-> "a", kind |-> "gno", wl |-> TRUE, amt |-> C(4, 5), vs |-> NV],
           [a |-> "b", kind |-> "vest", wl |-> FALSE, amt |-> C(2, 1),
            vs |-> [type |-> "delayed", ov |-> C(2, 1), start |-> 0, end |-> 2]] >>
\* scenario 3: whitelisted sender, collector exists already
Gen3 == << [a |-> "coll", kind |-> "gno", wl |-> FALSE, amt |-> C(1, 0), vs |-> NV],
           [a |-> "a", kind |-> "gno", wl |-> TRUE, amt |-> C(2, 2), vs |-> NV],
           [a |-> "b", kind |-> "vest", wl |-> FALSE, amt |-> C(2, 2),
            vs |-> [type |-> "cont", ov |-> C(2, 2), start |-> 0, end |-> 2]] >>

A3 == {"a", "b", "coll"}
A4 == {"a", "b", "c", "coll"}
Amt012 == {0, 1, 2}
Amt01 == {0, 1}
Amt013 == {0, 1, 3}
Amt03 == {0, 3}
IO1 == {C(1, 1)}
IO2 == {C(1, 0), C(0, 1)}
IO3 == {C(1, 0), C(0, 1), C(2, 1)}
=============================================================================
