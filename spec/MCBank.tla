---------------------------- MODULE MCBank ----------------------------
(* Constants of the Bank.tla configurations (cfg files cannot hold records / sequences). *)
EXTENDS Bank

Z == [d \in {"u", "t"} |-> 0]
C(u, t) == [d \in {"u", "t"} |-> IF d = "u" THEN u ELSE t]
NV == [type |-> "none", ov |-> Z, start |-> 0, end |-> 0]

\* scenario 1 (plain embedding): a plain funded account, b continuous vesting (2u over time 1..5), c / coll absent
Gen1 == << [a |-> "a", kind |-> "gno", wl |-> FALSE, amt |-> C(3, 2), vs |-> NV],
           [a |-> "b", kind |-> "vest", wl |-> FALSE, amt |-> C(3, 1),
            vs |-> [type |-> "cont", ov |-> C(2, 0), start |-> 1, end |-> 5]] >>
\* scenario 2 (scaled embedding, Cap = 7 = MaxInt64): balances close to the cap, b delayed vesting in BOTH tiers
Gen2 == << [a |-> "a", kind |-> "gno", wl |-> TRUE, amt |-> C(4, 5), vs |-> NV],
           [a |-> "b", kind |-> "vest", wl |-> FALSE, amt |-> C(2, 1),
            vs |-> [type |-> "delayed", ov |-> C(2, 1), start |-> 0, end |-> 2]] >>
\* scenario 3: whitelisted sender, collector exists already
Gen3 == << [a |-> "coll", kind |-> "gno", wl |-> FALSE, amt |-> C(1, 0), vs |-> NV],
           [a |-> "a", kind |-> "gno", wl |-> TRUE, amt |-> C(2, 2), vs |-> NV],
           [a |-> "b", kind |-> "vest", wl |-> FALSE, amt |-> C(2, 2),
            vs |-> [type |-> "cont", ov |-> C(2, 2), start |-> 0, end |-> 2]] >>

A3 == {"a", "b", "coll"}
A4 == {"a", "b", "c", "coll"}
Amt012 == {0, 1, 2}
Amt01 == {0, 1}
Amt013 == {0, 1, 3}
Amt03 == {0, 3}
In2(a, x) == [a |-> a, amt |-> x]
\* multi-send alphabets. Amount sets:
X3 == {C(1, 0), C(0, 1), C(1, 1)}
X4 == {C(1, 0), C(0, 1), C(1, 1), C(2, 0)}
XS == {C(1, 0), C(0, 1), C(3, 1)}
\* quick: inputs from a (and b), outputs to b (and coll)
InsQ(X) == {<<In2("a", x)>> : x \in X} \cup {<<In2("a", p[1]), In2("b", p[2])>> : p \in X \X X}
OutsQ(X) == {<<In2("b", x)>> : x \in X} \cup {<<In2("b", p[1]), In2("coll", p[2])>> : p \in X \X X}
InsQ3 == InsQ(X3)
OutsQ3 == OutsQ(X3)
InsQS == InsQ(XS)
OutsQS == OutsQ(XS)
\* thorough / simulation: more address patterns
InsT(X) == {<<In2(i, x)>> : i \in {"a", "b", "coll"}, x \in X} \cup {<<In2("a", p[1]), In2("b", p[2])>> : p \in X \X X}
             \cup {<<In2("b", p[1]), In2("a", p[2])>> : p \in X \X X}
OutsT(X) == {<<In2(o, x)>> : o \in {"a", "b", "coll"}, x \in X} \cup {<<In2("b", p[1]), In2("coll", p[2])>> : p \in X \X X}
             \cup {<<In2("a", p[1]), In2("a", p[2])>> : p \in X \X X}
InsT3 == InsT(X3)
OutsT3 == OutsT(X3)
InsT4 == InsT(X4)
OutsT4 == OutsT(X4)
InsTS == InsT(XS)
OutsTS == OutsT(XS)
=============================================================================
