CONSTANTS
  NK <- NKt
  Extras <- ExtrasT
  MaxNel = 2
  MaxLen = 5
INIT Init
NEXT Next
VIEW View
INVARIANTS TypeOK AlgoIsProperty HonestExact NoForgery MarkedAllValid
ACTION_CONSTRAINT EmitEdge
