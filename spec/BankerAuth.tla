----------------------------- MODULE BankerAuth -----------------------------
(* C08 - the STATEMENT, as variable-free operators shared by the model (Banker.tla) and by the
   validation of recorded transactions of the real application (BankerTrace.tla).

   Addresses.  u1, u2: honest users; att: the attacker's key; vault: the honest realm's address,
   vdep: its storage-deposit address; mal: the attacker realm's address, mdep: its storage-deposit
   address; rtr / rdep: a third-party "router" realm the vault calls, and its storage-deposit address
   (written by the attacker, like mal); coll: the fee collector.

   A transaction is summarised by
     signer                      the address whose key signed it
     fee                         the gas fee it offers
     sends                       coins the signer itself moves: sum of Msg.Send and of MsgSend amounts
     maxdep                      sum of the storage-deposit limits of its messages
     locked                      what the storage-deposit addresses actually received in this transaction
     run                         it contains a MsgRun (the script acts AS the signer: it may spend
                                 anything the signer owns)
     spends, deleg               the vault's own code minted a RealmSend banker for itself / handed
                                 its LIVE realm value to caller-supplied code in this transaction
     grants                      the vault has done the latter in an earlier transaction
                                 (chain/banker: "minting a banker is an irrevocable grant")
     ogrant                      the vault handed an OriginSend banker of its own to third-party code in this
                                 transaction.  Inside THIS transaction that banker is bounded by the coins sent
                                 along (a running total over all its sends), so it never justifies a net decrease
                                 of the vault; the struct persists, so for LATER transactions it counts as a grant
     issues                      the vault's own code minted a RealmIssue banker in this transaction
     storV, storM, storR         change of the vault's / attacker realm's / router's storage in bytes         *)
EXTENDS Integers

Honest == {"u1", "u2", "vault", "vdep"}      \* addresses the attacker has no authority over
AttackerOwned == {"att", "mal", "mdep", "rtr", "rdep"}

\* May the ugnot balance of X decrease by dec > 0 in this transaction?
MayDecrease(X, dec, t, grants) ==
  \/ /\ X = t.signer                                   \* it signed: fee, coins it sends, deposits it accepted to pay
     /\ (t.run \/ (dec <= t.fee + t.sends + t.locked /\ t.locked <= t.maxdep))
  \/ /\ X = "vault"                                   \* the realm's own authority was exercised
     /\ (t.spends > 0 \/ t.deleg > 0 \/ "vault" \in grants)
  \/ /\ X = "vdep" /\ t.storV < 0                     \* storage the realm used was released
  \/ /\ X = "mdep" /\ t.storM < 0
  \/ /\ X = "rdep" /\ t.storR < 0
  \/ X \in {"mal", "rtr", "coll"}                            \* the attacker's own realm; the collector is not a victim

\* A failed transaction keeps at most the fee; nobody else is touched.
FailedTxOK(pre, post, t) ==
  \A X \in DOMAIN pre :
     IF X = t.signer THEN pre[X] - post[X] <= t.fee /\ post[X] <= pre[X]
     ELSE IF X = "coll" THEN post[X] >= pre[X]
     ELSE post[X] = pre[X]

DecreaseOnlyWithAuthority(pre, post, t, grants) ==
  \A X \in DOMAIN pre : post[X] < pre[X] => MayDecrease(X, pre[X] - post[X], t, grants)

\* the realm-issued denomination: balances of it decrease only when the holder signed a transfer
\* of it or the issuing realm's own code used its RealmIssue authority; supply changes only then
RealmDenomAuthority(preV, postV, t, grants) ==
  LET Sum(f) == f["u1"] + f["u2"] + f["att"] + f["vault"] + f["vdep"] + f["mal"] + f["mdep"] + f["rtr"] + f["rdep"] + f["coll"]
      IssuerActed == t.issues > 0 \/ t.deleg > 0 \/ "vault" \in grants
  IN /\ \A X \in DOMAIN preV : postV[X] < preV[X] =>
            \/ IssuerActed
            \/ (X = t.signer /\ (t.run \/ preV[X] - postV[X] <= t.sendsV))
     /\ Sum(postV) # Sum(preV) => IssuerActed
=============================================================================
