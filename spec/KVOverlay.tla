---------------------------- MODULE KVOverlay ----------------------------
(* C22. Stacks of tm2/pkg/store cache stores (cache.cacheStore, created by CacheWrap or by
   cachemulti.Store for several named stores at once) and prefix stores (prefix.Store) over a
   base store (dbadapter.Store on a memdb, optionally behind a CollectingDB).

   The concrete state mirrors the code: a cache layer is its dirty write set w (cacheStore.cache
   restricted to dirty entries: a value, DEL for deleted, NONE for untouched) plus the write set
   saved by Checkpoint (checkpointCache); a prefix layer is a key translation; Write flushes the
   dirty entries into the parent (parent.Set / parent.Delete, which for a prefix parent is again a
   translation and for a cache parent lands in that parent's write set) and clears the layer,
   including its checkpoint (cacheStore.clear); WriteCheckpoint first swaps the saved set back.
   What a reader of level l sees (AV) is the fold of the write sets below it.

   The ghost variable flat is the "simple ordered-map model" of the statement: every level is a
   plain full copy of its parent's map, writes change the copy, Write copies the map down,
   Checkpoint saves the map and WriteCheckpoint copies the saved map down. OverlayEqualsFlat
   states that the delta stack and the copies agree at every level.

   Keys are byte tuples; absolute keys are indexed 1..NK in byte order (KeySeq). A level whose
   prefix layers concatenate to ap addresses exactly the keys with prefix ap, stripped. DataKeys
   are written, the other keys are used as iterator bounds only. Bound 0 is nil.

   Named deviations from a naive reading (DESIGN 4.3), all documented behaviour:
   * Calls that modify (Set/Delete/Write/Checkpoint/WriteCheckpoint) go to the TOP of the stack
     only: a cache store keeps clean reads, so writing a parent underneath a live child is
     outside the stores' contract. Reads are generated at every level.
   * Iterators are opened, drained and closed in one step (no writes to the iterated domain
     while an iterator is open).
   * Write / Checkpoint / WriteCheckpoint are generated when the top layer is a cache layer
     (prefix.Store.Write panics by design), WriteCheckpoint only after Checkpoint (it panics
     otherwise, by design).
   * Gas is not compared (C10).                                                              *)
EXTENDS Integers, Sequences, FiniteSets, TLC, Json

CONSTANTS Keys,       \* set of absolute keys (byte tuples)
          DataKeys,   \* subset of Keys that is ever written
          Vals,       \* values (strings; "" = empty, non nil value)
          Prefixes,   \* prefixes a prefix layer may take (non-empty byte tuples)
          Stores,     \* store names: one = plain CacheWrap stacks, several = cachemulti
          MaxLayers,  \* max stack height
          MaxLen,     \* bound on the number of calls (incl. Init)
          InitBases,  \* set of initial base contents (functions 1..NK -> Vals \cup {NIL})
          ReadAll,    \* TRUE: reads at every level, FALSE: at the top level only
          LogViews,   \* TRUE: every record carries the views of all levels
          Quiet       \* TRUE: no history (exhaustive runs that emit nothing)

NIL == "NIL"
DEL == "DEL"
NONE == "NONE"

RECURSIVE Lt(_, _)
Lt(a, b) == IF b = <<>> THEN FALSE ELSE IF a = <<>> THEN TRUE
            ELSE IF a[1] # b[1] THEN a[1] < b[1] ELSE Lt(Tail(a), Tail(b))
RECURSIVE SortKeys(_)
SortKeys(S) == IF S = {} THEN <<>>
               ELSE LET m == CHOOSE x \in S : \A y \in S : x = y \/ Lt(x, y) IN <<m>> \o SortKeys(S \ {m})
KeySeq == SortKeys(Keys)          \* absolute keys in byte order
NK == Len(KeySeq)
Idx == 1..NK
DataIdx == {i \in Idx : KeySeq[i] \in DataKeys}
HasPrefix(k, p) == Len(k) >= Len(p) /\ SubSeq(k, 1, Len(p)) = p
Strip(k, p) == SubSeq(k, Len(p) + 1, Len(k))

VARIABLES base,   \* [Stores -> [Idx -> Vals \cup {NIL}]]
          stack,  \* sequence of layers [kind, pfx, w, hascp, cp]
          flat,   \* ghost: sequence (level 0..top) of [m, cpm]: full copies
          n, hist

vars == <<base, stack, flat>>
View == <<base, stack, n>>

Top == Len(stack)
NoW == [s \in Stores |-> [i \in Idx |-> NONE]]
CacheLayer == [kind |-> "cache", pfx |-> <<>>, w |-> NoW, hascp |-> FALSE, cp |-> NoW]
PrefixLayer(p) == [kind |-> "prefix", pfx |-> p, w |-> NoW, hascp |-> FALSE, cp |-> NoW]

\* absolute prefix addressed by level l
RECURSIVE APfx(_, _)
APfx(stk, l) == IF l = 0 THEN <<>> ELSE APfx(stk, l - 1) \o stk[l].pfx
RelIdx(ap) == {i \in Idx : HasPrefix(KeySeq[i], ap)}

\* highest cache layer at or below l (0 = the base store): where a write issued at level l lands
RECURSIVE CacheAt(_, _)
CacheAt(stk, l) == IF l = 0 THEN 0 ELSE IF stk[l].kind = "cache" THEN l ELSE CacheAt(stk, l - 1)

\* what a reader at level l sees, as a map over absolute keys
RECURSIVE AV(_, _, _, _)
AV(b, stk, l, s) ==
  IF l = 0 THEN b[s]
  ELSE LET below == AV(b, stk, l - 1, s) IN
       IF stk[l].kind = "prefix" THEN below
       ELSE [i \in Idx |-> LET x == stk[l].w[s][i] IN
                           IF x = NONE THEN below[i] ELSE IF x = DEL THEN NIL ELSE x]

InDom(i, sb, eb) == (sb = 0 \/ i >= sb) /\ (eb = 0 \/ i < eb)
RECURSIVE ListFrom(_, _, _, _, _)
ListFrom(m, ap, i, sb, eb) ==
  IF i > NK THEN <<>>
  ELSE (IF HasPrefix(KeySeq[i], ap) /\ InDom(i, sb, eb) /\ m[i] # NIL
        THEN << <<Strip(KeySeq[i], ap), m[i]>> >> ELSE <<>>) \o ListFrom(m, ap, i + 1, sb, eb)
Rev(sq) == [i \in 1..Len(sq) |-> sq[Len(sq) + 1 - i]]
Range(m, ap, sb, eb, asc) == IF asc THEN ListFrom(m, ap, 1, sb, eb) ELSE Rev(ListFrom(m, ap, 1, sb, eb))
\* a bound as the driver gets it: <<>> = nil, <<k>> = the relative key k
Bnd(ap, j) == IF j = 0 THEN <<>> ELSE <<Strip(KeySeq[j], ap)>>

Views(b, stk) == [l \in 1..(Len(stk) + 1) |->
                    [s \in Stores |-> ListFrom(AV(b, stk, l - 1, s), APfx(stk, l - 1), 1, 0, 0)]]
\* projection compared after every step: raw scan of the base DBs, HasCheckpoint per layer
Proj(b, stk) == [base |-> [s \in Stores |-> ListFrom(b[s], <<>>, 1, 0, 0)],
                 hascp |-> [l \in 1..Len(stk) |-> stk[l].hascp],
                 kinds |-> [l \in 1..Len(stk) |-> stk[l].kind]]
                @@ (IF LogViews THEN [views |-> Views(b, stk)] ELSE <<>>)

Log(r, b, stk) == /\ n' = n + 1
                  /\ hist' = IF Quiet THEN hist ELSE Append(hist, r @@ [st |-> Proj(b, stk)])
LogR(r) == /\ n' = n + 1
           /\ hist' = IF Quiet THEN hist ELSE Append(hist, r)

Init ==
  /\ base \in [Stores -> InitBases]
  /\ stack = <<>>
  /\ flat = << [m |-> base, cpm |-> base] >>
  /\ n = 1
  /\ hist = IF Quiet THEN <<>> ELSE << [act |-> "Init", reply |-> "ok", st |-> Proj(base, <<>>)] >>

\* ------------------------------------------------------------------ CacheWrap / prefix.New / drop the top layer
PushCache ==
  /\ n < MaxLen /\ Top < MaxLayers
  /\ LET stk == Append(stack, CacheLayer) IN
     /\ stack' = stk /\ UNCHANGED base
     /\ flat' = Append(flat, [m |-> flat[Top + 1].m, cpm |-> flat[Top + 1].m])
     /\ Log([act |-> "PushCache", reply |-> "ok"], base, stk)
PushPrefix(p) ==
  /\ n < MaxLen /\ Top < MaxLayers
  /\ RelIdx(APfx(stack, Top) \o p) # {}
  /\ LET stk == Append(stack, PrefixLayer(p)) IN
     /\ stack' = stk /\ UNCHANGED base
     /\ flat' = Append(flat, [m |-> flat[Top + 1].m, cpm |-> flat[Top + 1].m])
     /\ Log([act |-> "PushPrefix", p |-> p, reply |-> "ok"], base, stk)
Pop ==
  /\ n < MaxLen /\ Top > 0
  /\ LET stk == SubSeq(stack, 1, Top - 1) IN
     /\ stack' = stk /\ UNCHANGED base
     /\ flat' = SubSeq(flat, 1, Top)
     /\ Log([act |-> "Pop", reply |-> "ok"], base, stk)

\* ------------------------------------------------------------------ Set / Delete at the top level
\* x = a value or DEL; lands in the highest cache layer (through any prefix layers) or in the base
Put(act, s, i, x) ==
  /\ n < MaxLen
  /\ LET tc == CacheAt(stack, Top)
         ap == APfx(stack, Top)
         b2 == IF tc = 0 THEN [base EXCEPT ![s][i] = IF x = DEL THEN NIL ELSE x] ELSE base
         stk == IF tc = 0 THEN stack ELSE [stack EXCEPT ![tc].w[s][i] = x]
     IN /\ base' = b2 /\ stack' = stk
        /\ flat' = [l \in 1..(Top + 1) |->
                      IF l - 1 >= tc THEN [flat[l] EXCEPT !.m[s][i] = IF x = DEL THEN NIL ELSE x] ELSE flat[l]]
        /\ Log([act |-> act, s |-> s, k |-> Strip(KeySeq[i], ap), v |-> x, reply |-> "ok"], b2, stk)
Set(s, i, v) == Put("Set", s, i, v)
Delete(s, i) == Put("Delete", s, i, DEL)

\* ------------------------------------------------------------------ reads at level l
Get(l, s, i) ==
  /\ n < MaxLen /\ UNCHANGED vars
  /\ LogR([act |-> "Get", l |-> l, s |-> s, k |-> Strip(KeySeq[i], APfx(stack, l)),
           reply |-> AV(base, stack, l, s)[i]])
Has(l, s, i) ==
  /\ n < MaxLen /\ UNCHANGED vars
  /\ LogR([act |-> "Has", l |-> l, s |-> s, k |-> Strip(KeySeq[i], APfx(stack, l)),
           reply |-> (AV(base, stack, l, s)[i] # NIL)])
Iter(l, s, sb, eb, asc) ==
  /\ n < MaxLen /\ UNCHANGED vars
  /\ LET ap == APfx(stack, l) IN
     LogR([act |-> "Iter", l |-> l, s |-> s, start |-> Bnd(ap, sb), end |-> Bnd(ap, eb), asc |-> asc,
           reply |-> Range(AV(base, stack, l, s), ap, sb, eb, asc)])

\* ------------------------------------------------------------------ Write / Checkpoint / WriteCheckpoint on the top cache layer
\* flush write set ws of the top layer into the target below (cache layer tb or the base), clear the top
Flush(act, ws) ==
  LET tb == CacheAt(stack, Top - 1)
      b2 == IF tb = 0
            THEN [s \in Stores |-> [i \in Idx |-> IF ws[s][i] = NONE THEN base[s][i]
                                                 ELSE IF ws[s][i] = DEL THEN NIL ELSE ws[s][i]]]
            ELSE base
      tgt == IF tb = 0 THEN stack
             ELSE [stack EXCEPT ![tb].w = [s \in Stores |-> [i \in Idx |->
                                             IF ws[s][i] = NONE THEN stack[tb].w[s][i] ELSE ws[s][i]]]]
      stk == [tgt EXCEPT ![Top] = CacheLayer]
  IN /\ base' = b2 /\ stack' = stk
     /\ Log([act |-> act, reply |-> "ok"], b2, stk)

Write ==
  /\ n < MaxLen /\ Top > 0 /\ stack[Top].kind = "cache"
  /\ Flush("Write", stack[Top].w)
  /\ LET tb == CacheAt(stack, Top - 1) IN
     flat' = [l \in 1..(Top + 1) |-> IF l - 1 >= tb THEN [m |-> flat[Top + 1].m, cpm |-> flat[l].cpm] ELSE flat[l]]
Checkpoint ==
  /\ n < MaxLen /\ Top > 0 /\ stack[Top].kind = "cache"
  /\ LET stk == [stack EXCEPT ![Top].cp = stack[Top].w, ![Top].hascp = TRUE] IN
     /\ stack' = stk /\ UNCHANGED base
     /\ flat' = [flat EXCEPT ![Top + 1].cpm = flat[Top + 1].m]
     /\ Log([act |-> "Checkpoint", reply |-> "ok"], base, stk)
WriteCheckpoint ==
  /\ n < MaxLen /\ Top > 0 /\ stack[Top].kind = "cache" /\ stack[Top].hascp
  /\ Flush("WriteCheckpoint", stack[Top].cp)
  /\ LET tb == CacheAt(stack, Top - 1) IN
     flat' = [l \in 1..(Top + 1) |-> IF l - 1 >= tb THEN [m |-> flat[Top + 1].cpm, cpm |-> flat[l].cpm] ELSE flat[l]]

ReadLevels == IF ReadAll THEN 0..Top ELSE {Top}

Next ==
  \/ PushCache \/ Pop \/ Write \/ Checkpoint \/ WriteCheckpoint
  \/ \E p \in Prefixes : PushPrefix(p)
  \/ \E s \in Stores, i \in RelIdx(APfx(stack, Top)) \cap DataIdx, v \in Vals : Set(s, i, v)
  \/ \E s \in Stores, i \in RelIdx(APfx(stack, Top)) \cap DataIdx : Delete(s, i)
  \/ \E l \in ReadLevels, s \in Stores : \E i \in RelIdx(APfx(stack, l)) : Get(l, s, i) \/ Has(l, s, i)
  \/ \E l \in ReadLevels, s \in Stores : \E sb, eb \in RelIdx(APfx(stack, l)) \cup {0}, asc \in BOOLEAN :
        Iter(l, s, sb, eb, asc)

\* Simulation: arguments drawn with RandomElement (see KVBackend.tla); the reference to n keeps TLC
\* from folding RandomElement(<constant set>) into a constant.
RE(S) == RandomElement({x \in S : n >= 0})
NextSim ==
  \/ PushCache \/ PushCache \/ Pop \/ Write \/ Write \/ Checkpoint \/ WriteCheckpoint \/ WriteCheckpoint
  \/ \E p \in {RE(Prefixes)} : PushPrefix(p)
  \/ \E s \in {RE(Stores)}, i \in {RE(RelIdx(APfx(stack, Top)) \cap DataIdx)}, v \in {RE(Vals)} : Set(s, i, v)
  \/ \E s \in {RE(Stores)}, i \in {RE(RelIdx(APfx(stack, Top)) \cap DataIdx)}, v \in {RE(Vals)} : Set(s, i, v)
  \/ \E s \in {RE(Stores)}, i \in {RE(RelIdx(APfx(stack, Top)) \cap DataIdx)}, v \in {RE(Vals)} : Set(s, i, v)
  \/ \E s \in {RE(Stores)}, i \in {RE(RelIdx(APfx(stack, Top)) \cap DataIdx)} : Delete(s, i)
  \/ \E s \in {RE(Stores)}, i \in {RE(RelIdx(APfx(stack, Top)) \cap DataIdx)} : Delete(s, i)
  \/ \E l \in {RE(0..Top)}, s \in {RE(Stores)} : \E i \in {RE(RelIdx(APfx(stack, l)))} : Get(l, s, i) \/ Has(l, s, i)
  \/ \E l \in {RE(0..Top)}, s \in {RE(Stores)} :
        \E sb \in {RE(RelIdx(APfx(stack, l)) \cup {0})}, eb \in {RE(RelIdx(APfx(stack, l)) \cup {0})}, asc \in {RE(BOOLEAN)} :
           Iter(l, s, sb, eb, asc)
  \/ \E l \in {RE(0..Top)}, s \in {RE(Stores)} :
        \E sb \in {RE(RelIdx(APfx(stack, l)) \cup {0})}, eb \in {RE(RelIdx(APfx(stack, l)) \cup {0})}, asc \in {RE(BOOLEAN)} :
           Iter(l, s, sb, eb, asc)
  \/ \E s \in {RE(Stores)}, asc \in {RE(BOOLEAN)} : Iter(Top, s, 0, 0, asc)

Spec == Init /\ [][Next]_<<vars, n, hist>>

\* ---------------------------------------------------------------- properties (C22)
TypeOK == /\ base \in [Stores -> [Idx -> Vals \cup {NIL}]]
          /\ \A s \in Stores : \A i \in Idx \ DataIdx : base[s][i] = NIL
          /\ Len(flat) = Top + 1 /\ Top <= MaxLayers
          /\ \A l \in 1..Top : stack[l].kind \in {"cache", "prefix"}
                               /\ (stack[l].kind = "prefix" => (stack[l].w = NoW /\ ~stack[l].hascp))
\* the delta stack and the plain copies agree at every level (ReadsMatch, WriteIsNet,
\* CheckpointRestores all follow: every reply is computed from AV)
OverlayEqualsFlat == \A l \in 0..Top : \A s \in Stores : AV(base, stack, l, s) = flat[l + 1].m[s]
\* what Checkpoint saved is what the write set saved folds to
CheckpointIsSaved == \A l \in 1..Top : stack[l].hascp =>
                        \A s \in Stores : AV(base, [stack EXCEPT ![l].w = stack[l].cp], l, s) = flat[l + 1].cpm[s]
\* Write / WriteCheckpoint leave the top layer clean and change nothing below the target
FlushIsLocal == [][(Len(stack') = Top /\ Top > 0 /\ stack[Top].kind = "cache" /\ stack'[Top].w = NoW /\ stack[Top].w # NoW)
                     => \A l \in 0..(CacheAt(stack, Top - 1) - 1) : \A s \in Stores :
                            AV(base', stack', l, s) = AV(base, stack, l, s)]_vars
\* dropping a layer changes nothing below it
PopDiscards == [][Len(stack') = Top - 1 => \A l \in 0..(Top - 1) : \A s \in Stores :
                            AV(base', stack', l, s) = AV(base, stack, l, s)]_vars
\* replies of scans are strictly ordered (evaluated on the last step)
LastScanOK ==
  Len(hist) = 0 \/
  LET r == hist[Len(hist)] IN
  (r.act = "Iter") => \A j \in 1..(Len(r.reply) - 1) :
       IF r.asc THEN Lt(r.reply[j][1], r.reply[j + 1][1]) ELSE Lt(r.reply[j + 1][1], r.reply[j][1])

Payload(h, b, stk) == ToJson([h |-> h, v |-> Views(b, stk)])
Emit == PrintT(<<"TRACE", Payload(hist, base, stack)>>)
EmitAtEnd == n < MaxLen \/ Emit
EmitEdge == PrintT(<<"EDGE", Payload(hist', base', stack')>>)
=============================================================================
