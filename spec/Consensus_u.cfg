CONSTANTS
  Honest <- H4
  Byz <- B1
  MaxRound = 1
  Values <- VAB
  Power <- PUneq
  ProposerOf <- PropByzFirst
INIT Init
NEXT Next
INVARIANTS Agreement NoHonestEquivocation PrecommitHasPolka DecisionHasCommit
