---------------------------- MODULE KVBackend ----------------------------
(* C29. The contract of tm2/pkg/db/types.go (DB, Batch, Iterator, Snapshot) as an ordered
   map, one action per interface call. Every back end (memdb, goleveldb, pebbledb, boltdb,
   lmdbdb, mdbxdb) and every wrapper (PrefixDB, ImmutableDB, SnapshotDB, CollectingDB) is
   driven through the same behaviours by harness/cmd/kvbackend.

   Keys are abstract, totally ordered integers 1..N; the driver maps them to byte strings
   with an order preserving table per back end (with / without the empty key, with a
   prefix for PrefixDB), so "empty key", "0x00 / 0xFF neighbours" and "prefix adjacent
   keys" are decided by the table, the order semantics by this module. DataKeys are the
   keys that are ever written; the other integers of 1..N are used as iterator bounds
   only (bounds between / beyond the stored keys). Bound 0 stands for a nil bound.

   Documented behaviour that is modelled as documented (named deviations from a naive
   reading of the statement):
   * CollectingDB (Collecting = TRUE): direct writes and written batches go to the
     collector (pend); Get/Has read pend first; iterators and snapshots read the
     underlying DB ONLY (collecting.go: "Iterator and ReverseIterator do NOT merge
     pending writes"); Drain applies pend in order.
   * After Batch.Write only Close is generated ("Only Close() can be called after"),
     after Close nothing ("calls to other methods afterwards will error").
   * No write happens while an iterator is open (the Iter actions open, drain and close).
   * NewSnapshot on back ends documented as "snapshots not supported" must return an
     error; the driver then skips the Snap* steps (they never change db).
   * Empty keys on boltdb / lmdbdb / mdbxdb are stored under a sentinel key (doc comments
     of nonEmptyKey); those back ends get the key table without the empty key.
   * Aliasing: Iterator.Key/Value "should be a copy and thus safe for modification"; the
     value returned by Get is declared read-only for the caller (CONTRACT: key, value
     readonly []byte). The driver therefore (a) requires every returned slice to keep its
     content while the DB is modified, closed over or iterated further (all calls), and
     (b) writes into the slices returned by iterators and requires the DB to be unchanged.
     Writing into Get results is measured but not a verdict.                               *)
EXTENDS Integers, Sequences, FiniteSets, TLC, Json

CONSTANTS N,          \* abstract keys / bounds are 1..N (0 = nil bound)
          DataKeys,   \* subset of 1..N that is written
          Vals,       \* set of values (strings, "" = empty value)
          Batches,    \* batch handles
          Snaps,      \* snapshot handles
          MaxOps,     \* max staged ops per batch
          MaxLen,     \* bound on history length
          Collecting, \* TRUE: the DB under test is a CollectingDB
          Syncs,      \* subset of BOOLEAN: which of Set/SetSync, Write/WriteSync are generated
          InitDBs,    \* set of initial contents
          Quiet       \* TRUE: do not record hist (exhaustive runs that emit nothing)

NIL == "NIL"
DEL == "DEL"
NONE == "NONE"
AllKeys == 1..N

VARIABLES db,    \* [AllKeys -> Vals \cup {NIL}]   what is physically in the (underlying) DB
          pend,  \* sequence of [del, k, v]        CollectingDB: collector ops not drained yet
          bat,   \* [Batches -> [state: {"none","open","written"}, ops: Seq]]
          snap,  \* [Snaps -> [open: BOOLEAN, m: map]]
          ref,   \* ghost: the plain in-memory ordered map of the statement
          n,     \* number of calls so far (incl. Init)
          hist

vars == <<db, pend, bat, snap, ref>>
\* the history length is part of the view: the bound n < MaxLen then makes the explored
\* set exactly "all histories of at most MaxLen - 1 calls", independent of the search order
View == <<db, pend, bat, snap, n>>

RECURSIVE ApplyOps(_, _)
ApplyOps(m, ops) ==
  IF ops = <<>> THEN m
  ELSE ApplyOps([m EXCEPT ![Head(ops).k] = IF Head(ops).del THEN NIL ELSE Head(ops).v], Tail(ops))

RECURSIVE PendVal(_, _, _)
PendVal(p, k, i) ==
  IF i = 0 THEN NONE
  ELSE IF p[i].k = k THEN (IF p[i].del THEN DEL ELSE p[i].v)
  ELSE PendVal(p, k, i - 1)

\* what Get answers: the collector first, then the DB
Eff(m, p, k) == LET x == PendVal(p, k, Len(p)) IN
                IF x = NONE THEN m[k] ELSE IF x = DEL THEN NIL ELSE x

InDom(k, s, e) == (s = 0 \/ k >= s) /\ (e = 0 \/ k < e)

RECURSIVE AscFrom(_, _, _, _)
AscFrom(m, i, s, e) ==
  IF i > N THEN <<>>
  ELSE (IF InDom(i, s, e) /\ m[i] # NIL THEN << <<i, m[i]>> >> ELSE <<>>) \o AscFrom(m, i + 1, s, e)
Rev(sq) == [i \in 1..Len(sq) |-> sq[Len(sq) + 1 - i]]
\* reply of Iterator(start,end) / ReverseIterator(start,end): start inclusive, end exclusive,
\* 0 = nil = unbounded on that side, start >= end yields nothing
Range(m, s, e, asc) == IF asc THEN AscFrom(m, 1, s, e) ELSE Rev(AscFrom(m, 1, s, e))

\* projection the driver reads back after every step: a full scan of the physical DB and a
\* Get of every key
Proj(m, p) == [db |-> AscFrom(m, 1, 0, 0), eff |-> [k \in AllKeys |-> Eff(m, p, k)]]

Log(r, m, p) == /\ n' = n + 1
                /\ hist' = IF Quiet THEN hist ELSE Append(hist, r @@ [st |-> Proj(m, p)])
\* reads change nothing: no projection logged (the driver re-checks the last one)
LogR(r) == /\ n' = n + 1
           /\ hist' = IF Quiet THEN hist ELSE Append(hist, r)

Init ==
  /\ db \in InitDBs
  /\ pend = <<>>
  /\ bat = [b \in Batches |-> [state |-> "none", ops |-> <<>>]]
  /\ snap = [i \in Snaps |-> [open |-> FALSE, m |-> [k \in AllKeys |-> NIL]]]
  /\ ref = db
  /\ n = 1
  /\ hist = IF Quiet THEN <<>> ELSE << [act |-> "Init", reply |-> "ok", st |-> Proj(db, <<>>)] >>

Op(del, k, v) == [del |-> del, k |-> k, v |-> v]

\* ------------------------------------------------------------------ DB.Set / SetSync / Delete / DeleteSync
Write1(act, del, k, v, sync) ==
  /\ n < MaxLen
  /\ LET ndb == IF Collecting THEN db ELSE ApplyOps(db, <<Op(del, k, v)>>)
         np  == IF Collecting THEN Append(pend, Op(del, k, v)) ELSE pend
     IN /\ db' = ndb /\ pend' = np
        /\ ref' = ApplyOps(ref, <<Op(del, k, v)>>)
        /\ UNCHANGED <<bat, snap>>
        /\ Log([act |-> act, k |-> k, v |-> v, sync |-> sync, reply |-> "ok"], ndb, np)

Set(k, v, sync) == Write1("Set", FALSE, k, v, sync)
Delete(k, sync) == Write1("Delete", TRUE, k, "", sync)

\* ------------------------------------------------------------------ DB.Get / Has / Iterator / ReverseIterator
Get(k) ==
  /\ n < MaxLen /\ UNCHANGED vars
  /\ LogR([act |-> "Get", k |-> k, reply |-> Eff(db, pend, k)])
Has(k) ==
  /\ n < MaxLen /\ UNCHANGED vars
  /\ LogR([act |-> "Has", k |-> k, reply |-> (Eff(db, pend, k) # NIL)])
Iter(s, e, asc) ==
  /\ n < MaxLen /\ UNCHANGED vars
  /\ LogR([act |-> "Iter", s |-> s, e |-> e, asc |-> asc, reply |-> Range(db, s, e, asc)])

\* ------------------------------------------------------------------ Batch
NewBatch(b) ==
  /\ n < MaxLen /\ bat[b].state = "none"
  /\ bat' = [bat EXCEPT ![b] = [state |-> "open", ops |-> <<>>]]
  /\ UNCHANGED <<db, pend, snap, ref>>
  /\ Log([act |-> "NewBatch", b |-> b, reply |-> "ok"], db, pend)
BatchOp(act, b, del, k, v) ==
  /\ n < MaxLen /\ bat[b].state = "open" /\ Len(bat[b].ops) < MaxOps
  /\ bat' = [bat EXCEPT ![b].ops = Append(@, Op(del, k, v))]
  /\ UNCHANGED <<db, pend, snap, ref>>
  /\ Log([act |-> act, b |-> b, k |-> k, v |-> v, reply |-> "ok"], db, pend)
BatchSet(b, k, v) == BatchOp("BatchSet", b, FALSE, k, v)
BatchDelete(b, k) == BatchOp("BatchDelete", b, TRUE, k, "")
BatchWrite(b, sync) ==
  /\ n < MaxLen /\ bat[b].state = "open"
  /\ LET ndb == IF Collecting THEN db ELSE ApplyOps(db, bat[b].ops)
         np  == IF Collecting THEN pend \o bat[b].ops ELSE pend
     IN /\ db' = ndb /\ pend' = np
        /\ ref' = ApplyOps(ref, bat[b].ops)
        /\ bat' = [bat EXCEPT ![b].state = "written"]
        /\ UNCHANGED snap
        /\ Log([act |-> "BatchWrite", b |-> b, sync |-> sync, reply |-> "ok"], ndb, np)
\* Close: discards whatever was staged and not written
BatchClose(b) ==
  /\ n < MaxLen /\ bat[b].state \in {"open", "written"}
  /\ bat' = [bat EXCEPT ![b] = [state |-> "none", ops |-> <<>>]]
  /\ UNCHANGED <<db, pend, snap, ref>>
  /\ Log([act |-> "BatchClose", b |-> b, reply |-> "ok"], db, pend)

\* ------------------------------------------------------------------ Snapshot
NewSnapshot(i) ==
  /\ n < MaxLen /\ ~snap[i].open
  /\ snap' = [snap EXCEPT ![i] = [open |-> TRUE, m |-> db]]
  /\ UNCHANGED <<db, pend, bat, ref>>
  /\ Log([act |-> "NewSnapshot", i |-> i, reply |-> "ok"], db, pend)
SnapGet(i, k) ==
  /\ n < MaxLen /\ snap[i].open /\ UNCHANGED vars
  /\ LogR([act |-> "SnapGet", i |-> i, k |-> k, reply |-> snap[i].m[k]])
SnapHas(i, k) ==
  /\ n < MaxLen /\ snap[i].open /\ UNCHANGED vars
  /\ LogR([act |-> "SnapHas", i |-> i, k |-> k, reply |-> (snap[i].m[k] # NIL)])
SnapIter(i, s, e, asc) ==
  /\ n < MaxLen /\ snap[i].open /\ UNCHANGED vars
  /\ LogR([act |-> "SnapIter", i |-> i, s |-> s, e |-> e, asc |-> asc,
           reply |-> Range(snap[i].m, s, e, asc)])
SnapClose(i) ==
  /\ n < MaxLen /\ snap[i].open
  /\ snap' = [snap EXCEPT ![i].open = FALSE]
  /\ UNCHANGED <<db, pend, bat, ref>>
  /\ Log([act |-> "SnapClose", i |-> i, reply |-> "ok"], db, pend)

\* ------------------------------------------------------------------ Close + open again (persistent back ends)
Reopen ==
  /\ n < MaxLen /\ ~Collecting
  /\ \A b \in Batches : bat[b].state = "none"
  /\ \A i \in Snaps : ~snap[i].open
  /\ UNCHANGED vars
  /\ Log([act |-> "Reopen", reply |-> "ok"], db, pend)

\* ------------------------------------------------------------------ BatchCollector.Drain into a real batch + WriteSync
Drain ==
  /\ n < MaxLen /\ Collecting /\ pend # <<>>
  /\ LET ndb == ApplyOps(db, pend) IN
     /\ db' = ndb /\ pend' = <<>>
     /\ UNCHANGED <<bat, snap, ref>>
     /\ Log([act |-> "Drain", reply |-> "ok"], ndb, <<>>)

Next ==
  \/ \E k \in DataKeys, v \in Vals, sy \in Syncs : Set(k, v, sy)
  \/ \E k \in DataKeys, sy \in Syncs : Delete(k, sy)
  \/ \E k \in DataKeys : Get(k) \/ Has(k)
  \/ \E s \in 0..N, e \in 0..N, asc \in BOOLEAN : Iter(s, e, asc)
  \/ \E b \in Batches : NewBatch(b) \/ BatchClose(b)
  \/ \E b \in Batches, k \in DataKeys, v \in Vals : BatchSet(b, k, v)
  \/ \E b \in Batches, k \in DataKeys : BatchDelete(b, k)
  \/ \E b \in Batches, sy \in Syncs : BatchWrite(b, sy)
  \/ \E i \in Snaps : NewSnapshot(i) \/ SnapClose(i)
  \/ \E i \in Snaps, k \in DataKeys : SnapGet(i, k) \/ SnapHas(i, k)
  \/ \E i \in Snaps, s \in 0..N, e \in 0..N, asc \in BOOLEAN : SnapIter(i, s, e, asc)
  \/ Reopen
  \/ Drain

\* Simulation: TLC's simulator enumerates every successor before choosing one, so the
\* arguments are drawn with RandomElement (one successor per call kind: fast, and the
\* call kinds are chosen uniformly instead of proportionally to their argument space).
\* Only used by the *_sim cfgs; exhaustive runs use Next.
\* (the reference to n keeps TLC from folding RandomElement(<constant set>) into a constant)
RE(S) == RandomElement({x \in S : n >= 0})
NextSim ==
  \/ \E k \in {RE(DataKeys)}, v \in {RE(Vals)}, sy \in {RE(Syncs)} : Set(k, v, sy)
  \/ \E k \in {RE(DataKeys)}, v \in {RE(Vals)}, sy \in {RE(Syncs)} : Set(k, v, sy)
  \/ \E k \in {RE(DataKeys)}, sy \in {RE(Syncs)} : Delete(k, sy)
  \/ \E k \in {RE(DataKeys)} : Get(k)
  \/ \E k \in {RE(DataKeys)} : Has(k)
  \/ \E s \in {RE(0..N)}, e \in {RE(0..N)}, asc \in {RE(BOOLEAN)} : Iter(s, e, asc)
  \/ \E s \in {RE(0..N)}, e \in {RE(0..N)}, asc \in {RE(BOOLEAN)} : Iter(s, e, asc)
  \/ \E b \in {RE(Batches)} : NewBatch(b)
  \/ \E b \in {RE(Batches)} : BatchClose(b)
  \/ \E b \in {RE(Batches)}, k \in {RE(DataKeys)}, v \in {RE(Vals)} : BatchSet(b, k, v)
  \/ \E b \in {RE(Batches)}, k \in {RE(DataKeys)} : BatchDelete(b, k)
  \/ \E b \in {RE(Batches)}, sy \in {RE(Syncs)} : BatchWrite(b, sy)
  \/ \E i \in {RE(Snaps)} : NewSnapshot(i)
  \/ \E i \in {RE(Snaps)} : SnapClose(i)
  \/ \E i \in {RE(Snaps)}, k \in {RE(DataKeys)} : SnapGet(i, k) \/ SnapHas(i, k)
  \/ \E i \in {RE(Snaps)}, s \in {RE(0..N)}, e \in {RE(0..N)}, asc \in {RE(BOOLEAN)} : SnapIter(i, s, e, asc)
  \/ Reopen
  \/ Drain

Spec == Init /\ [][Next]_<<vars, n, hist>>

\* ---------------------------------------------------------------- properties (C29)
TypeOK == /\ db \in [AllKeys -> Vals \cup {NIL}]
          /\ \A k \in AllKeys \ DataKeys : db[k] = NIL
          /\ \A b \in Batches : bat[b].state \in {"none", "open", "written"} /\ Len(bat[b].ops) <= MaxOps
\* every Get answers like the plain in-memory map of the statement
RefMatches == \A k \in AllKeys : Eff(db, pend, k) = ref[k]
\* without a collector nothing is ever pending, so scans and Gets agree
PlainNoPending == Collecting \/ pend = <<>>
\* a snapshot keeps the contents it was taken with, whatever happens to the DB
SnapshotFrozen == [][\A i \in Snaps : (snap[i].open /\ snap'[i].open) => snap'[i].m = snap[i].m]_vars
\* draining the collector changes no Get
DrainPreservesReads == [][(pend # <<>> /\ pend' = <<>>) => \A k \in AllKeys : Eff(db', pend', k) = Eff(db, pend, k)]_vars
\* a batch closed without Write has no effect
DiscardNoEffect == [][(\E b \in Batches : bat[b].state = "open" /\ bat'[b].state = "none") => (db' = db /\ pend' = pend /\ ref' = ref)]_vars
\* replies of scans are strictly ordered and inside their domain (evaluated on the last step)
LastScanOK ==
  Len(hist) = 0 \/
  LET r == hist[Len(hist)] IN
  (r.act \in {"Iter", "SnapIter"}) =>
     /\ \A j \in 1..Len(r.reply) : InDom(r.reply[j][1], r.s, r.e) /\ r.reply[j][2] # NIL
     /\ \A j \in 1..(Len(r.reply) - 1) :
          IF r.asc THEN r.reply[j][1] < r.reply[j + 1][1] ELSE r.reply[j][1] > r.reply[j + 1][1]

Emit == PrintT(<<"TRACE", ToJson(hist)>>)
EmitAtEnd == n < MaxLen \/ Emit
EmitEdge == PrintT(<<"EDGE", ToJson(hist')>>)
=============================================================================
