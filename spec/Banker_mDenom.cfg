CONSTANTS
  FromCheck = TRUE
  CurrentCheck = TRUE
  OriginDecrement = TRUE
  OriginTotal = TRUE
  DenomCheck = FALSE
  MaxTx = 1
  MaxOps = 2
INIT Init
NEXT Next
INVARIANTS InvDecrease InvDenom InvCapsNeedGrant InvOriginNet
