CONSTANTS
  Power <- P1234
  Blocks <- BlocksABN
  Peers <- Peers2
  MaxLen = 12
  Classes <- ClsAll
INIT Init
NEXT Next
VIEW View
INVARIANTS TypeOK Maj23Exact Maj23Reported SumExact CommitCarriesMajority PrimaryTracked ConflictNeedsPeerClaim
PROPERTIES FirstStable
INVARIANT EmitAtEnd
