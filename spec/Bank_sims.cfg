SPECIFICATION Spec
CONSTANTS
  Addrs <- A4
  Amts <- Amt013
  Cap = 7
  MaxLen = 12
  MaxTime = 3
  RawOps = TRUE
  IOIns <- InsTS
  IOOuts <- OutsTS
  Genesis <- Gen2
VIEW View
INVARIANTS SupplyEq BalanceWellFormed SupplyWellFormed HolderHasAccount NumsUnique
INVARIANT EmitAtEnd
