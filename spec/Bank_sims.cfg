SPECIFICATION Spec
CONSTANTS
  Addrs <- A4
  Amts <- Amt013
  Cap = 7
  MaxLen = 12
  MaxTime = 3
  RawOps = TRUE
  IOAmts <- IO2
  Genesis <- Gen2
VIEW View
INVARIANTS SupplyEq BalanceWellFormed SupplyWellFormed HolderHasAccount NumsUnique
INVARIANT EmitAtEnd
