CONSTANTS
  WriteSizes <- WAll
  ReadSizes <- RCore
  BufSizes <- BCore
  MaxWrites = 1
  MaxReads = 2
  MaxLen = 10
  AdvBudget = 1
  AdvAfter = 0
  AdvActs <- ActsFrame
  EphChoices <- None
  DataMax = 1024
  Writers <- OnlyA
  Readers <- OnlyB
INIT Init
NEXT Next
VIEW View
INVARIANTS TypeOK AuthenticatedPeer NoGhostSession StreamIntegrity TamperFails
ACTION_CONSTRAINT EmitEdge
