---------------------------- MODULE BankerTrace ----------------------------
(* C08, binding (V): validates transactions recorded from the REAL gno.land application
   (harness/cmd/banker) against the statement of BankerAuth.tla.  One line per transaction:
     {act:"Tx", label, cls, signer, fee, sends, sendsV, maxdep, run, ok, kind,
      pre:{addr->ugnot}, post:{...}, preV:{addr->vcoin}, postV:{...},
      spends, origin, issues, deleg, ogrant (changes of the vault's own authority counters),
      storV, storM, storR (storage change of the vault / the attacker realm / the router in bytes)}
   preceded by {act:"Init", bal, balV}.  A line is consumed only if
     - its recorded `pre` balances are the previous line's `post` balances (nothing moved between
       transactions), and
     - a successful transaction satisfies DecreaseOnlyWithAuthority and RealmDenomAuthority,
       a failed one FailedTxOK (at most the fee left the signer, nothing else moved);
   otherwise the line is reported by the postcondition (BAD-LINES / REJECTED-AT). *)
EXTENDS BankerAuth, Sequences, Json, TLC

TheTrace == ndJsonDeserialize("banker_trace.ndjson")

VARIABLES l, bal, balV, grants
vars == <<l, bal, balV, grants>>

Ln == TheTrace[l]
Pos(x) == IF x > 0 THEN x ELSE 0
TxOf(e) == [signer |-> e.signer, fee |-> e.fee, sends |-> e.sends, sendsV |-> e.sendsV, maxdep |-> e.maxdep, run |-> e.run,
            locked |-> Pos(e.post.vdep - e.pre.vdep) + Pos(e.post.mdep - e.pre.mdep) + Pos(e.post.rdep - e.pre.rdep),
            spends |-> e.spends, deleg |-> e.deleg, issues |-> e.issues, storV |-> e.storV, storM |-> e.storM, storR |-> e.storR, ogrant |-> e.ogrant]

TraceInit ==
  /\ TheTrace[1].act = "Init"
  /\ l = 2 /\ bal = TheTrace[1].bal /\ balV = TheTrace[1].balV /\ grants = {}
  /\ TLCSet(1, 0) /\ TLCSet(2, <<>>)

LineOK ==
  /\ Ln.pre = bal /\ Ln.preV = balV
  /\ IF Ln.ok
     THEN /\ DecreaseOnlyWithAuthority(Ln.pre, Ln.post, TxOf(Ln), grants)
          /\ RealmDenomAuthority(Ln.preV, Ln.postV, TxOf(Ln), grants)
     ELSE /\ FailedTxOK(Ln.pre, Ln.post, TxOf(Ln))
          /\ Ln.postV = Ln.preV

\* a line that breaks the statement is remembered (register 2) and the validation resynchronises on its
\* recorded post state, so that one run reports every offending transaction
TTx ==
  /\ l <= Len(TheTrace) /\ Ln.act = "Tx"
  /\ IF LineOK THEN TRUE ELSE TLCSet(2, Append(TLCGet(2), l))
  /\ bal' = Ln.post /\ balV' = Ln.postV
  /\ grants' = IF Ln.ok /\ (Ln.deleg > 0 \/ Ln.ogrant > 0) THEN grants \cup {"vault"} ELSE grants
  /\ l' = l + 1

\* a further Init line starts a fresh application instance (next round / resynchronisation)
TReset ==
  /\ l <= Len(TheTrace) /\ Ln.act = "Init"
  /\ bal' = Ln.bal /\ balV' = Ln.balV /\ grants' = {} /\ l' = l + 1

TraceNext == TTx \/ TReset
HighWater == TLCSet(1, IF l > TLCGet(1) THEN l ELSE TLCGet(1))
Accepted == IF TLCGet(1) = Len(TheTrace) + 1 /\ TLCGet(2) = <<>> THEN TRUE
            ELSE /\ PrintT(<<"BAD-LINES", TLCGet(2)>>)
                 /\ PrintT(<<"REJECTED-AT", IF TLCGet(2) = <<>> THEN TLCGet(1) ELSE TLCGet(2)[1]>>)
                 /\ FALSE
NonNegative == \A a \in DOMAIN bal : bal[a] >= 0 /\ balV[a] >= 0
=============================================================================
