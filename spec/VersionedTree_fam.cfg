CONSTANTS
  NK = 120
  NV = 3
  MaxVer = 12
  MaxLen = 400
  NR = 2
  Impl = "bptree"
  SmallTree = FALSE
  Opts <- OptsAll
  Reads = TRUE
  BadArgs = FALSE
  SvAlways = FALSE
  Quiet = FALSE
  FillSizes <- FillMid
  Scripts <- ScriptsFromFile
INIT Init
NEXT NextScriptStop
VIEW View
INVARIANTS TypeOK Contig WorkingRetained ReadersRetained CleanIsSaved NotRetainedIsBlank HkFunctional
PROPERTIES SavedImmutable PruneKeepsRetained OnlyNext SessionDrop
INVARIANT EmitScript
