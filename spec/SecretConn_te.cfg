CONSTANTS
  WriteSizes <- WAll
  ReadSizes <- RAll
  BufSizes <- BAll
  MaxWrites = 2
  MaxReads = 2
  MaxLen = 11
  AdvBudget = 1
  AdvAfter = 0
  AdvActs <- ActsFrame
  EphChoices <- None
  DataMax = 1024
  Writers <- OnlyA
  Readers <- OnlyB
INIT Init
NEXT Next
VIEW View
INVARIANTS TypeOK AuthenticatedPeer NoGhostSession StreamIntegrity TamperFails
ACTION_CONSTRAINT EmitEdge
