---------------------------- MODULE PartSet ----------------------------
(* C39. Mirrors tm2/pkg/bft/types/part_set.go: a block is split by NewPartSetFromData into Total parts
   with a merkle proof each; a receiver built by NewPartSetFromHeader is filled by AddPart in any order,
   interleaved with duplicates, out-of-range indices and parts whose content or proof does not match the
   header.  One action, AddPart(idx, cls), with the code's branch order:
       idx >= total -> ErrPartSetUnexpectedIndex ; already present -> (false, nil) ;
       Proof.Index / Proof.Total / merkle verification fail -> ErrPartSetInvalidProof ; else stored.
   Part classes (realised by the driver from the sender's real part set):
     good         the sender's part idx
     corrupt      right proof, one bit of the bytes changed
     badleaf      right bytes, LeafHash changed          badaunt   right bytes, one aunt hash changed
     extraaunt    right bytes, one aunt appended         wrongtotal  right bytes, Proof.Total + 1
     otherproof   bytes of idx with the proof of another part j (Proof.Index = j)
     swapped      Part.Index = idx carrying bytes and proof of part j (the attack named in AddPart's comment)
     forgedindex  bytes and proof of part j with Proof.Index and Part.Index rewritten to idx
   The merkle tree itself is trusted (C25); stored[i] is the ghost "what content sits at index i".

   Named deviations:
   * A negative Part.Index panics in AddPart (no lower-bound test, DESIGN F9).  Every path from the network
     goes through BlockPartMessage.ValidateBasic -> Part.ValidateBasic ("negative Index") in
     consensus/reactor.go Receive before the message is queued; the WAL only replays messages that
     passed it; the proposer's own parts come from NewPartSetFromData.  A validated part (Index >= 0) is
     therefore the precondition of AddPart here, and negative indices are not generated.
   * NewPartSetFromData of zero bytes panics (no merkle root of zero leaves); a serialised block is never
     empty, so Total >= 1.                                                                              *)
EXTENDS Integers, Sequences, FiniteSets, TLC, Json

CONSTANTS Totals,     \* numbers of parts explored (each >= 1); the block's Total is chosen in Init
          Classes,    \* part classes generated
          Mode,       \* "all": every class and index; "perm": only missing good parts (every arrival order)
          MaxLen

VARIABLES Total,      \* number of parts of this block
          have, count, stored, hist,
          fin         \* simulation only: set by Finish so that one behaviour is emitted per trace
vars == <<Total, have, count, stored>>
View == vars
Idx == 0..(Total - 1)

NeedsOther == {"otherproof", "swapped", "forgedindex"}        \* classes that borrow from another part
Other(i) == (i + 1) % Total

Proj(h, c) == [count |-> c, have |-> h, complete |-> (c = Total)]

Init == /\ Total \in Totals
        /\ have = {} /\ count = 0 /\ stored = [i \in Idx |-> "none"]
        /\ fin = FALSE
        /\ hist = << [act |-> "Init", idx |-> Total, cls |-> "", reply |-> "", st |-> Proj({}, 0)] >>

Reply(idx, cls) == IF idx >= Total THEN "index"
                   ELSE IF idx \in have THEN "dup"
                   ELSE IF cls # "good" THEN "proof"
                   ELSE "added"

AddPart(idx, cls) ==
  /\ Len(hist) < MaxLen /\ UNCHANGED fin
  /\ cls \in NeedsOther => Total > 1
  /\ Mode = "perm" => (cls = "good" /\ idx \in Idx /\ idx \notin have)
  /\ LET r == Reply(idx, cls) IN
     IF r = "added"
     THEN /\ have' = have \cup {idx} /\ count' = count + 1 /\ UNCHANGED Total
          /\ stored' = [stored EXCEPT ![idx] = cls]
          /\ hist' = Append(hist, [act |-> "AddPart", idx |-> idx, cls |-> cls, reply |-> r, st |-> Proj(have \cup {idx}, count + 1)])
     ELSE /\ UNCHANGED vars
          /\ hist' = Append(hist, [act |-> "AddPart", idx |-> idx, cls |-> cls, reply |-> r, st |-> Proj(have, count)])

Next == \E idx \in 0..(Total + 1), cls \in Classes : AddPart(idx, cls)
\* simulation: TLC evaluates invariants on every generated successor, so emission is tied to a last step
\* that has exactly one successor
Finish == Len(hist) >= MaxLen /\ ~fin /\ fin' = TRUE /\ UNCHANGED <<vars, hist>>
NextSim == Next \/ Finish
Spec == Init /\ [][Next]_<<vars, hist, fin>>

\* ------------------------------------------------------------------ properties (C39)
TypeOK == have \subseteq Idx /\ count \in 0..Total
CountIsCard == count = Cardinality(have)
\* the set reports completeness exactly when every index is present
CompleteIffAll == (count = Total) <=> (have = Idx)
\* only the sender's own bytes are ever stored, each at its own index: the reassembled bytes are the block
OnlyGoodStored == \A i \in Idx : (i \in have <=> stored[i] = "good") /\ stored[i] \in {"none", "good"}
ReassembledEqualsOriginal == (count = Total) => \A i \in Idx : stored[i] = "good"
\* a step either leaves the set untouched or adds exactly one missing good part (duplicates, bad and
\* out-of-range parts are rejected and harmless; nothing is ever removed or overwritten)
StepShape == [][\/ UNCHANGED vars
                \/ \E i \in Idx : /\ i \notin have /\ have' = have \cup {i} /\ count' = count + 1
                                  /\ stored' = [stored EXCEPT ![i] = "good"] /\ UNCHANGED Total]_vars

Emit == PrintT(<<"TRACE", ToJson(hist)>>)
EmitAtEnd == ~fin \/ Emit
EmitEdge == PrintT(<<"EDGE", ToJson(hist')>>)
=============================================================================
