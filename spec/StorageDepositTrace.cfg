CONSTANTS
  Realms <- TRealms
  RealmOrder <- TOrder
  Accounts <- TAccounts
  Collector = "coll"
  DefaultLimit = 600000000
  DiffVals = {}
  ParamVals = {}
  PriceVals = {}
  LimitVals = {}
  MaxLen = 0
  InitBal = 0
INIT TraceInit
NEXT TraceNext
CONSTRAINT HighWater
INVARIANTS DepositBacked NonNegative FreeAllRefundsAll StorageMatchesDisk
POSTCONDITION Accepted
CHECK_DEADLOCK FALSE
