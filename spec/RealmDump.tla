----------------------------- MODULE RealmDump -----------------------------
(* C06 (state-V): evaluates the statement's invariants (RealmInv.tla) on every persisted
   object graph dumped from the REAL committed base store by harness/cmd/realm - one file
   realm_dump_<l>.json per committed transaction (this run evaluates l = lo..hi of realm_dump_n.json):
     {l, beh, step, ext: [ids that exist outside the dumped packages],
      objs: {id: {ispkg, counted, rc, owner ("" = none), esc, hashok, refs: [ids, with multiplicity]}}}
   Every 10th line (and the first one of every realm instance) holds the WHOLE graph of the realm
   packages (all objects counted); the other lines hold every DATA object (heap items, structs,
   arrays - counted) plus the code objects (blocks, functions, package values - which only
   data objects and each other can refer to them... and which no data object of this realm
   alphabet refers to) that own or are referred to by a data object, kept uncounted as the
   anchors of ownership and reachability.
   The dumped packages are all realm packages of the chain under test, so every reference to
   an object of a realm package is in the dump (DESIGN 6.C calibration: references to objects
   of immutable packages are not counted in the target and are only checked for existence).
   Nothing halts on a failing graph: every failing (object, clause) is printed as a DUMPFAIL
   payload and the check turns it into a violation keyed by the clause.                  *)
EXTENDS Integers, Sequences, FiniteSets, TLC, Json

Meta == ndJsonDeserialize("realm_dump_n.json")[1]      \* {lo, hi}: the lines this run evaluates
Line(i) == ndJsonDeserialize("realm_dump_" \o ToString(i) \o ".json")[1]

VARIABLES l, g      \* g = the graph of line l, with the in-degree of every object computed once

Prep(x) ==
  LET ids == DOMAIN x.objs
      pairs == UNION {{<<p, j>> : j \in 1..Len(x.objs[p].refs)} : p \in ids}
  IN [l |-> x.l, beh |-> x.beh, step |-> x.step, objs |-> x.objs, ext |-> x.ext, times |-> x.times,
      deg |-> [o \in ids |-> Cardinality({pj \in pairs : x.objs[pj[1]].refs[pj[2]] = o})]]

DIds == DOMAIN g.objs
DIsPkg(o) == g.objs[o].ispkg
DRc(o) == g.objs[o].rc
DOwner(o) == g.objs[o].owner
DEsc(o) == g.objs[o].esc
DHashOK(o) == g.objs[o].hashok
DRefs(o) == g.objs[o].refs
DInDeg(o) == g.deg[o]
DCnt(p, o) == Cardinality({j \in 1..Len(DRefs(p)) : DRefs(p)[j] = o})
DNewTime(o) == g.objs[o].nt
\* times: realm tag (first letters of the shortened id) -> Time decoded from the raw oid:<pkg>:1#realm record
DPkgTime(o) == g.times[g.objs[o].rt]
DOut(p) == {DRefs(p)[j] : j \in 1..Len(DRefs(p))}
DExt == {g.ext[j] : j \in 1..Len(g.ext)}

DCounted == {o \in DIds : g.objs[o].counted}
DRoots == {o \in DIds : g.objs[o].ispkg \/ ~g.objs[o].counted}
I == INSTANCE RealmInv WITH Ids <- DIds, Counted <- DCounted, RootIds <- DRoots, NoId <- "", Ext <- DExt,
       IsPkg <- DIsPkg, Rc <- DRc, Owner <- DOwner, Esc <- DEsc, HashOK <- DHashOK, Cnt <- DCnt, InDeg <- DInDeg, Out <- DOut,
       NewTime <- DNewTime, PkgTime <- DPkgTime

Eval ==
  LET R == I!Reachable
      F == [o \in DIds |-> I!Fails(o, R)]
      Bad == {o \in DIds : F[o] # {}}
  IN IF Bad = {} THEN TRUE
     ELSE PrintT(<<"DUMPFAIL", ToJson([l |-> g.l, beh |-> g.beh, step |-> g.step,
            bad |-> {[id |-> o, rc |-> DRc(o), owner |-> DOwner(o), esc |-> DEsc(o), fails |-> F[o]] : o \in Bad}])>>)

Init == l = Meta.lo /\ g = Prep(Line(Meta.lo)) /\ TLCSet(1, 0)
Next == /\ l <= Meta.hi
        /\ Eval
        /\ TLCSet(1, l)
        /\ l' = l + 1
        /\ g' = IF l < Meta.hi THEN Prep(Line(l + 1)) ELSE g
\* every line was evaluated
Accepted == IF TLCGet(1) = Meta.hi THEN TRUE
            ELSE PrintT(<<"REJECTED-AT", TLCGet(1)>>) /\ FALSE
=============================================================================
