CONSTANTS
  N = 3
  Removers <- R1
  Trav <- T3
  ChanTrav <- ChanT2
  BugNoReplaceWg = FALSE
  BugNoSetRemoved = FALSE
  BugNoWakeOnRemove = FALSE
  BugNoRelink = FALSE
SPECIFICATION Spec
INVARIANTS TypeOK NoPanic RefNext RefFront RefLen RefRemoved OrderOK LiveNextLive TravOK WakeupDelivered

