CONSTANTS
  NK = 10
  NV = 1
  MaxLen = 14
  Reads <- ReadsNone
  Lims <- Lims0
  Grow = 0
  Quiet = FALSE
INIT Init
NEXT Next
VIEW View
INVARIANTS TypeOK Refines Balanced WellFormed
ACTION_CONSTRAINT EmitEdgeTagged
