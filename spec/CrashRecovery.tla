---------------------------- MODULE CrashRecovery ----------------------------
(* C33. Persistent media of a node and the order in which one height writes them
   (tm2/pkg/bft/consensus/state.go finalizeCommit + tm2/pkg/bft/state/execution.go ApplyBlock):

     SaveBlock(h)            block store height      s := h        (state.go 1357-1366)
     WriteEndHeight(h)       WAL marker Height=h+1   w := h+1      (state.go 1382)
     SaveABCIResponses(h)    responses for h         r := h        (execution.go 100)
     AppCommit(h)            application height      a := h        (execution.go 131; itself atomic: C27)
     SaveState(h)            state store height      t := h        (execution.go 138)

   Crash may happen between any two of them (and anywhere inside the voting that precedes
   them, which changes none of these). Recover = Handshaker.ReplayBlocks (replay.go 280-442),
   transcribed case by case, followed by WAL catch-up for height t+1 (replay.go 98), which
   needs the marker Height = t+1 and refuses a marker Height = t+2.

   The same operators serve the exhaustive model and the validation of crash runs of a REAL
   node (CrashRecoveryTrace.tla).                                                         *)
EXTENDS Integers, TLC, CrashRecoveryOps

VARIABLES s, w, r, a, t,      \* media (heights): store, WAL marker value, ABCI responses, app, state
          pc,                 \* next write of the height in progress / "crashed" / "recovered"
          ok                  \* recovery outcome

vars == <<s, w, r, a, t, pc, ok>>

Init == s = 0 /\ w = 0 /\ r = 0 /\ a = 0 /\ t = 0 /\ pc = "block" /\ ok = TRUE

\* ---- the model
Write ==
  /\ pc \in {"block", "endheight", "responses", "app", "state"}
  /\ s < MaxHeight \/ pc # "block"
  /\ LET h == t + 1 IN
     CASE pc = "block" -> s' = h /\ pc' = "endheight" /\ UNCHANGED <<w, r, a, t>>
       [] pc = "endheight" -> w' = h + 1 /\ pc' = "responses" /\ UNCHANGED <<s, r, a, t>>
       [] pc = "responses" -> r' = h /\ pc' = "app" /\ UNCHANGED <<s, w, a, t>>
       [] pc = "app" -> a' = h /\ pc' = "state" /\ UNCHANGED <<s, w, r, t>>
       [] pc = "state" -> t' = h /\ pc' = "block" /\ UNCHANGED <<s, w, r, a>>
  /\ UNCHANGED ok

Crash == pc \notin {"crashed"} /\ pc' = "crashed" /\ UNCHANGED <<s, w, r, a, t, ok>>

Recover ==
  /\ pc = "crashed"
  /\ IF HandshakeOK(s, t, a) /\ MockNeedsResponses(s, t, a, r)
     THEN /\ a' = s /\ t' = s /\ r' = IF r < s THEN s ELSE r
          /\ ok' = TRUE
          /\ pc' = "block"
     ELSE ok' = FALSE /\ pc' = "dead" /\ UNCHANGED <<a, t, r>>
  /\ UNCHANGED <<s, w>>

Next == Write \/ Crash \/ Recover
Spec == Init /\ [][Next]_vars

\* ---- properties
NoUncoveredCase == ok                                     \* the handshake never panics / errors on a crash state
CrashStatesAreShaped == pc = "crashed" => CrashShape(s, w, r, a, t)
AtRestConsistent == pc = "block" => s = t /\ a = t /\ r = t
=============================================================================
