CONSTANTS
  Power <- P112
  Blocks <- BlocksABN
  Peers <- Peers1
  MaxLen = 5
  Classes <- ClsCore
INIT Init
NEXT Next
VIEW View
INVARIANTS TypeOK Maj23Exact Maj23Reported SumExact CommitCarriesMajority PrimaryTracked ConflictNeedsPeerClaim
PROPERTIES FirstStable
ACTION_CONSTRAINT EmitEdge
