CONSTANTS
  Part = "simple"
  NI = 3
  MaxRep = 3
  MaxN = 9
  NKeys = 1
INIT Init
NEXT Next
INVARIANTS Complete Sound SingleFieldRejected GapOnly EmitCase
