CONSTANTS
  Part = "simple"
  NI = 2
  MaxRep = 5
  MaxN = 9
  NKeys = 1
INIT Init
NEXT Next
INVARIANTS Complete Sound SingleFieldRejected GapOnly EmitCase
