CONSTANTS
  MaxVer = 2
  NQ = 0
  NCheck = 0
  QKinds <- KNone
  Orders <- OAll
  Crashes = TRUE
  Snapshots = FALSE
  Fine = FALSE
  AtomicResolve = FALSE
  Coarse = FALSE
  Keep <- KeepAll
  StoreDirect = FALSE
  MetaDirect = TRUE
  MaxLen = 30
INIT Init
NEXT Next
VIEW StateView
INVARIANTS TypeOK Recoverable RecoveredVersion
