CONSTANTS
  NK = 300
  NV = 3
  MaxVer = 8
  MaxLen = 50
  NR = 2
  Impl = "iavl"
  SmallTree = FALSE
  Opts <- OptsIavl
  Reads = TRUE
  BadArgs = FALSE
  SvAlways = FALSE
  Quiet = FALSE
  FillSizes <- FillBig
  Scripts <- NoScripts
INIT Init
NEXT NextSimF
VIEW View
INVARIANTS TypeOK Contig WorkingRetained ReadersRetained CleanIsSaved NotRetainedIsBlank HkFunctional
PROPERTIES SavedImmutable PruneKeepsRetained OnlyNext SessionDrop
INVARIANT EmitAtEnd
