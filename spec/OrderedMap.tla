---------------------------- MODULE OrderedMap ----------------------------
(* C50. The avl package examples/gno.land/p/nt/avl/v0 (tree.gno, node.gno) as an ordered map.

   Two layers in one module:
   * `m`  - the abstract ordered map (key id -> value, 0 = absent). Every reply of every
            public Tree method is DEFINED from `m` (ordered-map semantics). These replies are
            the verdict observables replayed on the real tree in the GnoVM.
   * `t`  - the concrete AVL tree built exactly as node.gno builds it (Set / Remove / balance /
            rotateLeft / rotateRight / calcHeightAndSize, same branch structure, leaves carry
            the values, inner nodes carry the smallest key of their right subtree). TLC checks
            on every reachable state that `t` refines `m` (Refines), is height-balanced
            (Balanced) and that the stored heights/sizes/separator keys are exact (WellFormed).
            The driver additionally reads the REAL tree's shape (pre-order walk over the exported
            Node API) and checks balance on the real heights; agreement of the real shape with
            `t` is a guidance observable (counted as drift, never a violation).

   Remove steps carry coverage tags (BalTags): "L0"/"R0" = the rebalancing met a heavy child with
   balance factor 0 (only reachable after removals, >= 6 keys), "L0x"/"R0x" = in addition the inner
   grandchild leans the other way (>= 9 keys; a double rotation there leaves an unbalanced node).
   EmitEdgeTagged emits exactly the edges ending in such a Remove (cfgs _qr 9 keys, _tr 10 keys).

   Keys are ids 1..NK; the driver maps them to strings by a strictly increasing table whose
   first entry is the empty string (id 1 = ""), followed by adjacent keys ("a", "a\x00", ...).

   Named deviations from a naive ordered-map reading (documented behaviour of the package):
   * Iterate/ReverseIterate: an empty start / end string means "no bound" (tree.gno, node.gno
     TraverseInRange doc); ascending ranges are [start, end), descending ranges are
     [start, end] (both inclusive) - modelled as documented.
   * GetByIndex outside 0..Size-1 panics (no reply); modelled as reply "panic".
   * IterateByOffset with negative offset/count is outside the generated behaviours.
   * The boolean returned by (Reverse)IterateByOffset is not compared (it conflates "limit
     reached" with "callback stopped"); the visited sequence is.                              *)
EXTENDS Integers, Sequences, FiniteSets, TLC, Json

CONSTANTS NK,       \* number of key ids
          NV,       \* values written are 1..NV
          MaxLen,   \* bound on the number of steps of a behaviour
          Reads,    \* subset of AllReads enabled in Next
          Lims,     \* early-stop limits used by iteration callbacks (0 = never stop)
          Grow,     \* simulation: number of leading steps that are Sets only
          Quiet     \* TRUE: do not build hist (exhaustive runs without emission)

AllReads == {"Get", "Has", "Size", "GetByIndex", "Iterate", "ReverseIterate",
             "IterateByOffset", "ReverseIterateByOffset"}
Keys == 1..NK
Max(a, b) == IF a > b THEN a ELSE b
Min(a, b) == IF a < b THEN a ELSE b

VARIABLES m,      \* [Keys -> 0..NV]
          t,      \* AVL tree (records, see below)
          steps,  \* number of steps taken (bound; not in VIEW)
          hist

vars == <<m, t>>

\* ------------------------------------------------------------------ the concrete tree
Nil == [h |-> -1]
Leaf(k, v) == [k |-> k, v |-> v, h |-> 0, s |-> 1]
Recalc(n) == [n EXCEPT !.h = Max(n.l.h, n.r.h) + 1, !.s = n.l.s + n.r.s]     \* calcHeightAndSize
Inner2(k, l, r) == [k |-> k, h |-> 1, s |-> 2, l |-> l, r |-> r]

RotR(n) == LET l == n.l                                                          \* rotateRight
               n1 == Recalc([n EXCEPT !.l = l.r])
           IN Recalc([l EXCEPT !.r = n1])
RotL(n) == LET r == n.r                                                          \* rotateLeft
               n1 == Recalc([n EXCEPT !.r = r.l])
           IN Recalc([r EXCEPT !.l = n1])
Bal(n) == n.l.h - n.r.h                                                          \* calcBalance
Balance(n) ==                                                                    \* balance
  LET b == Bal(n) IN
  IF b > 1 THEN IF Bal(n.l) >= 0 THEN RotR(n)                                    \* left left
                ELSE RotR([n EXCEPT !.l = RotL(n.l)])                            \* left right
  ELSE IF b < -1 THEN IF Bal(n.r) <= 0 THEN RotL(n)                              \* right right
                      ELSE RotL([n EXCEPT !.r = RotR(n.r)])                      \* right left
  ELSE n

RECURSIVE TSet(_, _, _)
TSet(n, k, v) ==                                                                 \* (*Node).Set
  IF n.h = -1 THEN [n |-> Leaf(k, v), upd |-> FALSE]
  ELSE IF n.h = 0 THEN
    IF k < n.k THEN [n |-> Inner2(n.k, Leaf(k, v), n), upd |-> FALSE]
    ELSE IF k = n.k THEN [n |-> Leaf(k, v), upd |-> TRUE]
    ELSE [n |-> Inner2(k, n, Leaf(k, v)), upd |-> FALSE]
  ELSE IF k < n.k
    THEN LET r == TSet(n.l, k, v)
             n1 == [n EXCEPT !.l = r.n]
         IN IF r.upd THEN [n |-> n1, upd |-> TRUE] ELSE [n |-> Balance(Recalc(n1)), upd |-> FALSE]
    ELSE LET r == TSet(n.r, k, v)
             n1 == [n EXCEPT !.r = r.n]
         IN IF r.upd THEN [n |-> n1, upd |-> TRUE] ELSE [n |-> Balance(Recalc(n1)), upd |-> FALSE]

\* Coverage tags of a rebalancing: the heavy child of an out-of-balance node has balance factor
\* exactly 0 ("L0"/"R0": impossible after insertions, arises only when a Remove shortens the other
\* side; the single rotation is the only correct answer there), and additionally its inner
\* grandchild leans the other way ("L0x"/"R0x": a double rotation would leave an unbalanced node).
BalTags(n) ==
  IF Bal(n) > 1 /\ Bal(n.l) = 0
  THEN {"L0"} \cup (IF n.l.r.h > 0 /\ Bal(n.l.r) < 0 THEN {"L0x"} ELSE {})
  ELSE IF Bal(n) < -1 /\ Bal(n.r) = 0
  THEN {"R0"} \cup (IF n.r.l.h > 0 /\ Bal(n.r.l) > 0 THEN {"R0x"} ELSE {})
  ELSE {}

RECURSIVE TRemove(_, _)
TRemove(n, k) ==                                                                 \* (*Node).Remove
  IF n.h = -1 THEN [n |-> Nil, nk |-> 0, v |-> 0, rem |-> FALSE, tags |-> {}]
  ELSE IF n.h = 0 THEN
    IF k = n.k THEN [n |-> Nil, nk |-> 0, v |-> n.v, rem |-> TRUE, tags |-> {}]
    ELSE [n |-> n, nk |-> 0, v |-> 0, rem |-> FALSE, tags |-> {}]
  ELSE IF k < n.k
    THEN LET r == TRemove(n.l, k) IN
         IF ~r.rem THEN [n |-> n, nk |-> 0, v |-> 0, rem |-> FALSE, tags |-> {}]
         ELSE IF r.n.h = -1 THEN [n |-> n.r, nk |-> n.k, v |-> r.v, rem |-> TRUE, tags |-> {}]
         ELSE LET n1 == Recalc([n EXCEPT !.l = r.n])
              IN [n |-> Balance(n1), nk |-> r.nk, v |-> r.v, rem |-> TRUE, tags |-> r.tags \cup BalTags(n1)]
    ELSE LET r == TRemove(n.r, k) IN
         IF ~r.rem THEN [n |-> n, nk |-> 0, v |-> 0, rem |-> FALSE, tags |-> {}]
         ELSE IF r.n.h = -1 THEN [n |-> n.l, nk |-> 0, v |-> r.v, rem |-> TRUE, tags |-> {}]
         ELSE LET n1 == Recalc([n EXCEPT !.r = r.n, !.k = IF r.nk # 0 THEN r.nk ELSE @])
              IN [n |-> Balance(n1), nk |-> 0, v |-> r.v, rem |-> TRUE, tags |-> r.tags \cup BalTags(n1)]

RECURSIVE Leaves(_)
Leaves(n) == IF n.h = -1 THEN <<>> ELSE IF n.h = 0 THEN << <<n.k, n.v>> >>
             ELSE Leaves(n.l) \o Leaves(n.r)
\* pre-order walk: <<key, size>> per node, inner nodes included (what the driver reads)
RECURSIVE Pre(_)
Pre(n) == IF n.h = -1 THEN <<>> ELSE IF n.h = 0 THEN << <<n.k, 1>> >>
          ELSE << <<n.k, n.s>> >> \o Pre(n.l) \o Pre(n.r)

\* ------------------------------------------------------------------ the abstract map
RECURSIVE ItemsFrom(_, _)
ItemsFrom(mm, k) == IF k > NK THEN <<>>
                    ELSE (IF mm[k] # 0 THEN << <<k, mm[k]>> >> ELSE <<>>) \o ItemsFrom(mm, k + 1)
Items(mm) == ItemsFrom(mm, 1)
Rev(s) == [i \in 1..Len(s) |-> s[Len(s) + 1 - i]]
Take(s, lim) == IF lim > 0 /\ Len(s) > lim THEN SubSeq(s, 1, lim) ELSE s
Stopped(s, lim) == lim > 0 /\ Len(s) >= lim
\* id 1 is the empty string = "no bound"
AscRange(mm, s, e) == SelectSeq(Items(mm), LAMBDA it : (s = 1 \/ s <= it[1]) /\ (e = 1 \/ it[1] < e))
DescRange(mm, s, e) == Rev(SelectSeq(Items(mm), LAMBDA it : (s = 1 \/ s <= it[1]) /\ (e = 1 \/ it[1] <= e)))
Slice(s, off, cnt) == IF cnt <= 0 \/ off >= Len(s) THEN <<>> ELSE SubSeq(s, off + 1, Min(off + cnt, Len(s)))

St(mm, tt) == [items |-> Items(mm), pre |-> Pre(tt)]

Init == /\ m = [k \in Keys |-> 0]
        /\ t = Nil
        /\ steps = 0
        /\ hist = <<>>

Log(rec) == /\ steps' = steps + 1
            /\ hist' = IF Quiet THEN hist ELSE Append(hist, rec)

Set(k, v) ==
  /\ steps < MaxLen
  /\ LET r == TSet(t, k, v)
         m1 == [m EXCEPT ![k] = v]
     IN /\ m' = m1
        /\ t' = r.n
        /\ Log([act |-> "Set", k |-> k, v |-> v, reply |-> (m[k] # 0), st |-> St(m1, r.n)])

Remove(k) ==
  /\ steps < MaxLen
  /\ LET r == TRemove(t, k)
         m1 == [m EXCEPT ![k] = 0]
     IN /\ m' = m1
        /\ t' = r.n
        /\ Log([act |-> "Remove", k |-> k, reply |-> [v |-> m[k], removed |-> (m[k] # 0)], tags |-> r.tags, st |-> St(m1, r.n)])

Read(rec) == steps < MaxLen /\ UNCHANGED vars /\ Log(rec)

Get(k) == "Get" \in Reads /\ Read([act |-> "Get", k |-> k, reply |-> m[k]])
Has(k) == "Has" \in Reads /\ Read([act |-> "Has", k |-> k, reply |-> (m[k] # 0)])
Size == "Size" \in Reads /\ Read([act |-> "Size", reply |-> Len(Items(m))])
GetByIndex(i) ==
  /\ "GetByIndex" \in Reads
  /\ LET its == Items(m) IN
     Read([act |-> "GetByIndex", i |-> i,
           reply |-> IF i >= 0 /\ i < Len(its) THEN [panic |-> FALSE, k |-> its[i + 1][1], v |-> its[i + 1][2]]
                     ELSE [panic |-> TRUE, k |-> 0, v |-> 0]])
Iterate(s, e, lim) ==
  /\ "Iterate" \in Reads
  /\ LET r == AscRange(m, s, e) IN
     Read([act |-> "Iterate", s |-> s, e |-> e, lim |-> lim, reply |-> [seq |-> Take(r, lim), stopped |-> Stopped(r, lim)]])
ReverseIterate(s, e, lim) ==
  /\ "ReverseIterate" \in Reads
  /\ LET r == DescRange(m, s, e) IN
     Read([act |-> "ReverseIterate", s |-> s, e |-> e, lim |-> lim, reply |-> [seq |-> Take(r, lim), stopped |-> Stopped(r, lim)]])
IterateByOffset(off, cnt, lim) ==
  /\ "IterateByOffset" \in Reads
  /\ Read([act |-> "IterateByOffset", off |-> off, cnt |-> cnt, lim |-> lim,
           reply |-> [seq |-> Take(Slice(Items(m), off, cnt), lim)]])
ReverseIterateByOffset(off, cnt, lim) ==
  /\ "ReverseIterateByOffset" \in Reads
  /\ Read([act |-> "ReverseIterateByOffset", off |-> off, cnt |-> cnt, lim |-> lim,
           reply |-> [seq |-> Take(Slice(Rev(Items(m)), off, cnt), lim)]])

Next == \/ \E k \in Keys, v \in 1..NV : Set(k, v)
        \/ \E k \in Keys : Remove(k)
        \/ \E k \in Keys : Get(k) \/ Has(k)
        \/ Size
        \/ \E i \in -1..NK : GetByIndex(i)
        \/ \E s \in Keys, e \in Keys, lim \in Lims : Iterate(s, e, lim) \/ ReverseIterate(s, e, lim)
        \/ \E off \in 0..NK, cnt \in 0..(NK + 1), lim \in Lims :
             IterateByOffset(off, cnt, lim) \/ ReverseIterateByOffset(off, cnt, lim)

\* Simulation: arguments are drawn inside the action (one successor per disjunct) so that the
\* many read instances do not starve the mutations; the first Grow steps only insert.
Pick(S) == RandomElement({x \in S : steps >= 0})
SimNext ==
  IF steps < Grow THEN Set(Pick(Keys), Pick(1..NV))
  ELSE \/ Set(Pick(Keys), Pick(1..NV))
       \/ Remove(Pick(Keys))
       \/ Remove(Pick({k \in Keys : m[k] # 0} \cup {1}))
       \/ Get(Pick(Keys)) \/ Has(Pick(Keys)) \/ Size
       \/ GetByIndex(Pick(-1..(Len(Items(m)) + 1)))
       \/ Iterate(Pick(Keys), Pick(Keys), Pick(Lims))
       \/ ReverseIterate(Pick(Keys), Pick(Keys), Pick(Lims))
       \/ IterateByOffset(Pick(0..(Len(Items(m)) + 1)), Pick(0..(Len(Items(m)) + 2)), Pick(Lims))
       \/ ReverseIterateByOffset(Pick(0..(Len(Items(m)) + 1)), Pick(0..(Len(Items(m)) + 2)), Pick(Lims))

Spec == Init /\ [][Next]_<<vars, steps, hist>>
View == vars

\* ------------------------------------------------------------------ properties (C50)
IsLeafRec(n) == n.h = 0
RECURSIVE RealH(_)
RealH(n) == IF n.h = -1 THEN -1 ELSE IF IsLeafRec(n) THEN 0 ELSE Max(RealH(n.l), RealH(n.r)) + 1
RECURSIVE Count(_)
Count(n) == IF n.h = -1 THEN 0 ELSE IF IsLeafRec(n) THEN 1 ELSE Count(n.l) + Count(n.r)
RECURSIVE MinKey(_)
MinKey(n) == IF IsLeafRec(n) THEN n.k ELSE MinKey(n.l)
RECURSIVE MaxKey(_)
MaxKey(n) == IF IsLeafRec(n) THEN n.k ELSE MaxKey(n.r)
RECURSIVE BalancedAt(_)
BalancedAt(n) == n.h <= 0 \/ ( /\ RealH(n.l) - RealH(n.r) \in {-1, 0, 1}
                                /\ BalancedAt(n.l) /\ BalancedAt(n.r) )
RECURSIVE WellFormedAt(_)
WellFormedAt(n) == n.h <= 0 \/ ( /\ n.h = RealH(n) /\ n.s = Count(n)
                                  /\ n.k = MinKey(n.r) /\ MaxKey(n.l) < n.k
                                  /\ n.l.h >= 0 /\ n.r.h >= 0
                                  /\ WellFormedAt(n.l) /\ WellFormedAt(n.r) )
\* the concrete tree holds exactly the abstract map, in key order
Refines == Leaves(t) = Items(m)
\* height-balanced: the heights of the two subtrees of every node differ by at most one
Balanced == BalancedAt(t)
\* stored heights, sizes and separator keys are exact (what Get/GetByIndex/balance rely on)
WellFormed == WellFormedAt(t)
TypeOK == m \in [Keys -> 0..NV]

Emit == PrintT(<<"TRACE", ToJson(hist)>>)
EmitAtEnd == steps < MaxLen \/ Emit
EmitEdge == PrintT(<<"EDGE", ToJson(hist')>>)
\* emit only the edges whose last step is a Remove that rebalances over a balance-0 heavy child
EmitEdgeTagged == LET h == hist' IN
                  IF Len(h) > 0 /\ h[Len(h)].act = "Remove" /\ h[Len(h)].tags # {}
                  THEN PrintT(<<"EDGE", ToJson(h)>>) ELSE TRUE
=============================================================================
