---------------------------- MODULE Session ----------------------------
(* C16. Session keys cannot exceed their spend limit or allowed actions.
   One master account, sessions s1 / s2 created by the master, block time = `now`.
   Mirrors, with the code's branch structure:
     tm2/pkg/sdk/auth/handler.go   CreateSession / RevokeSession / RevokeAllSessions
     tm2/pkg/sdk/auth/ante.go      phase 1 (session lookup, expiry), phase 2a (pre-check of the declared
                                   outflow: fee + SpendForSigner of every message), phase 2b (fee counted
                                   against the session, then deducted), phase 3 (sequence bump, record persisted)
     gno.land/pkg/gnoland/app.go   checkSessionRestrictions (always-denied messages, AllowPaths)
     tm2/pkg/sdk/auth/spend.go     DeductSessionSpend / CheckSessionSpend (period reset, limit test)
     tm2/pkg/sdk/bank/keeper.go    SendCoins hook (bank send, coins attached to a realm call)
     gno.land/pkg/sdk/vm/keeper.go lockStorageDeposit counts against the session; refunds do not give back
   A session transaction has three outcomes: "reject" (ante: nothing happens, not even a fee),
   "fail" (a message failed: rolled back to the state after the ante handler: fee spent, counted),
   "ok".

   GHOST  out[s]: what really left the master's balance through transactions signed by s during the
   session's current period, accumulated from the master's balance before / after each such
   transaction (never from the session's own `used` counter). The property:
       WithinLimit     out[s] <= limit[s]
       UsedCovers      out[s] <= used[s]      (the code's counter never under-counts real outflow)
   Named deviation (DESIGN 4.3): "within one spend period" is read with the code's documented
   period rule (BaseSessionAccount.SpendReset = start of the current period; a new period starts
   at the first counted spend at or after start + period, spend.go). Sliding windows are not
   claimed: any fixed-window limiter admits 2 x limit across a window boundary.
   Amounts are in units (driver: 1 unit = 10 000 ugnot = 100 bytes of realm storage at the
   default storage price, so storage deposits and refunds are whole units too).            *)
EXTENDS Integers, Sequences, FiniteSets, TLC, Json

CONSTANTS Sess,        \* session names, e.g. {"s1", "s2"}
          Menu,        \* set of message sequences a session / master transaction may carry
          MixMenu,     \* message sequences of transactions signed by an ORDINARY account and a session key together
          Creates,     \* set of [limit, period, expin, allow] session parameters
          Fees,        \* fees of session transactions
          Pre,         \* [Sess -> create parameters, or limit = -1 for none]: sessions created by the master at time 0
          MaxTime, MaxLen

MStart == 40                              \* master's balance at the start (units)
OStart == 20                              \* balance of the ordinary account o (the session holder's own account)
Allows == {"*", "send", "exec", "execother"}     \* ["*"], ["bank/send"], ["vm/exec:<test realm>"], ["vm/exec:<other realm>"]
NoSess == [exists |-> FALSE, limit |-> 0, used |-> 0, period |-> 0, reset |-> 0, expires |-> 0, allow |-> "*", seq |-> 0]

VARIABLES now, mbal, obal, sess, stor, out, hist, last

vars == <<now, mbal, obal, sess, stor, out>>

\* ------------------------------------------------------------------ messages
\* [k |-> "send", x]      bank send master -> sink
\* [k |-> "pay", x]       realm call with x attached (x = 0: nothing attached)
\* [k |-> "paypanic", x]  realm call with x attached that panics
\* [k |-> "other", x]     call to ANOTHER realm with x attached
\* [k |-> "grow", x]      realm call that grows the caller's box: storage deposit x locked
\* [k |-> "shrink", x]    ... shrinks it: deposit x refunded to the caller
\* [k |-> "give", x]      realm call that sends x from the realm to the master
\* [k |-> "revoke", x]    auth message (revoke session x = 1 / 2) - never allowed to a session
\* [k |-> "osend", x]     bank send o -> sink, signed by the ORDINARY account o with its own key (mixed transactions only)
Declared(m) == IF m.k \in {"send", "pay", "paypanic", "other"} THEN m.x ELSE 0      \* SpendForSigner
RECURSIVE SumDeclared(_, _)
SumDeclared(ms, i) == IF i > Len(ms) THEN 0 ELSE Declared(ms[i]) + SumDeclared(ms, i + 1)

Allowed(al, m) ==
  /\ m.k # "revoke"                                                  \* auth/* is always denied to sessions
  /\ CASE al = "*" -> TRUE
       [] al = "send" -> m.k = "send"
       [] al = "exec" -> m.k \in {"pay", "paypanic", "grow", "shrink", "give"}
       [] al = "execother" -> m.k = "other"

\* spend.go DeductSessionSpend on a session record r at time t; [ok, r]
Deduct(r, amt, t) ==
  IF amt = 0 THEN [ok |-> TRUE, r |-> r]
  ELSE IF r.limit = 0 THEN [ok |-> FALSE, r |-> r]
  ELSE LET r1 == IF r.period > 0 /\ t >= r.reset + r.period THEN [r EXCEPT !.used = 0, !.reset = t] ELSE r
       IN IF r1.used + amt > r1.limit THEN [ok |-> FALSE, r |-> r1] ELSE [ok |-> TRUE, r |-> [r1 EXCEPT !.used = @ + amt]]
\* spend.go CheckSessionSpend (no mutation)
Check(r, amt, t) ==
  \/ amt = 0
  \/ /\ r.limit > 0
     /\ (IF r.period > 0 /\ t >= r.reset + r.period THEN 0 ELSE r.used) + amt <= r.limit

\* one message executed for signer state W = [bal, r (session record or NoSess when master-signed), st (stor), viaSess]
\* returns [ok, w]
Exec(W, m, t) ==
  LET spend(amt) ==     \* bank.SendCoins from the master: session hook, then the debit
        IF amt = 0 THEN [ok |-> TRUE, w |-> W]
        ELSE LET d == IF W.via THEN Deduct(W.r, amt, t) ELSE [ok |-> TRUE, r |-> W.r] IN
             IF ~d.ok THEN [ok |-> FALSE, w |-> W]
             ELSE IF W.bal < amt THEN [ok |-> FALSE, w |-> W]
             ELSE [ok |-> TRUE, w |-> [W EXCEPT !.bal = @ - amt, !.r = d.r]]
  IN CASE m.k = "osend" -> IF W.ob < m.x THEN [ok |-> FALSE, w |-> W] ELSE [ok |-> TRUE, w |-> [W EXCEPT !.ob = @ - m.x]]
       [] m.k \in {"send", "pay", "other"} -> spend(m.x)
       [] m.k = "paypanic" -> [ok |-> FALSE, w |-> W]
       [] m.k = "grow" -> LET s == spend(m.x) IN IF s.ok THEN [ok |-> TRUE, w |-> [s.w EXCEPT !.st = @ + m.x]] ELSE s
       [] m.k = "shrink" -> IF W.st < m.x THEN [ok |-> FALSE, w |-> W]      \* not generated (guard in Next)
                            ELSE [ok |-> TRUE, w |-> [W EXCEPT !.bal = @ + m.x, !.st = @ - m.x]]   \* refund: used stays
       [] m.k = "give" -> [ok |-> TRUE, w |-> [W EXCEPT !.bal = @ + m.x]]
       [] m.k = "revoke" -> [ok |-> TRUE, w |-> W]

RECURSIVE Run(_, _, _, _)
Run(W, ms, i, t) == IF i > Len(ms) THEN [ok |-> TRUE, w |-> W]
                    ELSE LET e == Exec(W, ms[i], t) IN IF e.ok THEN Run(e.w, ms, i + 1, t) ELSE [ok |-> FALSE, w |-> W]

Shrinkable(ms) == \A i \in 1..Len(ms) : ms[i].k = "shrink" => stor >= ms[i].x
ProjS(S) == [s \in Sess |-> [exists |-> S[s].exists, used |-> S[s].used, reset |-> S[s].reset, seq |-> S[s].seq,
                             limit |-> S[s].limit, period |-> S[s].period, expires |-> S[s].expires]]
RecO(r, reply, b, ob, S) == Append(hist, r @@ [reply |-> reply, now |-> now, st |-> [mbal |-> b, obal |-> ob, sess |-> ProjS(S)]])
Rec(r, reply, b, S) == RecO(r, reply, b, obal, S)

\* ------------------------------------------------------------------ a transaction signed with session key s
SessionTx(s, fee, ms) ==
  LET r == sess[s]
      rec == [act |-> "SessionTx", s |-> s, fee |-> fee, msgs |-> ms]
      reject == /\ UNCHANGED vars
                /\ hist' = Rec(rec, "reject", mbal, sess)
                /\ last' = [act |-> "SessionTx", reply |-> "reject", s |-> s]
  IN /\ Len(hist) < MaxLen /\ Shrinkable(ms)
     /\ IF ~r.exists THEN reject                                             \* phase 1: unknown session
        ELSE IF r.expires > 0 /\ now >= r.expires THEN reject                \* phase 1: expired
        ELSE IF ~Check(r, fee + SumDeclared(ms, 1), now) THEN reject         \* phase 2a: declared outflow over the limit
        ELSE LET d == Deduct(r, fee, now) IN                                 \* phase 2b: the fee counts
             IF ~d.ok \/ mbal < fee THEN reject
             ELSE IF \E i \in 1..Len(ms) : ~Allowed(r.allow, ms[i]) THEN reject   \* gno.land restrictions: after the auth ante, still an abort
             ELSE LET r1 == [d.r EXCEPT !.seq = @ + 1]                       \* phase 3
                      W0 == [bal |-> mbal - fee, ob |-> obal, r |-> r1, st |-> stor, via |-> TRUE]
                      e == Run(W0, ms, 1, now)
                      W == IF e.ok THEN e.w ELSE W0                          \* failed message: back to the checkpoint
                      newPeriod == W.r.reset # r.reset
                      delta == mbal - W.bal
                  IN /\ mbal' = W.bal /\ stor' = W.st /\ now' = now /\ obal' = obal
                     /\ sess' = [sess EXCEPT ![s] = W.r]
                     /\ out' = [out EXCEPT ![s] = (IF newPeriod THEN 0 ELSE @) + (IF delta > 0 THEN delta ELSE 0)]
                     /\ hist' = Rec(rec, IF e.ok THEN "ok" ELSE "fail", W.bal, sess')
                     /\ last' = [act |-> "SessionTx", reply |-> IF e.ok THEN "ok" ELSE "fail", s |-> s]

\* a transaction of 2..3 messages signed by TWO signers: the ordinary account o (its own "osend" messages, its own key) and
\* the master through session key s (all other messages). Signers are collected in order of first appearance; the FIRST
\* one pays the fee: when that is o the fee is o's and is not counted against the session (and phase 2a does not run).
\* EVERY session-signed message is checked against the session's restrictions, whatever its position in the transaction
\* and whoever signed the messages before it (app.go checkSessionRestrictions); one failing check rejects the whole
\* transaction without any effect. (Two different sessions of one master cannot co-sign: one signature per signer address.)
IsO(m) == m.k = "osend"
MixedTx(s, fee, ms) ==
  LET r == sess[s]
      sFirst == ~IsO(ms[1])
      rec == [act |-> "MixedTx", s |-> s, fee |-> fee, msgs |-> ms]
      reject == /\ UNCHANGED vars
                /\ hist' = Rec(rec, "reject", mbal, sess)
                /\ last' = [act |-> "MixedTx", reply |-> "reject", s |-> s, msgs |-> ms]
  IN /\ Len(hist) < MaxLen /\ Shrinkable(ms)
     /\ IF ~r.exists THEN reject
        ELSE IF r.expires > 0 /\ now >= r.expires THEN reject
        ELSE IF sFirst /\ ~Check(r, fee + SumDeclared(ms, 1), now) THEN reject          \* phase 2a only for a session that pays
        ELSE LET d == IF sFirst THEN Deduct(r, fee, now) ELSE [ok |-> TRUE, r |-> r] IN
             IF ~d.ok \/ (sFirst /\ mbal < fee) \/ (~sFirst /\ obal < fee) THEN reject
             ELSE IF \E i \in 1..Len(ms) : ~IsO(ms[i]) /\ ~Allowed(r.allow, ms[i]) THEN reject
             ELSE LET r1 == [d.r EXCEPT !.seq = @ + 1]
                      W0 == [bal |-> IF sFirst THEN mbal - fee ELSE mbal, ob |-> IF sFirst THEN obal ELSE obal - fee,
                             r |-> r1, st |-> stor, via |-> TRUE]
                      e == Run(W0, ms, 1, now)
                      W == IF e.ok THEN e.w ELSE W0
                      newPeriod == W.r.reset # r.reset
                      delta == mbal - W.bal
                  IN /\ mbal' = W.bal /\ obal' = W.ob /\ stor' = W.st /\ now' = now
                     /\ sess' = [sess EXCEPT ![s] = W.r]
                     /\ out' = [out EXCEPT ![s] = (IF newPeriod THEN 0 ELSE @) + (IF delta > 0 THEN delta ELSE 0)]
                     /\ hist' = RecO(rec, IF e.ok THEN "ok" ELSE "fail", W.bal, W.ob, sess')
                     /\ last' = [act |-> "MixedTx", reply |-> IF e.ok THEN "ok" ELSE "fail", s |-> s, msgs |-> ms]

\* the master's own transaction (not counted against anybody)
MasterTx(ms) ==
  LET W0 == [bal |-> mbal - 1, ob |-> obal, r |-> NoSess, st |-> stor, via |-> FALSE]
      e == Run(W0, ms, 1, now)
      W == IF e.ok THEN e.w ELSE W0 IN
  /\ Len(hist) < MaxLen /\ Shrinkable(ms) /\ mbal >= 1
  /\ \A i \in 1..Len(ms) : ms[i].k # "revoke"
  /\ mbal' = W.bal /\ stor' = W.st
  /\ UNCHANGED <<now, obal, sess, out>>
  /\ hist' = Rec([act |-> "MasterTx", msgs |-> ms], IF e.ok THEN "ok" ELSE "fail", W.bal, sess)
  /\ last' = [act |-> "MasterTx", reply |-> IF e.ok THEN "ok" ELSE "fail", s |-> "-"]

\* handler.go handleMsgCreateSession (master-signed, fee 1)
CreateSession(s, c) ==
  LET dup == sess[s].exists
      exp == IF c.expin = 0 THEN 0 ELSE now + c.expin
      S == IF dup THEN sess
           ELSE [sess EXCEPT ![s] = [exists |-> TRUE, limit |-> c.limit, used |-> 0, period |-> c.period, reset |-> now,
                                     expires |-> exp, allow |-> c.allow, seq |-> 0]] IN
  /\ Len(hist) < MaxLen /\ mbal >= 1
  /\ mbal' = mbal - 1 /\ sess' = S
  /\ out' = IF dup THEN out ELSE [out EXCEPT ![s] = 0]
  /\ UNCHANGED <<now, obal, stor>>
  /\ hist' = Rec([act |-> "CreateSession", s |-> s, c |-> c], IF dup THEN "fail" ELSE "ok", mbal - 1, S)
  /\ last' = [act |-> "CreateSession", reply |-> IF dup THEN "fail" ELSE "ok", s |-> s]

Revoke(s) ==
  LET S == [sess EXCEPT ![s] = NoSess] IN
  /\ Len(hist) < MaxLen /\ mbal >= 1
  /\ mbal' = mbal - 1 /\ sess' = S
  /\ UNCHANGED <<now, obal, stor, out>>
  /\ hist' = Rec([act |-> "Revoke", s |-> s], IF sess[s].exists THEN "ok" ELSE "fail", mbal - 1, S)
  /\ last' = [act |-> "Revoke", reply |-> IF sess[s].exists THEN "ok" ELSE "fail", s |-> s]

RevokeAll ==
  LET S == [s \in Sess |-> NoSess] IN
  /\ Len(hist) < MaxLen /\ mbal >= 1
  /\ mbal' = mbal - 1 /\ sess' = S
  /\ UNCHANGED <<now, obal, stor, out>>
  /\ hist' = Rec([act |-> "RevokeAll"], "ok", mbal - 1, S)
  /\ last' = [act |-> "RevokeAll", reply |-> "ok", s |-> "-"]

AdvanceTime(t) ==
  /\ Len(hist) < MaxLen /\ t > now /\ t <= MaxTime
  /\ now' = t
  /\ UNCHANGED <<mbal, obal, sess, stor, out>>
  /\ hist' = Append(hist, [act |-> "AdvanceTime", t |-> t, reply |-> "ok", now |-> t, st |-> [mbal |-> mbal, obal |-> obal, sess |-> ProjS(sess)]])
  /\ last' = [act |-> "AdvanceTime", reply |-> "ok", s |-> "-"]

Init ==
  /\ now = 0 /\ mbal = MStart /\ obal = OStart /\ stor = 0
  /\ sess = [s \in Sess |-> IF Pre[s].limit < 0 THEN NoSess
                           ELSE [exists |-> TRUE, limit |-> Pre[s].limit, used |-> 0, period |-> Pre[s].period, reset |-> 0,
                                 expires |-> Pre[s].expin, allow |-> Pre[s].allow, seq |-> 0]]
  /\ out = [s \in Sess |-> 0]
  /\ hist = << [act |-> "Setup", pre |-> Pre, reply |-> "ok", now |-> 0, st |-> [mbal |-> MStart, obal |-> OStart, sess |-> ProjS(sess)]] >>
  /\ last = [act |-> "Init", reply |-> "ok", s |-> "-"]

Next ==
  \/ \E s \in Sess, f \in Fees, ms \in Menu : SessionTx(s, f, ms)
  \/ \E s \in Sess, f \in Fees, ms \in MixMenu : MixedTx(s, f, ms)
  \/ \E ms \in Menu : MasterTx(ms)
  \/ \E s \in Sess, c \in Creates : CreateSession(s, c)
  \/ \E s \in Sess : Revoke(s)
  \/ RevokeAll
  \/ \E t \in 1..MaxTime : AdvanceTime(t)

Spec == Init /\ [][Next]_<<vars, hist, last>>
View == <<vars, Len(hist)>>

\* ------------------------------------------------------------------ properties (C16)
SessionActs == {"SessionTx", "MixedTx"}
\* real outflow attributed to a session within its current period never exceeds its limit
WithinLimit == \A s \in Sess : sess[s].exists => out[s] <= sess[s].limit
\* ... because the session's own counter covers it and is itself bounded
UsedCovers == \A s \in Sess : sess[s].exists => out[s] <= sess[s].used /\ sess[s].used <= sess[s].limit
\* an expired, revoked or never created session authorises nothing: the transaction is rejected without any effect
DeadAuthorizesNothing ==
  [][(last'.act \in SessionActs /\ (~sess[last'.s].exists \/ (sess[last'.s].expires > 0 /\ now >= sess[last'.s].expires)))
        => (last'.reply = "reject" /\ UNCHANGED vars)]_<<vars, last>>
\* a rejected session transaction costs the master nothing; a failed one costs exactly what the session was charged for
RejectIsFree == [][(last'.act \in SessionActs /\ last'.reply = "reject") => UNCHANGED vars]_<<vars, last>>
\* restrictions hold at every position: a mixed transaction takes effect only if every session-signed message of it is allowed
RestrictionsEverywhere ==
  [][(last'.act = "MixedTx" /\ last'.reply # "reject") =>
       \A i \in 1..Len(last'.msgs) : IsO(last'.msgs[i]) \/ Allowed(sess[last'.s].allow, last'.msgs[i])]_<<vars, last>>
\* a session transaction never takes more from the master than the session's remaining budget at that moment
StepWithinBudget ==
  [][last'.act \in SessionActs =>
       LET s == last'.s IN mbal - mbal' <= sess[s].limit]_<<vars, last>>
\* sessions of the same master are independent: a transaction of one never changes the other's record
Independent == [][last'.act \in SessionActs => \A s \in Sess : s # last'.s => sess'[s] = sess[s]]_<<vars, last>>
TypeOK == mbal >= 0 /\ obal >= 0 /\ stor >= 0 /\ \A s \in Sess : sess[s].used >= 0

Emit == PrintT(<<"TRACE", ToJson(hist)>>)
EmitAtEnd == Len(hist) < MaxLen \/ Emit
EmitEdge == PrintT(<<"EDGE", ToJson(hist')>>)
=============================================================================
