CONSTANTS
  P = 3
  InitSets <- InitB
  ChangeLists <- ChB
  Times <- T1
  MaxTotal = 100
  MaxLen = 2
  FairOnly = FALSE
INIT Init
NEXT Next
VIEW View
INVARIANTS TypeOK Fairness PriorityWindow SortedUnique PowersPositive TotalBounded ProposerIsMember
PROPERTIES NeverEmptied RejectedUpdateIsNoOp
ACTION_CONSTRAINT EmitEdge
