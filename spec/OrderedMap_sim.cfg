CONSTANTS
  NK = 40
  NV = 3
  MaxLen = 70
  Reads <- ReadsAll
  Lims <- Lims012
  Grow = 24
  Quiet = FALSE
INIT Init
NEXT SimNext
VIEW View
INVARIANTS TypeOK Refines Balanced WellFormed
INVARIANT EmitAtEnd
