CONSTANTS
  K = 3
  H0 = 2
  MaxLen = 6
  NV = 2
  FirstHs <- F13
  MaxFirst = 3
INIT Init
NEXT Next
VIEW View
INVARIANTS TypeOK LoadEqualsSaved Contiguous HeightIsLastSaved ValsAtHeightCorrect ParamsAtHeightCorrect KnownRange
PROPERTIES HeightMonotone

