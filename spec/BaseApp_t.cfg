CONSTANTS
  Users <- MCUsers
  Others <- MCOthers
  Vars <- MCVars
  GasNeeds <- MCGasNeeds
  FlushFirst = FALSE
  MaxTxs = 4
  MaxBlocks = 2
INIT MCInit
NEXT MCNext
INVARIANTS Atomic GasUsedLeWanted OkWithinBlock NoTxAfterExhausted TotalConserved NonNegative
PROPERTIES SeqStep
