CONSTANTS
  Sits <- AllSits
  PairsFor <- PairsT
  PairFields <- FieldsT
  ExtraSets <- Extras
INIT Init
NEXT Next
VIEW View
INVARIANTS TypeOK Sound Complete QuorumExact EmitAtEnd
