CONSTANTS
  Sits <- AllSits
  PairsFor <- PairsT
  ExtraSets <- Extras
INIT Init
NEXT Next
VIEW View
INVARIANTS TypeOK Sound Complete EmitAtEnd
