---------------------------- MODULE BankTrace ----------------------------
(* (V) for C14: validates executions recorded from the REAL gno.land application
   (harness/cmd/bank -mode record) against Bank.tla. One NDJSON line per event:
     Init   {t, st}      committed state after InitChain: raw dump of both balance tiers, supply
                         counters, account objects (kind, number, vesting schedule)
     Tx     {t, signer, fee, ante, ok, msgs}   one DeliverTx and what the application reported
     Commit {t, st}      raw dump of the committed state after the block
   A transaction is explained as a composition of the SAME operators Bank.tla's actions use:
     fee (auth.DeductFees) ; then message by message
       bank send            -> SendRes
       bank multisend       -> IORes
       realm call           -> SendRes(caller -> realm, attached coins) ; body ; storage deposit
            body  Mint / Burn / Give / MintPanic / Pay / Grow of the test realm r/verif/bank
            deposit locked (+) / refunded (-): SendUnrRes with the amount OBSERVED at the deposit
            address (the only free input; everything else is predicted)
     any failing message rolls back to the state after the fee (runTx; C02).
   The reported verdict must be the predicted one, every Commit dump must equal the predicted
   state field by field (tier by tier), and all invariants of Bank.tla are evaluated in every
   recorded state. `ante` (did the ante handler accept) is an input: signatures are C15's.
   A transaction may have a second signer (`signers`; its message names it in `from`); the fee
   is always the first signer's, and the fee collector "coll" is a keyed account that also signs -
   alone, first and second - at the end of every recorded history.                              *)
EXTENDS Bank

TheTrace == ndJsonDeserialize("bank_trace.ndjson")
VARIABLE l
tvars == <<vars, hist, last, l>>

TAddrs == {"a", "b", "c", "v", "w", "x", "y", "realm", "dep", "coll", "dpl"}
TCap == 2147483647

Ln == TheTrace[l]
IsEv(a) == l <= Len(TheTrace) /\ Ln.act = a

Amt(x) == [d \in Denoms |-> x[d]]
StBal(st) == [a \in Addrs |-> [d \in Denoms |-> st.acct[a][d] + st.split[a][d]]]
StAcc(st) == [a \in Addrs |-> [kind |-> st.accs[a].kind, num |-> st.accs[a].num, wl |-> FALSE,
                               vs |-> [type |-> st.vs[a].type, ov |-> Amt(st.vs[a].ov), start |-> st.vs[a].start, end |-> st.vs[a].end]]]
\* every balance sits in its own tier, under a known address
TierOK(st) == \A a \in Addrs : st.acct[a]["t"] = 0 /\ st.split[a]["u"] = 0

TraceInit ==
  /\ l = 2
  /\ TheTrace[1].act = "Init"
  /\ LET st == TheTrace[1].st IN
       /\ TierOK(st)
       /\ acc = StAcc(st) /\ bal = StBal(st) /\ supply = Amt(st.supply) /\ unp = Zero
       /\ nextNum = st.nextnum
  /\ now = TheTrace[1].t /\ restricted = FALSE
  /\ hist = <<>> /\ last = [act |-> "Init", reply |-> "ok"]
  /\ TLCSet(1, 0)

U(n) == [d \in Denoms |-> IF d = "u" THEN n ELSE 0]

\* one message of the test alphabet
MsgRes(S, t, m) ==
  IF m.kind = "send" THEN SendRes(S, t, FALSE, m.from, m.to, Amt(m.amt))
  ELSE IF m.kind = "multisend"
       THEN IORes(S, t, FALSE, [k \in 1..Len(m.ins) |-> [a |-> m.ins[k].a, amt |-> Amt(m.ins[k].amt)]],
                               [k \in 1..Len(m.outs) |-> [a |-> m.outs[k].a, amt |-> Amt(m.outs[k].amt)]])
  ELSE \* realm call: attached coins, body, storage deposit
       LET body(s1) ==
             IF m.fn = "Mint" THEN MintRes(s1, m.to, Amt(m.amt))
             ELSE IF m.fn = "Burn" THEN BurnRes(s1, t, m.to, Amt(m.amt))
             ELSE IF m.fn = "Give" THEN SendRes(s1, t, FALSE, "realm", m.to, Amt(m.amt))
             ELSE IF m.fn = "MintPanic" THEN Err("panic", s1)
             ELSE Ok(s1)
           dep(s2) ==
             IF m.dep > 0 THEN SendUnrRes(s2, t, m.from, "dep", U(m.dep))
             ELSE IF m.dep < 0 THEN SendUnrRes(s2, t, "dep", m.from, U(0 - m.dep))
             ELSE Ok(s2)
       IN Then(Then(SendRes(S, t, FALSE, m.from, "realm", Amt(m.send)), body), dep)

RECURSIVE RunMsgs(_, _, _, _)
RunMsgs(S, t, msgs, k) == IF k > Len(msgs) THEN Ok(S) ELSE Then(MsgRes(S, t, msgs[k]), LAMBDA s1 : RunMsgs(s1, t, msgs, k + 1))

TTx ==
  /\ IsEv("Tx")
  /\ LET e == Ln
         rf == IF e.ante THEN FeeRes(Cur, e.t, e.signer, e.fee) ELSE Ok(Cur)
         rm == RunMsgs(rf.s, e.t, e.msgs, 1)
         okSpec == e.ante /\ rm.err = "none"
         S2 == IF okSpec THEN rm.s ELSE rf.s
     IN /\ rf.err = "none"                \* an accepted transaction paid its fee
        /\ e.ok = okSpec                  \* the reported verdict is the predicted one
        /\ acc' = S2.acc /\ bal' = S2.bal /\ supply' = S2.supply /\ unp' = S2.unp /\ nextNum' = S2.n
        /\ now' = e.t
        /\ last' = [act |-> "Tx", reply |-> IF okSpec THEN "ok" ELSE "fail"]
  /\ UNCHANGED <<restricted, hist>>
  /\ l' = l + 1

TCommit ==
  /\ IsEv("Commit")
  /\ LET st == Ln.st
         p == Proj(Cur) IN
       /\ TierOK(st)
       /\ \A a \in Addrs : /\ \A d \in Denoms : p.acct[a][d] = st.acct[a][d] /\ p.split[a][d] = st.split[a][d]
                           /\ p.accs[a].kind = st.accs[a].kind /\ p.accs[a].num = st.accs[a].num
       /\ \A d \in Denoms : p.supply[d] = st.supply[d]
       /\ p.nextnum = st.nextnum
       /\ p.bankinv = st.bankinv
  /\ UNCHANGED <<vars, hist, last>>
  /\ l' = l + 1

TraceNext == TTx \/ TCommit
TraceSpec == TraceInit /\ [][TraceNext]_tvars

\* conservation, stated on the recorded steps: a transaction moves the sum of balances exactly as
\* it moves the supply record (zero for pure transfers, the minted / burned amount otherwise)
StepConserves == [][\A d \in Denoms : Held(bal', d) - Held(bal, d) = supply'[d] - supply[d]]_vars
\* the repository's invariants hold on every committed state (unp stays zero in the application)
NoUnpaired == unp = Zero

HighWater == TLCSet(1, IF l > TLCGet(1) THEN l ELSE TLCGet(1))   \* CONSTRAINT: always TRUE, records progress
Accepted == IF TLCGet(1) = Len(TheTrace) + 1 THEN TRUE
            ELSE PrintT(<<"REJECTED-AT", TLCGet(1)>>) /\ FALSE
TraceView == <<vars, l>>
=============================================================================
