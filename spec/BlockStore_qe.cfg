CONSTANTS
  K = 100000
  H0 = 99997
  MaxLen = 6
  NV = 1
  FirstHs <- F13
  MaxFirst = 3
INIT Init
NEXT Next
VIEW View
INVARIANTS TypeOK LoadEqualsSaved Contiguous HeightIsLastSaved ValsAtHeightCorrect ParamsAtHeightCorrect KnownRange
PROPERTIES HeightMonotone
ACTION_CONSTRAINT EmitEdge
