---------------------------- MODULE BlockValidation ----------------------------
(* C32. State.ValidateBlock (tm2/pkg/bft/state/validation.go:14) with Block.ValidateBasic
   (types/block.go:29), Commit.ValidateBasic / VerifyCommit (through CommitVerify.tla) and
   MedianTime (state/state.go:167, types/time.WeightedMedian) transcribed as the sequence of
   checks of the code; the property's list of requirements stated separately (PropertyValid).

   An abstract block is a valid block of a situation (genesis block of a chain with initial
   height 1 or 5, second block, a later block after a validator-set change, and "quorum"
   situations: previous validator sets of 3-7 members whose total power is 0, 1 and 2 mod 3,
   where every subset of precommits is blanked / turned into a stray one) with a set of
   field mutations applied; every field holds a CLASS:
     "ok"    = the valid value, RECOMPUTED from the (possibly mutated) rest of the block for
               derived fields (NumTxs, TotalTxs, DataHash, LastCommitHash, Time = median);
     "stale" = the derived value of the unmutated block;  other classes are wrong values.
   TLC enumerates every single mutation and every pair of mutations on two different fields
   (+ the sets of ExtraSets), checks Sound/Complete, and emits the case with the verdict; the
   driver builds the block (real signatures, real hashes), round-trips it through amino and
   calls the real ValidateBlock under recover.

   Time is an integer: seconds after state.LastBlockTime. Precommit i (1-based index) of the
   valid block carries timestamp 10*i. A precommit is weighted by the power of the validator
   at ITS INDEX in the commit (the validator whose signature VerifyCommit checked).

   Named readings:
   * all present precommits take part in the median, also stray ones (MedianTime's contract);
   * Commit.Hash covers the precommits only, not Commit.BlockID (block.go:597), so a stale
     LastCommitHash still matches after a change of the commit's block id;
   * a proposer address naming another member of the current set is valid (validation.go:154).
   The spec never adopts a defect: CommitSig.ValidatorIndex is not signed and not checked by
   VerifyCommit, so it must not influence the verdict; entry classes ixA (index out of range),
   ix1A / ixtsA (index of another validator) and the time class "alt" (the median as weighted
   through the ValidatorIndex fields) exist to exercise exactly that.                     *)
EXTENDS Integers, Sequences, FiniteSets, TLC, Json

CONSTANTS Sits,        \* set of situations [name, genesis, lastPow, valKeys, resEmpty, kind]; kind "quorum" = only
                       \*   the precommits are mutated (sets of every size and power residue mod 3)
          PairsFor,    \* names of the situations for which pairs are enumerated
          PairFields,  \* fields whose mutations take part in the pairs (singles always cover every field)
          ExtraSets    \* [name -> set of mutation sets] enumerated in addition

VARIABLES case, hist
vars == <<case>>

MaxN == 7              \* pool size: LastValidators of a situation = pool keys 1..Len(lastPow), all with positive power
NV(s) == Len(s.lastPow)
CV == INSTANCE CommitVerify WITH
        Plans <- {[new |-> <<1, 1, 1, 1, 1, 1, 1>>, old |-> <<1, 1, 1, 1, 1, 1, 1>>, cls |-> {}, cbs |-> {}, ds |-> {}]},
        Calls <- <<>>, H <- 3, R <- 1, commit <- [built |-> FALSE], pc <- 0, hist <- <<>>
NomH == 3              \* stands for state.LastBlockHeight inside CV

EFields == {"e1", "e2", "e3", "e4", "e5", "e6", "e7"}
EName(i) == CASE i = 1 -> "e1" [] i = 2 -> "e2" [] i = 3 -> "e3" [] i = 4 -> "e4" [] i = 5 -> "e5" [] i = 6 -> "e6" [] i = 7 -> "e7"
EFieldsOf(s) == IF s.genesis THEN {} ELSE {EName(i) : i \in 1..NV(s)}
Fields == {"height", "version", "appver", "chain", "time", "numtxs", "totaltxs", "lbid", "lchash", "datahash",
           "valhash", "nextvalhash", "conshash", "apphash", "reshash", "proposer", "txs", "lc", "cbid", "lclen"} \cup EFields

EntryClasses == {"nil", "okB", "okNil", "badA", "badB", "wsA", "h1A", "r1A", "pvA", "adA", "auA", "npB", "nosigA",
                 "ixA", "ix1A", "tsA", "tsOldA"}
\* wrong classes per field (the valid class "ok" is not a mutation, except where noted)
Wrong(s, f) ==
  CASE f = "height" -> {"plus", "minus", "zero", "neg"}
    [] f = "version" -> {"other"}
    [] f = "appver" -> {"other"}
    [] f = "chain" -> {"other", "toolong"}
    [] f = "time" -> IF s.genesis THEN {"plus", "before"} ELSE {"stale", "last", "before", "plus", "alt"}
    [] f = "numtxs" -> {"stale", "plus"}
    [] f = "totaltxs" -> {"stale", "plus", "neg"}
    [] f = "lbid" -> {"otherhash", "otherparts", "zero", "badhash", "negparts"}
    [] f = "lchash" -> {"other", "badlen", "empty", "stale"}
    [] f = "datahash" -> {"other", "badlen", "empty", "stale"}
    [] f \in {"valhash", "nextvalhash", "conshash", "reshash"} -> {"other", "badlen", "empty"}
    [] f = "apphash" -> {"other", "long", "empty"}
    [] f = "proposer" -> {"othermember", "lastonly", "unknown", "zero"}
    [] f = "txs" -> {"extra", "none"}
    [] f = "lc" -> {"nil"}
    [] f = "cbid" -> IF s.genesis THEN {"A"} ELSE {"B", "nil"}
    [] f = "lclen" -> IF s.genesis THEN {"long"} ELSE {"short", "long"}
    [] f \in EFields -> IF f \in EFieldsOf(s) THEN EntryClasses ELSE {}
Muts(s) == UNION {{[f |-> f, v |-> v] : v \in Wrong(s, f)} : f \in (IF s.kind = "quorum" THEN EFieldsOf(s) ELSE Fields)}
PMuts(s) == {m \in Muts(s) : m.f \in PairFields}
MutSets(s) == {{}} \cup {{m} : m \in Muts(s)}
              \cup (IF s.name \in PairsFor THEN {{p[1], p[2]} : p \in {q \in PMuts(s) \X PMuts(s) : q[1].f # q[2].f}} ELSE {})
              \cup ExtraSets[s.name]
Apply(ms) == [f \in Fields |-> IF \E m \in ms : m.f = f THEN (CHOOSE m \in ms : m.f = f).v ELSE "ok"]

\* ------------------------------------------------------------- the last commit of a block
Cbid(s, B) == IF B.cbid = "ok" THEN (IF s.genesis THEN "nil" ELSE "A") ELSE B.cbid
\* entry classes by index (C32 classes)
Ents(s, B) == IF s.genesis THEN (IF B.lclen = "long" THEN <<"ok">> ELSE <<>>)
              ELSE LET n == IF B.lclen = "short" THEN NV(s) - 1 ELSE IF B.lclen = "long" THEN NV(s) + 1 ELSE NV(s) IN
                   [i \in 1..n |-> IF i <= NV(s) THEN B[EName(i)] ELSE "ok"]
\* C32 class -> class of CommitVerify (what VerifyCommit can see of it)
Base(c) == IF c \in {"ok", "tsA", "tsOldA", "ix1A", "ixtsA"} THEN "okA" ELSE IF c = "nosigA" THEN "badA" ELSE c
BaseEnts(s, B) == [i \in 1..Len(Ents(s, B)) |-> Base(Ents(s, B)[i])]
MkC(pw, cb, ents) == [built |-> TRUE, new |-> pw, old |-> pw, cbid |-> cb, ents |-> ents, keys |-> CV!Keys(pw),
                      n |-> Len(CV!Keys(pw)), ch |-> CV!HeightOf(ents), cr |-> CV!RoundOf(ents)]
Commit(s, B) == MkC(s.lastPow, Cbid(s, B), BaseEnts(s, B))
EntriesUnchanged(s, B) == B.lclen = "ok" /\ \A f \in EFieldsOf(s) : B[f] = "ok"

\* timestamps and the (unsigned) ValidatorIndex field of precommit i
TS(c, i) == IF c \in {"tsA", "ixtsA"} THEN 100 + i ELSE IF c = "tsOldA" THEN -5 - i ELSE 10 * i
Idx(c, i) == IF c \in {"ix1A", "ixtsA"} THEN (IF i = 1 THEN 2 ELSE 1) ELSE IF c = "ixA" THEN i + 7 ELSE i
ZeroTime == -1000000
\* types/time.WeightedMedian: median = total/2; walk the items in time order
RECURSIVE SortTS(_), SumW(_), Walk(_, _)
SortTS(S) == IF S = {} THEN <<>> ELSE LET x == CHOOSE x \in S : \A y \in S : x.ts <= y.ts IN <<x>> \o SortTS(S \ {x})
SumW(S) == IF S = {} THEN 0 ELSE LET x == CHOOSE x \in S : TRUE IN x.w + SumW(S \ {x})
Walk(q, m) == IF Len(q) = 0 THEN ZeroTime ELSE IF m <= q[1].w THEN q[1].ts ELSE Walk(Tail(q), m - q[1].w)
WMedian(S) == Walk(SortTS(S), SumW(S) \div 2)
PresentIdx(s, ents) == {i \in 1..Len(ents) : i <= NV(s) /\ ents[i] # "nil"}
\* MedianTime with each precommit weighted by the validator at its index
TrueMedian(s, ents) == WMedian({[i |-> i, ts |-> TS(ents[i], i), w |-> s.lastPow[i]] : i \in PresentIdx(s, ents)})
\* ... and as weighted through the ValidatorIndex fields (0 where the field names nobody)
AltMedian(s, ents) == WMedian({[i |-> i, ts |-> TS(ents[i], i),
                                w |-> IF Idx(ents[i], i) \in 1..NV(s) THEN s.lastPow[Idx(ents[i], i)] ELSE 0] : i \in PresentIdx(s, ents)})
BaseEntsOK(s) == [i \in 1..NV(s) |-> "ok"]
Time(s, B) ==
  IF s.genesis THEN (CASE B.time = "ok" -> 0 [] B.time = "plus" -> 1 [] B.time = "before" -> -1)
  ELSE CASE B.time = "ok" -> TrueMedian(s, Ents(s, B))
         [] B.time = "stale" -> TrueMedian(s, BaseEntsOK(s))
         [] B.time = "alt" -> AltMedian(s, Ents(s, B))
         [] B.time = "last" -> 0
         [] B.time = "before" -> -1
         [] B.time = "plus" -> TrueMedian(s, Ents(s, B)) + 1

\* ------------------------------------------------------------- field predicates
HeightOK(B) == B.height = "ok"
NumTxsOK(B) == B.numtxs = "ok" \/ (B.numtxs = "stale" /\ B.txs = "ok")
TotalTxsOK(B) == B.totaltxs = "ok" \/ (B.totaltxs = "stale" /\ B.txs = "ok")
LbidBasicOK(B) == B.lbid \notin {"badhash", "negparts"}
LbidOK(s, B) == B.lbid = "ok" \/ (B.lbid = "zero" /\ s.genesis)
LcHashLenOK(B) == B.lchash # "badlen"
LcHashOK(s, B) == \/ B.lchash = "ok"
                  \/ B.lchash = "stale" /\ (s.genesis => B.lclen = "ok") /\ (~s.genesis => EntriesUnchanged(s, B))
                  \/ B.lchash = "empty" /\ Len(Ents(s, B)) = 0
DataHashOK(B) == \/ B.datahash = "ok" \/ (B.datahash = "stale" /\ B.txs = "ok") \/ (B.datahash = "empty" /\ B.txs = "none")
HashLenOK(c) == c # "badlen"
PlainHashOK(c) == c = "ok"
ResHashOK(s, B) == B.reshash = "ok" \/ (B.reshash = "empty" /\ s.resEmpty)
ProposerOK(s, B) == B.proposer \in {"ok", "othermember"} \/ (B.proposer = "lastonly" /\ 4 \in s.valKeys)

\* ------------------------------------------------------------- transcription: first failing check
ValidateBasic(s, B, c) ==
  IF B.chain = "toolong" THEN "chainlen"
  ELSE IF B.height \in {"zero", "neg"} THEN "height<=0"
  ELSE IF ~NumTxsOK(B) THEN "numtxs"
  ELSE IF B.totaltxs = "neg" THEN "totaltxs<"
  ELSE IF ~LbidBasicOK(B) THEN "lbid-basic"
  ELSE IF B.lc = "nil" THEN "nil-lastcommit"
  ELSE IF CV!ValidateBasic(c) # "ok" THEN "lastcommit-basic"
  ELSE IF ~LcHashLenOK(B) THEN "lchash-len"
  ELSE IF ~LcHashOK(s, B) THEN "lchash"
  ELSE IF B.datahash = "badlen" THEN "datahash-len"
  ELSE IF ~DataHashOK(B) THEN "datahash"
  ELSE IF \E f \in {"valhash", "nextvalhash", "conshash", "reshash"} : ~HashLenOK(B[f]) THEN "hash-len"
  ELSE "ok"

ValidateBlock(s, B, c) ==
  IF B.height \in {"zero", "neg"} \/ (s.genesis /\ B.height = "minus") THEN "height<initial"
  ELSE LET vb == ValidateBasic(s, B, c) IN
  IF vb # "ok" THEN vb
  ELSE IF B.version # "ok" THEN "version"
  ELSE IF B.appver # "ok" THEN "appversion"
  ELSE IF B.chain # "ok" THEN "chainid"
  ELSE IF ~HeightOK(B) THEN "height"
  ELSE IF ~LbidOK(s, B) THEN "lastblockid"
  ELSE IF ~TotalTxsOK(B) THEN "totaltxs"
  ELSE IF ~PlainHashOK(B.apphash) THEN "apphash"
  ELSE IF ~PlainHashOK(B.conshash) THEN "consensushash"
  ELSE IF ~ResHashOK(s, B) THEN "resultshash"
  ELSE IF ~PlainHashOK(B.valhash) THEN "validatorshash"
  ELSE IF ~PlainHashOK(B.nextvalhash) THEN "nextvalidatorshash"
  ELSE IF s.genesis /\ Len(Ents(s, B)) # 0 THEN "genesis-precommits"
  ELSE IF ~s.genesis /\ Len(Ents(s, B)) # NV(s) THEN "commit-size"
  ELSE LET vc == IF s.genesis THEN "accept" ELSE CV!VerifyCommit(c, NomH, "A")   \* (chain id, LastBlockID, height-1)
           t == Time(s, B) IN
  IF vc # "accept" THEN "commit:" \o vc
  ELSE IF ~s.genesis /\ ~(t > 0) THEN "time-not-after-last"
  ELSE IF ~s.genesis /\ t # TrueMedian(s, Ents(s, B)) THEN "time-not-median"
  ELSE IF s.genesis /\ t # 0 THEN "time-not-genesis"
  ELSE IF ~ProposerOK(s, B) THEN "proposer"
  ELSE "accept"

\* ------------------------------------------------------------- the property's own list (C32)
CommitOK(s, B, c) == IF s.genesis THEN B.lc = "ok" /\ Len(Ents(s, B)) = 0
                  ELSE /\ B.lc = "ok" /\ CV!WellFormed(c, NomH) /\ c.cbid = "A"
                       /\ CV!Quorum(s.lastPow, CV!GoodNew(c, "A"))
TimeOK(s, B) == IF s.genesis THEN Time(s, B) = 0 ELSE Time(s, B) > 0 /\ Time(s, B) = TrueMedian(s, Ents(s, B))
PropertyValid(s, B, c) ==
  /\ HeightOK(B) /\ B.chain = "ok" /\ LbidOK(s, B)
  /\ PlainHashOK(B.apphash) /\ ResHashOK(s, B) /\ PlainHashOK(B.valhash) /\ PlainHashOK(B.nextvalhash)
  /\ TimeOK(s, B) /\ CommitOK(s, B, c)
\* the remaining checks of the code: header self-consistency, versions, consensus params, proposer,
\* and the documented strictness of VerifyCommit (every present precommit verifies)
InternallyConsistent(s, B, c) ==
  /\ B.version = "ok" /\ B.appver = "ok" /\ NumTxsOK(B) /\ TotalTxsOK(B) /\ LcHashOK(s, B) /\ DataHashOK(B)
  /\ PlainHashOK(B.conshash) /\ ProposerOK(s, B) /\ B.lbid # "negparts" /\ B.lbid # "badhash"
  /\ (B.lc = "ok" => CV!ValidateBasic(c) = "ok")
  /\ (~s.genesis => CV!AllPresentVerify(c))

\* power of the previous validator set behind the previous block id in the block's LastCommit
\* (-1 when the commit does not line up with the set)
TallyA(s, B, c) == IF s.genesis \/ B.lc # "ok" \/ Len(c.ents) # NV(s) THEN -1 ELSE CV!Tally(c, "A")

Init == case = [done |-> FALSE] /\ hist = <<>>
Check(s, ms) ==
  LET B == Apply(ms) c == Commit(s, B) r == ValidateBlock(s, B, c) IN
  /\ case' = [done |-> TRUE, sit |-> s, b |-> B, c |-> c, why |-> r]
  /\ hist' = <<[act |-> "Validate", sit |-> s.name, muts |-> ms, time |-> Time(s, B),
                total |-> CV!Total(s.lastPow), tally |-> TallyA(s, B, c),
                reply |-> IF r = "accept" THEN "accept" ELSE "reject", why |-> r]>>
Next == /\ ~case.done
        /\ \E s \in Sits : \E ms \in MutSets(s) : Check(s, ms)
Spec == Init /\ [][Next]_<<vars, hist>>
View == vars

Sound == case.done => (case.why = "accept" => PropertyValid(case.sit, case.b, case.c))
Complete == case.done => ((PropertyValid(case.sit, case.b, case.c) /\ InternallyConsistent(case.sit, case.b, case.c)) => case.why = "accept")
\* the quorum clause over integers: with everything else in order, the LastCommit is accepted iff the
\* tallied power for the previous block id times 3 exceeds 2 times the total power of the previous set
QuorumExact == (case.done /\ ~case.sit.genesis) =>
   LET s == case.sit B == case.b c == case.c IN
   ( /\ B.lc = "ok" /\ CV!WellFormed(c, NomH) /\ c.cbid = "A" /\ CV!AllPresentVerify(c)
     /\ HeightOK(B) /\ B.chain = "ok" /\ LbidOK(s, B) /\ PlainHashOK(B.apphash) /\ ResHashOK(s, B)
     /\ PlainHashOK(B.valhash) /\ PlainHashOK(B.nextvalhash) /\ TimeOK(s, B) /\ InternallyConsistent(s, B, c) )
   => ((case.why = "accept") <=> (3 * CV!Tally(c, "A") > 2 * CV!Total(s.lastPow)))
TypeOK == case.done \in BOOLEAN

Emit == PrintT(<<"TRACE", ToJson(hist)>>)
EmitAtEnd == ~case.done \/ Emit
=============================================================================
