CONSTANTS
  NK = 7
  NV = 1
  MaxLen = 11
  Reads <- ReadsNone
  Lims <- Lims0
  Grow = 0
  Quiet = TRUE
INIT Init
NEXT Next
VIEW View
INVARIANTS TypeOK Refines Balanced WellFormed

