---------------------------- MODULE WAL ----------------------------
(* C38. Mirrors tm2/pkg/bft/wal/wal.go (baseWAL.Write / WriteSync / WriteMetaSync, WALWriter line
   format, WALReader.ReadMessage, SearchForHeight) over tm2/pkg/autofile/group.go (buffered head,
   RotateFile, ensureTotalSizeLimit, GroupReader).

   A log line is an integer:   n > 0   message with payload id n   (base64(crc32c ++ amino) line)
                               -(h+1)  height marker #{"h":"h"}     (meta line, no CRC)
                                0      a damaged line               (reported as corruption)
   files = what is ON DISK, oldest kept file first, head last; buf = lines handed to the WAL but
   still in the group's bufio.Writer (Write does not flush; WriteSync / WriteMetaSync / rotation do).

   Reading (driver: a GroupReader from MinIndex through the head, decoded by WALReader) returns
   Flat(files): on-disk lines in order, a damaged line as a corruption error, then EOF.
   SearchForHeight(h) (driver: options IgnoreDataCorruptionErrors, both search modes) finds the
   marker for h iff it is in a kept file, and the reader it returns yields EVERYTHING after that
   marker up to the end of the log, across file boundaries - this is what catchupReplay relies on.

   Faults:  Crash(k, t)  the head file is cut after its k-th line; with t a partial (k+1)-th line
                         stays ("torn"); buffered lines are lost; the WAL is reopened (OnStart
                         writes marker 0 again iff the group is empty). The next flushed line is
                         glued to a torn tail and is then a damaged line.
            Corrupt(f,i) one byte of message line i of file f is changed so that the decoded content
                         differs: the line is damaged.
   Byte-level enumeration (every truncation byte, every byte position x replacement value) is done
   by the driver on the final log of each behaviour with the verdicts stated at the end of this module.

   Named deviations: meta lines carry no CRC (TODO in the code): corruption inside a meta line is
   not generated. A changed byte that leaves the decoded bytes of a line identical (unused low
   bits of the last base64 character) is not a corruption of the message and may be read back
   intact. A changed newline of the very last line makes it a torn tail (silently dropped, like
   a truncation). A tear that removes only the newline of a MARKER line is not generated (the
   JSON decoder ignores trailing bytes: the glued line then reads as that marker and the glued
   record is dropped silently; appends after a tear are outside the statement). Rotation while the head has a torn tail is not generated (the two read paths glue
   differently there). Markers are strictly increasing (the WAL's caller contract).           *)
EXTENDS Integers, Sequences, FiniteSets, TLC, Json

CONSTANTS MaxH,        \* markers 0..MaxH
          MaxMsgs,     \* message ids 1..MaxMsgs
          MaxFiles,    \* bound on files alive at once (incl. head)
          MaxLen, MaxCrash, MaxCorrupt

VARIABLES files, buf, torn, minIdx, nextId, lastH, ncrash, ncorrupt,
          written,     \* ghost: every line ever handed to the WAL, in order
          lost,        \* ghost: lines legitimately gone (pruned files, crash, damage)
          synced,      \* ghost: lines that were on disk when a sync returned
          hard,        \* ghost: a truncating crash or a corruption happened
          hist

vars == <<files, buf, torn, minIdx, nextId, lastH, ncrash, ncorrupt, written, lost, synced, hard>>

End(h) == -(h + 1)
HeadF == files[Len(files)]
RECURSIVE FlatFrom(_, _)
FlatFrom(fs, i) == IF i > Len(fs) THEN <<>> ELSE fs[i] \o FlatFrom(fs, i + 1)
Flat(fs) == FlatFrom(fs, 1)
RECURSIVE PosIn(_, _, _)
PosIn(s, x, i) == IF i > Len(s) THEN 0 ELSE IF s[i] = x THEN i ELSE PosIn(s, x, i + 1)
Range(s) == {s[i] : i \in 1..Len(s)}
Min2(a, b) == IF a < b THEN a ELSE b

\* lines reach the head file: the first one is glued to a torn tail, if any
Flushed(h, t, its) == IF its = <<>> THEN h ELSE IF t THEN h \o <<0>> \o Tail(its) ELSE h \o its
GluedLoss(t, its) == IF t /\ its # <<>> THEN {its[1]} ELSE {}

\* projected state: what the driver reads from the real WAL after every step
Proj(fs, mi) ==
  LET fl == Flat(fs) IN
  [read |-> fl,
   search |-> [i \in 1..(MaxH + 2) |-> PosIn(fl, End(i - 1), 1)],   \* index i <-> height i-1; 0 = not found
   min |-> mi, max |-> mi + Len(fs) - 1]

Init ==
  /\ files = << <<End(0)>> >>          \* OnStart of an empty WAL writes marker 0
  /\ buf = <<>> /\ torn = FALSE /\ minIdx = 0 /\ nextId = 1 /\ lastH = 0
  /\ ncrash = 0 /\ ncorrupt = 0
  /\ written = <<End(0)>> /\ lost = {} /\ synced = {End(0)} /\ hard = FALSE
  /\ hist = <<>>

Step(rec, fs, mi) == hist' = Append(hist, rec @@ [st |-> Proj(fs, mi)])

\* baseWAL.Write: encode, hand to the group's buffer; nothing reaches the disk
Write ==
  /\ Len(hist) < MaxLen /\ nextId <= MaxMsgs
  /\ buf' = Append(buf, nextId) /\ nextId' = nextId + 1 /\ written' = Append(written, nextId)
  /\ UNCHANGED <<files, torn, minIdx, lastH, ncrash, ncorrupt, lost, synced, hard>>
  /\ Step([act |-> "Write", id |-> nextId], files, minIdx)

SyncLine(x) ==
  LET its == Append(buf, x)
      fs2 == [files EXCEPT ![Len(files)] = Flushed(HeadF, torn, its)] IN
  /\ files' = fs2 /\ buf' = <<>> /\ torn' = FALSE
  /\ written' = Append(written, x)
  /\ lost' = lost \cup GluedLoss(torn, its)
  /\ synced' = synced \cup (Range(its) \ GluedLoss(torn, its))
  /\ UNCHANGED <<minIdx, ncrash, ncorrupt, hard>>

\* baseWAL.WriteSync: Write + FlushAndSync
WriteSync ==
  /\ Len(hist) < MaxLen /\ nextId <= MaxMsgs
  /\ SyncLine(nextId) /\ nextId' = nextId + 1 /\ UNCHANGED lastH
  /\ Step([act |-> "WriteSync", id |-> nextId], files', minIdx)

\* baseWAL.WriteMetaSync
WriteEnd(h) ==
  /\ Len(hist) < MaxLen /\ h > lastH /\ h <= MaxH
  /\ SyncLine(End(h)) /\ lastH' = h /\ UNCHANGED nextId
  /\ Step([act |-> "WriteEnd", h |-> h], files', minIdx)

\* Group.rotateFile: flush, fsync, rename head to .NNN, then ensureTotalSizeLimit removes the
\* oldest file when the total size limit is reached (np = 1), never the new head.
\* (Removing several files in one rotation is not generated: see the C38 log entry in DESIGN.md.)
Rotate(np) ==
  /\ Len(hist) < MaxLen /\ ~torn
  /\ HeadF \o buf # <<>>
  /\ np \in 0..Min2(1, Len(files))
  /\ Len(files) + 1 - np <= MaxFiles
  /\ LET all == Append([files EXCEPT ![Len(files)] = HeadF \o buf], <<>>)
         kept == SubSeq(all, np + 1, Len(all))
         gone == UNION {Range(all[j]) : j \in 1..np} IN
     /\ files' = kept /\ buf' = <<>> /\ minIdx' = minIdx + np
     /\ lost' = lost \cup gone
     /\ synced' = synced \cup Range(buf)
     /\ UNCHANGED <<torn, nextId, lastH, ncrash, ncorrupt, written, hard>>
     /\ Step([act |-> "Rotate", np |-> np], kept, minIdx + np)

\* process/power failure: buffered lines are lost, the head keeps k complete lines (+ a torn one),
\* then the WAL is reopened on what is left
Crash(k, t) ==
  /\ Len(hist) < MaxLen /\ ncrash < MaxCrash
  /\ k \in 0..Len(HeadF)
  /\ t => (k < Len(HeadF) /\ HeadF[k + 1] # 0)
  /\ LET cut == SubSeq(HeadF, 1, k)
         torn2 == IF k = Len(HeadF) THEN torn ELSE t
         fs1 == [files EXCEPT ![Len(files)] = cut]
         empty == Flat(fs1) = <<>> /\ ~torn2
         fs2 == IF empty THEN [fs1 EXCEPT ![Len(fs1)] = <<End(0)>>] ELSE fs1 IN
     /\ files' = fs2 /\ buf' = <<>> /\ torn' = torn2
     /\ lost' = (lost \cup Range(buf) \cup {HeadF[j] : j \in (k + 1)..Len(HeadF)})
                 \ (IF empty THEN {End(0)} ELSE {})
     /\ written' = IF empty THEN Append(written, End(0)) ELSE written
     /\ hard' = (hard \/ k < Len(HeadF))
     /\ ncrash' = ncrash + 1
     /\ minIdx' = (IF Len(files) = 1 THEN 0 ELSE minIdx)   \* reopen renumbers a lone head as file 0
     /\ UNCHANGED <<nextId, lastH, ncorrupt, synced>>
     /\ Step([act |-> "Crash", k |-> k, torn |-> t], fs2, minIdx')

\* one byte of an on-disk message line changes (decoded content differs)
Corrupt(f, i) ==
  /\ Len(hist) < MaxLen /\ ncorrupt < MaxCorrupt
  /\ f \in 1..Len(files) /\ i \in 1..Len(files[f]) /\ files[f][i] > 0
  /\ files' = [files EXCEPT ![f][i] = 0]
  /\ lost' = lost \cup {files[f][i]} /\ hard' = TRUE /\ ncorrupt' = ncorrupt + 1
  /\ UNCHANGED <<buf, torn, minIdx, nextId, lastH, ncrash, written, synced>>
  /\ Step([act |-> "Corrupt", f |-> f, i |-> i], files', minIdx)

Next == \/ Write \/ WriteSync
        \/ \E h \in 1..MaxH : WriteEnd(h)
        \/ \E np \in 0..1 : Rotate(np)
        \/ \E k \in 0..(MaxMsgs + MaxH + 1), t \in BOOLEAN : Crash(k, t)
        \/ \E f \in 1..MaxFiles, i \in 1..(MaxMsgs + MaxH + 1) : Corrupt(f, i)

Spec == Init /\ [][Next]_<<vars, hist>>
View == vars

\* ---------------------------------------------------------------- properties (C38)
RECURSIVE IsSubseq(_, _)
IsSubseq(a, b) == IF a = <<>> THEN TRUE ELSE IF b = <<>> THEN FALSE
                  ELSE IF a[1] = b[1] THEN IsSubseq(Tail(a), Tail(b)) ELSE IsSubseq(a, Tail(b))
Good(s) == SelectSeq(s, LAMBDA x : x # 0)
OnDisk == Flat(files)
\* reading returns only lines that were written, unaltered and in order
ReadIsSubsequence == IsSubseq(Good(OnDisk), written)
\* ... and exactly the written ones, except those legitimately gone or still buffered
ReadComplete == Range(written) \ (lost \cup Range(buf)) \subseteq Range(OnDisk)
NothingInvented == Range(Good(OnDisk)) \cap lost = {}
\* what a sync covered survives every crash that does not cut into the file
SyncedDurable == ~hard => (synced \ lost) \subseteq Range(OnDisk)
\* Byte-level verdicts of the driver on the final log L of a behaviour (stated here, enumerated there):
\*   truncation at byte b, k = number of complete lines before b:  read = SubSeq(L, 1, k), then EOF
\*   byte p of message line j changed: every other line is read back intact and in order, line j
\*   (and line j+1 if p is j's newline) is either read back identical or reported as
\*   DataCorruptionError; nothing else is returned
\* markers are unique, so "the first position after the marker" is well defined
MarkersUnique == \A i, j \in 1..Len(OnDisk) : (OnDisk[i] < 0 /\ OnDisk[i] = OnDisk[j]) => i = j
TypeOK == /\ minIdx >= 0 /\ Len(files) >= 1 /\ Len(files) <= MaxFiles
          /\ torn \in BOOLEAN /\ nextId \in 1..(MaxMsgs + 1)

Emit == PrintT(<<"TRACE", ToJson(hist)>>)
EmitAtEnd == Len(hist) < MaxLen \/ Emit
EmitEdge == PrintT(<<"EDGE", ToJson(hist')>>)
=============================================================================
