--------------------------- MODULE MCStorageDeposit ---------------------------
EXTENDS StorageDeposit
MRealms == {"a", "b"}
MOrder == <<"a", "b">>
MAccounts == {"u", "v"}
MDiffs == {0 - 2, 0 - 1, 0, 1, 3}
MDiffsQ == {0 - 1, 0, 2}
MParams == {0 - 1, 0, 2}
MDiffsT == {0 - 3, 0 - 2, 0 - 1, 0, 1, 2, 4}
=============================================================================
