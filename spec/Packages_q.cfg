CONSTANTS
  BadPaths <- BadFew
  FileSets <- FsCore
  Kinds <- KindsFew
  MaxLen = 5
  Quiet = TRUE
INIT Init
NEXT Next
VIEW View
INVARIANTS TypeOK OnlyAuthorizedNamespace OnlyValidStored ImportsResolved
PROPERTIES PublicImmutable PrivateStaysPrivate PStateFrozen

