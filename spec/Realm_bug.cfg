CONSTANTS
  Nodes = {1, 2, 3}
  RootObjs <- R1
  RootPkg <- Pkg1
  RootSlots <- Slots1
  Realms = {1}
  MaxOps = 3
  MaxOps1 = 3
  MaxTx = 2
  OwnerFix = FALSE
  AttachGuard = TRUE
  SaveGuard = TRUE
  ObjSeq <- Seq3a
  HandMode = FALSE
  Bias = FALSE
  Quiet = TRUE
INIT Init
NEXT Next
VIEW view
INVARIANTS OwnerIffSingle
CHECK_DEADLOCK FALSE
