CONSTANTS
  Totals <- Tsim
  Classes <- ClsAll
  Mode = "all"
  MaxLen = 40
INIT Init
NEXT Next
VIEW View
INVARIANTS TypeOK CountIsCard CompleteIffAll OnlyGoodStored ReassembledEqualsOriginal
PROPERTIES StepShape
INVARIANT EmitAtEnd
