CONSTANTS
  Totals <- Tsim
  Classes <- ClsSim
  Mode = "all"
  MaxLen = 40
INIT Init
NEXT NextSim
VIEW View
INVARIANTS TypeOK CountIsCard CompleteIffAll OnlyGoodStored ReassembledEqualsOriginal
PROPERTIES StepShape
INVARIANT EmitAtEnd
