CONSTANTS
  BadPaths <- BadAll
  FileSets <- FsAll
  Kinds <- KindsAll
  MaxLen = 3
  Quiet = FALSE
INIT Init
NEXT Next
VIEW View
INVARIANTS TypeOK OnlyAuthorizedNamespace OnlyValidStored ImportsResolved
PROPERTIES PublicImmutable PrivateStaysPrivate PStateFrozen
ACTION_CONSTRAINT EmitEdge
