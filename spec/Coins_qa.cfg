CONSTANTS
  ND = 3
  Amts <- AmtsBit
  MIN <- MinFree
  MAX <- MaxFree
  MaxLen = 2
  Ops <- OpsEdge
INIT Init
NEXT Next
VIEW View
INVARIANTS TypeOK ImplMatchesModel ResultValid AddCommutes AddSubInverse SubIffGTE CmpPerDenom
ACTION_CONSTRAINT EmitEdge
