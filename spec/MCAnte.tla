---------------------------- MODULE MCAnte ----------------------------
EXTENDS Ante
AllKinds == {"A", "B", "AB", "AA", "M", "S", "R"}
AllMuts == {"none", "chain", "accnum", "stale", "future", "body", "flip", "otherkey", "otherkey_nopk", "crosskey", "nopk",
            "unknownsess", "ms1", "ms3", "msbad"}
AllTxMuts == {"none", "missing", "extra", "swap", "fee"}
AllWheres == {"same", "next", "restart"}
W2 == {"same", "next"}
WNext == {"next"}
=============================================================================
