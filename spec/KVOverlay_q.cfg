CONSTANTS
  Keys <- KeysS
  DataKeys <- KeysS
  Vals = {"a", ""}
  Prefixes <- PfxS
  Stores = {"s1"}
  MaxLayers = 2
  MaxLen = 5
  InitBases <- Bases2
  ReadAll = FALSE
  LogViews = FALSE
  Quiet = TRUE
INIT Init
NEXT Next
VIEW View
INVARIANTS TypeOK OverlayEqualsFlat CheckpointIsSaved LastScanOK
PROPERTIES FlushIsLocal PopDiscards

