SPECIFICATION Spec
CONSTANTS
  Accts <- A3
  Shapes <- Sh
  MsgSeqs <- MS
  MaxLen = 2
VIEW View
INVARIANTS Conserved
PROPERTIES EverySignerSigned ExactlyOneEach SeqExactlySigners RejectIsNoOp
ACTION_CONSTRAINT EmitEdge
