CONSTANTS
  NA = 3
  Cap = 7
  Amts <- AmtsL
  Vias <- ViasAll
  MaxLen = 30
  AsCode = FALSE
  Quiet = FALSE
INIT Init
NEXT SimNext
VIEW View
INVARIANTS TypeOK SupplyEq
PROPERTIES FailedIsNoOp TransferNeutral AllowanceHonoured MintBurnExact
INVARIANT EmitAtEnd
