---------------------------- MODULE MerkleProof ----------------------------
(* C25. Merkle proofs are sound and complete, with SYMBOLIC INJECTIVE hashes: a leaf hash is the
   term <<"L", x>>, an inner hash the term <<"I", l, r>>; two hashes are equal iff they are the
   same term, so what TLC checks is independent of SHA-256 (whose collision resistance is the
   one assumption).

   Part "simple": the simple Merkle tree of tm2/pkg/crypto/merkle (split at the largest power
   of two below the length), SimpleProof = (total, index, leaf hash, aunts) and the verifier
   computeHashFromAunts transcribed branch by branch (NIL where the code returns nil).
   Part "tree": membership / non-membership proofs of a key-value tree as ics23 verifies them
   (existence proof = leaf + path of (side, sibling); non-existence = two neighbour existence
   proofs that must be adjacent: IsLeftMost / IsRightMost / IsLeftNeighbor transcribed).

   The state space is a set of CASES (all initial states, no transitions): a list / key set, an
   honest proof and one mutation of it (class + parameters), the claim, the root it is verified
   against, and exp = the verdict of the verifier. TLC checks on every case
     Complete:  the honest proof of a true claim is accepted,
     Sound:     an accepted proof proves a true claim,
     SingleFieldRejected: on lists of distinct items every single-field mutation is rejected
                (an index / total mutation only when it changes the path shape, see below),
   and prints every case; the driver rebuilds the case on the real code (same list, same
   mutation) and compares its accept / reject with exp.

   Named deviations (documented behaviour):
   * SimpleProof authenticates index and total only up to the SHAPE of the path (the code's
     comment: "Check sp.Index/sp.Total manually if needed"): (index, total) pairs with the same
     sequence of left / right steps are interchangeable. Sound is stated with SamePath.
   * A non-membership proof shows a GAP: it is accepted for every key strictly inside it.
   The verifier of the property (Verify) refuses a proof whose root computation fails; the code
   returns nil there and compares it with the given root (see the report: a nil / empty root,
   which is the root of the empty list, then matches).                                         *)
EXTENDS Integers, Sequences, FiniteSets, TLC, Json

CONSTANTS Part,     \* "simple" | "tree"
          NI,       \* items of the lists with repetitions are 1..NI
          MaxRep,   \* lists with repeated items up to this length
          MaxN,     \* lists of distinct items <<1..n>> up to this length
          NKeys     \* tree part: keys 1..NKeys

NIL == <<"nil">>
LeafH(x) == <<"L", x>>
InnerH(l, r) == <<"I", l, r>>

RECURSIVE Pow2Below(_, _)
Pow2Below(n, k) == IF 2 * k < n THEN Pow2Below(n, 2 * k) ELSE k
SplitPoint(n) == Pow2Below(n, 1)          \* getSplitPoint: largest power of two < n (n >= 2)
Left(s) == SubSeq(s, 1, SplitPoint(Len(s)))
Right(s) == SubSeq(s, SplitPoint(Len(s)) + 1, Len(s))

\* ------------------------------------------------------------------ simple tree: root, proofs, verifier
RECURSIVE Root(_)
Root(items) == IF Len(items) = 0 THEN NIL
               ELSE IF Len(items) = 1 THEN LeafH(items[1])
               ELSE InnerH(Root(Left(items)), Root(Right(items)))
RECURSIVE Aunts(_, _)                      \* i is 0-based; from the leaf's sibling up to a child of the root
Aunts(items, i) == IF Len(items) <= 1 THEN <<>>
                   ELSE LET k == SplitPoint(Len(items)) IN
                        IF i < k THEN Append(Aunts(Left(items), i), Root(Right(items)))
                        ELSE Append(Aunts(Right(items), i - k), Root(Left(items)))
Honest(items, i) == [total |-> Len(items), index |-> i, leaf |-> LeafH(items[i + 1]), aunts |-> Aunts(items, i)]

RECURSIVE Compute(_, _, _, _)              \* computeHashFromAunts
Compute(index, total, leaf, aunts) ==
  IF index >= total \/ index < 0 \/ total <= 0 THEN NIL
  ELSE IF total = 1 THEN (IF Len(aunts) # 0 THEN NIL ELSE leaf)
  ELSE IF Len(aunts) = 0 THEN NIL
  ELSE LET nl == SplitPoint(total)
           rest == SubSeq(aunts, 1, Len(aunts) - 1)
           top == aunts[Len(aunts)]
       IN IF index < nl
          THEN LET h == Compute(index, nl, leaf, rest) IN IF h = NIL THEN NIL ELSE InnerH(h, top)
          ELSE LET h == Compute(index - nl, total - nl, leaf, rest) IN IF h = NIL THEN NIL ELSE InnerH(top, h)
\* SimpleProof.Verify as the property needs it: a failed root computation is a rejection
Verify(p, root, item) ==
  /\ p.total >= 0 /\ p.index >= 0
  /\ p.leaf = LeafH(item)
  /\ LET c == Compute(p.index, p.total, p.leaf, p.aunts) IN c # NIL /\ c = root

RECURSIVE Shape(_, _)                      \* the left / right steps from the root to leaf index of total (NIL if none)
Shape(index, total) ==
  IF index >= total \/ index < 0 \/ total <= 0 THEN NIL
  ELSE IF total = 1 THEN <<>>
  ELSE LET nl == SplitPoint(total) IN
       IF index < nl THEN (LET s == Shape(index, nl) IN IF s = NIL THEN NIL ELSE <<"l">> \o s)
       ELSE (LET s == Shape(index - nl, total - nl) IN IF s = NIL THEN NIL ELSE <<"r">> \o s)

\* ------------------------------------------------------------------ simple cases
RECURSIVE SeqsOf(_, _)
SeqsOf(S, n) == IF n = 0 THEN {<<>>} ELSE {Append(s, x) : s \in SeqsOf(S, n - 1), x \in S}
Ident(n) == [j \in 1..n |-> j]
Lists == (UNION {SeqsOf(1..NI, n) : n \in 1..MaxRep}) \cup {Ident(n) : n \in 1..MaxN}
Distinct(s) == \A a, b \in 1..Len(s) : a # b => s[a] # s[b]
Other == 99                                \* an item that occurs in no list
SwapAt(s, a, b) == [j \in 1..Len(s) |-> IF j = a THEN s[b] ELSE IF j = b THEN s[a] ELSE s[j]]
DropAt(s, a) == SubSeq(s, 1, a - 1) \o SubSeq(s, a + 1, Len(s))
DupAt(s, a) == SubSeq(s, 1, a) \o SubSeq(s, a, Len(s))

\* a case: items, i (honest proof of items[i+1]), class and parameters a, b
Params(items, i) ==
  LET n == Len(items)
      na == Len(Aunts(items, i)) IN
     {<<"none", 0, 0>>}
     \cup {<<"item", a, 0>> : a \in (1..NI) \cup {Other}}
     \cup {<<"leaf", a, 0>> : a \in (1..NI) \cup {Other}}
     \cup {<<"index", a, 0>> : a \in (0 - 1)..(n + 1)}
     \cup {<<"total", a, 0>> : a \in (0 - 1)..(n + 3)}
     \cup {<<"indextotal", a, b>> : a \in 0..(n + 1), b \in 1..(n + 2)}
     \cup {<<"auntswap", a, b>> : a \in 1..na, b \in 1..na}
     \cup {<<"auntset", a, b>> : a \in 1..na, b \in (1..NI) \cup {Other}}
     \cup {<<"auntdrop", a, 0>> : a \in 1..na}
     \cup {<<"auntdup", a, 0>> : a \in 1..na}
     \cup {<<"rootother", a, 0>> : a \in 1..n}
     \cup {<<"rootprefix", a, 0>> : a \in 0..(n - 1)}
     \cup {<<"emptyroot", a, b>> : a \in (0 - 1)..2, b \in (0 - 1)..3}
\* the mutated proof, the claimed item, the list whose root is verified against
ProofOf(c) ==
  LET h == Honest(c.items, c.i) IN
  CASE c.cls = "leaf" -> [h EXCEPT !.leaf = LeafH(c.a)]
    [] c.cls = "index" -> [h EXCEPT !.index = c.a]
    [] c.cls = "total" -> [h EXCEPT !.total = c.a]
    [] c.cls \in {"indextotal", "emptyroot"} -> [h EXCEPT !.index = c.a, !.total = c.b]
    [] c.cls = "auntswap" -> [h EXCEPT !.aunts = SwapAt(h.aunts, c.a, c.b)]
    [] c.cls = "auntset" -> [h EXCEPT !.aunts = [h.aunts EXCEPT ![c.a] = LeafH(c.b)]]
    [] c.cls = "auntdrop" -> [h EXCEPT !.aunts = DropAt(h.aunts, c.a)]
    [] c.cls = "auntdup" -> [h EXCEPT !.aunts = DupAt(h.aunts, c.a)]
    [] OTHER -> h
ClaimOf(c) == IF c.cls \in {"item", "leaf"} THEN c.a ELSE c.items[c.i + 1]
RootListOf(c) ==
  CASE c.cls = "rootother" -> [c.items EXCEPT ![c.a] = Other]
    [] c.cls = "rootprefix" -> SubSeq(c.items, 1, c.a)
    [] c.cls = "emptyroot" -> <<>>
    [] OTHER -> c.items
Exp(c) == Verify(ProofOf(c), Root(RootListOf(c)), ClaimOf(c))

\* the claim an accepted proof proves: the item sits in the list at a position with the proof's path shape
ClaimTrue(c) ==
  LET rl == RootListOf(c)
      p == ProofOf(c) IN
  \E j \in 1..Len(rl) : rl[j] = ClaimOf(c) /\ Shape(j - 1, Len(rl)) = Shape(p.index, p.total) /\ Shape(p.index, p.total) # NIL
SingleField == {"item", "leaf", "index", "total", "auntswap", "auntset", "auntdrop", "auntdup", "rootother", "rootprefix"}
Mutated(c) == ProofOf(c) # Honest(c.items, c.i) \/ ClaimOf(c) # c.items[c.i + 1] \/ RootListOf(c) # c.items

\* ------------------------------------------------------------------ tree part (ics23 style)
Keys == 1..NKeys
KVH(k, v) == <<"L", k, v>>
Foreign == <<"L", 0, 0>>                   \* a hash that occurs in no tree
SortedSeq(P) == SelectSeq([k \in Keys |-> k], LAMBDA k : k \in P)
LeafSeq(P) == LET s == SortedSeq(P) IN [j \in 1..Len(s) |-> KVH(s[j], 1)]     \* every present key has value 1
RECURSIVE HRoot(_)                         \* root over a sequence of leaf hashes
HRoot(hs) == IF Len(hs) = 0 THEN NIL ELSE IF Len(hs) = 1 THEN hs[1] ELSE InnerH(HRoot(Left(hs)), HRoot(Right(hs)))
TreeRoot(P) == HRoot(LeafSeq(P))
RECURSIVE PathOf(_, _)                     \* steps from the leaf to the root: side of the proven node, sibling
PathOf(hs, i) == IF Len(hs) <= 1 THEN <<>>
                 ELSE LET k == SplitPoint(Len(hs)) IN
                      IF i < k THEN Append(PathOf(Left(hs), i), [side |-> "L", sib |-> HRoot(Right(hs))])
                      ELSE Append(PathOf(Right(hs), i - k), [side |-> "R", sib |-> HRoot(Left(hs))])
PosOf(P, k) == Cardinality({j \in P : j < k})
NONE == [key |-> 0, val |-> 0, path |-> <<>>]
Exist(P, k) == [key |-> k, val |-> 1, path |-> PathOf(LeafSeq(P), PosOf(P, k))]
RECURSIVE Fold(_, _)
Fold(h, path) == IF Len(path) = 0 THEN h
                 ELSE Fold(IF path[1].side = "L" THEN InnerH(h, path[1].sib) ELSE InnerH(path[1].sib, h), Tail(path))
VerifyExist(ep, root, k, v) == ep # NONE /\ ep.key = k /\ ep.val = v /\ Fold(KVH(k, v), ep.path) = root
AllSide(path, s) == \A j \in 1..Len(path) : path[j].side = s
RECURSIVE IsLeftNeighbor(_, _)             \* strip the common top of the two paths, then L / R step, then rightmost / leftmost below
IsLeftNeighbor(lp, rp) ==
  IF Len(lp) = 0 \/ Len(rp) = 0 THEN FALSE
  ELSE LET tl == lp[Len(lp)]
           tr == rp[Len(rp)] IN
       IF tl = tr THEN IsLeftNeighbor(SubSeq(lp, 1, Len(lp) - 1), SubSeq(rp, 1, Len(rp) - 1))
       ELSE tl.side = "L" /\ tr.side = "R" /\ AllSide(SubSeq(lp, 1, Len(lp) - 1), "R") /\ AllSide(SubSeq(rp, 1, Len(rp) - 1), "L")
VerifyNonExist(np, root, k) ==
  /\ np.left # NONE \/ np.right # NONE
  /\ np.left # NONE => VerifyExist(np.left, root, np.left.key, np.left.val) /\ np.left.key < k
  /\ np.right # NONE => VerifyExist(np.right, root, np.right.key, np.right.val) /\ k < np.right.key
  /\ IF np.left = NONE THEN AllSide(np.right.path, "L")
     ELSE IF np.right = NONE THEN AllSide(np.left.path, "R")
     ELSE IsLeftNeighbor(np.left.path, np.right.path)
Pred(P, k) == IF \E j \in P : j < k THEN CHOOSE j \in P : j < k /\ \A x \in P : x < k => x <= j ELSE 0
Succ(P, k) == IF \E j \in P : j > k THEN CHOOSE j \in P : j > k /\ \A x \in P : x > k => x >= j ELSE 0
ExistOrNone(P, k) == IF k = 0 THEN NONE ELSE Exist(P, k)
NonExist(P, k) == [left |-> ExistOrNone(P, Pred(P, k)), right |-> ExistOrNone(P, Succ(P, k))]
Toggle(P, a) == IF a \in P THEN P \ {a} ELSE P \cup {a}
SetStep(ep, a, f) == IF a > Len(ep.path) THEN ep ELSE [ep EXCEPT !.path = [ep.path EXCEPT ![a] = f]]
Flip(s) == IF s = "L" THEN "R" ELSE "L"

\* member cases: k present; non-member cases: k absent ("skip": k present, its two neighbours offered as a gap)
MemberProof(c) ==
  LET ep == Exist(c.P, c.k) IN
  CASE c.cls = "stepsib" -> SetStep(ep, c.a, [side |-> ep.path[c.a].side, sib |-> Foreign])
    [] c.cls = "stepside" -> SetStep(ep, c.a, [side |-> Flip(ep.path[c.a].side), sib |-> ep.path[c.a].sib])
    [] c.cls = "stepdrop" -> [ep EXCEPT !.path = DropAt(ep.path, c.a)]
    [] c.cls = "stepdup" -> [ep EXCEPT !.path = DupAt(ep.path, c.a)]
    [] c.cls = "proofkey" -> [ep EXCEPT !.key = c.a]
    [] OTHER -> ep
NonMemberProof(c) ==
  LET np == NonExist(c.P, c.k)
      l == Pred(c.P, c.k)
      r == Succ(c.P, c.k) IN
  CASE c.cls = "leftfar" -> [np EXCEPT !.left = ExistOrNone(c.P, Pred(c.P, l))]
    [] c.cls = "rightfar" -> [np EXCEPT !.right = ExistOrNone(c.P, Succ(c.P, r))]
    [] c.cls = "dropleft" -> [np EXCEPT !.left = NONE]
    [] c.cls = "dropright" -> [np EXCEPT !.right = NONE]
    [] c.cls = "swap" -> [left |-> np.right, right |-> np.left]
    [] c.cls = "nstepsib" -> IF c.b = 0 THEN [np EXCEPT !.left = SetStep(np.left, c.a, [side |-> np.left.path[c.a].side, sib |-> Foreign])]
                             ELSE [np EXCEPT !.right = SetStep(np.right, c.a, [side |-> np.right.path[c.a].side, sib |-> Foreign])]
    [] OTHER -> np
TreeRootOf(c) == IF c.cls = "root" THEN TreeRoot(Toggle(c.P, c.a)) ELSE TreeRoot(c.P)
RootSetOf(c) == IF c.cls = "root" THEN Toggle(c.P, c.a) ELSE c.P
TreeExp(c) ==
  IF c.kind = "member"
  THEN CASE c.cls = "value" -> VerifyExist(MemberProof(c), TreeRootOf(c), c.k, 2)
         [] c.cls \in {"key", "proofkey"} -> VerifyExist(MemberProof(c), TreeRootOf(c), c.a, 1)
         [] c.cls = "asnonmember" -> FALSE        \* an existence proof is no non-existence proof
         [] OTHER -> VerifyExist(MemberProof(c), TreeRootOf(c), c.k, 1)
  ELSE CASE c.cls = "key" -> VerifyNonExist(NonMemberProof(c), TreeRootOf(c), c.a)
         [] c.cls = "asmember" -> FALSE
         [] OTHER -> VerifyNonExist(NonMemberProof(c), TreeRootOf(c), c.k)
\* the claim an accepted proof proves, in the tree whose root was used
TreeClaimTrue(c) ==
  IF c.kind = "member"
  THEN CASE c.cls = "value" -> FALSE
         [] c.cls \in {"key", "proofkey"} -> c.a \in RootSetOf(c)
         [] OTHER -> c.k \in RootSetOf(c)
  ELSE CASE c.cls = "key" -> c.a \notin RootSetOf(c)
         [] OTHER -> c.k \notin RootSetOf(c)
Subsets == {P \in SUBSET Keys : P # {}}
MemberParams(P, k) ==
  LET n == Len(Exist(P, k).path) IN
     {<<"none", 0, 0>>, <<"value", 0, 0>>, <<"asnonmember", 0, 0>>}
     \cup {<<"key", a, 0>> : a \in Keys \ {k}}
     \cup {<<"proofkey", a, 0>> : a \in Keys \ {k}}
     \cup {<<"root", a, 0>> : a \in Keys}
     \cup {<<"stepsib", a, 0>> : a \in 1..n} \cup {<<"stepside", a, 0>> : a \in 1..n}
     \cup {<<"stepdrop", a, 0>> : a \in 1..n} \cup {<<"stepdup", a, 0>> : a \in 1..n}
NonMemberParams(P, k) ==
  LET np == NonExist(P, k) IN
     {<<"none", 0, 0>>, <<"asmember", 0, 0>>, <<"swap", 0, 0>>}
     \cup {<<"key", a, 0>> : a \in Keys \ {k}}
     \cup {<<"root", a, 0>> : a \in Keys}
     \cup (IF np.left # NONE THEN {<<"leftfar", 0, 0>>, <<"dropleft", 0, 0>>} \cup {<<"nstepsib", a, 0>> : a \in 1..Len(np.left.path)} ELSE {})
     \cup (IF np.right # NONE THEN {<<"rightfar", 0, 0>>, <<"dropright", 0, 0>>} \cup {<<"nstepsib", a, 1>> : a \in 1..Len(np.right.path)} ELSE {})

\* ------------------------------------------------------------------ the case machine
VARIABLE c
AllSimple == UNION {UNION {{[items |-> it, i |-> i, cls |-> q[1], a |-> q[2], b |-> q[3]] : q \in Params(it, i)}
                           : i \in 0..(Len(it) - 1)} : it \in Lists}
AllTree == UNION {UNION {{[kind |-> IF k \in P THEN "member" ELSE "nonmember", P |-> P, k |-> k, cls |-> q[1], a |-> q[2], b |-> q[3]]
                            : q \in IF k \in P THEN MemberParams(P, k) ELSE NonMemberParams(P, k)} : k \in Keys} : P \in Subsets}
           \cup {[kind |-> "nonmember", P |-> P, k |-> k, cls |-> "skip", a |-> 0, b |-> 0] :
                    P \in {Q \in Subsets : Cardinality(Q) >= 3}, k \in Keys}
SkipOK(x) == x.cls # "skip" \/ (x.k \in x.P /\ Pred(x.P, x.k) # 0 /\ Succ(x.P, x.k) # 0)
Init == c \in (IF Part = "simple" THEN AllSimple ELSE {x \in AllTree : SkipOK(x)})
Next == FALSE /\ UNCHANGED c

SkipProof(x) == [left |-> Exist(x.P, Pred(x.P, x.k)), right |-> Exist(x.P, Succ(x.P, x.k))]
ExpOf(x) == IF Part = "simple" THEN Exp(x)
            ELSE IF x.cls = "skip" THEN VerifyNonExist(SkipProof(x), TreeRoot(x.P), x.k)
            ELSE TreeExp(x)

\* ---------------------------------------------------------------- properties (C25)
Complete == c.cls = "none" => ExpOf(c)
Sound == ExpOf(c) => (IF Part = "simple" THEN ClaimTrue(c) ELSE (c.cls # "skip" /\ TreeClaimTrue(c)))
SingleFieldRejected ==
  IF Part = "simple"
  THEN (c.cls \in SingleField /\ Distinct(c.items) /\ Mutated(c)
          /\ (c.cls \in {"index", "total"} => Shape(ProofOf(c).index, ProofOf(c).total) # Shape(c.i, Len(c.items)))) => ~ExpOf(c)
  ELSE (c.cls # "none" /\ ~(c.kind = "nonmember" /\ c.cls = "key")) => ~ExpOf(c)
\* a non-membership proof verifies for the keys of its gap only
GapOnly == (Part = "tree" /\ c.kind = "nonmember" /\ c.cls = "key")
             => (ExpOf(c) <=> (c.a \notin c.P /\ Pred(c.P, c.a) = Pred(c.P, c.k) /\ Succ(c.P, c.a) = Succ(c.P, c.k)))
EmitCase == PrintT(<<"CASE", ToJson(c @@ [exp |-> ExpOf(c)])>>)
=============================================================================
