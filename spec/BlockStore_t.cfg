CONSTANTS
  K = 3
  H0 = 1
  MaxLen = 9
  NV = 2
  FirstHs <- F13
  MaxFirst = 3
INIT Init
NEXT Next
VIEW View
INVARIANTS TypeOK LoadEqualsSaved Contiguous HeightIsLastSaved ValsAtHeightCorrect ParamsAtHeightCorrect KnownRange
PROPERTIES HeightMonotone

