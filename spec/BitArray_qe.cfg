CONSTANTS
  Regs <- R2
  CRegs <- NoRegs
  Sizes <- SzSmall
  SmallMax = 3
  Mode = "free"
  Laws = TRUE
  NewUntil = 5
  MaxLen = 5
INIT Init
NEXT Next
VIEW View
INVARIANTS TypeOK LawsHold
ACTION_CONSTRAINT EmitEdge
