CONSTANTS
  N = 8
  DataKeys = {1,2,3,4,6,7}
  Vals = {"", "x", "y"}
  Batches = {"b1", "b2"}
  Snaps = {"s1", "s2"}
  MaxOps = 3
  MaxLen = 40
  Collecting = TRUE
  Syncs = {FALSE, TRUE}
  InitDBs <- Init3
  Quiet = FALSE
INIT Init
NEXT NextSim
VIEW View
INVARIANTS TypeOK RefMatches PlainNoPending LastScanOK
PROPERTIES SnapshotFrozen DrainPreservesReads DiscardNoEffect
INVARIANT EmitAtEnd
