CONSTANTS
  MaxVer = 3
  NQ = 2
  NCheck = 0
  QKinds <- KAll
  Orders <- OAll
  Crashes = FALSE
  Snapshots = TRUE
  Fine = FALSE
  AtomicResolve = FALSE
  Coarse = TRUE
  Keep = 0
  StoreDirect = FALSE
  MetaDirect = FALSE
  MaxLen = 60
INIT Init
NEXT Next
VIEW StateView
INVARIANTS TypeOK Recoverable QueryCommitted RefsSound SnapshotsWhole
PROPERTIES QueriesReadOnly
ACTION_CONSTRAINT EmitEdge
