CONSTANTS
  NK = 1500
  NV = 3
  MaxVer = 16
  MaxLen = 36
  NR = 2
  Impl = "bptree"
  SmallTree = FALSE
  Opts <- OptsAll
  Reads = TRUE
  BadArgs = TRUE
  SvAlways = FALSE
  Quiet = FALSE
  FillSizes <- FillHuge
  Scripts <- NoScripts
INIT Init
NEXT NextShapeF
VIEW View
INVARIANTS TypeOK Contig WorkingRetained ReadersRetained CleanIsSaved NotRetainedIsBlank HkFunctional
PROPERTIES SavedImmutable PruneKeepsRetained OnlyNext SessionDrop
INVARIANT EmitAtEnd
