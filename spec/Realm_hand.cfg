CONSTANTS
  Nodes = {1, 2, 3}
  RootObjs <- R12
  RootPkg <- Pkg12
  RootSlots <- Slots12
  Realms = {1, 2}
  MaxOps = 3
  MaxOps1 = 3
  MaxTx = 3
  OwnerFix = TRUE
  AttachGuard = TRUE
  SaveGuard = TRUE
  ObjSeq <- Seq3b
  HandMode = TRUE
  Bias = TRUE
  Quiet = FALSE
INIT Init
NEXT Next
VIEW view
ACTION_CONSTRAINT EmitHandEdge
INVARIANTS RefinesDecl RefCountExact OwnerIffSingle NoDangling IdCounter ReachableUnlessCyclic
CHECK_DEADLOCK FALSE
