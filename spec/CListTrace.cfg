INIT Init
NEXT Next
CONSTRAINT Mark
INVARIANTS AbsOK LiveNextLive
POSTCONDITION Accepted
