CONSTANTS
  Keys <- KeysAll
  MaxLen = 2
  Quiet = FALSE
INIT Init
NEXT Next
VIEW View
INVARIANTS TypeOK StoredValuesValid StoredKeysWellFormed
PROPERTIES WritesStayInOwnNamespace ModuleParamsOnlyViaSysRealm RejectedIsNoOp
ACTION_CONSTRAINT EmitEdge
