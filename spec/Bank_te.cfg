SPECIFICATION Spec
CONSTANTS
  Addrs <- A3
  Amts <- Amt012
  Cap = 100
  MaxLen = 3
  MaxTime = 5
  RawOps = TRUE
  IOIns <- InsT3
  IOOuts <- OutsT3
  Genesis <- Gen1
VIEW View
INVARIANTS SupplyEq BalanceWellFormed SupplyWellFormed HolderHasAccount NumsUnique
PROPERTIES OnlyMintBurnChangeSupply TransferNeutral MintBurnExact FailedChangesNothing AccountsStable
ACTION_CONSTRAINT EmitEdge
