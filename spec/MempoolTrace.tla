---------------------------- MODULE MempoolTrace ----------------------------
(* C40 (V): call/return histories of CONCURRENT callers of the real CListMempool (CheckTx goroutines,
   a committer doing Lock; FlushAppConn; Update; Unlock, a reaper) validated against Mempool.tla.
   TCall consumes a Call line, TLin(k) takes the Mempool action of a pending call (its linearisation
   point), TRet consumes a Ret line iff the call was linearised with exactly the logged reply; a Final
   line carries the pool read at quiescence.  Reduction as in CListTrace: linearisation points are
   only taken when the next line is a Ret.  The invariants and step properties of Mempool.tla are
   evaluated on every state / step of the linearisation.                                          *)
EXTENDS MCMempool

TheTrace == ndJsonDeserialize("mempool_trace.ndjson")

VARIABLES l, pend
tvars == <<vars, hist, l, pend>>
\* hist only records the linearisation found so far: two orders reaching the same mempool state merge
TView == <<vars, l, pend>>
NoCalls == [k \in {} |-> 0]
Line == TheTrace[l]
MoreLines == l <= Len(TheTrace)


TInit == Init /\ l = 1 /\ pend = NoCalls /\ TLCSet(1, 0)

TReset == /\ MoreLines /\ Line.act = "Reset"
          /\ pool' = <<>> /\ cache' = <<>> /\ maxTx' = InitMaxTx /\ ban' = {} /\ hist' = <<>>
          /\ pend' = NoCalls /\ l' = l + 1

TCall == /\ MoreLines /\ Line.act = "Call" /\ Line.id \notin DOMAIN pend
         /\ pend' = [k \in DOMAIN pend \cup {Line.id} |-> IF k = Line.id THEN [c |-> Line, st |-> "called"] ELSE pend[k]]
         /\ l' = l + 1 /\ UNCHANGED <<vars, hist>>

SeqToSet(s) == {s[i] : i \in 1..Len(s)}
\* the Mempool action of call c; the logged arguments bind every parameter
Act(c) ==
  CASE c.op = "CheckTx" -> \E ok \in BOOLEAN : CheckTx(c.tx, ok)
    [] c.op = "Update" -> /\ Update(c.committed, 0, KeepBan)
                          \* recheck verdicts of the scripted app: exactly the pooled txs in c.bad are rejected
                          /\ Last.inv \subseteq SeqToSet(c.bad)
                          /\ \A t \in SetOf(pool') : t \notin SeqToSet(c.bad)
    [] c.op = "ReapMaxBytesMaxGas" -> ReapMaxBytesMaxGas(c.b, c.g)
    [] c.op = "ReapMaxTxs" -> ReapMaxTxs(c.n)

\* what the caller was told: a reply class (CheckTx, Update) or the reaped txs
Told(c, reply) == IF c.op \in {"ReapMaxBytesMaxGas", "ReapMaxTxs"} THEN reply = c.txs
                  ELSE IF reply = "pooled" THEN c.r \in {"ok", "incache"} ELSE reply = c.r

\* the Call line already carries the reply the call eventually got (the driver writes the file after
\* the run): a linearisation point producing another reply is pruned at once instead of at the Ret line
TLin(k) == /\ MoreLines /\ Line.act = "Ret"
           /\ pend[k].st = "called"
           /\ Act(pend[k].c)
           /\ Told(pend[k].c, Last.reply)
           /\ pend' = [pend EXCEPT ![k].st = "done"]
           /\ UNCHANGED l

TRet == /\ MoreLines /\ Line.act = "Ret" /\ Line.id \in DOMAIN pend
        /\ pend[Line.id].st = "done"
        /\ Line.r = pend[Line.id].c.r /\ Line.txs = pend[Line.id].c.txs
        /\ pend' = [k \in DOMAIN pend \ {Line.id} |-> pend[k]]
        /\ l' = l + 1 /\ UNCHANGED <<vars, hist>>

TFinal == /\ MoreLines /\ Line.act = "Final"
          /\ pend = NoCalls /\ Line.txs = pool /\ Line.bytes = Bytes(pool)
          /\ l' = l + 1 /\ UNCHANGED <<vars, hist, pend>>

TNext == TReset \/ TCall \/ (\E k \in DOMAIN pend : TLin(k)) \/ TRet \/ TFinal
TSpec == TInit /\ [][TNext]_tvars

Mark == TLCSet(1, IF l - 1 > TLCGet(1) THEN l - 1 ELSE TLCGet(1))
Accepted == IF TLCGet(1) = Len(TheTrace) THEN TRUE
            ELSE PrintT(<<"HWM", ToString(TLCGet(1))>>) /\ FALSE
\* the step properties of Mempool.tla on linearisation steps only (hist unchanged elsewhere)
TStepProps == [][hist' # hist /\ hist' # <<>> => StepOK]_tvars
=============================================================================
