---------------------------- MODULE MCCommit ----------------------------
EXTENDS Commit
KAll == {"custom", "simulate", "store"}
KCS == {"custom", "simulate"}
KNone == {}
OAll == {<<"main", "base">>, <<"base", "main">>, <<"main">>}
OMB == {<<"main", "base">>, <<"main">>}
KeepAll == -1
=============================================================================
