---------------------------- MODULE Packages ----------------------------
(* C12. Package deployment on the VM keeper: gno.land/pkg/sdk/vm/keeper.go AddPackage (checks as
   guards, in code order), gnovm/pkg/gnolang/mempackage.go path validation, store.go
   AddMemPackage/DeleteMemPackage (what vm/qfile serves), realm.go /p/ immutability.

   State: pkgs[p] for a handful of VALID path ids (two realms of namespace "alice" - one the
   /v2 sibling of the other -, one /p/ package of "alice", one realm of namespace "bob", one
   realm in the personal-address namespace of account B); every other path string belongs to a
   BadPaths class and is rejected whatever the state. A deployed package records the file-set
   variant, the private flag, the creator and the number of deployments at that path (the driver stamps it into the
   file bodies, so a redeployment with the same variant is still distinguishable).
   lib[..] / own[..] model the package-level state of the /p/ library variant "FL" and of the
   realm variant "FU" that imports it (PStateFrozen).

   Actions: AddPkg(creator, path, fileset, private); Call(kind) = MsgCall of the FU realm's
   Poke(kind), which tries one way of mutating the /p/ package's state (or its own state:
   kind "own", the control). QueryFile is the projection `st`: after every step the driver
   queries vm/qfile for every valid path (file list + every body) and compares.

   Verdict observables: accept/reject of every transaction; vm/qfile of every valid path after
   every step; the /p/ state read back. Guidance: the error class (`why`).

   Namespace registry: the sys/names realm deployed at genesis by the driver maps alice -> A,
   bob -> B and lets every address deploy under its own address.                             *)
EXTENDS Integers, Sequences, FiniteSets, TLC, Json

CONSTANTS BadPaths,   \* set of path-class ids that must always be rejected
          FileSets,   \* file-set variants offered to AddPkg
          Kinds,      \* mutation kinds offered to Call
          MaxLen,
          Quiet

Creators == {"A", "B"}
ValidPaths == {"r1", "r1v", "p1", "r2", "ra"}
Kind(p) == IF p = "p1" THEN "p" ELSE "r"
Owner(p) == IF p \in {"r2", "ra"} THEN "B" ELSE "A"      \* authorised deployer of the path's namespace
NONE == [fs |-> "none"]

\* file-set variants: which keeper check rejects them ("" = none)
FsReject(f) == CASE f = "FT" -> "noprod"       \* only _test.gno files
                 [] f = "FN" -> "name"         \* package name does not match the path
                 [] f = "FC" -> "typecheck"    \* does not type-check
                 [] f = "FR" -> "replace"      \* gnomod.toml with a replace directive
                 [] f = "FD" -> "draft"        \* draft package after genesis
                 [] f = "FM" -> "gnomod"       \* carries a deprecated gno.mod file
                 [] f = "FI" -> "init"         \* init() panics
                 [] OTHER -> ""

VARIABLES pkgs,   \* [ValidPaths -> NONE or [fs, priv, creator, gen]]
          lib,    \* state of the /p/ library (variant FL): sum of its four state cells, 0 = not deployed
          own,    \* counter of the FU realm at r1 (reset on every deployment)
          steps, hist

vars == <<pkgs, lib, own>>
LibInit == 4   \* FL's init() writes every cell once (init-time writes are allowed)

Init == /\ pkgs = [p \in ValidPaths |-> NONE]
        /\ lib = 0 /\ own = 0
        /\ steps = 0 /\ hist = <<>>

Proj(pk, l, o) == [pkgs |-> pk, lib |-> l, own |-> o]

Log(rec) == /\ steps' = steps + 1
            /\ hist' = IF Quiet THEN hist ELSE Append(hist, rec)

\* the keeper's checks in code order; returns the class of the first failing one, "" when all pass
Why(c, p, f, priv) ==
  IF p \in BadPaths THEN "path"
  ELSE IF FsReject(f) \in {"name", "noprod"} THEN FsReject(f)              \* ValidateMemPackageAny, hasProdGnoFile
  ELSE IF pkgs[p] # NONE /\ ~pkgs[p].priv THEN "exists"
  ELSE IF FsReject(f) = "typecheck" THEN "typecheck"
  ELSE IF f = "FU" /\ (pkgs["p1"] = NONE \/ pkgs["p1"].fs # "FL") THEN "typecheck"   \* imports the library
  ELSE IF FsReject(f) = "replace" THEN "replace"
  ELSE IF pkgs[p] # NONE /\ pkgs[p].priv /\ ~priv THEN "priv2pub"
  ELSE IF priv /\ Kind(p) # "r" THEN "privnonrealm"
  ELSE IF FsReject(f) \in {"draft", "gnomod"} THEN FsReject(f)
  ELSE IF Owner(p) # c THEN "unauthorized"
  ELSE IF FsReject(f) = "init" THEN "init"
  ELSE ""

AddPkg(c, p, f, priv) ==
  /\ steps < MaxLen
  /\ LET why == Why(c, p, f, priv) IN
     IF why # ""
     THEN /\ UNCHANGED vars
          /\ Log([act |-> "AddPkg", c |-> c, p |-> p, f |-> f, priv |-> priv, reply |-> "reject", why |-> why,
                  st |-> Proj(pkgs, lib, own)])
     ELSE LET g == IF pkgs[p] = NONE THEN 1 ELSE pkgs[p].gen + 1       \* n-th deployment at this path
              pk1 == [pkgs EXCEPT ![p] = [fs |-> f, priv |-> priv, creator |-> c, gen |-> g]]
              l1 == IF p = "p1" THEN (IF f = "FL" THEN LibInit ELSE 0) ELSE lib
              o1 == IF p = "r1" THEN 0 ELSE own
          IN /\ pkgs' = pk1 /\ lib' = l1 /\ own' = o1
             /\ Log([act |-> "AddPkg", c |-> c, p |-> p, f |-> f, priv |-> priv, reply |-> "ok", why |-> "",
                     st |-> Proj(pk1, l1, o1)])

\* MsgCall of r1.Poke(kind): kind "own" bumps the realm's own counter; every other kind tries to
\* mutate the state of the /p/ library after its initialisation and must abort the transaction.
Call(kind) ==
  /\ steps < MaxLen
  /\ pkgs["r1"] # NONE /\ pkgs["r1"].fs = "FU"
  /\ IF kind = "own"
     THEN /\ own' = own + 1 /\ UNCHANGED <<pkgs, lib>>
          /\ Log([act |-> "Call", kind |-> kind, reply |-> "ok", st |-> Proj(pkgs, lib, own + 1)])
     ELSE /\ UNCHANGED vars
          /\ Log([act |-> "Call", kind |-> kind, reply |-> "reject", st |-> Proj(pkgs, lib, own)])

\* Only combinations that can matter are offered: bad paths and bad file sets are tried with one
\* creator / one flag value each, valid ones with every creator and flag.
Offer(c, p, f, priv) ==
  /\ (p \in BadPaths => c = "A" /\ f = "F1" /\ ~priv)
  /\ (FsReject(f) # "" => (~priv \/ f = "FI") /\ c = Owner(p))     \* FI also as a private (re)deployment: fails after the old blobs were cleared
  /\ (f = "FL" => p = "p1")
  /\ (f = "FU" => p \in {"r1", "r2"})

Next == \/ \E c \in Creators, p \in ValidPaths \cup BadPaths, f \in FileSets, priv \in BOOLEAN :
             Offer(c, p, f, priv) /\ AddPkg(c, p, f, priv)
        \/ \E k \in Kinds : Call(k)

Spec == Init /\ [][Next]_<<vars, steps, hist>>
View == vars

\* ------------------------------------------------------------------ properties (C12)
TypeOK == /\ \A p \in ValidPaths : pkgs[p] = NONE \/ pkgs[p].fs \in FileSets
          /\ lib \in {0, LibInit} /\ own \in 0..MaxLen
\* once a public package is deployed nothing replaces or alters it
PublicImmutable == [][\A p \in ValidPaths : (pkgs[p] # NONE /\ ~pkgs[p].priv) => pkgs'[p] = pkgs[p]]_vars
\* a private package is only ever replaced by a private one, and only by the namespace owner
PrivateStaysPrivate == [][\A p \in ValidPaths : (pkgs[p] # NONE /\ pkgs[p].priv /\ pkgs'[p] # pkgs[p])
                              => (pkgs'[p] # NONE /\ pkgs'[p].priv /\ pkgs'[p].creator = Owner(p))]_vars
\* deployments exist only under the creator's namespace
OnlyAuthorizedNamespace == \A p \in ValidPaths : pkgs[p] # NONE => pkgs[p].creator = Owner(p)
\* only file sets that pass every check are ever stored; private only for realms
OnlyValidStored == \A p \in ValidPaths : pkgs[p] # NONE => (FsReject(pkgs[p].fs) = "" /\ (pkgs[p].priv => Kind(p) = "r"))
\* the /p/ package state never changes after initialisation
PStateFrozen == [][pkgs'["p1"] = pkgs["p1"] => lib' = lib]_vars
\* a realm importing the library exists only while the library it was checked against exists
ImportsResolved == \A p \in {"r1", "r2"} : (pkgs[p] # NONE /\ pkgs[p].fs = "FU") => (pkgs["p1"] # NONE /\ pkgs["p1"].fs = "FL")

Emit == PrintT(<<"TRACE", ToJson(hist)>>)
EmitAtEnd == steps < MaxLen \/ Emit
EmitEdge == PrintT(<<"EDGE", ToJson(hist')>>)
=============================================================================
