-------------------------------- MODULE Heap --------------------------------
(* C03 - Realm behaviour is independent of persistence boundaries.

   A small model of Go/Gno value semantics for the persistable kinds, used to GENERATE call
   sequences of the universal realm gno.land/r/verif/vals that are rich in aliasing, and to
   predict their results (a GUIDANCE observable only - the verdict of C03 compares the real
   VM with itself: one transaction per call vs. all calls in one transaction).

     arr      backing arrays (id -> sequence of ints); never freed in the model
     S[1..3]  slice variables: views [a, off, len, cap] of a backing array (a = 0: nil slice)
     P[1..2]  pointer variables: nil | element i of array a | captured cell c
     T[1..2]  struct variables Box{N int; Ref *int; View []int}; TP: nil or &T[t]
     M        map[string][]int over keys "x", "y"
     I        interface value: nil | a slice | a pointer | a Box (copied in)
     cell     variables captured by closures (heap items); clo = cell the counter closures share

   Append follows Gno's rule (uverse.go `append`): in place when len < cap, otherwise a NEW
   backing array of exactly the new length (no amortised growth - a documented Go/Gno
   difference); pointers and other views keep the old array.

   Every action is one call `Script(op)` of the realm; each call returns a rendering of the
   whole state including the hidden part of every backing array (s[:cap(s)]).              *)
EXTENDS Integers, Sequences, FiniteSets, TLC, Json

CONSTANTS MaxLen,      \* calls per behaviour
          MaxArr,      \* backing arrays per behaviour
          MaxCap,      \* capacity of make
          Full,        \* TRUE: whole alphabet; FALSE: slices and pointers only (exhaustive runs)
          Directed,    \* TRUE: the walk is steered through the pattern watched by the monitor (ph) first
          Quiet

NS == 1..3
NP == 1..2
NT == 1..2
Keys == {"x", "y"}

VARIABLES arr, narr, S, P, T, TP, M, I, cell, clo, next, fin, hist,
          ph, ma, mt   \* monitor of the pattern "a NEW object refers to an ALREADY SHARED object, the older
                       \* references are dropped in later calls, the object is read through the new holder":
                       \*   ph = 1: backing array ma is viewed by two slice variables (shared => escaped once persisted)
                       \*   ph = 2: a later call stored a new Box in T[mt] whose View is a view of ma
                       \*   ph = 3: later calls made every other reference to ma go away; T[mt].View still shows it
vars == <<arr, narr, S, P, T, TP, M, I, cell, clo, next, fin, hist, ph, ma, mt>>
view == <<arr, narr, S, P, T, TP, M, I, cell, clo, next, fin, Len(hist), ph, ma, mt>>

NilS == [a |-> 0, off |-> 0, len |-> 0, cap |-> 0]
NilP == [k |-> "nil", a |-> 0, i |-> 0]
NilT == [n |-> 0, ref |-> NilP, view |-> NilS]
NilI == [k |-> "nil", s |-> NilS, p |-> NilP, b |-> NilT]

\* ---- semantics helpers
Elem(s, i) == arr[s.a][s.off + i]                       \* i in 1..cap: element i of the view (also the hidden ones)
SetAt(A, a, i, v) == [A EXCEPT ![a][i] = v]
Deref(A, C, p) == IF p.k = "elem" THEN A[p.a][p.i] ELSE IF p.k = "cell" THEN C[p.a] ELSE 0

\* append(s, v): <<new arrays, new narr, resulting slice>>
App(A, n, s, v) ==
  IF s.a # 0 /\ s.len < s.cap
  THEN <<SetAt(A, s.a, s.off + s.len + 1, v), n, [s EXCEPT !.len = @ + 1]>>
  ELSE LET vis == [i \in 1..s.len |-> A[s.a][s.off + i]]
           na == n + 1
       IN <<[A EXCEPT ![na] = Append(vis, v)], na, [a |-> na, off |-> 0, len |-> s.len + 1, cap |-> s.len + 1]>>

\* ---- projection: what the realm's dump shows
PS(A, s) == [nil |-> s.a = 0, len |-> s.len, cap |-> s.cap, el |-> [i \in 1..s.cap |-> A[s.a][s.off + i]]]
PP(A, C, p) == [nil |-> p.k = "nil", v |-> Deref(A, C, p)]
PT(A, C, t) == [n |-> t.n, ref |-> PP(A, C, t.ref), view |-> PS(A, t.view)]
Proj == [s |-> [i \in NS |-> PS(arr', S'[i])],
         p |-> [i \in NP |-> PP(arr', cell', P'[i])],
         t |-> [i \in NT |-> PT(arr', cell', T'[i])],
         tp |-> IF TP' = 0 THEN [nil |-> TRUE, n |-> 0] ELSE [nil |-> FALSE, n |-> T'[TP'].n],
         m |-> [k \in Keys |-> [has |-> M'[k].has, view |-> PS(arr', M'[k].s)]],
         i |-> [k |-> I'.k, s |-> PS(arr', I'.s), p |-> PP(arr', cell', I'.p), b |-> PT(arr', cell', I'.b)],
         c |-> [has |-> clo' # 0, get |-> IF clo' = 0 THEN 0 ELSE cell'[clo']]]

Log(op, a1, a2, a3, a4) ==
  hist' = IF Quiet THEN Append(hist, 0)
          ELSE Append(hist, [act |-> op, a |-> a1, b |-> a2, c |-> a3, d |-> a4, ph |-> ph, st |-> Proj])

Init ==
  /\ arr = [a \in 1..MaxArr |-> <<>>] /\ narr = 0
  /\ S = [i \in NS |-> NilS] /\ P = [i \in NP |-> NilP] /\ T = [i \in NT |-> NilT] /\ TP = 0
  /\ M = [k \in Keys |-> [has |-> FALSE, s |-> NilS]] /\ I = NilI
  /\ cell = [c \in 1..2 |-> 0] /\ clo = 0 /\ next = 1 /\ fin = FALSE /\ hist = <<>>
  /\ ph = 0 /\ ma = 0 /\ mt = 0

Room == narr < MaxArr
Fresh == next' = next + 1
Same(vs) == UNCHANGED vs

\* S[s] = make([]int, n, c), visible part filled with fresh values
\* (Full = simulation: the ops with many argument combinations are thinned out so that the
\*  uniformly chosen successor is not nearly always a make or a reslice)
MakeSlice ==
  /\ Room
  /\ (Full /\ ~(Directed /\ ph = 2)) => Cardinality({x \in NS : S[x].a # 0}) < 2
  /\ \E s \in NS, c \in 1..MaxCap, n \in 0..MaxCap :
       /\ n <= c
       /\ Full => (c >= 2 /\ n >= c - 1)
       /\ narr' = narr + 1
       /\ arr' = [arr EXCEPT ![narr + 1] = [i \in 1..c |-> IF i <= n THEN next + i - 1 ELSE 0]]
       /\ S' = [S EXCEPT ![s] = [a |-> narr + 1, off |-> 0, len |-> n, cap |-> c]]
       /\ next' = next + n
       /\ Same(<<P, T, TP, M, I, cell, clo>>)
       /\ Log("mk", s, n, c, 0)

\* S[d] = S[s][i:j]
Reslice ==
  \E d \in NS, s \in NS : S[s].a # 0 /\
  \E i \in 0..S[s].cap, j \in 0..S[s].cap :
       /\ i <= j
       /\ Full => (i <= 1 /\ j >= S[s].cap - 1 /\ d = (s % 3) + 1)
       /\ S' = [S EXCEPT ![d] = [a |-> S[s].a, off |-> S[s].off + i, len |-> j - i, cap |-> S[s].cap - i]]
       /\ Same(<<arr, narr, P, T, TP, M, I, cell, clo, next>>)
       /\ Log("rs", d, s, i, j)

\* S[d] = append(S[s], fresh)
AppendS ==
  /\ Room
  /\ \E d \in NS, s \in NS :
       (Full => (S[s].a # 0 /\ (d = s \/ d = (s % 3) + 1))) /\
       LET r == App(arr, narr, S[s], next) IN
       /\ arr' = r[1] /\ narr' = r[2] /\ S' = [S EXCEPT ![d] = r[3]] /\ Fresh
       /\ Same(<<P, T, TP, M, I, cell, clo>>)
       /\ Log("ap", d, s, 0, 0)

\* S[s][i] = fresh
SetElem ==
  \E s \in NS : S[s].len > 0 /\
  \E i \in 0..(S[s].len - 1) :
       /\ arr' = SetAt(arr, S[s].a, S[s].off + i + 1, next) /\ Fresh
       /\ Same(<<narr, S, P, T, TP, M, I, cell, clo>>)
       /\ Log("se", s, i, 0, 0)

\* P[p] = &S[s][i]
PtrElem ==
  \E p \in NP, s \in NS : S[s].len > 0 /\
  \E i \in 0..(S[s].len - 1) :
       /\ P' = [P EXCEPT ![p] = [k |-> "elem", a |-> S[s].a, i |-> S[s].off + i + 1]]
       /\ Same(<<arr, narr, S, T, TP, M, I, cell, clo, next>>)
       /\ Log("pe", p, s, i, 0)

WriteVia(p, v) ==
  IF p.k = "elem" THEN arr' = SetAt(arr, p.a, p.i, v) /\ cell' = cell
  ELSE arr' = arr /\ cell' = [cell EXCEPT ![p.a] = v]

\* *P[p] = fresh
PtrWrite ==
  \E p \in NP : P[p].k # "nil" /\
       /\ WriteVia(P[p], next) /\ Fresh
       /\ Same(<<narr, S, P, T, TP, M, I, clo>>)
       /\ Log("pw", p, 0, 0, 0)

\* T[t] = Box{N: fresh, Ref: P[p], View: S[s]}
TSet ==
  /\ Full
  /\ \E t \in NT, s \in NS, p \in NP :
       /\ S[s].a # 0 /\ (P[p].k # "nil" \/ p = 1)
       /\ T' = [T EXCEPT ![t] = [n |-> next, ref |-> P[p], view |-> S[s]]] /\ Fresh
       /\ Same(<<arr, narr, S, P, TP, M, I, cell, clo>>)
       /\ Log("ts", t, s, p, 0)
\* T[2] = T[1]  (value copy: the view and the pointer are shared)
TCopy ==
  /\ Full /\ T[1] # T[2]
  /\ T' = [T EXCEPT ![2] = T[1]]
  /\ Same(<<arr, narr, S, P, TP, M, I, cell, clo, next>>)
  /\ Log("tc", 0, 0, 0, 0)
\* T[t].View[0] = fresh
TViewSet ==
  /\ Full
  /\ \E t \in NT : T[t].view.len > 0 /\
       /\ arr' = SetAt(arr, T[t].view.a, T[t].view.off + 1, next) /\ Fresh
       /\ Same(<<narr, S, P, T, TP, M, I, cell, clo>>)
       /\ Log("tv", t, 0, 0, 0)
\* T[t].View = append(T[t].View, fresh)
TAppend ==
  /\ Full /\ Room
  /\ \E t \in NT :
       LET r == App(arr, narr, T[t].view, next) IN
       /\ arr' = r[1] /\ narr' = r[2] /\ T' = [T EXCEPT ![t].view = r[3]] /\ Fresh
       /\ Same(<<S, P, TP, M, I, cell, clo>>)
       /\ Log("ta", t, 0, 0, 0)
\* TP = &T[t] ; TP.N = fresh
TPSet ==
  /\ Full
  /\ \E t \in NT : TP # t /\ TP' = t
       /\ Same(<<arr, narr, S, P, T, M, I, cell, clo, next>>)
       /\ Log("tp", t, 0, 0, 0)
TPWrite ==
  /\ Full /\ TP # 0
  /\ T' = [T EXCEPT ![TP].n = next] /\ Fresh
  /\ Same(<<arr, narr, S, P, TP, M, I, cell, clo>>)
  /\ Log("tn", 0, 0, 0, 0)

\* M[k] = S[s] ; M[k] = append(M[k], fresh) ; M[k][0] = fresh ; delete(M, k)
MSet ==
  /\ Full
  /\ \E k \in Keys, s \in NS :
       /\ S[s].a # 0
       /\ M' = [M EXCEPT ![k] = [has |-> TRUE, s |-> S[s]]]
       /\ Same(<<arr, narr, S, P, T, TP, I, cell, clo, next>>)
       /\ Log("ms", k, s, 0, 0)
MAppend ==
  /\ Full /\ Room
  /\ \E k \in Keys : M[k].has /\
       LET r == App(arr, narr, M[k].s, next) IN
       /\ arr' = r[1] /\ narr' = r[2] /\ M' = [M EXCEPT ![k].s = r[3]] /\ Fresh
       /\ Same(<<S, P, T, TP, I, cell, clo>>)
       /\ Log("ma", k, 0, 0, 0)
MElem ==
  /\ Full
  /\ \E k \in Keys : M[k].has /\ M[k].s.len > 0 /\
       /\ arr' = SetAt(arr, M[k].s.a, M[k].s.off + 1, next) /\ Fresh
       /\ Same(<<narr, S, P, T, TP, M, I, cell, clo>>)
       /\ Log("me", k, 0, 0, 0)
MDel ==
  /\ Full
  /\ \E k \in Keys : M[k].has /\
       /\ M' = [M EXCEPT ![k] = [has |-> FALSE, s |-> NilS]]
       /\ Same(<<arr, narr, S, P, T, TP, I, cell, clo, next>>)
       /\ Log("md", k, 0, 0, 0)

\* I = S[s] / P[p] / T[t] ; I = append(I.([]int), fresh) ; write through I
IBoxS == Full /\ \E s \in NS : S[s].a # 0 /\ I' = [NilI EXCEPT !.k = "slice", !.s = S[s]]
            /\ Same(<<arr, narr, S, P, T, TP, M, cell, clo, next>>) /\ Log("ib", s, 0, 0, 0)
IBoxP == Full /\ \E p \in NP : P[p].k # "nil" /\ I' = [NilI EXCEPT !.k = "ptr", !.p = P[p]]
            /\ Same(<<arr, narr, S, P, T, TP, M, cell, clo, next>>) /\ Log("ip", p, 0, 0, 0)
IBoxT == Full /\ \E t \in NT : T[t] # NilT /\ I' = [NilI EXCEPT !.k = "box", !.b = T[t]]
            /\ Same(<<arr, narr, S, P, T, TP, M, cell, clo, next>>) /\ Log("it", t, 0, 0, 0)
IAppend ==
  /\ Full /\ Room /\ I.k = "slice"
  /\ LET r == App(arr, narr, I.s, next) IN
       /\ arr' = r[1] /\ narr' = r[2] /\ I' = [I EXCEPT !.s = r[3]] /\ Fresh
  /\ Same(<<S, P, T, TP, M, cell, clo>>)
  /\ Log("ia", 0, 0, 0, 0)
IWrite ==
  /\ Full
  /\ \/ I.k = "ptr" /\ WriteVia(I.p, next)
     \/ I.k = "slice" /\ I.s.len > 0 /\ arr' = SetAt(arr, I.s.a, I.s.off + 1, next) /\ cell' = cell
     \/ I.k = "box" /\ I.b.view.len > 0 /\ arr' = SetAt(arr, I.b.view.a, I.b.view.off + 1, next) /\ cell' = cell
  /\ Fresh
  /\ Same(<<narr, S, P, T, TP, M, I, clo>>)
  /\ Log("iw", 0, 0, 0, 0)

\* closures sharing one captured variable; a pointer to it
CMake ==
  /\ Full /\ clo < 2
  /\ clo' = clo + 1 /\ cell' = [cell EXCEPT ![clo + 1] = next] /\ Fresh
  /\ Same(<<arr, narr, S, P, T, TP, M, I>>)
  /\ Log("cm", 0, 0, 0, 0)
CInc ==
  /\ Full /\ clo # 0
  /\ cell' = [cell EXCEPT ![clo] = @ + 1]
  /\ Same(<<arr, narr, S, P, T, TP, M, I, clo, next>>)
  /\ Log("ci", 0, 0, 0, 0)
CPtr ==
  /\ Full /\ clo # 0
  /\ \E p \in NP : P' = [P EXCEPT ![p] = [k |-> "cell", a |-> clo, i |-> 0]]
       /\ Same(<<arr, narr, S, T, TP, M, I, cell, clo, next>>)
       /\ Log("cp", p, 0, 0, 0)

\* the behaviour is complete (a step with exactly one successor, so that simulation prints it once)
Done == Len(hist) = MaxLen /\ ~fin /\ fin' = TRUE
        /\ UNCHANGED <<arr, narr, S, P, T, TP, M, I, cell, clo, next, hist, ph, ma, mt>>

Step ==
  \/ MakeSlice \/ Reslice \/ AppendS \/ SetElem \/ PtrElem \/ PtrWrite
  \/ TSet \/ TCopy \/ TViewSet \/ TAppend \/ TPSet \/ TPWrite
  \/ MSet \/ MAppend \/ MElem \/ MDel
  \/ IBoxS \/ IBoxP \/ IBoxT \/ IAppend \/ IWrite
  \/ CMake \/ CInc \/ CPtr
\* ---- the monitor (a function of the step; it constrains nothing unless Directed)
SViews(SS, x) == {v \in NS : SS[v].a = x}
\* references to array x other than the view of T[t]
OtherRefs(x, t) ==
  (\E v \in NS : S'[v].a = x) \/ (\E p \in NP : P'[p].k = "elem" /\ P'[p].a = x)
  \/ (\E u \in NT : u # t /\ T'[u].view.a = x) \/ (\E u \in NT : T'[u].ref.k = "elem" /\ T'[u].ref.a = x)
  \/ (\E k \in Keys : M'[k].has /\ M'[k].s.a = x) \/ I'.s.a = x \/ I'.b.view.a = x
  \/ (I'.p.k = "elem" /\ I'.p.a = x) \/ (I'.b.ref.k = "elem" /\ I'.b.ref.a = x)
Mon ==
  IF ph = 0 THEN
       LET X == {x \in 1..narr' : Cardinality(SViews(S', x)) >= 2}
       IN IF X # {} THEN ph' = 1 /\ ma' = (CHOOSE x \in X : TRUE) /\ mt' = 0 ELSE UNCHANGED <<ph, ma, mt>>
  ELSE IF ph = 1 THEN
       IF Cardinality(SViews(S', ma)) < 2 THEN ph' = 0 /\ ma' = 0 /\ mt' = 0
       ELSE IF \E t \in NT : T'[t] # T[t] /\ T'[t].view.a = ma
            THEN ph' = 2 /\ ma' = ma /\ mt' = (CHOOSE t \in NT : T'[t] # T[t] /\ T'[t].view.a = ma)
            ELSE UNCHANGED <<ph, ma, mt>>
  ELSE IF ph = 2 THEN
       IF T'[mt].view.a # ma THEN ph' = 0 /\ ma' = 0 /\ mt' = 0
       ELSE IF ~OtherRefs(ma, mt) THEN ph' = 3 /\ UNCHANGED <<ma, mt>>
       ELSE UNCHANGED <<ph, ma, mt>>
  ELSE UNCHANGED <<ph, ma, mt>>

\* Directed walks: slice calls only until an array is shared, then the new Box over it, then the
\* slice variables that still view it are re-made; afterwards the walk is free.
Steer ==
  IF ~Directed \/ ph = 3 THEN Step
  ELSE IF ph = 0 THEN MakeSlice \/ Reslice \/ AppendS \/ SetElem
  ELSE IF ph = 1 THEN TSet /\ \E t \in NT : T'[t] # T[t] /\ T'[t].view.a = ma
  ELSE MakeSlice /\ \E v \in SViews(S, ma) : S'[v] # S[v]

\* nothing but make() is useful before the first backing array exists
Next == Done \/ (Len(hist) < MaxLen /\ UNCHANGED fin /\ (IF narr = 0 THEN MakeSlice ELSE Steer) /\ Mon)
Spec == Init /\ [][Next]_vars

\* every view and pointer stays inside an allocated array
InRange(s) == s.a = 0 \/ (s.a <= narr /\ s.off >= 0 /\ s.len <= s.cap /\ s.off + s.cap <= Len(arr[s.a]))
PtrOK(p) == p.k # "elem" \/ (p.a <= narr /\ p.i >= 1 /\ p.i <= Len(arr[p.a]))
WellFormed ==
  /\ \A i \in NS : InRange(S[i])
  /\ \A i \in NP : PtrOK(P[i])
  /\ \A i \in NT : InRange(T[i].view) /\ PtrOK(T[i].ref)
  /\ \A k \in Keys : InRange(M[k].s)
  /\ InRange(I.s) /\ PtrOK(I.p) /\ InRange(I.b.view)

Emit == PrintT(<<"TRACE", ToJson(hist)>>)
\* a directed walk is printed only when it went through the whole pattern
EmitAtEnd == ~fin \/ (Directed /\ ph # 3) \/ Emit
EmitEdge == hist' = hist \/ PrintT(<<"EDGE", ToJson(hist')>>)
=============================================================================
