CONSTANTS
  Realms <- MRealms
  RealmOrder <- MOrder
  Accounts <- MAccounts
  Collector = "coll"
  DefaultLimit = 8
  DiffVals <- MDiffs
  ParamVals <- MParams
  PriceVals = {1, 2, 3}
  LimitVals = {0, 2, 5}
  MaxLen = 2
  InitBal = 10
INIT Init
NEXT Next
VIEW view
INVARIANTS DepositBacked NonNegative FreeAllRefundsAll StorageIsSum
PROPERTIES TooSmallLimitFails ChargedAtMsgStartPrice Conserved
CHECK_DEADLOCK FALSE
