---------------------------- MODULE CrashRecoveryTrace ----------------------------
(* (V) for C33: every line is one crash experiment on a REAL node (harness/cmd/crashrec):
   the k-th persistent write of a short run (block store, state store, application, WAL,
   signer), crash before or after it, media projection at the crash, projection after
   Handshake + WAL catch-up, and after continuing. Held to CrashRecovery.tla:
     shape      the media state at the crash is one the write order allows
     handshake  that state is a covered handshake case and recovery brought store = state = app
     continue   the restarted node committed further heights
     samechain  the application hash at the final height equals the crash-free run's      *)
EXTENDS CrashRecoveryOps, Json, Sequences, TLC

TheTrace == ndJsonDeserialize("crashrec_trace.ndjson")
VARIABLES l, viol
tvars == <<l, viol>>

Ref == TheTrace[1].ref
TraceInit == l = 2 /\ viol = {} /\ TheTrace[1].act = "Init"

Ln == TheTrace[l]
Has(rec, f) == f \in DOMAIN rec

TStep ==
  /\ l <= Len(TheTrace) /\ Ln.act = "CrashPoint"
  /\ LET e == Ln IN
     IF ~e.reached
     THEN viol' = {}
     ELSE LET b == e.before
              gBoot == ~Has(e, "error")
              gShape == \E rr \in {b.state, b.store} : CrashShape(b.store, e.wal_end, rr, b.app, b.state)
              gHandshake == /\ HandshakeOK(b.store, b.state, b.app)
                            /\ ~Has(e, "recover_error")
                            /\ Has(e, "after_recover")
                            \* (the WAL catch-up may already have completed the height in progress)
                            /\ e.after_recover.store >= b.store /\ e.after_recover.state = e.after_recover.store /\ e.after_recover.app = e.after_recover.store
              gContinue == Has(e, "continued") /\ e.continued /\ ~Has(e, "continue_panic")
                           /\ Has(e, "final") /\ e.final.store >= e.goal
                           /\ e.final.store = e.final.state /\ e.final.app = e.final.state
              gSameChain == Has(e, "final") /\ e.final.app > 0 =>
                              (ToString(e.final.app) \in DOMAIN Ref /\ Ref[ToString(e.final.app)] = e.final.apphash)
          IN viol' = (IF gBoot THEN {} ELSE {"boot-failed-before-crash-point"})
                     \cup (IF gShape THEN {} ELSE {"media-state-not-allowed-by-write-order"})
                     \cup (IF ~gBoot \/ gHandshake THEN {} ELSE {"recovery-failed-or-inconsistent"})
                     \cup (IF ~gBoot \/ ~gHandshake \/ gContinue THEN {} ELSE {"node-does-not-continue-after-recovery"})
                     \cup (IF gSameChain THEN {} ELSE {"different-chain-after-recovery"})
  /\ l' = l + 1

TraceNext == TStep
GuardsHold == viol = {}
=============================================================================
