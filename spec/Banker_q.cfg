CONSTANTS
  FromCheck = TRUE
  CurrentCheck = TRUE
  OriginDecrement = TRUE
  OriginTotal = TRUE
  DenomCheck = TRUE
  MaxTx = 1
  MaxOps = 3
INIT Init
NEXT Next
INVARIANTS InvDecrease InvDenom InvCapsNeedGrant InvOriginNet
