CONSTANTS
  Users <- MCUsers
  Others <- MCOthers
  Vars <- MCVars
  GasNeeds <- MCGasNeeds
  FlushFirst = FALSE
  MaxTxs = 3
  MaxBlocks = 2
INIT MCInit
NEXT MCNext
INVARIANTS SomeNoBlockGas
