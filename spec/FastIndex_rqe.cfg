CONSTANTS
  Keys <- K2
  Vals <- V2
  MaxVer = 3
  Direct = FALSE
  Keep = 1
  NLoads = 0
  Abandon = TRUE
  Toggle = TRUE
  RemoveDeletesEntry = TRUE
  VersionGuard = TRUE
  StampGate = TRUE
  ReaderMaintains = FALSE
  StampAheadRebuilds = FALSE
  MaxLen = 6
INIT Init
NEXT Next
VIEW StateView
INVARIANTS TypeOK LiveSound ImmSound QuerySound ReaderSound StampNeverAhead
PROPERTIES LoaderLeavesDisk
ACTION_CONSTRAINT EmitEdge
