CONSTANTS
  NK <- NKq
  Extras <- ExtrasQ
  MaxNel = 2
  MaxLen = 4
INIT Init
NEXT Next
VIEW View
INVARIANTS TypeOK AlgoIsProperty HonestExact NoForgery MarkedAllValid
ACTION_CONSTRAINT EmitEdge
