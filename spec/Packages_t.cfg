CONSTANTS
  BadPaths <- BadFew
  FileSets <- FsAll
  Kinds <- KindsFew
  MaxLen = 7
  Quiet = TRUE
INIT Init
NEXT Next
VIEW View
INVARIANTS TypeOK OnlyAuthorizedNamespace OnlyValidStored ImportsResolved
PROPERTIES PublicImmutable PrivateStaysPrivate PStateFrozen

