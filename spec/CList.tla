---------------------------- MODULE CList ----------------------------
(* C49. tm2/pkg/clist/clist.go at LOCK granularity: every action below is one critical section
   of the code (the span under one element's mtx, or the part of PushBack / Remove that only
   touches list-level fields while l.mtx is held, which no other goroutine can observe).

     PushBack : PushLock (l.mtx.Lock; new element; wg.Done on empty->non-empty; len++; empty list:
                head=tail=e | else e.SetPrev(tail))  ->  PushSetNext (tail.SetNext(e): tail.mtx)
                ->  PushSetTail (l.tail = e; l.mtx.Unlock)
     Remove   : RemLock (l.mtx.Lock; e.Prev(); e.Next(); sanity panics; new l.wg if len = 1; len--)
                -> RemLink1 (head = next | prev.SetNext(next)) -> RemLink2 (tail = prev | next.SetPrev(prev))
                -> RemSetRemoved (e.SetRemoved) -> RemUnlock -> RemDetach (e.DetachPrev(), as the mempool does)
     FrontWait: TFront (l.mtx.RLock: head, wg) -> TFWait (wg.Wait())
     NextWait : TNext (e.mtx.RLock: next, nextWg, removed) -> TNWait (nextWg.Wait())
     NextWaitChan + Next (the mempool reactor's pattern): TChan (e.mtx.RLock: nextWaitCh) -> TCWait -> TCNext

   sync.WaitGroup(1) and the channel closed next to every wg.Done are one-shot latches: a latch is a
   generation number (ngen[e], lgen), "done" generations are remembered (ndone[e], ldone); SetNext
   non-nil -> nil and Remove of the last element REPLACE the latch (generation + 1) exactly as the code
   does; Done on a done latch is Go's "sync: negative WaitGroup counter" panic (variable `panic`).

   The ghost variable `abs` is the abstract list of CListSeq.tla, updated at the linearisation point of
   each writer (PushLock for an empty list, PushSetNext otherwise; RemLink1).  Properties:
     Refinement  : what a reader can read (next[e], head, len) equals what CListSeq answers, always
                   => linearisable w.r.t. the sequential spec with those linearisation points;
     LiveNextLive: the next of a non-removed element is never a removed element;
     WakeupDelivered / NoLostWakeup: a goroutine parked in Wait whose condition (next # nil or removed,
                   resp. head # nil) has become true holds a latch that is done / eventually runs;
     NoPanic.
   The Bug* constants switch single lines of the code off (model mutants; all FALSE = the code).  *)
EXTENDS CListSeq, TLC

CONSTANTS N,            \* number of elements pushed (ids 1..N in push order)
          Removers,     \* set of remover process ids
          Trav,         \* set of traverser process ids
          ChanTrav,     \* subset of Trav using NextWaitChan()+Next() instead of NextWait()
          BugNoReplaceWg,    \* SetNext does not replace nextWg on non-nil -> nil
          BugNoSetRemoved,   \* Remove does not call SetRemoved
          BugNoWakeOnRemove, \* SetRemoved does not Done nextWg when next = nil
          BugNoRelink        \* Remove does not call prev.SetNext(next)

Elems == 1..N

VARIABLES next, prev, removed,        \* per element (0 = nil)
          ngen, ndone,                \* next-side latch: current generation / done generations
          pdone,                      \* prev-side latch (current generation only): done?
          head, tail, len, lgen, ldone,
          lmtx,                       \* "" or the process holding l.mtx for writing
          created, claimed,           \* elements created / handed to a remover
          ppc, pe,                    \* pusher
          rpc, re, rprev, rnext,      \* removers
          tpc, tcur, theld,           \* traversers
          panic,
          abs                         \* ghost: CListSeq value

evars == <<next, prev, removed, ngen, ndone, pdone>>
lvars == <<head, tail, len, lgen, ldone>>
pvars == <<ppc, pe>>
rvars == <<rpc, re, rprev, rnext>>
tvars == <<tpc, tcur, theld>>
vars == <<evars, lvars, lmtx, created, claimed, pvars, rvars, tvars, panic, abs>>

Init ==
  /\ next = [e \in Elems |-> 0] /\ prev = [e \in Elems |-> 0] /\ removed = [e \in Elems |-> FALSE]
  /\ ngen = [e \in Elems |-> 0] /\ ndone = [e \in Elems |-> {}] /\ pdone = [e \in Elems |-> FALSE]
  /\ head = 0 /\ tail = 0 /\ len = 0 /\ lgen = 0 /\ ldone = {}
  /\ lmtx = "" /\ created = 0 /\ claimed = {}
  /\ ppc = "idle" /\ pe = 0
  /\ rpc = [r \in Removers |-> "idle"] /\ re = [r \in Removers |-> 0]
  /\ rprev = [r \in Removers |-> 0] /\ rnext = [r \in Removers |-> 0]
  /\ tpc = [t \in Trav |-> "front"] /\ tcur = [t \in Trav |-> 0] /\ theld = [t \in Trav |-> 0]
  /\ panic = ""
  /\ abs = SeqInit

Running == panic = ""

\* ---------------------------------------------------------------- CElement.SetNext / SetPrev (e.mtx)
\* effect of e.SetNext(new) as a record of the new values
SetNextEff(e, new) ==
  LET old == next[e] IN
  [next |-> [next EXCEPT ![e] = new],
   ngen |-> IF old # 0 /\ new = 0 /\ ~BugNoReplaceWg THEN [ngen EXCEPT ![e] = @ + 1] ELSE ngen,
   ndone |-> IF old = 0 /\ new # 0 THEN [ndone EXCEPT ![e] = @ \cup {ngen[e]}] ELSE ndone,
   panic |-> IF old = 0 /\ new # 0 /\ ngen[e] \in ndone[e] THEN "sync: negative WaitGroup counter (nextWg)" ELSE ""]
SetPrevEff(e, new) ==
  LET old == prev[e] IN
  [prev |-> [prev EXCEPT ![e] = new],
   pdone |-> IF old # 0 /\ new = 0 THEN [pdone EXCEPT ![e] = FALSE]
             ELSE IF old = 0 /\ new # 0 THEN [pdone EXCEPT ![e] = TRUE] ELSE pdone,
   panic |-> IF old = 0 /\ new # 0 /\ pdone[e] THEN "sync: negative WaitGroup counter (prevWg)" ELSE ""]

\* ---------------------------------------------------------------- PushBack
PushLock ==
  /\ Running /\ ppc = "idle" /\ created < N /\ lmtx = ""
  /\ LET e == created + 1 IN
     /\ created' = e /\ lmtx' = "p" /\ pe' = e
     /\ len' = len + 1
     /\ IF len = 0
        THEN IF lgen \in ldone THEN panic' = "sync: negative WaitGroup counter (l.wg)" /\ UNCHANGED ldone
             ELSE ldone' = ldone \cup {lgen} /\ UNCHANGED panic
        ELSE UNCHANGED <<ldone, panic>>
     /\ IF tail = 0
        THEN /\ head' = e /\ tail' = e /\ abs' = SeqPushBack(abs, e) /\ ppc' = "unlock"
             /\ UNCHANGED <<prev, pdone>>
        ELSE \* e.SetPrev(l.tail): e is not reachable yet
             /\ prev' = [prev EXCEPT ![e] = tail] /\ pdone' = [pdone EXCEPT ![e] = TRUE]
             /\ ppc' = "setnext" /\ UNCHANGED <<head, tail, abs>>
  /\ UNCHANGED <<next, removed, ngen, ndone, lgen, claimed, rvars, tvars>>

PushSetNext ==
  /\ Running /\ ppc = "setnext"
  /\ LET eff == SetNextEff(tail, pe) IN
     /\ next' = eff.next /\ ngen' = eff.ngen /\ ndone' = eff.ndone /\ panic' = eff.panic
  /\ abs' = SeqPushBack(abs, pe)          \* linearisation point: e becomes reachable
  /\ ppc' = "settail"
  /\ UNCHANGED <<prev, removed, pdone, lvars, lmtx, created, claimed, pe, rvars, tvars>>

PushSetTail ==
  /\ Running /\ ppc = "settail"
  /\ tail' = pe /\ lmtx' = "" /\ ppc' = "idle"
  /\ UNCHANGED <<evars, head, len, lgen, ldone, created, claimed, pe, rvars, tvars, panic, abs>>

PushUnlock ==
  /\ Running /\ ppc = "unlock"
  /\ lmtx' = "" /\ ppc' = "idle"
  /\ UNCHANGED <<evars, lvars, created, claimed, pe, rvars, tvars, panic, abs>>

\* ---------------------------------------------------------------- Remove (+ DetachPrev)
RemLock(r, e) ==
  /\ Running /\ rpc[r] = "idle" /\ lmtx = "" /\ e \in 1..created /\ e \notin claimed
  /\ claimed' = claimed \cup {e} /\ lmtx' = r
  /\ re' = [re EXCEPT ![r] = e] /\ rprev' = [rprev EXCEPT ![r] = prev[e]] /\ rnext' = [rnext EXCEPT ![r] = next[e]]
  /\ panic' = IF head = 0 \/ tail = 0 THEN "Remove(e) on empty CList"
              ELSE IF prev[e] = 0 /\ head # e THEN "Remove(e) with false head"
              ELSE IF next[e] = 0 /\ tail # e THEN "Remove(e) with false tail" ELSE ""
  /\ lgen' = IF len = 1 THEN lgen + 1 ELSE lgen
  /\ len' = len - 1
  /\ rpc' = [rpc EXCEPT ![r] = "link1"]
  /\ UNCHANGED <<evars, head, tail, ldone, created, pvars, tvars, abs>>

RemLink1(r) ==
  /\ Running /\ rpc[r] = "link1"
  /\ IF rprev[r] = 0
     THEN head' = rnext[r] /\ UNCHANGED <<next, ngen, ndone, panic>>
     ELSE IF BugNoRelink THEN UNCHANGED <<head, next, ngen, ndone, panic>>
     ELSE LET eff == SetNextEff(rprev[r], rnext[r]) IN
          /\ next' = eff.next /\ ngen' = eff.ngen /\ ndone' = eff.ndone /\ panic' = eff.panic
          /\ UNCHANGED head
  /\ abs' = SeqRemove(abs, re[r])         \* linearisation point: e is unlinked
  /\ rpc' = [rpc EXCEPT ![r] = "link2"]
  /\ UNCHANGED <<prev, removed, pdone, tail, len, lgen, ldone, lmtx, created, claimed, pvars, re, rprev, rnext, tvars>>

RemLink2(r) ==
  /\ Running /\ rpc[r] = "link2"
  /\ IF rnext[r] = 0
     THEN tail' = rprev[r] /\ UNCHANGED <<prev, pdone, panic>>
     ELSE LET eff == SetPrevEff(rnext[r], rprev[r]) IN
          /\ prev' = eff.prev /\ pdone' = eff.pdone /\ panic' = eff.panic /\ UNCHANGED tail
  /\ rpc' = [rpc EXCEPT ![r] = "setremoved"]
  /\ UNCHANGED <<next, removed, ngen, ndone, head, len, lgen, ldone, lmtx, created, claimed, pvars, re, rprev, rnext, tvars, abs>>

RemSetRemoved(r) ==
  /\ Running /\ rpc[r] = "setremoved"
  /\ LET e == re[r] IN
     IF BugNoSetRemoved THEN UNCHANGED <<removed, pdone, ndone, panic>>
     ELSE /\ removed' = [removed EXCEPT ![e] = TRUE]
          /\ pdone' = IF prev[e] = 0 THEN [pdone EXCEPT ![e] = TRUE] ELSE pdone
          /\ ndone' = IF next[e] = 0 /\ ~BugNoWakeOnRemove THEN [ndone EXCEPT ![e] = @ \cup {ngen[e]}] ELSE ndone
          /\ panic' = IF prev[e] = 0 /\ pdone[e] THEN "sync: negative WaitGroup counter (prevWg, SetRemoved)"
                      ELSE IF next[e] = 0 /\ ~BugNoWakeOnRemove /\ ngen[e] \in ndone[e] THEN "sync: negative WaitGroup counter (nextWg, SetRemoved)"
                      ELSE ""
  /\ rpc' = [rpc EXCEPT ![r] = "unlock"]
  /\ UNCHANGED <<next, prev, ngen, lvars, lmtx, created, claimed, pvars, re, rprev, rnext, tvars, abs>>

RemUnlock(r) ==
  /\ Running /\ rpc[r] = "unlock"
  /\ lmtx' = "" /\ rpc' = [rpc EXCEPT ![r] = "detach"]
  /\ UNCHANGED <<evars, lvars, created, claimed, pvars, re, rprev, rnext, tvars, panic, abs>>

RemDetach(r) ==
  /\ Running /\ rpc[r] = "detach"
  /\ IF removed[re[r]] THEN prev' = [prev EXCEPT ![re[r]] = 0] /\ UNCHANGED panic
     ELSE panic' = "DetachPrev() must be called after Remove(e)" /\ UNCHANGED prev
  /\ rpc' = [rpc EXCEPT ![r] = "idle"]
  /\ UNCHANGED <<next, removed, ngen, ndone, pdone, lvars, lmtx, created, claimed, pvars, re, rprev, rnext, tvars, abs>>

\* ---------------------------------------------------------------- traversers
\* FrontWait, one loop iteration: RLock is only granted while no writer holds l.mtx
TFront(t) ==
  /\ Running /\ tpc[t] = "front" /\ lmtx = ""
  /\ IF head # 0
     THEN /\ tcur' = [tcur EXCEPT ![t] = head]
          /\ tpc' = [tpc EXCEPT ![t] = IF t \in ChanTrav THEN "chan" ELSE "next"] /\ UNCHANGED theld
     ELSE /\ theld' = [theld EXCEPT ![t] = lgen] /\ tpc' = [tpc EXCEPT ![t] = "fwait"] /\ UNCHANGED tcur
  /\ UNCHANGED <<evars, lvars, lmtx, created, claimed, pvars, rvars, panic, abs>>

TFWait(t) ==
  /\ Running /\ tpc[t] = "fwait" /\ theld[t] \in ldone
  /\ tpc' = [tpc EXCEPT ![t] = "front"]
  /\ UNCHANGED <<evars, lvars, lmtx, created, claimed, pvars, rvars, tcur, theld, panic, abs>>

\* NextWait, one loop iteration
TNext(t) ==
  /\ Running /\ tpc[t] = "next"
  /\ LET c == tcur[t] IN
     IF next[c] # 0 \/ removed[c]
     THEN \* returns next[c]; nil => this traversal is over, start again from the front (reactor)
          /\ IF next[c] = 0 THEN tpc' = [tpc EXCEPT ![t] = "front"] /\ UNCHANGED tcur
             ELSE tcur' = [tcur EXCEPT ![t] = next[c]] /\ UNCHANGED tpc
          /\ UNCHANGED theld
     ELSE /\ theld' = [theld EXCEPT ![t] = ngen[c]] /\ tpc' = [tpc EXCEPT ![t] = "nwait"] /\ UNCHANGED tcur
  /\ UNCHANGED <<evars, lvars, lmtx, created, claimed, pvars, rvars, panic, abs>>

TNWait(t) ==
  /\ Running /\ tpc[t] = "nwait" /\ theld[t] \in ndone[tcur[t]]
  /\ tpc' = [tpc EXCEPT ![t] = "next"]
  /\ UNCHANGED <<evars, lvars, lmtx, created, claimed, pvars, rvars, tcur, theld, panic, abs>>

\* the reactor: <-e.NextWaitChan(); next = e.Next(); if next == nil start again from the front
TChan(t) ==
  /\ Running /\ tpc[t] = "chan"
  /\ theld' = [theld EXCEPT ![t] = ngen[tcur[t]]] /\ tpc' = [tpc EXCEPT ![t] = "cwait"]
  /\ UNCHANGED <<evars, lvars, lmtx, created, claimed, pvars, rvars, tcur, panic, abs>>
TCWait(t) ==
  /\ Running /\ tpc[t] = "cwait" /\ theld[t] \in ndone[tcur[t]]
  /\ tpc' = [tpc EXCEPT ![t] = "cnext"]
  /\ UNCHANGED <<evars, lvars, lmtx, created, claimed, pvars, rvars, tcur, theld, panic, abs>>
TCNext(t) ==
  /\ Running /\ tpc[t] = "cnext"
  /\ IF next[tcur[t]] = 0 THEN tpc' = [tpc EXCEPT ![t] = "front"] /\ UNCHANGED tcur
     ELSE tcur' = [tcur EXCEPT ![t] = next[tcur[t]]] /\ tpc' = [tpc EXCEPT ![t] = "chan"]
  /\ UNCHANGED <<evars, lvars, lmtx, created, claimed, pvars, rvars, theld, panic, abs>>

Pusher == PushLock \/ PushSetNext \/ PushSetTail \/ PushUnlock
Remover(r) == (\E e \in Elems : RemLock(r, e)) \/ RemLink1(r) \/ RemLink2(r) \/ RemSetRemoved(r) \/ RemUnlock(r) \/ RemDetach(r)
Traverser(t) == TFront(t) \/ TFWait(t) \/ TNext(t) \/ TNWait(t) \/ TChan(t) \/ TCWait(t) \/ TCNext(t)
Next == Pusher \/ (\E r \in Removers : Remover(r)) \/ (\E t \in Trav : Traverser(t))

Fairness == /\ WF_vars(Pusher)
            /\ \A r \in Removers : WF_vars(RemLink1(r) \/ RemLink2(r) \/ RemSetRemoved(r) \/ RemUnlock(r) \/ RemDetach(r))
            /\ \A t \in Trav : WF_vars(Traverser(t))
Spec == Init /\ [][Next]_vars
LiveSpec == Spec /\ Fairness

\* ---------------------------------------------------------------- properties (C49)
Made == 1..created
TypeOK == /\ next \in [Elems -> 0..N] /\ prev \in [Elems -> 0..N] /\ head \in 0..N /\ tail \in 0..N
          /\ len \in 0..N /\ created \in 0..N /\ SeqOK(abs)
NoPanic == panic = ""
\* linearisability with fixed linearisation points: every read equals the sequential answer
RefNext == \A e \in Made : next[e] = SeqNext(abs, e)
RefFront == head = SeqFront(abs)
RefLen == lmtx = "" => len = SeqLen(abs)
RefRemoved == \A e \in Made : /\ (removed[e] => e \in abs.rem)
                               /\ ((e \in abs.rem /\ ~removed[e]) => (\E r \in Removers : re[r] = e /\ rpc[r] \in {"link2", "setremoved"}))
\* insertion order: ids are pushed in increasing order, so every forward pointer goes up
OrderOK == /\ \A i, j \in 1..Len(abs.live) : i < j => abs.live[i] < abs.live[j]
           /\ \A e \in Made : next[e] # 0 => next[e] > e
\* the next of a non-removed element is not a removed element
LiveNextLive == \A e \in Made : (~removed[e] /\ next[e] # 0) => ~removed[next[e]]
\* a traverser never stands on an element that does not exist, and NextWait returns nil only from a removed element
TravOK == \A t \in Trav : tpc[t] \in {"next", "nwait", "chan", "cwait", "cnext"} => tcur[t] \in Made
\* no lost wake-up, safety form: whoever is parked although its condition holds has a done latch in hand
NWaiting(t) == tpc[t] \in {"nwait", "cwait"}
NCond(t) == next[tcur[t]] # 0 \/ removed[tcur[t]]
WakeupDelivered == /\ \A t \in Trav : (NWaiting(t) /\ NCond(t)) => theld[t] \in ndone[tcur[t]]
                   /\ \A t \in Trav : (tpc[t] = "fwait" /\ head # 0) => theld[t] \in ldone
\* no lost wake-up, liveness form (under Fairness): a waiter whose element got a successor or was
\* removed (sequential-spec condition), resp. whose list became non-empty, eventually gets out of Wait
NoLostWakeup == /\ \A t \in Trav : (NWaiting(t) /\ CanNextWait(abs, tcur[t])) ~> ~NWaiting(t)
                /\ \A t \in Trav : (tpc[t] = "fwait" /\ CanFrontWait(abs)) ~> (tpc[t] # "fwait")
=============================================================================
