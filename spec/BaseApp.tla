---------------------------- MODULE BaseApp ----------------------------
(* C02 / C10 (and the ante part of C15, the conservation part of C14).
   The DeliverTx machine of tm2/pkg/sdk/baseapp.go runTx + tm2/pkg/sdk/auth/ante.go as the
   gno.land application wires it (gno.land/pkg/gnoland/app.go): one action per phase,
   because the properties are about WHICH PHASE'S WRITES SURVIVE.

     Begin   DeliverTx entry: "no block gas left" check                (baseapp.go 797-815)
     Ante    pass-through meter for the pre-ante reads, GasWanted <= MaxGas, SetGasMeter,
             signer lookup, fee deduction, signature + sequence check, sequence bump;
             an abort discards the tx layer (no write at all, not even the fee); success
             takes the Checkpoint                                    (ante.go; baseapp.go 905-942)
     Msg     one message on the tx layer; error / panic / out of gas => the layer is
             rolled back to the checkpoint (WriteCheckpoint)           (baseapp.go 957, 946-950)
     Charge  block gas verdict, THEN flush. This is the order the property requires
             ("exceeding the block gas limit" is a failure cause with ante-only effects).
             The code today flushes first and charges the block meter in a deferred
             function (DESIGN 8-F1); the spec does not adopt that (DESIGN 4.5).
     Finish  result returned

   Gas amounts are inputs (GasChoice): the exhaustive configs draw them from a small set,
   the trace spec binds them to the gas the real application reported.                  *)
EXTENDS Integers, Sequences, FiniteSets, TLC

CONSTANTS Users,        \* accounts that can sign (exist at genesis)
          Others,       \* further balance holders: unfunded user "z", "realm", "dep" (storage deposit), "coll" (fee collector)
          Vars,         \* realm variables
          GasNeeds,     \* possible gas amounts of one step when the environment leaves them free
          FlushFirst    \* FALSE = the order the property requires. TRUE = named deviation 8-F1 (flush, then charge the
                        \* block meter): used ONLY to classify an already rejected trace as that known defect, never to accept

Names == Users \cup Others
Kinds == {"send", "set", "inc", "setpanic", "setpay", "burn", "burnn", "redeploy", "grow", "growfail"}

VARIABLES bal, seq, rv,          \* deliver state (block-level overlay): balances, sequences, realm variables
          blockGas, maxGas,
          pc, tx, i, gas,        \* transaction in flight
          lbal, lseq, lrv,       \* tx layer (working copy)
          cbal, cseq, crv,       \* checkpoint taken after ante
          pre,                   \* deliver state when the tx started (ghost)
          anteOK,                \* ante passed for the tx in flight
          ginfo,                 \* gas environment of the tx in flight: [pre |-> gas of the metered pre-ante reads
                                 \*   (pass-through meter), total |-> -1 (steps draw from GasNeeds) or the total the tx must reach]
          res                    \* last result

dstate == <<bal, seq, rv>>
vars == <<bal, seq, rv, blockGas, maxGas, pc, tx, i, gas, lbal, lseq, lrv, cbal, cseq, crv, pre, anteOK, ginfo, res>>

NoTx == [signer |-> "none"]
NoRes == [ok |-> TRUE, why |-> "none", used |-> 0]
NoG == [pre |-> 0, total |-> -1]
GasChoice(g) == IF ginfo.total < 0 THEN GasNeeds ELSE {x \in {0, ginfo.total - g} : x >= 0}
PreGas == ginfo.pre

InitWith(b, s, r, mg) ==
  /\ bal = b /\ seq = s /\ rv = r
  /\ blockGas = 0 /\ maxGas = mg
  /\ pc = "idle" /\ tx = NoTx /\ i = 0 /\ gas = 0
  /\ lbal = b /\ lseq = s /\ lrv = r
  /\ cbal = b /\ cseq = s /\ crv = r
  /\ pre = <<b, s, r>>
  /\ anteOK = FALSE /\ ginfo = NoG
  /\ res = NoRes

BeginBlock ==
  /\ pc = "idle"
  /\ blockGas' = 0
  /\ UNCHANGED <<bal, seq, rv, maxGas, pc, tx, i, gas, lbal, lseq, lrv, cbal, cseq, crv, pre, anteOK, ginfo, res>>

\* DeliverTx entry
Begin(t, g) ==
  /\ pc = "idle"
  /\ tx' = t /\ ginfo' = g
  /\ pre' = <<bal, seq, rv>>
  /\ lbal' = bal /\ lseq' = seq /\ lrv' = rv
  /\ i' = 1 /\ gas' = 0 /\ anteOK' = FALSE
  /\ IF blockGas >= maxGas
     THEN pc' = "done" /\ res' = [ok |-> FALSE, why |-> "noblockgas", used |-> 0]
     ELSE pc' = "ante" /\ res' = NoRes
  /\ UNCHANGED <<bal, seq, rv, blockGas, maxGas, cbal, cseq, crv>>

\* auth ante handler behind gno.land's wrapper; an abort leaves NO writes
Ante ==
  /\ pc = "ante"
  /\ \E need \in GasChoice(gas) :
     LET s == tx.signer
         abort(why, used) ==
            /\ pc' = "charge" /\ res' = [ok |-> FALSE, why |-> why, used |-> used]
            /\ lbal' = bal /\ lseq' = seq /\ lrv' = rv
            /\ gas' = used /\ anteOK' = FALSE
            /\ UNCHANGED <<cbal, cseq, crv>>
     IN IF blockGas + PreGas > maxGas THEN abort("preoog", maxGas - blockGas + 1)   \* pass-through meter exhausted by the pre-ante reads
        ELSE IF tx.gw > maxGas THEN abort("gaswanted", PreGas)
        ELSE IF need > tx.gw THEN abort("oog_ante", PreGas)
        ELSE IF s \notin Users THEN abort("unknownaddr", PreGas)
        ELSE IF bal[s] < tx.fee THEN abort("fee", PreGas)
        ELSE IF ~tx.sigok \/ tx.seq # seq[s] THEN abort("sig", PreGas)
        ELSE /\ lbal' = [bal EXCEPT ![s] = @ - tx.fee, !["coll"] = @ + tx.fee]
             /\ lseq' = [seq EXCEPT ![s] = @ + 1]
             /\ lrv' = rv
             /\ cbal' = lbal' /\ cseq' = lseq' /\ crv' = lrv'   \* Checkpoint
             /\ gas' = need /\ anteOK' = TRUE
             /\ pc' = "msg" /\ UNCHANGED res
  /\ UNCHANGED <<bal, seq, rv, blockGas, maxGas, tx, i, pre, ginfo>>

\* one message; failure => roll the layer back to the checkpoint (ante effects only)
Msg ==
  /\ pc = "msg"
  /\ \E need \in GasChoice(gas) :
     LET m == tx.msgs[i]
         s == tx.signer
         g == gas + need
         fail(why) ==
            /\ lbal' = cbal /\ lseq' = cseq /\ lrv' = crv
            /\ pc' = "charge" /\ res' = [ok |-> FALSE, why |-> why, used |-> g]
         next == IF i = Len(tx.msgs)
                 THEN pc' = "charge" /\ res' = [ok |-> TRUE, why |-> "none", used |-> g]
                 ELSE pc' = "msg" /\ UNCHANGED res
     IN /\ gas' = g
        /\ IF g > tx.gw \/ m.kind = "burn" THEN fail("oog")
           ELSE IF m.kind \in {"send", "setpay"} /\ lbal[s] < m.amt THEN fail("funds")
           ELSE IF m.kind = "setpanic" THEN fail("panic")
           ELSE IF m.kind = "growfail" THEN fail("deposit")        \* storage grows beyond the message's MaxDeposit
           ELSE /\ CASE m.kind = "send" ->
                         /\ lbal' = [[lbal EXCEPT ![s] = @ - m.amt] EXCEPT ![m.to] = @ + m.amt]
                         /\ UNCHANGED lrv
                      [] m.kind = "set" ->
                         /\ lrv' = [lrv EXCEPT ![m.var] = m.val]
                         /\ lbal' = [[lbal EXCEPT ![s] = @ - m.dep] EXCEPT !["dep"] = @ + m.dep]
                      [] m.kind = "redeploy" ->    \* re-deployment of the private realm: its code version is state like any other
                         /\ lrv' = [lrv EXCEPT !["pv"] = m.val]
                         /\ lbal' = [[lbal EXCEPT ![s] = @ - m.dep] EXCEPT !["dep"] = @ + m.dep]
                      [] m.kind = "grow" ->        \* storage grows by m.val bytes, deposit locked from the caller
                         /\ lrv' = [lrv EXCEPT !["blob"] = @ + m.val]
                         /\ lbal' = [[lbal EXCEPT ![s] = @ - m.dep] EXCEPT !["dep"] = @ + m.dep]
                      [] m.kind = "inc" ->
                         /\ lrv' = [lrv EXCEPT ![m.var] = @ + 1]
                         /\ lbal' = [[lbal EXCEPT ![s] = @ - m.dep] EXCEPT !["dep"] = @ + m.dep]
                      [] m.kind = "burnn" ->       \* bounded gas filler, no state effect
                         UNCHANGED <<lrv, lbal>>
                      [] m.kind = "setpay" ->
                         /\ lrv' = [lrv EXCEPT ![m.var] = m.val]
                         /\ lbal' = [[[lbal EXCEPT ![s] = @ - m.amt - m.dep] EXCEPT !["realm"] = @ + m.amt] EXCEPT !["dep"] = @ + m.dep]
                /\ UNCHANGED lseq
                /\ next
        /\ i' = IF pc' = "msg" THEN i + 1 ELSE i
  /\ UNCHANGED <<bal, seq, rv, blockGas, maxGas, tx, cbal, cseq, crv, pre, anteOK, ginfo>>

Min(a, b) == IF a < b THEN a ELSE b

\* block gas verdict, THEN flush (the order the property requires), then charge
Charge ==
  /\ pc = "charge"
  /\ LET charged == IF anteOK THEN Min(gas, tx.gw)               \* GasConsumedToLimit of the tx meter
                    ELSE Min(gas, maxGas - blockGas)             \* ... of the pass-through meter
         over == anteOK /\ blockGas + charged > maxGas
         ok == res.ok /\ ~over
     IN /\ blockGas' = blockGas + charged
        /\ IF over /\ ~FlushFirst                \* crosses the block limit: ante effects only
           THEN bal' = cbal /\ seq' = cseq /\ rv' = crv
           ELSE bal' = lbal /\ seq' = lseq /\ rv' = lrv    \* full effects / ante-only / nothing, as the layer stands
        /\ res' = IF over THEN [ok |-> FALSE, why |-> "blockgas", used |-> res.used] ELSE res
  /\ pc' = "done"
  /\ UNCHANGED <<maxGas, tx, i, gas, lbal, lseq, lrv, cbal, cseq, crv, pre, anteOK, ginfo>>

Finish == /\ pc = "done" /\ pc' = "idle" /\ tx' = NoTx
          /\ UNCHANGED <<bal, seq, rv, blockGas, maxGas, i, gas, lbal, lseq, lrv, cbal, cseq, crv, pre, anteOK, ginfo, res>>

\* ------------------------- properties -------------------------
AnteRejected == res.why \in {"gaswanted", "oog_ante", "fee", "sig", "noblockgas", "unknownaddr", "preoog"}
AnteOnly(p, t) == <<[p[1] EXCEPT ![t.signer] = @ - t.fee, !["coll"] = @ + t.fee],
                    [p[2] EXCEPT ![t.signer] = @ + 1], p[3]>>

\* C02: failed => exactly the ante effects (or nothing when the ante handler itself rejected)
Atomic == pc = "done" /\ tx # NoTx /\ ~res.ok =>
            IF AnteRejected THEN dstate = pre ELSE dstate = AnteOnly(pre, tx)
\* C10: a successful tx used at most what it wanted; the block never exceeds its limit by a successful tx
GasUsedLeWanted == pc = "done" /\ tx # NoTx /\ res.ok => res.used <= tx.gw
OkWithinBlock == pc = "done" /\ tx # NoTx /\ res.ok => blockGas <= maxGas
\* C10: no transaction is processed once the block gas limit is exhausted
NoTxAfterExhausted == pc \in {"ante", "msg"} => blockGas < maxGas
\* C14 (ugnot, no mint/burn in this machine): total is conserved at rest
RECURSIVE SumBal(_, _)
SumBal(f, S) == IF S = {} THEN 0 ELSE LET a == CHOOSE z \in S : TRUE IN f[a] + SumBal(f, S \ {a})
Total == SumBal(bal, Names)
NonNegative == \A n \in Names : bal[n] >= 0
\* C15: sequences only move forward, by exactly one per accepted transaction
SeqStep == [][\A a \in Users : seq'[a] = seq[a] \/ (seq'[a] = seq[a] + 1 /\ a = tx.signer)]_vars
=============================================================================
