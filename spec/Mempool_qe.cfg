CONSTANTS
  Txs <- T2
  SizeOf <- Size2
  GasOf <- Gas2
  CfgSize = 2
  CfgMaxBytes = 3
  CacheSize = 1
  Recheck = TRUE
  InitMaxTx = 2
  MaxTxChoices <- MaxTx012
  BanChoices <- BanB
  MaxCommit = 1
  ReapBytes <- Reap12
  ReapGas <- Reap12
  MaxLen = 6
INIT Init
NEXT Next
VIEW View
INVARIANTS TypeOK NoDuplicates SizeWithinLimits CacheWellFormed
PROPERTIES StepProps
ACTION_CONSTRAINT EmitEdge
