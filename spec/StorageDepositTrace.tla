------------------------ MODULE StorageDepositTrace ------------------------
(* C09 (V): validates histories recorded from the REAL gno.land application
   (harness/cmd/storagedep) against StorageDeposit.tla. One NDJSON line per committed
   transaction (one VM message each):
     Init  {st}
     Msg   {caller, limit, fee, ok, setprice, setrestr, odiffs:{realm: bytes}, pdiffs:{realm: bytes}, st, [nodiffs]}
     Reset {}                      a new history (Init) follows
   odiffs / pdiffs = the per-realm byte deltas RE-DERIVED FROM THE RAW STORE (objects under the
   realm's id / its chain/params entries, key + value bytes as the params keeper counts them);
   for a failed message they are the deltas measured on its
   twin (same message, same realm state, well-funded caller, default limit).
   st = {storage, deposit (decoded from the raw realm record), odisk + pdisk (bytes on disk), dbal, bal,
   price, restricted} after the transaction. Every logged field is constrained: the message's
   verdict must be the spec's, every counter and balance exactly what the action yields, the
   price changes only by what the message wrote, and Realm.Storage = bytes on disk
   (StorageMatchesDisk) in every recorded state.                                         *)
EXTENDS StorageDeposit, Json

TheTrace == ndJsonDeserialize("storagedep_trace.ndjson")
VARIABLE l
tvars == <<vars, l>>

TRealms == {"p", "a", "b", "c"}
TOrder == <<"p", "a", "b", "c">>     \* gno.land/r/sys/params < gno.land/r/verif/sda < sdb < sdc
TAccounts == {"u", "v", "poor", "deployer"}

Ln == TheTrace[l]
IsEv(a) == l <= Len(TheTrace) /\ Ln.act = a
FnR(rec) == [r \in TRealms |-> rec[r]]
FnA(rec) == [a \in TAccounts \cup {Collector} |-> rec[a]]

Load(st) ==
  /\ storage' = FnR(st.storage) /\ deposit' = FnR(st.deposit) /\ dbal' = FnR(st.dbal)
  /\ bal' = FnA(st.bal) /\ price' = st.price /\ restricted' = st.restricted
  /\ objb' = FnR(st.odisk) /\ parb' = FnR(st.pdisk)

TraceInit ==
  /\ l = 2 /\ TheTrace[1].act = "Init"
  /\ LET st == TheTrace[1].st IN
       /\ storage = FnR(st.storage) /\ deposit = FnR(st.deposit) /\ dbal = FnR(st.dbal)
       /\ bal = FnA(st.bal) /\ price = st.price /\ restricted = st.restricted
       /\ objb = FnR(st.odisk) /\ parb = FnR(st.pdisk)
  /\ hist = <<>>
  /\ TLCSet(1, 0)

TReset ==
  /\ IsEv("Reset") /\ l + 1 <= Len(TheTrace) /\ TheTrace[l + 1].act = "Init"
  /\ Load(TheTrace[l + 1].st)
  /\ UNCHANGED hist
  /\ l' = l + 2

\* the logged post-state is exactly the state the action yields
Post(st) ==
  /\ storage' = FnR(st.storage) /\ deposit' = FnR(st.deposit) /\ dbal' = FnR(st.dbal)
  /\ bal' = FnA(st.bal) /\ price' = st.price /\ restricted' = st.restricted
  /\ objb' = FnR(st.odisk) /\ parb' = FnR(st.pdisk)        \* the bytes measured on disk

TMsg ==
  /\ IsEv("Msg")
  /\ LET e == Ln
         od == FnR(e.odiffs)
         pd == FnR(e.pdiffs)
         np == IF e.setprice = 0 THEN price ELSE e.setprice
         nr == IF e.setrestr = "on" THEN TRUE ELSE IF e.setrestr = "off" THEN FALSE ELSE restricted
     IN IF "nodiffs" \in DOMAIN e
        THEN \* failed for a reason other than the deposit (its twin failed too): nothing but the fee
             /\ ~e.ok /\ od = [r \in TRealms |-> 0] /\ pd = [r \in TRealms |-> 0]
             /\ bal' = [bal EXCEPT ![e.caller] = @ - e.fee]
             /\ UNCHANGED <<storage, deposit, dbal, price, restricted, objb, parb>>
             /\ Post(e.st)
        ELSE /\ Msg(e.caller, e.limit, e.fee, od, pd, np, nr)
             /\ MsgOK(e.caller, e.limit, e.fee, Sum(od, pd)) = e.ok          \* the verdict (too small a limit fails)
             /\ Post(e.st)
  /\ UNCHANGED hist
  /\ l' = l + 1

TraceNext == TReset \/ TMsg
TraceSpec == TraceInit /\ [][TraceNext]_tvars

\* the recorded counter is the number of bytes on disk: objects + chain/params entries
StorageMatchesDisk == StorageIsSum

HighWater == TLCSet(1, IF l > TLCGet(1) THEN l ELSE TLCGet(1))
Accepted == IF TLCGet(1) = Len(TheTrace) + 1 THEN TRUE
            ELSE PrintT(<<"REJECTED-AT", TLCGet(1)>>) /\ FALSE
=============================================================================
