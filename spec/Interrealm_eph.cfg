CONSTANTS
  Pkgs <- MCPkgs
  KindOfC <- MCKindOf
  CtxsC <- MCCtxs
  PathsC <- MCPaths
  WritesC <- MCWrites
  Victim = "R"
  ConvertGuard = TRUE
  EphemeralIsRealm = FALSE
  MaxDepth = 4
  MaxFvals = 1
  Shapes = FALSE
INIT Init
NEXT Next
VIEW View
INVARIANTS NoForeignWrite
