CONSTANTS
  WriteSizes <- WOne
  ReadSizes <- ROne
  BufSizes <- BOne
  MaxWrites = 1
  MaxReads = 1
  MaxLen = 11
  AdvBudget = 4
  AdvAfter = 0
  AdvActs <- ActsHs
  EphChoices <- EphAll
  DataMax = 1024
  Writers <- Both
  Readers <- Both
INIT Init
NEXT Next
VIEW View
INVARIANTS TypeOK AuthenticatedPeer NoGhostSession StreamIntegrity TamperFails
ACTION_CONSTRAINT EmitEdge
