CONSTANTS
  Honest <- H3
  Byz <- B1
  MaxRound = 2
  MaxLen = 90
  Orders <- OrdersAll
  Quiet = FALSE
  ByzReuse = TRUE
  ByzVoteKinds <- KBoth
INIT InitSim
NEXT NextSim
INVARIANTS Agreement NoHonestEquivocation PrecommitHasPolka DecisionHasCommit BlockInHandMatchesParts
INVARIANT EmitAtEnd
