---------------------------- MODULE MCOrderedMap ----------------------------
EXTENDS OrderedMap
ReadsAll == AllReads
ReadsNone == {}
ReadsPoint == {"Get", "Has", "Size", "GetByIndex"}
Lims0 == {0}
Lims02 == {0, 2}
Lims012 == {0, 1, 2}
=============================================================================
