CONSTANTS
  WriteSizes <- WTwo
  ReadSizes <- RCore
  BufSizes <- BOne
  MaxWrites = 1
  MaxReads = 2
  MaxLen = 9
  AdvBudget = 1
  AdvActs <- ActsAll
  EphChoices <- EphAll
  DataMax = 1024
INIT Init
NEXT Next
VIEW View
INVARIANTS TypeOK AuthenticatedPeer NoGhostSession StreamIntegrity TamperFails
