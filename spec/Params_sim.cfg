CONSTANTS
  Keys <- KeysAll
  MaxLen = 25
  Quiet = FALSE
INIT Init
NEXT SimNext
VIEW View
INVARIANTS TypeOK StoredValuesValid StoredKeysWellFormed
PROPERTIES WritesStayInOwnNamespace ModuleParamsOnlyViaSysRealm RejectedIsNoOp
INVARIANT EmitAtEnd
