CONSTANTS
  MaxVer = 4
  NQ = 0
  NCheck = 0
  QKinds <- KNone
  Orders <- OAll
  Crashes = TRUE
  Snapshots = FALSE
  Fine = FALSE
  AtomicResolve = FALSE
  Coarse = FALSE
  Keep = 1
  StoreDirect = FALSE
  MetaDirect = FALSE
  MaxLen = 60
INIT Init
NEXT Next
VIEW StateView
INVARIANTS TypeOK Recoverable RecoveredVersion
