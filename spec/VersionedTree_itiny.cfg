CONSTANTS
  NK = 6
  NV = 2
  MaxVer = 8
  MaxLen = 26
  NR = 2
  Impl = "iavl"
  SmallTree = FALSE
  Opts <- OptsIavl
  Reads = TRUE
  BadArgs = FALSE
  SvAlways = TRUE
  Quiet = FALSE
  FillSizes <- FillMid
  Scripts <- NoScripts
INIT Init
NEXT NextTinyF
VIEW View
INVARIANTS TypeOK Contig WorkingRetained ReadersRetained CleanIsSaved NotRetainedIsBlank HkFunctional
PROPERTIES SavedImmutable PruneKeepsRetained OnlyNext SessionDrop
INVARIANT EmitAtEnd
