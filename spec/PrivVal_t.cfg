CONSTANTS
  Heights <- H12
  Rounds <- R01
  Data <- DataAB
  TS <- TS12
  MaxLen = 4
  MaxCrash = 2
INIT Init
NEXT Next
VIEW View
INVARIANTS TypeOK NoDoubleSign ReleasedPersisted MemIsDiskWhenIdle
PROPERTIES Monotone DiskMonotone

