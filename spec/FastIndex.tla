---------------------------- MODULE FastIndex ----------------------------
(* C26. The bptree fast index (tm2/pkg/bptree/fast_index.go, mutable_tree.go) under the store
   layer (tm2/pkg/store/bptree/store.go) and rootmulti's collector.

   Persistent image P = [roots, trees, fast, stamp]:
     roots  versions with a root record          trees[v][k] = [val, ver]  authoritative content
     fast[k] = [val, ver] | None  ('F'||key -> version||value)   stamp = 'M'||"fastidx" (-1 absent)
   disk = the image in the DB; pend = the image waiting in rootmulti's BatchCollector (Direct =
   FALSE only): everything a tree "commits" lands there until the block's single WriteSync. The
   live store reads through the CollectingDB (pend over disk); query views read disk only.

   One action per call of the code, with the code's branch structure:
     WSet / WRemove     MutableTree.Set / Remove: stage the tree change and, with the feature on,
                        setFastIndex / deleteFastIndex in the SAME batch
     WCommit            Store.Commit: SaveVersion (nodes, root, index entries, stamp = version) +
                        strategy pruning; Direct: flushed; else rootmulti.Commit drains it with the block
     WReload            Store.LoadLatestVersion on the SAME handle (in-process restart, dropped block):
                        Load = LoadReadonly ; ensureFastIndex. The working session is abandoned: staged
                        tree changes, value records and index entries must all be dropped (DiscardBatch in
                        loadVersionDiscovered, for an empty version as for a non-empty one). On a store
                        without any version Load returns before touching the session (code: latest == 0).
     WLoadVersion(v)    Store.LoadVersion(v) on the same handle: Load, then the working tree is replaced by
                        version v (reads only; writing needs the latest version again)
     Crash, Reopen(f)   process dies (session, batch, collector lost) / node start with the feature
                        on or off: Load = LoadReadonly ; ensureFastIndex (stamp missing or behind ->
                        rebuildFastIndex: clear, re-derive from the latest root, stamp; stamp ahead -> error)
     loader (Direct)    an Immutable store loaded over the LIVE DB concurrently with the writer -- the
                        gno#6011 window: RDiscover (discoverVersions iterator), RLoad (roots),
                        RStamp (getImmutable stamp gate), RGet* (fastGet with version guard), RDone
   Reads are not actions of the writer: FastSound is stated over every read any handle could serve.

   Switches (each names a defence of the code; TRUE/FALSE as in the code is the default cfg):
     RemoveDeletesEntry, VersionGuard, StampGate, ReaderMaintains (Immutable load runs Load instead
     of LoadReadonly), StampAheadRebuilds (ensureFastIndex rebuilds on stamp # version).          *)
EXTENDS Integers, Sequences, FiniteSets, TLC, Json

CONSTANTS Keys, Vals, MaxVer, Direct, Keep, NLoads, Toggle, Abandon,
          RemoveDeletesEntry, VersionGuard, StampGate, ReaderMaintains, StampAheadRebuilds,
          MaxLen

None == [val |-> "none", ver |-> 0]
Ent == [val : Vals, ver : 1..MaxVer] \cup {None}
Empty == [k \in Keys |-> None]
NoOp == "none"
P0 == [roots |-> {}, trees |-> [v \in 1..MaxVer |-> Empty], fast |-> Empty, stamp |-> -1]
Max(S) == IF S = {} THEN 0 ELSE CHOOSE x \in S : \A y \in S : y <= x

VARIABLES disk, pend, pon,            \* persistent image, collector image, collector non-empty
          up, wfast, wver, work, dirty, staged, wok,   \* the live store of the running process
          aband,      \* ghost: this handle abandoned a dirty session since its last commit (keeps such
                      \* histories apart in the state graph, so every continuation is generated behind one)
          rpc, rv, rL, rfast, rleft, rbad,             \* concurrent read-only loader (Direct only)
          hist

wvars == <<up, wfast, wver, work, dirty, staged, wok, aband>>
rvars == <<rpc, rv, rL, rfast, rleft, rbad>>
vars == <<disk, pend, pon, wvars, rvars>>

Init ==
  /\ disk = P0 /\ pend = P0 /\ pon = FALSE
  /\ up = TRUE /\ wfast = TRUE /\ wver = 0 /\ work = Empty /\ dirty = FALSE
  /\ staged = [k \in Keys |-> NoOp] /\ wok = TRUE /\ aband = FALSE
  /\ rpc = "idle" /\ rv = 0 /\ rL = 0 /\ rfast = FALSE /\ rleft = NLoads /\ rbad = FALSE
  /\ hist = <<>>

Live == IF pon THEN pend ELSE disk          \* what the live store's point reads see
Room == Len(hist) < MaxLen
Log(r) == hist' = Append(hist, r)

\* what the driver can read back from the raw DB after the step (keeps model and code in step)
Proj(d) == [stamp |-> d.stamp, roots |-> d.roots, fast |-> d.fast]
WRec(a) == [act |-> a, st |-> Proj(disk'), ver |-> wver', fastOn |-> wfast']

\* ------------------------------------------------------------------ the live store
AtLatest == wver = Max(disk.roots)
WSet(k, x) ==
  /\ Room /\ up /\ wok /\ wver < MaxVer /\ AtLatest
  /\ work' = [work EXCEPT ![k] = [val |-> x, ver |-> wver + 1]]
  /\ staged' = IF wfast THEN [staged EXCEPT ![k] = "set"] ELSE staged
  /\ dirty' = TRUE
  /\ UNCHANGED <<disk, pend, pon, up, wfast, wver, wok, aband, rvars>>
  /\ Log(WRec("Set") @@ [k |-> k, v |-> x])

WRemove(k) ==
  /\ Room /\ up /\ wok /\ wver < MaxVer /\ AtLatest /\ work[k] # None
  /\ work' = [work EXCEPT ![k] = None]
  /\ staged' = IF wfast /\ RemoveDeletesEntry THEN [staged EXCEPT ![k] = "del"] ELSE staged
  /\ dirty' = TRUE
  /\ UNCHANGED <<disk, pend, pon, up, wfast, wver, wok, aband, rvars>>
  /\ Log(WRec("Remove") @@ [k |-> k])

Prune(n) == IF Keep < 0 \/ n - 1 - Keep < 1 THEN {} ELSE 1..(n - 1 - Keep)
Saved(b, n) ==   \* image after SaveVersion(n) on top of image b
  [roots |-> (b.roots \cup {n}) \ Prune(n),
   trees |-> [b.trees EXCEPT ![n] = work],
   fast |-> IF wfast THEN [k \in Keys |-> IF staged[k] = "set" THEN work[k]
                                          ELSE IF staged[k] = "del" THEN None ELSE b.fast[k]]
            ELSE b.fast,
   stamp |-> IF wfast THEN n ELSE b.stamp]

WCommit ==
  /\ Room /\ up /\ wok /\ wver < MaxVer /\ AtLatest
  /\ disk' = Saved(Live, wver + 1) /\ pon' = FALSE /\ pend' = P0   \* Direct: flushed; else drained with the block
  /\ wver' = wver + 1 /\ dirty' = FALSE /\ staged' = [k \in Keys |-> NoOp] /\ aband' = FALSE
  /\ UNCHANGED <<up, wfast, work, wok, rvars>>
  /\ Log(WRec("Commit"))

Entries(t) == [k \in Keys |-> t[k]]     \* rebuildFastIndex: one entry per live key, version = the value's
Rebuilt(b, n) == [b EXCEPT !.fast = IF n = 0 THEN Empty ELSE Entries(b.trees[n]), !.stamp = n]

\* Load on the live handle: the abandoned session is replaced by the latest committed version
LoadEff(target) ==
  LET n == Max(disk.roots)
      need == wfast /\ n > 0 /\ (Live.stamp < n \/ (StampAheadRebuilds /\ Live.stamp > n))
      bad == wfast /\ n > 0 /\ Live.stamp > n /\ ~StampAheadRebuilds
      tv == IF target = 0 THEN n ELSE target
  IN IF n = 0 THEN UNCHANGED <<disk, pend, pon, wver, work, dirty, staged, wok>>   \* LoadReadonly returns early: session kept
     ELSE /\ wver' = tv /\ work' = Live.trees[tv]
          /\ dirty' = FALSE /\ staged' = [k \in Keys |-> NoOp]
          /\ wok' = ~bad
          /\ IF need /\ ~bad
             THEN (IF Direct THEN disk' = Rebuilt(disk, n) /\ UNCHANGED <<pend, pon>>
                             ELSE pend' = Rebuilt(Live, n) /\ pon' = TRUE /\ disk' = disk)
             ELSE UNCHANGED <<disk, pend, pon>>

WReload ==
  /\ Room /\ up /\ wok /\ Abandon
  /\ LoadEff(0)
  /\ aband' = (aband \/ (dirty /\ Max(disk.roots) > 0))
  /\ UNCHANGED <<up, wfast, rvars>>
  /\ Log(WRec("Reload") @@ [ok |-> wok'])

WLoadVersion(x) ==
  /\ Room /\ up /\ wok /\ Abandon /\ x \in disk.roots
  /\ LoadEff(x)
  /\ aband' = (aband \/ dirty)
  /\ UNCHANGED <<up, wfast, rvars>>
  /\ Log(WRec("LoadVersion") @@ [v |-> x, ok |-> wok'])

Crash ==
  /\ Room /\ up
  /\ up' = FALSE /\ pon' = FALSE /\ pend' = P0 /\ aband' = FALSE
  /\ UNCHANGED <<disk, wfast, wver, work, dirty, staged, wok, rvars>>
  /\ Log([act |-> "Crash", st |-> Proj(disk), ver |-> wver, fastOn |-> wfast])


Reopen(f) ==
  /\ Room /\ ~up /\ (f = wfast \/ Toggle)
  /\ LET n == Max(disk.roots)
         need == f /\ n > 0 /\ (disk.stamp < n \/ (StampAheadRebuilds /\ disk.stamp > n))
         bad == f /\ n > 0 /\ disk.stamp > n /\ ~StampAheadRebuilds
     IN /\ up' = TRUE /\ wfast' = f /\ wver' = n
        /\ work' = IF n = 0 THEN Empty ELSE disk.trees[n]
        /\ dirty' = FALSE /\ staged' = [k \in Keys |-> NoOp]
        /\ wok' = ~bad /\ aband' = FALSE
        /\ IF need THEN (IF Direct THEN disk' = Rebuilt(disk, n) /\ pon' = FALSE /\ pend' = P0
                                   ELSE pend' = Rebuilt(disk, n) /\ pon' = TRUE /\ disk' = disk)
                   ELSE UNCHANGED <<disk, pend, pon>>
  /\ UNCHANGED rvars
  /\ Log(WRec("Reopen") @@ [f |-> f, ok |-> wok'])

\* ------------------------------------------------------------------ concurrent read-only loader over the live DB
RStart(x) ==
  /\ Room /\ Direct /\ rpc = "idle" /\ rleft > 0 /\ x \in disk.roots
  /\ rv' = x /\ rpc' = "start" /\ rleft' = rleft - 1
  /\ UNCHANGED <<disk, pend, pon, wvars, rL, rfast, rbad>>
  /\ Log([act |-> "RStart", v |-> x, st |-> Proj(disk)])
RDiscover ==     \* discoverVersions: iterator over the root records
  /\ Room /\ rpc = "start"
  /\ rL' = Max(disk.roots) /\ rpc' = "discovered"
  /\ UNCHANGED <<disk, pend, pon, wvars, rv, rfast, rleft, rbad>>
  /\ Log([act |-> "RDiscover", latest |-> rL', st |-> Proj(disk)])
RLoad ==         \* loadVersionDiscovered(latest), then (ReaderMaintains) ensureFastIndex, then GetRoot(rv)
  /\ Room /\ rpc = "discovered"
  /\ LET rebuild == ReaderMaintains /\ wfast /\ (disk.stamp < rL \/ (StampAheadRebuilds /\ disk.stamp > rL))
         fails == (ReaderMaintains /\ wfast /\ disk.stamp > rL /\ ~StampAheadRebuilds) \/ rv \notin disk.roots \/ rL \notin disk.roots
     IN /\ disk' = IF rebuild /\ ~fails THEN Rebuilt(disk, rL) ELSE disk
        /\ rpc' = IF fails THEN "idle" ELSE "loaded"
        /\ Log([act |-> "RLoad", ok |-> ~fails, st |-> Proj(disk')])
  /\ UNCHANGED <<pend, pon, wvars, rv, rL, rfast, rleft, rbad>>
RStamp ==        \* getImmutable: trust the index only if it is complete through rv
  /\ Room /\ rpc = "loaded"
  /\ rfast' = (wfast /\ (~StampGate \/ disk.stamp >= rv)) /\ rpc' = "ready"
  /\ UNCHANGED <<disk, pend, pon, wvars, rv, rL, rleft, rbad>>
  /\ Log([act |-> "RStamp", fast |-> rfast', st |-> Proj(disk)])
FastHit(e, s) == e # None /\ (~VersionGuard \/ e.ver <= s)
RGet(k) ==
  /\ Room /\ rpc = "ready" /\ rv \in disk.roots
  /\ LET hit == rfast /\ FastHit(disk.fast[k], rv)
         got == IF hit THEN disk.fast[k].val ELSE disk.trees[rv][k].val
     IN /\ rbad' = (rbad \/ got # disk.trees[rv][k].val)
        /\ Log([act |-> "RGet", k |-> k, got |-> got, viaFast |-> hit, st |-> Proj(disk)])
  /\ UNCHANGED <<disk, pend, pon, wvars, rpc, rv, rL, rfast, rleft>>
RDone ==
  /\ Room /\ rpc = "ready" /\ rpc' = "idle"
  /\ UNCHANGED <<disk, pend, pon, wvars, rv, rL, rfast, rleft, rbad>>
  /\ Log([act |-> "RDone", st |-> Proj(disk)])

Next == \/ \E k \in Keys, x \in Vals : WSet(k, x)
        \/ \E k \in Keys : WRemove(k) \/ RGet(k)
        \/ WCommit \/ Crash \/ \E f \in BOOLEAN : Reopen(f)
        \/ WReload \/ \E x \in 1..MaxVer : WLoadVersion(x)
        \/ \E x \in 1..MaxVer : RStart(x)
        \/ RDiscover \/ RLoad \/ RStamp \/ RDone

Spec == Init /\ [][Next]_<<vars, hist>>
StateView == vars

\* ------------------------------------------------------------------ FastSound, over every read a handle can serve
\* the live store's clean working tree (MutableTree.Get with root == lastSaved)
LiveSound == (up /\ wok /\ wfast /\ ~dirty /\ wver > 0) =>
               \A k \in Keys : FastHit(Live.fast[k], wver) => Live.fast[k].val = Live.trees[wver][k].val
\* committed snapshots taken from the live store (GetImmutable / GetVersioned / proof queries)
ImmSound == (up /\ wok /\ wfast) =>
               \A x \in Live.roots : (~StampGate \/ Live.stamp >= x) =>
                  \A k \in Keys : FastHit(Live.fast[k], x) => Live.fast[k].val = Live.trees[x][k].val
\* query views built over the DB itself (rootmulti immutable multistore: snapshot or ImmutableDB)
QuerySound == wfast =>
               \A x \in disk.roots : (~StampGate \/ disk.stamp >= x) =>
                  \A k \in Keys : FastHit(disk.fast[k], x) => disk.fast[k].val = disk.trees[x][k].val
\* values actually served to the concurrent loader
ReaderSound == ~rbad
\* at rest the stamp never runs ahead of the newest root
StampNeverAhead == disk.stamp <= Max(disk.roots) /\ (pon => pend.stamp <= Max(pend.roots))
\* read-only loads never write
LoaderLeavesDisk == [][(rpc = "discovered" /\ rpc' # rpc) => disk' = disk]_vars
TypeOK == /\ wver \in 0..MaxVer /\ disk.stamp \in -1..MaxVer /\ rleft \in 0..NLoads
          /\ \A k \in Keys : work[k] \in Ent /\ disk.fast[k] \in Ent

Emit == PrintT(<<"TRACE", ToJson(hist)>>)
EmitAtEnd == Len(hist) < MaxLen \/ Emit
EmitEdge == PrintT(<<"EDGE", ToJson(hist')>>)
=============================================================================
