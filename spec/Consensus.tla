---------------------------- MODULE Consensus ----------------------------
(* C31. Safety core of tm2/pkg/bft/consensus/state.go (Tendermint with the classic locking
   rules AS THIS CODE IMPLEMENTS THEM, not the arXiv algorithm), one height.

   Network: a node may act on any subset of the messages ever sent (delay, reordering,
   duplication, loss). Byzantine validators: every well-formed message they could sign is
   present from the start (equivocating proposals and votes, votes for anything in any
   round); they cannot sign for others.

   The guards are separate operators over "the messages a node has seen" so that the trace
   specification (ConsensusTrace.tla) holds the REAL nodes to exactly the guards that this
   module proves sufficient for Agreement.

     PrevoteOK      defaultDoPrevote: locked => the locked block; else the round's proposal or nil
     LockOK         enterPrecommit: lock/precommit v only with +2/3 prevotes for v in that round
     UnlockOK       addVote: unlock on a polka for something else in (lockedRound, round];
                    enterPrecommit: polka for nil / for a block not in hand in the current round
     DecideOK       enterCommit/finalizeCommit: +2/3 precommits for v in one round
     one vote per (type, round): signAddVote's "avoid re-signing" guard                   *)
EXTENDS Integers, FiniteSets, TLC, ConsensusGuards

CONSTANTS Honest, Byz, MaxRound, Values, Power, ProposerOf
Nodes == Honest \cup Byz
Rounds == 0..MaxRound
VN == Values \cup {Nil}
NoRound == -1

\* the model's instances (constant powers of the configured nodes)
PW == [n \in Nodes |-> Power[n]]
HasQuorum(S, r, v) == HasQuorumP(PW, S, r, v)
HasQuorumAny(S, r) == HasQuorumAnyP(PW, S, r)
PrevoteOK(lockedV, props, pvs, r, v) == PrevoteOKP(PW, lockedV, props, pvs, r, v)
LockOK(pvs, r, v) == LockOKP(PW, pvs, r, v)
UnlockOK(pvs, lockedR, lockedV, curRound) == UnlockOKP(PW, pvs, lockedR, lockedV, curRound)
DecideOK(pcs, v) == DecideOKP(PW, pcs, v)

\* ---------------------------------------------------------------- the model
VARIABLES round, step, lockedRound, lockedValue, validRound, validValue, decision,
          proposals, prevotes, precommits

vars == <<round, step, lockedRound, lockedValue, validRound, validValue, decision,
          proposals, prevotes, precommits>>

ByzProposals == {[src |-> b, round |-> r, value |-> v, pol |-> pr] :
                   b \in Byz, r \in Rounds, v \in Values, pr \in {NoRound} \cup Rounds}
ByzVotes == {[src |-> b, round |-> r, value |-> v] : b \in Byz, r \in Rounds, v \in VN}

Init ==
  /\ round = [p \in Honest |-> 0]
  /\ step = [p \in Honest |-> "propose"]
  /\ lockedRound = [p \in Honest |-> NoRound]
  /\ lockedValue = [p \in Honest |-> Nil]
  /\ validRound = [p \in Honest |-> NoRound]
  /\ validValue = [p \in Honest |-> Nil]
  /\ decision = [p \in Honest |-> Nil]
  /\ proposals = {m \in ByzProposals : m.src = ProposerOf[m.round] /\ m.pol < m.round}
  /\ prevotes = ByzVotes
  /\ precommits = ByzVotes

RoundProposals(r) == {m \in proposals : m.src = ProposerOf[r] /\ m.round = r}

\* defaultDecideProposal: propose ValidBlock if any, else a fresh block
Propose(p) ==
  /\ step[p] = "propose" /\ ProposerOf[round[p]] = p
  /\ ~\E m \in proposals : m.src = p /\ m.round = round[p]
  /\ \E v \in Values :
       /\ (validValue[p] # Nil => v = validValue[p])
       /\ proposals' = proposals \cup {[src |-> p, round |-> round[p], value |-> v, pol |-> validRound[p]]}
  /\ UNCHANGED <<round, step, lockedRound, lockedValue, validRound, validValue, decision, prevotes, precommits>>

Prevote(p) ==
  /\ step[p] = "propose"
  /\ \E v \in VN :
       /\ PrevoteOK(lockedValue[p], RoundProposals(round[p]), prevotes, round[p], v)
       /\ prevotes' = prevotes \cup {[src |-> p, round |-> round[p], value |-> v]}
  /\ step' = [step EXCEPT ![p] = "prevote"]
  /\ UNCHANGED <<round, lockedRound, lockedValue, validRound, validValue, decision, proposals, precommits>>

UnlockOnPolka(p) ==
  /\ lockedValue[p] # Nil
  /\ UnlockOK(prevotes, lockedRound[p], lockedValue[p], round[p])
  /\ lockedRound' = [lockedRound EXCEPT ![p] = NoRound]
  /\ lockedValue' = [lockedValue EXCEPT ![p] = Nil]
  /\ UNCHANGED <<round, step, validRound, validValue, decision, proposals, prevotes, precommits>>

\* enterPrecommit (the four outcomes of state.go 1127-1220)
Precommit(p) ==
  /\ step[p] = "prevote"
  /\ LET r == round[p] IN
     \/ \E v \in Values :          \* polka for a block in hand: lock / relock and precommit it
          /\ LockOK(prevotes, r, v)
          /\ (lockedValue[p] = v \/ \E m \in proposals : m.value = v /\ m.round <= r)
          /\ lockedRound' = [lockedRound EXCEPT ![p] = r]
          /\ lockedValue' = [lockedValue EXCEPT ![p] = v]
          /\ validRound' = [validRound EXCEPT ![p] = r]
          /\ validValue' = [validValue EXCEPT ![p] = v]
          /\ precommits' = precommits \cup {[src |-> p, round |-> r, value |-> v]}
     \/ /\ \E v \in VN : HasQuorum(prevotes, r, v) /\ v # lockedValue[p]   \* polka for nil or for a block not in hand: unlock, precommit nil
        /\ lockedRound' = [lockedRound EXCEPT ![p] = NoRound]
        /\ lockedValue' = [lockedValue EXCEPT ![p] = Nil]
        /\ UNCHANGED <<validRound, validValue>>
        /\ precommits' = precommits \cup {[src |-> p, round |-> r, value |-> Nil]}
     \/ /\ UNCHANGED <<lockedRound, lockedValue, validRound, validValue>>   \* no polka seen (timeout): precommit nil
        /\ precommits' = precommits \cup {[src |-> p, round |-> r, value |-> Nil]}
  /\ step' = [step EXCEPT ![p] = "precommit"]
  /\ UNCHANGED <<round, decision, proposals, prevotes>>

NextRound(p) ==
  /\ step[p] = "precommit" /\ round[p] < MaxRound
  /\ round' = [round EXCEPT ![p] = @ + 1]
  /\ step' = [step EXCEPT ![p] = "propose"]
  /\ UNCHANGED <<lockedRound, lockedValue, validRound, validValue, decision, proposals, prevotes, precommits>>

\* round skip on +2/3 any (prevotes or precommits) of a later round
SkipRound(p) ==
  /\ \E r \in Rounds : /\ r > round[p]
                       /\ (HasQuorumAny(prevotes, r) \/ HasQuorumAny(precommits, r))
                       /\ round' = [round EXCEPT ![p] = r]
  /\ step' = [step EXCEPT ![p] = "propose"]
  /\ UNCHANGED <<lockedRound, lockedValue, validRound, validValue, decision, proposals, prevotes, precommits>>

Decide(p) ==
  /\ decision[p] = Nil
  /\ \E v \in Values :
       /\ DecideOK(precommits, v)
       /\ decision' = [decision EXCEPT ![p] = v]
  /\ UNCHANGED <<round, step, lockedRound, lockedValue, validRound, validValue, proposals, prevotes, precommits>>

Next == \E p \in Honest : Propose(p) \/ Prevote(p) \/ UnlockOnPolka(p) \/ Precommit(p)
                          \/ NextRound(p) \/ SkipRound(p) \/ Decide(p)

Spec == Init /\ [][Next]_vars

\* ---------------------------------------------------------------- properties
Agreement == \A p, q \in Honest : decision[p] # Nil /\ decision[q] # Nil => decision[p] = decision[q]
NoHonestEquivocation ==
  /\ \A m1, m2 \in prevotes : m1.src \in Honest /\ m1.src = m2.src /\ m1.round = m2.round => m1.value = m2.value
  /\ \A m1, m2 \in precommits : m1.src \in Honest /\ m1.src = m2.src /\ m1.round = m2.round => m1.value = m2.value
\* an honest precommit for a block is backed by a polka for it in that round
PrecommitHasPolka == \A m \in precommits : m.src \in Honest /\ m.value # Nil => HasQuorum(prevotes, m.round, m.value)
\* a decided value was precommitted by +2/3 in one round
DecisionHasCommit == \A p \in Honest : decision[p] # Nil => DecideOK(precommits, decision[p])
=============================================================================
