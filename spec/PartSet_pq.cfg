CONSTANTS
  Totals <- Tpq
  Classes <- ClsGood
  Mode = "perm"
  MaxLen = 8
INIT Init
NEXT Next

INVARIANTS TypeOK CountIsCard CompleteIffAll OnlyGoodStored ReassembledEqualsOriginal
PROPERTIES StepShape
ACTION_CONSTRAINT EmitEdge
