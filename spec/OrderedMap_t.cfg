CONSTANTS
  NK = 12
  NV = 1
  MaxLen = 18
  Reads <- ReadsNone
  Lims <- Lims0
  Grow = 0
  Quiet = TRUE
INIT Init
NEXT Next
VIEW View
INVARIANTS TypeOK Refines Balanced WellFormed

