---------------------------- MODULE PrivVal ----------------------------
(* C34. Mirrors tm2/pkg/bft/privval/privval.go (SignVote / SignProposal), privval/state/state.go
   (CheckHRS, Check*OnlyDifferByTimestamp, Update -> save) and tm2/pkg/os/tempfile.go
   (WriteFileAtomic: create temp, write, close, rename, deferred remove).

   One sign request of the code is several actions here because the process can die between
   them:   Request (CheckHRS + the same-HRS branches, which write nothing)
           -> DoSign      (signer.Sign returned)
           -> WriteTemp   (FileState.Update changed the in-memory state; temp file written)
           -> Rename      (os.Rename: the state file now holds the new record)
           -> Return      (the signature reaches the caller = is released)
   Crash is enabled in every pc (and when idle = plain restart); it loses `mem`, keeps `disk`,
   and the restarted validator loads `disk` (NewPrivValidator -> LoadFileState).

   A record [h, r, s, d, ts] stands for the sign bytes of a vote/proposal: s=1 proposal,
   s=2 prevote, s=3 precommit; d = everything but the timestamp (block id, POL round),
   ts = the timestamp.  ed25519 is deterministic, so a record also stands for its signature.

   Named deviations from a naive reading: none. The same-HRS "only the timestamp differs"
   branch returns the ORIGINAL signature and timestamp (reply "ts"), as the statement says.
   Crash = process death (kill); the temp file is not fsync'ed by the code, so power loss is
   outside this model (stated as an assumption in the evidence).                          *)
EXTENDS Integers, Sequences, FiniteSets, TLC, Json

CONSTANTS Heights, Rounds, Data, TS,   \* request alphabet
          MaxLen,                      \* bound on completed calls (history length)
          MaxCrash                     \* bound on the number of crashes

Steps == 1..3
NoRec == [h |-> 0, r |-> 0, s |-> 0, d |-> "none", ts |-> 0]     \* freshly generated state file
Reqs == [h : Heights, r : Rounds, s : Steps, d : Data, ts : TS]

VARIABLES disk,      \* record in the state file
          mem,       \* record in the running process (FileState fields)
          pc,        \* "idle" | "checked" | "signed" | "tempwritten" | "renamed"
          cur,       \* the in-flight request
          released,  \* set of records whose signature was returned to a caller
          ncrash,
          hist

vars == <<disk, mem, pc, cur, released, ncrash>>

Lt(a, b) == \/ a.h < b.h
            \/ a.h = b.h /\ a.r < b.r
            \/ a.h = b.h /\ a.r = b.r /\ a.s < b.s
SameHRS(a, b) == a.h = b.h /\ a.r = b.r /\ a.s = b.s

Init == /\ disk = NoRec /\ mem = NoRec /\ pc = "idle" /\ cur = NoRec
        /\ released = {} /\ ncrash = 0 /\ hist = <<>>

\* what the driver reads back from the state file after the call (and after the restart that
\* follows a crash)
Rec(act, q, crash, reply, rts, dk) ==
  [act |-> act, h |-> q.h, r |-> q.r, s |-> q.s, d |-> q.d, ts |-> q.ts,
   crash |-> crash, reply |-> reply, rts |-> rts, st |-> dk]

\* SignVote / SignProposal up to the point where the signer is called
Request(q) ==
  /\ pc = "idle" /\ Len(hist) < MaxLen
  /\ IF Lt(q, mem)                                        \* CheckHRS: height/round/step regression
     THEN /\ UNCHANGED vars
          /\ hist' = Append(hist, Rec("Sign", q, "none", "regress", 0, disk))
     ELSE IF SameHRS(q, mem)
     THEN IF q.d = mem.d /\ q.ts = mem.ts                  \* bytes.Equal(signBytes, state.SignBytes)
          THEN /\ released' = released \cup {mem}
               /\ UNCHANGED <<disk, mem, pc, cur, ncrash>>
               /\ hist' = Append(hist, Rec("Sign", q, "none", "same", mem.ts, disk))
          ELSE IF q.d = mem.d                              \* only the timestamp differs
          THEN /\ released' = released \cup {mem}
               /\ UNCHANGED <<disk, mem, pc, cur, ncrash>>
               /\ hist' = Append(hist, Rec("Sign", q, "none", "ts", mem.ts, disk))
          ELSE /\ UNCHANGED vars                           \* errSameHRSBadData
               /\ hist' = Append(hist, Rec("Sign", q, "none", "conflict", 0, disk))
     ELSE /\ pc' = "checked" /\ cur' = q                   \* new HRS: go and sign
          /\ UNCHANGED <<disk, mem, released, ncrash, hist>>

DoSign    == pc = "checked" /\ pc' = "signed" /\ UNCHANGED <<disk, mem, cur, released, ncrash, hist>>
WriteTemp == pc = "signed" /\ pc' = "tempwritten" /\ mem' = cur
             /\ UNCHANGED <<disk, cur, released, ncrash, hist>>
Rename    == pc = "tempwritten" /\ pc' = "renamed" /\ disk' = cur
             /\ UNCHANGED <<mem, cur, released, ncrash, hist>>
Return    == /\ pc = "renamed" /\ pc' = "idle" /\ cur' = NoRec
             /\ released' = released \cup {cur}
             /\ UNCHANGED <<disk, mem, ncrash>>
             /\ hist' = Append(hist, Rec("Sign", cur, "none", "signed", cur.ts, disk))

\* process death + restart (NewPrivValidator loads the state file)
Crash ==
  /\ ncrash < MaxCrash
  /\ pc = "idle" => Len(hist) < MaxLen
  /\ ncrash' = ncrash + 1
  /\ mem' = disk /\ pc' = "idle" /\ cur' = NoRec /\ UNCHANGED <<disk, released>>
  /\ hist' = Append(hist, IF pc = "idle" THEN Rec("Restart", NoRec, "idle", "ok", 0, disk)
                          ELSE Rec("Sign", cur, pc, "crashed", 0, disk))

Next == \/ \E q \in Reqs : Request(q)
        \/ DoSign \/ WriteTemp \/ Rename \/ Return \/ Crash

Spec == Init /\ [][Next]_<<vars, hist>>
View == vars

\* ---------------------------------------------------------------- properties (C34)
\* two released signatures for the same height/round/step are the same signature of the same bytes
NoDoubleSign == \A x, y \in released : SameHRS(x, y) => x = y
\* nothing is released that the state file does not cover: released HRS <= persisted HRS, and
\* at the persisted HRS only the persisted record
ReleasedPersisted == \A x \in released : ~Lt(disk, x) /\ (SameHRS(x, disk) => x = disk)
MemIsDiskWhenIdle == pc = "idle" => mem = disk
TypeOK == /\ disk \in Reqs \cup {NoRec} /\ mem \in Reqs \cup {NoRec}
          /\ pc \in {"idle", "checked", "signed", "tempwritten", "renamed"}
          /\ released \subseteq Reqs
\* a newly released signature never lies below an already released one
Monotone == [][\A x \in released' \ released : \A y \in released : ~Lt(x, y)]_vars
DiskMonotone == [][~Lt(disk', disk)]_vars

Emit == PrintT(<<"TRACE", ToJson(hist)>>)
EmitAtEnd == Len(hist) < MaxLen \/ Emit
EmitEdge == hist' = hist \/ PrintT(<<"EDGE", ToJson(hist')>>)
=============================================================================
