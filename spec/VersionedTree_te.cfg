CONSTANTS
  NK = 3
  NV = 2
  MaxVer = 3
  MaxLen = 6
  NR = 1
  Impl = "bptree"
  SmallTree = TRUE
  Opts <- Opts2
  Reads = FALSE
  BadArgs = TRUE
  SvAlways = TRUE
  Quiet = FALSE
  FillSizes <- FillNone
  Scripts <- NoScripts
INIT Init
NEXT NextF
VIEW View
INVARIANTS TypeOK Contig WorkingRetained ReadersRetained CleanIsSaved NotRetainedIsBlank HkFunctional
PROPERTIES SavedImmutable PruneKeepsRetained OnlyNext SessionDrop
ACTION_CONSTRAINT EmitEdge
