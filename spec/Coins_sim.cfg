CONSTANTS
  ND = 3
  Amts <- AmtsSim
  MIN <- MinS
  MAX <- MaxS
  MaxLen = 9
  Ops <- OpsAll
INIT Init
NEXT Next
VIEW View
INVARIANTS TypeOK ResultValid
INVARIANT EmitAtEnd
