INIT Init
NEXT Next
POSTCONDITION Accepted
CHECK_DEADLOCK FALSE
