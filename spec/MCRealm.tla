------------------------------ MODULE MCRealm ------------------------------
EXTENDS Realm
\* realm 1 (heap): 101 = holder of `Root` (one slot), 102 = the array `Slots` (two slots)
\* realm 2 (heap2): 201 = holder of `Root`, 202 = `Slots`
R1 == {101, 102}
R12 == {101, 102, 201}
Pkg1 == [o \in R1 |-> 1]
Pkg12 == [o \in R12 |-> IF o < 200 THEN 1 ELSE 2]
Slots1 == [o \in R1 |-> IF o = 101 THEN {1} ELSE {1, 2}]
Slots12 == [o \in R12 |-> IF o = 102 THEN {1, 2} ELSE {1}]
Seq2a == <<1, 2, 101, 102>>
Seq2b == <<1, 2, 101, 102, 201>>
Seq3a == <<1, 2, 3, 101, 102>>
Seq4a == <<1, 2, 3, 4, 101, 102>>
Seq3b == <<1, 2, 3, 101, 102, 201>>
Seq4b == <<1, 2, 3, 4, 101, 102, 201>>
=============================================================================
