---------------------------- MODULE MCSecretConn ----------------------------
EXTENDS SecretConn
\* frame boundary classes of secret_connection.go (dataMaxSize = 1024)
WAll == {0, 1, 1023, 1024, 1025, 2049}
WCore == {1, 1024, 1025}
WTwo == {1, 1025}
RAll == {1, 7, 1024, 5000}
RCore == {7, 5000}
ROne == {5000}
BAll == {1, 7, 1024, 5000}
BCore == {7, 5000}
BOne == {1024}
ActsAll == {"EphSubst", "Drop", "Dup", "Swap", "Modify", "Trunc", "AdvAuth", "Reflect"}
ActsFrame == {"Drop", "Dup", "Swap", "Modify", "Trunc", "Reflect"}
ActsHs == {"EphSubst", "AdvAuth", "Reflect"}
EphAdvRefl == {"adv", "reflect"}
WOne == {1}
None == {}
Both == {"a", "b"}
OnlyA == {"a"}
OnlyB == {"b"}
EphAll == {"adv", "reflect", "unknown", "low"}
EphAdv == {"adv"}
=============================================================================
