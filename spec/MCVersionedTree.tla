---------------------------- MODULE MCVersionedTree ----------------------------
EXTENDS VersionedTree
\* bptree options: node cache size, fast index
OptsC24 == {[cache |-> c, fast |-> f] : c \in {0, 8, 10000}, f \in BOOLEAN}
OptsAll == {[cache |-> c, fast |-> f] : c \in {0, 1, 4, 10000}, f \in BOOLEAN}
Opts4 == {[cache |-> 0, fast |-> TRUE], [cache |-> 10000, fast |-> FALSE], [cache |-> 1, fast |-> FALSE], [cache |-> 4, fast |-> TRUE]}
Opts2 == {[cache |-> 0, fast |-> TRUE], [cache |-> 10000, fast |-> FALSE]}
\* iavl options: node cache size, fast storage (skipFastStorageUpgrade = ~fast)
OptsIavl == {[cache |-> c, fast |-> f] : c \in {0, 1, 10000}, f \in BOOLEAN}
OptsIavl2 == {[cache |-> 0, fast |-> FALSE], [cache |-> 10000, fast |-> TRUE]}
NoScripts == <<>>
ScriptsFromFile == ndJsonDeserialize("vt_scripts.ndjson")
FillNone == {1}
FillBig == {1, 2, 5, 17, 33, 40, 90, 250, 600}
FillHuge == {1, 2, 5, 17, 33, 40, 90, 250, 600, 1000}
FillMid == {1, 2, 5, 17, 33, 40, 90}
\* the view that also separates history keys (iavl: the outcome of a save on an existing version depends on them)
ViewH == <<work, saved, exists, first, latest, ver, dirty, poisoned, readers, n, pend, shk>>
=============================================================================
