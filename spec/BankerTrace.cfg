INIT TraceInit
NEXT TraceNext
CONSTRAINT HighWater
INVARIANTS NonNegative
POSTCONDITION Accepted
CHECK_DEADLOCK FALSE
