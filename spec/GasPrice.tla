---------------------------- MODULE GasPrice ----------------------------
(* C17, the stored block gas price as a state machine: GasPriceKeeper (tm2/pkg/sdk/auth/keeper.go)
   driven by auth.EndBlocker once per block.
     price   the value LastGasPrice returns (Price.Amount)
     params  [maxGas, ratio, comp, init] = Block.MaxGas, TargetGasRatio, GasPricesChangeCompressor,
             InitialGasPrice.Price.Amount as the EndBlocker finds them in its context
   Actions: EndBlock(u) = UpdateGasPrice with u gas consumed on the block gas meter;
            SetParams(p) = a governance/consensus parameter change between two blocks.
   hist[1] is an "Init" record (genesis: InitChainer stores the price); every later record carries
   the inputs, the clause of GasPriceFn that applies (cls, lo, hi), tz/sat (target < 1 / the
   unbounded rule exceeds MaxPrice — they only name the class of a panic), big (BigProduct) and st = the price
   the design stores. The driver compares the real stored price with lo..hi (verdict) and with
   st (guidance).                                                                            *)
EXTENDS GasPriceFn, Sequences, TLC, Json

CONSTANTS ParamSets,     \* set of parameter records
          StartPrices,   \* genesis prices
          UsedVals,      \* gas-used values of a block
          NewParams,     \* parameter records a SetParams step may install ({} = no parameter changes)
          PriceCap,      \* exploration bound on the stored price
          MaxLen         \* bound on Len(hist)

VARIABLES price, params,
          used, blk,     \* gas used by / number of the last block (what the step properties read; not in VIEW)
          hist
vars == <<price, params, used, blk>>
View == <<price, params>>

Init == /\ price \in StartPrices
        /\ params \in ParamSets
        /\ used = 0 /\ blk = 0
        /\ hist = <<[act |-> "Init", price |-> price, maxGas |-> params.maxGas, ratio |-> params.ratio,
                     comp |-> params.comp, init |-> params.init, st |-> price]>>

Out(u) == Calc(price, u, params.maxGas, params.ratio, params.comp, params.init)

EndBlock(u) ==
  LET mg == params.maxGas
      r == params.ratio
      c == params.comp
      i == params.init
      o == Calc(price, u, mg, r, c, i)
  IN /\ Len(hist) < MaxLen
     /\ o <= PriceCap
     /\ price' = o
     /\ used' = u /\ blk' = blk + 1
     /\ UNCHANGED params
     /\ hist' = Append(hist,
          [act |-> "EndBlock", used |-> u, last |-> price, maxGas |-> mg, ratio |-> r, comp |-> c, init |-> i,
           cls |-> Cls(price, u, mg, r, i), lo |-> Lo(price, u, mg, r, i), hi |-> Hi(price, u, mg, r, i),
           tz |-> Undefined(price, u, mg, r), sat |-> Saturates(price, u, mg, r, c, i),
           big |-> BigProduct(price, u, mg, r), st |-> o])

SetParams(p) ==
  /\ Len(hist) < MaxLen
  /\ p # params
  /\ params' = p
  /\ UNCHANGED <<price, used, blk>>
  /\ hist' = Append(hist, [act |-> "SetParams", maxGas |-> p.maxGas, ratio |-> p.ratio,
                           comp |-> p.comp, init |-> p.init, st |-> price])

Next == \/ \E u \in UsedVals : EndBlock(u)
        \/ \E p \in NewParams : SetParams(p)
Spec == Init /\ [][Next]_<<vars, hist>>

\* ---------------------------------------------------------------- properties (C17)
TypeOK == price \in 0..PriceCap /\ params \in ParamSets \cup NewParams
T == Target(params.maxGas, params.ratio)
On == ~Disabled(price, params.ratio) /\ T >= 1
IsEndBlock == blk' = blk + 1          \* (SetParams leaves blk alone)
\* The statement, clause by clause, as properties of every EndBlock step (used' = the gas the block used):
UpStep    == [][(IsEndBlock /\ On /\ used' > T) => price' >= Min(price + 1, MaxPrice)]_vars
DownStep  == [][(IsEndBlock /\ On /\ used' < T /\ price > params.init)
                  => (price' <= price - 1 /\ price' >= params.init)]_vars
FloorStep == [][(IsEndBlock /\ On /\ used' < T /\ price <= params.init) => price' = params.init]_vars
StayStep  == [][(IsEndBlock /\ (Disabled(price, params.ratio) \/ used' = T)) => price' = price]_vars
\* ... and as the clause interval the driver is given (lo..hi of GasPriceFn)
BoundsStep == [][IsEndBlock => /\ Lo(price, used', params.maxGas, params.ratio, params.init) <= price'
                               /\ price' <= Hi(price, used', params.maxGas, params.ratio, params.init)]_vars
\* issue #5906: the price never ratchets - an idle chain decays towards the floor block by block
NoRatchet == (On /\ price > params.init) => Out(0) < price

Emit == PrintT(<<"TRACE", ToJson(hist)>>)
EmitAtEnd == Len(hist) < MaxLen \/ Emit
EmitEdge == PrintT(<<"EDGE", ToJson(hist')>>)
=============================================================================
