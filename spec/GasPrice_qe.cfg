CONSTANTS
  MaxPrice = 2147483647
  ParamSets <- ParamsQ
  UsedVals <- UsedQ
  StartPrices <- PricesQ
  PriceCap = 30
  MaxLen = 2
  NewParams <- NoParams
INIT Init
NEXT Next
VIEW View
INVARIANTS TypeOK NoRatchet
PROPERTIES UpStep DownStep FloorStep StayStep BoundsStep
ACTION_CONSTRAINT EmitEdge
