---------------------------- MODULE OverflowB ----------------------------
(* C19, boundary classes. Overflow.tla says where each helper must flip between success and
   failure: where the exact result crosses MIN or MAX. This module partitions ALL operand pairs
   of a width by where they sit relative to that boundary, so that "the replay exercised the
   boundary everywhere" is a checkable statement and not a choice of a few type extremes:

     ClassId(op, x, y) = (op, sign x, magnitude band of x, sign y, magnitude band of y,
                          side of the exact result, near)
       magnitude band = number of thresholds 2^e <= |x|, e in {0, 1, 2, W/4, W/2-1, W/2, W/2+1,
                        3W/4, W-2, W-1} (so "both operands below half the word", "one just above
                        half", "top bit set", MIN itself ... are all distinct bands)
       side           = 0 result representable, 1 above MAX, 2 below MIN, 3 division by zero
       near           = 1 when the pair is adjacent to the boundary: changing y by at most 2 changes
                        the side (Add/Sub: result within 2 of a bound; Mul: result within |x|..2|x| of
                        a bound; Div: |y| <= 1)

   Uses (checks/c19.py):
   (V)  harness/cmd/overflow -mode sweep generates, for every integer type, operands from these
        boundaries (for every magnitude 2^k +- e, the partners y with x op y within +-2 steps of MAX
        and of MIN, square roots of the bounds, seeded random x of every bit length, one random
        pair per pair of bit lengths), calls the real helpers and records
        (op, x, y, required ok, required result, class). A sample of the records with one record of
        EVERY exercised class (and every record on which the real helper disagreed) is validated
        against Conforms by Apalache: the required outcome and the class claimed by the driver are
        the spec's.
   (G)  vacuity guard: Apalache is asked for an operand pair whose class is NOT in the exercised
        set; NoError = every class that is non-empty per this spec was exercised on
        the real code.                                                                        *)
EXTENDS Overflow

\* operations are numbered 0 Add, 1 Sub, 2 Mul, 3 Div
B2I(p) == IF p THEN 1 ELSE 0
HalfW == W \div 2
Band(m) ==
    B2I(m >= 1) + B2I(m >= 2) + B2I(m >= 4) + B2I(m >= 2^(W \div 4)) + B2I(m >= 2^(HalfW - 1))
  + B2I(m >= 2^HalfW) + B2I(m >= 2^(HalfW + 1)) + B2I(m >= 2^((3 * W) \div 4))
  + B2I(m >= 2^(W - 2)) + B2I(m >= 2^(W - 1))

\* exact result of operation o (Div: 0 when undefined; the divisor is made non-zero before the
\* division because Apalache's constant folding evaluates both branches of an IF)
Exact(o, x, y) == IF o = 0 THEN x + y
                  ELSE IF o = 1 THEN x - y
                  ELSE IF o = 2 THEN x * y
                  ELSE IF y = 0 THEN 0 ELSE TruncDiv(x, IF y = 0 THEN 1 ELSE y)
\* what C19 requires: success exactly when the exact result exists and is representable
ReqOk(o, x, y) == IF o = 3 /\ y = 0 THEN FALSE ELSE Rep(Exact(o, x, y))

Side(o, x, y) == IF o = 3 /\ y = 0 THEN 3
                 ELSE IF Exact(o, x, y) > MAX THEN 1
                 ELSE IF Exact(o, x, y) < MIN THEN 2
                 ELSE 0
Near(o, x, y) ==
  LET r == Exact(o, x, y) IN
  IF o = 0 \/ o = 1 THEN (MAX - 2 <= r /\ r <= MAX + 2) \/ (MIN - 2 <= r /\ r <= MIN + 2)
  ELSE IF o = 2 THEN x # 0 /\ ((MAX - 2 * Abs(x) < r /\ r <= MAX + 2 * Abs(x))
                              \/ (MIN - 2 * Abs(x) <= r /\ r < MIN + 2 * Abs(x)))
  ELSE Abs(y) <= 1

ClassId(o, x, y) ==
  (((((o * 2 + B2I(x < 0)) * 11 + Band(Abs(x))) * 2 + B2I(y < 0)) * 11 + Band(Abs(y))) * 4
     + Side(o, x, y)) * 2 + B2I(Near(o, x, y))

\* (V) one recorded evaluation: operands in range, the required outcome and the class are the spec's
Conforms(o, x, y, ok, r, c) ==
  /\ Rep(x) /\ Rep(y)
  /\ ok = ReqOk(o, x, y)
  /\ (ok => r = Exact(o, x, y))
  /\ c = ClassId(o, x, y)

\* (G) the generated guard module declares a variable op \in 0..3 next to a, b (Init of Overflow.tla)
\* and checks  ClassId(op, a, b) \in <exercised classes>  over all operand pairs.
=============================================================================
