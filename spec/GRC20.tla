---------------------------- MODULE GRC20 ----------------------------
(* C51. The GRC20 token package examples/gno.land/p/demo/tokens/grc20 (token.gno, tellers.gno).

   State: bal, allow, supply of ONE token ledger. One action per public call:
   PrivateLedger.{Mint, Burn, Transfer, Approve, TransferFrom, SpendAllowance} and the Teller
   methods {Transfer, Approve, TransferFrom} reached through the five teller constructors
   (ImpersonateTeller(a), RealmTeller, CallerTeller - the last two resolve to the account that
   runs the program, id 1 - and ReadonlyTeller). The operators L* follow the code's order of
   checks, so the error CLASS of a failing call is predicted too (guidance observable; only
   ok / not-ok, balances, allowances and supply are verdict observables).

   Amounts are abstract 0..Cap plus -1; Cap models math.MaxInt64. The driver embeds them either
   by n -> n * 2^k with Cap * 2^k <= MaxInt64 < (Cap+1) * 2^k (exact for the additive checks of
   the ledger) or by n -> n with a sink account pre-minted to MaxInt64 - Cap (true boundary).
   Account id 0 is the invalid (empty) address.

   The spec never adopts a defect: the code's TransferFrom spends the allowance BEFORE
   Transfer can still fail with ErrCannotTransferToSelf (owner = to); the property
   ("failing operations change nothing") requires the rejection to happen before anything is
   spent, which is what LTransferFrom does when AsCode = FALSE (the replayed configuration).
   AsCode = TRUE models the code literally and makes TLC exhibit the FailedIsNoOp violation
   (witness configuration GRC20_w.cfg, never replayed).                                        *)
EXTENDS Integers, Sequences, FiniteSets, TLC, Json

CONSTANTS NA,       \* valid accounts are 1..NA; 0 is the invalid address
          Cap,      \* abstract MaxInt64
          Amts,     \* amounts used as arguments (may contain -1)
          Vias,     \* subset of AllVias
          MaxLen,
          AsCode,   \* TRUE: TransferFrom exactly as written in token.gno (witness only)
          Quiet

AllVias == {"ledger", "imp", "realm", "caller", "ro"}
Valid == 1..NA
Addrs == 0..NA

VARIABLES bal,     \* [Valid -> 0..Cap]
          allow,   \* [Valid -> [Valid -> 0..Cap]]
          supply,
          last,    \* record of the last step (act, reply, arguments, pre-state) for the action properties
          steps,
          hist

vars == <<bal, allow, supply>>

RECURSIVE SumTo(_, _)
SumTo(f, i) == IF i = 0 THEN 0 ELSE f[i] + SumTo(f, i - 1)
Sum(f) == SumTo(f, NA)

\* ------------------------------------------------------------------ ledger operations
\* a ledger state is a record [bal, allow, supply]; every operation returns [s, err]
S0 == [bal |-> bal, allow |-> allow, supply |-> supply]
Ok(s) == [s |-> s, err |-> "ok"]
Err(s, e) == [s |-> s, err |-> e]
IsValid(a) == a \in Valid
BalOf(s, a) == IF IsValid(a) THEN s.bal[a] ELSE 0
AllowOf(s, o, sp) == IF IsValid(o) /\ IsValid(sp) THEN s.allow[o][sp] ELSE 0

LMint(s, a, n) ==
  IF ~IsValid(a) THEN Err(s, "addr")
  ELSE IF n < 0 THEN Err(s, "amount")
  ELSE IF n > Cap - s.supply THEN Err(s, "overflow")
  ELSE Ok([s EXCEPT !.supply = @ + n, !.bal[a] = @ + n])

LBurn(s, a, n) ==
  IF ~IsValid(a) THEN Err(s, "addr")
  ELSE IF n < 0 THEN Err(s, "amount")
  ELSE IF s.bal[a] < n THEN Err(s, "balance")
  ELSE Ok([s EXCEPT !.supply = @ - n, !.bal[a] = @ - n])

LTransfer(s, from, to, n) ==
  IF ~IsValid(from) THEN Err(s, "addr")
  ELSE IF ~IsValid(to) THEN Err(s, "addr")
  ELSE IF from = to THEN Err(s, "self")
  ELSE IF n < 0 THEN Err(s, "amount")
  ELSE IF s.bal[from] < n THEN Err(s, "balance")
  ELSE Ok([s EXCEPT !.bal[to] = @ + n, !.bal[from] = @ - n])

LApprove(s, o, sp, n) ==
  IF ~IsValid(o) \/ ~IsValid(sp) THEN Err(s, "addr")
  ELSE IF n < 0 THEN Err(s, "amount")
  ELSE Ok([s EXCEPT !.allow[o][sp] = n])

LSpend(s, o, sp, n) ==
  IF ~IsValid(o) \/ ~IsValid(sp) THEN Err(s, "addr")
  ELSE IF n < 0 THEN Err(s, "amount")
  ELSE IF n = 0 THEN Ok(s)
  ELSE IF s.allow[o][sp] < n THEN Err(s, "allowance")
  ELSE Ok([s EXCEPT !.allow[o][sp] = @ - n])

LTransferFrom(s, o, sp, to, n) ==
  IF n < 0 THEN Err(s, "amount")
  ELSE IF ~IsValid(o) \/ ~IsValid(to) THEN Err(s, "addr")
  ELSE IF s.bal[o] < n THEN Err(s, "balance")
  ELSE IF ~AsCode /\ o = to /\ IsValid(sp) /\ (n = 0 \/ s.allow[o][sp] >= n)
       THEN Err(s, "self")             \* the property: nothing is spent by a call that fails
  ELSE LET r1 == LSpend(s, o, sp, n) IN
       IF r1.err # "ok" THEN Err(s, r1.err)
       ELSE LET r2 == LTransfer(r1.s, o, to, n) IN
            IF r2.err # "ok" THEN Err(r1.s, r2.err)      \* only reachable when AsCode
            ELSE r2

\* ------------------------------------------------------------------ actions
Proj(s) == [supply |-> s.supply, bal |-> s.bal, allow |-> s.allow]

Step(rec, r) ==
  /\ steps < MaxLen
  /\ bal' = r.s.bal /\ allow' = r.s.allow /\ supply' = r.s.supply
  /\ steps' = steps + 1
  /\ last' = [act |-> rec.act, err |-> r.err, pre |-> S0, post |-> r.s, rec |-> rec]
  /\ hist' = IF Quiet THEN hist
             ELSE Append(hist, [x \in DOMAIN rec \cup {"reply", "st"} |->
                                  IF x = "reply" THEN r.err ELSE IF x = "st" THEN Proj(r.s) ELSE rec[x]])

Mint(a, n) == Step([act |-> "Mint", a |-> a, n |-> n], LMint(S0, a, n))
Burn(a, n) == Step([act |-> "Burn", a |-> a, n |-> n], LBurn(S0, a, n))
Spend(o, sp, n) == Step([act |-> "SpendAllowance", o |-> o, sp |-> sp, n |-> n], LSpend(S0, o, sp, n))

\* via = "ledger": PrivateLedger method with explicit accounts; "imp": ImpersonateTeller(actor);
\* "realm"/"caller": RealmTeller / CallerTeller (actor is account 1); "ro": ReadonlyTeller.
ViaOK(via, actor) == via \in Vias /\ (via \in {"realm", "caller", "ro"} => actor = 1)
Transfer(via, from, to, n) ==
  /\ ViaOK(via, from)
  /\ Step([act |-> "Transfer", via |-> via, from |-> from, to |-> to, n |-> n],
          IF via = "ro" THEN Err(S0, "readonly") ELSE LTransfer(S0, from, to, n))
Approve(via, o, sp, n) ==
  /\ ViaOK(via, o)
  /\ Step([act |-> "Approve", via |-> via, o |-> o, sp |-> sp, n |-> n],
          IF via = "ro" THEN Err(S0, "readonly") ELSE LApprove(S0, o, sp, n))
TransferFrom(via, o, sp, to, n) ==
  /\ ViaOK(via, sp)
  /\ Step([act |-> "TransferFrom", via |-> via, o |-> o, sp |-> sp, to |-> to, n |-> n],
          IF via = "ro" THEN Err(S0, "readonly") ELSE LTransferFrom(S0, o, sp, to, n))

Init == /\ bal = [a \in Valid |-> 0]
        /\ allow = [a \in Valid |-> [b \in Valid |-> 0]]
        /\ supply = 0
        /\ last = [act |-> "Init", err |-> "ok"]
        /\ steps = 0
        /\ hist = <<>>

Next == \/ \E a \in Addrs, n \in Amts : Mint(a, n) \/ Burn(a, n)
        \/ \E via \in Vias, a \in Addrs, b \in Addrs, n \in Amts : Transfer(via, a, b, n) \/ Approve(via, a, b, n)
        \/ \E via \in Vias, o \in Addrs, sp \in Addrs, to \in Addrs, n \in Amts : TransferFrom(via, o, sp, to, n)
        \/ \E o \in Addrs, sp \in Addrs, n \in Amts : Spend(o, sp, n)

Pick(S) == RandomElement({x \in S : steps >= 0})
SimNext == \/ Mint(Pick(Addrs), Pick(Amts)) \/ Mint(Pick(Valid), Pick(Amts \cap 1..Cap))
           \/ Burn(Pick(Addrs), Pick(Amts))
           \/ Transfer(Pick(Vias), Pick(Addrs), Pick(Addrs), Pick(Amts))
           \/ Transfer(Pick(Vias), Pick(Valid), Pick(Valid), Pick(Amts))
           \/ Approve(Pick(Vias), Pick(Addrs), Pick(Addrs), Pick(Amts))
           \/ Approve(Pick(Vias), Pick(Valid), Pick(Valid), Pick(Amts))
           \/ TransferFrom(Pick(Vias), Pick(Addrs), Pick(Addrs), Pick(Addrs), Pick(Amts))
           \/ TransferFrom(Pick(Vias), Pick(Valid), Pick(Valid), Pick(Valid), Pick(Amts))
           \/ Spend(Pick(Addrs), Pick(Addrs), Pick(Amts))

Spec == Init /\ [][Next]_<<vars, last, steps, hist>>
View == vars

\* ------------------------------------------------------------------ properties (C51)
TypeOK == /\ bal \in [Valid -> 0..Cap] /\ supply \in 0..Cap
          /\ allow \in [Valid -> [Valid -> 0..Cap \cup Amts]]
\* total supply equals the sum of balances (and never exceeds the int64 range)
SupplyEq == supply = Sum(bal)
\* The remaining clauses are action properties over the record of the step just taken (last'),
\* evaluated by TLC on EVERY transition (last is not part of the VIEW).
\* a failing operation changes nothing
FailedIsNoOpA == last'.err # "ok" => last'.post = last'.pre
\* transfers, approvals and allowance spending never create or destroy tokens
TransferNeutralA == last'.act \in {"Transfer", "TransferFrom", "Approve", "SpendAllowance"} =>
                     /\ last'.post.supply = last'.pre.supply
                     /\ Sum(last'.post.bal) = Sum(last'.pre.bal)
\* a successful transfer-from moves exactly n, never more than the allowance, which decreases by n
AllowanceHonouredA ==
  (last'.act = "TransferFrom" /\ last'.err = "ok") =>
     LET o == last'.rec.o  sp == last'.rec.sp  to == last'.rec.to  n == last'.rec.n
         pre == last'.pre  post == last'.post IN
     /\ n <= pre.allow[o][sp] \/ n = 0
     /\ post.allow[o][sp] = pre.allow[o][sp] - n
     /\ post.bal[o] = pre.bal[o] - n
     /\ post.bal[to] = pre.bal[to] + n
     /\ \A a \in Valid \ {o, to} : post.bal[a] = pre.bal[a]
     /\ \A a \in Valid, b \in Valid : <<a, b>> # <<o, sp>> => post.allow[a][b] = pre.allow[a][b]
\* mint / burn change the supply by exactly the amount, only on success
MintBurnExactA ==
  /\ (last'.act = "Mint" /\ last'.err = "ok") => last'.post.supply = last'.pre.supply + last'.rec.n
  /\ (last'.act = "Burn" /\ last'.err = "ok") => last'.post.supply = last'.pre.supply - last'.rec.n
FailedIsNoOp == [][FailedIsNoOpA]_<<vars, steps>>
TransferNeutral == [][TransferNeutralA]_<<vars, steps>>
AllowanceHonoured == [][AllowanceHonouredA]_<<vars, steps>>
MintBurnExact == [][MintBurnExactA]_<<vars, steps>>

Emit == PrintT(<<"TRACE", ToJson(hist)>>)
EmitAtEnd == steps < MaxLen \/ Emit
EmitEdge == PrintT(<<"EDGE", ToJson(hist')>>)
=============================================================================
