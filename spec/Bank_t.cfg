SPECIFICATION Spec
CONSTANTS
  Addrs <- A3
  Amts <- Amt01
  Cap = 100
  MaxLen = 4
  MaxTime = 5
  RawOps = FALSE
  IOIns <- InsQ3
  IOOuts <- OutsQ3
  Genesis <- Gen1
VIEW View
INVARIANTS SupplyEq BalanceWellFormed SupplyWellFormed HolderHasAccount NumsUnique
PROPERTIES OnlyMintBurnChangeSupply TransferNeutral MintBurnExact FailedChangesNothing AccountsStable
