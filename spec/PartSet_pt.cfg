CONSTANTS
  Totals <- Tpt
  Classes <- ClsGood
  Mode = "perm"
  MaxLen = 9
INIT Init
NEXT Next

INVARIANTS TypeOK CountIsCard CompleteIffAll OnlyGoodStored ReassembledEqualsOriginal
PROPERTIES StepShape
ACTION_CONSTRAINT EmitEdge
