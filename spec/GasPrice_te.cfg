CONSTANTS
  MaxPrice = 2147483647
  ParamSets <- ParamsT
  UsedVals <- UsedT
  StartPrices <- PricesT
  PriceCap = 40
  MaxLen = 2
  NewParams <- NoParams
INIT Init
NEXT Next
VIEW View
INVARIANTS TypeOK NoRatchet
PROPERTIES UpStep DownStep FloorStep StayStep BoundsStep
ACTION_CONSTRAINT EmitEdge
