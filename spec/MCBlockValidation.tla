---------------------------- MODULE MCBlockValidation ----------------------------
EXTENDS BlockValidation
Sit(n, g, lp, vk, re) == [name |-> n, genesis |-> g, lastPow |-> lp, valKeys |-> vk, resEmpty |-> re, kind |-> "full"]
QSit(n, lp) == [name |-> n, genesis |-> FALSE, lastPow |-> lp, valKeys |-> {1, 2, 3, 4}, resEmpty |-> TRUE, kind |-> "quorum"]
FullSits == { Sit("gen1", TRUE, <<>>, {1, 2, 3, 4}, TRUE),                \* genesis block, initial height 1
              Sit("gen5", TRUE, <<>>, {1, 2, 3}, TRUE),                   \* genesis block of a chain with initial height 5
              Sit("second", FALSE, <<1, 2, 3, 4>>, {1, 2, 3, 4}, FALSE),  \* block 2 (total 10 = 1 mod 3)
              Sit("later", FALSE, <<10, 1, 1, 1>>, {1, 2, 3}, TRUE) }     \* block 8, validator 4 left the set (13 = 1 mod 3)
\* quorum situations: total power T = 0, 1, 2 mod 3; tallies of exactly floor(2T/3), floor(2T/3)+1, T are all reachable
QSits == { QSit("q4", <<1, 1, 1, 1>>),              \* T = 4  (1 mod 3): 2 rejected, 3 accepted
           QSit("q5", <<1, 1, 1, 1, 1>>),           \* T = 5  (2 mod 3): 3 rejected, 4 accepted
           QSit("q7", <<1, 1, 1, 1, 1, 1, 1>>),     \* T = 7  (1 mod 3): 4 rejected, 5 accepted
           QSit("q113", <<1, 1, 3>>),               \* T = 5  (2 mod 3): 3 rejected, 4 accepted
           QSit("q233", <<2, 3, 3>>),               \* T = 8  (2 mod 3): 5 rejected, 6 accepted
           QSit("q1113", <<1, 1, 1, 3>>) }          \* T = 6  (0 mod 3): 4 rejected, 5 accepted
AllSits == FullSits \cup QSits
M(f, v) == [f |-> f, v |-> v]
Names == {s.name : s \in AllSits}
\* every way of blanking / making stray a subset of the n precommits
Subsets(n, cls) == { {M(EName(i), f[i]) : i \in {j \in 1..n : f[j] # "ok"}} : f \in [1..n -> {"ok"} \cup cls] }
\* relabelled ValidatorIndex fields give the late precommit of the weakest validator the weight of the strongest
Extras == [n \in Names |->
   CASE n = "later" -> { {M("e1", "ix1A"), M("e4", "ixtsA"), M("time", "alt")},
                         {M("e1", "ix1A"), M("e4", "ixtsA")},
                         {M("e2", "nil"), M("e3", "nil"), M("e4", "nil")},
                         {M("e1", "nil"), M("e2", "okB"), M("e3", "okNil")} }
     [] n = "q4" -> Subsets(4, {"nil", "okB"})
     [] n = "q5" -> Subsets(5, {"nil", "okB"})
     [] n = "q7" -> Subsets(7, {"nil"}) \cup Subsets(7, {"okB"})
     [] n = "q113" -> Subsets(3, {"nil", "okB", "okNil"})
     [] n = "q233" -> Subsets(3, {"nil", "okB", "okNil"})
     [] n = "q1113" -> Subsets(4, {"nil", "okB"})
     [] OTHER -> {}]
PairsQ == {"gen1", "second"}
PairsT == {"gen1", "gen5", "second", "later"}
FieldsQ == Fields \ {"e2", "e3"}
FieldsT == Fields
=============================================================================
