---------------------------- MODULE MCBlockValidation ----------------------------
EXTENDS BlockValidation
Sit(n, g, lp, vk, re) == [name |-> n, genesis |-> g, lastPow |-> lp, valKeys |-> vk, resEmpty |-> re]
AllSits == { Sit("gen1", TRUE, <<0, 0, 0, 0>>, {1, 2, 3, 4}, TRUE),      \* genesis block, initial height 1
             Sit("gen5", TRUE, <<0, 0, 0, 0>>, {1, 2, 3}, TRUE),         \* genesis block of a chain with initial height 5
             Sit("second", FALSE, <<1, 2, 3, 4>>, {1, 2, 3, 4}, FALSE),  \* block 2
             Sit("later", FALSE, <<10, 1, 1, 1>>, {1, 2, 3}, TRUE) }     \* block 8, validator 4 left the set
M(f, v) == [f |-> f, v |-> v]
Names == {"gen1", "gen5", "second", "later"}
\* relabelled ValidatorIndex fields give the late precommit of the weakest validator the weight of the strongest
Extras == [n \in Names |-> IF n = "later" THEN { {M("e1", "ix1A"), M("e4", "ixtsA"), M("time", "alt")},
                                                 {M("e1", "ix1A"), M("e4", "ixtsA")},
                                                 {M("e2", "nil"), M("e3", "nil"), M("e4", "nil")},
                                                 {M("e1", "nil"), M("e2", "okB"), M("e3", "okNil")} }
                           ELSE {}]
PairsQ == {"gen1", "second"}
PairsT == Names
FieldsQ == Fields \ {"e2", "e3"}
FieldsT == Fields
=============================================================================
