CONSTANTS
  MaxH = 6
  MaxMsgs = 14
  MaxFiles = 12
  MaxLen = 30
  MaxCrash = 2
  MaxCorrupt = 2
INIT Init
NEXT Next
VIEW View
INVARIANTS TypeOK ReadIsSubsequence ReadComplete NothingInvented SyncedDurable MarkersUnique
INVARIANT EmitAtEnd
