CONSTANTS
  MaxH = 8
  MaxMsgs = 30
  MaxFiles = 12
  MaxLen = 30
  MaxCrash = 2
  MaxCorrupt = 2
INIT Init
NEXT Next
VIEW View
INVARIANTS TypeOK ReadIsSubsequence ReadComplete NothingInvented SyncedDurable MarkersUnique
INVARIANT EmitAtEnd
