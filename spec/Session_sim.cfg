SPECIFICATION Spec
CONSTANTS
  Sess <- S2
  Menu <- MenuT
  MixMenu <- MixQ
  Creates <- CreatesQ
  Fees <- F12
  Pre <- PreA
  MaxTime = 6
  MaxLen = 9
VIEW View
INVARIANTS TypeOK WithinLimit UsedCovers
PROPERTIES DeadAuthorizesNothing RejectIsFree StepWithinBudget Independent RestrictionsEverywhere
INVARIANT EmitAtEnd
