CONSTANTS
  NVals = 3
  MaxRound = 2
  Peers <- P1
  Blocks <- BAN
  MaxLen = 3
INIT Init
NEXT Next
VIEW View
INVARIANTS TrackedPrefix CatchupBounded ExtraRoundsAreCatchup VotesOnlyInTracked
PROPERTIES RoundMonotone
ACTION_CONSTRAINT EmitEdge
