CONSTANTS
  Pkgs <- MCPkgs
  KindOfC <- MCKindOf
  CtxsC <- MCCtxs
  PathsC <- MCPaths
  WritesC <- MCWrites
  Victim = "R"
  ConvertGuard = TRUE
  EphemeralIsRealm = TRUE
  MaxDepth = 6
  MaxFvals = 0
  Shapes = TRUE
INIT Init
NEXT Next
VIEW View
INVARIANTS VerdictShapesBlocked ControlsMutate ShapeAgreesWithMachine
ACTION_CONSTRAINT EmitEdge
