---------------------------- MODULE Multisig ----------------------------
(* C44 (threshold logic). Mirrors tm2/pkg/crypto/multisig:
     multisignature.go   NewMultisig, Multisignature.AddSignature          (honest construction)
     threshold_pubkey.go PubKeyMultisigThreshold.VerifyBytes               (operator Algo, same check order)
     bitarray/compact_bit_array.go Size / GetIndex / NumTrueBitsBefore     (byte-level encoding:
                          ExtraBitsStored = extra, len(Elems) = nel, storage bits = marks)
   and the adversary who edits the decoded Multisignature before it is amino-encoded again
   (drop / append signatures, flip storage bits, change ExtraBitsStored, truncate / extend Elems,
   nil bit array).  Member signatures are abstract: sig value j in 1..n = a signature over the message that
   is valid for member key j, 0 = bytes that are valid for no key (the driver realises 0 as bit flip,
   empty, truncated, over-long, signature over another message).

   The PROPERTY is operator Accept; Algo is the implementation's sequence of checks with the two places
   where the code indexes without a bound replaced by what the property demands ("returns false instead
   of panicking").  Invariant AlgoIsProperty ties the two together for every reachable shape; every step's
   record carries acc = Accept of the post-state, which the driver compares with the real VerifyBytes.

   Named deviations (code is deliberately stricter than a naive reading; modelled as documented):
   * "ensure size of signature list": a list shorter than k or longer than n is rejected whatever the
     bits say (threshold_pubkey.go:62).  Surplus signatures inside that window (more signatures than
     marked positions) are ignored, as the statement only constrains marked positions.
   * AddSignature is the honest builder's call: it is only taken on a well-formed bit array whose
     signature list matches its marks and with index < size ("behaviour undefined" otherwise).        *)
EXTENDS Integers, Sequences, FiniteSets, TLC, Json

CONSTANTS NK,        \* set of <<n, k>> pairs (multisig public keys explored)
          Extras,    \* values the adversary writes into ExtraBitsStored
          MaxNel,    \* Elems lengths 0..MaxNel
          MaxLen     \* bound on history length

VARIABLES n, k,      \* the k-of-n public key
          ms,        \* the multisignature: [nil, extra, nel, marks, sigs]
          honest,    \* ghost: only AddSignature with the position's own valid signature was used
          hist,
          fin        \* simulation only: set by Finish so that one behaviour is emitted per trace

vars == <<n, k, ms, honest>>
View == vars

\* ------------------------------------------------------------------ compact bit array (byte level)
SizeOf(m) == IF m.nil THEN 0 ELSE IF m.extra = 0 THEN 8 * m.nel ELSE 8 * (m.nel - 1) + m.extra
Stored(m, i) == i >= 0 /\ i < 8 * m.nel                  \* the byte Elems[i>>3] exists
Consistent(m) == SizeOf(m) <= 8 * m.nel                   \* = \A i \in 0..SizeOf(m)-1 : Stored(m, i)
Get(m, i) == i < SizeOf(m) /\ i \in m.marks              \* GetIndex; only evaluated when Stored
Marked(m) == {i \in m.marks : i < SizeOf(m)}
NumTrueBefore(m, j) == Cardinality({i \in Marked(m) : i < j})
Rank(m, i) == NumTrueBefore(m, i) + 1                    \* 1-based position in the signature list

\* ------------------------------------------------------------------ the property
Accept(nn, kk, m) ==
  /\ SizeOf(m) = nn
  /\ Consistent(m)
  /\ Len(m.sigs) >= kk /\ Len(m.sigs) <= nn               \* documented shape rule
  /\ Cardinality(Marked(m)) >= kk
  /\ \A i \in Marked(m) : Rank(m, i) <= Len(m.sigs) /\ m.sigs[Rank(m, i)] = i + 1

\* ------------------------------------------------------------------ VerifyBytes, check by check
RECURSIVE Loop(_, _, _)
Loop(m, i, si) ==                                         \* si = sigIndex
  IF i >= SizeOf(m) THEN TRUE
  ELSE IF Get(m, i)
       THEN IF si >= Len(m.sigs) THEN FALSE               \* marked position without a signature (code: F4 indexes past the list)
            ELSE IF m.sigs[si + 1] # i + 1 THEN FALSE     \* PubKeys[i].VerifyBytes(msg, Sigs[sigIndex])
            ELSE Loop(m, i + 1, si + 1)
       ELSE Loop(m, i + 1, si)

Algo(nn, kk, m) ==
  IF SizeOf(m) # nn THEN FALSE                            \* len(pk.PubKeys) != size
  ELSE IF Len(m.sigs) < kk \/ Len(m.sigs) > SizeOf(m) THEN FALSE
  ELSE IF ~Consistent(m) THEN FALSE                       \* self-inconsistent encoding (code: F7 indexes past Elems)
  ELSE IF NumTrueBefore(m, SizeOf(m)) < kk THEN FALSE
  ELSE Loop(m, 0, 0)

\* shape class of a multisignature, used by the driver to key panics
Shape(nn, m) == IF m.nil THEN "nil"
                ELSE IF ~Consistent(m) THEN "malformed-bitarray"
                ELSE IF Cardinality(Marked(m)) > Len(m.sigs) THEN "marked>sigs"
                ELSE IF SizeOf(m) > nn THEN "bits>keys"
                ELSE "ok"

\* ------------------------------------------------------------------ records
Proj(nn, kk, m) == [nil |-> m.nil, size |-> SizeOf(m), extra |-> m.extra, nel |-> m.nel,
                    marks |-> m.marks, sigs |-> m.sigs, shape |-> Shape(nn, m)]
Rec(a, i, s, m) == [act |-> a, i |-> i, s |-> s, acc |-> Accept(n, k, m), st |-> Proj(n, k, m)]

Fresh(nn) == [nil |-> FALSE, extra |-> nn % 8, nel |-> (nn + 7) \div 8, marks |-> {}, sigs |-> <<>>]

Init ==
  /\ \E p \in NK : n = p[1] /\ k = p[2]
  /\ ms = Fresh(n)
  /\ honest = TRUE
  /\ fin = FALSE
  /\ hist = << [act |-> "New", i |-> n, s |-> k, acc |-> FALSE, st |-> Proj(n, k, Fresh(n))] >>

Step(a, i, s, m, h) ==
  /\ ms' = m
  /\ honest' = h
  /\ UNCHANGED <<n, k, fin>>
  /\ hist' = Append(hist, Rec(a, i, s, m))

InsertAt(q, p, x) == SubSeq(q, 1, p - 1) \o <<x>> \o SubSeq(q, p, Len(q))
RemoveAt(q, p) == SubSeq(q, 1, p - 1) \o SubSeq(q, p + 1, Len(q))

\* Multisignature.AddSignature(sig, index)
AddSignature(i, s) ==
  /\ Len(hist) < MaxLen
  /\ ~ms.nil /\ Consistent(ms) /\ ms.extra < 8
  /\ i \in 0..(SizeOf(ms) - 1)
  /\ Len(ms.sigs) = Cardinality(Marked(ms))
  /\ LET p == Rank(ms, i)
         m == IF Get(ms, i) THEN [ms EXCEPT !.sigs[p] = s]
              ELSE [ms EXCEPT !.marks = @ \cup {i}, !.sigs = InsertAt(@, p, s)]
     IN Step("AddSignature", i, s, m, honest /\ s = i + 1)

DropSig(p) ==
  /\ Len(hist) < MaxLen
  /\ p \in 1..Len(ms.sigs)
  /\ Step("DropSig", p, 0, [ms EXCEPT !.sigs = RemoveAt(@, p)], FALSE)

AppendSig(s) ==
  /\ Len(hist) < MaxLen
  /\ Len(ms.sigs) <= n
  /\ Step("AppendSig", 0, s, [ms EXCEPT !.sigs = Append(@, s)], FALSE)

FlipBit(i) ==
  /\ Len(hist) < MaxLen
  /\ ~ms.nil /\ Stored(ms, i)
  /\ Step("FlipBit", i, 0, [ms EXCEPT !.marks = IF i \in @ THEN @ \ {i} ELSE @ \cup {i}], FALSE)

SetExtra(e) ==
  /\ Len(hist) < MaxLen
  /\ ~ms.nil /\ e # ms.extra
  /\ Step("SetExtra", e, 0, [ms EXCEPT !.extra = e], FALSE)

SetNel(c) ==
  /\ Len(hist) < MaxLen
  /\ ~ms.nil /\ c # ms.nel
  /\ Step("SetNel", c, 0, [ms EXCEPT !.nel = c, !.marks = {x \in @ : x < 8 * c}], FALSE)

NilBits ==
  /\ Len(hist) < MaxLen
  /\ ~ms.nil
  /\ Step("NilBits", 0, 0, [ms EXCEPT !.nil = TRUE, !.extra = 0, !.nel = 0, !.marks = {}], FALSE)

\* single-key clause: member key i+1 verifying signature s; stateless, taken from the initial state only
VerifyMember(i, s) ==
  /\ Len(hist) = 1
  /\ i \in 0..(n - 1)
  /\ UNCHANGED <<vars, fin>>
  /\ hist' = Append(hist, [act |-> "VerifyMember", i |-> i, s |-> s, acc |-> (s = i + 1), st |-> Proj(n, k, ms)])

SigVals(i) == {0, i + 1, ((i + 1) % n) + 1}               \* invalid, own key, another member's key
Next ==
  \/ \E i \in 0..(n - 1) : \E s \in SigVals(i) : AddSignature(i, s)
  \/ \E p \in 1..(n + 1) : DropSig(p)
  \/ \E s \in 0..n : AppendSig(s)
  \/ \E i \in 0..n : FlipBit(i)
  \/ \E e \in Extras : SetExtra(e)
  \/ \E c \in 0..MaxNel : SetNel(c)
  \/ NilBits
  \/ \E i \in 0..(n - 1) : \E s \in 0..n : VerifyMember(i, s)

\* simulation: TLC evaluates invariants on every generated successor, so emission is tied to a last step
\* that has exactly one successor
Finish == Len(hist) >= MaxLen /\ ~fin /\ fin' = TRUE /\ UNCHANGED <<vars, hist>>
NextSim == Next \/ Finish
Spec == Init /\ [][Next]_<<vars, hist, fin>>

\* ------------------------------------------------------------------ invariants
TypeOK == /\ ms.nil \in BOOLEAN /\ ms.extra \in Nat /\ ms.nel \in 0..MaxNel
          /\ ms.marks \subseteq 0..(8 * MaxNel) /\ \A p \in 1..Len(ms.sigs) : ms.sigs[p] \in 0..n
          /\ k \in 1..n
\* the implementation's check sequence decides exactly the property, for every shape
AlgoIsProperty == Algo(n, k, ms) = Accept(n, k, ms)
\* honest construction: accepted exactly from the k-th distinct signer on, list matches marks
HonestExact == honest => /\ Len(ms.sigs) = Cardinality(Marked(ms))
                         /\ (Accept(n, k, ms) <=> Cardinality(Marked(ms)) >= k)
\* acceptance implies valid signatures of at least k distinct member keys are present
Signers(m) == {j \in 1..n : \E p \in 1..Len(m.sigs) : m.sigs[p] = j}
NoForgery == Accept(n, k, ms) => Cardinality(Signers(ms)) >= k
\* an invalid or foreign signature on a marked position is never tolerated
MarkedAllValid == Accept(n, k, ms) => \A i \in Marked(ms) : ms.sigs[Rank(ms, i)] = i + 1

Emit == PrintT(<<"TRACE", ToJson(hist)>>)
EmitAtEnd == ~fin \/ Emit
EmitEdge == PrintT(<<"EDGE", ToJson(hist')>>)
=============================================================================
