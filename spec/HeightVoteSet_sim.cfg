CONSTANTS
  NVals = 3
  MaxRound = 3
  Peers <- P2
  Blocks <- BAN
  MaxLen = 12
INIT Init
NEXT Next
VIEW View
INVARIANTS TrackedPrefix CatchupBounded ExtraRoundsAreCatchup VotesOnlyInTracked
INVARIANT EmitAtEnd
