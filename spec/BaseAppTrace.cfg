CONSTANTS
  Users <- TUsers
  Others <- TOthers
  Vars <- TVars
  GasNeeds = {}
  FlushFirst = FALSE
  CompareState = TRUE
INIT TraceInit
NEXT TraceNext
CONSTRAINT HighWater
INVARIANTS Atomic GasUsedLeWanted OkWithinBlock NoTxAfterExhausted NonNegative
POSTCONDITION Accepted
CHECK_DEADLOCK FALSE
