CONSTANTS
  Keys <- K2
  Vals <- V1
  MaxVer = 3
  Direct = TRUE
  Keep <- KeepAll
  NLoads = 0
  Abandon = FALSE
  Toggle = TRUE
  RemoveDeletesEntry = TRUE
  VersionGuard = TRUE
  StampGate = TRUE
  ReaderMaintains = FALSE
  StampAheadRebuilds = FALSE
  MaxLen = 10
INIT Init
NEXT Next
VIEW StateView
INVARIANTS TypeOK LiveSound ImmSound QuerySound ReaderSound StampNeverAhead
PROPERTIES LoaderLeavesDisk
ACTION_CONSTRAINT EmitEdge
