CONSTANTS
  NK = 6
  NV = 1
  MaxLen = 8
  Reads <- ReadsPoint
  Lims <- Lims0
  Grow = 0
  Quiet = FALSE
INIT Init
NEXT Next
VIEW View
INVARIANTS TypeOK Refines Balanced WellFormed
ACTION_CONSTRAINT EmitEdge
