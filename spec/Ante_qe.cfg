SPECIFICATION Spec
CONSTANTS
  Kinds <- AllKinds
  Muts <- AllMuts
  TxMuts <- AllTxMuts
  SubWheres <- W2
  ReWheres <- AllWheres
  MaxLen = 2
VIEW View
INVARIANTS TypeOK Conservation
PROPERTIES NoReplay SeqBumpedExactlyOnce AnteRejectIsNoOp OnlyValidTakeEffect SeqMonotone
ACTION_CONSTRAINT EmitEdge
