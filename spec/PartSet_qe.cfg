CONSTANTS
  Totals <- Tq
  Classes <- ClsAll
  Mode = "all"
  MaxLen = 10
INIT Init
NEXT Next
VIEW View
INVARIANTS TypeOK CountIsCard CompleteIffAll OnlyGoodStored ReassembledEqualsOriginal
PROPERTIES StepShape
ACTION_CONSTRAINT EmitEdge
