---------------------------- MODULE CListSeq ----------------------------
(* C49. The SEQUENTIAL specification of tm2/pkg/clist for the forward-traversal interface
   (PushBack, Remove, Front/FrontWait, Next/NextWait, Len, DetachPrev/DetachNext): pure operators
   over an abstract list value, no variables.  It is used twice:
     * CList.tla (lock-granularity model of clist.go) carries a ghost copy of this value, updated at
       the linearisation point of every writer, and TLC checks that what every reader reads equals
       what this module answers in every reachable state (=> linearisable, fixed linearisation points);
     * CListTrace.tla searches a linearisation of call/return histories recorded from the real code.

   Elements are positive integers (the Value pushed); 0 stands for nil.

   Named deviation from a naive reading of "removed elements are never returned as next elements":
   Remove(e) leaves e.next untouched ("Traversal from a CElement is goroutine-safe" — a traverser
   standing on e must be able to go on), so e keeps pointing at the successor it had when it was
   removed; if that successor is removed later, Next(e) still returns it.  The guarantee the code
   gives, and this module states, is: Next of a LIVE element is live; Next of a removed element is
   the element that followed it at the moment of its removal (fnext).                            *)
EXTENDS Integers, Sequences, FiniteSets

\* abstract list: live elements in insertion order, removed elements with their frozen successor
SeqInit == [live |-> <<>>, rem |-> {}, fnext |-> [x \in {} |-> 0]]

IndexOf(s, e) == CHOOSE i \in 1..Len(s) : s[i] = e
InSeq(e, s) == \E i \in 1..Len(s) : s[i] = e
IsLive(a, e) == InSeq(e, a.live)
Succ(a, e) == IF ~IsLive(a, e) THEN 0
              ELSE LET i == IndexOf(a.live, e) IN IF i = Len(a.live) THEN 0 ELSE a.live[i + 1]
Frozen(a, e) == IF e \in DOMAIN a.fnext THEN a.fnext[e] ELSE 0

SeqFront(a) == IF a.live = <<>> THEN 0 ELSE a.live[1]
SeqLen(a) == Len(a.live)
SeqNext(a, e) == IF e \in a.rem THEN Frozen(a, e) ELSE Succ(a, e)
\* NextWait(e) may return iff e has a successor or e is removed; FrontWait iff the list is not empty
CanNextWait(a, e) == SeqNext(a, e) # 0 \/ e \in a.rem
CanFrontWait(a) == a.live # <<>>

\* e must be fresh
SeqPushBack(a, e) == [a EXCEPT !.live = Append(@, e)]
\* e must be live
SeqRemove(a, e) == [live |-> SelectSeq(a.live, LAMBDA x : x # e),
                    rem |-> a.rem \cup {e},
                    fnext |-> [x \in DOMAIN a.fnext \cup {e} |-> IF x = e THEN Succ(a, e) ELSE a.fnext[x]]]
\* e must be removed
SeqDetachNext(a, e) == [a EXCEPT !.fnext = [x \in DOMAIN a.fnext |-> IF x = e THEN 0 ELSE a.fnext[x]]]

\* well-formedness of an abstract list value
SeqOK(a) == /\ \A i, j \in 1..Len(a.live) : i # j => a.live[i] # a.live[j]
            /\ \A i \in 1..Len(a.live) : a.live[i] \notin a.rem
            /\ DOMAIN a.fnext = a.rem
=============================================================================
