---------------------------- MODULE MCParams ----------------------------
EXTENDS Params
KeysAll == {"plain", "plain2", "slash", "otherrealm", "p", "unicode", "space", "nul", "dots", "metaforge", "long", "empty"} \cup ColonKeys
KeysCore == {"plain", "otherrealm", "colon", "modvm", "empty"}
=============================================================================
