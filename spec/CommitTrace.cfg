CONSTANTS
  MaxVer = 12
  NQ = 0
  NCheck = 0
  QKinds <- KNone
  Orders <- OAll
  Crashes = TRUE
  Snapshots = FALSE
  Fine = FALSE
  AtomicResolve = FALSE
  Coarse = FALSE
  Keep <- KeepAll
  StoreDirect = FALSE
  MetaDirect = FALSE
  MaxLen = 100000
INIT TraceInit
NEXT TraceNext
VIEW TraceView
CONSTRAINT HighWater
INVARIANTS TypeOK Recoverable RecoveredVersion
POSTCONDITION Accepted
CHECK_DEADLOCK FALSE
