------------------------------- MODULE MCMConn -------------------------------
EXTENDS MConn
Ch12 == {1, 2}
Ch1 == {1}
\* channel 2 cannot take a message of 5 bytes (2 full packets + 1): "message over capacity"
Cap12 == (1 :> 8) @@ (2 :> 4)
Cap1 == (1 :> 4)
Lens == {0, 1, 2, 3, 5}
LensCore == {0, 2, 3}
InjAll == {"ping", "unknownch", "garbage"}
InjNone == {}
InjBad == {"unknownch"}
InjPing == {"ping"}
Lens03 == {0, 3}
Lens05 == {0, 5}
OnlyA == {"A"}
Both == {"A", "B"}
NoSide == {}
\* configurations of the recorded runs (harness/cmd/mconn): channel 2 takes at most 2 full packets + 10 bytes
Ch123 == {1, 2, 3}
CapK1 == (1 :> 1000000) @@ (2 :> 2058) @@ (3 :> 1000000)
CapK2 == (1 :> 1000000) @@ (2 :> 42) @@ (3 :> 1000000)
InjTrace == {"ping", "pong", "unknownch", "garbage", "oversize"}
=============================================================================
