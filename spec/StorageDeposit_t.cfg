CONSTANTS
  Realms <- MRealms
  RealmOrder <- MOrder
  Accounts <- MAccounts
  Collector = "coll"
  DefaultLimit = 8
  DiffVals <- MDiffsQ
  ParamVals <- MParams
  PriceVals = {1, 2}
  LimitVals = {0, 3}
  MaxLen = 3
  InitBal = 10
INIT Init
NEXT Next
VIEW view
INVARIANTS DepositBacked NonNegative FreeAllRefundsAll StorageIsSum
PROPERTIES TooSmallLimitFails ChargedAtMsgStartPrice Conserved
CHECK_DEADLOCK FALSE
