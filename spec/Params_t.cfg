CONSTANTS
  Keys <- KeysCore
  MaxLen = 5
  Quiet = TRUE
INIT Init
NEXT Next
VIEW View
INVARIANTS TypeOK StoredValuesValid StoredKeysWellFormed
PROPERTIES WritesStayInOwnNamespace ModuleParamsOnlyViaSysRealm RejectedIsNoOp

