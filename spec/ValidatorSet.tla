---------------------------- MODULE ValidatorSet ----------------------------
(* C37. Transcription of tm2/pkg/bft/types/validator_set.go: NewValidatorSet,
   IncrementProposerPriority (RescalePriorities, shiftByAvgProposerPriority,
   incrementProposerPriority, tie-break of Validator.CompareProposerPriority) and
   updateWithChangeSet (validation, processChanges, verifyRemovals, verifyUpdates,
   computeNewPriorities, applyUpdates, applyRemovals, rescale + centre).
   One action per public call; vals mirrors ValidatorSet.Validators (sorted by address; a
   validator is a pool key k = its rank in address order), proposer mirrors the Proposer field.

   Division: Go's `/` on int64 truncates toward zero (TruncDiv: RescalePriorities, both the
   ratio and priority/ratio); big.Int.Div is Euclidean (EuclidDiv: computeAvgProposerPriority;
   the divisor n > 0, so it equals floor); `>> 3` on the non-negative total is floor. TLA+ \div
   floors, so TruncDiv is spelled out.

   Named deviations / readings (DESIGN 4.3):
   * Fairness ("every window of `total` consecutive heights") is stated for a set that has not
     been updated since NewValidatorSet (ghost `fresh`); after an update the newcomer starts at
     -1.125*total by design and the first windows are deliberately not proportional.
   * verifyUpdates adds the updates in address order to the total BEFORE removals and rejects at
     the first partial sum above MaxTotalVotingPower (documented in UpdateWithChangeSet); modelled
     as is, so an update set whose final total fits can still be rejected.
   * updateWithChangeSet does not touch the Proposer field (it may keep naming a removed
     validator until the next increment); modelled as is, proposer compared by address only.
   * safeAddClip/safeSubClip never clip while total <= MaxTotalVotingPower (code comment at the
     constant); clipping is not modelled. MaxTotal is a constant of the spec: the driver maps a
     model power p > MaxTotal \div 2 to MaxTotalVotingPower - (MaxTotal - p), which preserves
     every comparison against the bound; behaviours that contain such a power are marked
     exact = FALSE and only membership, powers and accept/reject are compared for them.  *)
EXTENDS Integers, Sequences, FiniteSets, TLC, Json, SequencesExt

CONSTANTS P,          \* pool size: validators are keys 1..P in address order
          InitSets,   \* set of power vectors over the pool (0 = not a member) for New
          ChangeLists,\* set of change lists for Update: sequences of [k, pow, cls]
          Times,      \* set of `times` arguments for Incr
          MaxTotal,   \* MaxTotalVotingPower of the model
          MaxLen,     \* bound on hist
          FairOnly    \* TRUE: only New + Incr(1), run until 2*total+1 increments (fairness cfg)

VARIABLES vals,       \* sequence of [k, pow, prio] sorted by k
          proposer,   \* key of the Proposer field, 0 = nil
          made,       \* a set has been constructed
          fresh,      \* no Update since New (ghost)
          props,      \* proposers of the single increments since New (ghost, for Fairness)
          exact,      \* no power beyond MaxTotal \div 2 was used so far (priorities comparable)
          hist
vars == <<vals, proposer, made, fresh, props, exact>>

\* ------------------------------------------------------------- arithmetic of the code
TruncDiv(a, b) == IF a >= 0 THEN a \div b ELSE -((-a) \div b)      \* Go int64 `/`, b > 0
EuclidDiv(a, b) == a \div b                                        \* big.Int.Div, b > 0
Shr3(a) == a \div 8                                                \* a >> 3, a >= 0

RECURSIVE SumPow(_), SumPrio(_)
SumPow(vs) == IF Len(vs) = 0 THEN 0 ELSE vs[1].pow + SumPow(Tail(vs))
SumPrio(vs) == IF Len(vs) = 0 THEN 0 ELSE vs[1].prio + SumPrio(Tail(vs))
Total(vs) == SumPow(vs)
MaxPrio(vs) == CHOOSE x \in {vs[i].prio : i \in 1..Len(vs)} : \A j \in 1..Len(vs) : vs[j].prio <= x
MinPrio(vs) == CHOOSE x \in {vs[i].prio : i \in 1..Len(vs)} : \A j \in 1..Len(vs) : vs[j].prio >= x
Diff(vs) == MaxPrio(vs) - MinPrio(vs)                              \* computeMaxMinPriorityDiff

\* RescalePriorities(diffMax)
Rescale(vs, diffMax) ==
  IF diffMax <= 0 THEN vs
  ELSE LET diff == Diff(vs) ratio == TruncDiv(diff + diffMax - 1, diffMax) IN
       IF diff > diffMax THEN [i \in 1..Len(vs) |-> [vs[i] EXCEPT !.prio = TruncDiv(@, ratio)]] ELSE vs
\* shiftByAvgProposerPriority
Avg(vs) == EuclidDiv(SumPrio(vs), Len(vs))
Shift(vs) == LET a == Avg(vs) IN [i \in 1..Len(vs) |-> [vs[i] EXCEPT !.prio = @ - a]]
\* getValWithMostPriority: highest priority, ties to the lower address = the first such index
Mostest(vs) == CHOOSE i \in 1..Len(vs) : /\ \A j \in 1..Len(vs) : vs[j].prio <= vs[i].prio
                                         /\ \A j \in 1..(i - 1) : vs[j].prio < vs[i].prio
\* incrementProposerPriority (one round): returns [vs, prop]
IncOnce(vs) == LET a == [i \in 1..Len(vs) |-> [vs[i] EXCEPT !.prio = @ + vs[i].pow]]
                   m == Mostest(a) IN
               [vs |-> [a EXCEPT ![m].prio = @ - Total(vs)], prop |-> a[m].k]
RECURSIVE IncTimes(_, _, _)
IncTimes(vs, t, acc) == IF t = 0 THEN [vs |-> vs, props |-> acc]
                        ELSE LET r == IncOnce(vs) IN IncTimes(r.vs, t - 1, Append(acc, r.prop))
\* IncrementProposerPriority(times) on a non-empty set
IncrPP(vs, t) == IncTimes(Shift(Rescale(vs, 2 * Total(vs))), t, <<>>)

\* ------------------------------------------------------------- updateWithChangeSet
IsMember(vs, k) == \E i \in 1..Len(vs) : vs[i].k = k
Get(vs, k) == vs[CHOOSE i \in 1..Len(vs) : vs[i].k = k]
DropAt(s, i) == SubSeq(s, 1, i - 1) \o SubSeq(s, i + 1, Len(s))
RECURSIVE SortByK(_)
SortByK(s) == IF Len(s) = 0 THEN <<>>
              ELSE LET i == CHOOSE i \in 1..Len(s) : \A j \in 1..Len(s) : s[i].k <= s[j].k IN <<s[i]>> \o SortByK(DropAt(s, i))
HasDup(s) == \E i, j \in 1..Len(s) : i < j /\ s[i].k = s[j].k
\* verifyUpdates: partial sums in address order, total BEFORE removals
RECURSIVE VerifyUpdates(_, _, _, _, _)
VerifyUpdates(vs, ups, i, tot, nn) ==
  IF i > Len(ups) THEN [err |-> FALSE, tot |-> tot, nn |-> nn]
  ELSE LET u == ups[i] isnew == ~IsMember(vs, u.k)
           tot2 == IF isnew THEN tot + u.pow ELSE tot + (u.pow - Get(vs, u.k).pow) IN
       IF tot2 > MaxTotal THEN [err |-> TRUE, tot |-> 0, nn |-> 0]
       ELSE VerifyUpdates(vs, ups, i + 1, tot2, nn + (IF isnew THEN 1 ELSE 0))
\* applyUpdates: merge of two address-sorted lists, the update wins on equal address
RECURSIVE Merge(_, _)
Merge(ex, up) == IF Len(ex) = 0 THEN up ELSE IF Len(up) = 0 THEN ex
                 ELSE IF ex[1].k < up[1].k THEN <<ex[1]>> \o Merge(Tail(ex), up)
                 ELSE <<up[1]>> \o Merge(IF ex[1].k = up[1].k THEN Tail(ex) ELSE ex, Tail(up))
\* applyRemovals
RECURSIVE Without(_, _)
Without(ex, del) == IF Len(ex) = 0 THEN <<>>
                    ELSE IF \E j \in 1..Len(del) : del[j].k = ex[1].k THEN Without(Tail(ex), del)
                    ELSE <<ex[1]>> \o Without(Tail(ex), del)

\* returns [err, vs]; err # "" => vs unchanged
UpdateCore(vs, changes, allowDeletes) ==
  IF Len(changes) = 0 THEN [err |-> "", vs |-> vs]
  ELSE IF \E i \in 1..Len(changes) : changes[i].cls # "ok" THEN [err |-> "invalid", vs |-> vs]
  ELSE LET sorted == SortByK([i \in 1..Len(changes) |-> [k |-> changes[i].k, pow |-> changes[i].pow, prio |-> 0]]) IN
    IF HasDup(sorted) THEN [err |-> "duplicate", vs |-> vs]
    ELSE IF \E i \in 1..Len(sorted) : sorted[i].pow < 0 THEN [err |-> "negative", vs |-> vs]
    ELSE IF \E i \in 1..Len(sorted) : sorted[i].pow > MaxTotal THEN [err |-> "toobig", vs |-> vs]
    ELSE LET ups == SelectSeq(sorted, LAMBDA c : c.pow > 0)
             dels == SelectSeq(sorted, LAMBDA c : c.pow = 0) IN
      IF ~allowDeletes /\ Len(dels) # 0 THEN [err |-> "zeropower", vs |-> vs]
      ELSE IF \E i \in 1..Len(dels) : ~IsMember(vs, dels[i].k) THEN [err |-> "unknownremoval", vs |-> vs]
      ELSE LET vu == VerifyUpdates(vs, ups, 1, Total(vs), 0) IN
        IF vu.err THEN [err |-> "overflow", vs |-> vs]
        ELSE IF vu.nn = 0 /\ Len(vs) = Len(dels) THEN [err |-> "empty", vs |-> vs]
        ELSE LET \* computeNewPriorities
                 withPrio == [i \in 1..Len(ups) |->
                                 IF IsMember(vs, ups[i].k) THEN [ups[i] EXCEPT !.prio = Get(vs, ups[i].k).prio]
                                 ELSE [ups[i] EXCEPT !.prio = -(vu.tot + Shr3(vu.tot))]]
                 applied == Without(Merge(vs, withPrio), dels) IN
             [err |-> "", vs |-> Shift(Rescale(applied, 2 * Total(applied)))]

\* ------------------------------------------------------------- the machine
St(vs, pr) == [vals |-> vs, prop |-> pr]
RECURSIVE FromVector(_, _)
FromVector(pw, k) == IF k > Len(pw) THEN <<>>
                     ELSE (IF pw[k] > 0 THEN <<[k |-> k, pow |-> pw[k], cls |-> "ok"]>> ELSE <<>>) \o FromVector(pw, k + 1)
Big(p) == p > MaxTotal \div 2

Init == /\ vals = <<>> /\ proposer = 0 /\ made = FALSE /\ fresh = FALSE /\ props = <<>> /\ exact = TRUE /\ hist = <<>>

\* NewValidatorSet(valz): updateWithChangeSet(valz, false), then IncrementProposerPriority(1) if len(valz) > 0
New(pw) ==
  /\ ~made
  /\ LET ch == FromVector(pw, 1) u == UpdateCore(<<>>, ch, FALSE) IN
     /\ u.err = ""                       \* (an error panics the constructor: not generated)
     /\ LET r == IF Len(ch) > 0 THEN IncrPP(u.vs, 1) ELSE [vs |-> u.vs, props |-> <<>>]
            pr == IF Len(ch) > 0 THEN r.props[1] ELSE 0 IN
        /\ vals' = r.vs /\ proposer' = pr /\ props' = r.props
        /\ hist' = Append(hist, [act |-> "New", pw |-> pw, reply |-> "ok", exact |-> ~\E k \in 1..Len(pw) : Big(pw[k]),
                                 st |-> St(r.vs, pr)])
  /\ made' = TRUE /\ fresh' = TRUE /\ exact' = ~\E k \in 1..Len(pw) : Big(pw[k])

Incr(t) ==
  /\ made /\ Len(hist) < MaxLen
  /\ IF Len(vals) = 0
     THEN /\ UNCHANGED vars                 \* documented panic: "empty validator set"
          /\ hist' = Append(hist, [act |-> "Incr", t |-> t, reply |-> "panic", exact |-> exact, st |-> St(vals, proposer)])
     ELSE LET r == IncrPP(vals, t) pr == r.props[t] IN
          /\ vals' = r.vs /\ proposer' = pr /\ props' = props \o r.props
          /\ UNCHANGED <<made, fresh, exact>>
          /\ hist' = Append(hist, [act |-> "Incr", t |-> t, reply |-> "ok", exact |-> exact, st |-> St(r.vs, pr)])

Update(ch) ==
  /\ made /\ Len(hist) < MaxLen
  /\ LET u == UpdateCore(vals, ch, TRUE)
         ex == exact /\ ~\E i \in 1..Len(ch) : Big(ch[i].pow) IN
     /\ vals' = u.vs /\ exact' = ex
     /\ fresh' = (fresh /\ Len(ch) = 0)
     /\ UNCHANGED <<proposer, made, props>>
     /\ hist' = Append(hist, [act |-> "Update", ch |-> ch, reply |-> IF u.err = "" THEN "ok" ELSE "err", why |-> u.err,
                              exact |-> ex, st |-> St(u.vs, proposer)])

FairDone == made /\ Len(props) >= 2 * Total(vals) + 1
Next == IF FairOnly
        THEN \/ ~made /\ \E pw \in InitSets : Total(FromVector(pw, 1)) > 0 /\ New(pw)
             \/ made /\ ~FairDone /\ Incr(1)
        ELSE \/ ~made /\ \E pw \in InitSets : New(pw)
             \/ \E t \in Times : Incr(t)
             \/ \E ch \in ChangeLists : Update(ch)

\* simulation: one random change list per step instead of all of them (TLC's simulator evaluates the
\* invariants on every successor before it picks one)
\* (the range depends on the state so that TLC does not evaluate the draw once as a constant; the
\* drawn list is bound by \E so that every use in Update sees the same value)
ChangeSeq == SetToSeq(ChangeLists)
Draw == ChangeSeq[RandomElement(1..(IF made THEN Len(ChangeSeq) ELSE 1))]
NextSim == \/ ~made /\ \E pw \in InitSets : New(pw)
           \/ \E t \in Times : Incr(t)
           \/ \E c \in {Draw} : Update(c)
           \/ \E c \in {Draw} : Update(c)

Spec == Init /\ [][Next]_<<vars, hist>>
\* the guards bound Len(hist), so the depth belongs to the view (otherwise which edges get explored
\* would depend on the order in which TLC's workers reach a state)
View == <<vars, Len(hist)>>

\* ------------------------------------------------------------- properties (C37)
Count(s, k) == Cardinality({i \in 1..Len(s) : s[i] = k})
LastN(s, n) == SubSeq(s, Len(s) - n + 1, Len(s))
\* every window of `total` consecutive rounds: each validator proposes exactly `power` times
Fairness == (made /\ fresh /\ Len(vals) > 0 /\ Len(props) >= Total(vals)) =>
               \A i \in 1..Len(vals) : Count(LastN(props, Total(vals)), vals[i].k) = vals[i].pow
\* priorities stay within three times the total voting power of each other
PriorityWindow == (made /\ Len(vals) > 0) => Diff(vals) <= 3 * Total(vals)
\* stronger, what the code establishes after an update / before the rounds of an increment
SortedUnique == \A i \in 1..(Len(vals) - 1) : vals[i].k < vals[i + 1].k
PowersPositive == \A i \in 1..Len(vals) : vals[i].pow > 0
TotalBounded == Total(vals) <= MaxTotal
NeverEmptied == [][(made /\ Len(vals) > 0) => Len(vals') > 0]_vars
RejectedUpdateIsNoOp == [][(Len(hist') > Len(hist) /\ hist'[Len(hist')].reply # "ok") => vals' = vals]_<<vars, hist>>
\* the proposer of a round is a member with the highest incremented priority (ties: lowest address)
ProposerIsMember == (made /\ fresh /\ Len(vals) > 0) => IsMember(vals, proposer)
TypeOK == /\ proposer \in 0..P /\ made \in BOOLEAN /\ fresh \in BOOLEAN /\ exact \in BOOLEAN
          /\ \A i \in 1..Len(vals) : vals[i].k \in 1..P

Emit == PrintT(<<"TRACE", ToJson(hist)>>)
EmitAtEnd == Len(hist) < MaxLen \/ Emit
EmitFair == ~FairDone \/ Emit
EmitEdge == PrintT(<<"EDGE", ToJson(hist')>>)
=============================================================================
