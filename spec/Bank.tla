---------------------------- MODULE Bank ----------------------------
(* C14. The bank keeper of tm2/pkg/sdk/bank (keeper.go, supply.go, balance.go) with the
   account keeper it writes through (auth/keeper.go): one action per public call, each with
   the branch structure of the code, so that the reply class and the raw store contents can
   be compared step by step.

     bal[a][d]   balance of address a in denom d. Denom "u" is the account-tier denom (held
                 inside the account object, /a/<addr>), denom "t" is a split-tier denom (own
                 key /b/<addr><denom>). The projection st splits bal by tier; the driver dumps
                 both keyspaces raw, so a balance filed in the wrong tier / under the wrong
                 address is a state mismatch.
     supply[d]   the /supply/<denom> counter
     acc[a]      account object: kind none | gno (plain) | vest (vesting) | base (a vesting
                 account collapsed after its schedule ended), account number, whitelist flag,
                 vesting schedule
     unp[d]      GHOST: net amount credited by calls that by contract do NOT maintain the
                 supply counter (raw AddCoins / SubtractCoins / SetCoins / genesis balances).
                 SupplyEq is  supply + unp = sum of balances; the repository's own
                 bank.SupplyInvariant must report "broken" exactly when unp # 0.

   Named deviations / modelling decisions (DESIGN 4.3):
   * Error return vs panic. The keeper documents error atomicity for subtract, AddCoins,
     SetCoins, MintCoins, BurnCoins ("every debit is checked before any is written"), so an
     error reply must leave the store untouched WITHOUT any help from the caller. A panic
     (balance overflow in AddCoins, supply total overflow in RecomputeSupply) is a
     transaction abort: the driver discards the message's cache layer, as runTx does.
   * InputOutputCoins debits inputs one by one and is atomic only at message level (the bank
     handler returns the error and runTx rolls the message back); its error replies are
     therefore modelled - and replayed - with the message-level rollback.
   * SendCoinsUnrestricted / AddCoins / MintCoins with an empty amount still create the
     recipient account (ensureAccount); SendCoins returns before that. Modelled as is.
   * Storage-deposit lock / refund are SendCoinsUnrestricted at this level (vm keeper,
     lockStorageDeposit / refundStorageDeposit); fee deduction is auth.DeductFees.        *)
EXTENDS Integers, Sequences, FiniteSets, TLC, Json

CONSTANTS Addrs,      \* addresses; must contain "coll" (fee collector)
          Amts,       \* amounts one operand may carry per denom
          Cap,        \* largest representable amount (MaxInt64 under the scaled embedding)
          MaxLen,     \* bound on the history length
          MaxTime,    \* block time runs 0..MaxTime
          RawOps,     \* BOOLEAN: generate the calls that do not maintain supply (genesis style)
          IOAmts,     \* amounts used by the multi-send shapes (subset of [Denoms -> Nat], non-zero)
          Genesis     \* sequence of [a, kind, wl, amt, vs]: initial accounts, applied like gnoland's applyBalance

Denoms == {"u", "t"}
Zero == [d \in Denoms |-> 0]
NoVs == [type |-> "none", ov |-> Zero, start |-> 0, end |-> 0]
NoAcc == [kind |-> "none", num |-> -1, wl |-> FALSE, vs |-> NoVs]
AmtSet == [Denoms -> Amts]
IsZero(x) == \A d \in Denoms : x[d] = 0
Max(x, y) == IF x > y THEN x ELSE y

VARIABLES acc, bal, supply, unp, nextNum, now, restricted, hist, last

vars == <<acc, bal, supply, unp, nextNum, now, restricted>>

\* ------------------------------------------------------------------ vesting schedule
Vested(v, t, d) ==
  IF v.type = "delayed" THEN (IF t >= v.end THEN v.ov[d] ELSE 0)
  ELSE IF t <= v.start THEN 0
  ELSE IF t >= v.end THEN v.ov[d]
  ELSE (v.ov[d] * (t - v.start)) \div (v.end - v.start)
Locked(v, t, d) == v.ov[d] - Vested(v, t, d)
AllVested(v, t) == \A d \in Denoms : Locked(v, t, d) = 0

RECURSIVE SumOver(_, _, _)
SumOver(B, S, d) == IF S = {} THEN 0 ELSE LET a == CHOOSE x \in S : TRUE IN B[a][d] + SumOver(B, S \ {a}, d)
Held(B, d) == SumOver(B, Addrs, d)

\* ------------------------------------------------------------------ projection
Proj(A, B, S, n) ==
  [acct  |-> [a \in Addrs |-> [d \in Denoms |-> IF d = "u" THEN B[a][d] ELSE 0]],
   split |-> [a \in Addrs |-> [d \in Denoms |-> IF d = "u" THEN 0 ELSE B[a][d]]],
   supply |-> S,
   accs |-> [a \in Addrs |-> [kind |-> A[a].kind, num |-> A[a].num]],
   nextnum |-> n,
   bankinv |-> (\A d \in Denoms : S[d] = Held(B, d))]     \* what bank.AllInvariants must say

\* ------------------------------------------------------------------ genesis (applyBalance in order + seedSupply)
\* Genesis is a sequence of [a, kind, wl, amt, vs]; account numbers are handed out in that order.
GenIdx(a) == IF \E i \in 1..Len(Genesis) : Genesis[i].a = a
             THEN CHOOSE i \in 1..Len(Genesis) : Genesis[i].a = a ELSE 0
GenBal == [a \in Addrs |-> IF GenIdx(a) > 0 THEN Genesis[GenIdx(a)].amt ELSE Zero]
Init ==
  /\ acc = [a \in Addrs |-> IF GenIdx(a) > 0
                            THEN LET g == Genesis[GenIdx(a)] IN [kind |-> g.kind, num |-> GenIdx(a) - 1, wl |-> g.wl, vs |-> g.vs]
                            ELSE NoAcc]
  /\ bal = GenBal
  /\ supply = [d \in Denoms |-> SumOver(GenBal, Addrs, d)]
  /\ unp = Zero
  /\ nextNum = Len(Genesis)
  /\ now = 0
  /\ restricted = FALSE
  /\ hist = << [act |-> "Genesis", gen |-> Genesis, addrs |-> Addrs, reply |-> "ok",
                st |-> Proj(acc, bal, supply, nextNum)] >>     \* the behaviour carries its own initial state
  /\ last = [act |-> "Init", reply |-> "ok"]

\* ------------------------------------------------------------------ the debit / credit cores (keeper.go subtract, AddCoins)
Upg(A, t, a) == A[a].kind = "vest" /\ AllVested(A[a].vs, t)

\* SubtractCoins (enforce = TRUE) / subtractCoinsUnrestricted (enforce = FALSE)
SubRes(A, B, t, a, amt, enforce) ==
  LET up == Upg(A, t, a)
      still == A[a].kind = "vest" /\ ~up
      vestFail == enforce /\ still /\
                  \E d \in Denoms : /\ amt[d] > 0
                                    /\ Locked(A[a].vs, t, d) > 0
                                    /\ Max(B[a][d] - Locked(A[a].vs, t, d), 0) < amt[d]
      insuff == \E d \in Denoms : amt[d] > B[a][d]
  IN IF vestFail THEN [err |-> "vesting", acc |-> A, bal |-> B]
     ELSE IF insuff THEN [err |-> "insufficient", acc |-> A, bal |-> B]
     ELSE [err |-> "none",
           acc |-> IF up THEN [A EXCEPT ![a].kind = "base", ![a].vs = NoVs] ELSE A,
           bal |-> [B EXCEPT ![a] = [d \in Denoms |-> B[a][d] - amt[d]]]]

\* AddCoins: overflow panics (before anything is kept: the transaction aborts)
AddRes(A, B, n, a, amt) ==
  IF \E d \in Denoms : B[a][d] + amt[d] > Cap
  THEN [err |-> "panic", acc |-> A, bal |-> B, n |-> n]
  ELSE [err |-> "none",
        acc |-> IF A[a].kind = "none" THEN [A EXCEPT ![a] = [kind |-> "gno", num |-> n, wl |-> FALSE, vs |-> NoVs]] ELSE A,
        bal |-> [B EXCEPT ![a] = [d \in Denoms |-> B[a][d] + amt[d]]],
        n |-> IF A[a].kind = "none" THEN n + 1 ELSE n]

\* canSendCoins
CanSend(A, a, amt) == ~restricted \/ amt["u"] = 0 \/ A[a].wl

\* ------------------------------------------------------------------ recording
Rec(r, reply, A, B, S, n) == Append(hist, [r EXCEPT !.reply = reply, !.st = Proj(A, B, S, n)])
Fail(r, reply) ==
  /\ UNCHANGED vars
  /\ hist' = Rec(r, reply, acc, bal, supply, nextNum)
  /\ last' = [act |-> r.act, reply |-> reply]
Done(r, A, B, S, U, n) ==
  /\ acc' = A /\ bal' = B /\ supply' = S /\ unp' = U /\ nextNum' = n
  /\ UNCHANGED <<now, restricted>>
  /\ hist' = Rec(r, "ok", A, B, S, n)
  /\ last' = [act |-> r.act, reply |-> "ok"]
Bound == Len(hist) < MaxLen
R0(act) == [act |-> act, reply |-> "", st |-> <<>>]

\* ------------------------------------------------------------------ actions
SendCoins(f, t, amt) ==
  LET r == R0("SendCoins") @@ [from |-> f, to |-> t, amt |-> amt] IN
  /\ Bound
  /\ IF IsZero(amt) THEN Fail(r, "ok")                                   \* returns nil before anything
     ELSE IF ~CanSend(acc, f, amt) THEN Fail(r, "restricted")
     ELSE LET s == SubRes(acc, bal, now, f, amt, TRUE) IN
          IF s.err # "none" THEN Fail(r, s.err)
          ELSE LET c == AddRes(s.acc, s.bal, nextNum, t, amt) IN
               IF c.err # "none" THEN Fail(r, c.err)
               ELSE Done(r, c.acc, c.bal, supply, unp, c.n)

\* gas fees' transfer primitive, storage-deposit lock and refund
SendCoinsUnrestricted(f, t, amt) ==
  LET r == R0("SendCoinsUnrestricted") @@ [from |-> f, to |-> t, amt |-> amt]
      s == SubRes(acc, bal, now, f, amt, FALSE) IN
  /\ Bound
  /\ IF s.err # "none" THEN Fail(r, s.err)
     ELSE LET c == AddRes(s.acc, s.bal, nextNum, t, amt) IN
          IF c.err # "none" THEN Fail(r, c.err)
          ELSE Done(r, c.acc, c.bal, supply, unp, c.n)

\* auth.DeductFees: balance check through GetCoin, then SendCoinsUnrestricted to the collector
DeductFee(a, fee) ==
  LET r == R0("DeductFee") @@ [from |-> a, fee |-> fee]
      amt == [d \in Denoms |-> IF d = "u" THEN fee ELSE 0] IN
  /\ Bound /\ fee > 0 /\ acc[a].kind # "none"
  /\ IF bal[a]["u"] < fee THEN Fail(r, "funds")
     ELSE LET s == SubRes(acc, bal, now, a, amt, FALSE)
              c == AddRes(s.acc, s.bal, nextNum, "coll", amt) IN
          IF c.err # "none" THEN Fail(r, c.err)
          ELSE Done(r, c.acc, c.bal, supply, unp, c.n)

\* MsgMultiSend: inputs <<[i1,x],[i2,y]>> (second dropped when y is zero), outputs
\* <<[o1,x],[o2,y]>> (or one output x+y when o1 = o2 is asked by shape "join")
RECURSIVE IOIn(_, _, _, _)
IOIn(A, B, ins, k) ==       \* debit inputs k..Len(ins); result [err, acc, bal]
  IF k > Len(ins) THEN [err |-> "none", acc |-> A, bal |-> B]
  ELSE IF ~CanSend(A, ins[k].a, ins[k].amt) THEN [err |-> "restricted", acc |-> A, bal |-> B]
  ELSE LET s == SubRes(A, B, now, ins[k].a, ins[k].amt, TRUE) IN
       IF s.err # "none" THEN s ELSE IOIn(s.acc, s.bal, ins, k + 1)
RECURSIVE IOOut(_, _, _, _, _)
IOOut(A, B, n, outs, k) ==
  IF k > Len(outs) THEN [err |-> "none", acc |-> A, bal |-> B, n |-> n]
  ELSE LET c == AddRes(A, B, n, outs[k].a, outs[k].amt) IN
       IF c.err # "none" THEN c ELSE IOOut(c.acc, c.bal, c.n, outs, k + 1)
Plus(x, y) == [d \in Denoms |-> x[d] + y[d]]
InputOutputCoins(ins, outs) ==
  LET r == R0("InputOutputCoins") @@ [ins |-> ins, outs |-> outs] IN
  /\ Bound
  /\ LET i == IOIn(acc, bal, ins, 1) IN
     IF i.err # "none" THEN Fail(r, i.err)          \* message-level rollback (header)
     ELSE LET o == IOOut(i.acc, i.bal, nextNum, outs, 1) IN
          IF o.err # "none" THEN Fail(r, o.err)
          ELSE Done(r, o.acc, o.bal, supply, unp, o.n)

\* supply.go
MintCoins(a, amt) ==
  LET r == R0("MintCoins") @@ [to |-> a, amt |-> amt] IN
  /\ Bound /\ ~IsZero(amt)
  /\ IF \E d \in Denoms : amt[d] > 0 /\ supply[d] + amt[d] > Cap THEN Fail(r, "range")
     ELSE LET c == AddRes(acc, bal, nextNum, a, amt) IN
          IF c.err # "none" THEN Fail(r, c.err)
          ELSE Done(r, c.acc, c.bal, Plus(supply, amt), unp, c.n)

BurnCoins(a, amt) ==
  LET r == R0("BurnCoins") @@ [from |-> a, amt |-> amt] IN
  /\ Bound /\ ~IsZero(amt)
  /\ IF \E d \in Denoms : amt[d] > 0 /\ supply[d] - amt[d] < 0 THEN Fail(r, "range")
     ELSE LET s == SubRes(acc, bal, now, a, amt, TRUE) IN
          IF s.err # "none" THEN Fail(r, s.err)
          ELSE Done(r, s.acc, s.bal, [d \in Denoms |-> supply[d] - amt[d]], unp, nextNum)

\* ---- calls that do not maintain the supply counter (genesis / tests; RawOps)
AddCoins(a, amt) ==
  LET r == R0("AddCoins") @@ [to |-> a, amt |-> amt]
      c == AddRes(acc, bal, nextNum, a, amt) IN
  /\ Bound /\ RawOps
  /\ IF c.err # "none" THEN Fail(r, c.err)
     ELSE Done(r, c.acc, c.bal, supply, Plus(unp, amt), c.n)

SubtractCoins(a, amt) ==
  LET r == R0("SubtractCoins") @@ [from |-> a, amt |-> amt]
      s == SubRes(acc, bal, now, a, amt, TRUE) IN
  /\ Bound /\ RawOps
  /\ IF s.err # "none" THEN Fail(r, s.err)
     ELSE Done(r, s.acc, s.bal, supply, [d \in Denoms |-> unp[d] - amt[d]], nextNum)

SetCoins(a, amt) ==
  LET r == R0("SetCoins") @@ [to |-> a, amt |-> amt]
      A == IF acc[a].kind = "none" THEN [acc EXCEPT ![a] = [kind |-> "gno", num |-> nextNum, wl |-> FALSE, vs |-> NoVs]] ELSE acc IN
  /\ Bound /\ RawOps
  /\ Done(r, A, [bal EXCEPT ![a] = amt], supply, [d \in Denoms |-> unp[d] + amt[d] - bal[a][d]],
          IF acc[a].kind = "none" THEN nextNum + 1 ELSE nextNum)

RecomputeSupply ==
  LET r == R0("RecomputeSupply") IN
  /\ Bound /\ RawOps
  /\ IF \E d \in Denoms : Held(bal, d) > Cap THEN Fail(r, "panic")
     ELSE Done(r, acc, bal, [d \in Denoms |-> Held(bal, d)], Zero, nextNum)

Time(t) ==
  /\ Bound /\ t > now /\ t <= MaxTime
  /\ now' = t
  /\ UNCHANGED <<acc, bal, supply, unp, nextNum, restricted>>
  /\ hist' = Rec(R0("Time") @@ [t |-> t], "ok", acc, bal, supply, nextNum)
  /\ last' = [act |-> "Time", reply |-> "ok"]

SetRestricted(b) ==
  /\ Bound /\ b # restricted
  /\ restricted' = b
  /\ UNCHANGED <<acc, bal, supply, unp, nextNum, now>>
  /\ hist' = Rec(R0("SetRestricted") @@ [on |-> b], "ok", acc, bal, supply, nextNum)
  /\ last' = [act |-> "SetRestricted", reply |-> "ok"]

NonZero == {x \in AmtSet : ~IsZero(x)}
In(a, x) == [a |-> a, amt |-> x]
IOShapes ==
  {<< <<In(i1, x)>>, <<In(o1, x)>> >> : i1 \in Addrs, o1 \in Addrs, x \in IOAmts} \cup
  {<< <<In(i1, Plus(x, y))>>, <<In(o1, x), In(o2, y)>> >> : i1 \in Addrs, o1 \in Addrs, o2 \in Addrs, x \in IOAmts, y \in IOAmts} \cup
  {<< <<In(i1, x), In(i2, y)>>, <<In(o1, Plus(x, y))>> >> : i1 \in Addrs, i2 \in Addrs, o1 \in Addrs, x \in IOAmts, y \in IOAmts}

Next ==
  \/ \E f \in Addrs, t \in Addrs, x \in AmtSet : SendCoins(f, t, x) \/ SendCoinsUnrestricted(f, t, x)
  \/ \E a \in Addrs, fee \in Amts : DeductFee(a, fee)
  \/ \E s \in IOShapes : InputOutputCoins(s[1], s[2])
  \/ \E a \in Addrs, x \in NonZero : MintCoins(a, x) \/ BurnCoins(a, x)
  \/ \E a \in Addrs, x \in AmtSet : AddCoins(a, x) \/ SubtractCoins(a, x) \/ SetCoins(a, x)
  \/ RecomputeSupply
  \/ \E t \in 1..MaxTime : Time(t)
  \/ \E b \in BOOLEAN : SetRestricted(b)

Spec == Init /\ [][Next]_<<vars, hist, last>>
View == vars

\* ------------------------------------------------------------------ properties (C14)
\* the recorded supply equals the sum of all balances (up to credits that by contract bypass the counter)
SupplyEq == \A d \in Denoms : supply[d] + unp[d] = Held(bal, d)
\* each balance is positive or absent, and representable; supply likewise
BalanceWellFormed == \A a \in Addrs, d \in Denoms : bal[a][d] >= 0 /\ bal[a][d] <= Cap
SupplyWellFormed == \A d \in Denoms : supply[d] >= 0 /\ supply[d] <= Cap
\* funds are never held by an address without an account object (it could not sign)
HolderHasAccount == \A a \in Addrs : (\E d \in Denoms : bal[a][d] > 0) => acc[a].kind # "none"
\* account numbers are unique and below the counter
NumsUnique == /\ \A a \in Addrs : acc[a].kind # "none" => acc[a].num >= 0 /\ acc[a].num < nextNum
              /\ \A a \in Addrs, b \in Addrs : (a # b /\ acc[a].kind # "none" /\ acc[b].kind # "none") => acc[a].num # acc[b].num
\* only explicit mint / burn (and the genesis re-seed) change the supply record
OnlyMintBurnChangeSupply == [][supply' # supply => last'.act \in {"MintCoins", "BurnCoins", "RecomputeSupply"}]_<<vars, last>>
\* every transfer leaves the sum of balances unchanged
Transfers == {"SendCoins", "SendCoinsUnrestricted", "DeductFee", "InputOutputCoins"}
TransferNeutral == [][last'.act \in Transfers => \A d \in Denoms : Held(bal', d) = Held(bal, d)]_<<vars, last>>
\* mint / burn move the sum by exactly what they move the record
MintBurnExact == [][last'.act \in {"MintCoins", "BurnCoins"} =>
                      \A d \in Denoms : Held(bal', d) - Held(bal, d) = supply'[d] - supply[d]]_<<vars, last>>
\* a call that reports failure changes nothing
FailedChangesNothing == [][last'.reply # "ok" => UNCHANGED vars]_<<vars, last>>
\* an account never loses its number or changes address kind except vest -> base
AccountsStable == [][\A a \in Addrs : acc[a].kind # "none" =>
                       /\ acc'[a].num = acc[a].num
                       /\ (acc'[a].kind = acc[a].kind \/ (acc[a].kind = "vest" /\ acc'[a].kind = "base"))]_vars

Emit == PrintT(<<"TRACE", ToJson(hist)>>)
EmitAtEnd == Len(hist) < MaxLen \/ Emit
EmitEdge == PrintT(<<"EDGE", ToJson(hist')>>)
=============================================================================
