---------------------------- MODULE Bank ----------------------------
(* C14. The bank keeper of tm2/pkg/sdk/bank (keeper.go, supply.go, balance.go) with the
   account keeper it writes through (auth/keeper.go): one operator per public call, each with
   the branch structure of the code, so that the reply class and the raw store contents can
   be compared step by step.

   The keeper's state is the record  S = [acc, bal, supply, unp, n]:
     bal[a][d]   balance of address a in denom d. Denom "u" is the account-tier denom (held
                 inside the account object, /a/<addr>), denom "t" is a split-tier denom (own
                 key /b/<addr><denom>). The projection st splits bal by tier; the driver dumps
                 both keyspaces raw, so a balance filed in the wrong tier / under the wrong
                 address is a state mismatch.
     supply[d]   the /supply/<denom> counter
     acc[a]      account object: kind none | gno (plain) | vest (vesting) | base (a vesting
                 account collapsed after its schedule ended), account number, whitelist flag,
                 vesting schedule
     n           the global account-number counter
     unp[d]      GHOST: net amount credited by calls that by contract do NOT maintain the
                 supply counter (raw AddCoins / SubtractCoins / SetCoins / genesis balances).
                 SupplyEq is  supply + unp = sum of balances; the repository's own
                 bank.SupplyInvariant must report "broken" exactly when supply # sum.
   Every call is a pure operator  XRes(S, t, args) = [err, s]  (t = block time); the actions
   below apply them to the variables, BankTrace.tla composes the same operators into the
   effect of a whole transaction of the real application.

   Named deviations / modelling decisions (DESIGN 4.3):
   * Error return vs panic. The keeper documents error atomicity for subtract, AddCoins,
     SetCoins, MintCoins, BurnCoins ("every debit is checked before any is written"), so an
     error reply must leave the store untouched WITHOUT any help from the caller. A panic
     (balance overflow in AddCoins, supply total overflow in RecomputeSupply) is a
     transaction abort: the driver discards the message's cache layer, as runTx does.
   * InputOutputCoins (replayed through the entry points of a MsgMultiSend: msg.ValidateBasic, then
     the bank handler) debits inputs one by one and is atomic only at message level (the handler
     returns the error and runTx rolls the message back); its error replies are therefore modelled -
     and replayed - with the message-level rollback. An unbalanced multi-send is "mismatch"; the
     code today PANICS instead (Coin.IsEqual on different denoms) when both totals have the same
     number of denominations but different ones - rejected either way, compared as rejected.
   * SendCoinsUnrestricted / AddCoins / MintCoins with an empty amount still create the
     recipient account (ensureAccount); SendCoins returns before that. Modelled as is.
   * Storage-deposit lock / refund are SendCoinsUnrestricted at this level (vm keeper,
     lockStorageDeposit / refundStorageDeposit); fee deduction is auth.DeductFees.
   * AnteTx is the REAL auth ante handler run on a signed transaction of 1..2 signers: its effect
     on balances is the fee transfer and nothing else, whoever the signers are (the fee collector
     may be a keyed account and sign at any position). The code today writes back a stale copy of a
     collector that signs at position >= 2 (the fee is destroyed); the spec does not adopt that. *)
EXTENDS Integers, Sequences, FiniteSets, TLC, Json

CONSTANTS Addrs,      \* addresses; must contain "coll" (fee collector)
          Amts,       \* amounts one operand may carry per denom
          Cap,        \* largest representable amount (MaxInt64 under the scaled embedding)
          MaxLen,     \* bound on the history length
          MaxTime,    \* block time runs 0..MaxTime
          RawOps,     \* BOOLEAN: generate the calls that do not maintain supply (genesis style)
          IOIns,      \* input lists of the multi-sends: set of sequences (1..2) of [a, amt], amt non-zero over Denoms
          IOOuts,     \* output lists, same shape; every input list is combined with every output list
          Genesis     \* sequence of [a, kind, wl, amt, vs]: initial accounts, applied like gnoland's applyBalance

Denoms == {"u", "t"}
Zero == [d \in Denoms |-> 0]
NoVs == [type |-> "none", ov |-> Zero, start |-> 0, end |-> 0]
NoAcc == [kind |-> "none", num |-> -1, wl |-> FALSE, vs |-> NoVs]
AmtSet == [Denoms -> Amts]
IsZero(x) == \A d \in Denoms : x[d] = 0
Max(x, y) == IF x > y THEN x ELSE y
Plus(x, y) == [d \in Denoms |-> x[d] + y[d]]
Minus(x, y) == [d \in Denoms |-> x[d] - y[d]]

VARIABLES acc, bal, supply, unp, nextNum, now, restricted, hist, last

vars == <<acc, bal, supply, unp, nextNum, now, restricted>>
Cur == [acc |-> acc, bal |-> bal, supply |-> supply, unp |-> unp, n |-> nextNum]

\* ------------------------------------------------------------------ vesting schedule (std/vesting_account.go)
Vested(v, t, d) ==
  IF v.type = "delayed" THEN (IF t >= v.end THEN v.ov[d] ELSE 0)
  ELSE IF t <= v.start THEN 0
  ELSE IF t >= v.end THEN v.ov[d]
  ELSE (v.ov[d] * (t - v.start)) \div (v.end - v.start)
Locked(v, t, d) == v.ov[d] - Vested(v, t, d)
AllVested(v, t) == \A d \in Denoms : Locked(v, t, d) = 0

RECURSIVE SumOver(_, _, _)
SumOver(B, X, d) == IF X = {} THEN 0 ELSE LET a == CHOOSE x \in X : TRUE IN B[a][d] + SumOver(B, X \ {a}, d)
Held(B, d) == SumOver(B, Addrs, d)

\* ------------------------------------------------------------------ projection: what the driver dumps from the raw store
Proj(S) ==
  [acct  |-> [a \in Addrs |-> [d \in Denoms |-> IF d = "u" THEN S.bal[a][d] ELSE 0]],
   split |-> [a \in Addrs |-> [d \in Denoms |-> IF d = "u" THEN 0 ELSE S.bal[a][d]]],
   supply |-> S.supply,
   accs |-> [a \in Addrs |-> [kind |-> S.acc[a].kind, num |-> S.acc[a].num]],
   nextnum |-> S.n,
   bankinv |-> (\A d \in Denoms : S.supply[d] = Held(S.bal, d))]     \* what bank.AllInvariants must say

\* ------------------------------------------------------------------ the debit / credit cores (keeper.go subtract, AddCoins)
Ok(S) == [err |-> "none", s |-> S]
Err(e, S) == [err |-> e, s |-> S]

\* SubtractCoins (enforce = TRUE) / subtractCoinsUnrestricted (enforce = FALSE)
SubRes(S, t, a, amt, enforce) ==
  LET A == S.acc
      B == S.bal
      up == A[a].kind = "vest" /\ AllVested(A[a].vs, t)            \* upgradeVestingAccount
      still == A[a].kind = "vest" /\ ~up
      vestFail == enforce /\ still /\
                  \E d \in Denoms : /\ amt[d] > 0
                                    /\ Locked(A[a].vs, t, d) > 0
                                    /\ Max(B[a][d] - Locked(A[a].vs, t, d), 0) < amt[d]
      insuff == \E d \in Denoms : amt[d] > B[a][d]
  IN IF vestFail THEN Err("vesting", S)
     ELSE IF insuff THEN Err("insufficient", S)
     ELSE Ok([S EXCEPT !.acc = IF up THEN [A EXCEPT ![a].kind = "base", ![a].vs = NoVs] ELSE A,
                       !.bal = [B EXCEPT ![a] = Minus(B[a], amt)]])

\* AddCoins: overflow panics (nothing is kept: the transaction aborts); creates the account
AddRes(S, a, amt) ==
  IF \E d \in Denoms : S.bal[a][d] + amt[d] > Cap THEN Err("panic", S)
  ELSE LET new == S.acc[a].kind = "none" IN
       Ok([S EXCEPT !.acc = IF new THEN [S.acc EXCEPT ![a] = [kind |-> "gno", num |-> S.n, wl |-> FALSE, vs |-> NoVs]] ELSE S.acc,
                    !.bal = [S.bal EXCEPT ![a] = Plus(S.bal[a], amt)],
                    !.n = IF new THEN S.n + 1 ELSE S.n])

\* r ; F  (second step only when the first succeeded)
Then(r, F(_)) == IF r.err # "none" THEN r ELSE F(r.s)

\* canSendCoins
CanSend(S, rst, a, amt) == ~rst \/ amt["u"] = 0 \/ S.acc[a].wl

SendRes(S, t, rst, f, to, amt) ==
  IF IsZero(amt) THEN Ok(S)                                          \* returns nil before anything
  ELSE IF ~CanSend(S, rst, f, amt) THEN Err("restricted", S)
  ELSE LET r == Then(SubRes(S, t, f, amt, TRUE), LAMBDA s1 : AddRes(s1, to, amt))
       IN IF r.err # "none" THEN Err(r.err, S) ELSE r                \* panic: abort; error: nothing was written

\* gas fees' transfer primitive, storage-deposit lock and refund
SendUnrRes(S, t, f, to, amt) ==
  LET r == Then(SubRes(S, t, f, amt, FALSE), LAMBDA s1 : AddRes(s1, to, amt))
  IN IF r.err # "none" THEN Err(r.err, S) ELSE r

\* auth.DeductFees: balance check through GetCoin, then SendCoinsUnrestricted to the collector
FeeRes(S, t, a, fee) ==
  LET amt == [d \in Denoms |-> IF d = "u" THEN fee ELSE 0] IN
  IF S.bal[a]["u"] < fee THEN Err("funds", S) ELSE SendUnrRes(S, t, a, "coll", amt)

\* The auth ante handler (ante.go) at account level, for the signers sg (distinct, all with an account): it reads every
\* signer's account, moves the fee from the FIRST signer to the collector, and then writes every signer's account object
\* back (sequence bump, phase 3). The write-back must not change any balance - also when a signer is the account the fee
\* deduction itself just changed: the payer (position 1) or the fee collector signing at ANY position.
AnteRes(S, t, sg, fee) == FeeRes(S, t, sg[1], fee)

\* MsgMultiSend: inputs / outputs are sequences of [a, amt]
RECURSIVE IOIn(_, _, _, _, _)
IOIn(S, t, rst, ins, k) ==
  IF k > Len(ins) THEN Ok(S)
  ELSE IF ~CanSend(S, rst, ins[k].a, ins[k].amt) THEN Err("restricted", S)
  ELSE Then(SubRes(S, t, ins[k].a, ins[k].amt, TRUE), LAMBDA s1 : IOIn(s1, t, rst, ins, k + 1))
RECURSIVE IOOut(_, _, _)
IOOut(S, outs, k) ==
  IF k > Len(outs) THEN Ok(S)
  ELSE Then(AddRes(S, outs[k].a, outs[k].amt), LAMBDA s1 : IOOut(s1, outs, k + 1))
RECURSIVE SumAmt(_, _, _)
SumAmt(xs, k, d) == IF k > Len(xs) THEN 0 ELSE xs[k].amt[d] + SumAmt(xs, k + 1, d)
\* ValidateInputsOutputs (MsgMultiSend.ValidateBasic, and the only conservation guard inside InputOutputCoins):
\* accepted iff for EVERY denomination the inputs sum to what the outputs sum to - a denomination that appears on one
\* side only is a mismatch like any other
Balanced(ins, outs) == \A d \in Denoms : SumAmt(ins, 1, d) = SumAmt(outs, 1, d)
IORes(S, t, rst, ins, outs) ==
  IF ~Balanced(ins, outs) THEN Err("mismatch", S)
  ELSE LET r == Then(IOIn(S, t, rst, ins, 1), LAMBDA s1 : IOOut(s1, outs, 1))
       IN IF r.err # "none" THEN Err(r.err, S) ELSE r               \* message-level rollback (header)

\* supply.go
MintRes(S, a, amt) ==
  IF \E d \in Denoms : amt[d] > 0 /\ S.supply[d] + amt[d] > Cap THEN Err("range", S)
  ELSE LET r == AddRes(S, a, amt) IN
       IF r.err # "none" THEN Err(r.err, S) ELSE Ok([r.s EXCEPT !.supply = Plus(S.supply, amt)])
BurnRes(S, t, a, amt) ==
  IF \E d \in Denoms : amt[d] > 0 /\ S.supply[d] - amt[d] < 0 THEN Err("range", S)
  ELSE LET r == SubRes(S, t, a, amt, TRUE) IN
       IF r.err # "none" THEN Err(r.err, S) ELSE Ok([r.s EXCEPT !.supply = Minus(S.supply, amt)])

\* ---- calls that do not maintain the supply counter (genesis / tests)
RawAddRes(S, a, amt) ==
  LET r == AddRes(S, a, amt) IN IF r.err # "none" THEN r ELSE Ok([r.s EXCEPT !.unp = Plus(S.unp, amt)])
RawSubRes(S, t, a, amt) ==
  LET r == SubRes(S, t, a, amt, TRUE) IN IF r.err # "none" THEN r ELSE Ok([r.s EXCEPT !.unp = Minus(S.unp, amt)])
SetCoinsRes(S, a, amt) ==
  LET new == S.acc[a].kind = "none" IN
  Ok([S EXCEPT !.acc = IF new THEN [S.acc EXCEPT ![a] = [kind |-> "gno", num |-> S.n, wl |-> FALSE, vs |-> NoVs]] ELSE S.acc,
               !.bal = [S.bal EXCEPT ![a] = amt],
               !.unp = [d \in Denoms |-> S.unp[d] + amt[d] - S.bal[a][d]],
               !.n = IF new THEN S.n + 1 ELSE S.n])
RecomputeRes(S) ==
  IF \E d \in Denoms : Held(S.bal, d) > Cap THEN Err("panic", S)
  ELSE Ok([S EXCEPT !.supply = [d \in Denoms |-> Held(S.bal, d)], !.unp = Zero])

\* ------------------------------------------------------------------ genesis (applyBalance in order + seedSupply)
\* account numbers are handed out in the order of the sequence
GenIdx(a) == IF \E i \in 1..Len(Genesis) : Genesis[i].a = a
             THEN CHOOSE i \in 1..Len(Genesis) : Genesis[i].a = a ELSE 0
GenBal == [a \in Addrs |-> IF GenIdx(a) > 0 THEN Genesis[GenIdx(a)].amt ELSE Zero]
GenState ==
  [acc |-> [a \in Addrs |-> IF GenIdx(a) > 0
                            THEN LET g == Genesis[GenIdx(a)] IN [kind |-> g.kind, num |-> GenIdx(a) - 1, wl |-> g.wl, vs |-> g.vs]
                            ELSE NoAcc],
   bal |-> GenBal,
   supply |-> [d \in Denoms |-> SumOver(GenBal, Addrs, d)],
   unp |-> Zero,
   n |-> Len(Genesis)]
Init ==
  /\ acc = GenState.acc /\ bal = GenState.bal /\ supply = GenState.supply /\ unp = GenState.unp
  /\ nextNum = GenState.n
  /\ now = 0
  /\ restricted = FALSE
  /\ hist = << [act |-> "Genesis", gen |-> Genesis, addrs |-> Addrs, reply |-> "ok", st |-> Proj(GenState)] >>
                                                               \* the behaviour carries its own initial state
  /\ last = [act |-> "Init", reply |-> "ok"]

\* ------------------------------------------------------------------ actions: apply a result to the variables, record it
Apply(rec, r) ==
  LET reply == IF r.err = "none" THEN "ok" ELSE r.err IN
  /\ Len(hist) < MaxLen
  /\ acc' = r.s.acc /\ bal' = r.s.bal /\ supply' = r.s.supply /\ unp' = r.s.unp /\ nextNum' = r.s.n
  /\ UNCHANGED <<now, restricted>>
  /\ hist' = Append(hist, rec @@ [reply |-> reply, st |-> Proj(r.s)])
  /\ last' = [act |-> rec.act, reply |-> reply]

SendCoins(f, t, amt) == Apply([act |-> "SendCoins", from |-> f, to |-> t, amt |-> amt], SendRes(Cur, now, restricted, f, t, amt))
SendCoinsUnrestricted(f, t, amt) ==
  Apply([act |-> "SendCoinsUnrestricted", from |-> f, to |-> t, amt |-> amt], SendUnrRes(Cur, now, f, t, amt))
DeductFee(a, fee) ==
  /\ fee > 0 /\ acc[a].kind # "none"              \* the ante handler resolved the signer before
  /\ Apply([act |-> "DeductFee", from |-> a, fee |-> fee], FeeRes(Cur, now, a, fee))
AnteTx(sg, fee) ==
  /\ fee > 0 /\ \A i \in 1..Len(sg) : acc[sg[i]].kind # "none"
  /\ Apply([act |-> "AnteTx", signers |-> sg, fee |-> fee], AnteRes(Cur, now, sg, fee))
InputOutputCoins(ins, outs) ==
  Apply([act |-> "InputOutputCoins", ins |-> ins, outs |-> outs], IORes(Cur, now, restricted, ins, outs))
MintCoins(a, amt) == ~IsZero(amt) /\ Apply([act |-> "MintCoins", to |-> a, amt |-> amt], MintRes(Cur, a, amt))
BurnCoins(a, amt) == ~IsZero(amt) /\ Apply([act |-> "BurnCoins", from |-> a, amt |-> amt], BurnRes(Cur, now, a, amt))
AddCoins(a, amt) == RawOps /\ Apply([act |-> "AddCoins", to |-> a, amt |-> amt], RawAddRes(Cur, a, amt))
SubtractCoins(a, amt) == RawOps /\ Apply([act |-> "SubtractCoins", from |-> a, amt |-> amt], RawSubRes(Cur, now, a, amt))
SetCoins(a, amt) == RawOps /\ Apply([act |-> "SetCoins", to |-> a, amt |-> amt], SetCoinsRes(Cur, a, amt))
RecomputeSupply == RawOps /\ Apply([act |-> "RecomputeSupply"], RecomputeRes(Cur))

Time(t) ==
  /\ Len(hist) < MaxLen /\ t > now /\ t <= MaxTime
  /\ now' = t
  /\ UNCHANGED <<acc, bal, supply, unp, nextNum, restricted>>
  /\ hist' = Append(hist, [act |-> "Time", t |-> t, reply |-> "ok", st |-> Proj(Cur)])
  /\ last' = [act |-> "Time", reply |-> "ok"]

SetRestricted(b) ==
  /\ Len(hist) < MaxLen /\ b # restricted
  /\ restricted' = b
  /\ UNCHANGED <<acc, bal, supply, unp, nextNum, now>>
  /\ hist' = Append(hist, [act |-> "SetRestricted", on |-> b, reply |-> "ok", st |-> Proj(Cur)])
  /\ last' = [act |-> "SetRestricted", reply |-> "ok"]

NonZero == {x \in AmtSet : ~IsZero(x)}
In(a, x) == [a |-> a, amt |-> x]
\* a multi-send: any input list with any output list (1-2 entries each, multi-denomination amounts) - balanced or not
IOShapes == IOIns \X IOOuts

SignerSeqs == {<<x>> : x \in Addrs} \cup {<<p[1], p[2]>> : p \in {q \in Addrs \X Addrs : q[1] # q[2]}}

Next ==
  \/ \E f \in Addrs, t \in Addrs, x \in AmtSet : SendCoins(f, t, x) \/ SendCoinsUnrestricted(f, t, x)
  \/ \E a \in Addrs, fee \in Amts : DeductFee(a, fee)
  \/ \E sg \in SignerSeqs, fee \in Amts : AnteTx(sg, fee)
  \/ \E s \in IOShapes : InputOutputCoins(s[1], s[2])
  \/ \E a \in Addrs, x \in NonZero : MintCoins(a, x) \/ BurnCoins(a, x)
  \/ \E a \in Addrs, x \in AmtSet : AddCoins(a, x) \/ SubtractCoins(a, x) \/ SetCoins(a, x)
  \/ RecomputeSupply
  \/ \E t \in 1..MaxTime : Time(t)
  \/ \E b \in BOOLEAN : SetRestricted(b)

Spec == Init /\ [][Next]_<<vars, hist, last>>
View == <<vars, Len(hist)>>     \* the depth is part of the view: bounded exploration is then independent of worker scheduling

\* ------------------------------------------------------------------ properties (C14)
\* the recorded supply equals the sum of all balances (up to credits that by contract bypass the counter)
SupplyEq == \A d \in Denoms : supply[d] + unp[d] = Held(bal, d)
\* each balance is positive or absent, and representable; supply likewise
BalanceWellFormed == \A a \in Addrs, d \in Denoms : bal[a][d] >= 0 /\ bal[a][d] <= Cap
SupplyWellFormed == \A d \in Denoms : supply[d] >= 0 /\ supply[d] <= Cap
\* funds are never held by an address without an account object (it could not sign)
HolderHasAccount == \A a \in Addrs : (\E d \in Denoms : bal[a][d] > 0) => acc[a].kind # "none"
\* account numbers are unique and below the counter
NumsUnique == /\ \A a \in Addrs : acc[a].kind # "none" => acc[a].num >= 0 /\ acc[a].num < nextNum
              /\ \A a \in Addrs, b \in Addrs : (a # b /\ acc[a].kind # "none" /\ acc[b].kind # "none") => acc[a].num # acc[b].num
\* only explicit mint / burn (and the genesis re-seed) change the supply record
OnlyMintBurnChangeSupply == [][supply' # supply => last'.act \in {"MintCoins", "BurnCoins", "RecomputeSupply"}]_<<vars, last>>
\* every transfer leaves the sum of balances unchanged
Transfers == {"SendCoins", "SendCoinsUnrestricted", "DeductFee", "AnteTx", "InputOutputCoins"}
TransferNeutral == [][last'.act \in Transfers => \A d \in Denoms : Held(bal', d) = Held(bal, d)]_<<vars, last>>
\* mint / burn move the sum by exactly what they move the record
MintBurnExact == [][last'.act \in {"MintCoins", "BurnCoins"} =>
                      \A d \in Denoms : Held(bal', d) - Held(bal, d) = supply'[d] - supply[d]]_<<vars, last>>
\* a call that reports failure changes nothing
FailedChangesNothing == [][last'.reply # "ok" => UNCHANGED vars]_<<vars, last>>
\* an account never loses its number, and its kind only moves vest -> base
AccountsStable == [][\A a \in Addrs : acc[a].kind # "none" =>
                       /\ acc'[a].num = acc[a].num
                       /\ (acc'[a].kind = acc[a].kind \/ (acc[a].kind = "vest" /\ acc'[a].kind = "base"))]_vars

Emit == PrintT(<<"TRACE", ToJson(hist)>>)
EmitAtEnd == Len(hist) < MaxLen \/ Emit
EmitEdge == PrintT(<<"EDGE", ToJson(hist')>>)
=============================================================================
