SPECIFICATION Spec
CONSTANTS
  Addrs <- A3
  Amts <- Amt03
  Cap = 7
  MaxLen = 3
  MaxTime = 2
  RawOps = TRUE
  IOIns <- InsQS
  IOOuts <- OutsQS
  Genesis <- Gen2
VIEW View
INVARIANTS SupplyEq BalanceWellFormed SupplyWellFormed HolderHasAccount NumsUnique
PROPERTIES OnlyMintBurnChangeSupply TransferNeutral MintBurnExact FailedChangesNothing AccountsStable
ACTION_CONSTRAINT EmitEdge
