CONSTANTS
  NK = 1500
  NV = 3
  MaxVer = 16
  MaxLen = 30
  NR = 2
  Impl = "bptree"
  SmallTree = FALSE
  Opts <- Opts2
  Reads = TRUE
  BadArgs = TRUE
  SvAlways = FALSE
  Quiet = FALSE
  FillSizes <- FillHuge
  Scripts <- NoScripts
INIT Init
NEXT NextShapeSkelF
VIEW View
INVARIANTS TypeOK Contig WorkingRetained ReadersRetained CleanIsSaved NotRetainedIsBlank HkFunctional
PROPERTIES SavedImmutable PruneKeepsRetained OnlyNext SessionDrop
INVARIANT EmitAtEnd
