----------------------------- MODULE MConnTrace -----------------------------
(* C43 (V): executions of two real MConnections joined by the driver's chunking pipe, recorded as
   NDJSON events in one total order (one mutex), validated against MConn.tla.  Every event carries
   the goroutine that logged it (g) and its per-goroutine sequence number (seq).

     Send   application goroutine about to call Send/TrySend(ch, message id, len); `ok` is the reply
            the call eventually got (the file is written after the run)
     Ret    the call returned
     Pkt    the pipe parsed one complete packet out of what side s wrote: kind, channel, EOF flag,
            payload length, size on the stream, and (id, off) = which message bytes the payload is
     Inject the driver put a packet of its own at this packet boundary of stream s
     Chunk  the transport handed n more bytes of stream s to the receiver's Read
     Recv   onReceive(ch, bytes) on side x: id = the message with exactly these bytes (-1: none)
     Err    onError on side x
     Stop   the application is about to call FlushStop on side x
     Close  side x closed its connection
     EOF    the Read of side x returned io.EOF (the peer's stream was read to its end)
     Idle   the receive routine of side x has taken every byte of the peer's stream (the writer is
            done) and is parked in Read again: it got past every packet without failing
     Final  all goroutines of the run are done
     Reset  next run

   Packets are consumed by a receive routine without an event of their own (only deliveries and
   errors are visible), so RecvPacket steps that neither deliver nor fail are taken silently, and
   only when the next event of that side needs them (TSkip / TFail); the send queue pop is silent
   too (TPop).  Interleaving across channels and sides is whatever the run did; the order within a
   channel is fixed by the model.  Send-queue capacity is not constrained here (see MConn.tla).  *)
EXTENDS MCMConn, Json

TheTrace == ndJsonDeserialize("mconn_trace.ndjson")

Gs == {"A.s1", "A.s2", "A.s3", "B.s1", "B.s2", "B.s3", "A.recv", "B.recv", "A.wr", "B.wr", "A.err", "B.err", "A.cl", "B.cl", "drv"}

VARIABLES l, gs
tvars == <<vars, l, gs>>
Line == TheTrace[l]
More == l <= Len(TheTrace)
Is(a) == More /\ Line.act = a
\* the event is the next one of its goroutine
Step == /\ Line.g \in Gs /\ Line.seq = gs[Line.g] + 1
        /\ gs' = [gs EXCEPT ![Line.g] = Line.seq]
        /\ l' = l + 1
Silent == UNCHANGED <<l, gs>>

TInit == Init /\ l = 1 /\ gs = [g \in Gs |-> 0] /\ TLCSet(1, 0)

TReset == /\ Is("Reset")
          /\ queue' = [s \in Sides |-> [c \in Chans |-> <<>>]]
          /\ sending' = [s \in Sides |-> [c \in Chans |-> None]]
          /\ wire' = [s \in Sides |-> <<>>]
          /\ avail' = [s \in Sides |-> 0]
          /\ recving' = [s \in Sides |-> [c \in Chans |-> <<>>]]
          /\ delivered' = [s \in Sides |-> [c \in Chans |-> <<>>]]
          /\ sent' = [s \in Sides |-> [c \in Chans |-> <<>>]]
          /\ up' = [s \in Sides |-> TRUE]
          /\ flushing' = [s \in Sides |-> FALSE]
          /\ flushed' = [s \in Sides |-> FALSE]
          /\ eof' = [s \in Sides |-> FALSE]
          /\ recvDone' = [s \in Sides |-> FALSE]
          /\ errored' = [s \in Sides |-> FALSE]
          /\ mustErr' = [s \in Sides |-> FALSE]
          /\ clean' = [s \in Sides |-> FALSE]
          /\ credit' = [s \in Sides |-> 0]
          /\ UNCHANGED <<nmsg, ninj>>
          /\ gs' = [g \in Gs |-> 0] /\ l' = l + 1

\* --- application calls ------------------------------------------------------------------------
TSend == /\ Is("Send") /\ Line.x \in Sides /\ Line.ch \in Chans /\ Line.len >= 0 /\ Line.id >= 1
         /\ IF Line.ok THEN Enqueue(Line.x, Line.ch, Line.id, Line.len) ELSE UNCHANGED <<queue, sent>>
         /\ UNCHANGED <<sending, wire, avail, recving, delivered, up, flushing, flushed, eof, recvDone, errored,
                        mustErr, clean, credit, nmsg, ninj>>
         /\ Step

\* Send (blocking) refuses only when the service is stopped or stopping after its receive routine
\* ended; TrySend also when the queue is full
TRet == /\ Is("Ret") /\ Line.x \in Sides
        /\ (~Line.ok /\ Line.op = "Send") => (~up[Line.x] \/ recvDone[Line.x])
        /\ UNCHANGED vars /\ Step

\* --- what side s puts on its stream -------------------------------------------------------------
\* A message packet observed on the stream of side x.  The property does not prescribe HOW a message is
\* cut into packets, so any cut is accepted here (MConn!NextPacket is the code's cut and is what (M)
\* checks): the payload is the next Line.len <= MaxPay bytes of the channel's current message and
\* the EOF flag is only set on a packet that completes the message.
TPkt == /\ Is("Pkt") /\ Line.x \in Sides /\ Line.size >= 1
        /\ CASE Line.kind = "msg" ->
                  LET m == sending[Line.x][Line.ch] IN
                  /\ Line.ch \in Chans /\ m # None /\ CanWrite(Line.x)
                  /\ Line.size > Line.len /\ Line.size <= Line.len + 32
                  /\ Line.id = m.id /\ Line.off = m.off /\ Line.len >= 0 /\ Line.len <= MaxPay
                  /\ m.off + Line.len <= m.len
                  /\ Line.eof \in {0, 1} /\ (Line.eof = 1 => m.off + Line.len = m.len)
                  /\ wire' = [wire EXCEPT ![Line.x] = Append(@, Pkt("msg", Line.ch, Line.eof, m.id, m.off, Line.len, Line.size))]
                  /\ sending' = [sending EXCEPT ![Line.x][Line.ch] = IF Line.eof = 1 THEN None ELSE [@ EXCEPT !.off = @ + Line.len]]
                  /\ UNCHANGED <<queue, avail, recving, delivered, sent, up, flushing, flushed, eof, recvDone, errored,
                                 mustErr, clean, credit, nmsg, ninj>>
             [] Line.kind = "pong" -> SendPong(Line.x, Line.size)
             [] Line.kind = "ping" -> SendPing(Line.x, Line.size)
             [] OTHER -> FALSE
        /\ Step

TInject == /\ Is("Inject") /\ Line.x \in Sides /\ Line.size >= 1
           /\ Inject(Line.x, Line.kind, Line.size)
           /\ Step

TChunk == /\ Is("Chunk") /\ Line.x \in Sides /\ WireChunk(Line.x, Line.n) /\ Step

\* --- receive routine of side r = Peer(s) -------------------------------------------------------
\* the next event needs the receive routine of side r to have got further
Wants(r) == More /\ Line.act \in {"Recv", "Err", "EOF", "Idle", "Close", "Ret", "Pkt"} /\ Line.x = r /\
            CASE Line.act = "Recv" -> TRUE
              [] Line.act = "EOF" -> TRUE
              [] Line.act = "Idle" -> TRUE
              [] Line.act = "Err" -> ~recvDone[r]
              [] Line.act = "Close" -> ~eof[r] /\ ~recvDone[r] /\ ~(flushing[r] /\ Drained(r))
              [] Line.act = "Ret" -> ~Line.ok /\ Line.op = "Send" /\ up[r] /\ ~recvDone[r]
              [] Line.act = "Pkt" -> Line.kind = "pong" /\ credit[r] = 0
\* ... and needs it to fail
WantsFail(r) == Wants(r) /\ Line.act \in {"Err", "Close", "Ret"}

TSkip == \E s \in Sides : /\ Wants(Peer(s)) /\ HeadReady(s) /\ Effect(s) \in {"skip", "frag"}
                          /\ RecvPacket(s) /\ Silent
TFail == \E s \in Sides : /\ WantsFail(Peer(s)) /\ HeadReady(s) /\ Effect(s) = "fail"
                          /\ RecvPacket(s) /\ Silent
TPop == \E s \in Sides, c \in Chans : /\ Is("Pkt") /\ Line.x = s /\ Line.kind = "msg" /\ Line.ch = c
                                      /\ Pop(s, c) /\ Silent

TRecv == /\ Is("Recv") /\ Line.x \in Sides
         /\ LET s == Peer(Line.x) IN
            /\ HeadReady(s) /\ Effect(s) = "deliver" /\ Head(wire[s]).ch = Line.ch
            /\ RecvPacket(s)
            /\ LET d == delivered'[s][Line.ch][Len(delivered'[s][Line.ch])] IN
               /\ d.id = Line.id /\ d.len = Line.len /\ d.ok      \* exactly the bytes of one message ...
               /\ IsPrefix(Plain(delivered'[s][Line.ch]), sent[s][Line.ch])   \* ... the next one of its channel
         /\ Step

TErr == /\ Is("Err") /\ Line.x \in Sides /\ OnError(Line.x) /\ Step

TStop == /\ Is("Stop") /\ Line.x \in Sides
         /\ IF up[Line.x] THEN StopBegin(Line.x) ELSE UNCHANGED vars
         /\ Step

\* Close: end of a FlushStop (everything queued is on the stream), or of a FlushStop that lost the
\* race against an error stop, or the error stop itself
TClose == /\ Is("Close") /\ Line.x \in Sides
          /\ \/ StopEnd(Line.x)
             \/ /\ flushing[Line.x] /\ recvDone[Line.x] /\ ~eof[Line.x]
                /\ flushing' = [flushing EXCEPT ![Line.x] = FALSE]
                /\ eof' = [eof EXCEPT ![Line.x] = TRUE]
                /\ UNCHANGED <<queue, sending, wire, avail, recving, delivered, sent, up, flushed, recvDone,
                               errored, mustErr, clean, credit, nmsg, ninj>>
             \/ CloseOnError(Line.x)
          /\ Step

TEOF == /\ Is("EOF") /\ Line.x \in Sides /\ RecvEOF(Peer(Line.x)) /\ Step

\* the receive routine of x waits for more input: every packet of the stream was skipped, buffered or delivered
TIdle == /\ Is("Idle") /\ Line.x \in Sides
         /\ wire[Peer(Line.x)] = <<>> /\ ~recvDone[Line.x]
         /\ UNCHANGED vars /\ Step

\* end of a run: every side that hit a failing packet or the peer's close while up reported it
TFinal == /\ Is("Final")
          /\ \A x \in Sides : mustErr[x] => errored[x]
          /\ \A s \in Sides : clean[s] => \A c \in Chans : Plain(delivered[s][c]) = sent[s][c]
          /\ UNCHANGED vars /\ Step

TNext == TReset \/ TSend \/ TRet \/ TPkt \/ TInject \/ TChunk \/ TSkip \/ TFail \/ TPop \/ TRecv \/ TErr
         \/ TStop \/ TClose \/ TEOF \/ TIdle \/ TFinal
TSpec == TInit /\ [][TNext]_tvars

Mark == TLCSet(1, IF l - 1 > TLCGet(1) THEN l - 1 ELSE TLCGet(1))
Accepted == IF TLCGet(1) = Len(TheTrace) THEN TRUE
            ELSE PrintT(<<"HWM", ToString(TLCGet(1))>>) /\ FALSE
TMalformedCloses == [][~Is("Reset") => \A s \in Sides : recvDone[Peer(s)] => delivered'[s] = delivered[s]]_tvars
=============================================================================
