CONSTANTS
  Keys <- KeysS
  DataKeys <- KeysS
  Vals = {"a", ""}
  Prefixes <- PfxS
  Stores = {"s1"}
  MaxLayers = 3
  MaxLen = 7
  InitBases <- Bases3
  ReadAll = FALSE
  LogViews = FALSE
  Quiet = TRUE
INIT Init
NEXT Next
VIEW View
INVARIANTS TypeOK OverlayEqualsFlat CheckpointIsSaved LastScanOK
PROPERTIES FlushIsLocal PopDiscards

