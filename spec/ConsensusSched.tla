---------------------------- MODULE ConsensusSched ----------------------------
(* C31, model-driven schedules. A REALISABLE refinement of Consensus.tla: the behaviours of this module
   are schedules that harness/cmd/consensus (-mode sched) replays, step by step, into real ConsensusState
   objects; the recorded execution is then validated by ConsensusTrace.tla exactly like the chaos traces.

   Where Consensus.tla lets a node act as soon as the NETWORK holds a justification, this module makes
   delivery explicit: every honest node has its own knowledge (the proposal / block in hand, one prevote
   and one precommit per (validator, round) as HeightVoteSet keeps them), and every step is ONE stimulus
   the driver can apply to ONE real node, followed by draining that node's internal message queue:

     prop     a proposal (+ its block parts) of the node's current round is delivered
     block    the parts of the block the node is waiting for (ProposalBlockParts header set by a polka /
              commit) are delivered
     vote     one prevote / precommit of another validator is delivered
     timeout  the node's pending timeout (propose, prevote-wait, precommit-wait) fires

   The node's reaction is the code's: one operator per enter* function / handler of state.go with its
   branch structure (handleTimeout, enterNewRound, enterPropose, defaultSetProposal, addProposalBlockPart,
   enterPrevote/defaultDoPrevote, enterPrevoteWait, enterPrecommit (4 outcomes), enterPrecommitWait,
   enterCommit, tryFinalizeCommit, addVote incl. the unlock / valid-block / round-skip rules, signAddVote's
   "avoid re-signing" guard, the timeout ticker's replacement rule). Hence every trigger the real code
   needs is part of the schedule: a precommit nil without polka needs +2/3 any prevotes AND the
   prevote-wait timeout; a round change needs +2/3 any precommits AND the precommit-wait timeout (or
   +2/3 any votes of a later round); a fresh proposal is a value never proposed before ("p<r>"); a
   re-proposal is the proposer's valid block with POLRound = its valid round.

   Byzantine validator b1: at most two distinct proposals per round in which it is the proposer (fresh
   blocks "x<r>", "y<r>", or known blocks with any POL round), different ones to different nodes; votes
   for nil or any known block in any round, different ones to different nodes, at any time (also long
   after the round: stale polkas). It cannot sign for others. Honest messages may be delivered to any
   node in any order, any time later, or never.

   Deliberate restrictions (what the schedules do not cover; the chaos stage does): a node's own votes are
   processed before the next external stimulus (the internal queue is drained after every step); a
   proposal is delivered together with its block parts; no false +2/3 claims (so a second, conflicting
   vote of b1 for the same (type, round) is never admitted by a node: not offered); one height; equal
   powers.

   How behaviours are obtained: the delivery-explicit state space is far too large to enumerate (round 0 alone:
   > 2.6 M distinct states at depth 11, still growing; exhaustive only without Byzantine votes: ConsensusSched_q.cfg,
   48 048 states), so schedules come from TLC simulation with NextSim, which draws ONE stimulus per step with a
   bias towards the situations the locking rules exist for (see NextSim); checks/c31.py then chooses among the
   simulated behaviours for situation / branch coverage (tags `sit`, `br` of every step).

   Refinement of Consensus.tla: the invariants of that module are checked here on the honest messages
   (Agreement, NoHonestEquivocation, PrecommitHasPolka, DecisionHasCommit), and every step is checked
   against the guards of ConsensusGuards.tla evaluated on the acting node's own knowledge (Assert in Apply)
   -- the very guards ConsensusTrace.tla imposes on the recorded real execution.                      *)
EXTENDS Integers, FiniteSets, Sequences, TLC, Json, ConsensusGuards

CONSTANTS Honest, Byz, MaxRound, MaxLen,
          Orders,      \* set of proposer orders (functions 0..3 -> validator) Init may choose from
          Quiet,       \* TRUE: do not maintain hist (exhaustive runs without emission)
          ByzReuse,    \* TRUE: a Byzantine proposer may also re-propose known blocks (any POL round)
          ByzVoteKinds \* the vote types b1 uses: {"prevote", "precommit"}; smaller only for the small exhaustive configuration

Nodes == Honest \cup Byz
Rounds == 0..MaxRound
NoRound == -1
None == "none"
TheByz == CHOOSE b \in Byz : TRUE
N == Cardinality(Nodes)

\* RoundStepType of the code
NewHeight == 1  NewRound == 2  Propose == 3  Prevote == 4  PrevoteWait == 5
Precommit == 6  PrecommitWait == 7  Commit == 8

VARIABLES ns,      \* [honest node -> record] local state
          msgs,    \* messages broadcast by honest nodes
          bprops,  \* Byzantine proposals made so far
          order,   \* proposer of each round
          done, hist,
          mute     \* simulation bias only (see NextSim): who does not hear whom at the moment

vars == <<ns, msgs, bprops, order, done, hist, mute>>
View == <<ns, msgs, bprops, order, done>>

Modes == {[mode |-> m, victim |-> v] : m \in {"free", "deaf", "unheard", "favoured", "hoard"}, v \in Honest}
NoProp == [has |-> FALSE, v |-> Nil, pol |-> NoRound]
Msg(k, src, r, v, pol) == [kind |-> k, src |-> src, round |-> r, value |-> v, pol |-> pol]
Vote(m) == [src |-> m.src, round |-> m.round, value |-> m.value]
ToStr(r) == CASE r = 0 -> "0" [] r = 1 -> "1" [] r = 2 -> "2" [] r = 3 -> "3" [] OTHER -> "9"
FreshOf(r) == "p" \o ToStr(r)
ByzFresh(r) == <<"x" \o ToStr(r), "y" \o ToStr(r)>>

\* ---------------------------------------------------------------- vote sets (equal powers)
Cnt(S, r, v) == Cardinality({m \in S : m.round = r /\ m.value = v})
AnyV(S, r) == 3 * Cardinality({m \in S : m.round = r}) > 2 * N
\* VoteSet.TwoThirdsMajority: the value (possibly nil) with +2/3, or "none"
Maj(S, r) == LET q == {v \in {m.value : m \in {x \in S : x.round = r}} : 3 * Cnt(S, r, v) > 2 * N}
             IN IF q = {} THEN None ELSE CHOOSE v \in q : TRUE

Tag(s, t) == [s EXCEPT !.br = @ \cup {t}]

\* ---------------------------------------------------------------- the code, one operator per function
\* timeoutTicker: a new timeout replaces the pending one unless it is for an older round, or the same round and a
\* step not later than the last accepted one
Sched(s, r, st) ==
  IF r < s.tl.r \/ (r = s.tl.r /\ st <= s.tl.s) THEN s
  ELSE [s EXCEPT !.tl = [r |-> r, s |-> st], !.tp = TRUE]

\* signAddVote incl. "avoid re-signing" (existingSignedVote looks into the vote set of the current round)
SignAdd(s, kind, v) ==
  LET S == IF kind = "prevote" THEN s.pv ELSE s.pc IN
  IF \E m \in S : m.src = s.id /\ m.round = s.r THEN Tag(s, "signAddVote:existing-vote-not-resigned")
  ELSE [s EXCEPT !.iq = Append(@, Msg(kind, s.id, s.r, v, NoRound))]

\* isProposalComplete
Complete(s) == s.prop.has /\ s.pb # Nil /\ (s.prop.pol < 0 \/ Maj(s.pv, s.prop.pol) # None)

\* enterPrevote + defaultDoPrevote
EnterPrevote(s, r) ==
  IF r < s.r \/ (s.r = r /\ Prevote <= s.s) THEN s
  ELSE LET v == IF s.lv # Nil THEN s.lv ELSE s.pb
           t == IF s.lv # Nil THEN "prevote:locked-block" ELSE IF s.pb = Nil THEN "prevote:nil" ELSE "prevote:proposal-block"
       IN [SignAdd(Tag(s, t), "prevote", v) EXCEPT !.s = Prevote]

EnterPrevoteWait(s, r) ==
  IF r < s.r \/ (s.r = r /\ PrevoteWait <= s.s) THEN s
  ELSE [Sched(Tag(s, "enterPrevoteWait"), r, PrevoteWait) EXCEPT !.s = PrevoteWait]

\* enterPrecommit: the outcomes of state.go 1127-1220
EnterPrecommit(s, r) ==
  IF r < s.r \/ (s.r = r /\ Precommit <= s.s) THEN s
  ELSE LET maj == Maj(s.pv, r)
           s1 == CASE maj = None -> SignAdd(Tag(s, IF s.lv # Nil THEN "precommit:no-polka-locked-nil" ELSE "precommit:no-polka-nil"), "precommit", Nil)
                 [] maj = Nil -> SignAdd([Tag(s, IF s.lv # Nil THEN "precommit:polka-nil-unlock" ELSE "precommit:polka-nil") EXCEPT !.lr = NoRound, !.lv = Nil], "precommit", Nil)
                 [] maj # None /\ maj # Nil /\ s.lv = maj -> SignAdd([Tag(s, "precommit:relock") EXCEPT !.lr = r], "precommit", maj)
                 [] maj # None /\ maj # Nil /\ s.lv # maj /\ s.pb = maj ->
                      SignAdd([Tag(s, IF s.lv # Nil THEN "precommit:lock-other-block" ELSE "precommit:lock") EXCEPT !.lr = r, !.lv = maj], "precommit", maj)
                 [] OTHER -> SignAdd([Tag(s, IF s.lv # Nil THEN "precommit:polka-block-not-in-hand-unlock" ELSE "precommit:polka-block-not-in-hand")
                                        EXCEPT !.lr = NoRound, !.lv = Nil, !.pb = IF s.pbp = maj THEN @ ELSE Nil, !.pbp = maj], "precommit", Nil)
       IN [s1 EXCEPT !.s = Precommit]

EnterPrecommitWait(s, r) ==
  IF r < s.r \/ (s.r = r /\ s.ttp) THEN s
  ELSE [Sched(Tag(s, "enterPrecommitWait"), r, PrecommitWait) EXCEPT !.ttp = TRUE, !.s = PrecommitWait]

\* tryFinalizeCommit + finalizeCommit + updateToState (the node is then at height 2: frozen in this model)
TryFinalize(s) ==
  LET maj == Maj(s.pc, s.cr) IN
  IF maj = None \/ maj = Nil \/ s.pb # maj THEN s
  ELSE [Tag(s, "finalizeCommit") EXCEPT !.dec = maj, !.r = 0, !.s = NewHeight, !.lr = NoRound, !.lv = Nil, !.vr = NoRound, !.vv = Nil,
              !.prop = NoProp, !.pb = Nil, !.pbp = Nil, !.sp = {}, !.pv = {}, !.pc = {}, !.ttp = FALSE, !.cr = NoRound,
              !.tl = [r |-> 0, s |-> NewHeight], !.tp = TRUE]

EnterCommit(s, cr) ==
  IF Commit <= s.s THEN s
  ELSE LET maj == Maj(s.pc, cr)
           s1 == IF s.lv = maj THEN [s EXCEPT !.pb = s.lv, !.pbp = s.lv] ELSE s
           s2 == IF s1.pb # maj /\ s1.pbp # maj THEN [Tag(s1, "enterCommit:block-not-in-hand") EXCEPT !.pb = Nil, !.pbp = maj] ELSE s1
       IN TryFinalize([Tag(s2, IF cr < s.r THEN "enterCommit:older-round" ELSE "enterCommit") EXCEPT !.s = Commit, !.cr = cr])

\* defaultDecideProposal: the valid block if any, else a fresh block; the proposal and its parts go to the internal queue
EnterPropose(s, r) ==
  IF r < s.r \/ (s.r = r /\ Propose <= s.s) THEN s
  ELSE LET s1 == Sched(s, r, Propose)
           s2 == IF order[r] = s.id
                 THEN [Tag(s1, IF s1.vv # Nil THEN "propose:valid-block" ELSE "propose:fresh") EXCEPT
                         !.iq = Append(@, Msg("proposal", s.id, r, IF s1.vv # Nil THEN s1.vv ELSE FreshOf(r), s1.vr))]
                 ELSE s1
           s3 == [s2 EXCEPT !.s = Propose]
       IN IF Complete(s3) THEN EnterPrevote(s3, r) ELSE s3

EnterNewRound(s, r) ==
  IF r < s.r \/ (s.r = r /\ s.s # NewHeight) THEN s
  ELSE LET s0 == Tag(s, "enterNewRound")
           s1 == [s0 EXCEPT !.r = r, !.s = NewRound, !.ttp = FALSE,
                            !.prop = IF r = 0 THEN @ ELSE NoProp, !.pb = IF r = 0 THEN @ ELSE Nil, !.pbp = IF r = 0 THEN @ ELSE Nil]
       IN EnterPropose(s1, r)

\* defaultSetProposal (signature and POL range hold by construction of the offered messages)
SetProposal(s, m) ==
  IF s.prop.has \/ m.round # s.r THEN s
  ELSE [s EXCEPT !.prop = [has |-> TRUE, v |-> m.value, pol |-> m.pol], !.pbp = IF @ = Nil THEN m.value ELSE @]

\* addProposalBlockPart for all parts of block v
AddBlock(s, v) ==
  IF s.pbp = Nil \/ s.pbp # v \/ s.pb # Nil THEN s
  ELSE LET maj == Maj(s.pv, s.r)
           s1 == [s EXCEPT !.pb = v]
           s2 == IF maj # None /\ maj # Nil /\ s1.vr < s1.r /\ maj = v
                 THEN [Tag(s1, "addBlock:valid-block") EXCEPT !.vr = s1.r, !.vv = v] ELSE s1
       IN IF s2.s <= Propose /\ Complete(s2)
          THEN LET s3 == EnterPrevote(s2, s2.r) IN IF maj # None THEN EnterPrecommit(s3, s3.r) ELSE s3
          ELSE IF s2.s = Commit THEN TryFinalize(s2) ELSE s2

\* addVote, prevote part (the vote is already in s.pv)
OnPrevote(s, r) ==
  LET maj == Maj(s.pv, r)
      s1 == IF maj # None /\ s.lv # Nil /\ s.lr < r /\ r <= s.r /\ s.lv # maj
            THEN [Tag(s, "addVote:unlock") EXCEPT !.lr = NoRound, !.lv = Nil] ELSE s
      s2 == IF maj # None /\ maj # Nil /\ s1.vr < r /\ r = s1.r
            THEN IF s1.pb = maj THEN [Tag(s1, "addVote:valid-block") EXCEPT !.vr = r, !.vv = maj]
                 ELSE [Tag(s1, "addVote:polka-block-not-in-hand") EXCEPT !.pb = Nil, !.pbp = maj]
            ELSE s1
  IN IF s2.r < r /\ AnyV(s2.pv, r) THEN EnterNewRound(Tag(s2, "addVote:skip-on-prevotes"), r)
     ELSE IF s2.r = r /\ Prevote <= s2.s
          THEN IF maj # None /\ (Complete(s2) \/ maj = Nil) THEN EnterPrecommit(s2, r)
               ELSE IF AnyV(s2.pv, r) THEN EnterPrevoteWait(s2, r) ELSE s2
     ELSE IF s2.prop.has /\ 0 <= s2.prop.pol /\ s2.prop.pol = r /\ Complete(s2) THEN EnterPrevote(Tag(s2, "addVote:pol-completes-proposal"), s2.r)
     ELSE s2

\* addVote, precommit part
OnPrecommit(s, r) ==
  LET maj == Maj(s.pc, r) IN
  IF maj # None
  THEN LET s1 == EnterPrecommit(EnterNewRound(IF s.r < r THEN Tag(s, "addVote:skip-on-precommits") ELSE s, r), r) IN
       IF maj # Nil THEN EnterCommit(s1, r) ELSE EnterPrecommitWait(s1, r)
  ELSE IF s.r <= r /\ AnyV(s.pc, r) THEN EnterPrecommitWait(EnterNewRound(IF s.r < r THEN Tag(s, "addVote:skip-on-precommits") ELSE s, r), r)
  ELSE s

\* HeightVoteSet/VoteSet: one vote per (validator, round, type); a second (conflicting) one is not admitted
AddVote(s, kind, v) ==
  LET S == IF kind = "prevote" THEN s.pv ELSE s.pc IN
  IF \E x \in S : x.src = v.src /\ x.round = v.round THEN s
  ELSE IF kind = "prevote" THEN OnPrevote([s EXCEPT !.pv = @ \cup {v}], v.round)
       ELSE OnPrecommit([s EXCEPT !.pc = @ \cup {v}], v.round)

\* handleMsg for one message (own or peer)
Handle(s, m) ==
  IF s.dec # Nil THEN s      \* the node is at the next height: everything of this height is ignored
  ELSE IF m.kind = "proposal" THEN AddBlock(SetProposal([s EXCEPT !.sp = @ \cup {[round |-> m.round, value |-> m.value]}], m), m.value)
  ELSE AddVote(s, m.kind, Vote(m))

\* handleTimeout for the pending timeout
HandleTimeout(s) ==
  LET t == s.tl
      s1 == [s EXCEPT !.tp = FALSE] IN
  IF t.r < s.r \/ (t.r = s.r /\ t.s < s.s) THEN s1
  ELSE CASE t.s = Propose -> EnterPrevote(Tag(s1, "timeout:propose"), t.r)
       [] t.s = PrevoteWait -> EnterPrecommit(Tag(s1, "timeout:prevote-wait"), t.r)
       [] t.s = PrecommitWait -> EnterNewRound(EnterPrecommit(Tag(s1, "timeout:precommit-wait"), t.r), t.r + 1)
       [] OTHER -> s1

\* receiveRoutine prefers nothing, the driver does: the internal queue is drained after every stimulus
RECURSIVE Drain(_)
Drain(s) ==
  IF s.iq = <<>> THEN s
  ELSE LET m == Head(s.iq) IN Drain(Handle([s EXCEPT !.iq = Tail(@), !.out = Append(@, m)], m))

S0(p) == [id |-> p, r |-> 0, s |-> NewHeight, lr |-> NoRound, lv |-> Nil, vr |-> NoRound, vv |-> Nil,
          prop |-> NoProp, pbp |-> Nil, pb |-> Nil, sp |-> {}, pv |-> {}, pc |-> {}, iq |-> <<>>, out |-> <<>>, dec |-> Nil,
          ttp |-> FALSE, cr |-> NoRound, tl |-> [r |-> 0, s |-> NewHeight], tp |-> FALSE, br |-> {}]

\* ---------------------------------------------------------------- what the driver can read from the real node
MajVec(S) == [i \in 1..(MaxRound + 1) |-> Maj(S, i - 1)]
Proj(s) == [r |-> s.r, s |-> s.s, lr |-> s.lr, lv |-> s.lv, vr |-> s.vr, vv |-> s.vv, pb |-> s.pb, pbp |-> s.pbp,
            dec |-> s.dec, pm |-> MajVec(s.pv), cm |-> MajVec(s.pc),
            tr |-> IF s.tp THEN s.tl.r ELSE NoRound, ts |-> IF s.tp THEN s.tl.s ELSE 0]

\* ---------------------------------------------------------------- stimuli
Props == {m \in msgs : m.kind = "proposal"} \cup bprops
Known == {m.value : m \in Props}

NewByzProps(r) ==
  LET mine == {b \in bprops : b.round = r}
      used == {b.value : b \in mine}
      fresh == IF ByzFresh(r)[1] \notin used THEN {ByzFresh(r)[1]} ELSE IF ByzFresh(r)[2] \notin used THEN {ByzFresh(r)[2]} ELSE {}
  IN IF Cardinality(mine) >= 2 THEN {}
     ELSE {Msg("proposal", TheByz, r, v, NoRound) : v \in fresh}
          \cup (IF ByzReuse THEN {Msg("proposal", TheByz, r, v, q) : v \in Known \ used, q \in NoRound..(r - 1)} ELSE {})

PropCands(p) ==
  LET s == ns[p] IN
  IF s.dec # Nil \/ s.prop.has \/ s.s = NewHeight THEN {}
  ELSE {[act |-> "prop", node |-> p, m |-> m] : m \in {x \in msgs : x.kind = "proposal" /\ x.round = s.r /\ x.src # p}}
       \cup (IF order[s.r] \in Byz THEN {[act |-> "prop", node |-> p, m |-> m] : m \in {b \in bprops : b.round = s.r} \cup NewByzProps(s.r)} ELSE {})

BlockCands(p) ==
  LET s == ns[p] IN
  IF s.dec = Nil /\ s.pbp # Nil /\ s.pb = Nil /\ s.pbp \in Known
  THEN {[act |-> "block", node |-> p, m |-> Msg("block", "none", s.r, s.pbp, NoRound)]} ELSE {}

HonestVoteCands(p) ==
  LET s == ns[p] IN
  IF s.dec # Nil THEN {}
  ELSE {[act |-> "vote", node |-> p, m |-> m] :
          m \in {x \in msgs : /\ x.kind \in {"prevote", "precommit"} /\ x.src # p
                              /\ ~\E y \in (IF x.kind = "prevote" THEN s.pv ELSE s.pc) : y.src = x.src /\ y.round = x.round}}

FreeByzRounds(s, k) == {r \in Rounds : ~\E y \in (IF k = "prevote" THEN s.pv ELSE s.pc) : y.src = TheByz /\ y.round = r}
ByzVoteCands(p) ==
  LET s == ns[p] IN
  IF s.dec # Nil THEN {}
  ELSE UNION {{[act |-> "vote", node |-> p, m |-> Msg(k, TheByz, r, v, NoRound)] : r \in FreeByzRounds(s, k), v \in Known \cup {Nil}} : k \in ByzVoteKinds}

TimeoutCands(p) ==
  LET s == ns[p] IN
  IF s.dec = Nil /\ s.tp /\ s.tl.r = s.r /\ s.tl.s >= s.s /\ ~(s.tl.s = PrecommitWait /\ s.r = MaxRound)
  THEN {[act |-> "timeout", node |-> p, m |-> Msg("timeout", "none", s.tl.r, Nil, s.tl.s)]} ELSE {}

Cands == UNION {PropCands(p) \cup BlockCands(p) \cup HonestVoteCands(p) \cup ByzVoteCands(p) \cup TimeoutCands(p) : p \in Honest}

\* ---------------------------------------------------------------- one step
React(st) ==
  LET s == [ns[st.node] EXCEPT !.out = <<>>, !.br = {}] IN
  Drain(CASE st.act = "prop" -> Handle(s, st.m)
        [] st.act = "block" -> AddBlock(s, st.m.value)
        [] st.act = "vote" -> Handle(s, st.m)
        [] st.act = "timeout" -> HandleTimeout(s))

OutSet(s) == {s.out[i] : i \in 1..Len(s.out)}

\* situations (the ones the locking rules exist for), decided on the acting node's own knowledge
NewPolkas(s0, s1) == {r \in Rounds : Maj(s0.pv, r) = None /\ Maj(s1.pv, r) # None}
Situations(st, s0, s1) ==
  LET np == IF s1.dec # Nil THEN {} ELSE NewPolkas(s0, s1)
      hp == {m \in msgs \cup OutSet(s1) : m.kind = "prevote" /\ m.value # Nil}
  IN (IF s0.lv = Nil /\ s1.lv # Nil THEN {"lock"} ELSE {})
     \cup (IF s0.lv # Nil /\ s1.lv # Nil /\ s1.lv # s0.lv THEN {"lock-other-block"} ELSE {})
     \cup (IF s0.lv # Nil /\ s1.lv = s0.lv /\ s1.lr > s0.lr THEN {"relock"} ELSE {})
     \cup (IF s0.lv # Nil /\ s1.lv = s0.lv /\ s1.lr > s0.lr /\ s1.dec = Nil /\ s1.pb # s1.lv THEN {"relock-without-round-proposal"} ELSE {})
     \cup (IF s0.lv # Nil /\ s1.lv = Nil /\ s1.dec = Nil THEN {"unlock"} ELSE {})
     \cup (IF s0.lv # Nil /\ \E r \in np : r > s0.lr /\ Maj(s1.pv, r) # s0.lv THEN {"lock-then-different-polka"} ELSE {})
     \cup (IF s0.lv # Nil /\ \E r \in np : r > s0.lr /\ Maj(s1.pv, r) \notin {s0.lv, Nil} THEN {"lock-then-polka-for-other-block"} ELSE {})
     \cup (IF \E r \in np : r < s0.r THEN {"stale-polka-after-round-change"} ELSE {})
     \cup (IF s0.lv # Nil /\ \E r \in np : r < s0.r /\ r <= s0.lr /\ Maj(s1.pv, r) # s0.lv THEN {"stale-polka-not-newer-than-lock"} ELSE {})
     \cup (IF s0.lv # Nil /\ s1.lv = Nil /\ \E r \in np : r < s0.r /\ r > s0.lr THEN {"stale-polka-unlocks"} ELSE {})
     \cup (IF s0.lv # Nil /\ \E r \in np : r > s0.r THEN {"future-polka-while-locked"} ELSE {})
     \cup (IF st.act = "prop" /\ st.m.src \in Byz /\ \E b \in bprops : b.round = st.m.round /\ b.value # st.m.value
           THEN {"equivocating-proposal-delivered"} ELSE {})
     \cup (IF \E m \in OutSet(s1) : m.kind = "prevote" /\ m.value # Nil /\ order[m.round] \in Byz
                                    /\ \E x \in hp : x.round = m.round /\ x.value # m.value /\ x.src # m.src
           THEN {"equivocating-proposal-split"} ELSE {})
     \cup (IF st.act = "vote" /\ st.m.src \in Byz /\ \E q \in Honest \ {st.node} :
                \E y \in (IF st.m.kind = "prevote" THEN ns[q].pv ELSE ns[q].pc) : y.src = st.m.src /\ y.round = st.m.round /\ y.value # st.m.value
           THEN {"equivocating-vote-delivered"} ELSE {})
     \cup (IF s1.dec # Nil THEN {"decide"} ELSE {})
     \cup (IF s1.dec # Nil /\ \E q \in Honest \ {st.node} : ns[q].dec = Nil /\ ns[q].lv \notin {Nil, s1.dec} THEN {"decide-while-other-locked-elsewhere"} ELSE {})

\* the guards of ConsensusGuards.tla on the acting node's knowledge (what ConsensusTrace.tla checks on the real trace)
PWeq == [n \in Nodes |-> 1]
GuardViolations(st, s0, s1) ==
  LET sg == OutSet(s1)
      fin == s1.dec # Nil
      props == IF fin THEN s0.sp \cup {[round |-> m.round, value |-> m.value] : m \in {x \in sg \cup {st.m} : x.kind = "proposal"}} ELSE s1.sp
      pv1 == IF fin THEN s0.pv \cup {Vote(m) : m \in {x \in sg \cup {st.m} : x.kind = "prevote"}} ELSE s1.pv
      pc1 == IF fin THEN s0.pc \cup {Vote(m) : m \in {x \in sg \cup {st.m} : x.kind = "precommit"}} ELSE s1.pc
  IN (IF \A m \in sg : m.kind = "prevote" =>
           \/ PrevoteOKP(PWeq, s0.lv, props, pv1, m.round, m.value)
           \/ PrevoteOKP(PWeq, IF fin THEN s0.lv ELSE s1.lv, props, pv1, m.round, m.value)
      THEN {} ELSE {"prevote-against-lock-or-without-block"})
     \cup (IF \A m \in sg : (m.kind = "precommit" /\ m.value # Nil) => LockOKP(PWeq, pv1, m.round, m.value) THEN {} ELSE {"precommit-without-polka"})
     \cup (IF \A m \in sg : (m.kind = "precommit" /\ m.value # Nil /\ ~fin) => (s1.lr = m.round /\ s1.lv = m.value) THEN {} ELSE {"precommit-does-not-lock-at-its-round"})
     \cup (IF (~fin /\ s1.lv # Nil /\ <<s1.lr, s1.lv>> # <<s0.lr, s0.lv>>) => LockOKP(PWeq, pv1, s1.lr, s1.lv) THEN {} ELSE {"lock-without-polka"})
     \cup (IF (~fin /\ s0.lv # Nil /\ s1.lv = Nil) => UnlockOKP(PWeq, pv1, s0.lr, s0.lv, s1.r) THEN {} ELSE {"unlock-without-later-polka"})
     \cup (IF fin => DecideOKP(PWeq, pc1, s1.dec) THEN {} ELSE {"commit-without-two-thirds-precommits"})

StepRec(st, s0, s1) ==
  [act |-> st.act, node |-> st.node, kind |-> st.m.kind, src |-> st.m.src, round |-> st.m.round, value |-> st.m.value, pol |-> st.m.pol,
   st |-> Proj(s1), out |-> s1.out, br |-> s1.br, sit |-> Situations(st, s0, s1)]

\* (\E over a singleton: TLC evaluates the reaction once instead of once per use)
Apply(st) ==
  \E s0 \in {ns[st.node]} : \E s1 \in {React(st)} : \E gv \in {GuardViolations(st, s0, s1)} :
  /\ ns' = [ns EXCEPT ![st.node] = [s1 EXCEPT !.out = <<>>, !.br = {}]]
  /\ msgs' = msgs \cup OutSet(s1)
  /\ bprops' = IF st.act = "prop" /\ st.m.src \in Byz THEN bprops \cup {st.m} ELSE bprops
  /\ Assert(gv = {}, <<"model step violates the guards of ConsensusGuards", st, gv>>)
  /\ hist' = IF Quiet THEN hist ELSE Append(hist, StepRec(st, s0, s1))
  /\ UNCHANGED order

Started(p) == Drain(EnterNewRound(S0(p), 0))
Init0 ==
  /\ order \in Orders
  /\ ns = [p \in Honest |-> [Started(p) EXCEPT !.out = <<>>, !.br = {}]]
  /\ msgs = UNION {OutSet(Started(p)) : p \in Honest}
  /\ bprops = {}
  /\ done = FALSE
  /\ hist = <<[act |-> "Init", order |-> [i \in 1..4 |-> order[i - 1]], maxround |-> MaxRound,
               st |-> [p \in Honest |-> Proj(Started(p))], out |-> [p \in Honest |-> Started(p).out]]>>

Init == Init0 /\ mute = [mode |-> "free", victim |-> CHOOSE h \in Honest : TRUE]
InitSim == Init0 /\ mute \in Modes

Stop == /\ done' = TRUE /\ UNCHANGED <<ns, msgs, bprops, order, hist>>

\* exhaustive
Next ==
  \/ /\ ~done /\ (Quiet \/ Len(hist) < MaxLen) /\ \E st \in Cands : Apply(st) /\ done' = FALSE /\ UNCHANGED mute
  \/ /\ ~done /\ ((~Quiet /\ Len(hist) >= MaxLen) \/ Cands = {}) /\ Stop /\ UNCHANGED mute

\* simulation: ONE weighted random stimulus per step (one successor, so long schedules are cheap), biased towards the
\* situations the locking rules exist for. The bias only chooses AMONG the enabled stimuli of the model:
\*  - the acting node and the class of stimulus are drawn first, so that timeouts and Byzantine votes are as likely as
\*    honest deliveries although there are fewer of them;
\*  - "completing" Byzantine votes: b1 gives one node exactly the vote that completes a +2/3 there (a polka or a
\*    commit only this node sees; also for rounds the node has left: stale polkas);
\*  - a partition `mute` that changes now and then: a victim node that hears nobody / that nobody hears / that is the
\*    only one to hear everything (the others time out without a polka) -- split views persist for a while, and what
\*    was held back is delivered late.
Blocked(c) ==
  LET src == c.m.src  dst == c.node IN
  CASE mute.mode = "deaf" -> dst = mute.victim /\ src \in Honest
    [] mute.mode = "unheard" -> src = mute.victim
    [] mute.mode = "favoured" -> (src = mute.victim /\ dst # mute.victim) \/ (src \in Byz /\ dst # mute.victim)
    [] mute.mode = "hoard" -> /\ src \in Byz /\ dst = mute.victim /\ c.m.kind = "prevote"     \* b1 keeps its prevotes from the victim until the
                              /\ ~(ns[dst].lv # Nil /\ c.m.round < ns[dst].r)                  \* victim is locked, then hands over the stale ones
    [] OTHER -> FALSE
Open(C) == {c \in C : ~Blocked(c)}
TopRound == CHOOSE r \in Rounds : (\E q \in Honest : ns[q].r = r) /\ \A q \in Honest : ns[q].r <= r
\* b1's votes that complete a +2/3 at p: the value has one vote less than a quorum there and b1 has not voted in that round
VotesOf(s, k) == IF k = "prevote" THEN s.pv ELSE s.pc
ByzCompleting(p) ==
  LET s == ns[p] IN
  IF s.dec # Nil THEN {}
  ELSE UNION {UNION {{[act |-> "vote", node |-> p, m |-> Msg(k, TheByz, r, v, NoRound)] :
                        v \in {w \in {m.value : m \in {x \in VotesOf(s, k) : x.round = r}} :
                                 3 * Cnt(VotesOf(s, k), r, w) <= 2 * N /\ 3 * (Cnt(VotesOf(s, k), r, w) + 1) > 2 * N}} :
                      r \in FreeByzRounds(s, k)} : k \in ByzVoteKinds}
\* for a locked node, prefer what is hostile to its lock: prevotes for something else in rounds after the lock round
Hostile(p, C) ==
  LET H == {c \in C : c.m.kind = "prevote" /\ c.m.value # ns[p].lv /\ c.m.round > ns[p].lr} IN
  IF ns[p].lv # Nil /\ H # {} THEN H ELSE C
ClassOf(p, k) ==
  CASE k \in {1, 2} -> Hostile(p, Open(HonestVoteCands(p)))
    [] k = 3 -> Open(HonestVoteCands(p))
    [] k = 4 -> Open(PropCands(p))
    [] k = 5 -> Open(PropCands(p)) \cup BlockCands(p)
    [] k = 6 -> Hostile(p, Open({c \in ByzCompleting(p) : c.m.round >= ns[p].r}))
    [] k = 7 -> LET stale == {c \in ByzCompleting(p) : c.m.round < ns[p].r /\ c.m.value # ns[p].lv /\ c.m.kind = "prevote"} IN
                IF ns[p].lv # Nil /\ Open(stale) # {} THEN Open(stale) ELSE Hostile(p, Open(ByzCompleting(p)))
    [] k = 8 -> Open({c \in ByzVoteCands(p) : c.m.round >= ns[p].r})
    [] k = 9 -> IF ns[p].s = Propose /\ Open(PropCands(p)) # {} THEN Open(PropCands(p)) ELSE TimeoutCands(p)
    [] OTHER -> TimeoutCands(p)
NodeCands(p) == Open(PropCands(p) \cup HonestVoteCands(p) \cup ByzVoteCands(p)) \cup BlockCands(p) \cup TimeoutCands(p)
Live == {q \in Honest : ns[q].dec = Nil}
NextSim ==
  \/ /\ ~done /\ Len(hist) < MaxLen /\ Live # {}
     /\ \E p \in {RandomElement(Live)} :
          \E k \in {RandomElement({i \in 1..10 : Len(hist) >= 0})} :
           \E cls \in {ClassOf(p, k)} :
            \E pool \in {IF cls # {} THEN cls ELSE IF NodeCands(p) # {} THEN NodeCands(p)
                          ELSE IF UNION {NodeCands(q) : q \in Live} # {} THEN UNION {NodeCands(q) : q \in Live} ELSE Cands} :
              IF pool = {} THEN Stop /\ UNCHANGED mute
              ELSE /\ \E st \in {RandomElement(pool)} : Apply(st) /\ done' = FALSE
                   /\ \E z \in {RandomElement({i \in 1..40 : Len(hist) >= 0})} :   \* a new partition when a new round opens, and now and then
                        mute' = IF z = 1 \/ (mute.mode # "hoard" /\ \E q \in Honest : ns'[q].r > TopRound)
                                THEN RandomElement({x \in Modes : Len(hist) >= 0}) ELSE mute
  \/ /\ ~done /\ (Len(hist) >= MaxLen \/ Live = {}) /\ Stop /\ UNCHANGED mute

\* ---------------------------------------------------------------- properties (refinement of Consensus.tla)
Agreement == \A p, q \in Honest : ns[p].dec # Nil /\ ns[q].dec # Nil => ns[p].dec = ns[q].dec
NoHonestEquivocation ==
  \A m1, m2 \in msgs : (m1.kind = m2.kind /\ m1.kind # "proposal" /\ m1.src = m2.src /\ m1.round = m2.round) => m1.value = m2.value
\* with b1 counted for everything: an honest precommit for a block is backed by +2/3 prevotes for it in that round
HonestCnt(k, r, v) == Cardinality({m \in msgs : m.kind = k /\ m.round = r /\ m.value = v})
PrecommitHasPolka == \A m \in msgs : (m.kind = "precommit" /\ m.value # Nil) => 3 * (HonestCnt("prevote", m.round, m.value) + Cardinality(Byz)) > 2 * N
DecisionHasCommit == \A p \in Honest : ns[p].dec # Nil => \E r \in Rounds : 3 * (HonestCnt("precommit", r, ns[p].dec) + Cardinality(Byz)) > 2 * N
BlockInHandMatchesParts == \A p \in Honest : ns[p].pb # Nil => ns[p].pbp = ns[p].pb

Emit == PrintT(<<"TRACE", ToJson(hist)>>)
EmitAtEnd == ~done \/ Emit
EmitEdge == PrintT(<<"EDGE", ToJson(hist')>>)
=============================================================================
