CONSTANTS
  Regs <- NoRegs
  CRegs <- C2
  Sizes <- SzCompactB
  SmallMax = 3
  Mode = "free"
  Laws = FALSE
  NewUntil = 1
  MaxLen = 2
INIT Init
NEXT Next
VIEW View
INVARIANTS TypeOK LawsHold
ACTION_CONSTRAINT EmitEdge
