CONSTANTS
  Pkgs <- MCPkgs
  KindOfC <- MCKindOf
  CtxsC <- MCCtxs
  PathsC <- MCPaths
  WritesC <- MCWrites
  Victim = "R"
  ConvertGuard = TRUE
  EphemeralIsRealm = TRUE
  MaxDepth = 5
  MaxFvals = 2
  Shapes = FALSE
INIT Init
NEXT Next
VIEW View
INVARIANTS StorageImpliesAuthority AttackerTextNeverAuthorised NoForeignWrite NothingPersistsFromAbort RealmCodeRunsAtHome ConstructOnlyAtHome NoLaunderedReceiver
