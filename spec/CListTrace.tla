---------------------------- MODULE CListTrace ----------------------------
(* C49 (V): linearisability of call/return histories recorded from the REAL tm2/pkg/clist against the
   sequential specification CListSeq.tla.  The trace file holds many runs, each introduced by a Reset
   line; a run is a sequence of  Call(id, op, v)  /  Ret(id, r)  events in real-time order and ends
   with a Final line carrying the list content read at quiescence.

   TCall consumes a Call line, TLin(k) applies the sequential operation of a pending call to `abs`
   (its linearisation point, an internal step; blocking operations only when the sequential spec lets
   them return), TRet consumes a Ret line if call k was linearised with exactly the logged reply.
   TLC explores every order of the TLin steps: the history is linearisable iff some path consumes
   the whole file.  Reduction (sound and complete): linearisation points are only taken when the next
   line is a Ret — a linearisation point may always be delayed past Call events, which do not touch
   `abs`, without changing the order of linearisation points.                                     *)
EXTENDS CListSeq, Json, TLC

TheTrace == ndJsonDeserialize("clist_trace.ndjson")

VARIABLES l,      \* next line of TheTrace
          abs,    \* CListSeq value
          pend    \* pending calls: id -> [op, v, st, r]

tvars == <<l, abs, pend>>
NoCalls == [k \in {} |-> 0]

Init == l = 1 /\ abs = SeqInit /\ pend = NoCalls /\ TLCSet(1, 0)

Line == TheTrace[l]
More == l <= Len(TheTrace)

TReset == /\ More /\ Line.act = "Reset"
          /\ abs' = SeqInit /\ pend' = NoCalls /\ l' = l + 1

TCall == /\ More /\ Line.act = "Call" /\ Line.id \notin DOMAIN pend
         /\ pend' = [k \in DOMAIN pend \cup {Line.id} |->
                       IF k = Line.id THEN [op |-> Line.op, v |-> Line.v, st |-> "called", r |-> 0] ELSE pend[k]]
         /\ l' = l + 1 /\ UNCHANGED abs

Known(a, e) == IsLive(a, e) \/ e \in a.rem
\* sequential semantics of one call: enabling condition, reply, new abstract list
CanLin(c) == CASE c.op = "PushBack" -> ~Known(abs, c.v)
               [] c.op = "Remove" -> IsLive(abs, c.v)
               [] c.op = "DetachPrev" -> c.v \in abs.rem
               [] c.op = "FrontWait" -> CanFrontWait(abs)
               [] c.op = "NextWait" -> Known(abs, c.v) /\ CanNextWait(abs, c.v)
               [] c.op \in {"Next", "NextChan"} -> Known(abs, c.v)
               [] OTHER -> TRUE
Reply(c) == CASE c.op \in {"PushBack", "Remove"} -> c.v
              [] c.op = "DetachPrev" -> 0
              [] c.op \in {"Front", "FrontWait", "WaitChanFront"} -> SeqFront(abs)
              [] c.op \in {"Next", "NextWait", "NextChan"} -> SeqNext(abs, c.v)
              [] c.op = "Len" -> SeqLen(abs)
Effect(c) == CASE c.op = "PushBack" -> SeqPushBack(abs, c.v)
               [] c.op = "Remove" -> SeqRemove(abs, c.v)
               [] OTHER -> abs

TLin(k) == /\ More /\ Line.act = "Ret"
           /\ pend[k].st = "called" /\ CanLin(pend[k])
           /\ abs' = Effect(pend[k])
           /\ pend' = [pend EXCEPT ![k].st = "done", ![k].r = Reply(pend[k])]
           /\ UNCHANGED l

TRet == /\ More /\ Line.act = "Ret" /\ Line.id \in DOMAIN pend
        /\ pend[Line.id].st = "done" /\ pend[Line.id].r = Line.r
        /\ pend' = [k \in DOMAIN pend \ {Line.id} |-> pend[k]]
        /\ l' = l + 1 /\ UNCHANGED abs

\* quiescence: nothing pending, the list read by the driver is the abstract list
TFinal == /\ More /\ Line.act = "Final"
          /\ pend = NoCalls /\ Line.live = abs.live
          /\ l' = l + 1 /\ UNCHANGED <<abs, pend>>

Next == TReset \/ TCall \/ (\E k \in DOMAIN pend : TLin(k)) \/ TRet \/ TFinal
Spec == Init /\ [][Next]_tvars

\* high-water mark of consumed lines (register 1), -workers 1
Mark == TLCSet(1, IF l - 1 > TLCGet(1) THEN l - 1 ELSE TLCGet(1))
Accepted == IF TLCGet(1) = Len(TheTrace) THEN TRUE
            ELSE PrintT(<<"HWM", ToString(TLCGet(1))>>) /\ FALSE
AbsOK == SeqOK(abs)
\* the guarantee the code gives on "removed elements are never returned as next elements"
LiveNextLive == \A i \in 1..Len(abs.live) : LET n == SeqNext(abs, abs.live[i]) IN n = 0 \/ IsLive(abs, n)
=============================================================================
