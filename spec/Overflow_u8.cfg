CONSTANTS
  W = 8
  Signed = FALSE
INIT Init
NEXT Next
INVARIANTS AddExact SubExact MulExact DivExact EmitRow
