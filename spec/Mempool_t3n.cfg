CONSTANTS
  Txs <- T3
  SizeOf <- Size3
  GasOf <- Gas3
  CfgSize = 2
  CfgMaxBytes = 4
  CacheSize = 3
  Recheck = FALSE
  InitMaxTx = 3
  MaxTxChoices <- MaxTx023
  BanChoices <- BanC
  MaxCommit = 1
  ReapBytes <- Reap135
  ReapGas <- Reap024
  MaxLen = 8
INIT Init
NEXT Next
VIEW View
INVARIANTS TypeOK NoDuplicates SizeWithinLimits CacheWellFormed
PROPERTIES StepProps
ACTION_CONSTRAINT EmitEdge
