CONSTANTS
  NK = 1500
  NV = 3
  MaxVer = 16
  MaxLen = 400
  NR = 2
  Impl = "bptree"
  SmallTree = FALSE
  Opts <- OptsC24
  Reads = TRUE
  BadArgs = FALSE
  SvAlways = FALSE
  Quiet = FALSE
  FillSizes <- FillHuge
  Scripts <- ScriptsFromFile
INIT Init
NEXT NextScriptStop
VIEW View
INVARIANTS TypeOK Contig WorkingRetained ReadersRetained CleanIsSaved NotRetainedIsBlank HkFunctional
PROPERTIES SavedImmutable PruneKeepsRetained OnlyNext SessionDrop
INVARIANT EmitScript
