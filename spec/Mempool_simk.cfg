CONSTANTS
  Txs <- T4
  SizeOf <- Size4
  GasOf <- Gas4
  CfgSize = 3
  CfgMaxBytes = 7
  CacheSize = 3
  Recheck = TRUE
  InitMaxTx = 3
  MaxTxChoices <- MaxTx023
  BanChoices <- BanC
  MaxCommit = 2
  ReapBytes <- Reap135
  ReapGas <- Reap024
  MaxLen = 12
INIT Init
NEXT SimNext
VIEW View
INVARIANTS TypeOK NoDuplicates SizeWithinLimits CacheWellFormed
INVARIANT EmitAtEnd
ACTION_CONSTRAINT AvoidKnown
