CONSTANTS
  Chans <- Ch123
  BadCh = 9
  MaxPay = 16
  Hdr = 1
  RecvCap <- CapK2
  QCap = 1000
  MsgLens <- Lens
  MaxMsgs = 0
  MaxInject = 1000000
  InjectKinds <- InjTrace
  Senders <- Both
  Stoppers <- Both
INIT TInit
NEXT TNext
CONSTRAINT Mark
INVARIANTS TypeOK PerChannelFIFOExactlyOnce NoPartialDelivery CompleteAtCleanClose
PROPERTIES TMalformedCloses
POSTCONDITION Accepted
