---------------------------- MODULE HeightVoteSet ----------------------------
(* C35, second layer: tm2/pkg/bft/consensus/types/height_vote_set.go. One vote set pair per
   tracked round; rounds 0..round always exist; a peer may open at most TWO further
   ("catch-up") rounds by sending a vote for a round that is not tracked yet; SetRound only
   moves forward; POLInfo = the latest round <= round whose prevotes have a +2/3 majority.
   The inner vote sets are reduced to "primary vote per validator" (VoteSet.tla has the rest). *)
EXTENDS Integers, Sequences, FiniteSets, TLC, Json

CONSTANTS NVals, MaxRound, Peers, Blocks, MaxLen
Vals == 1..NVals
Rounds == 0..MaxRound
Quorum == (NVals * 2) \div 3 + 1
Types == {"prevote", "precommit"}
None == "none"

VARIABLES round,       \* max tracked round (SetRound)
          tracked,     \* set of rounds that have vote sets
          catchup,     \* [Peers -> Seq(Rounds)] rounds opened by each peer (at most 2)
          pv, pc,      \* [Rounds -> [Vals -> Blocks \cup {None}]] primary votes
          hist
vars == <<round, tracked, catchup, pv, pc>>

Init == /\ round = 0 /\ tracked = {0}
        /\ catchup = [p \in Peers |-> <<>>]
        /\ pv = [r \in Rounds |-> [v \in Vals |-> None]]
        /\ pc = [r \in Rounds |-> [v \in Vals |-> None]]
        /\ hist = <<>>

Maj(f) == IF \E b \in Blocks : Cardinality({v \in Vals : f[v] = b}) >= Quorum
          THEN CHOOSE b \in Blocks : Cardinality({v \in Vals : f[v] = b}) >= Quorum ELSE None
POL == LET S == {r \in 0..round : Maj(pv[r]) # None} IN
       IF S = {} THEN [r |-> -1, b |-> None] ELSE LET m == CHOOSE x \in S : \A y \in S : y <= x IN [r |-> m, b |-> Maj(pv[m])]
Proj == [round |-> round, tracked |-> tracked, pol |-> POL,
         cu |-> [p \in Peers |-> catchup[p]]]

\* SetRound panics unless it moves forward (round 0 may be set again: the code's special case)
SetRound(r) ==
  /\ Len(hist) < MaxLen
  /\ IF round # 0 /\ r < round + 1
     THEN UNCHANGED vars /\ hist' = Append(hist, [act |-> "SetRound", r |-> r, reply |-> "panic", st |-> Proj])
     ELSE /\ round' = r
          /\ tracked' = tracked \cup ((round + 1)..r)
          /\ UNCHANGED <<catchup, pv, pc>>
          /\ hist' = Append(hist, [act |-> "SetRound", r |-> r, reply |-> "ok",
                                   st |-> [Proj EXCEPT !.round = r, !.tracked = tracked \cup ((round + 1)..r),
                                           !.pol = LET S == {x \in 0..r : Maj(pv[x]) # None} IN
                                                   IF S = {} THEN [r |-> -1, b |-> None]
                                                   ELSE LET m == CHOOSE x \in S : \A y \in S : y <= x IN [r |-> m, b |-> Maj(pv[m])]]])

AddVote(t, r, v, b, p) ==
  /\ Len(hist) < MaxLen
  /\ LET f == IF t = "prevote" THEN pv ELSE pc
         known == r \in tracked
         opens == ~known /\ Len(catchup[p]) < 2
         dupOrConflict == f[r][v] # None
         reply == IF ~known /\ ~opens THEN "unwanted"
                  ELSE IF f[r][v] = b THEN "dup"
                  ELSE IF dupOrConflict THEN "conflict" ELSE "added"
         tracked1 == IF opens THEN tracked \cup {r} ELSE tracked
         catchup1 == IF opens THEN [catchup EXCEPT ![p] = Append(@, r)] ELSE catchup
         f1 == IF reply = "added" THEN [f EXCEPT ![r][v] = b] ELSE f
     IN /\ tracked' = tracked1 /\ catchup' = catchup1
        /\ pv' = IF t = "prevote" THEN f1 ELSE pv
        /\ pc' = IF t = "precommit" THEN f1 ELSE pc
        /\ UNCHANGED round
        /\ hist' = Append(hist, [act |-> "AddVote", t |-> t, r |-> r, v |-> v, b |-> b, p |-> p, reply |-> reply,
                                 st |-> [round |-> round, tracked |-> tracked1,
                                         pol |-> LET pvv == IF t = "prevote" THEN f1 ELSE pv
                                                     S == {x \in 0..round : Maj(pvv[x]) # None} IN
                                                 IF S = {} THEN [r |-> -1, b |-> None]
                                                 ELSE LET m == CHOOSE x \in S : \A y \in S : y <= x IN [r |-> m, b |-> Maj(pvv[m])],
                                         cu |-> [q \in Peers |-> catchup1[q]]]])

Next == \/ \E r \in Rounds : SetRound(r)
        \/ \E t \in Types, r \in Rounds, v \in Vals, b \in Blocks, p \in Peers : AddVote(t, r, v, b, p)
Spec == Init /\ [][Next]_<<vars, hist>>
View == vars

\* ---- properties
TrackedPrefix == (0..round) \subseteq tracked
CatchupBounded == \A p \in Peers : Len(catchup[p]) <= 2
ExtraRoundsAreCatchup == \A r \in tracked : r > round => \E p \in Peers : \E i \in 1..Len(catchup[p]) : catchup[p][i] = r
VotesOnlyInTracked == \A r \in Rounds : r \notin tracked => (\A v \in Vals : pv[r][v] = None /\ pc[r][v] = None)
RoundMonotone == [][round' >= round]_vars
EmitEdge == PrintT(<<"EDGE", ToJson(hist')>>)
Emit == PrintT(<<"TRACE", ToJson(hist)>>)
EmitAtEnd == Len(hist) < MaxLen \/ Emit
=============================================================================
