CONSTANTS
  Honest <- H3
  Byz <- B1
  MaxRound = 1
  Values <- VAB
  Power <- PBad
  ProposerOf <- PropByzFirst
INIT Init
NEXT Next
INVARIANTS Agreement
