---------------------------- MODULE Mempool ----------------------------
(* C40. Mirrors tm2/pkg/bft/mempool/clist_mempool.go (CListMempool driven through the
   synchronous local ABCI client): one action per public call, branch structure of the code.

     CheckTx   = CheckTxWithInfo: full? -> too large? -> preCheck -> cache.Push -> app.CheckTx
                 -> resCbFirstTime (addTx | cache.Remove)
     Update    = Update + recheckTxs + resCbRecheck (limits may change; committed txs leave the
                 pool; the rest is filtered by size / preCheck and re-checked by the app)
     ReapMaxBytesMaxGas, ReapMaxTxs, Flush

   The application is scripted: its verdict for a first CheckTx is the argument `ok`, its
   verdicts during a recheck are the argument `inv` (set of txs it now rejects); gasWanted of
   a tx is GasOf[tx].  The cache is the LRU of mapTxCache (front of the sequence = oldest).

   The spec states what the PROPERTY requires, not what the code happens to do (DESIGN 4.5):
   * ReapMaxTxs(n), n >= 0, returns min(n, len) transactions        (code: F2, returns n+1);
   * Update always completes and leaves exactly the txs that pass the new size / preCheck
     filter and the app's recheck                                   (code: F6, panics / stays
     in `rechecking` when the filter evicts a tx);
   * a tx that is still pooled is never appended again, even when the LRU cache has
     forgotten it ("never holds the same transaction twice")        (code: appends it again).
   Named deviation from a naive reading: a tx evicted by the size / preCheck filter during
   Update stays in the cache (code: removeTx(..., false)); a tx rejected by the app on
   recheck, or committed with an error, leaves the cache; modelled as is.               *)
EXTENDS Integers, Sequences, FiniteSets, TLC, Json, Randomization

CONSTANTS Txs,          \* set of tx ids (strings)
          SizeOf,       \* [Txs -> Nat] bytes of each tx
          GasOf,        \* [Txs -> Nat] gasWanted the app reports
          CfgSize,      \* config.Size               (max number of pooled txs)
          CfgMaxBytes,  \* config.MaxPendingTxsBytes (max total bytes pooled)
          CacheSize,    \* config.CacheSize (> 0)
          Recheck,      \* config.Recheck
          InitMaxTx,    \* maxTxBytes given to NewCListMempool
          MaxTxChoices, \* maxTxBytes arguments of Update (0 = keep)
          BanChoices,   \* preCheck arguments of Update: sets of rejected txs; KeepBan = nil
          MaxCommit,    \* max number of committed txs per Update
          ReapBytes, ReapGas,  \* arguments of ReapMaxBytesMaxGas (-1 = no limit; bytes # 0)
          MaxLen

KeepBan == {"_keep"}

VARIABLES pool,    \* sequence of tx ids, arrival order
          cache,   \* sequence of tx ids, LRU order (head = next to be evicted)
          maxTx,   \* current maxTxBytes
          ban,     \* current preCheck = set of txs it rejects
          hist

vars == <<pool, cache, maxTx, ban>>
View == vars

\* ------------------------------------------------------------------ helpers
InSeq(t, s) == \E i \in 1..Len(s) : s[i] = t
Without(s, t) == SelectSeq(s, LAMBDA x : x # t)
SetOf(s) == {s[i] : i \in 1..Len(s)}
RECURSIVE Bytes(_)
Bytes(s) == IF s = <<>> THEN 0 ELSE SizeOf[Head(s)] + Bytes(Tail(s))
RECURSIVE Gas(_)
Gas(s) == IF s = <<>> THEN 0 ELSE GasOf[Head(s)] + Gas(Tail(s))
NoDup(s) == \A i, j \in 1..Len(s) : i # j => s[i] # s[j]
IsPrefix(p, s) == Len(p) <= Len(s) /\ \A i \in 1..Len(p) : p[i] = s[i]
\* p is a subsequence of s (order preserved)
RECURSIVE IsSubseq(_, _)
IsSubseq(p, s) == IF p = <<>> THEN TRUE
                  ELSE IF s = <<>> THEN FALSE
                  ELSE IF Head(p) = Head(s) THEN IsSubseq(Tail(p), Tail(s))
                  ELSE IsSubseq(p, Tail(s))

\* mapTxCache.Push: existing -> move to back; new -> evict the oldest when full, push back
CachePush(c, t) == IF InSeq(t, c) THEN Append(Without(c, t), t)
                   ELSE Append(IF Len(c) >= CacheSize THEN Tail(c) ELSE c, t)

St(p, c, m) == [pool |-> p, cache |-> c, maxtx |-> m, bytes |-> Bytes(p)]

Init == /\ pool = <<>> /\ cache = <<>> /\ maxTx = InitMaxTx /\ ban = {} /\ hist = <<>>

\* ------------------------------------------------------------------ CheckTx
Full(t) == Len(pool) >= CfgSize \/ SizeOf[t] + Bytes(pool) > CfgMaxBytes
\* the app's verdict matters only on this path
AppAsked(t) == ~Full(t) /\ SizeOf[t] <= maxTx /\ t \notin ban /\ ~InSeq(t, cache)

CheckTx(t, ok) ==
  /\ Len(hist) < MaxLen
  /\ AppAsked(t) \/ ok                         \* one edge where the verdict is not consulted
  /\ (InSeq(t, pool) /\ ~InSeq(t, cache)) => ok \* forgotten-but-pooled: app still says valid
  /\ UNCHANGED <<maxTx, ban>>
  /\ LET rec(reply, p, c) == [act |-> "CheckTx", tx |-> t, ok |-> ok, reply |-> reply, st |-> St(p, c, maxTx)] IN
     IF Full(t) THEN UNCHANGED <<pool, cache>> /\ hist' = Append(hist, rec("full", pool, cache))
     ELSE IF SizeOf[t] > maxTx THEN UNCHANGED <<pool, cache>> /\ hist' = Append(hist, rec("toolarge", pool, cache))
     ELSE IF t \in ban THEN UNCHANGED <<pool, cache>> /\ hist' = Append(hist, rec("precheck", pool, cache))
     ELSE IF InSeq(t, cache)
          THEN /\ cache' = CachePush(cache, t) /\ UNCHANGED pool
               /\ hist' = Append(hist, rec("incache", pool, cache'))
     ELSE IF InSeq(t, pool)
          THEN \* the cache forgot a tx that is still pooled: the property forbids a second copy
               /\ cache' = CachePush(cache, t) /\ UNCHANGED pool
               /\ hist' = Append(hist, rec("pooled", pool, cache'))
     ELSE IF ok
          THEN /\ cache' = CachePush(cache, t) /\ pool' = Append(pool, t)
               /\ hist' = Append(hist, rec("ok", pool', cache'))
          ELSE /\ cache' = Without(CachePush(cache, t), t) /\ UNCHANGED pool
               /\ hist' = Append(hist, rec("rejected", pool, cache'))

\* ------------------------------------------------------------------ Update
\* committed: sequence of [tx, ok]; loop of Update over the block's txs
RECURSIVE CacheAfterCommit(_, _)
CacheAfterCommit(c, C) ==
  IF C = <<>> THEN c
  ELSE CacheAfterCommit(IF Head(C).ok THEN CachePush(c, Head(C).tx) ELSE Without(c, Head(C).tx), Tail(C))
CommittedSet(C) == {C[i].tx : i \in 1..Len(C)}
Filtered(t, m, b) == SizeOf[t] > m \/ t \in b          \* recheckTxs: size, preCheck
\* all sequences of distinct committed txs with results, length <= MaxCommit
CommitSeqs == UNION {{C \in [1..n -> [tx : Txs, ok : BOOLEAN]] : \A i, j \in 1..n : i # j => C[i].tx # C[j].tx} : n \in 0..MaxCommit}

Update(C, newMax, newBan) ==
  /\ Len(hist) < MaxLen
  /\ LET m1 == IF newMax # 0 THEN newMax ELSE maxTx
         b1 == IF newBan # KeepBan THEN newBan ELSE ban
         c1 == CacheAfterCommit(cache, C)
         p1 == SelectSeq(pool, LAMBDA x : x \notin CommittedSet(C))
         doRecheck == Recheck /\ p1 # <<>>
         \* txs that reach the app during the recheck
         asked == IF doRecheck THEN {t \in SetOf(p1) : ~Filtered(t, m1, b1)} ELSE {}
     IN \E inv \in SUBSET asked :        \* the app's recheck verdicts
        LET p2 == IF doRecheck THEN SelectSeq(p1, LAMBDA x : ~Filtered(x, m1, b1) /\ x \notin inv) ELSE p1
            c2 == SelectSeq(c1, LAMBDA x : x \notin inv)   \* rejected on recheck: removed from the cache
        IN /\ pool' = p2 /\ cache' = c2 /\ maxTx' = m1 /\ ban' = b1
           /\ hist' = Append(hist, [act |-> "Update", committed |-> C, newmax |-> newMax, newban |-> newBan,
                                    inv |-> inv, reply |-> "ok",
                                    \* guidance only (names the failing class of F6): does the filter evict, and whom
                                    evicts |-> IF ~doRecheck \/ ~\E t \in SetOf(p1) : Filtered(t, m1, b1) THEN "none"
                                               ELSE IF Filtered(Head(p1), m1, b1) THEN "front" ELSE "other",
                                    st |-> St(p2, c2, m1)])

\* ------------------------------------------------------------------ reaps, flush
\* the loop of ReapMaxBytesMaxGas
RECURSIVE ReapLoop(_, _, _, _, _)
ReapLoop(rest, acc, tb, tg, lim) ==
  IF rest = <<>> THEN acc
  ELSE LET t == Head(rest) IN
       IF lim.b > -1 /\ tb + SizeOf[t] > lim.b THEN acc
       ELSE IF lim.g > -1 /\ tg + GasOf[t] > lim.g THEN acc
       ELSE ReapLoop(Tail(rest), Append(acc, t), tb + SizeOf[t], tg + GasOf[t], lim)

ReapMaxBytesMaxGas(b, g) ==
  /\ Len(hist) < MaxLen
  /\ UNCHANGED vars
  /\ hist' = Append(hist, [act |-> "ReapMaxBytesMaxGas", b |-> b, g |-> g,
                           reply |-> ReapLoop(pool, <<>>, 0, 0, [b |-> b, g |-> g]), st |-> St(pool, cache, maxTx)])

ReapMaxTxs(n) ==
  /\ Len(hist) < MaxLen
  /\ UNCHANGED vars
  /\ LET k == IF n < 0 \/ n > Len(pool) THEN Len(pool) ELSE n IN
     hist' = Append(hist, [act |-> "ReapMaxTxs", n |-> n, reply |-> SubSeq(pool, 1, k), st |-> St(pool, cache, maxTx)])

Flush ==
  /\ Len(hist) < MaxLen
  /\ pool' = <<>> /\ cache' = <<>> /\ UNCHANGED <<maxTx, ban>>
  /\ hist' = Append(hist, [act |-> "Flush", reply |-> "ok", st |-> St(<<>>, <<>>, maxTx)])

Next == \/ \E t \in Txs, ok \in BOOLEAN : CheckTx(t, ok)
        \/ \E C \in CommitSeqs, m \in MaxTxChoices, b \in BanChoices : Update(C, m, b)
        \/ \E b \in ReapBytes, g \in ReapGas : ReapMaxBytesMaxGas(b, g)
        \/ \E n \in -1..(Len(pool) + 1) : ReapMaxTxs(n)
        \/ Flush

Spec == Init /\ [][Next]_<<vars, hist>>

\* next-state relation of the simulation configurations only: the same actions. TLC's simulator draws
\* uniformly among the sub-actions it obtains by splitting disjuncts and constant-bounded quantifiers
\* (> 90 % would be Update, the action with the most argument combinations). Dyn makes a bound
\* state-level, so that the disjunct is ONE sub-action: 12 x CheckTx, 2 x Update, 1 per reap, 1 Flush.
\* TLC evaluates invariants (hence EmitAtEnd) on every successor it generates, not only on the one
\* it follows, so the last call of a simulated behaviour is fixed: ReapMaxTxs(-1), one successor.
Dyn(S) == IF pool = pool THEN S ELSE {}
More == Len(hist) < MaxLen - 1
\* two random blocks x two random limits x two random preChecks x all recheck verdicts
SimUpdate == More /\ \E C \in Dyn(RandomSubset(2, CommitSeqs)), m \in Dyn(RandomSubset(2, MaxTxChoices)), b \in Dyn(RandomSubset(2, BanChoices)) : Update(C, m, b)
SimNext == \/ \E t \in Txs, ok \in BOOLEAN : More /\ CheckTx(t, ok)
           \/ \E t \in Txs : More /\ CheckTx(t, TRUE)
           \/ SimUpdate \/ SimUpdate
           \/ More /\ \E b \in Dyn(ReapBytes), g \in Dyn(ReapGas) : ReapMaxBytesMaxGas(b, g)
           \/ More /\ \E n \in -1..(Len(pool) + 1) : ReapMaxTxs(n)
           \/ More /\ Len(pool) >= 2 /\ Flush
           \/ ~More /\ ReapMaxTxs(-1)

\* ------------------------------------------------------------------ properties (C40)
TypeOK == /\ SetOf(pool) \subseteq Txs /\ SetOf(cache) \subseteq Txs
          /\ maxTx \in Nat /\ ban \subseteq Txs
\* never holds the same transaction twice
NoDuplicates == NoDup(pool)
\* never exceeds its size limits
SizeWithinLimits == Len(pool) <= CfgSize /\ Bytes(pool) <= CfgMaxBytes
CacheWellFormed == NoDup(cache) /\ Len(cache) <= CacheSize

Last == hist'[Len(hist')]
\* keeps transactions in arrival order: a step only deletes pooled txs and appends at most one new tx at the back
ArrivalOrderStep ==
  \/ IsSubseq(pool', pool)
  \/ /\ pool' # <<>> /\ ~InSeq(pool'[Len(pool')], pool)
     /\ IsSubseq(SubSeq(pool', 1, Len(pool') - 1), pool)
\* removes every committed transaction on update (and, with recheck, everything the new limits / the app reject)
CommittedRemovedStep ==
  Last.act = "Update" =>
     /\ \A t \in CommittedSet(Last.committed) : ~InSeq(t, pool')
     /\ Recheck => \A t \in SetOf(pool') : SizeOf[t] <= maxTx' /\ t \notin ban' /\ t \notin Last.inv
     /\ \A t \in SetOf(pool) : (t \notin CommittedSet(Last.committed) /\ ~Filtered(t, maxTx', ban') /\ t \notin Last.inv) => InSeq(t, pool')
\* reaps a prefix of its contents that respects the byte and gas limits — the longest one
ReapPrefixWithinLimitsStep ==
  Last.act = "ReapMaxBytesMaxGas" =>
     LET r == Last.reply IN
     /\ IsPrefix(r, pool)
     /\ Last.b > -1 => Bytes(r) <= Last.b
     /\ Last.g > -1 => Gas(r) <= Last.g
     /\ Len(r) < Len(pool) => LET r1 == SubSeq(pool, 1, Len(r) + 1) IN
                              (Last.b > -1 /\ Bytes(r1) > Last.b) \/ (Last.g > -1 /\ Gas(r1) > Last.g)
\* never more transactions than requested
ReapCountLeMaxStep ==
  Last.act = "ReapMaxTxs" =>
     /\ IsPrefix(Last.reply, pool)
     /\ Last.n >= 0 => Len(Last.reply) <= Last.n
     /\ Len(Last.reply) = (IF Last.n < 0 \/ Last.n > Len(pool) THEN Len(pool) ELSE Last.n)
\* admission respects the limits in force
AdmissionStep ==
  (Last.act = "CheckTx" /\ pool' # pool) =>
     /\ pool' = Append(pool, Last.tx) /\ ~InSeq(Last.tx, pool)
     /\ SizeOf[Last.tx] <= maxTx /\ Last.tx \notin ban /\ Last.ok
StepOK == ArrivalOrderStep /\ CommittedRemovedStep /\ ReapPrefixWithinLimitsStep /\ ReapCountLeMaxStep /\ AdmissionStep
StepProps == [][StepOK]_<<vars, hist>>

\* generation filter (never a property): keeps simulated behaviours away from the three defect
\* classes named in the header, so that long behaviours stay replayable on a tree that has them
AvoidKnown == /\ ~(Last.act = "Update" /\ Last.evicts # "none")
              /\ ~(Last.act = "CheckTx" /\ Last.reply = "pooled")

Emit == PrintT(<<"TRACE", ToJson(hist)>>)
EmitAtEnd == Len(hist) < MaxLen \/ Emit
EmitEdge == PrintT(<<"EDGE", ToJson(hist')>>)
=============================================================================
