CONSTANTS
  N = 5
  DataKeys = {1,2,3,5}
  Vals = {"", "x"}
  Batches = {"b1"}
  Snaps = {"s1"}
  MaxOps = 2
  MaxLen = 4
  Collecting = TRUE
  Syncs = {FALSE}
  InitDBs <- Init3
  Quiet = FALSE
INIT Init
NEXT Next
VIEW View
INVARIANTS TypeOK RefMatches PlainNoPending LastScanOK
PROPERTIES SnapshotFrozen DrainPreservesReads DiscardNoEffect
ACTION_CONSTRAINT EmitEdge
