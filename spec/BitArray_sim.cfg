CONSTANTS
  Regs <- R3
  CRegs <- C2
  Sizes <- SzSim
  SmallMax = 3
  Mode = "free"
  Laws = FALSE
  NewUntil = 4
  MaxLen = 12
INIT Init
NEXT NextSim
VIEW View
INVARIANTS TypeOK LawsHold
INVARIANT EmitAtEnd
