CONSTANTS
  Part = "simple"
  NI = 2
  MaxRep = 4
  MaxN = 7
  NKeys = 1
INIT Init
NEXT Next
INVARIANTS Complete Sound SingleFieldRejected GapOnly EmitCase
