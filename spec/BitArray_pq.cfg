CONSTANTS
  Regs <- R3
  CRegs <- NoRegs
  Sizes <- SzPairsQ
  SmallMax = 3
  Mode = "pairs"
  Laws = FALSE
  NewUntil = 3
  MaxLen = 3
INIT Init
NEXT Next
VIEW View
INVARIANTS TypeOK LawsHold
ACTION_CONSTRAINT EmitEdge
