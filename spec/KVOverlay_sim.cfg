CONSTANTS
  Keys <- KeysM
  DataKeys <- DataM
  Vals = {"a", "b", ""}
  Prefixes <- PfxM
  Stores = {"s1", "s2"}
  MaxLayers = 4
  MaxLen = 40
  InitBases <- Bases3
  ReadAll = TRUE
  LogViews = TRUE
  Quiet = FALSE
INIT Init
NEXT NextSim
VIEW View
INVARIANTS TypeOK OverlayEqualsFlat CheckpointIsSaved LastScanOK
PROPERTIES FlushIsLocal PopDiscards
INVARIANT EmitAtEnd
