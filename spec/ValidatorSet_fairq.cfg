CONSTANTS
  P = 4
  InitSets <- Vec4p3
  ChangeLists <- NoChanges
  Times <- T1
  MaxTotal = 1000
  MaxLen = 200
  FairOnly = TRUE
INIT Init
NEXT Next
VIEW View
INVARIANTS TypeOK Fairness PriorityWindow SortedUnique PowersPositive TotalBounded ProposerIsMember
PROPERTIES NeverEmptied RejectedUpdateIsNoOp
INVARIANT EmitFair
