CONSTANTS
  NA = 2
  Cap = 3
  Amts <- AmtsS
  Vias <- ViasLedger
  MaxLen = 4
  AsCode = TRUE
  Quiet = TRUE
INIT Init
NEXT Next
VIEW View
INVARIANTS TypeOK SupplyEq
PROPERTIES FailedIsNoOp TransferNeutral AllowanceHonoured MintBurnExact

