INIT TraceInit
NEXT TraceNext
CONSTRAINT HighWater
INVARIANTS GuardsHold Agreement
POSTCONDITION Accepted
CHECK_DEADLOCK FALSE
