---------------------------- MODULE MCPackages ----------------------------
EXTENDS Packages
\* every class is one concrete path string in the driver (harness/cmd/packages)
BadAll == {"upper", "slash", "dotdot", "otherdom", "nodom", "long", "test", "filetest", "run", "letterx",
           "hash", "vv", "dblslash", "hyphen", "underscore2", "digitstart", "empty", "stdlib", "space", "dot"}
BadFew == {"upper", "otherdom", "test", "run"}
FsAll == {"F1", "F2", "F5", "FL", "FU", "FT", "FN", "FC", "FR", "FD", "FM", "FI"}
FsCore == {"F1", "F2", "FL", "FU", "FT", "FC"}
KindsAll == {"own", "assign", "method", "slice", "map", "ptr", "closure"}
KindsFew == {"own", "method"}
=============================================================================
