CONSTANTS
  P = 3
  InitSets <- InitT
  ChangeLists <- ChT
  Times <- T12
  MaxTotal = 1000
  MaxLen = 4
  FairOnly = FALSE
INIT Init
NEXT Next
VIEW View
INVARIANTS TypeOK Fairness PriorityWindow SortedUnique PowersPositive TotalBounded ProposerIsMember
PROPERTIES NeverEmptied RejectedUpdateIsNoOp
ACTION_CONSTRAINT EmitEdge
