---------------------------- MODULE MCConsensus ----------------------------
EXTENDS Consensus
H3 == {"h1", "h2", "h3"}
H4 == {"h1", "h2", "h3", "h4"}
B1 == {"b1"}
B0 == {}
VAB == {"A", "B"}
PEq == [n \in {"h1", "h2", "h3", "h4", "b1"} |-> 1]
\* unequal powers: total 10, byzantine 3 (< 1/3), quorum needs > 6.67
PUneq == [n \in {"h1", "h2", "h3", "h4", "b1"} |-> CASE n = "h1" -> 3 [] n = "h2" -> 2 [] n = "h3" -> 2 [] n = "h4" -> 1 [] n = "b1" -> 3]
\* too much byzantine power (>= 1/3): Agreement MUST fail (non-vacuity witness)
PBad == [n \in {"h1", "h2", "h3", "h4", "b1"} |-> IF n = "b1" THEN 4 ELSE 1]
PropByzFirst == [r \in 0..3 |-> CASE r = 0 -> "b1" [] r = 1 -> "h1" [] r = 2 -> "h2" [] r = 3 -> "h3"]
PropHonest == [r \in 0..3 |-> CASE r = 0 -> "h1" [] r = 1 -> "h2" [] r = 2 -> "h3" [] r = 3 -> "h4"]
=============================================================================
