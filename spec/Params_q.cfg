CONSTANTS
  Keys <- KeysCore
  MaxLen = 4
  Full = FALSE
  Quiet = TRUE
INIT Init
NEXT Next
VIEW View
INVARIANTS TypeOK StoredValuesValid StoredKeysWellFormed
PROPERTIES WritesStayInOwnNamespace ModuleParamsOnlyViaSysRealm RejectedIsNoOp

