SPECIFICATION Spec
CONSTANTS
  Addrs <- A3
  Amts <- Amt013
  Cap = 7
  MaxLen = 3
  MaxTime = 2
  RawOps = TRUE
  IOIns <- InsTS
  IOOuts <- OutsTS
  Genesis <- Gen2
VIEW View
INVARIANTS SupplyEq BalanceWellFormed SupplyWellFormed HolderHasAccount NumsUnique
PROPERTIES OnlyMintBurnChangeSupply TransferNeutral MintBurnExact FailedChangesNothing AccountsStable
ACTION_CONSTRAINT EmitEdge
