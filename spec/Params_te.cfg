CONSTANTS
  Keys <- KeysAll
  MaxLen = 3
  Full = FALSE
  Quiet = FALSE
INIT Init
NEXT Next
VIEW View
INVARIANTS TypeOK StoredValuesValid StoredKeysWellFormed
PROPERTIES WritesStayInOwnNamespace ModuleParamsOnlyViaSysRealm RejectedIsNoOp
ACTION_CONSTRAINT EmitEdge
