CONSTANTS
  Honest <- H3
  Byz <- B1
  MaxRound = 2
  Values <- VAB
  Power <- PEq
  ProposerOf <- PropByzFirst
INIT Init
NEXT Next
INVARIANTS Agreement NoHonestEquivocation PrecommitHasPolka DecisionHasCommit
