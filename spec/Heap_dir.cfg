CONSTANTS
  MaxLen = 14
  MaxArr = 9
  MaxCap = 3
  Full = TRUE
  Directed = TRUE
  Quiet = FALSE
INIT Init
NEXT Next
VIEW view
INVARIANTS WellFormed EmitAtEnd
CHECK_DEADLOCK FALSE
