CONSTANTS
  Keys <- KeysS
  DataKeys <- KeysS
  Vals = {"a", ""}
  Prefixes <- PfxS
  Stores = {"s1"}
  MaxLayers = 3
  MaxLen = 5
  InitBases <- BasesFA
  ReadAll = FALSE
  LogViews = FALSE
  Quiet = FALSE
INIT Init
NEXT Next
VIEW View
INVARIANTS TypeOK OverlayEqualsFlat CheckpointIsSaved LastScanOK
PROPERTIES FlushIsLocal PopDiscards
ACTION_CONSTRAINT EmitEdge
