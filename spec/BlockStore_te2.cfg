CONSTANTS
  K = 100000
  H0 = 199998
  MaxLen = 7
  NV = 1
  FirstHs <- F1
  MaxFirst = 1
INIT Init
NEXT Next
VIEW View
INVARIANTS TypeOK LoadEqualsSaved Contiguous HeightIsLastSaved ValsAtHeightCorrect ParamsAtHeightCorrect KnownRange
PROPERTIES HeightMonotone
ACTION_CONSTRAINT EmitEdge
