CONSTANTS
  Power <- P1111
  Blocks <- BlocksAB
  Peers <- Peers2
  MaxLen = 7
  Classes <- ClsCore
INIT Init
NEXT Next
VIEW View
INVARIANTS TypeOK Maj23Exact Maj23Reported SumExact CommitCarriesMajority PrimaryTracked ConflictNeedsPeerClaim
PROPERTIES FirstStable

