---------------------------- MODULE CommitTrace ----------------------------
(* (V) for C27: validates crash-enumeration runs recorded from the REAL store stack
   (harness/cmd/crashcommit) against Commit.tla. One NDJSON line per observation:
     Init    {scenario,k,mode}                 fresh DB, new process
     Write   {k,kind,ops,disk:{main,base,meta}} a PHYSICAL write call completed; disk = per region the
                                               committed height whose reference content the region now equals (-1: none)
     Crash   {gcid,disk}                       process state discarded; gcid = last height published before
     Reopen  {ok,cid,hash_ok,content_ok}       a fresh application object loaded the DB
     End     {cid,hashes_ok}                   the chain continued to the last height with the reference hashes
     Reset   {}                                next scenario follows
   The in-memory steps of the pipeline (CExec, CMultiWrite, CCommitStores, CMeta, CSwapPublish,
   CSetHeader) are silent; a Write line must be the spec's single CWriteSync of the block, a Crash line
   the spec's Crash with the same durable state, a Reopen line the spec's Reopen with the same verdict.
   Recoverable and RecoveredVersion are evaluated in every recorded state.                             *)
EXTENDS Commit

TheTrace == ndJsonDeserialize("commit_trace.ndjson")
VARIABLE l
tvars == <<vars, hist, l>>

Ln == TheTrace[l]
IsEv(a) == l <= Len(TheTrace) /\ Ln.act = a
MaxOf(S) == IF S = {} THEN 0 ELSE CHOOSE x \in S : \A y \in S : y <= x
DiskIs(d, e) == e.meta = d.meta /\ e.base = d.base /\ e.main = MaxOf(d.main)

TraceInit == /\ l = 2 /\ TheTrace[1].act = "Init" /\ Init /\ TLCSet(1, 0)

TSilent == /\ l <= Len(TheTrace) /\ Ln.act \in {"Write", "Crash", "End"}
           /\ (CExec \/ CMultiWrite \/ CCommitStores \/ CMeta \/ CSwapPublish \/ CSetHeader)
           /\ UNCHANGED l
TWrite == IsEv("Write") /\ CWriteSync /\ DiskIs(disk', Ln.disk) /\ l' = l + 1
\* a physical write call that leaves every region as it was (e.g. an empty batch) is not a step of the pipeline
TNoopWrite == IsEv("Write") /\ DiskIs(disk, Ln.disk) /\ UNCHANGED <<vars, hist>> /\ l' = l + 1
TCrash == IsEv("Crash") /\ Crash /\ DiskIs(disk, Ln.disk) /\ Ln.gcid = cid /\ l' = l + 1
TReopen == /\ IsEv("Reopen") /\ Reopen
           /\ Ln.ok = (cpc' = "idle")
           /\ Ln.ok => (Ln.cid = cid' /\ Ln.hash_ok /\ Ln.content_ok)
           /\ l' = l + 1
TEnd == IsEv("End") /\ cpc = "idle" /\ Ln.cid = cid /\ Ln.hashes_ok /\ UNCHANGED <<vars, hist>> /\ l' = l + 1
TReset == /\ IsEv("Reset") /\ l + 1 <= Len(TheTrace) /\ TheTrace[l + 1].act = "Init"
          /\ cpc' = "idle" /\ cid' = 0 /\ hdr' = 0 /\ coll' = NoColl /\ disk' = Disk0
          /\ snap' = 0 /\ nsnap' = 0 /\ snapst' = [i \in SnapIds |-> Disk0] /\ refs' = [i \in SnapIds |-> 0] /\ closed' = {}
          /\ qpc' = "idle" /\ qkind' = "none" /\ qord' = <<>> /\ qh' = 0 /\ qview' = 0 /\ qreads' = <<>> /\ qres' = "none" /\ qdone' = 0
          /\ gcid' = 0 /\ mpend' = 0 /\ hist' = <<>>
          /\ l' = l + 2

TraceNext == TSilent \/ TWrite \/ TNoopWrite \/ TCrash \/ TReopen \/ TEnd \/ TReset
TraceView == <<vars, l>>

HighWater == TLCSet(1, IF l > TLCGet(1) THEN l ELSE TLCGet(1))   \* CONSTRAINT: always TRUE, records progress
Accepted == IF TLCGet(1) = Len(TheTrace) + 1 THEN TRUE
            ELSE PrintT(<<"REJECTED-AT", TLCGet(1)>>) /\ FALSE
=============================================================================
