CONSTANTS
  Heights <- H12
  Rounds <- R0
  Data <- DataABC
  TS <- TS12
  MaxLen = 3
  MaxCrash = 3
INIT Init
NEXT Next
VIEW View
INVARIANTS TypeOK NoDoubleSign ReleasedPersisted MemIsDiskWhenIdle
PROPERTIES Monotone DiskMonotone
ACTION_CONSTRAINT EmitEdge
