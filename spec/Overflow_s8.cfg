CONSTANTS
  W = 8
  Signed = TRUE
INIT Init
NEXT Next
INVARIANTS AddExact SubExact MulExact DivExact EmitRow
