CONSTANTS
  Keys <- K2
  Vals <- V2
  MaxVer = 3
  Direct = TRUE
  Keep <- KeepAll
  NLoads = 1
  Abandon = FALSE
  Toggle = FALSE
  RemoveDeletesEntry = TRUE
  VersionGuard = TRUE
  StampGate = TRUE
  ReaderMaintains = FALSE
  StampAheadRebuilds = FALSE
  MaxLen = 7
INIT Init
NEXT Next
VIEW StateView
INVARIANTS TypeOK LiveSound ImmSound QuerySound ReaderSound StampNeverAhead
PROPERTIES LoaderLeavesDisk
ACTION_CONSTRAINT EmitEdge
