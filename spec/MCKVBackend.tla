---------------------------- MODULE MCKVBackend ----------------------------
EXTENDS KVBackend
EmptyDB == [k \in 1..N |-> "NIL"]
FullDB == [k \in 1..N |-> IF k \in DataKeys THEN "x" ELSE "NIL"]
AltDB == [k \in 1..N |-> IF k \in DataKeys /\ k % 2 = 1 THEN (IF k = 1 THEN "x" ELSE "") ELSE "NIL"]
Init1 == {EmptyDB}
InitA == {AltDB}
InitEA == {EmptyDB, AltDB}
Init2 == {EmptyDB, FullDB}
Init3 == {EmptyDB, FullDB, AltDB}
=============================================================================
