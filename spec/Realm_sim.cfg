CONSTANTS
  Nodes = {1, 2, 3, 4}
  RootObjs <- R12
  RootPkg <- Pkg12
  RootSlots <- Slots12
  Realms = {1, 2}
  MaxOps = 5
  MaxOps1 = 5
  MaxTx = 4
  OwnerFix = TRUE
  AttachGuard = TRUE
  SaveGuard = TRUE
  ObjSeq <- Seq4b
  HandMode = FALSE
  Bias = TRUE
  Quiet = FALSE
INIT Init
NEXT Next
VIEW view
INVARIANTS EmitAtEnd RefinesDecl RefCountExact OwnerIffSingle NoDangling IdCounter ReachableUnlessCyclic
CHECK_DEADLOCK FALSE
