INIT Init
NEXT Next
INVARIANTS SameHeight SameAppHash SameTxCount SameResults SameGas SameState
CHECK_DEADLOCK FALSE
