CONSTANTS
  NA = 2
  Cap = 3
  Amts <- AmtsM
  Vias <- ViasLedger
  MaxLen = 8
  AsCode = FALSE
  Quiet = TRUE
INIT Init
NEXT Next
VIEW View
INVARIANTS TypeOK SupplyEq
PROPERTIES FailedIsNoOp TransferNeutral AllowanceHonoured MintBurnExact

