---------------------------- MODULE MCAnteSigners ----------------------------
EXTENDS AnteSigners
A3 == {"a", "b", "c"}
\* every message of one or two distinct signers, and two of three
Sh == {<<x>> : x \in A3} \cup {<<p[1], p[2]>> : p \in {q \in A3 \X A3 : q[1] # q[2]}} \cup {<<"a", "b", "c">>, <<"b", "a", "c">>}
\* every transaction of one or two messages, and 3-message ones around the "starts with the last collected signer" case
MS == {<<m>> : m \in Sh} \cup {<<p[1], p[2]>> : p \in Sh \X Sh}
      \cup { << <<"a">>, <<"a", "b">>, <<"b", "c">> >>, << <<"a">>, <<"b">>, <<"b", "a", "c">> >>, << <<"a", "b">>, <<"b">>, <<"b", "c">> >>,
             << <<"c">>, <<"c">>, <<"c", "a">> >>, << <<"a", "b">>, <<"a", "c">>, <<"c", "b">> >> }
=============================================================================
