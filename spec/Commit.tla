---------------------------- MODULE Commit ----------------------------
(* C27 / C28. The block commit pipeline of tm2 (sdk.BaseApp.Commit -> rootmulti.Commit) and the
   concurrent query path (BaseApp.Query / Simulate -> rootmulti.immutableAtVersion), written
   with the code's step structure:

     consensus connection                                   query connection (own mutex: one query at a time)
     CExec         BeginBlock..EndBlock (deliver cache only) QResolve  LastBlockHeight() / getLastBlockHeader()
     CMultiWrite   deliverState.ms.MultiWrite()              QAcquire  snapshotMu.RLock; Load; acquire
     CCommitStores commitStores (SaveVersion + prune)        QLoad     ims.LoadVersion(h) on the view
     CMeta         metaBatch.Write (commitInfo, s/latest)    QRead*    store reads of the handler
     CWriteSync    collector.Drain + realBatch.WriteSync()   QEnd      release()
                   <- the ONE physical write of a block
     CSwap         refreshQuerySnapshot (NewSnapshot, Swap, release old)
     CPublish      setLastCommitID
     CSetHeader    BaseApp.setCheckState -> lastBlockHeader.Store

   Abstraction: block n writes the tag n under every key it touches in both stores, so the
   content of a store IS the version tag it carries: disk.main = set of retained versions of the
   versioned (bptree) store, disk.base = tag of the unversioned (dbadapter) store, disk.meta =
   s/latest (= newest commitInfo). coll = ops waiting in the BatchCollector.

   Switches:
   * AtomicResolve = TRUE is the design the property REQUIRES: a query obtains its height and its
     view atomically w.r.t. the publication steps of Commit (CSwap..CSetHeader one step,
     QResolve+QAcquire one step). FALSE is the code's present step structure; it generates the
     schedules that are replayed on the real code, where the verdict is taken from the values
     the real query returns (all reads of one query carry one height, that height was durable
     when read, commit hashes equal the query-free run), never from the model.
   * Fine = the verifhook yield points exist (QResolve|QAcquire and CSwap|CPublish separately
     schedulable). Without them each pair is one step for the scheduler.
   * Coarse = CMultiWrite..CMeta one step (the real code has no gate between them; C28 replay).
   * StoreDirect / MetaDirect: model-level mutants for C27 (a sub-store mounted without the
     CollectingDB; s/latest written straight to the DB).
   Named deviation from a naive reading: with Snapshots = FALSE (goleveldb, boltdb, ...) queries
   read the live DB through ImmutableDB; the code documents those reads as unisolated, so
   QueryConsistent is claimed for Snapshots = TRUE only; QueryCommitted for both.           *)
EXTENDS Integers, Sequences, FiniteSets, TLC, Json

CONSTANTS MaxVer, NQ, NCheck, QKinds, Orders, Crashes, Snapshots, Fine, AtomicResolve, Coarse, Keep,
          StoreDirect, MetaDirect, MaxLen

VARIABLES cpc, cid, hdr, coll, disk,
          snap, nsnap, snapst, refs, closed,      \* query snapshot: current id, ids used, content per id, ref counts, closed ids
          qpc, qkind, qord, qh, qview, qreads, qres, qdone,
          gcid,                                   \* ghost: cid when the process last died
          mpend,                                  \* CheckTx ante writes pending in checkState (mempool connection)
          hist

svars == <<snap, nsnap, snapst, refs, closed>>
cvars == <<cpc, cid, hdr, coll, disk, svars, gcid, mpend>>
qvars == <<qpc, qkind, qord, qh, qview, qreads, qres, qdone>>
vars == <<cvars, qvars>>

NoColl == [main |-> 0, prune |-> {}, base |-> 0, meta |-> 0]
Disk0 == [main |-> {}, base |-> 0, meta |-> 0]
SnapIds == 0..(MaxVer + 2)

Init ==
  /\ cpc = "idle" /\ cid = 0 /\ hdr = 0
  /\ coll = NoColl /\ disk = Disk0
  /\ snap = 0 /\ nsnap = 0 /\ snapst = [i \in SnapIds |-> Disk0] /\ refs = [i \in SnapIds |-> 0] /\ closed = {}
  /\ qpc = "idle" /\ qkind = "none" /\ qord = <<>> /\ qh = 0 /\ qview = 0 /\ qreads = <<>> /\ qres = "none" /\ qdone = 0
  /\ gcid = 0 /\ mpend = 0
  /\ hist = <<>>

\* projected state the driver can read from the real objects (keeps model and code in step)
Proj(c, d, s, ss) == [cid |-> c, dmeta |-> d.meta, dbase |-> d.base, dmain |-> d.main,
                      snapv |-> IF s = 0 THEN -1 ELSE ss[s].meta]
Log(r) == hist' = Append(hist, r)
Room == Len(hist) < MaxLen
CRec(a) == [act |-> a, p |-> "C", checktx |-> mpend', st |-> Proj(cid', disk', snap', snapst')]

v == cid + 1
Prune(ver) == IF Keep < 0 \/ ver - 1 - Keep < 1 THEN {} ELSE 1..(ver - 1 - Keep)
Apply(d, c) == [main |-> IF c.main = 0 THEN d.main ELSE (d.main \cup {c.main}) \ c.prune,
                base |-> IF c.base = 0 THEN d.base ELSE c.base,
                meta |-> IF c.meta = 0 THEN d.meta ELSE c.meta]

\* ------------------------------------------------------------------ consensus connection
CExec ==
  /\ Room /\ cpc = "idle" /\ v <= MaxVer
  /\ cpc' = "exec"
  /\ UNCHANGED <<cid, hdr, coll, disk, svars, gcid, mpend, qvars>>
  /\ Log(CRec("CExec"))

\* dbadapter Set reaches the collector at once (or the DB itself when mounted without it)
MultiWriteEff(c, d) == IF StoreDirect THEN <<c, [d EXCEPT !.base = v]>> ELSE <<[c EXCEPT !.base = v], d>>
CommitStoresEff(c, d) == <<[c EXCEPT !.main = v, !.prune = Prune(v)], d>>
MetaEff(c, d) == IF MetaDirect THEN <<c, [d EXCEPT !.meta = v]>> ELSE <<[c EXCEPT !.meta = v], d>>

CMultiWrite ==
  /\ Room /\ ~Coarse /\ cpc = "exec"
  /\ LET e == MultiWriteEff(coll, disk) IN coll' = e[1] /\ disk' = e[2]
  /\ cpc' = "written"
  /\ UNCHANGED <<cid, hdr, svars, gcid, mpend, qvars>>
  /\ Log(CRec("CMultiWrite"))
CCommitStores ==
  /\ Room /\ ~Coarse /\ cpc = "written"
  /\ LET e == CommitStoresEff(coll, disk) IN coll' = e[1] /\ disk' = e[2]
  /\ cpc' = "saved"
  /\ UNCHANGED <<cid, hdr, svars, gcid, mpend, qvars>>
  /\ Log(CRec("CCommitStores"))
CMeta ==
  /\ Room /\ ~Coarse /\ cpc = "saved"
  /\ LET e == MetaEff(coll, disk) IN coll' = e[1] /\ disk' = e[2]
  /\ cpc' = "meta"
  /\ UNCHANGED <<cid, hdr, svars, gcid, mpend, qvars>>
  /\ Log(CRec("CMeta"))
CPrepare ==
  /\ Room /\ Coarse /\ cpc = "exec"
  /\ LET e1 == MultiWriteEff(coll, disk)
         e2 == CommitStoresEff(e1[1], e1[2])
         e3 == MetaEff(e2[1], e2[2])
     IN coll' = e3[1] /\ disk' = e3[2]
  /\ cpc' = "meta"
  /\ UNCHANGED <<cid, hdr, svars, gcid, mpend, qvars>>
  /\ Log(CRec("CPrepare"))

CWriteSync ==
  /\ Room /\ cpc = "meta"
  /\ disk' = Apply(disk, coll) /\ coll' = NoColl
  /\ cpc' = "synced"
  /\ UNCHANGED <<cid, hdr, svars, gcid, mpend, qvars>>
  /\ Log(CRec("CWriteSync"))

\* refreshQuerySnapshot: a new snapshot of the DB holding the store's own reference; the old one loses it
Swap(d) ==
  IF ~Snapshots THEN UNCHANGED svars
  ELSE LET n == nsnap + 1
           rf == IF snap = 0 THEN [refs EXCEPT ![n] = 1] ELSE [refs EXCEPT ![n] = 1, ![snap] = @ - 1]
       IN /\ snap' = n /\ nsnap' = n
          /\ snapst' = [snapst EXCEPT ![n] = d]
          /\ refs' = rf
          /\ closed' = IF snap # 0 /\ rf[snap] = 0 THEN closed \cup {snap} ELSE closed

CSwap ==
  /\ Room /\ Fine /\ ~AtomicResolve /\ cpc = "synced"
  /\ Swap(disk)
  /\ cpc' = "swapped"
  /\ UNCHANGED <<cid, hdr, coll, disk, gcid, mpend, qvars>>
  /\ Log(CRec("CSwap"))
CPublish ==
  /\ Room /\ Fine /\ ~AtomicResolve /\ cpc = "swapped"
  /\ cid' = v /\ cpc' = "published"
  /\ UNCHANGED <<hdr, coll, disk, svars, gcid, mpend, qvars>>
  /\ Log(CRec("CPublish"))
CSwapPublish ==
  /\ Room /\ ~Fine /\ ~AtomicResolve /\ cpc = "synced"
  /\ Swap(disk)
  /\ cid' = v /\ cpc' = "published"
  /\ UNCHANGED <<hdr, coll, disk, gcid, mpend, qvars>>
  /\ Log(CRec("CSwapPublish"))
CSetHeader ==
  /\ Room /\ ~AtomicResolve /\ cpc = "published"
  /\ hdr' = cid /\ cpc' = "idle"
  /\ mpend' = NCheck   \* setCheckState makes a fresh checkState; then, still under the consensus mutex, the mempool
                       \* connection re-checks / checks NCheck pending transactions: their ante writes (sequence bump)
                       \* stay in checkState, a cache over the LIVE multistore, until the next Commit
  /\ UNCHANGED <<cid, coll, disk, svars, gcid, qvars>>
  /\ Log(CRec("CSetHeader"))
CPublishAll ==   \* required design: the three publication steps are one step for queries
  /\ Room /\ AtomicResolve /\ cpc = "synced"
  /\ Swap(disk)
  /\ cid' = v /\ hdr' = v /\ cpc' = "idle" /\ mpend' = NCheck
  /\ UNCHANGED <<coll, disk, gcid, qvars>>
  /\ Log(CRec("CPublishAll"))

\* ------------------------------------------------------------------ crash / reopen (C27)
Crash ==
  /\ Room /\ Crashes /\ cpc # "down"
  /\ cpc' = "down" /\ coll' = NoColl /\ gcid' = cid /\ mpend' = 0
  /\ qpc' = "idle" /\ qreads' = <<>> /\ qres' = "none"
  /\ UNCHANGED <<cid, hdr, disk, svars, qkind, qord, qh, qview, qdone>>
  /\ Log([act |-> "Crash", p |-> "C", at |-> cpc, st |-> Proj(cid, disk, snap, snapst)])

\* LoadLatestVersion: commitInfo of s/latest must exist and every store must load at that version
Loadable(d) == d.meta = 0 \/ (d.meta \in d.main /\ d.base = d.meta)
Reopen ==
  /\ Room /\ cpc = "down"
  /\ IF Loadable(disk)
     THEN /\ cid' = disk.meta /\ hdr' = disk.base /\ cpc' = "idle"
          /\ Swap(disk)
          /\ Log([act |-> "Reopen", p |-> "C", ok |-> TRUE, st |-> Proj(disk.meta, disk, snap', snapst')])
     ELSE /\ UNCHANGED <<cid, hdr, cpc, svars>>
          /\ Log([act |-> "Reopen", p |-> "C", ok |-> FALSE, st |-> Proj(cid, disk, snap, snapst)])
  /\ mpend' = 0
  /\ UNCHANGED <<coll, disk, gcid, qvars>>

\* ------------------------------------------------------------------ query connection
View == IF Snapshots THEN snapst[qview] ELSE disk
ResolveH(k) == IF k = "simulate" THEN hdr ELSE cid
QRec(a) == [act |-> a, p |-> "Q", st |-> Proj(cid, disk, snap, snapst)]

Acquire == IF Snapshots THEN qview' = snap /\ refs' = [refs EXCEPT ![snap] = @ + 1]
                        ELSE qview' = 0 /\ refs' = refs
Release == IF ~Snapshots THEN UNCHANGED <<refs, closed>>
           ELSE LET rf == [refs EXCEPT ![qview] = @ - 1] IN
                /\ refs' = rf
                /\ closed' = IF rf[qview] = 0 THEN closed \cup {qview} ELSE closed
OrdOK(k, o) == (k = "store") <=> (o = <<"main">>)
CanStart == qpc = "idle" /\ qdone < NQ /\ cpc # "down" /\ hdr >= 1 /\ (Snapshots => snap # 0)

QResolve(k, o) ==
  /\ Room /\ Fine /\ ~AtomicResolve /\ CanStart /\ OrdOK(k, o)
  /\ qkind' = k /\ qord' = o /\ qh' = ResolveH(k) /\ qpc' = "resolved"
  /\ qreads' = <<>> /\ qres' = "none"
  /\ UNCHANGED <<cvars, qview, qdone>>
  /\ Log(QRec("QResolve") @@ [kind |-> k, ord |-> o, h |-> ResolveH(k)])
QAcquire ==
  /\ Room /\ qpc = "resolved"
  /\ Acquire /\ qpc' = "acquired"
  /\ UNCHANGED <<cpc, cid, hdr, coll, disk, snap, nsnap, snapst, closed, gcid, mpend, qkind, qord, qh, qreads, qres, qdone>>
  /\ Log(QRec("QAcquire") @@ [view |-> IF Snapshots THEN snapst[snap].meta ELSE -1])
QStart(k, o) ==   \* QResolve + QAcquire with no schedulable point in between
  /\ Room /\ (~Fine \/ AtomicResolve) /\ CanStart /\ OrdOK(k, o)
  /\ qkind' = k /\ qord' = o /\ qh' = ResolveH(k)
  /\ Acquire /\ qpc' = "acquired"
  /\ qreads' = <<>> /\ qres' = "none"
  /\ UNCHANGED <<cpc, cid, hdr, coll, disk, snap, nsnap, snapst, closed, gcid, mpend, qdone>>
  /\ Log(QRec("QStart") @@ [kind |-> k, ord |-> o, h |-> ResolveH(k),
                            view |-> IF Snapshots THEN snapst[snap].meta ELSE -1])

LoadOK(d, h) == h >= 1 /\ h <= d.meta /\ h \in d.main

\* ims.LoadVersion(h): the commit info of h and the root of h must be in the view. A .store query
\* whose snapshot load fails falls back to the live multistore, which reads through the CollectingDB.
QLoad ==
  /\ Room /\ qpc = "acquired"
  /\ IF LoadOK(View, qh)
     THEN /\ qpc' = "loaded" /\ qres' = "ok"
          /\ UNCHANGED <<refs, closed, qreads>>
     ELSE IF qkind = "store"
          THEN LET live == Apply(disk, coll) IN
               /\ Release
               /\ qpc' = "fallback"
               /\ qres' = IF qh >= 1 /\ qh \in live.main THEN "ok" ELSE "err"
               /\ qreads' = IF qh >= 1 /\ qh \in live.main
                            THEN <<[store |-> "main", tag |-> qh, dmeta |-> disk.meta]>> ELSE <<>>
          ELSE /\ Release
               /\ qpc' = "failed" /\ qres' = "err" /\ UNCHANGED qreads
  /\ UNCHANGED <<cpc, cid, hdr, coll, disk, snap, nsnap, snapst, gcid, mpend, qkind, qord, qh, qview, qdone>>
  /\ Log(QRec("QLoad") @@ [res |-> qres', pc |-> qpc', reads |-> qreads'])

QRead ==
  /\ Room /\ qpc = "loaded" /\ Len(qreads) < Len(qord)
  /\ LET s == qord[Len(qreads) + 1]
         t == IF s = "main" THEN qh ELSE View.base
     IN /\ qreads' = Append(qreads, [store |-> s, tag |-> t, dmeta |-> disk.meta])
        /\ Log(QRec("QRead") @@ [store |-> s, tag |-> t])
  /\ UNCHANGED <<cvars, qpc, qkind, qord, qh, qview, qres, qdone>>
QEnd ==
  /\ Room
  /\ \/ /\ qpc = "loaded" /\ Len(qreads) = Len(qord)
        /\ Release
     \/ /\ qpc \in {"failed", "fallback"} /\ UNCHANGED <<refs, closed>>
  /\ qpc' = "idle" /\ qdone' = qdone + 1
  /\ UNCHANGED <<cpc, cid, hdr, coll, disk, snap, nsnap, snapst, gcid, mpend, qkind, qord, qh, qview, qreads, qres>>
  /\ Log(QRec("QEnd") @@ [res |-> qres, reads |-> qreads, kind |-> qkind])

Next == \/ CExec \/ CMultiWrite \/ CCommitStores \/ CMeta \/ CPrepare \/ CWriteSync
        \/ CSwap \/ CPublish \/ CSwapPublish \/ CSetHeader \/ CPublishAll
        \/ Crash \/ Reopen
        \/ \E k \in QKinds, o \in Orders : QResolve(k, o) \/ QStart(k, o)
        \/ QAcquire \/ QLoad \/ QRead \/ QEnd

Spec == Init /\ [][Next]_<<vars, hist>>
StateView == vars

\* ------------------------------------------------------------------ properties
\* C27: whatever the process was doing, the DB holds exactly one committed version ...
Recoverable == /\ disk.base = disk.meta
               /\ disk.meta = 0 \/ disk.meta \in disk.main
               /\ \A x \in disk.main : x <= disk.meta
\* ... namely the version published before the crash or its successor
RecoveredVersion == cpc = "down" => disk.meta \in {gcid, gcid + 1}
\* C28: all reads of one query carry one height
QueryConsistent == Snapshots => \A i, j \in DOMAIN qreads : qreads[i].tag = qreads[j].tag
\* C28: and that height was durable when it was read (never uncommitted writes)
QueryCommitted == \A i \in DOMAIN qreads : qreads[i].tag <= qreads[i].dmeta
\* pending CheckTx writes live in checkState only: no view a query reads from contains them (the sequence a
\* simulation's ante handler sees is the committed one) -- structurally so in this model: no query action reads mpend;
\* on the real code the driver reads the sequence through every simulation and judges it like any other value.
\* a query that starts after a commit was published never fails to load its own height
QueryLoads == (AtomicResolve /\ Keep < 0) => qres # "err"
\* a snapshot is never closed while a query holds it; counts never negative
RefsSound == /\ \A i \in SnapIds : refs[i] >= 0
             /\ (Snapshots /\ qpc \in {"acquired", "loaded"}) => qview \notin closed
             /\ snap # 0 => snap \notin closed
\* snapshots are only ever taken of a whole committed version
SnapshotsWhole == \A i \in SnapIds : /\ snapst[i].base = snapst[i].meta
                                     /\ snapst[i].meta = 0 \/ snapst[i].meta \in snapst[i].main
\* queries never change what the consensus connection sees
QueriesReadOnly == [][(qpc' # qpc \/ qreads' # qreads \/ qdone' # qdone) => (UNCHANGED <<cpc, cid, hdr, coll, disk>> \/ cpc' = "down")]_vars
TypeOK == /\ cpc \in {"idle", "exec", "written", "saved", "meta", "synced", "swapped", "published", "down"}
          /\ cid \in 0..MaxVer /\ hdr \in 0..MaxVer /\ qdone \in 0..NQ /\ nsnap \in SnapIds

Emit == PrintT(<<"TRACE", ToJson(hist)>>)
EmitAtEnd == Len(hist) < MaxLen \/ Emit
EmitEdge == PrintT(<<"EDGE", ToJson(hist')>>)
=============================================================================
