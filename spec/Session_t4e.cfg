SPECIFICATION Spec
CONSTANTS
  Sess <- S2
  Menu <- MenuQ
  MixMenu <- MixQ
  Creates <- CreatesQ
  Fees <- F12
  Pre <- PreA
  MaxTime = 5
  MaxLen = 4
VIEW View
INVARIANTS TypeOK WithinLimit UsedCovers
PROPERTIES DeadAuthorizesNothing RejectIsFree StepWithinBudget Independent RestrictionsEverywhere
ACTION_CONSTRAINT EmitEdge
