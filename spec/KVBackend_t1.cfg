CONSTANTS
  N = 5
  DataKeys = {1,2,3,5}
  Vals = {"", "x"}
  Batches = {"b1"}
  Snaps = {"s1"}
  MaxOps = 2
  MaxLen = 6
  Collecting = FALSE
  Syncs = {FALSE}
  InitDBs <- Init2
  Quiet = TRUE
INIT Init
NEXT Next
VIEW View
INVARIANTS TypeOK RefMatches PlainNoPending LastScanOK
PROPERTIES SnapshotFrozen DrainPreservesReads DiscardNoEffect

