CONSTANTS
  P = 3
  InitSets <- InitB
  ChangeLists <- ChB
  Times <- T12
  MaxTotal = 100
  MaxLen = 8
  FairOnly = FALSE
INIT Init
NEXT NextSim
VIEW View
INVARIANTS TypeOK Fairness PriorityWindow SortedUnique PowersPositive TotalBounded ProposerIsMember
PROPERTIES NeverEmptied RejectedUpdateIsNoOp
INVARIANT EmitAtEnd
