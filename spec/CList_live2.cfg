CONSTANTS
  N = 2
  Removers <- R1
  Trav <- T2
  ChanTrav <- ChanT2
  BugNoReplaceWg = FALSE
  BugNoSetRemoved = FALSE
  BugNoWakeOnRemove = FALSE
  BugNoRelink = FALSE
SPECIFICATION LiveSpec
INVARIANTS TypeOK NoPanic RefNext RefFront RefLen RefRemoved OrderOK LiveNextLive TravOK WakeupDelivered
PROPERTIES NoLostWakeup
