CONSTANTS
  Nodes = {1, 2}
  RootObjs <- R12
  RootPkg <- Pkg12
  RootSlots <- Slots12
  Realms = {1, 2}
  MaxOps = 3
  MaxOps1 = 3
  MaxTx = 2
  OwnerFix = TRUE
  AttachGuard = TRUE
  SaveGuard = TRUE
  ObjSeq <- Seq2b
  Bias = TRUE
  Quiet = FALSE
INIT Init
NEXT Next
VIEW view
ACTION_CONSTRAINT EmitEdge
INVARIANTS RefinesDecl RefCountExact OwnerIffSingle NoDangling ReachableUnlessCyclic
CHECK_DEADLOCK FALSE
