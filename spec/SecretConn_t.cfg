CONSTANTS
  WriteSizes <- WCore
  ReadSizes <- RCore
  BufSizes <- BOne
  MaxWrites = 1
  MaxReads = 2
  MaxLen = 11
  AdvBudget = 2
  AdvAfter = 0
  AdvActs <- ActsAll
  EphChoices <- EphAll
  DataMax = 1024
  Writers <- Both
  Readers <- Both
INIT Init
NEXT Next
VIEW View
INVARIANTS TypeOK AuthenticatedPeer NoGhostSession StreamIntegrity TamperFails

