---------------------------- MODULE CrashRecoveryOps ----------------------------
(* Variable-free part of CrashRecovery.tla: the handshake case analysis of replay.go and the
   media states the write order of one height allows. Shared with CrashRecoveryTrace.tla. *)
EXTENDS Integers
CONSTANT MaxHeight

\* ---- what a (s, t, a) triple allows the handshake to do (replay.go ReplayBlocks)
HandshakeCase(ss, tt, aa) ==
  CASE ss = 0 -> "fresh"
    [] ss < aa -> "error:app-ahead-of-store"
    [] ss < tt -> "panic:state-ahead-of-store"
    [] ss > tt + 1 -> "panic:store-more-than-one-ahead"
    [] ss = tt /\ aa < ss -> "replay-blocks-on-app"
    [] ss = tt /\ aa = ss -> "in-sync"
    [] ss = tt + 1 /\ aa < tt -> "replay-blocks-then-last-with-state"
    [] ss = tt + 1 /\ aa = tt -> "replay-last-block-real-app"
    [] ss = tt + 1 /\ aa = ss -> "replay-last-block-mock-app"
    [] OTHER -> "panic:uncovered-case"
HandshakeOK(ss, tt, aa) == HandshakeCase(ss, tt, aa) \notin
  {"error:app-ahead-of-store", "panic:state-ahead-of-store", "panic:store-more-than-one-ahead", "panic:uncovered-case"}
\* replaying the last block with the mock app needs the saved ABCI responses of that height
MockNeedsResponses(ss, tt, aa, rr) == HandshakeCase(ss, tt, aa) = "replay-last-block-mock-app" => rr >= ss
\* media states a crash can leave (one height in progress, writes in code order)
CrashShape(ss, ww, rr, aa, tt) ==
  \E h \in 0..(MaxHeight + 8) :
     \/ ss = h /\ ww <= h + 1 /\ rr = h /\ aa = h /\ tt = h                                  \* between heights (the marker of h may be missing:
                                                                                             \*   crash before it, block applied by the handshake)
     \/ h > 0 /\ ss = h /\ ww <= h /\ rr = h - 1 /\ aa = h - 1 /\ tt = h - 1                  \* after SaveBlock
     \/ h > 0 /\ ss = h /\ ww = h + 1 /\ rr = h - 1 /\ aa = h - 1 /\ tt = h - 1               \* after EndHeight
     \/ h > 0 /\ ss = h /\ ww = h + 1 /\ rr = h /\ aa = h - 1 /\ tt = h - 1                   \* after responses
     \/ h > 0 /\ ss = h /\ ww = h + 1 /\ rr = h /\ aa = h /\ tt = h - 1                       \* after app commit
\* after a successful handshake everything is at the store height
Recovered(ss) == [s |-> ss, a |-> ss, t |-> ss]

=============================================================================
