---------------------------- MODULE MCPartSet ----------------------------
EXTENDS PartSet
ClsAll == {"good", "corrupt", "badleaf", "badaunt", "extraaunt", "wrongtotal", "otherproof", "swapped", "forgedindex"}
ClsGood == {"good"}
Tq == {1, 2, 3, 4}
Tt == {1, 2, 3, 4, 5, 6}
Tpq == {3, 4, 5}
Tpt == {4, 5, 6, 7}
Tsim == {5, 7, 9, 16, 17}
ClsSim == {"good", "corrupt", "swapped", "forgedindex", "wrongtotal"}
=============================================================================
