INIT TraceInit
NEXT TraceNext
CONSTANTS
  Addrs <- TAddrs
  Amts = {0}
  Cap <- TCap
  MaxLen = 0
  MaxTime = 0
  RawOps = FALSE
  IOIns = {}
  IOOuts = {}
  Genesis = {}
VIEW TraceView
CONSTRAINT HighWater
POSTCONDITION Accepted
CHECK_DEADLOCK FALSE
INVARIANTS SupplyEq BalanceWellFormed SupplyWellFormed HolderHasAccount NumsUnique NoUnpaired
PROPERTIES StepConserves AccountsStable
