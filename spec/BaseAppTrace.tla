---------------------------- MODULE BaseAppTrace ----------------------------
(* (V) Validates executions recorded from the REAL gno.land application (harness/cmd/baseapp)
   against BaseApp.tla. One NDJSON line per ABCI call:
     Init       {maxgas, st}                genesis committed; st = projected state
     BeginBlock {}
     DeliverTx  {tx, res:{ok,cls,used,wanted,loc}}   real result of the real transaction
     Commit     {st}                        projected state read back through ABCI Query
     Reset      {}                          next scenario follows (Init)
   A DeliverTx line is explained by the spec's own small steps Begin, Ante, Msg*, Charge
   (silent: l unchanged) and consumed by Finish, which requires the spec's verdict to equal
   the reported one; Commit requires the spec's state to equal the projection. The gas the
   application reported is the only free input (ginfo); everything else is predicted.   *)
EXTENDS BaseApp, Json, TLC

TheTrace == ndJsonDeserialize("baseapp_trace.ndjson")
VARIABLE l
CONSTANT CompareState
tvars == <<vars, l>>

TUsers == {"a", "b", "c"}
TOthers == {"z", "realm", "dep", "coll"}
TVars == {"x", "y", "pv", "blob"}
PreGasMax == 4000000   \* generous bound on the metered pre-ante reads (measured: 1.3-1.7 M)

Ln == TheTrace[l]
IsEv(a) == l <= Len(TheTrace) /\ Ln.act = a

StBal(st) == [n \in Names |-> st.bal[n]]
StSeq(st) == [n \in Users |-> st.seq[n]]
StRv(st) == [v \in Vars |-> st.rv[v]]

TraceInit ==
  /\ l = 2
  /\ TheTrace[1].act = "Init"
  /\ InitWith(StBal(TheTrace[1].st), StSeq(TheTrace[1].st), StRv(TheTrace[1].st), TheTrace[1].maxgas)
  /\ TLCSet(1, 0)

TReset ==
  /\ IsEv("Reset") /\ pc = "idle"
  /\ l + 1 <= Len(TheTrace) /\ TheTrace[l + 1].act = "Init"
  /\ LET e == TheTrace[l + 1] IN
       /\ bal' = StBal(e.st) /\ seq' = StSeq(e.st) /\ rv' = StRv(e.st)
       /\ blockGas' = 0 /\ maxGas' = e.maxgas
       /\ pc' = "idle" /\ tx' = NoTx /\ i' = 0 /\ gas' = 0
       /\ lbal' = bal' /\ lseq' = seq' /\ lrv' = rv'
       /\ cbal' = bal' /\ cseq' = seq' /\ crv' = rv'
       /\ pre' = <<bal', seq', rv'>> /\ anteOK' = FALSE /\ ginfo' = NoG /\ res' = NoRes
  /\ l' = l + 2

TBeginBlock == IsEv("BeginBlock") /\ BeginBlock /\ l' = l + 1

\* a line that looks like the pass-through meter running out during the pre-ante reads
LooksPreOOG(e) == /\ ~e.res.ok /\ e.res.cls = "oog" /\ e.res.wanted = 0
                  /\ blockGas + e.res.used > maxGas /\ maxGas - blockGas < PreGasMax

TBegin ==
  /\ IsEv("DeliverTx") /\ pc = "idle"
  /\ LET e == Ln
         g == [pre |-> IF e.res.wanted = 0 /\ ~e.res.ok
                        THEN (IF LooksPreOOG(e) THEN maxGas + 1 ELSE e.res.used) ELSE 0,
               total |-> e.res.used]
     IN Begin(e.tx, g)
  /\ UNCHANGED l

TSilent == IsEv("DeliverTx") /\ (Ante \/ Msg \/ Charge) /\ UNCHANGED l

\* the reported verdict must be the spec's verdict; GasWanted is reported non-zero exactly when the ante handler passed
TFinish ==
  /\ IsEv("DeliverTx") /\ pc = "done"
  /\ res.ok = Ln.res.ok
  /\ anteOK = (Ln.res.wanted > 0)
  /\ (anteOK => gas = ginfo.total)
  /\ (res.why = "noblockgas") = (Ln.res.loc = "noblock")
  /\ (Ln.res.loc = "block" => res.why = "blockgas")
  /\ Finish
  /\ l' = l + 1

\* CompareState = FALSE turns the state comparison off (the state is re-read from the line instead): what is
\* left is the gas / verdict logic alone, which is how a rejection is attributed to C10 rather than C02.
TCommit ==
  /\ IsEv("Commit") /\ pc = "idle"
  /\ IF CompareState
     THEN /\ bal = StBal(Ln.st) /\ seq = StSeq(Ln.st) /\ rv = StRv(Ln.st)
          /\ UNCHANGED vars
     ELSE /\ bal' = StBal(Ln.st) /\ seq' = StSeq(Ln.st) /\ rv' = StRv(Ln.st)
          /\ UNCHANGED <<blockGas, maxGas, pc, tx, i, gas, lbal, lseq, lrv, cbal, cseq, crv, pre, anteOK, ginfo, res>>
  /\ l' = l + 1

TraceNext == TReset \/ TBeginBlock \/ TBegin \/ TSilent \/ TFinish \/ TCommit
TraceSpec == TraceInit /\ [][TraceNext]_tvars

HighWater == TLCSet(1, IF l > TLCGet(1) THEN l ELSE TLCGet(1))   \* CONSTRAINT: always TRUE, records progress
Accepted == IF TLCGet(1) = Len(TheTrace) + 1 THEN TRUE
            ELSE PrintT(<<"REJECTED-AT", TLCGet(1)>>) /\ FALSE
TraceView == <<vars, l>>
=============================================================================
