CONSTANTS
  Nodes = {1, 2, 3}
  RootObjs <- R12
  RootPkg <- Pkg12
  RootSlots <- Slots12
  Realms = {1, 2}
  MaxOps = 4
  MaxOps1 = 4
  MaxTx = 2
  OwnerFix = TRUE
  AttachGuard = TRUE
  SaveGuard = TRUE
  ObjSeq <- Seq3b
  HandMode = FALSE
  Bias = FALSE
  Quiet = TRUE
INIT Init
NEXT Next
VIEW view
INVARIANTS RefinesDecl RefCountExact OwnerIffSingle NoDangling IdCounter ReachableUnlessCyclic
CHECK_DEADLOCK FALSE
