CONSTANT MaxHeight = 3
INIT Init
NEXT Next
INVARIANTS NoUncoveredCase CrashStatesAreShaped AtRestConsistent
