------------------------------- MODULE MConn -------------------------------
(* C43. Mirrors tm2/pkg/p2p/conn/connection.go: Send/TrySend -> Channel.sendQueue,
   sendPacketMsg (isSendPending pops the queue into `sending`, nextPacketMsg cuts <= MaxPay bytes and
   sets EOF on the last packet), the byte stream, recvRoutine (packet by packet: ping, pong, message
   packets appended to the channel's `recving` buffer and handed to onReceive on EOF; unknown
   channel, message over RecvMessageCapacity, undecodable / oversize packet => stopForError),
   FlushStop (queued messages are packetised and flushed, then the connection is closed) and the
   reaction to the peer's close (EOF => stopForError unless this side is stopping itself).

   Two sides A and B; everything is indexed by the SENDING side s of a stream (receiver = Peer(s)).
   A message is [id, len]; its content is abstracted to (id, offset) ranges: a packet carries
   [id, off, len] and a delivered message is intact iff its fragments are the consecutive ranges of
   ONE message starting at 0.  The transport delivers any split of the byte stream (WireChunk); the
   receiver handles a packet once all its bytes arrived.  Channel choice in sendPacketMsg (least
   recentlySent/priority) is left nondeterministic.  Ping/pong: a consumed ping gives one pong credit
   (the code coalesces: the spec allows fewer pongs, never more).

   Named deviations (DESIGN 4.3):
   * The send-queue capacity only gates Send in this module (M); the trace specification does not
     constrain when TrySend may refuse (not a statement of the property).
   * After stopServices (FlushStop / OnStop) the code exits the receive loop silently on a read
     error but still reports unknown-channel / over-capacity packets: the spec allows onError for
     every failing packet and REQUIRES it only while the side is up.                          *)
EXTENDS Integers, Sequences, FiniteSets, TLC

CONSTANTS Chans,      \* configured channel ids
          BadCh,      \* a channel id that is not configured
          MaxPay,     \* MaxPacketMsgPayloadSize
          Hdr,        \* bytes of packet overhead in the model's stream accounting
          RecvCap,    \* [Chans -> Nat]  RecvMessageCapacity
          QCap,       \* SendQueueCapacity
          MsgLens,    \* message lengths generated
          MaxMsgs,    \* messages per sending side
          MaxInject,  \* packets injected into the streams
          InjectKinds,\* subset of {"ping", "pong", "unknownch", "garbage", "oversize"}
          Senders,    \* sides whose application sends
          Stoppers    \* sides whose application may call FlushStop

Sides == {"A", "B"}
Peer(x) == IF x = "A" THEN "B" ELSE "A"
None == [id |-> 0, len |-> 0, off |-> 0]

VARIABLES queue,      \* [Sides -> [Chans -> Seq([id, len])]]   sendQueue
          sending,    \* [Sides -> [Chans -> [id, len, off]]]   ch.sending (None: nothing popped)
          wire,       \* [Sides -> Seq(packet)]  packets written by s, not yet consumed by Peer(s)
          avail,      \* [Sides -> Nat]  bytes of wire[s] the transport has handed to the receiver
          recving,    \* [Sides -> [Chans -> Seq([id, off, len])]]  reassembly buffer of the receiver of stream s
          delivered,  \* [Sides -> [Chans -> Seq([id, len, ok])]]   onReceive calls of the receiver of stream s
          sent,       \* [Sides -> [Chans -> Seq([id, len])]]       ghost: messages accepted by Send on s
          up,         \* [Sides -> BOOLEAN]  stopServices not yet invoked
          flushing,   \* [Sides -> BOOLEAN]  inside FlushStop
          flushed,    \* [Sides -> BOOLEAN]  FlushStop completed
          eof,        \* [Sides -> BOOLEAN]  s closed its connection: stream s ends after wire[s]
          recvDone,   \* [Sides -> BOOLEAN]  the receive routine of side x has exited
          errored,    \* [Sides -> BOOLEAN]  onError was called on side x
          mustErr,    \* [Sides -> BOOLEAN]  ghost: side x hit a failing packet / the peer's close while up
          clean,      \* [Sides -> BOOLEAN]  ghost: stream s was flushed, closed and read to its end without failure
          credit,     \* [Sides -> Nat]  pings consumed by side x not yet answered
          nmsg, ninj

vars == <<queue, sending, wire, avail, recving, delivered, sent, up, flushing, flushed, eof, recvDone,
          errored, mustErr, clean, credit, nmsg, ninj>>

Pkt(kind, ch, e, id, off, len, size) ==
  [kind |-> kind, ch |-> ch, eof |-> e, id |-> id, off |-> off, len |-> len, size |-> size]

RECURSIVE SumSize(_)
SumSize(w) == IF w = <<>> THEN 0 ELSE Head(w).size + SumSize(Tail(w))
RECURSIVE FragLen(_)
FragLen(fr) == IF fr = <<>> THEN 0 ELSE Head(fr).len + FragLen(Tail(fr))
\* fragments are the consecutive ranges of one message, starting at offset 0
RECURSIVE Contig(_, _, _)
Contig(fr, id, off) == IF fr = <<>> THEN TRUE
                       ELSE Head(fr).id = id /\ Head(fr).off = off /\ Contig(Tail(fr), id, off + Head(fr).len)
Min(a, b) == IF a <= b THEN a ELSE b

Init ==
  /\ queue = [s \in Sides |-> [c \in Chans |-> <<>>]]
  /\ sending = [s \in Sides |-> [c \in Chans |-> None]]
  /\ wire = [s \in Sides |-> <<>>]
  /\ avail = [s \in Sides |-> 0]
  /\ recving = [s \in Sides |-> [c \in Chans |-> <<>>]]
  /\ delivered = [s \in Sides |-> [c \in Chans |-> <<>>]]
  /\ sent = [s \in Sides |-> [c \in Chans |-> <<>>]]
  /\ up = [s \in Sides |-> TRUE]
  /\ flushing = [s \in Sides |-> FALSE]
  /\ flushed = [s \in Sides |-> FALSE]
  /\ eof = [s \in Sides |-> FALSE]
  /\ recvDone = [s \in Sides |-> FALSE]
  /\ errored = [s \in Sides |-> FALSE]
  /\ mustErr = [s \in Sides |-> FALSE]
  /\ clean = [s \in Sides |-> FALSE]
  /\ credit = [s \in Sides |-> 0]
  /\ nmsg = [s \in Sides |-> 0]
  /\ ninj = 0

\* --- sending side ----------------------------------------------------------------------------
\* MConnection.Send / TrySend returning true: the message is in the channel's queue
Enqueue(s, c, id, len) ==
  /\ queue' = [queue EXCEPT ![s][c] = Append(@, [id |-> id, len |-> len])]
  /\ sent' = [sent EXCEPT ![s][c] = Append(@, [id |-> id, len |-> len])]

Send(s, c, len) ==
  /\ s \in Senders /\ up[s] /\ nmsg[s] < MaxMsgs /\ Len(queue[s][c]) < QCap
  /\ Enqueue(s, c, nmsg[s] + 1, len)
  /\ nmsg' = [nmsg EXCEPT ![s] = @ + 1]
  /\ UNCHANGED <<sending, wire, avail, recving, delivered, up, flushing, flushed, eof, recvDone, errored,
                 mustErr, clean, credit, ninj>>

CanWrite(s) == (up[s] \/ flushing[s]) /\ ~eof[s]

\* Channel.isSendPending: the next queued message becomes `sending`
Pop(s, c) ==
  /\ CanWrite(s) /\ sending[s][c] = None /\ queue[s][c] # <<>>
  /\ sending' = [sending EXCEPT ![s][c] = [id |-> Head(queue[s][c]).id, len |-> Head(queue[s][c]).len, off |-> 0]]
  /\ queue' = [queue EXCEPT ![s][c] = Tail(@)]
  /\ UNCHANGED <<wire, avail, recving, delivered, sent, up, flushing, flushed, eof, recvDone, errored,
                 mustErr, clean, credit, nmsg, ninj>>

\* the packet Channel.nextPacketMsg cuts from `sending` (sz: its size on the stream)
PayOf(s, c) == Min(MaxPay, sending[s][c].len - sending[s][c].off)
NextOf(s, c, sz) == LET m == sending[s][c]
                    IN Pkt("msg", c, IF m.len - m.off <= MaxPay THEN 1 ELSE 0, m.id, m.off, PayOf(s, c), sz)

\* Channel.writePacketMsgTo (+ the flush that puts it on the stream)
NextPacket(s, c, sz) ==
  /\ CanWrite(s) /\ sending[s][c] # None
  /\ LET p == NextOf(s, c, sz) IN
     /\ wire' = [wire EXCEPT ![s] = Append(@, p)]
     /\ sending' = [sending EXCEPT ![s][c] = IF p.eof = 1 THEN None ELSE [@ EXCEPT !.off = @ + p.len]]
  /\ UNCHANGED <<queue, avail, recving, delivered, sent, up, flushing, flushed, eof, recvDone, errored,
                 mustErr, clean, credit, nmsg, ninj>>

SendPong(x, sz) ==
  /\ credit[x] > 0 /\ CanWrite(x)
  /\ wire' = [wire EXCEPT ![x] = Append(@, Pkt("pong", 0, 0, 0, 0, 0, sz))]
  /\ credit' = [credit EXCEPT ![x] = @ - 1]
  /\ UNCHANGED <<queue, sending, avail, recving, delivered, sent, up, flushing, flushed, eof, recvDone,
                 errored, mustErr, clean, nmsg, ninj>>

SendPing(x, sz) ==
  /\ up[x] /\ ~eof[x]
  /\ wire' = [wire EXCEPT ![x] = Append(@, Pkt("ping", 0, 0, 0, 0, 0, sz))]
  /\ UNCHANGED <<queue, sending, avail, recving, delivered, sent, up, flushing, flushed, eof, recvDone,
                 errored, mustErr, clean, credit, nmsg, ninj>>

\* FlushStop: stopServices, then every queued message is packetised and flushed, then Close
StopBegin(x) ==
  /\ x \in Stoppers /\ up[x]
  /\ up' = [up EXCEPT ![x] = FALSE]
  /\ flushing' = [flushing EXCEPT ![x] = TRUE]
  /\ UNCHANGED <<queue, sending, wire, avail, recving, delivered, sent, flushed, eof, recvDone, errored,
                 mustErr, clean, credit, nmsg, ninj>>

Drained(x) == \A c \in Chans : queue[x][c] = <<>> /\ sending[x][c] = None

StopEnd(x) ==
  /\ flushing[x] /\ Drained(x)
  /\ flushing' = [flushing EXCEPT ![x] = FALSE]
  /\ flushed' = [flushed EXCEPT ![x] = TRUE]
  /\ eof' = [eof EXCEPT ![x] = TRUE]
  /\ UNCHANGED <<queue, sending, wire, avail, recving, delivered, sent, up, recvDone, errored, mustErr,
                 clean, credit, nmsg, ninj>>

\* --- transport -------------------------------------------------------------------------------
WireChunk(s, n) ==
  /\ n >= 1 /\ avail[s] + n <= SumSize(wire[s])
  /\ avail' = [avail EXCEPT ![s] = @ + n]
  /\ UNCHANGED <<queue, sending, wire, recving, delivered, sent, up, flushing, flushed, eof, recvDone,
                 errored, mustErr, clean, credit, nmsg, ninj>>

\* a packet that does not come from the peer's MConnection appears at a packet boundary of stream s
\* kinds: ping, pong, unknownch (a message packet for a channel that is not configured), garbage
\* (undecodable bytes), oversize (length prefix beyond the maximum packet size)
InjPkt(k, sz) == IF k = "unknownch" THEN Pkt("msg", BadCh, 1, 0, 0, 1, sz)
                 ELSE IF k \in {"garbage", "oversize"} THEN Pkt("bad", 0, 0, 0, 0, 0, sz)
                 ELSE Pkt(k, 0, 0, 0, 0, 0, sz)
Inject(s, k, sz) ==
  /\ ninj < MaxInject /\ k \in InjectKinds /\ ~eof[s]
  /\ wire' = [wire EXCEPT ![s] = Append(@, InjPkt(k, sz))]
  /\ ninj' = ninj + 1
  /\ UNCHANGED <<queue, sending, avail, recving, delivered, sent, up, flushing, flushed, eof, recvDone,
                 errored, mustErr, clean, credit, nmsg>>

\* --- receiving side: one iteration of recvRoutine on stream s (receiver r = Peer(s)) ---------
\* the receive routine of side r ends (failing packet / end of the peer's stream); stopForError follows
FailVars(r) ==
  /\ recvDone' = [recvDone EXCEPT ![r] = TRUE]
  /\ mustErr' = [mustErr EXCEPT ![r] = @ \/ up[r]]

HeadReady(s) == ~recvDone[Peer(s)] /\ wire[s] # <<>> /\ Head(wire[s]).size <= avail[s]
Consume(s) == /\ wire' = [wire EXCEPT ![s] = Tail(@)]
              /\ avail' = [avail EXCEPT ![s] = @ - Head(wire[s]).size]

\* what the head packet of stream s does to the receiver: "skip" | "frag" | "deliver" | "fail"
Effect(s) == LET p == Head(wire[s]) r == Peer(s) IN
  IF p.kind \in {"ping", "pong"} THEN "skip"
  ELSE IF p.kind # "msg" THEN "fail"
  ELSE IF p.ch \notin Chans THEN "fail"
  ELSE IF RecvCap[p.ch] < FragLen(recving[s][p.ch]) + p.len THEN "fail"
  ELSE IF p.eof = 1 THEN "deliver" ELSE "frag"

RecvPacket(s) ==
  LET p == Head(wire[s]) r == Peer(s) IN
  /\ HeadReady(s)
  /\ Consume(s)
  /\ CASE Effect(s) = "skip" ->
            /\ credit' = [credit EXCEPT ![r] = IF p.kind = "ping" THEN @ + 1 ELSE @]
            /\ UNCHANGED <<recving, delivered, recvDone, mustErr>>
       [] Effect(s) = "fail" ->
            /\ FailVars(r)
            /\ UNCHANGED <<recving, delivered, credit>>
       [] Effect(s) = "frag" ->
            /\ recving' = [recving EXCEPT ![s][p.ch] = Append(@, [id |-> p.id, off |-> p.off, len |-> p.len])]
            /\ UNCHANGED <<delivered, recvDone, mustErr, credit>>
       [] Effect(s) = "deliver" ->
            LET fr == Append(recving[s][p.ch], [id |-> p.id, off |-> p.off, len |-> p.len]) IN
            /\ delivered' = [delivered EXCEPT ![s][p.ch] =
                               Append(@, [id |-> fr[1].id, len |-> FragLen(fr), ok |-> Contig(fr, fr[1].id, 0)])]
            /\ recving' = [recving EXCEPT ![s][p.ch] = <<>>]
            /\ UNCHANGED <<recvDone, mustErr, credit>>
  /\ UNCHANGED <<queue, sending, sent, up, eof, flushing, flushed, errored, clean, nmsg, ninj>>

\* the receiver reads the end of stream s
RecvEOF(s) ==
  LET r == Peer(s) IN
  /\ ~recvDone[r] /\ wire[s] = <<>> /\ eof[s]
  /\ FailVars(r)
  /\ clean' = [clean EXCEPT ![s] = flushed[s]]
  /\ UNCHANGED <<queue, sending, wire, avail, recving, delivered, sent, up, eof, flushing, flushed, errored,
                 credit, nmsg, ninj>>

\* stopForError -> Stop -> OnStop: the connection is closed without flushing (unless a FlushStop owns it)
CloseOnError(x) ==
  /\ recvDone[x] /\ up[x]
  /\ up' = [up EXCEPT ![x] = FALSE]
  /\ eof' = [eof EXCEPT ![x] = TRUE]
  /\ UNCHANGED <<queue, sending, wire, avail, recving, delivered, sent, flushing, flushed, recvDone, errored,
                 mustErr, clean, credit, nmsg, ninj>>

\* the onError callback of side x (after a failure of its receive routine)
OnError(x) ==
  /\ recvDone[x] /\ ~errored[x]
  /\ errored' = [errored EXCEPT ![x] = TRUE]
  /\ UNCHANGED <<queue, sending, wire, avail, recving, delivered, sent, up, flushing, flushed, eof, recvDone,
                 mustErr, clean, credit, nmsg, ninj>>

Next == \/ \E s \in Sides, c \in Chans, n \in MsgLens : Send(s, c, n)
        \/ \E s \in Sides, c \in Chans : Pop(s, c) \/ (sending[s][c] # None /\ NextPacket(s, c, PayOf(s, c) + Hdr))
        \/ \E s \in Sides : SendPong(s, Hdr) \/ StopBegin(s) \/ StopEnd(s) \/ RecvPacket(s) \/ RecvEOF(s) \/ CloseOnError(s) \/ OnError(s)
        \/ \E s \in Sides : \E n \in 1..(MaxPay + Hdr) : WireChunk(s, n)
        \/ \E s \in Sides, k \in InjectKinds : Inject(s, k, Hdr)

Spec == Init /\ [][Next]_vars

\* ---------------------------------------------------------------- properties (C43)
IsPrefix(a, b) == Len(a) <= Len(b) /\ \A i \in 1..Len(a) : a[i] = b[i]
Plain(d) == [i \in 1..Len(d) |-> [id |-> d[i].id, len |-> d[i].len]]
\* each channel delivers, exactly once and in send order, a prefix of what was sent on it
PerChannelFIFOExactlyOnce == \A s \in Sides, c \in Chans : IsPrefix(Plain(delivered[s][c]), sent[s][c])
\* every delivered message is the complete, unmixed byte range of one message
NoPartialDelivery == \A s \in Sides, c \in Chans : \A i \in 1..Len(delivered[s][c]) : delivered[s][c][i].ok
\* a stream that was flushed, closed and read to its end delivered everything that was sent
CompleteAtCleanClose == \A s \in Sides : clean[s] => \A c \in Chans : Plain(delivered[s][c]) = sent[s][c]
\* after a failing packet (or the peer's close) the receive routine is gone: nothing more is delivered
MalformedCloses == [][\A s \in Sides : recvDone[Peer(s)] => delivered'[s] = delivered[s]]_vars
TypeOK == /\ \A s \in Sides : avail[s] <= SumSize(wire[s])
          /\ \A s \in Sides : errored[s] => recvDone[s]
=============================================================================
