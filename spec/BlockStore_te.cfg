CONSTANTS
  K = 100000
  H0 = 99996
  MaxLen = 8
  NV = 2
  FirstHs <- F13
  MaxFirst = 3
INIT Init
NEXT Next
VIEW View
INVARIANTS TypeOK LoadEqualsSaved Contiguous HeightIsLastSaved ValsAtHeightCorrect ParamsAtHeightCorrect KnownRange
PROPERTIES HeightMonotone
ACTION_CONSTRAINT EmitEdge
