---------------------------- MODULE MCCommitVerify ----------------------------
EXTENDS CommitVerify
\* A plan = validator-set pair over a pool of 4 keys (0 = not a member; new = the set the commit is
\* for, old = the trusted set of VerifyFutureCommit) + what is enumerated over it.
Pl(n, o, cls, cbs, ds) == [new |-> n, old |-> o, cls |-> cls, cbs |-> cbs, ds |-> ds]
ClsAll == AllClasses
ClsMid == {"nil", "okA", "okB", "okNil", "badB", "wsA", "adA", "h1A"}
ClsCore == {"nil", "okA", "okB", "badB", "adA", "h1A"}
ClsLen == {"nil", "okA", "h1A"}
CbAll == {"A", "B", "nil"}
CbAB == {"A", "B"}
D0 == {0}
DLen == {-1, 1}

P111 == <<1,1,1,0>>       \* equal powers: a tally of 2 out of 3 is exactly 2/3 -> reject
Small1 == { Pl(<<1,0,0,0>>, <<0,1,0,0>>, ClsAll, CbAll, D0), Pl(<<0,0,2,0>>, <<0,0,1,0>>, ClsAll, CbAll, D0),
            Pl(<<0,0,0,0>>, <<1,0,0,0>>, ClsLen, CbAll, {0, 1}),          \* empty validator set
            Pl(P111, P111, ClsLen, CbAll, DLen), Pl(<<3,1,0,0>>, <<1,1,1,1>>, ClsLen, CbAll, DLen) }
Small2(cbs) == { Pl(<<3,1,0,0>>, <<1,1,1,1>>, ClsAll, cbs, D0), Pl(<<0,1,0,1>>, <<0,2,0,1>>, ClsAll, cbs, D0),
                 Pl(<<0,0,1,2>>, <<1,0,0,3>>, ClsAll, cbs, D0) }
Small == Small1 \cup Small2(CbAll)
PlansQ == Small1 \cup Small2(CbAB) \cup
          { Pl(P111, P111, ClsAll, {"A"}, D0), Pl(P111, P111, ClsMid, {"B"}, D0),
            Pl(<<1,1,2,0>>, <<0,2,1,1>>, ClsMid \cup {"npB"}, {"A"}, D0),    \* old lacks key 1, has key 4
            Pl(<<2,0,1,1>>, <<1,1,0,0>>, ClsMid, {"A"}, D0),                \* gap in the new set: "next" address is a non-member
            Pl(<<1,2,3,4>>, <<4,3,2,1>>, ClsCore, {"A"}, D0) }
PlansT == Small \cup
          { Pl(P111, P111, ClsAll, CbAll, D0), Pl(<<1,1,2,0>>, <<0,2,1,1>>, ClsAll, CbAll, D0),
            Pl(<<1,2,3,0>>, <<3,2,1,0>>, ClsAll, CbAll, D0), Pl(<<2,0,1,1>>, <<1,1,0,0>>, ClsAll, CbAll, D0),
            Pl(<<1,2,3,4>>, <<4,3,2,1>>, ClsAll, CbAB, D0),
            Pl(<<1,1,1,1>>, <<1,1,1,1>>, ClsMid \cup {"auA"}, CbAB, D0),
            Pl(<<1,1,1,3>>, <<2,0,2,2>>, ClsMid \cup {"r1A"}, CbAB, D0),
            Pl(<<2,2,1,1>>, <<1,0,1,0>>, ClsMid \cup {"pvA"}, {"A"}, D0) }
C(f, h, b) == [fn |-> f, h |-> h, b |-> b]
TheCalls == << C("VC", 3, "A"), C("VFC", 3, "A"), C("VC", 3, "B"), C("VFC", 3, "B"),
               C("VC", 4, "A"), C("VFC", 4, "A"), C("VC", 0, "A"), C("VC", 3, "nil") >>
=============================================================================
