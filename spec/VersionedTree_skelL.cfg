CONSTANTS
  NK = 700
  NV = 3
  MaxVer = 12
  MaxLen = 26
  NR = 2
  Impl = "bptree"
  SmallTree = FALSE
  Opts <- Opts2
  Reads = TRUE
  BadArgs = FALSE
  SvAlways = FALSE
  Quiet = FALSE
  FillSizes <- FillBig
  Scripts <- NoScripts
INIT Init
NEXT NextSkelF
VIEW View
INVARIANTS TypeOK Contig WorkingRetained ReadersRetained CleanIsSaved NotRetainedIsBlank HkFunctional
PROPERTIES SavedImmutable PruneKeepsRetained OnlyNext SessionDrop
INVARIANT EmitAtEnd
