---------------------------- MODULE CommitVerify ----------------------------
(* C36. Transcription of tm2/pkg/bft/types: Commit.ValidateBasic (block.go:555),
   ValidatorSet.VerifyCommit (validator_set.go:632) and VerifyFutureCommit (:704), with the
   code's order of checks, plus the property stated independently (set-based) as invariants.

   A behaviour = one commit shape put through the fixed sequence Calls of
   VerifyCommit / VerifyFutureCommit calls (hist = the Build record + one record per call). TLC enumerates every shape
   (every vector of entry classes over every validator-set pair of the cfg's Plans), checks
   Sound/Complete on each, and emits the behaviour; the driver builds the commit with
   real ed25519 signatures and compares accept/reject.

   Validators are keys 1..P of a pool ordered by address; a set is a power vector over
   the pool (0 = not a member), so index order in the real ValidatorSet = pool order.

   Named deviations from a naive reading of the statement (DESIGN 4.3):
   * every PRESENT precommit must carry a signature that verifies, even a stray one for
     another block or for nil: a bad stray signature rejects the whole commit
     (validator_set.go:656, documented "Validate signature" before the block-id test).
   * the signer of entry i is the validator at INDEX i; CommitSig.ValidatorAddress and
     CommitSig.ValidatorIndex are not signed over (CanonicalVote) and not looked at by
     VerifyCommit. VerifyFutureCommit finds the old validator through ValidatorAddress,
     so an entry whose address names somebody else is either not counted for the old
     set or fails the signature test against that old validator.
   * sign bytes are rebuilt from the commit's height/round (first non-nil entry) and
     PrecommitType (block.go:453); ValidateBasic has already forced every entry to
     agree with them.
   * MaxTotalVotingPower keeps total*2 inside int64; "tallied > total*2/3" (Go
     truncating division on non-negatives) is transcribed with \div.            *)
EXTENDS Integers, Sequences, FiniteSets, TLC, Json

CONSTANTS Plans,      \* set of [new, old: power vectors over the pool; cls: entry classes enumerated at every
                      \*   position; cbs: commit.BlockID values; ds: commit length = Size(new) + d, d \in ds]
          Calls,      \* sequence of [fn, h, b]
          H, R        \* nominal height / round of the commit

AllClasses == {"nil", "okA", "okB", "okNil", "badA", "badB", "wsA", "h1A", "r1A", "pvA", "adA", "auA", "ixA", "npB"}

\* what a class means. sgn: 0 = signed by the validator at this index, 1 = by the next pool key.
\* addr: ValidatorAddress field = own | next pool key | unknown address. ixA: ValidatorIndex field off (unsigned, unused).
E(c) ==
  CASE c = "okA"   -> [blk |-> "A",   hd |-> 0, rd |-> 0, typ |-> "pc", corrupt |-> FALSE, sgn |-> 0, addr |-> "own"]
    [] c = "okB"   -> [blk |-> "B",   hd |-> 0, rd |-> 0, typ |-> "pc", corrupt |-> FALSE, sgn |-> 0, addr |-> "own"]
    [] c = "okNil" -> [blk |-> "nil", hd |-> 0, rd |-> 0, typ |-> "pc", corrupt |-> FALSE, sgn |-> 0, addr |-> "own"]
    [] c = "badA"  -> [blk |-> "A",   hd |-> 0, rd |-> 0, typ |-> "pc", corrupt |-> TRUE,  sgn |-> 0, addr |-> "own"]
    [] c = "badB"  -> [blk |-> "B",   hd |-> 0, rd |-> 0, typ |-> "pc", corrupt |-> TRUE,  sgn |-> 0, addr |-> "own"]
    [] c = "wsA"   -> [blk |-> "A",   hd |-> 0, rd |-> 0, typ |-> "pc", corrupt |-> FALSE, sgn |-> 1, addr |-> "own"]
    [] c = "h1A"   -> [blk |-> "A",   hd |-> 1, rd |-> 0, typ |-> "pc", corrupt |-> FALSE, sgn |-> 0, addr |-> "own"]
    [] c = "r1A"   -> [blk |-> "A",   hd |-> 0, rd |-> 1, typ |-> "pc", corrupt |-> FALSE, sgn |-> 0, addr |-> "own"]
    [] c = "pvA"   -> [blk |-> "A",   hd |-> 0, rd |-> 0, typ |-> "pv", corrupt |-> FALSE, sgn |-> 0, addr |-> "own"]
    [] c = "adA"   -> [blk |-> "A",   hd |-> 0, rd |-> 0, typ |-> "pc", corrupt |-> FALSE, sgn |-> 0, addr |-> "next"]
    [] c = "auA"   -> [blk |-> "A",   hd |-> 0, rd |-> 0, typ |-> "pc", corrupt |-> FALSE, sgn |-> 0, addr |-> "unknown"]
    [] c = "ixA"   -> [blk |-> "A",   hd |-> 0, rd |-> 0, typ |-> "pc", corrupt |-> FALSE, sgn |-> 0, addr |-> "own"]
    \* npB: stray precommit whose block id is malformed (PartSetHeader.Total = -1): nobody can have signed
    \* it (SignBytes is undefined for it), so its signature cannot verify -> the commit must be REJECTED
    [] c = "npB"   -> [blk |-> "B",   hd |-> 0, rd |-> 0, typ |-> "pc", corrupt |-> TRUE,  sgn |-> 0, addr |-> "own"]

P == Len((CHOOSE s \in Plans : TRUE).new)

RECURSIVE KeysFrom(_, _)
KeysFrom(pw, k) == IF k > Len(pw) THEN <<>> ELSE (IF pw[k] > 0 THEN <<k>> ELSE <<>>) \o KeysFrom(pw, k + 1)
Keys(pw) == KeysFrom(pw, 1)               \* members in index order
RECURSIVE SumFrom(_, _)
SumFrom(pw, k) == IF k > Len(pw) THEN 0 ELSE pw[k] + SumFrom(pw, k + 1)
Total(pw) == SumFrom(pw, 1)
RECURSIVE PowerOf(_, _)
PowerOf(pw, S) == IF S = {} THEN 0 ELSE LET x == CHOOSE y \in S : TRUE IN pw[x] + PowerOf(pw, S \ {x})
NextKey(k) == (k % P) + 1

VARIABLES commit,   \* [built, new, old, cbid, ents] + memoised keys / n / ch / cr (functions of the former)
          pc,       \* index of the next call
          hist
vars == <<commit, pc>>

NoCommit == [built |-> FALSE, new |-> <<>>, old |-> <<>>, cbid |-> "nil", ents |-> <<>>, keys |-> <<>>, n |-> 0, ch |-> 0, cr |-> 0]

\* ------------------------------------------------------------- derived from a commit
PresentIn(ents) == {i \in 1..Len(ents) : ents[i] # "nil"}
FirstIn(ents) == IF PresentIn(ents) = {} THEN 0 ELSE CHOOSE i \in PresentIn(ents) : \A j \in PresentIn(ents) : i <= j
\* memoizeHeightRound: height / round of the first non-nil precommit, 0 when there is none
HeightOf(ents) == IF FirstIn(ents) = 0 THEN 0 ELSE H + E(ents[FirstIn(ents)]).hd
RoundOf(ents)  == IF FirstIn(ents) = 0 THEN 0 ELSE R + E(ents[FirstIn(ents)]).rd
N(c) == c.n
Present(c) == PresentIn(c.ents)
CHeight(c) == c.ch
CRound(c) == c.cr
\* the validator at index i (i <= N(c); beyond that the driver uses a spare key: 0 here)
PosKey(c, i) == IF i <= c.n THEN c.keys[i] ELSE 0
\* the key that actually produced the signature of entry i
Signer(c, i) == IF i > c.n THEN 0 ELSE IF E(c.ents[i]).sgn = 0 THEN c.keys[i] ELSE NextKey(c.keys[i])
AddrKey(c, i) == LET a == E(c.ents[i]).addr IN
                 IF i > c.n \/ a = "unknown" THEN 0 ELSE IF a = "own" THEN c.keys[i] ELSE NextKey(c.keys[i])
\* does the signature of entry i verify under `key` for the sign bytes VoteSignBytes rebuilds?
\* (signed over its own type/height/round; rebuilt with PrecommitType / commit height / round)
SigValid(c, i, key) == LET e == E(c.ents[i]) IN
   /\ ~e.corrupt /\ key # 0 /\ Signer(c, i) = key
   /\ e.typ = "pc" /\ H + e.hd = c.ch /\ R + e.rd = c.cr

\* ------------------------------------------------------------- transcription of the code
ValidateBasic(c) ==
  IF c.cbid = "nil" /\ Len(c.ents) = 0 THEN "ok"          \* genesis shape
  ELSE IF c.cbid = "nil" THEN "nilblock"
  ELSE IF Len(c.ents) = 0 THEN "noprecommits"
  ELSE IF \E i \in Present(c) : E(c.ents[i]).typ # "pc" \/ H + E(c.ents[i]).hd # CHeight(c) \/ R + E(c.ents[i]).rd # CRound(c)
       THEN "malformed" ELSE "ok"

Tally(c, b) == PowerOf(c.new, {PosKey(c, i) : i \in {j \in Present(c) : E(c.ents[j]).blk = b}})

VerifyCommit(c, h, b) ==
  LET vb == ValidateBasic(c) IN
  IF vb # "ok" THEN vb
  ELSE IF N(c) # Len(c.ents) THEN "size"
  ELSE IF h # CHeight(c) THEN "height"
  ELSE IF b # c.cbid THEN "blockid"
  ELSE IF \E i \in Present(c) : ~SigValid(c, i, PosKey(c, i)) THEN "sig"
  ELSE IF Tally(c, b) > (Total(c.new) * 2) \div 3 THEN "accept" ELSE "power"

\* the loop of VerifyFutureCommit over the precommits, in index order, with `seen`
RECURSIVE OldLoop(_, _, _, _, _)
OldLoop(c, b, i, seen, acc) ==
  IF i > Len(c.ents) THEN [err |-> FALSE, pw |-> acc]
  ELSE IF c.ents[i] = "nil" THEN OldLoop(c, b, i + 1, seen, acc)
  ELSE LET ak == AddrKey(c, i) IN
       IF ak = 0 \/ c.old[ak] = 0 \/ ak \in seen THEN OldLoop(c, b, i + 1, seen, acc)   \* missing or double vote
       ELSE IF ~SigValid(c, i, ak) THEN [err |-> TRUE, pw |-> acc]
       ELSE OldLoop(c, b, i + 1, seen \cup {ak}, acc + (IF E(c.ents[i]).blk = b THEN c.old[ak] ELSE 0))

VerifyFutureCommit(c, h, b) ==
  LET vc == VerifyCommit(c, h, b) IN
  IF vc # "accept" THEN vc
  ELSE LET r == OldLoop(c, b, 1, {}, 0) IN
       IF r.err THEN "oldsig"
       ELSE IF r.pw <= (Total(c.old) * 2) \div 3 THEN "oldpower" ELSE "accept"

Reply(c, call) == IF call.fn = "VC" THEN VerifyCommit(c, call.h, call.b) ELSE VerifyFutureCommit(c, call.h, call.b)

\* ------------------------------------------------------------- the machine
RECURSIVE SeqsOver(_, _)
SeqsOver(S, n) == IF n = 0 THEN {<<>>} ELSE {Append(s, x) : s \in SeqsOver(S, n - 1), x \in S}

Init == commit = NoCommit /\ pc = 0 /\ hist = <<>>

CallRec(c, call) == LET r == Reply(c, call) IN
   [act |-> call.fn, h |-> call.h, b |-> call.b, reply |-> IF r = "accept" THEN "accept" ELSE "reject", why |-> r]

\* One step = build one commit shape and put it through the whole sequence Calls (the calls are
\* reads: VerifyCommit / VerifyFutureCommit do not change the commit, apart from memoising its
\* height and round, which are functions of the entries), so one state per shape.
Check(s, cb, ents) ==
  LET c == [built |-> TRUE, new |-> s.new, old |-> s.old, cbid |-> cb, ents |-> ents,
            keys |-> Keys(s.new), n |-> Len(Keys(s.new)), ch |-> HeightOf(ents), cr |-> RoundOf(ents)] IN
  /\ commit' = c
  /\ pc' = Len(Calls) + 1
  /\ hist' = <<[act |-> "Build", new |-> s.new, old |-> s.old, cbid |-> cb, ents |-> ents]>>
             \o [k \in 1..Len(Calls) |-> CallRec(c, Calls[k])]

Next == /\ ~commit.built          \* (guard first: TLC would otherwise enumerate the shapes in every state)
        /\ \E s \in Plans : \E cb \in s.cbs, d \in s.ds :
             /\ Len(Keys(s.new)) + d >= 0
             /\ \E ents \in SeqsOver(s.cls, Len(Keys(s.new)) + d) : Check(s, cb, ents)

Spec == Init /\ [][Next]_<<vars, hist>>
View == vars

\* ------------------------------------------------------------- the property (C36), set-based
\* validators of the (new) set whose precommit for b carries a signature that verifies
GoodNew(c, b) == {PosKey(c, i) : i \in {j \in Present(c) : j <= N(c) /\ E(c.ents[j]).blk = b /\ SigValid(c, j, PosKey(c, j))}}
\* old validators (distinct) that validly signed a precommit for b contained in the commit
GoodOld(c, b) == {k \in 1..P : c.old[k] > 0 /\ \E i \in Present(c) : E(c.ents[i]).blk = b /\ SigValid(c, i, k)}
WellFormed(c, h) ==
  /\ c.cbid # "nil" /\ Len(c.ents) = N(c) /\ Len(c.ents) > 0
  /\ \A i \in Present(c) : E(c.ents[i]).typ = "pc" /\ H + E(c.ents[i]).hd = h /\ R + E(c.ents[i]).rd = CRound(c)
AllPresentVerify(c) == \A i \in Present(c) : SigValid(c, i, PosKey(c, i))
OwnAddresses(c) == \A i \in Present(c) : E(c.ents[i]).addr = "own"
Quorum(pw, S) == 3 * PowerOf(pw, S) > 2 * Total(pw)

\* evaluated on the replies recorded in hist (hist[k + 1] is the record of Calls[k])
Sound == commit.built => \A k \in 1..Len(Calls) : LET call == Calls[k] IN
   hist[k + 1].why = "accept" =>
       /\ WellFormed(commit, call.h) /\ call.b = commit.cbid
       /\ Quorum(commit.new, GoodNew(commit, call.b))
       /\ (call.fn = "VFC" => Quorum(commit.old, GoodOld(commit, call.b)))
Complete == commit.built => \A k \in 1..Len(Calls) : LET call == Calls[k] IN
   ( /\ WellFormed(commit, call.h) /\ call.b = commit.cbid /\ AllPresentVerify(commit)
     /\ Quorum(commit.new, GoodNew(commit, call.b))
     /\ (call.fn = "VFC" => OwnAddresses(commit) /\ Quorum(commit.old, GoodOld(commit, call.b))) )
   => hist[k + 1].why = "accept"
TypeOK == pc \in {0, Len(Calls) + 1} /\ (commit.built => Len(hist) = Len(Calls) + 1)

Emit == PrintT(<<"TRACE", ToJson(hist)>>)
EmitAtEnd == pc <= Len(Calls) \/ Emit
=============================================================================
