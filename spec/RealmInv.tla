------------------------------ MODULE RealmInv ------------------------------
(* C06 - the statement itself, over an arbitrary persisted object graph.

   The graph is given by operator parameters so that the SAME definitions are evaluated
     (a) by TLC on the abstract persisted graph of Realm.tla after every finalisation, and
     (b) by TLC on every graph dumped from the REAL committed base store (RealmDump.tla).

     Ids        set of persisted object ids
     Counted    ids whose clauses are evaluated (objects of realm packages all of whose possible
                referrers are in Ids)
     RootIds    where reachability starts (the PackageValues; in a partial dump also the code
                objects kept only as owners / referrers of the data objects)
     IsPkg(o)   o is a PackageValue (root convention: RefCount 1, no persisted referrer)
     Rc(o), Owner(o) (NoId when none), Esc(o), HashOK(o)
     Cnt(p, o)  number of references from p's stored bytes to o
     InDeg(o)   number of references to o from all objects of Ids (= sum of Cnt(p, o); supplied by
                the instantiating module so that it can be computed once per graph)
     Out(p)     set of ids p refers to (possibly outside Ids)
     Ext        ids outside Ids that exist in the store (immutable packages etc.)

   Calibration facts of DESIGN 6.C (each measured on the unchanged tree):
     * a PackageValue has RefCount 1 and no referrer;
     * an object whose count dropped from >= 2 back to 1 stays escaped with no owner
       ("forever escaped") - hence "owner <=> count = 1 and NOT escaped";
     * package block <-> file block form an escaped cycle;
     * an unreachable cycle stays persisted (reference counting) - the statement exempts it. *)
EXTENDS Integers, FiniteSets

CONSTANTS Ids, Counted, RootIds, NoId, Ext,
          IsPkg(_), Rc(_), Owner(_), Esc(_), HashOK(_), Cnt(_, _), InDeg(_), Out(_),
          NewTime(_), PkgTime(_)    \* NewTime of the object's id; the PERSISTED id counter (Realm.Time) of its realm

\* ---- the five clauses, per object (so that a failing object can be named) ----
RefCountOK(o) == IF IsPkg(o) THEN Rc(o) = 1 /\ InDeg(o) = 0
                 ELSE Rc(o) = InDeg(o)

\* owner recorded exactly when singly referenced and never escaped ...
OwnerRecordedOK(o) == IsPkg(o) \/ ((Owner(o) # NoId) <=> (Rc(o) = 1 /\ ~Esc(o)))
\* ... and that owner holds the reference
OwnerHoldsOK(o) == IsPkg(o) \/ Owner(o) = NoId \/ (Owner(o) \in Ids /\ Cnt(Owner(o), o) > 0)
\* shared objects are escaped (their hash lives in the escaped index, not in a parent)
SharedEscapedOK(o) == IsPkg(o) \/ Rc(o) < 2 \/ Esc(o)

NoDanglingOK(o) == Out(o) \subseteq (Ids \cup Ext)
HashOKAt(o) == HashOK(o)
\* ids are never reused: the persisted counter of the realm is not behind any persisted id
IdCounterOK(o) == NewTime(o) <= PkgTime(o)

\* reachability from the packages
RECURSIVE Closure(_)
Closure(S) == LET T == S \cup (UNION {Out(p) : p \in S} \cap Ids)
              IN IF T = S THEN S ELSE Closure(T)
Reachable == Closure(RootIds)
\* an unreachable object is tolerated only when reference counting keeps it alive through a
\* cycle: inside the unreachable part every object still has a referrer
ReachOKIn(o, R) == o \in R \/ \E p \in Ids \ R : Cnt(p, o) > 0
ReachOK(o) == ReachOKIn(o, Reachable)

\* ---- the invariants ----
RefCountExact == \A o \in Counted : RefCountOK(o)
OwnerIffSingle == \A o \in Counted : OwnerRecordedOK(o) /\ OwnerHoldsOK(o) /\ SharedEscapedOK(o)
NoDangling == \A o \in Ids : NoDanglingOK(o)
HashMatches == \A o \in Ids : HashOKAt(o)
IdCounter == \A o \in Ids : IdCounterOK(o)
ReachableUnlessCyclic == LET R == Reachable IN \A o \in Counted : ReachOKIn(o, R)

\* names of the clauses an object fails (for reporting on dumped real graphs); R = Reachable,
\* computed once per graph by the caller
Fails(o, R) ==
  (IF o \in Counted /\ ~RefCountOK(o) THEN {"RefCountExact"} ELSE {}) \cup
  (IF o \in Counted /\ ~OwnerRecordedOK(o) THEN {"OwnerIffSingle:recorded"} ELSE {}) \cup
  (IF o \in Counted /\ OwnerRecordedOK(o) /\ ~OwnerHoldsOK(o) THEN {"OwnerIffSingle:owner-not-the-referrer"} ELSE {}) \cup
  (IF o \in Counted /\ ~SharedEscapedOK(o) THEN {"OwnerIffSingle:shared-not-escaped"} ELSE {}) \cup
  (IF ~NoDanglingOK(o) THEN {"NoDangling"} ELSE {}) \cup
  (IF ~HashOKAt(o) THEN {"HashMatches"} ELSE {}) \cup
  (IF ~IdCounterOK(o) THEN {"IdCounterBehind"} ELSE {}) \cup
  (IF o \in Counted /\ ~ReachOKIn(o, R) THEN {"ReachableUnlessCyclic"} ELSE {})
=============================================================================
