CONSTANTS
  Regs <- NoRegs
  CRegs <- C2
  Sizes <- SzCompact
  SmallMax = 3
  Mode = "free"
  Laws = FALSE
  NewUntil = 5
  MaxLen = 5
INIT Init
NEXT Next
VIEW View
INVARIANTS TypeOK LawsHold
ACTION_CONSTRAINT EmitEdge
