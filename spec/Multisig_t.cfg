CONSTANTS
  NK <- NKt
  Extras <- ExtrasT
  MaxNel = 2
  MaxLen = 7
INIT Init
NEXT Next
VIEW View
INVARIANTS TypeOK AlgoIsProperty HonestExact NoForgery MarkedAllValid

