--------------------------- MODULE StorageDeposit ---------------------------
(* C09 - Realm storage usage and deposits are accounted exactly.

   One action per VM message (MsgAddPackage / MsgCall / MsgRun), structured like
   gno.land/pkg/sdk/vm/keeper.go processStorageDeposit (lines 1795-1927):
     - the per-realm byte deltas of the message are the action's ARGUMENTS: `od` = delta of the
       objects stored under the realm's PkgID (gnostore.RealmStorageDiffs), `pd` = delta of the
       realm's own chain/params entries (ParamsRealmDiffs); what is charged / refunded for a
       realm is their SUM od[r] + pd[r] (both may be non-zero in one message, with either sign);
     - the price and the default limit are the values in effect when the message STARTED
       (params are read before the message runs; a price written by the message itself only
       applies to later messages);
     - realms are processed in sorted path order (RealmOrder); a positive delta locks
       delta * price from the caller at the realm's storage-deposit address and fails when the
       remaining limit is smaller (the loop goes on, the message fails at the end); a negative
       delta refunds ALL of the deposit when all storage is released, else
       TruncDiv(deposit * released, storage) (big.Int Div of non-negative operands),
       to the caller, or to the storage-fee collector while ugnot is a restricted denom;
     - a failed message leaves no effect at all (the transaction is rolled back; the caller
       still pays the gas fee).
   Named deviation from a naive reading: the limit applies to the SUM over realms in sorted
   order, and a refund of an earlier (sorted) realm does not replenish it.

   Invariants = the statement: DepositBacked, NonNegative, FreeAllRefundsAll; the clauses
   "charged at the price in effect when the message started" and "a too small limit fails" are
   the definition of Process below and are checked against the real application by trace
   validation (StorageDepositTrace.tla), where additionally Realm.Storage = bytes on disk.  *)
EXTENDS Integers, Sequences, FiniteSets, TLC

CONSTANTS Realms,       \* set of realm names
          RealmOrder,   \* sequence of all realms in sorted path order
          Accounts,     \* callers
          Collector,    \* storage fee collector (an address that is not a caller)
          DefaultLimit  \* params.DefaultDeposit

VARIABLES storage, deposit,   \* per realm: Realm.Storage, Realm.Deposit
          dbal,               \* per realm: balance of the storage-deposit address
          bal,                \* per account (and Collector)
          price, restricted,
          objb, parb,         \* per realm: bytes of its objects / of its chain/params entries in the store
          hist

svars == <<storage, deposit, dbal, bal, price, restricted, objb, parb>>
vars == <<svars, hist>>
view == <<svars, Len(hist)>>

\* Go: big.Int Div on non-negative operands = truncating division. Written so that no
\* intermediate value exceeds c*c (TLC integers are 32-bit): (a*b) div c for b <= c.
MulDiv(a, b, c) == (a \div c) * b + ((a % c) * b) \div c

Holders == Accounts \cup {Collector}

\* state threaded through the sorted-realm loop
\* (the ante handler has already taken the gas fee when the message runs)
St0(caller, limit, fee) == [storage |-> storage, deposit |-> deposit, dbal |-> dbal,
                            bal |-> [bal EXCEPT ![caller] = @ - fee],
                            limit |-> limit, err |-> FALSE, panic |-> FALSE]

Lock(s, r, caller, d, p) ==
  LET req == d * p IN
  IF s.limit < req THEN [s EXCEPT !.err = TRUE]                       \* "not enough deposit to cover the storage usage"
  ELSE IF s.bal[caller] < req THEN [s EXCEPT !.err = TRUE]            \* lockStorageDeposit: transfer fails
  ELSE [s EXCEPT !.bal[caller] = @ - req, !.dbal[r] = @ + req,
                 !.deposit[r] = @ + req, !.storage[r] = @ + d, !.limit = @ - req]

Refund(s, r, caller, released, restr) ==
  IF s.storage[r] < released THEN [s EXCEPT !.panic = TRUE]           \* "not enough storage to be released"
  ELSE LET unl == IF s.storage[r] = released THEN s.deposit[r]
                  ELSE MulDiv(s.deposit[r], released, s.storage[r])
           recv == IF restr THEN Collector ELSE caller
       IN IF s.dbal[r] < unl THEN [s EXCEPT !.panic = TRUE]           \* refundStorageDeposit: transfer fails -> return err
          ELSE [s EXCEPT !.dbal[r] = @ - unl, !.bal[recv] = @ + unl,
                         !.deposit[r] = @ - unl, !.storage[r] = @ - released]

RECURSIVE Loop(_, _, _, _, _, _)
Loop(s, i, caller, diffs, p, restr) ==
  IF i > Len(RealmOrder) \/ s.panic THEN s
  ELSE LET r == RealmOrder[i]
           d == diffs[r]
       IN Loop(IF d = 0 THEN s
               ELSE IF d > 0 THEN Lock(s, r, caller, d, p)
               ELSE Refund(s, r, caller, 0 - d, restr),
               i + 1, caller, diffs, p, restr)

Process(caller, limit, fee, diffs) == Loop(St0(caller, limit, fee), 1, caller, diffs, price, restricted)
Limit(maxDeposit) == IF maxDeposit = 0 THEN DefaultLimit ELSE maxDeposit
MsgOK(caller, maxDeposit, fee, diffs) == LET s == Process(caller, Limit(maxDeposit), fee, diffs) IN ~s.err /\ ~s.panic

\* the delta the keeper works with: object delta + chain/params delta of the same realm
Sum(od, pd) == [r \in Realms |-> od[r] + pd[r]]

\* A message: maxDeposit = 0 means params.DefaultDeposit. newPrice / newRestr = what the message
\* itself wrote through the params keeper (applies after the message). fee = gas fee of the tx.
Msg(caller, maxDeposit, fee, od, pd, newPrice, newRestr) ==
  LET diffs == Sum(od, pd)
      s == Process(caller, Limit(maxDeposit), fee, diffs)
      ok == ~s.err /\ ~s.panic
  IN /\ bal[caller] >= fee
     /\ IF ok
        THEN /\ storage' = s.storage /\ deposit' = s.deposit /\ dbal' = s.dbal
             /\ bal' = s.bal
             /\ price' = newPrice /\ restricted' = newRestr
             /\ objb' = [r \in Realms |-> objb[r] + od[r]] /\ parb' = [r \in Realms |-> parb[r] + pd[r]]
        ELSE /\ bal' = [bal EXCEPT ![caller] = @ - fee]
             /\ UNCHANGED <<storage, deposit, dbal, price, restricted, objb, parb>>

\* ------------------------------------------------------------------ invariants (the statement)
DepositBacked == \A r \in Realms : dbal[r] >= deposit[r]
NonNegative == /\ \A r \in Realms : storage[r] >= 0 /\ deposit[r] >= 0 /\ dbal[r] >= 0
               /\ \A a \in Holders : bal[a] >= 0
FreeAllRefundsAll == \A r \in Realms : storage[r] = 0 => deposit[r] = 0
\* the recorded usage is the size of the realm's objects plus the bytes of its chain parameters
StorageIsSum == \A r \in Realms : storage[r] = objb[r] + parb[r]
\* nothing is created or destroyed by lock / refund (fees leave through `fee`)
RECURSIVE SumF(_, _)
SumF(f, X) == IF X = {} THEN 0 ELSE LET x == CHOOSE y \in X : TRUE IN f[x] + SumF(f, X \ {x})
Total == SumF(dbal, Realms) + SumF(bal, Holders)

\* ------------------------------------------------------------------ bounded model (M)
CONSTANTS DiffVals, ParamVals, PriceVals, LimitVals, MaxLen, InitBal
Init ==
  /\ storage = [r \in Realms |-> 0] /\ deposit = [r \in Realms |-> 0] /\ dbal = [r \in Realms |-> 0]
  /\ bal = [a \in Holders |-> IF a = Collector THEN 0 ELSE InitBal]
  /\ objb = [r \in Realms |-> 0] /\ parb = [r \in Realms |-> 0]
  /\ price = 1 /\ restricted = FALSE /\ hist = <<>>

Next ==
  /\ Len(hist) < MaxLen
  /\ \E c \in Accounts, m \in LimitVals, od \in [Realms -> DiffVals], rp \in Realms, pv \in ParamVals,
        np \in PriceVals, nr \in BOOLEAN :
       LET pd == [r \in Realms |-> IF r = rp THEN pv ELSE 0]       \* one realm writes its params per message
           df == Sum(od, pd)
       IN
       /\ (np = price \/ nr = restricted)                 \* one parameter change per message at most
       /\ \A r \in Realms : objb[r] + od[r] >= 0 /\ parb[r] + pd[r] >= 0   \* bytes on disk are not negative
       /\ Msg(c, m, 0, od, pd, np, nr)
       /\ hist' = Append(hist, [act |-> "Msg", caller |-> c, limit |-> m, diffs |-> df, ok |-> MsgOK(c, m, 0, df),
                                price |-> price'])
Spec == Init /\ [][Next]_vars

\* action properties of the statement, checked on every transition of the bounded model
\* (history-free: they compare the two states of a step through the last hist record)
Last == hist'[Len(hist')]
TooSmallLimitFails ==
  [][ \A r \in Realms :
        (Last.diffs[r] > 0 /\ Last.diffs[r] * price > (IF Last.limit = 0 THEN DefaultLimit ELSE Last.limit))
          => (~Last.ok /\ UNCHANGED <<storage, deposit, dbal>>) ]_vars
\* (literally: the FIRST realm in sorted order whose requirement exceeds what is left of the limit;
\*  the per-realm test above is its consequence for any realm that alone exceeds the whole limit)
ChargedAtMsgStartPrice ==
  [][ Last.ok => \A r \in Realms :
        Last.diffs[r] > 0 => deposit'[r] - deposit[r] = Last.diffs[r] * price ]_vars     \* price = the OLD price
Conserved == [][Total' = Total]_vars
=============================================================================
