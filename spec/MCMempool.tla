---------------------------- MODULE MCMempool ----------------------------
EXTENDS Mempool
\* two txs: a (2 bytes, gas 1), b (1 byte, gas 2)
T2 == {"a", "b"}
Size2 == [t \in T2 |-> IF t = "a" THEN 2 ELSE 1]
Gas2 == [t \in T2 |-> IF t = "a" THEN 1 ELSE 2]
\* three txs: a (3 bytes, gas 1), b (1 byte, gas 2), c (2 bytes, gas 1)
T3 == {"a", "b", "c"}
Size3 == [t \in T3 |-> CASE t = "a" -> 3 [] t = "b" -> 1 [] OTHER -> 2]
Gas3 == [t \in T3 |-> CASE t = "a" -> 1 [] t = "b" -> 2 [] OTHER -> 1]
\* four txs: a (3,1) b (1,2) c (2,1) d (2,3)
T4 == {"a", "b", "c", "d"}
Size4 == [t \in T4 |-> CASE t = "a" -> 3 [] t = "b" -> 1 [] OTHER -> 2]
Gas4 == [t \in T4 |-> CASE t = "a" -> 1 [] t = "b" -> 2 [] t = "c" -> 1 [] OTHER -> 3]
MaxTx012 == {0, 1, 2}
MaxTx023 == {0, 2, 3}
MaxTx0 == {0}
BanKeep == {KeepBan}
BanB == {KeepBan, {}, {"b"}}
BanC == {KeepBan, {}, {"c"}}
Reap12 == {-1, 1, 2}
Reap123 == {-1, 1, 2, 3}
Reap135 == {-1, 1, 3, 5}
Reap024 == {-1, 0, 2, 4}
=============================================================================
