CONSTANTS
  Users <- TUsers
  Others <- TOthers
  Vars <- TVars
  GasNeeds = {}
  FlushFirst = TRUE
  CompareState = TRUE
INIT TraceInit
NEXT TraceNext
CONSTRAINT HighWater
POSTCONDITION Accepted
CHECK_DEADLOCK FALSE
