-------------------------------- MODULE Realm --------------------------------
(* C06 - Persisted object graph stays consistent after every transaction.

   TWO LAYERS.
   (1) Declarative layer (the oracle; operators Kept, DRc, DEsc, DOwn below): given the
       persisted graph before a transaction and the in-memory reference graph at its end,
         kept set  = what reference counting keeps: among the previously persisted objects and
                     the new objects attached to them, the greatest set in which every object
                     still has a kept referrer (so unreachable cycles stay),
         rc        = number of references from kept objects,
         escaped'  = escaped \/ rc >= 2 at the finalisation,
         owner     = the single referrer of a never-escaped object, none otherwise.
   (2) Algorithm layer: gnovm/pkg/gnolang/realm.go transcribed one-to-one -
         DidUpdate (lines 274-395)           -> DidUpdate
         MarkDirty/NewReal/NewDeleted/NewEscaped -> Mark*
         FinalizeRealmTransaction            -> Finalize = PNC ; PND ; PNE ; MDA ; Save ; Remove ; Clear
         processNewCreatedMarks / incRefCreatedDescendants -> PNC / IncRef
         processNewDeletedMarks / decRefDeletedDescendants -> PND / DecRef
         processNewEscapedMarks (incl. the "passed from caller" branch) -> PNE
         markDirtyAncestors                  -> MDA
         saveUnsavedObjects / saveUnsavedObjectRecursively / saveObject -> Save / SaveRec / SaveObj
         removeDeletedObjects, clearMarks    -> Remove, Clear
       with per-realm mark lists, so that a second realm finalising in the middle of the
       first realm's transaction (objects created in one frame and attached under the other)
       is the same code with another list.
   TLC checks, after every transaction, that the algorithm layer produces exactly the
   declarative graph (Refines) and that the statement's invariants (RealmInv.tla, the same
   definitions that are evaluated on graphs dumped from the real store) hold.

   A node of the model is one Gno `*node.Node` (HeapItemValue + StructValue pair of the real
   store); root objects are the package-level variables' holders (HeapItemValue of `Root`,
   the array of `Slots`).

   NAMED DEVIATION (OwnerFix). The property says the recorded owner holds the reference.
   realm.go as pinned does not re-point the owner when an object's count goes 1 -> 2 -> 1 or
   1 -> 0 -> 1 inside one transaction and the remaining referrer is not the recorded owner
   (reproduced on the real code: key C06:OwnerIffSingle:owner-not-the-referrer). The spec
   keeps the property: with OwnerFix = TRUE the two places set the owner to the referrer
   that is left; OwnerFix = FALSE is the code as pinned and is used only to show that TLC
   then reports OwnerIffSingle (Realm_bug.cfg).                                            *)
EXTENDS Integers, Sequences, FiniteSets, TLC, Json

CONSTANTS Nodes,       \* 1..N
          RootObjs,    \* integers >= 100, permanent real objects holding the package variables
          RootPkg,     \* [RootObjs -> Realms]
          RootSlots,   \* [RootObjs -> SUBSET {1,2}] usable slots of a root object
          Realms,      \* {1} or {1,2}; realm 1 receives the transaction (MsgCall Apply)
          MaxOps, MaxTx,
          MaxOps1,     \* bound on the operations of the FIRST transaction (= MaxOps except in directed configurations)
          OwnerFix,    \* TRUE: property behaviour; FALSE: realm.go as pinned
          AttachGuard, \* TRUE: attaching (to) an object deleted earlier in the transaction panics; FALSE: as pinned
          SaveGuard,   \* TRUE: the recursive save stops at an object already being saved; FALSE: as pinned
          ObjSeq,      \* all objects in a fixed order (for the JSON projection)
          HandMode,    \* TRUE: behaviours are steered through the hand-over situation (see Leave)
          Bias,        \* TRUE: pointless steps are pruned (simulation)
          Quiet        \* TRUE: hist is not maintained (pure model checking)

Nil == 0
K == {1, 2}
Obj == Nodes \cup RootObjs

VARIABLES S,       \* the VM/store state threaded through the transcribed code (record, below)
          frame,   \* realm whose code is running
          nops, ntx,
          held,    \* nodes the running program holds a pointer to (register file of the universal realm)
          pre,     \* persisted graph at the start of the transaction
          xr,      \* the transaction entered the second realm (a finalisation in the middle)
          cur,     \* ops of the running transaction
          refok,   \* the last commit produced the declarative graph
          hist

vars == <<S, frame, nops, ntx, held, pre, xr, cur, refok, hist>>
view == <<S, frame, nops, ntx, held, pre, xr, refok>>

NoP == [here |-> FALSE, slot |-> [k \in K |-> Nil], val |-> 0, rc |-> 0, own |-> Nil, esc |-> FALSE, nt |-> 0]
NoL == [nc |-> <<>>, ndl |-> <<>>, nel |-> <<>>, up |-> <<>>]
RootP(o) == [NoP EXCEPT !.here = TRUE, !.rc = 1]

PkgOf(s, o) == IF o \in RootObjs THEN RootPkg[o] ELSE s.pkg[o]

\* -------------------------------------------------------------------- mark* (realm.go 400-492)
MarkDirty(s, r, o) ==
  IF s.dt[o] \/ s.nr[o] THEN s
  ELSE [s EXCEPT !.dt[o] = TRUE, !.L[r].up = Append(@, o)]
MarkNewReal(s, r, o) ==
  IF s.nr[o] THEN s ELSE [s EXCEPT !.nr[o] = TRUE, !.L[r].nc = Append(@, o)]
MarkNewDeleted(s, r, o) ==
  IF s.nd[o] THEN s ELSE [s EXCEPT !.nd[o] = TRUE, !.L[r].ndl = Append(@, o)]
MarkNewEscaped(s, r, o) ==
  IF s.ne[o] THEN s ELSE [s EXCEPT !.ne[o] = TRUE, !.L[r].nel = Append(@, o)]

\* -------------------------------------------------------------------- DidUpdate (274-395)
\* lines 307-317: "cannot attach a deleted object" / "cannot attach to a deleted object" are
\* debugAssert-only in realm.go as pinned (AttachGuard = FALSE); an object deleted by a
\* finalisation in the middle of the transaction can then be re-attached and is never saved again.
DidUpdate(s, r, po, xo, co) ==
  IF ~s.real[po] THEN s
  ELSE IF AttachGuard /\ (s.del[po] \/ (co # Nil /\ s.del[co])) THEN [s EXCEPT !.bad = TRUE]
  ELSE
    LET s1 == MarkDirty(s, r, po)
        s2 == IF co = Nil THEN s1
              ELSE LET a == [s1 EXCEPT !.rc[co] = @ + 1]
                       b == IF a.rc[co] > 1 /\ ~a.esc[co] THEN MarkNewEscaped(a, r, co) ELSE a
                   IN IF b.real[co]
                      THEN MarkDirty(IF OwnerFix /\ b.rc[co] = 1 /\ ~b.esc[co] THEN [b EXCEPT !.own[co] = po] ELSE b, r, co)
                      ELSE MarkNewReal([b EXCEPT !.own[co] = po], r, co)
        s3 == IF xo = Nil THEN s2
              ELSE LET a == [s2 EXCEPT !.rc[xo] = @ - 1]
                   IN IF a.rc[xo] = 0
                      THEN (IF a.real[xo] THEN MarkNewDeleted(a, r, xo) ELSE a)
                      ELSE (IF a.real[xo] THEN MarkDirty(a, r, xo) ELSE a)
    IN s3

\* -------------------------------------------------------------------- processNewCreatedMarks (584-708)
RECURSIVE IncRef(_, _, _), IncChild(_, _, _, _)
IncChild(s, r, oo, k) ==
  LET c == s.slot[oo][k] IN
  IF c = Nil THEN s
  ELSE IF AttachGuard /\ s.del[c] THEN [s EXCEPT !.bad = TRUE]
  ELSE LET a == [s EXCEPT !.rc[c] = @ + 1] IN
       IF a.rc[c] = 1
       THEN IF a.real[c]
            THEN MarkDirty(IF OwnerFix /\ a.esc[c] THEN a ELSE [a EXCEPT !.own[c] = oo], r, c)   \* a deleted real became undeleted
            ELSE IncRef([a EXCEPT !.own[c] = oo, !.nr[c] = TRUE], r, c)
       ELSE LET b == MarkDirty(a, r, c)
            IN IF b.esc[c] THEN b ELSE MarkNewEscaped(b, r, c)
\* assignNewObjectID (1987-2033): the id is minted from the counter (Realm.Time) of the realm whose
\* PkgID the object carries - a FOREIGN realm's counter when the object was allocated by another
\* realm and handed over (touchForeignRealm; persisted by the batch at the end of Finalize).
IncRef(s, r, oo) ==
  IF s.real[oo] THEN s                                               \* recurse guard: id already assigned
  ELSE LET q == PkgOf(s, oo)
           a == [s EXCEPT !.real[oo] = TRUE, !.cr = Append(@, oo),
                          !.time[q] = @ + 1, !.nt[oo] = s.time[q] + 1,
                          !.tch = IF q # r THEN @ \cup {q} ELSE @]
       IN IncChild(IncChild(a, r, oo, 1), r, oo, 2)

RECURSIVE PNC(_, _, _)
PNC(s, r, i) ==
  IF i > Len(s.L[r].nc) THEN s
  ELSE LET oo == s.L[r].nc[i]
       IN PNC(IF s.rc[oo] = 0 THEN s ELSE IncRef(s, r, oo), r, i + 1)

\* -------------------------------------------------------------------- processNewDeletedMarks (718-778)
RECURSIVE DecRef(_, _, _), DecChild(_, _, _, _)
DecChild(s, r, oo, k) ==
  LET c == s.slot[oo][k] IN
  IF c = Nil THEN s
  ELSE LET a == [s EXCEPT !.rc[c] = @ - 1] IN
       IF a.rc[c] = 0 THEN DecRef(a, r, c)
       ELSE IF a.rc[c] > 0 THEN MarkDirty(a, r, c)
       ELSE [a EXCEPT !.bad = TRUE]                                  \* "should not have a reference count of less than zero"
DecRef(s, r, oo) ==
  IF s.del[oo] THEN s
  ELSE DecChild(DecChild([s EXCEPT !.nd[oo] = FALSE, !.nr[oo] = FALSE, !.ne[oo] = FALSE,
                                   !.del[oo] = TRUE, !.dl = Append(@, oo)], r, oo, 1), r, oo, 2)

RECURSIVE PND(_, _, _)
PND(s, r, i) ==
  IF i > Len(s.L[r].ndl) THEN s
  ELSE LET oo == s.L[r].ndl[i]
       IN PND(IF s.rc[oo] > 0 THEN [s EXCEPT !.nd[oo] = FALSE] ELSE DecRef(s, r, oo), r, i + 1)

\* -------------------------------------------------------------------- processNewEscapedMarks (787-845)
\* objects that hold a reference to o and are (or are becoming) persisted
Holders(s, o) == {p \in Obj : (s.real[p] \/ s.nr[p]) /\ ~s.del[p] /\ s.rc[p] > 0 /\ \E k \in K : s.slot[p][k] = o}
Demote(s, eo) ==
  LET a == [s EXCEPT !.ne[eo] = FALSE]
  IN IF OwnerFix /\ a.rc[eo] = 1 /\ a.own[eo] \notin Holders(a, eo) /\ Holders(a, eo) # {}
     THEN [a EXCEPT !.own[eo] = CHOOSE p \in Holders(a, eo) : TRUE]    \* the referrer that is left
     ELSE a

RECURSIVE PNE(_, _, _)
PNE(s, r, i) ==
  IF i > Len(s.L[r].nel) THEN s
  ELSE LET eo == s.L[r].nel[i] IN
       IF s.rc[eo] <= 1 THEN PNE(Demote(s, eo), r, i + 1)
       ELSE LET po == s.own[eo] IN
            IF po = Nil THEN PNE(s, r, i + 1)
            ELSE LET a == IF s.rc[po] = 0 \/ s.nr[po] THEN s ELSE MarkDirty(s, r, po)
                     b == IF ~a.real[eo] THEN [IncRef(a, r, eo) EXCEPT !.nr[eo] = TRUE] ELSE a   \* passed from caller
                 IN PNE([b EXCEPT !.own[eo] = Nil], r, i + 1)

\* -------------------------------------------------------------------- markDirtyAncestors (853-924)
RECURSIVE Anc(_, _, _)
Anc(s, r, oo) ==
  IF oo \in RootObjs \/ s.rc[oo] > 1 THEN s
  ELSE LET po == s.own[oo] IN
       IF po = Nil \/ s.nr[po] \/ s.dt[po] \/ s.del[po] THEN s
       ELSE Anc(MarkDirty(s, r, po), r, po)
RECURSIVE AncList(_, _, _, _)
AncList(s, r, lst, i) ==
  IF i > Len(lst) THEN s
  ELSE AncList(IF s.del[lst[i]] THEN s ELSE Anc(s, r, lst[i]), r, lst, i + 1)
\* `range rlm.updated` iterates the list as it was when the loop started
MDA(s, r) == LET a == AncList(s, r, s.L[r].up, 1) IN AncList(a, r, a.cr, 1)

\* -------------------------------------------------------------------- saveUnsavedObjects (930-1089)
\* toRefValue panics on a child that is not real ("unexpected unreal object")
SaveObj(s, oo) ==
  LET a == IF s.ne[oo] THEN [s EXCEPT !.ne[oo] = FALSE, !.esc[oo] = TRUE] ELSE s
      unreal == \E k \in K : a.slot[oo][k] # Nil /\ ~a.real[a.slot[oo][k]]
  IN [a EXCEPT !.ps[oo] = [here |-> TRUE, slot |-> a.slot[oo], val |-> a.val[oo], rc |-> a.rc[oo],
                            own |-> a.own[oo], esc |-> a.esc[oo], nt |-> a.nt[oo]],
               !.bad = @ \/ unreal]
\* B = objects whose save is in progress further up the stack. realm.go as pinned has no such
\* guard: a new object and a dirty object that refer to each other (both unsaved, neither
\* escaped) make saveUnsavedObjectRecursively recurse for ever (SaveGuard = FALSE -> bad).
RECURSIVE SaveRec(_, _, _), SaveKid(_, _, _, _)
SaveKid(s, oo, k, B) ==
  LET c == s.slot[oo][k] IN
  IF c = Nil \/ ~(s.nr[c] \/ s.dt[c]) \/ s.esc[c] \/ s.ne[c] THEN s ELSE SaveRec(s, c, B)
SaveRec(s, oo, B) ==
  IF oo \in B THEN (IF SaveGuard THEN [s EXCEPT !.loop = TRUE] ELSE [s EXCEPT !.bad = TRUE, !.loop = TRUE])
  ELSE LET a == SaveKid(SaveKid(s, oo, 1, B \cup {oo}), oo, 2, B \cup {oo})
       IN IF a.bad THEN a
          ELSE LET b == SaveObj(a, oo)
               IN IF b.nr[oo] THEN [b EXCEPT !.nr[oo] = FALSE] ELSE [b EXCEPT !.dt[oo] = FALSE]
RECURSIVE SaveCreated(_, _), SaveUpdated(_, _, _)
SaveCreated(s, i) ==
  IF i > Len(s.cr) THEN s
  ELSE LET co == s.cr[i]
       IN SaveCreated(IF ~s.nr[co] \/ s.del[co] THEN s ELSE SaveRec(s, co, {}), i + 1)
SaveUpdated(s, r, i) ==
  IF i > Len(s.L[r].up) THEN s
  ELSE LET uo == s.L[r].up[i]
       IN SaveUpdated(IF ~s.dt[uo] \/ s.del[uo] THEN s ELSE [SaveObj(s, uo) EXCEPT !.dt[uo] = FALSE], r, i + 1)
Save(s, r) == SaveUpdated(SaveCreated(s, 1), r, 1)

\* -------------------------------------------------------------------- removeDeletedObjects, clearMarks
RECURSIVE Remove(_, _)
Remove(s, i) == IF i > Len(s.dl) THEN s ELSE Remove([s EXCEPT !.ps[s.dl[i]] = NoP], i + 1)
Clear(s, r) == [s EXCEPT !.L[r] = NoL, !.cr = <<>>, !.dl = <<>>]

\* lines 529-573: the realm's own counter is persisted when it advanced (SetPackageRealm after the
\* three mark phases); every touched foreign realm is persisted by the batch at the end.
Finalize(s, r) ==
  LET a == PNE(PND(PNC(s, r, 1), r, 1), r, 1)
      b == IF a.time[r] > s.time[r] THEN [a EXCEPT !.pt[r] = a.time[r]] ELSE a
      c == Clear(Remove(Save(MDA(b, r), r), 1), r)
  IN [c EXCEPT !.pt = [q \in Realms |-> IF q \in c.tch THEN c.time[q] ELSE c.pt[q]], !.tch = {}]

\* -------------------------------------------------------------------- declarative layer
PHere(p) == {o \in Nodes : p[o].here}
\* new objects reachable from T through new objects only
RECURSIVE NewReach(_, _, _)
NewReach(s, T, New) ==
  LET U == T \cup {n \in New : \E p \in T : \E k \in K : s.slot[p][k] = n}
  IN IF U = T THEN T ELSE NewReach(s, U, New)
\* Reference counting on everything that is or became real: the previously persisted objects
\* and the new objects attached (through new objects) to one of them, even to one that dies in
\* this very transaction - a new cycle hanging off a dying object leaks exactly like an old one.
RECURSIVE KeptFix(_, _)
KeptFix(s, X) ==
  LET Y == {o \in X : \E p \in X \cup RootObjs : \E k \in K : s.slot[p][k] = o}
  IN IF Y = X THEN X \cup RootObjs ELSE KeptFix(s, Y)
\* everything persisted after the transaction (roots included)
Kept(s, p0) == LET Old == PHere(p0)
                   Att == NewReach(s, RootObjs \cup Old, Nodes \ Old) \ RootObjs
               IN KeptFix(s, Att)

CntRef(s, p, o) == Cardinality({k \in K : s.slot[p][k] = o})
RECURSIVE SumRefs(_, _, _)
SumRefs(s, P, o) == IF P = {} THEN 0 ELSE LET p == CHOOSE x \in P : TRUE IN CntRef(s, p, o) + SumRefs(s, P \ {p}, o)
DRc(s, Kp, o) == SumRefs(s, Kp, o)
DHolder(s, Kp, o) == CHOOSE p \in Kp : CntRef(s, p, o) > 0

\* the algorithm produced the declarative graph
Refines(s, p0, exactEsc) ==
  LET Kp == Kept(s, p0) IN
  /\ \A r \in RootObjs : s.ps[r].here /\ s.ps[r].slot = s.slot[r]
  /\ \A o \in Nodes :
       /\ s.ps[o].here = (o \in Kp)
       /\ o \in Kp =>
            LET rc == DRc(s, Kp, o) IN
            /\ s.ps[o].slot = s.slot[o] /\ s.ps[o].val = s.val[o]
            /\ s.ps[o].rc = rc
            /\ (p0[o].here /\ p0[o].esc) => s.ps[o].esc
            /\ rc >= 2 => s.ps[o].esc
            /\ exactEsc => (s.ps[o].esc = ((p0[o].here /\ p0[o].esc) \/ rc >= 2))
            /\ s.ps[o].own = (IF ~s.ps[o].esc /\ rc = 1 THEN DHolder(s, Kp, o) ELSE Nil)

\* the statement's invariants on the abstract persisted graph (same module as for real dumps)
PIds == {o \in Obj : S.ps[o].here}
PIsPkg(o) == FALSE
PRc(o) == S.ps[o].rc
POwner(o) == S.ps[o].own
PEsc(o) == S.ps[o].esc
PHashOK(o) == TRUE
PCnt(p, o) == Cardinality({k \in K : S.ps[p].slot[k] = o})
POut(p) == {S.ps[p].slot[k] : k \in K} \ {Nil}
PInDeg(o) == Cardinality({pk \in PIds \X K : S.ps[pk[1]].slot[pk[2]] = o})
PNewTime(o) == S.ps[o].nt
PPkgTime(o) == IF o \in RootObjs THEN 0 ELSE S.pt[S.pkg[o]]
I == INSTANCE RealmInv WITH Ids <- PIds, Counted <- PHere(S.ps), RootIds <- RootObjs, NoId <- Nil, Ext <- {},
       IsPkg <- PIsPkg, Rc <- PRc, Owner <- POwner, Esc <- PEsc, HashOK <- PHashOK, Cnt <- PCnt, InDeg <- PInDeg, Out <- POut,
       NewTime <- PNewTime, PkgTime <- PPkgTime

AtBoundary == nops = 0 /\ frame = 1
RefCountExact == AtBoundary => I!RefCountExact
OwnerIffSingle == AtBoundary => I!OwnerIffSingle
NoDangling == AtBoundary => I!NoDangling
\* in the abstraction roots are not reachable from a PackageValue object; reachability is from RootObjs
RECURSIVE PClosure(_)
PClosure(T) == LET U == T \cup {q \in PIds : \E p \in T : PCnt(p, q) > 0} IN IF U = T THEN T ELSE PClosure(U)
ReachableUnlessCyclic ==
  AtBoundary => LET R == PClosure(RootObjs) IN \A o \in PIds : o \in R \/ \E p \in PIds \ R : PCnt(p, o) > 0
\* object ids are never reused: every persisted object's id is at most the PERSISTED counter of its
\* realm (the next transaction starts from the persisted counter), and no two objects share an id
IdCounter == AtBoundary => (I!IdCounter /\ \A o, p \in PHere(S.ps) :
                              (o # p /\ S.pkg[o] = S.pkg[p]) => S.ps[o].nt # S.ps[p].nt)
NoPanic == ~S.bad        \* single-realm configurations: the transcribed code never panics

\* -------------------------------------------------------------------- the machine
Blank == [slot |-> [o \in Obj |-> [k \in K |-> Nil]],
          val |-> [o \in Obj |-> 0],
          rc |-> [o \in Obj |-> IF o \in RootObjs THEN 1 ELSE 0],
          own |-> [o \in Obj |-> Nil],
          real |-> [o \in Obj |-> o \in RootObjs],
          esc |-> [o \in Obj |-> FALSE],
          nr |-> [o \in Obj |-> FALSE], dt |-> [o \in Obj |-> FALSE], nd |-> [o \in Obj |-> FALSE],
          ne |-> [o \in Obj |-> FALSE], del |-> [o \in Obj |-> FALSE],
          pkg |-> [o \in Nodes |-> 0],
          alive |-> {},
          ps |-> [o \in Obj |-> IF o \in RootObjs THEN RootP(o) ELSE NoP],
          L |-> [r \in Realms |-> NoL],
          time |-> [q \in Realms |-> 0],   \* Realm.Time in memory
          pt |-> [q \in Realms |-> 0],     \* Realm.Time as persisted (oid:<pkg>:1#realm)
          pt0 |-> [q \in Realms |-> 0],    \* ... at the start of the transaction (rollback)
          nt |-> [o \in Obj |-> 0],        \* NewTime of the object id
          tch |-> {},                      \* touchedForeignRealms of the running finalisation
          hand |-> FALSE,                  \* see Leave
          cr |-> <<>>, dl |-> <<>>, bad |-> FALSE,
          loop |-> FALSE]   \* the recursive save met an object whose save is in progress

\* a new transaction store: every object is what the store holds (object cache dropped)
Reload(s) ==
  [Blank EXCEPT !.slot = [o \in Obj |-> s.ps[o].slot],
                !.val = [o \in Obj |-> s.ps[o].val],
                !.rc = [o \in Obj |-> IF o \in RootObjs THEN 1 ELSE s.ps[o].rc],
                !.own = [o \in Obj |-> s.ps[o].own],
                !.real = [o \in Obj |-> s.ps[o].here],
                !.esc = [o \in Obj |-> s.ps[o].esc],
                !.pkg = [o \in Nodes |-> IF s.ps[o].here THEN s.pkg[o] ELSE 0],
                !.alive = PHere(s.ps),
                !.time = s.pt, !.pt = s.pt, !.pt0 = s.pt,
                !.nt = [o \in Obj |-> s.ps[o].nt],
                !.ps = s.ps]

RECURSIVE ReachP(_, _)
ReachP(p, T) == LET U == T \cup {q \in Nodes : \E x \in T : \E k \in K : p[x].slot[k] = q}
                IN IF U = T THEN T ELSE ReachP(p, U)
HeldAtStart(p) == ReachP(p, RootObjs) \ RootObjs

Proj(s) == [i \in 1..Len(ObjSeq) |->
              LET o == ObjSeq[i] IN
              [id |-> o, here |-> s.ps[o].here, a |-> s.ps[o].slot[1], b |-> s.ps[o].slot[2],
               val |-> s.ps[o].val, rc |-> s.ps[o].rc, own |-> s.ps[o].own, esc |-> s.ps[o].esc,
               pkg |-> IF o \in RootObjs THEN RootPkg[o] ELSE s.pkg[o]]]

Init ==
  /\ S = Blank /\ frame = 1 /\ nops = 0 /\ ntx = 0 /\ held = {} /\ pre = Blank.ps /\ xr = FALSE
  /\ cur = <<>> /\ refok = TRUE /\ hist = <<>>

Op(name, p, k, c) == [op |-> name, p |-> p, k |-> k, c |-> c]
Log(o) == cur' = IF Quiet THEN cur ELSE Append(cur, o)

Budget == nops < (IF ntx = 0 THEN MaxOps1 ELSE MaxOps) /\ ntx < MaxTx /\ ~S.bad

\* x := &node.Node{V: label}   (the smallest free id: node ids are interchangeable)
Unreal == {q \in held : ~S.real[q]}
New ==
  /\ Budget
  /\ Bias => Cardinality(Unreal) <= 1
  /\ \E o \in Nodes :
       /\ o \notin S.alive /\ \A q \in Nodes : q < o => q \in S.alive
       /\ S' = [S EXCEPT !.alive = @ \cup {o}, !.pkg[o] = frame,
                         !.slot[o] = [k \in K |-> Nil], !.val[o] = 0, !.rc[o] = 0, !.own[o] = Nil,
                         !.real[o] = FALSE, !.esc[o] = FALSE, !.nr[o] = FALSE, !.dt[o] = FALSE,
                         !.nd[o] = FALSE, !.ne[o] = FALSE, !.del[o] = FALSE]
       /\ held' = held \cup {o}
       /\ Log(Op("new", o, 0, 0))
  /\ nops' = nops + 1
  /\ UNCHANGED <<frame, ntx, pre, xr, refok, hist>>

\* po.slot[k] = co   (write authority: po belongs to the running realm)
Writable(po) == PkgOf(S, po) = frame /\ (po \in RootObjs \/ po \in held)
Assign ==
  /\ Budget
  /\ \E po \in Obj, k \in K, co \in held \cup {Nil} :
       /\ Writable(po)
       /\ po \in RootObjs => k \in RootSlots[po]
       /\ Bias => ~(co = Nil /\ S.slot[po][k] = Nil)
       /\ LET xo == S.slot[po][k]
          IN S' = DidUpdate([S EXCEPT !.slot[po][k] = co], frame, po, xo, co)
       /\ Log(Op("set", po, k, co))
  /\ nops' = nops + 1
  /\ UNCHANGED <<frame, ntx, held, pre, xr, refok, hist>>

\* o.W = 1 - o.W : a write that changes no reference
Touch ==
  /\ Budget
  /\ \E o \in held :
       /\ Writable(o)
       /\ Bias => S.real[o]
       /\ S' = DidUpdate([S EXCEPT !.val[o] = 1 - @], frame, o, Nil, Nil)
       /\ Log(Op("touch", o, 0, 1 - S.val[o]))
  /\ nops' = nops + 1
  /\ UNCHANGED <<frame, ntx, held, pre, xr, refok, hist>>

\* heap calls heap2.Exec(cross(cur), ...): the second realm's frame ...
Enter ==
  /\ Budget /\ 2 \in Realms /\ frame = 1 /\ nops + 1 < MaxOps
  /\ frame' = 2 /\ xr' = TRUE /\ nops' = nops + 1
  /\ Log(Op("enter", 0, 0, 0))
  /\ UNCHANGED <<S, ntx, held, pre, refok, hist>>
\* The hand-over situation: realm 2's finalisation mints an id from realm 1's counter (a node that
\* realm 1 allocated and passed through the crossing call, stored by realm 2) while realm 1's bytes
\* gained and lost in that finalisation cancel out (it replaces an equal-sized realm-1 node).
Sz(p) == IF p.here THEN 10 + Cardinality({k \in K : p.slot[k] # Nil}) + (IF p.val # 0 THEN 1 ELSE 0)
                        + (IF p.own # Nil THEN 1 ELSE 0) + (IF p.esc THEN 1 ELSE 0)
         ELSE 0
RECURSIVE SumSz(_, _, _)
SumSz(s, f, X) == IF X = {} THEN 0 ELSE LET o == CHOOSE x \in X : TRUE
                                       IN Sz(f.ps[o]) - Sz(s.ps[o]) + SumSz(s, f, X \ {o})
HandOver(s, f) ==
  /\ \E o \in Nodes : s.pkg[o] = 1 /\ ~s.real[o] /\ f.real[o] /\ f.ps[o].here
  /\ \E d \in Nodes : s.pkg[d] = 1 /\ s.ps[d].here /\ ~f.ps[d].here
  /\ SumSz(s, f, {o \in Nodes : s.pkg[o] = 1}) = 0

\* ... and its return: FinalizeRealmTransaction of realm 2 in the middle of realm 1's transaction.
\* A panic of the transcribed code (bad) aborts the whole transaction.
Leave ==
  /\ frame = 2 /\ ~S.bad
  /\ LET f == Finalize(S, 2) IN S' = IF f.bad THEN [S EXCEPT !.bad = TRUE] ELSE [f EXCEPT !.hand = @ \/ HandOver(S, f)]
  /\ frame' = 1
  /\ Log(Op("leave", 0, 0, 0))
  /\ UNCHANGED <<nops, ntx, held, pre, xr, refok, hist>>

\* Apply returns: FinalizeRealmTransaction of realm 1, the transaction commits, caches are dropped.
\* An aborted transaction leaves the persisted graph as it was.
Commit ==
  /\ frame = 1 /\ nops > 0
  /\ HandMode => ((ntx = 0 => xr) /\ (ntx = 1 => S.hand))     \* directed: hand-over, equal-sized replacement, then free
  /\ LET f == IF S.bad THEN S ELSE Finalize(S, 1)
         n == Reload(IF f.bad THEN [S EXCEPT !.ps = pre, !.pt = S.pt0] ELSE f)
     IN /\ S' = n
        /\ held' = HeldAtStart(n.ps)
        /\ pre' = n.ps
        /\ refok' = (f.bad \/ Refines(f, pre, ~xr))
        /\ hist' = IF Quiet THEN hist
                   ELSE Append(hist, [act |-> "Tx", ops |-> cur, xr |-> xr, abort |-> f.bad, loop |-> f.loop, hand |-> f.hand /\ ~f.bad, st |-> Proj(n)])
  /\ nops' = 0 /\ ntx' = ntx + 1 /\ xr' = FALSE /\ cur' = <<>>
  /\ UNCHANGED frame

Next == New \/ Assign \/ Touch \/ Enter \/ Leave \/ Commit
Spec == Init /\ [][Next]_vars

RefinesDecl == refok

\* -------------------------------------------------------------------- emission
Emit == PrintT(<<"TRACE", ToJson(hist)>>)
EmitAtEnd == ntx < MaxTx \/ Emit
EmitEdge == hist' = hist \/ PrintT(<<"EDGE", ToJson(hist')>>)
\* only the commit edges on which the recursive save meets an object already being saved
\* complete directed behaviours only
EmitHandEdge == hist' = hist \/ Len(hist') < MaxTx \/ PrintT(<<"EDGE", ToJson(hist')>>)
EmitLoopEdge == hist' = hist \/ ~hist'[Len(hist')].loop \/ PrintT(<<"EDGE", ToJson(hist')>>)
=============================================================================
