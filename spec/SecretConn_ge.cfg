CONSTANTS
  WriteSizes <- WTwo
  ReadSizes <- RCore
  BufSizes <- BOne
  MaxWrites = 1
  MaxReads = 2
  MaxLen = 9
  AdvBudget = 1
  AdvAfter = 0
  AdvActs <- ActsAll
  EphChoices <- EphAll
  DataMax = 1024
  Writers <- Both
  Readers <- Both
INIT Init
NEXT Next
VIEW View
INVARIANTS TypeOK AuthenticatedPeer NoGhostSession StreamIntegrity TamperFails
ACTION_CONSTRAINT EmitEdge
