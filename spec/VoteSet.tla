---------------------------- MODULE VoteSet ----------------------------
(* C35. Mirrors tm2/pkg/bft/types/vote_set.go: AddVote -> addVote -> addVerifiedVote,
   SetPeerMaj23, and the query methods. One action per public call; the branch structure
   of each action follows the code so that replies can be compared step by step.

   Named deviations from a naive reading of the statement (DESIGN 4.3):
   * MakeCommit copies the PRIMARY vote of every validator; validators that did not vote
     for the majority block contribute their nil/other-block precommit (Tendermint commit
     format; VerifyCommit skips those). "Contains only votes for the majority block" is
     stated here as CommitCarriesMajority: every validator counted for maj23 appears in
     the commit with its maj23 vote, and the commit verifies for maj23.
   * A conflicting vote for maj23 whose block is tracked without a peer claim replaces the
     primary vote but is not counted in byBlock (code lines 243-262); modelled as is.   *)
EXTENDS Integers, Sequences, FiniteSets, TLC, Json

CONSTANTS Power,      \* sequence of voting powers, index = validator index (1-based here)
          Blocks,     \* set of block ids incl. "nil"
          Peers,      \* set of peer ids
          MaxLen,     \* bound on history length
          Classes     \* vote classes generated (subset of AllClasses)

AllClasses == {"s0", "s1", "bad", "wrongheight", "wronground", "wrongtype", "negindex", "bigindex", "wrongaddr"}
Vals == 1..Len(Power)
RECURSIVE SumTo(_)
SumTo(i) == IF i = 0 THEN 0 ELSE SumTo(i - 1) + Power[i]
Total == SumTo(Len(Power))
Quorum == (Total * 2) \div 3 + 1
NoVote == "none"

VARIABLES votes,      \* [Vals -> Blocks \cup {NoVote}]   primary vote per validator
          sum,        \* power of validators with a primary vote
          maj23,      \* Blocks \cup {NoVote}
          byBlock,    \* [Blocks -> [peerMaj23: BOOLEAN, tracked: BOOLEAN, voters: SUBSET Vals]]
          peerMaj,    \* [Peers -> Blocks \cup {NoVote}]
          sigv,       \* [Vals -> [Blocks -> {"none","s0","s1"}]] signature variant stored for (v,b)
          conflicts,  \* set of validators for which a conflict was ever reported (ghost)
          hist

vars == <<votes, sum, maj23, byBlock, peerMaj, sigv, conflicts>>

RECURSIVE PowerOf(_)
PowerOf(S) == IF S = {} THEN 0 ELSE LET x == CHOOSE y \in S : TRUE IN Power[x] + PowerOf(S \ {x})

Init ==
  /\ votes = [v \in Vals |-> NoVote]
  /\ sum = 0
  /\ maj23 = NoVote
  /\ byBlock = [b \in Blocks |-> [peerMaj23 |-> FALSE, tracked |-> FALSE, voters |-> {}]]
  /\ peerMaj = [p \in Peers |-> NoVote]
  /\ sigv = [v \in Vals |-> [b \in Blocks |-> "none"]]
  /\ conflicts = {}
  /\ hist = <<>>

\* projected state, exactly what the driver reads through the query methods
Proj(vo, su, mj, bb) ==
  [votes |-> vo, sum |-> su, maj23 |-> mj,
   any23 |-> (su > (Total * 2) \div 3), hasall |-> (su = Total),
   byb |-> [b \in Blocks |-> [tracked |-> bb[b].tracked, voters |-> bb[b].voters]]]

Rec(v, b, c, reply, vo, su, mj, bb) ==
  [act |-> "AddVote", v |-> v, b |-> b, cls |-> c, reply |-> reply, st |-> Proj(vo, su, mj, bb)]

Existing(v, b) == votes[v] = b \/ v \in byBlock[b].voters

AddVote(v, b, c) ==
  /\ Len(hist) < MaxLen
  /\ IF c = "negindex" THEN UNCHANGED vars /\ hist' = Append(hist, Rec(v, b, c, "index", votes, sum, maj23, byBlock))
     ELSE IF c \in {"wrongheight", "wronground", "wrongtype"}
          THEN UNCHANGED vars /\ hist' = Append(hist, Rec(v, b, c, "step", votes, sum, maj23, byBlock))
     ELSE IF c = "bigindex" THEN UNCHANGED vars /\ hist' = Append(hist, Rec(v, b, c, "index", votes, sum, maj23, byBlock))
     ELSE IF c = "wrongaddr" THEN UNCHANGED vars /\ hist' = Append(hist, Rec(v, b, c, "addr", votes, sum, maj23, byBlock))
     ELSE IF Existing(v, b)
          THEN /\ UNCHANGED vars
               /\ hist' = Append(hist, Rec(v, b, c, IF sigv[v][b] = c THEN "dup" ELSE "nondet", votes, sum, maj23, byBlock))
     ELSE IF c = "bad"
          THEN UNCHANGED vars /\ hist' = Append(hist, Rec(v, b, c, "badsig", votes, sum, maj23, byBlock))
     ELSE
       \* addVerifiedVote
       LET conflicting == votes[v] # NoVote
           replace == conflicting /\ maj23 = b
           votes1 == IF ~conflicting \/ replace THEN [votes EXCEPT ![v] = b] ELSE votes
           sum1 == IF conflicting THEN sum ELSE sum + Power[v]
           tracked == byBlock[b].tracked
           drop == conflicting /\ (~tracked \/ ~byBlock[b].peerMaj23)
           stored == ~drop \/ replace
           sigv1 == IF stored THEN [sigv EXCEPT ![v][b] = c] ELSE sigv
       IN IF drop
          THEN /\ votes' = votes1 /\ sum' = sum1 /\ sigv' = sigv1
               /\ conflicts' = conflicts \cup {v}
               /\ UNCHANGED <<maj23, byBlock, peerMaj>>
               /\ hist' = Append(hist, Rec(v, b, c, "conflict_dropped", votes1, sum1, maj23, byBlock))
          ELSE LET orig == PowerOf(byBlock[b].voters)
                   bb == [byBlock[b] EXCEPT !.tracked = TRUE, !.voters = @ \cup {v}]
                   now == orig + Power[v]
                   cross == orig < Quorum /\ Quorum <= now /\ maj23 = NoVote
                   votes2 == IF cross THEN [x \in Vals |-> IF x \in bb.voters THEN b ELSE votes1[x]] ELSE votes1
                   byb2 == [byBlock EXCEPT ![b] = bb]
                   mj2 == IF cross THEN b ELSE maj23
               IN /\ votes' = votes2 /\ sum' = sum1 /\ sigv' = sigv1
                  /\ maj23' = mj2
                  /\ byBlock' = byb2
                  /\ conflicts' = IF conflicting THEN conflicts \cup {v} ELSE conflicts
                  /\ UNCHANGED peerMaj
                  /\ hist' = Append(hist, Rec(v, b, c, IF conflicting THEN "conflict_added" ELSE "added",
                                              votes2, sum1, mj2, byb2))

SetPeerMaj23(p, b) ==
  /\ Len(hist) < MaxLen
  /\ IF peerMaj[p] # NoVote
     THEN /\ UNCHANGED vars
          /\ hist' = Append(hist, [act |-> "SetPeerMaj23", p |-> p, b |-> b,
                                   reply |-> IF peerMaj[p] = b THEN "ok" ELSE "err",
                                   st |-> Proj(votes, sum, maj23, byBlock)])
     ELSE LET byb2 == [byBlock EXCEPT ![b].peerMaj23 = TRUE, ![b].tracked = TRUE] IN
          /\ peerMaj' = [peerMaj EXCEPT ![p] = b]
          /\ byBlock' = byb2
          /\ UNCHANGED <<votes, sum, maj23, sigv, conflicts>>
          /\ hist' = Append(hist, [act |-> "SetPeerMaj23", p |-> p, b |-> b, reply |-> "ok",
                                   st |-> Proj(votes, sum, maj23, byb2)])

Next == \/ \E v \in Vals, b \in Blocks, c \in Classes : AddVote(v, b, c)
        \/ \E p \in Peers, b \in Blocks : SetPeerMaj23(p, b)

Spec == Init /\ [][Next]_<<vars, hist>>

View == vars

\* ---------------------------------------------------------------- properties (C35)
Counted(b) == PowerOf(byBlock[b].voters)
\* a +2/3 majority is reported for a block only when votes counted for it exceed 2/3
Maj23Exact == maj23 # NoVote => 3 * Counted(maj23) > 2 * Total
\* ... and whenever some block's counted votes exceed 2/3, a majority is reported
Maj23Reported == (\E b \in Blocks : 3 * Counted(b) > 2 * Total) => maj23 # NoVote
\* the first majority reported never changes
FirstStable == [][maj23 # NoVote => maj23' = maj23]_vars
\* sum counts each validator's power once (distinct validators)
SumExact == sum = PowerOf({v \in Vals : votes[v] # NoVote})
\* the commit carries the majority: every validator counted for maj23 has its maj23 vote as primary
CommitCarriesMajority == maj23 # NoVote => \A v \in byBlock[maj23].voters : votes[v] = maj23
\* every primary vote is tracked for its block or is the replace-on-maj23 quirk
PrimaryTracked == \A v \in Vals : votes[v] # NoVote =>
                     (v \in byBlock[votes[v]].voters \/ votes[v] = maj23)
\* conflicting votes are only ever counted for blocks a peer claimed
ConflictNeedsPeerClaim == \A b \in Blocks : \A v \in byBlock[b].voters :
                     (votes[v] # b /\ votes[v] # NoVote) => (byBlock[b].peerMaj23 \/ votes[v] = maj23)
TypeOK == /\ votes \in [Vals -> Blocks \cup {NoVote}]
          /\ maj23 \in Blocks \cup {NoVote}
          /\ sum \in 0..Total

Emit == PrintT(<<"TRACE", ToJson(hist)>>)
EmitAtEnd == Len(hist) < MaxLen \/ Emit
EmitEdge == PrintT(<<"EDGE", ToJson(hist')>>)
=============================================================================
