CONSTANTS
  NK = 9
  NV = 1
  MaxLen = 12
  Reads <- ReadsNone
  Lims <- Lims0
  Grow = 0
  Quiet = FALSE
INIT Init
NEXT Next
VIEW View
INVARIANTS TypeOK Refines Balanced WellFormed
ACTION_CONSTRAINT EmitEdgeTagged
