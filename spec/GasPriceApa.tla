---------------------------- MODULE GasPriceApa ----------------------------
(* C17, Apalache harness over GasPriceFn.tla: one symbolic "block" with every input ranging over
   its whole valid int64 domain (what auth.Params.Validate and the consensus-parameter validation
   accept, Block.MaxGas >= 0; used is whatever the block gas meter reports, 0..2^63-1: a
   BasicGasMeter records the consumption that trips its limit).
   (a) obligations  --inv=UpOK|DownOK|FloorOK|StayOK|RangeOK --init=InitAll : the rule's value
       satisfies its clause for EVERY input (expected NoError);
   (b) witnesses    --inv=NoWitness --init=InitW --view=ViewW --max-error=NClasses : one input
       per boundary class, with the clause interval lo..hi, the rule's value out and the
       tz/sat flags computed by the solver; each is replayed through the real
       GasPriceKeeper.UpdateGasPrice (harness/cmd/gasprice).
   Run with --length=0 --cinit=CInit64.                                                       *)
EXTENDS GasPriceFn

VARIABLES
  \* @type: Int;
  last,
  \* @type: Int;
  used,
  \* @type: Int;
  maxGas,
  \* @type: Int;
  ratio,
  \* @type: Int;
  comp,
  \* @type: Int;
  init,
  \* @type: Int;
  out,
  \* @type: Str;
  cls,
  \* @type: Int;
  lo,
  \* @type: Int;
  hi,
  \* @type: Bool;
  tz,
  \* @type: Bool;
  sat,
  \* @type: Bool;
  big,
  \* @type: Int;
  wcls

CInit64 == MaxPrice = 9223372036854775807

Domain ==
  /\ last \in 0..MaxPrice /\ init \in 0..MaxPrice /\ used \in 0..MaxPrice
  /\ maxGas \in 0..MaxPrice /\ ratio \in 0..100 /\ comp \in 1..MaxPrice

Derived ==
  /\ out = Calc(last, used, maxGas, ratio, comp, init)
  /\ cls = Cls(last, used, maxGas, ratio, init)
  /\ lo = Lo(last, used, maxGas, ratio, init)
  /\ hi = Hi(last, used, maxGas, ratio, init)
  /\ tz = Undefined(last, used, maxGas, ratio)
  /\ sat = Saturates(last, used, maxGas, ratio, comp, init)
  /\ big = BigProduct(last, used, maxGas, ratio)

InitAll == Domain /\ Derived /\ wcls = 0
Next == UNCHANGED <<last, used, maxGas, ratio, comp, init, out, cls, lo, hi, tz, sat, big, wcls>>

T == Target(maxGas, ratio)
On == ~Disabled(last, ratio) /\ T >= 1
UpOK    == (On /\ used > T) => (out >= Min(last + 1, MaxPrice))
DownOK  == (On /\ used < T /\ last > init) => (out <= last - 1 /\ out >= init)
FloorOK == (On /\ used < T /\ last <= init) => out = init
StayOK  == (Disabled(last, ratio) \/ used = T) => out = last
RangeOK == 0 <= out /\ out <= MaxPrice /\ lo <= out /\ out <= hi

\* ---------------------------------------------------------------- boundary witnesses
NClasses == 24
Gap == IF used > T THEN used - T ELSE T - used
Quot == ((Gap * last) \div T) \div comp          \* only used under T >= 1
Class(k) ==
  CASE k = 1 -> On /\ used > T /\ sat                                   \* unbounded rule exceeds int64
    [] k = 2 -> On /\ used > T /\ sat /\ maxGas <= 3000000000 /\ used <= maxGas /\ ratio = 70 /\ comp = 10
    [] k = 3 -> tz /\ maxGas >= 1 /\ used <= maxGas                      \* MaxGas*ratio < 100
    [] k = 4 -> tz /\ maxGas = 0                                        \* no block gas limit configured as 0
    [] k = 5 -> On /\ used > T /\ Quot = 0 /\ last >= 1000000           \* increase rounds to 0 -> +1
    [] k = 6 -> On /\ used > T /\ Quot >= 2 /\ Gap * last > MaxPrice /\ ~sat   \* product needs > 64 bits
    [] k = 7 -> On /\ used < T /\ last > init + 1 /\ Quot = 0 /\ last >= 1000000  \* decrease rounds to 0 -> -1
    [] k = 8 -> On /\ used < T /\ Gap * last > MaxPrice /\ out > init /\ Quot >= 2
    [] k = 9 -> On /\ used < T /\ last > init /\ last - Quot < init /\ Quot >= 2   \* clipped at the floor
    [] k = 10 -> On /\ used < T /\ last = init
    [] k = 11 -> On /\ used < T /\ last < init
    [] k = 12 -> ~Disabled(last, ratio) /\ used = T /\ T >= 1000
    [] k = 13 -> last = 0 /\ ratio > 0 /\ T >= 1 /\ used > T
    [] k = 14 -> ratio = 0 /\ last >= 1000 /\ used > 0
    [] k = 15 -> On /\ used > T /\ Raw(last, used, maxGas, ratio, comp, init) = MaxPrice
    [] k = 16 -> On /\ used > T /\ Raw(last, used, maxGas, ratio, comp, init) = MaxPrice + 1
    [] k = 17 -> On /\ used = 0 /\ last > init + 1000 /\ comp >= 2 /\ last - Quot > init
    [] k = 18 -> On /\ used > maxGas /\ maxGas >= 1000 /\ ~sat /\ last >= 1000
    [] k = 19 -> On /\ used = T + 1 /\ T >= 1000000 /\ last >= 1000000
    [] k = 20 -> On /\ used = T - 1 /\ T >= 1000000 /\ last >= init + 1000000
    \* mid-range operands: prices around 2^32, and the intermediate product right at the 64-bit boundary
    [] k = 21 -> On /\ used > T /\ last >= 2147483648 /\ last <= 8589934592 /\ Quot >= 2 /\ ~big
    [] k = 22 -> On /\ used < T /\ last >= 2147483648 /\ last <= 8589934592 /\ Quot >= 2 /\ last - Quot > init /\ ~big
    [] k = 23 -> On /\ big /\ ~sat /\ Gap * last <= MaxPrice + 1099511627776 /\ Quot >= 2
    [] k = 24 -> On /\ ~big /\ Gap * last >= MaxPrice - 1099511627776 /\ Quot >= 2
    [] OTHER -> FALSE

InitW == Domain /\ Derived /\ wcls \in 1..NClasses /\ Class(wcls)
\* the same in two halves (run in parallel)
InitW1 == Domain /\ Derived /\ wcls \in 1..10 /\ Class(wcls)
InitW2 == Domain /\ Derived /\ wcls \in 11..NClasses /\ Class(wcls)
NoWitness == wcls = 0
ViewW == wcls
=============================================================================
