CONSTANTS
  NK <- NKsim
  Extras <- ExtrasSim
  MaxNel = 3
  MaxLen = 14
INIT Init
NEXT NextSim
VIEW View
INVARIANTS TypeOK AlgoIsProperty HonestExact NoForgery MarkedAllValid
INVARIANT EmitAtEnd
