---------------------------- MODULE AnteSigners ----------------------------
(* C15, second machine: WHO must sign. (Ante.tla fixes the signer set per transaction kind and varies
   the signature records; here the signatures are always well-formed and the signer SET varies.)
   tm2/pkg/std/tx.go Tx.GetSigners + Tx.ValidateBasic + auth/ante.go phases 1-3, at this grain:

     message      = sequence of signer names (a message may need several signatures, e.g. one per
                    input of a multi-send); the same name may recur across the messages of a tx
     transaction  = sequence of 1..3 messages + a sequence of signatures; sigs[i] = the account
                    whose key produced the i-th signature, over this transaction, with that
                    account's current number and sequence (so it verifies exactly when the ante
                    handler checks position i against that same account)
     Required(tx) = the order-preserving, de-duplicated concatenation of the messages' signers
     accepted     iff sigs = Required(tx) (one signature per required signer, in that order)
                  and the first required signer can pay the fee
   An accepted transaction moves the fee from Required(tx)[1] to the collector and bumps the
   sequence of exactly the required signers; a rejected one changes nothing.
   The property is stated WITHOUT Required: a transaction takes effect only if every signer of every
   one of its messages signed it (EverySignerSigned).                                           *)
EXTENDS Integers, Sequences, FiniteSets, TLC, Json

CONSTANTS Accts,      \* accounts that exist and can sign
          Shapes,     \* the messages: set of non-empty sequences over Accts
          MsgSeqs,    \* the transactions' message lists: set of sequences (1..3) over Shapes
          MaxLen

Fee == 1
Start == 9

VARIABLES seq, bal, hist, last
vars == <<seq, bal>>

Has(s, x) == \E k \in 1..Len(s) : s[k] = x
RECURSIVE AddMsg(_, _, _)
AddMsg(acc, m, j) == IF j > Len(m) THEN acc ELSE AddMsg(IF Has(acc, m[j]) THEN acc ELSE Append(acc, m[j]), m, j + 1)
RECURSIVE Req(_, _, _)
Req(acc, msgs, i) == IF i > Len(msgs) THEN acc ELSE Req(AddMsg(acc, msgs[i], 1), msgs, i + 1)
\* order-preserving de-duplicated concatenation
Required(msgs) == Req(<<>>, msgs, 1)

\* the situation a "same sender as before" shortcut gets wrong: a later message STARTS with the signer collected
\* last, and needs further signers that were not collected yet
Trap(msgs) ==
  \E i \in 2..Len(msgs) :
    LET prev == Required(SubSeq(msgs, 1, i - 1)) IN
    /\ msgs[i][1] = prev[Len(prev)]
    /\ \E j \in 1..Len(msgs[i]) : ~Has(prev, msgs[i][j])

Drop(s, k) == [i \in 1..(Len(s) - 1) |-> IF i < k THEN s[i] ELSE s[i + 1]]
Swap(s, k) == [i \in 1..Len(s) |-> IF i = k THEN s[k + 1] ELSE IF i = k + 1 THEN s[k] ELSE s[i]]
\* signature lists tried for a transaction: exact, one missing (each position), one extra, two adjacent swapped
SigChoices(req) ==
  {req} \cup {Drop(req, k) : k \in 1..Len(req)} \cup {Append(req, x) : x \in Accts}
        \cup {Swap(req, k) : k \in 1..(Len(req) - 1)}

Proj(s, b) == [seq |-> s, bal |-> b]

Deliver(msgs, sigs) ==
  LET req == Required(msgs)
      ok == sigs = req /\ bal[req[1]] >= Fee
      seq2 == [x \in Accts |-> IF Has(req, x) THEN seq[x] + 1 ELSE seq[x]]
      bal2 == [x \in DOMAIN bal |-> IF x = "coll" THEN bal[x] + Fee ELSE IF x = req[1] THEN bal[x] - Fee ELSE bal[x]]
      rec == [act |-> "Deliver", msgs |-> msgs, sigs |-> sigs, trap |-> Trap(msgs)]
  IN /\ Len(hist) < MaxLen
     /\ IF ok
        THEN /\ seq' = seq2 /\ bal' = bal2
             /\ hist' = Append(hist, rec @@ [reply |-> "accept", st |-> Proj(seq2, bal2)])
             /\ last' = [reply |-> "accept", msgs |-> msgs, sigs |-> sigs]
        ELSE /\ UNCHANGED vars
             /\ hist' = Append(hist, rec @@ [reply |-> "reject", st |-> Proj(seq, bal)])
             /\ last' = [reply |-> "reject", msgs |-> msgs, sigs |-> sigs]

Init ==
  /\ seq = [x \in Accts |-> 0]
  /\ bal = [x \in Accts \cup {"coll"} |-> IF x = "coll" THEN 0 ELSE Start]
  /\ hist = <<>>
  /\ last = [reply |-> "accept", msgs |-> <<>>, sigs |-> <<>>]

Next == \E msgs \in MsgSeqs : \E sigs \in SigChoices(Required(msgs)) : Deliver(msgs, sigs)
Spec == Init /\ [][Next]_<<vars, hist, last>>
View == <<vars, Len(hist)>>

\* ------------------------------------------------------------------ properties (C15)
Signed(sigs) == {sigs[k] : k \in 1..Len(sigs)}
MsgSigners(msgs) == UNION {{msgs[i][j] : j \in 1..Len(msgs[i])} : i \in 1..Len(msgs)}
\* a transaction takes effect only if every signer of every message signed it
EverySignerSigned == [][last'.reply = "accept" => MsgSigners(last'.msgs) \subseteq Signed(last'.sigs)]_<<vars, last>>
\* ... with exactly one signature each, and nobody else's
ExactlyOneEach == [][last'.reply = "accept" =>
                       /\ Len(last'.sigs) = Cardinality(MsgSigners(last'.msgs))
                       /\ Signed(last'.sigs) = MsgSigners(last'.msgs)]_<<vars, last>>
\* every accepted transaction bumps exactly its signers' sequences by one
SeqExactlySigners == [][last'.reply = "accept" =>
                          \A x \in Accts : seq'[x] = IF x \in MsgSigners(last'.msgs) THEN seq[x] + 1 ELSE seq[x]]_<<vars, last>>
RejectIsNoOp == [][last'.reply = "reject" => UNCHANGED vars]_<<vars, last>>
Conserved == bal["a"] + bal["b"] + bal["c"] + bal["coll"] = 3 * Start

EmitEdge == PrintT(<<"EDGE", ToJson(hist')>>)
Emit == PrintT(<<"TRACE", ToJson(hist)>>)
EmitAtEnd == Len(hist) < MaxLen \/ Emit
=============================================================================
