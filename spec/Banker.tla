------------------------------- MODULE Banker -------------------------------
(* C08 - coins leave an address only with that address's authority.  Model of the capability
   mechanics of gnovm/stdlibs/chain/banker (banker.gno NewBanker / SendCoins / IssueCoin /
   RemoveCoin, banker.go X_bankerSendCoins), the realm values minted per crossing frame
   (uverse.go: IsCurrent = identity with the topmost live crossing frame's value; Previous()
   walks down), and the vm keeper's message envelope (coins sent along are moved to the callee
   before it runs; OriginSend / OriginSendSpent per message).

   One behaviour = a few transactions.  Inside a transaction:
     frames   the crossing frames [who, tok, prevUser]; tok identifies the realm value `cur` minted
              for the frame; the LIVE value is the top frame's
     code     who executes: "vault" (the honest realm's own function bodies, written out below as
              the V* actions) or "att" (attacker-written code: the attacker realm, a MsgRun script,
              or a callback the vault runs inside its own frame)
     toks     realm values the attacker holds: its own frames' cur, everything reachable through
              Previous(), and values the vault hands out (Delegate: live; Leak: stale once returned)
     caps     bankers the attacker holds [typ, addr, path]; they persist across transactions
   The attacker may try every banker operation with every value it holds; the guards are the
   code's: NewBanker requires IsCurrent (switch CurrentCheck) and, for OriginSend, that the
   previous realm is a user call; SendCoins requires from = the banker's address (FromCheck) and,
   for OriginSend bankers, spent + amt <= sent with spent advanced to the running total of ALL sends of the
   message (OriginDecrement, OriginTotal); IssueCoin /
   RemoveCoin require the denomination to carry the banker's realm path (DenomCheck).
   Invariants = BankerAuth.tla (the statement).  The five switches are the mutants: with any of
   them FALSE TLC finds a violation (Banker_m*.cfg), which is how the invariants are shown not to
   be vacuous.

   Named abstraction: amounts are 0..2 units; the storage-deposit lock/refund is not part of this
   module (it is a SendCoinsUnrestricted between signer and deposit address, checked on the recorded
   transactions through the storV / storM terms of BankerAuth). *)
EXTENDS BankerAuth, Sequences, FiniteSets, TLC, Json

CONSTANTS FromCheck, CurrentCheck, OriginDecrement, OriginTotal, DenomCheck, MaxTx, MaxOps

Addrs == {"u1", "u2", "att", "vault", "vdep", "mal", "mdep", "rtr", "rdep", "coll"}
AddrOf == [w \in {"vault", "mal", "run"} |-> CASE w = "vault" -> "vault" [] w = "mal" -> "mal" [] OTHER -> "att"]
PathOf == [w \in {"vault", "mal", "run"} |-> w]

VARIABLES bal, balV, frames, code, toks, caps, tx, osend, ospent, ntok, ntx, nops, grants, pre, preV, done, left
vars == <<bal, balV, frames, code, toks, caps, tx, osend, ospent, ntok, ntx, nops, grants, pre, preV, done, left>>

NoTx == [signer |-> "none", fee |-> 0, sends |-> 0, sendsV |-> 0, maxdep |-> 0, locked |-> 0, run |-> FALSE, spends |-> 0, deleg |-> 0, issues |-> 0, storV |-> 0, storM |-> 0, storR |-> 0, ogrant |-> 0]

Init ==
  /\ bal = [a \in Addrs |-> CASE a \in {"u1", "att", "vault"} -> 3 [] a = "u2" -> 2 [] a = "vdep" -> 1 [] OTHER -> 0]
  /\ balV = [a \in Addrs |-> IF a = "u2" THEN 1 ELSE 0]
  /\ frames = <<>> /\ code = "none" /\ toks = {} /\ caps = {} /\ tx = NoTx
  /\ osend = 0 /\ ospent = 0 /\ ntok = 0 /\ ntx = 0 /\ nops = 0 /\ grants = {} /\ done = FALSE
  /\ pre = bal /\ preV = balV /\ left = 0

InTx == tx.signer # "none"
Top == frames[Len(frames)]
Live == IF frames = <<>> THEN -1 ELSE Top.tok
Tok(id, who, pu) == [id |-> id, addr |-> AddrOf[who], path |-> PathOf[who], prevUser |-> pu]
\* the origin realm value at the bottom of every Previous() chain: the signer's address, never live
Origin(signer) == [id |-> 0 - 1, addr |-> signer, path |-> "", prevUser |-> FALSE]
Move(b, from, to, n) == [b EXCEPT ![from] = @ - n, ![to] = @ + n]

\* the origin-send envelope (banker.go, btOriginSend): a send of n is admitted iff spent + n <= sent, and the budget
\* then remembers the RUNNING TOTAL of everything sent through origin-send bankers in this message.
\* Mutant switches: OriginDecrement = FALSE - the budget is never advanced; OriginTotal = FALSE - it remembers only
\* the last send (any sequence whose adjacent sends fit is then admitted, e.g. 3 x sent/2).
OriginOK(n) == ospent + n <= osend
OriginAfter(n) == IF ~OriginDecrement THEN ospent ELSE IF OriginTotal THEN ospent + n ELSE n

\* everything Previous() reaches from the frames the attacker's code runs in
Reachable(fs) == {Tok(fs[i].tok, fs[i].who, fs[i].prevUser) : i \in 1..Len(fs)} \cup {Origin(tx.signer)}

\* ---- a transaction starts: ante (fee), coins sent along, first crossing frame
Begin(signer, target, send) ==
  /\ ~InTx /\ ~done /\ ntx < MaxTx
  /\ bal[signer] >= 1 + send
  /\ (target = "run" => signer = "att")
  /\ LET b1 == Move(bal, signer, "coll", 1)
         dest == IF target = "run" THEN signer ELSE AddrOf[target]
     IN bal' = Move(b1, signer, dest, send)
  /\ pre' = bal /\ preV' = balV
  /\ tx' = [NoTx EXCEPT !.signer = signer, !.fee = 1, !.sends = send, !.run = (target = "run")]
  /\ frames' = <<[who |-> target, tok |-> ntok, prevUser |-> TRUE]>>
  /\ code' = IF target = "vault" THEN "vault" ELSE "att"
  /\ toks' = IF target = "vault" THEN {} ELSE {Tok(ntok, target, TRUE), Origin(signer)}
  /\ ntok' = ntok + 1 /\ osend' = send /\ ospent' = 0 /\ ntx' = ntx + 1 /\ nops' = 0
  /\ UNCHANGED <<balV, caps, grants, done, left>>

\* ---- the honest realm's function bodies (code = "vault", a vault frame on top)
VaultRuns == InTx /\ code = "vault" /\ Top.who = "vault"
CallerIsAdmin == Len(frames) = 1 /\ tx.signer = "u1"     \* cur.Previous().Address() = admin

VWithdraw ==
  /\ VaultRuns /\ CallerIsAdmin /\ bal["vault"] >= 1
  /\ tx' = [tx EXCEPT !.spends = @ + 1]
  /\ bal' = Move(bal, "vault", "u1", 1)
  /\ code' = "ret"
  /\ UNCHANGED <<balV, frames, toks, caps, osend, ospent, ntok, ntx, nops, grants, pre, preV, done, left>>

\* Forward(n): send the coins that came with the call n times through an OriginSend banker
VForward(n, to) ==
  /\ VaultRuns /\ Top.prevUser /\ osend > 0
  /\ LET ok(k) == (ospent + k * osend <= osend) \/ ~OriginDecrement IN
       /\ \A k \in 1..n : ok(k) /\ bal["vault"] >= k * osend
       /\ bal' = Move(bal, "vault", to, n * osend)
       /\ ospent' = IF OriginDecrement THEN ospent + n * osend ELSE ospent
  /\ code' = "ret"
  /\ UNCHANGED <<balV, frames, toks, caps, tx, osend, ntok, ntx, nops, grants, pre, preV, done, left>>

\* PayParts(k): the vault pays k instalments of one unit each through ONE OriginSend banker (ForwardParts)
VStartPay(k) ==
  /\ VaultRuns /\ Top.prevUser /\ osend > 0
  /\ code' = "vpay" /\ left' = k
  /\ UNCHANGED <<bal, balV, frames, toks, caps, tx, osend, ospent, ntok, ntx, nops, grants, pre, preV, done>>

VPayStep ==
  /\ InTx /\ code = "vpay" /\ left > 0
  /\ OriginOK(1) /\ bal["vault"] >= 1           \* otherwise the send panics and the transaction is rolled back
  /\ bal' = Move(bal, "vault", "att", 1) /\ ospent' = OriginAfter(1) /\ left' = left - 1
  /\ code' = IF left = 1 THEN "ret" ELSE "vpay"
  /\ UNCHANGED <<balV, frames, toks, caps, tx, osend, ntok, ntx, nops, grants, pre, preV, done>>

\* PayoutVia: the vault hands an OriginSend banker over its own address to a third-party router (attacker code).
\* Within this transaction the banker stays inside the envelope; it only becomes a grant for later transactions.
VHandOrigin ==
  /\ VaultRuns /\ Top.prevUser
  /\ tx' = [tx EXCEPT !.ogrant = @ + 1]
  /\ caps' = caps \cup {[typ |-> "origin", addr |-> "vault", path |-> "vault"]}
  /\ code' = "att"
  /\ UNCHANGED <<bal, balV, frames, toks, osend, ospent, ntok, ntx, nops, grants, pre, preV, done, left>>

VMint(to) ==
  /\ VaultRuns /\ CallerIsAdmin
  /\ tx' = [tx EXCEPT !.issues = @ + 1]
  /\ balV' = [balV EXCEPT ![to] = @ + 1]
  /\ code' = "ret"
  /\ UNCHANGED <<bal, frames, toks, caps, osend, ospent, ntok, ntx, nops, grants, pre, preV, done, left>>

VBurn(from) ==
  /\ VaultRuns /\ CallerIsAdmin /\ balV[from] >= 1
  /\ tx' = [tx EXCEPT !.issues = @ + 1]
  /\ balV' = [balV EXCEPT ![from] = @ - 1]
  /\ code' = "ret"
  /\ UNCHANGED <<bal, frames, toks, caps, osend, ospent, ntok, ntx, nops, grants, pre, preV, done, left>>

\* Visit(cb): caller-supplied code runs inside the vault's frame; it gets no realm value
VVisit ==
  /\ VaultRuns /\ code' = "att"
  /\ UNCHANGED <<bal, balV, frames, toks, caps, tx, osend, ospent, ntok, ntx, nops, grants, pre, preV, done, left>>

\* Notify(hook): the vault cross-calls a caller-supplied crossing function
VNotify ==
  /\ VaultRuns /\ Len(frames) < 3
  /\ frames' = Append(frames, [who |-> "mal", tok |-> ntok, prevUser |-> FALSE])
  /\ toks' = toks \cup Reachable(frames') /\ ntok' = ntok + 1 /\ code' = "att"
  /\ UNCHANGED <<bal, balV, caps, tx, osend, ospent, ntx, nops, grants, pre, preV, done, left>>

\* Delegate(cb): the documented way to give authority away - the LIVE realm value is passed on
VDelegate ==
  /\ VaultRuns
  /\ tx' = [tx EXCEPT !.deleg = @ + 1] /\ grants' = grants \cup {"vault"}
  /\ toks' = toks \cup {Tok(Top.tok, "vault", Top.prevUser)} /\ code' = "att"
  /\ UNCHANGED <<bal, balV, frames, caps, osend, ospent, ntok, ntx, nops, pre, preV, done, left>>

\* Leak: the realm value is RETURNED; by then the frame is gone and the value is stale
VLeak ==
  /\ VaultRuns /\ Len(frames) > 1
  /\ toks' = toks \cup {Tok(Top.tok, "vault", Top.prevUser)}
  /\ frames' = SubSeq(frames, 1, Len(frames) - 1) /\ code' = "att"
  /\ UNCHANGED <<bal, balV, caps, tx, osend, ospent, ntok, ntx, nops, grants, pre, preV, done, left>>

\* ---- attacker code
AttRuns == InTx /\ code = "att" /\ nops < MaxOps
Op == nops' = nops + 1

AMint(typ, t) ==
  /\ AttRuns /\ t \in toks
  /\ CurrentCheck => t.id = Live
  /\ typ = "origin" => t.prevUser
  /\ caps' = caps \cup {[typ |-> typ, addr |-> t.addr, path |-> t.path]}
  /\ Op /\ UNCHANGED <<bal, balV, frames, code, toks, tx, osend, ospent, ntok, ntx, grants, pre, preV, done, left>>

ASend(c, from, to) ==
  /\ AttRuns /\ c \in caps /\ bal[from] >= 1
  /\ FromCheck => from = c.addr
  /\ c.typ = "origin" => OriginOK(1)
  /\ ospent' = IF c.typ = "origin" THEN OriginAfter(1) ELSE ospent
  /\ bal' = Move(bal, from, to, 1)
  /\ Op /\ UNCHANGED <<balV, frames, code, toks, caps, tx, osend, ntok, ntx, grants, pre, preV, done, left>>

AIssue(c, to, owner) ==
  /\ AttRuns /\ c \in caps /\ c.typ = "issue"
  /\ DenomCheck => owner = c.path
  /\ owner = "vault"                       \* only the vault's denomination is tracked
  /\ balV' = [balV EXCEPT ![to] = @ + 1]
  /\ Op /\ UNCHANGED <<bal, frames, code, toks, caps, tx, osend, ospent, ntok, ntx, grants, pre, preV, done, left>>

ARemove(c, from, owner) ==
  /\ AttRuns /\ c \in caps /\ c.typ = "issue" /\ balV[from] >= 1
  /\ DenomCheck => owner = c.path
  /\ owner = "vault"
  /\ balV' = [balV EXCEPT ![from] = @ - 1]
  /\ Op /\ UNCHANGED <<bal, frames, code, toks, caps, tx, osend, ospent, ntok, ntx, grants, pre, preV, done, left>>

\* the attacker cross-calls a vault function from its own crossing frame (the vault's previous realm is not a user)
ACrossVault ==
  /\ AttRuns /\ Len(frames) < 3 /\ Top.who # "vault"
  /\ frames' = Append(frames, [who |-> "vault", tok |-> ntok, prevUser |-> FALSE])
  /\ ntok' = ntok + 1 /\ code' = "vault"
  /\ Op /\ UNCHANGED <<bal, balV, toks, caps, tx, osend, ospent, ntx, grants, pre, preV, done, left>>

\* return from the top frame (attacker code or a finished vault function)
Return ==
  /\ InTx /\ code \in {"att", "ret"} /\ Len(frames) > 1
  /\ frames' = SubSeq(frames, 1, Len(frames) - 1)
  /\ code' = IF frames[Len(frames) - 1].who = "vault" THEN "ret" ELSE "att"
  /\ UNCHANGED <<bal, balV, toks, caps, tx, osend, ospent, ntok, ntx, nops, grants, pre, preV, done, left>>

End ==
  /\ InTx /\ code \in {"att", "ret"}
  /\ frames' = <<>> /\ code' = "none" /\ toks' = {} /\ tx' = NoTx /\ osend' = 0 /\ ospent' = 0
  /\ done' = (ntx >= MaxTx) /\ left' = 0
  /\ grants' = IF tx.ogrant > 0 THEN grants \cup {"vault"} ELSE grants
  /\ UNCHANGED <<bal, balV, caps, ntok, ntx, nops, pre, preV>>

Next ==
  \/ \E s \in {"u1", "att"}, t \in {"vault", "mal", "run"}, n \in 0..2 : Begin(s, t, n)
  \/ VWithdraw \/ VVisit \/ VNotify \/ VDelegate \/ VLeak \/ VHandOrigin \/ VPayStep
  \/ \E k \in 1..3 : VStartPay(k)
  \/ \E n \in 1..2, to \in {"u2", "att"} : VForward(n, to)
  \/ \E a \in {"u1", "att"} : VMint(a)
  \/ \E a \in {"u2", "att"} : VBurn(a)
  \/ \E typ \in {"realm", "origin", "issue"}, t \in toks : AMint(typ, t)
  \/ \E c \in caps, from \in {"u1", "u2", "vault", "vdep", "mal", "att"} : ASend(c, from, "att")
  \/ \E c \in caps, owner \in {"vault", "mal"} : AIssue(c, "att", owner) \/ ARemove(c, "u2", owner)
  \/ ACrossVault \/ Return \/ End

Spec == Init /\ [][Next]_vars

\* ---- the statement, at every point of every transaction (relative to its start)
InvDecrease == InTx => DecreaseOnlyWithAuthority(pre, bal, tx, grants)
InvDenom == InTx => RealmDenomAuthority(preV, balV, tx, grants)
\* a banker over the vault's address exists only after a delegation
InvCapsNeedGrant == (\E c \in caps : c.addr = "vault") => ("vault" \in grants \/ tx.ogrant > 0)
\* whatever leaves through origin-send bankers in one message never exceeds what came with it: the vault's balance
\* never drops below its pre-transaction value unless RealmSend authority was exercised (part of InvDecrease)
InvOriginNet == (InTx /\ tx.spends = 0 /\ tx.deleg = 0 /\ "vault" \notin grants) => bal["vault"] >= pre["vault"]
=============================================================================
