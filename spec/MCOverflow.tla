---------------------------- MODULE MCOverflow ----------------------------
(* C19, TLC instance of Overflow.tla at a small width: checks the *Exact invariants on every
   operand pair and emits the PROPERTY layer as one table row per left operand:
   <<"ROW", {act, w, signed, a, add, sub, mul, div}>> where add[i] .. div[i] is the required
   outcome for b = MIN + i - 1: the mathematical result when it is representable (success
   required, this value required), OVF when the helper must report failure / the panicking
   variant must panic. *)
EXTENDS Overflow, Sequences, TLC, Json

OVF == 4 * MOD      \* not a representable value at width W

Enc(ok, r) == IF ok THEN r ELSE OVF
N == MAX - MIN + 1
Row(x) ==
  [act |-> "Row", w |-> W, signed |-> Signed, a |-> x,
   add |-> [i \in 1..N |-> LET y == MIN + i - 1 IN Enc(Rep(x + y), x + y)],
   sub |-> [i \in 1..N |-> LET y == MIN + i - 1 IN Enc(Rep(x - y), x - y)],
   mul |-> [i \in 1..N |-> LET y == MIN + i - 1 IN Enc(Rep(x * y), x * y)],
   div |-> [i \in 1..N |-> LET y == MIN + i - 1 IN
              IF y = 0 THEN OVF ELSE Enc(Rep(TruncDiv(x, y)), TruncDiv(x, y))]]
\* evaluated once per left operand (in the states with b = MIN)
EmitRow == b # MIN \/ PrintT(<<"ROW", ToJson(<<Row(a)>>)>>)
=============================================================================
