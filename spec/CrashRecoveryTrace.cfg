CONSTANT MaxHeight = 6
INIT TraceInit
NEXT TraceNext
INVARIANTS GuardsHold
CHECK_DEADLOCK FALSE
