CONSTANTS
  MaxVer = 4
  NQ = 3
  NCheck = 0
  QKinds <- KAll
  Orders <- OAll
  Crashes = FALSE
  Snapshots = TRUE
  Fine = TRUE
  AtomicResolve = TRUE
  Coarse = TRUE
  Keep = 1
  StoreDirect = FALSE
  MetaDirect = FALSE
  MaxLen = 90
INIT Init
NEXT Next
VIEW StateView
INVARIANTS TypeOK Recoverable QueryConsistent QueryCommitted RefsSound SnapshotsWhole
PROPERTIES QueriesReadOnly
