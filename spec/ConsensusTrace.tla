---------------------------- MODULE ConsensusTrace ----------------------------
(* (V) for C31: every step of REAL ConsensusState objects (harness/cmd/consensus: seeded
   adversarial scheduler, Byzantine twins, crafted votes, false +2/3 claims) is one NDJSON
   line. This module re-uses the GUARDS of Consensus.tla -- the ones TLC proves sufficient
   for Agreement -- and holds each honest node to them, evaluated on the messages that were
   actually delivered to that node:

     a newly signed prevote            => PrevoteOKP (lock before or after the step)
     a newly signed precommit for v    => LockOKP: +2/3 prevotes for v in that round seen
     a lock acquired / moved           => LockOKP for the new (round, block)
     a precommit for a block           => the node is then locked on that block at that round
     a lock released                   => UnlockOKP: a later polka for something else seen
     a block committed at height h     => DecideOKP: +2/3 precommits for it in one round seen
     two signatures for one (type, height, round) must be for the same value
   and evaluates Agreement over all honest nodes' commits in every recorded state.       *)
EXTENDS Integers, FiniteSets, Sequences, Json, TLC, ConsensusGuards

TheTrace == ndJsonDeserialize("consensus_trace.ndjson")

VARIABLES l,        \* next line
          power,    \* [validator -> power] of the current scenario
          honest,   \* honest validator names
          seenPv, seenPc, seenProp,   \* per honest validator: messages delivered to it (records with h)
          signedV,  \* per honest validator: set of [kind,h,round,value] it signed
          last,     \* per honest validator: last projection
          decided,  \* [height string -> set of committed block ids] over honest validators
          viol      \* names of the guards the last step did not satisfy
tvars == <<l, power, honest, seenPv, seenPc, seenProp, signedV, last, decided, viol>>

Names == {"h1", "h2", "h3", "b1"}
St0 == [h |-> 1, r |-> 0, s |-> 1, lr |-> -1, lv |-> Nil, vr |-> -1, vv |-> Nil, pb |-> Nil, dec |-> <<>>]

InitFrom(e) ==
  /\ power = [n \in Names |-> e.power[n]]
  /\ honest = {e.honest[i] : i \in 1..Len(e.honest)}
  /\ seenPv = [n \in Names |-> {}] /\ seenPc = [n \in Names |-> {}] /\ seenProp = [n \in Names |-> {}]
  /\ signedV = [n \in Names |-> {}]
  /\ last = [n \in Names |-> St0]
  /\ decided = <<>> /\ viol = {}

TraceInit == /\ l = 2 /\ TheTrace[1].act = "Init" /\ InitFrom(TheTrace[1]) /\ TLCSet(1, 0)

Ln == TheTrace[l]
AtH(S, h) == {m \in S : m.h = h}
SignedList(e) == {e.signed[i] : i \in 1..Len(e.signed)}
DecOf(st) == {<<k, st.dec[k]>> : k \in DOMAIN st.dec}

TReset ==
  /\ l + 1 <= Len(TheTrace) /\ Ln.act = "Reset" /\ TheTrace[l + 1].act = "Init"
  /\ LET e == TheTrace[l + 1] IN
       /\ power' = [n \in Names |-> e.power[n]]
       /\ honest' = {e.honest[i] : i \in 1..Len(e.honest)}
       /\ seenPv' = [n \in Names |-> {}] /\ seenPc' = [n \in Names |-> {}] /\ seenProp' = [n \in Names |-> {}]
       /\ signedV' = [n \in Names |-> {}]
       /\ last' = [n \in Names |-> St0]
       /\ decided' = <<>> /\ viol' = {}
  /\ l' = l + 2

\* steps of Byzantine instances are not constrained (their messages are, when they reach honest nodes)
TByzStep ==
  /\ l <= Len(TheTrace) /\ Ln.act = "Step" /\ Ln.node \notin honest
  /\ l' = l + 1
  /\ UNCHANGED <<power, honest, seenPv, seenPc, seenProp, signedV, last, decided, viol>>

TStep ==
  /\ l <= Len(TheTrace) /\ Ln.act = "Step" /\ Ln.node \in honest
  /\ LET e == Ln
         n == e.node
         m == e.msg
         st0 == last[n]
         st1 == e.st
         h == st0.h
         vote == [src |-> m.src, h |-> m.h, round |-> m.r, value |-> m.v]
         pv1 == IF m.kind = "prevote" /\ m.h = h THEN seenPv[n] \cup {vote} ELSE seenPv[n]
         pc1 == IF m.kind = "precommit" /\ m.h = h THEN seenPc[n] \cup {vote} ELSE seenPc[n]
         pp1 == IF m.kind = "proposal" /\ m.h = h THEN seenProp[n] \cup {[h |-> m.h, round |-> m.r, value |-> m.v]} ELSE seenProp[n]
         sg == SignedList(e)
         sameH == st1.h = st0.h
         newDec == DecOf(st1) \ DecOf(st0)
         gEquiv == \A s \in sg : s.kind \in {"prevote", "precommit"} =>
                     \A t \in signedV[n] \cup (sg \ {s}) : (t.kind = s.kind /\ t.h = s.h /\ t.r = s.r) => t.v = s.v
         gPrevote == \A s \in sg : (s.kind = "prevote" /\ s.h = h) =>
                     \/ PrevoteOKP(power, st0.lv, AtH(pp1, h), AtH(pv1, h), s.r, s.v)
                     \/ PrevoteOKP(power, IF sameH THEN st1.lv ELSE st0.lv, AtH(pp1, h), AtH(pv1, h), s.r, s.v)
         gPrecommit == \A s \in sg : (s.kind = "precommit" /\ s.h = h /\ s.v # Nil) => LockOKP(power, AtH(pv1, h), s.r, s.v)
         \* enterPrecommit: precommitting a block (re)locks it AT THIS ROUND (Consensus.tla Precommit, first outcome)
         gRelock == \A s \in sg : (s.kind = "precommit" /\ s.h = h /\ s.v # Nil /\ sameH) => (st1.lr = s.r /\ st1.lv = s.v)
         gLock == (sameH /\ st1.lv # Nil /\ <<st1.lr, st1.lv>> # <<st0.lr, st0.lv>>) => LockOKP(power, AtH(pv1, h), st1.lr, st1.lv)
         gUnlock == (sameH /\ st0.lv # Nil /\ st1.lv = Nil) => UnlockOKP(power, AtH(pv1, h), st0.lr, st0.lv, st1.r)
         gDecide == \A d \in newDec : DecideOKP(power, {x \in pc1 : ToString(x.h) = d[1]}, d[2])
     IN
       \* the trace is always consumed; each guard that does not hold is recorded by name and reported by the
       \* invariant GuardsHold together with the line number
       /\ viol' = (IF gEquiv THEN {} ELSE {"equivocation"}) \cup (IF gPrevote THEN {} ELSE {"prevote-against-lock-or-without-block"})
                   \cup (IF gPrecommit THEN {} ELSE {"precommit-without-polka"}) \cup (IF gLock THEN {} ELSE {"lock-without-polka"})
                   \cup (IF gRelock THEN {} ELSE {"precommit-does-not-lock-at-its-round"})
                   \cup (IF gUnlock THEN {} ELSE {"unlock-without-later-polka"}) \cup (IF gDecide THEN {} ELSE {"commit-without-two-thirds-precommits"})
       /\ decided' = [k \in DOMAIN decided \cup {d[1] : d \in newDec} |->
                        (IF k \in DOMAIN decided THEN decided[k] ELSE {}) \cup {d[2] : d \in {x \in newDec : x[1] = k}}]
       /\ seenPv' = [seenPv EXCEPT ![n] = pv1]
       /\ seenPc' = [seenPc EXCEPT ![n] = pc1]
       /\ seenProp' = [seenProp EXCEPT ![n] = pp1]
       /\ signedV' = [signedV EXCEPT ![n] = @ \cup {s \in sg : s.kind \in {"prevote", "precommit"}}]
       /\ last' = [last EXCEPT ![n] = st1]
  /\ l' = l + 1
  /\ UNCHANGED <<power, honest>>

\* a node that panicked inside a step has halted; nothing to check for that line (progress is checked by the driver)
TPanic ==
  /\ l <= Len(TheTrace) /\ Ln.act = "Panic"
  /\ l' = l + 1
  /\ UNCHANGED <<power, honest, seenPv, seenPc, seenProp, signedV, last, decided, viol>>

TraceNext == TReset \/ TByzStep \/ TStep \/ TPanic
TraceSpec == TraceInit /\ [][TraceNext]_tvars

\* C31: no two honest nodes commit different blocks at one height
GuardsHold == viol = {}
Agreement == \A k \in DOMAIN decided : Cardinality(decided[k]) <= 1
HighWater == TLCSet(1, IF l > TLCGet(1) THEN l ELSE TLCGet(1))
Accepted == IF TLCGet(1) = Len(TheTrace) + 1 THEN TRUE ELSE PrintT(<<"REJECTED-AT", TLCGet(1)>>) /\ FALSE
=============================================================================
