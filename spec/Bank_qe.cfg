SPECIFICATION Spec
CONSTANTS
  Addrs <- A3
  Amts <- Amt01
  Cap = 100
  MaxLen = 3
  MaxTime = 5
  RawOps = TRUE
  IOIns <- InsQ3
  IOOuts <- OutsQ3
  Genesis <- Gen1
VIEW View
INVARIANTS SupplyEq BalanceWellFormed SupplyWellFormed HolderHasAccount NumsUnique
PROPERTIES OnlyMintBurnChangeSupply TransferNeutral MintBurnExact FailedChangesNothing AccountsStable
ACTION_CONSTRAINT EmitEdge
