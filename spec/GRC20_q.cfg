CONSTANTS
  NA = 2
  Cap = 3
  Amts <- AmtsS
  Vias <- ViasLedger
  MaxLen = 5
  AsCode = FALSE
  Quiet = TRUE
INIT Init
NEXT Next
VIEW View
INVARIANTS TypeOK SupplyEq
PROPERTIES FailedIsNoOp TransferNeutral AllowanceHonoured MintBurnExact

