CONSTANTS
  Plans <- PlansT
  Calls <- TheCalls
  H = 3
  R = 1
INIT Init
NEXT Next
VIEW View
INVARIANTS TypeOK Sound Complete EmitAtEnd
