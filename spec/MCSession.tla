---------------------------- MODULE MCSession ----------------------------
EXTENDS Session
M(k, x) == [k |-> k, x |-> x]
C(l, p, e, a) == [limit |-> l, period |-> p, expin |-> e, allow |-> a]
None == C(-1, 0, 0, "*")
S2 == {"s1", "s2"}
S1 == {"s1"}

\* s1: limit 3 per period of 2, expires at 4;  s2: lifetime limit 2, exec only
PreA == [s \in S2 |-> IF s = "s1" THEN C(3, 2, 4, "*") ELSE C(2, 0, 0, "exec")]
\* s1: lifetime limit 4;  s2 absent
PreB == [s \in S2 |-> IF s = "s1" THEN C(4, 0, 0, "*") ELSE None]
PreC == [s \in S2 |-> IF s = "s1" THEN C(3, 3, 0, "send") ELSE C(3, 2, 3, "*")]

MenuQ == { <<M("send", 1)>>, <<M("send", 2)>>, <<M("send", 3)>>, <<M("pay", 1)>>, <<M("pay", 0)>>, <<M("grow", 1)>>, <<M("grow", 2)>>,
           <<M("shrink", 1)>>, <<M("paypanic", 1)>>, <<M("give", 1)>>, <<M("other", 1)>>, <<M("revoke", 1)>>,
           <<M("send", 1), M("send", 1)>>, <<M("send", 1), M("grow", 2)>>, <<M("pay", 1), M("paypanic", 1)>>,
           <<M("grow", 1), M("send", 2)>>, <<M("send", 2), M("send", 2)>> }
MenuT == MenuQ \cup { <<M("pay", 2), M("grow", 1)>>, <<M("grow", 2), M("shrink", 1)>>, <<M("send", 1), M("other", 1)>>,
                      <<M("give", 1), M("send", 3)>>, <<M("pay", 3)>>, <<M("shrink", 2)>>, <<M("grow", 1), M("paypanic", 2)>> }
O(x) == M("osend", x)
\* mixed transactions: ordinary-then-session, session-then-ordinary, three messages; session messages of every class
MixQ == { <<O(1), M("send", 1)>>, <<O(1), M("send", 3)>>, <<O(1), M("pay", 1)>>, <<O(1), M("other", 1)>>, <<O(1), M("revoke", 1)>>, <<O(1), M("revoke", 2)>>,
          <<O(1), M("grow", 1)>>, <<O(1), M("grow", 2)>>, <<O(1), M("paypanic", 1)>>, <<O(1), M("give", 1)>>,
          <<M("send", 1), O(1)>>, <<M("other", 1), O(1)>>, <<M("revoke", 1), O(1)>>, <<M("pay", 1), O(2)>>, <<M("send", 1), O(30)>>,
          <<O(1), M("pay", 1), M("send", 2)>>, <<O(1), M("send", 1), M("revoke", 1)>>, <<M("send", 1), O(1), M("grow", 1)>>,
          <<O(30), M("send", 1)>>, <<O(1), O(1), M("other", 1)>> }
CreatesQ == { C(3, 0, 0, "*"), C(2, 2, 0, "*"), C(3, 0, 2, "*"), C(0, 0, 0, "*"), C(3, 0, 0, "send"), C(3, 2, 0, "exec"), C(3, 0, 0, "execother") }
F12 == {1, 2}   \* a transaction with a zero fee cannot be expressed (the zero coin loses its denom on the wire and fails Tx.ValidateBasic)
=============================================================================
