CONSTANTS
  NK = 3
  NV = 2
  MaxVer = 3
  MaxLen = 6
  NR = 1
  Impl = "iavl"
  SmallTree = FALSE
  Opts <- OptsIavl2
  Reads = FALSE
  BadArgs = FALSE
  SvAlways = TRUE
  Quiet = TRUE
  FillSizes <- FillNone
  Scripts <- NoScripts
INIT Init
NEXT NextF
VIEW ViewH
INVARIANTS TypeOK Contig WorkingRetained ReadersRetained CleanIsSaved NotRetainedIsBlank HkFunctional
PROPERTIES SavedImmutable PruneKeepsRetained OnlyNext SessionDrop

