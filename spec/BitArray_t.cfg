CONSTANTS
  Regs <- R3
  CRegs <- NoRegs
  Sizes <- SzCompact
  SmallMax = 3
  Mode = "free"
  Laws = TRUE
  NewUntil = 6
  MaxLen = 6
INIT Init
NEXT Next
VIEW View
INVARIANTS TypeOK LawsHold

