CONSTANTS
  Users <- TUsers
  Others <- TOthers
  Vars <- TVars
  GasNeeds = {}
  FlushFirst = FALSE
  CompareState = FALSE
INIT TraceInit
NEXT TraceNext
CONSTRAINT HighWater
INVARIANTS GasUsedLeWanted OkWithinBlock NoTxAfterExhausted NonNegative
POSTCONDITION Accepted
CHECK_DEADLOCK FALSE
