---------------------------- MODULE MCKVOverlay ----------------------------
EXTENDS KVOverlay
\* small universe: prefix 01 with its 0x00 / 0xFF children, the next prefix 02, prefix FF (no upper bound)
KeysS == { <<1>>, <<1, 0>>, <<1, 255>>, <<2>>, <<255>> }
PfxS == { <<1>>, <<255>> }
\* medium universe: adds a key before the prefixes, a deeper 0xFF chain (prefix 01FF, whose end bound is 02),
\* FF FF, and two keys that are never written (bounds between stored keys)
KeysM == { <<0>>, <<1>>, <<1, 0>>, <<1, 1>>, <<1, 255>>, <<1, 255, 255>>, <<2>>, <<254, 255>>, <<255>>, <<255, 255>> }
DataM == KeysM \ { <<1, 1>>, <<254, 255>> }
PfxM == { <<1>>, <<255>>, <<1, 255>> }
EmptyB == [i \in Idx |-> "NIL"]
FullB == [i \in Idx |-> IF i \in DataIdx THEN "a" ELSE "NIL"]
AltB == [i \in Idx |-> IF i \in DataIdx /\ i % 2 = 1 THEN "" ELSE "NIL"]
Bases1 == {FullB}
Bases2 == {EmptyB, FullB}
Bases3 == {EmptyB, FullB, AltB}
BasesFA == {FullB, AltB}
=============================================================================
