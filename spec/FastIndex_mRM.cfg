CONSTANTS
  Keys <- K2
  Vals <- V2
  MaxVer = 3
  Direct = TRUE
  Keep <- KeepAll
  NLoads = 1
  Abandon = TRUE
  Toggle = TRUE
  RemoveDeletesEntry = TRUE
  VersionGuard = TRUE
  StampGate = TRUE
  ReaderMaintains = TRUE
  StampAheadRebuilds = TRUE
  MaxLen = 14
INIT Init
NEXT Next
VIEW StateView
INVARIANTS TypeOK LiveSound ImmSound QuerySound ReaderSound StampNeverAhead
PROPERTIES LoaderLeavesDisk
