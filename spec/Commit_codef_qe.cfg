CONSTANTS
  MaxVer = 3
  NQ = 2
  NCheck = 1
  QKinds <- KAll
  Orders <- OAll
  Crashes = FALSE
  Snapshots = TRUE
  Fine = TRUE
  AtomicResolve = FALSE
  Coarse = TRUE
  Keep <- KeepAll
  StoreDirect = FALSE
  MetaDirect = FALSE
  MaxLen = 60
INIT Init
NEXT Next
VIEW StateView
INVARIANTS TypeOK Recoverable QueryCommitted RefsSound SnapshotsWhole
PROPERTIES QueriesReadOnly
ACTION_CONSTRAINT EmitEdge
