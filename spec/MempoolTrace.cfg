CONSTANTS
  Txs <- T4
  SizeOf <- Size4
  GasOf <- Gas4
  CfgSize = 3
  CfgMaxBytes = 7
  CacheSize = 4
  Recheck = TRUE
  InitMaxTx = 3
  MaxTxChoices <- MaxTx0
  BanChoices <- BanKeep
  MaxCommit = 2
  ReapBytes <- Reap135
  ReapGas <- Reap024
  MaxLen = 1000000
INIT TInit
NEXT TNext
VIEW TView
CONSTRAINT Mark
INVARIANTS TypeOK NoDuplicates SizeWithinLimits CacheWellFormed
PROPERTIES TStepProps
POSTCONDITION Accepted
