CONSTANTS
  Keys <- KeysM
  DataKeys <- DataM
  Vals = {"a", ""}
  Prefixes <- PfxM
  Stores = {"s1"}
  MaxLayers = 3
  MaxLen = 5
  InitBases <- Bases2
  ReadAll = FALSE
  LogViews = FALSE
  Quiet = TRUE
INIT Init
NEXT Next
VIEW View
INVARIANTS TypeOK OverlayEqualsFlat CheckpointIsSaved LastScanOK
PROPERTIES FlushIsLocal PopDiscards

