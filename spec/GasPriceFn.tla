---------------------------- MODULE GasPriceFn ----------------------------
(* C17, the adjustment rule as a function. Pure operators shared by the TLC state machine
   (GasPrice.tla) and the Apalache harness (GasPriceApa.tla); written in the fragment both
   tools accept.

   Raw transcribes GasPriceKeeper.calcBlockGasPrice (tm2/pkg/sdk/auth/keeper.go) line by line
   over unbounded integers (the code uses math/big): every big.Int.Div there has a positive
   divisor and a non-negative dividend, so Euclidean division = \div.

   What the PROPERTY demands of the new price `out` is stated separately, as the clause Cls
   that applies to the inputs and the interval Lo..Hi it allows:
     Stay   dynamic pricing disabled (stored price 0 or ratio 0) or used = target : out = last
     Up     used > target                       : out >= last + 1 (saturating at MaxPrice)
     Down   used < target, last > init          : init <= out <= last - 1
     Floor  used < target, last <= init         : out = init  (never below the initial price;
                                                  a price below a raised floor snaps to it)
     Free   target < 1 with used # target       : only "no panic, 0 <= out <= MaxPrice"
   and, for every class, the computation must not panic or overflow (the driver observes it).
   Calc is the rule made total the way the statement requires: saturating at MaxPrice.

   Named deviations / limits (BUILDING soundness rule 2):
   * target < 1 (MaxGas*ratio < 100, or MaxGas = 0) leaves the rule's quotient undefined; the
     statement does not say what the price should do, so only NoPanic and the range are
     demanded there (class Free); used = target = 0 is Stay.
   * MaxGas = -1 ("no block gas limit") is outside the modelled domain.
   * The magnitude of a move (the exact value Calc) is a guidance observable: the driver
     counts a difference as drift; only the clause interval decides. One exception: where the
     rule's intermediate product exceeds the machine word (BigProduct) and the code agrees with
     Calc everywhere else, a different value is reported as a silent overflow
     (C17:NoOverflow:intermediate) - "the computation never overflows".                     *)
EXTENDS Integers

CONSTANT
  \* largest representable price: 2^63 - 1 for the code; TLC instances use 2^31 - 1 (never reached)
  \* @type: Int;
  MaxPrice

Max(x, y) == IF x >= y THEN x ELSE y
Min(x, y) == IF x <= y THEN x ELSE y

\* num.Mul(maxGas, TargetGasRatio); num.Div(num, 100)
Target(maxGas, ratio) == (maxGas * ratio) \div 100
\* lastGasPrice.Price.Amount == 0  ||  params.TargetGasRatio == 0
Disabled(last, ratio) == last = 0 \/ ratio = 0
\* num = gap * last / target / compressor; diff = maxBig(num, 1)      (requires t >= 1)
Step(gap, last, t, comp) == Max(((gap * last) \div t) \div comp, 1)

\* where the rule's formula is evaluated and its quotient is undefined
Undefined(last, used, maxGas, ratio) ==
  ~Disabled(last, ratio) /\ Target(maxGas, ratio) # used /\ Target(maxGas, ratio) < 1

Raw(last, used, maxGas, ratio, comp, init) ==
  LET t == Target(maxGas, ratio) IN
  IF Disabled(last, ratio) THEN last
  ELSE IF t = used THEN last
  ELSE IF t < 1 THEN last                      \* placeholder: class Free, value not demanded
  ELSE IF used > t THEN last + Step(used - t, last, t, comp)
  ELSE IF last < init THEN init
  ELSE Max(last - Step(t - used, last, t, comp), init)

\* the rule's intermediate product gap * last does not fit the machine word: the value can only be right
\* if the computation really is done in big integers ("never overflows" includes silent wrap-around)
BigProduct(last, used, maxGas, ratio) ==
  LET t == Target(maxGas, ratio) IN
  ~Disabled(last, ratio) /\ t >= 1 /\ t # used /\ (IF used > t THEN used - t ELSE t - used) * last > MaxPrice

Saturates(last, used, maxGas, ratio, comp, init) == Raw(last, used, maxGas, ratio, comp, init) > MaxPrice
Calc(last, used, maxGas, ratio, comp, init) == Min(Raw(last, used, maxGas, ratio, comp, init), MaxPrice)

Cls(last, used, maxGas, ratio, init) ==
  LET t == Target(maxGas, ratio) IN
  IF Disabled(last, ratio) \/ t = used THEN "Stay"
  ELSE IF t < 1 THEN "Free"
  ELSE IF used > t THEN "Up"
  ELSE IF last > init THEN "Down"
  ELSE "Floor"

Lo(last, used, maxGas, ratio, init) ==
  LET c == Cls(last, used, maxGas, ratio, init) IN
  IF c = "Stay" THEN last
  ELSE IF c = "Free" THEN 0
  ELSE IF c = "Up" THEN Min(last + 1, MaxPrice)
  ELSE init

Hi(last, used, maxGas, ratio, init) ==
  LET c == Cls(last, used, maxGas, ratio, init) IN
  IF c = "Stay" THEN last
  ELSE IF c = "Free" \/ c = "Up" THEN MaxPrice
  ELSE IF c = "Down" THEN last - 1
  ELSE init

\* the design (Calc) satisfies the property (its clause interval)
InBounds(last, used, maxGas, ratio, comp, init) ==
  LET o == Calc(last, used, maxGas, ratio, comp, init) IN
  /\ Lo(last, used, maxGas, ratio, init) <= o
  /\ o <= Hi(last, used, maxGas, ratio, init)
  /\ 0 <= o
=============================================================================
