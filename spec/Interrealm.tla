------------------------------ MODULE Interrealm ------------------------------
(* C07 - a realm's persisted state changes only under that realm's authority.

   What is modelled (gnovm/pkg/gnolang/machine.go PushFrameCall, IsReadonly/IsReadonlyBy,
   realm.go DidUpdate; docs/resources/gno-interrealm.md and gno-interrealm-v2.md):

     * a call stack of frames [code, st, auth]: `code` = the package whose SOURCE TEXT the
       frame executes, `st` = the realm-storage-context (m.Realm) the frame runs with,
       `auth` = whether the interrealm specification lets this frame
       act with the VICTIM's storage authority (ghost, used by the invariants only);
     * PushFrameCall as the operator Push: explicit cross-call, borrow rule #1 (callable declared
       in a realm package runs with its declaring realm), #2 (library method on an object-bearing
       receiver runs with the receiver's allocating realm), #3 (library closure runs with the realm
       that minted it), otherwise the callee inherits the caller's storage context;
     * function values: closures are minted by the running frame (stamped with its storage context)
       and may later be called from ANY frame (values flow freely - an over-approximation);
     * Write(o): the write guard `real(o) => owner(o) = st` of IsReadonlyBy/DidUpdate; a failed
       guard aborts the transaction (nothing persists);
     * Convert(p): re-typing a value stored in another realm as a library type with mutating methods is
       refused (doOpConvert case 1; switch ConvertGuard, Interrealm_conv.cfg shows the foreign write without it);
     * construction of a value of a realm-declared type requires st = declaring realm
       (Allocator.checkConstructionTime, doOpConvert) - action Construct.

   Named deviation switch EphemeralIsRealm.  The specification calls MsgRun packages "ephemeral
   realms (/e/)" and states borrow rule #1 for every callable declared in a realm package
   ("an attacker cannot get their own code to run with victim's authority by tricking the victim
   into calling it"; the only documented gap is a top-level /p/ function).  The spec therefore
   applies rule #1 to /e/ packages (EphemeralIsRealm = TRUE).  The implementation tests
   IsRealmPath, which is false for /e/; Interrealm_eph.cfg sets the switch to FALSE and TLC then
   finds the foreign write (a top-level function of the script, handed to the victim as a callback,
   inherits the victim's storage context).  The check never adopts that behaviour: verdict shapes
   are judged on the real VM by "victim state unchanged or transaction failed".

   Second half of the module: SHAPES.  A shape = attacker context (a chain of calls, evaluated with
   the same Push operator) x access path x write kind.  TLC enumerates the applicable combinations,
   computes for each the frame that textually contains the write, whether the documented rules let it
   mutate (mutDoc), whether the rules minus the switch do (mutEph), and its class:
     verdict - the write statement is in attacker-declared code and is not one of the documented
               open cases; the driver's oracle is model independent;
     control - the write is performed by code of the victim or of the trusted library on a
               victim-owned receiver (must mutate: shows the harness observes mutations);
     open    - a top-level /p/ function (or value-receiver /p/ method) of the attacker running with authority
               inherited from an authorised frame (documented "no-anchor"/Apply class, gno-interrealm-v2 4.4,
               gno-security-guide 3(B)/(C));
     forbid  - the statement's two other clauses: constructing a value of a victim-declared type (composite
               literal, new, conversion) in attacker code, and persisting a realm value; the transaction must fail. *)
EXTENDS Integers, Sequences, FiniteSets, TLC, Json

CONSTANTS Pkgs, Victim, EphemeralIsRealm, ConvertGuard, MaxDepth, MaxFvals, Shapes,
          KindOfC, CtxsC, PathsC, WritesC   \* tables, defined in MCInterrealm

KindOf == KindOfC
Ctxs == CtxsC
Paths == PathsC
Writes == WritesC

VARIABLES stack, fvals, val, aborted, wlog, alias, laund, n, hist
vars == <<stack, fvals, val, aborted, wlog, alias, laund, n, hist>>
View == <<stack, fvals, val, aborted, wlog, alias, laund, n>>

None == "none"
NoWrite == [obj |-> None, code |-> None, st |-> None, auth |-> FALSE]
Realms == {p \in Pkgs : KindOf[p] \in {"r", "e"}}
Objs == {"vR", "vA", "vS", "uS"}          \* real object of R, of A, of S (this tx only), unreal object minted by S
OwnerOf == [o \in Objs |-> CASE o = "vR" -> Victim [] o = "vA" -> "A" [] OTHER -> "S"]
RealObj(o) == o # "uS"

RealmDeclared(p, eph) == KindOf[p] = "r" \/ (KindOf[p] = "e" /\ eph)

\* ---- callee descriptors
X(p) == [kind |-> "cross", pkg |-> p, recv |-> None, minter |-> None]
F(p) == [kind |-> "fn", pkg |-> p, recv |-> None, minter |-> None]
M(p, r) == [kind |-> "method", pkg |-> p, recv |-> r, minter |-> None]
C(p, m) == [kind |-> "closure", pkg |-> p, recv |-> None, minter |-> m]

\* ---- PushFrameCall
StOf(top, c, eph) ==
  IF c.kind = "cross" THEN c.pkg
  ELSE IF RealmDeclared(c.pkg, eph) THEN c.pkg                                   \* borrow rule #1
  ELSE IF c.kind = "method" /\ c.recv # None THEN c.recv                          \* borrow rule #2
  ELSE IF c.kind = "closure" /\ c.minter # None THEN c.minter                     \* borrow rule #3
  ELSE top.st                                                                      \* no anchor: inherit

AuthOf(top, c) ==
  IF c.pkg = Victim THEN TRUE
  ELSE IF KindOf[c.pkg] # "p" THEN FALSE
  ELSE IF c.kind = "method" /\ c.recv # None THEN c.recv = Victim /\ c.pkg \notin laund
  ELSE IF c.kind = "closure" /\ c.minter # None THEN c.minter = Victim
  ELSE top.auth                                                                    \* documented no-anchor inheritance

Push(top, c, eph) == [code |-> c.pkg, st |-> StOf(top, c, eph), auth |-> AuthOf(top, c)]

Main == [code |-> "S", st |-> "S", auth |-> FALSE]

RECURSIVE Chain(_, _, _)
Chain(fr, calls, eph) == IF calls = <<>> THEN <<fr>>
                          ELSE <<fr>> \o Chain(Push(fr, Head(calls), eph), Tail(calls), eph)

Top == stack[Len(stack)]

\* which callees may the running frame name?  (/p/ code cannot import realms: it can only call
\* its own package and function values; function values and methods on reachable objects are
\* available to everybody)
\* the machine part runs over MPkgs: the third-party library T is, for PushFrameCall, exactly like the attacker's
\* /p/ package Q (a /p/ package the victim did not choose); T only names stdlib types in the shape tables
MPkgs == Pkgs \ {"T"}
Callable(fr) ==
  LET named == IF KindOf[fr.code] = "p" THEN {p \in MPkgs : KindOf[p] = "p"} ELSE MPkgs \ {"S"}
  IN  {X(p) : p \in {q \in named : KindOf[q] = "r"}}
      \cup {F(p) : p \in named \cup {fr.code}}
      \cup {F(p) : p \in MPkgs}                      \* a top-level function passed around as a value
      \cup {M(p, r) : p \in {q \in MPkgs : KindOf[q] = "p"}, r \in (Realms \ {Victim}) \cup {None}}
      \cup {M(p, Victim) : p \in alias}          \* a victim-owned value typed by library p must exist
      \cup {M(p, p) : p \in {q \in MPkgs : KindOf[q] # "p"}}   \* realm types are only constructed at home
      \cup {M(p, None) : p \in {q \in MPkgs : KindOf[q] # "p"}}
      \cup fvals

Init ==
  /\ stack = <<Main>>
  /\ fvals = {}
  /\ val = [o \in Objs |-> 0]
  /\ aborted = FALSE
  /\ wlog = NoWrite
  /\ alias = {"L"} /\ laund = {}
  /\ n = 0
  /\ hist = <<>>

Step(rec) == UNCHANGED <<n, hist>>     \* the machine part needs no history: its state space is finite (MaxDepth)

Call(c) ==
  /\ ~aborted /\ Len(stack) < MaxDepth
  /\ c.kind = "cross" => KindOf[c.pkg] = "r"
  /\ stack' = Append(stack, Push(Top, c, EphemeralIsRealm))
  /\ UNCHANGED <<fvals, val, aborted, wlog, alias, laund>>
  /\ Step([act |-> "Call", kind |-> c.kind, pkg |-> c.pkg, recv |-> c.recv, minter |-> c.minter])

Return ==
  /\ ~aborted /\ Len(stack) > 1
  /\ stack' = SubSeq(stack, 1, Len(stack) - 1)
  /\ UNCHANGED <<fvals, val, aborted, wlog, alias, laund>>
  /\ Step([act |-> "Return"])

Mint ==   \* the running frame evaluates a FuncLit: the closure is stamped with the storage context
  /\ ~aborted /\ Cardinality(fvals) < MaxFvals
  /\ C(Top.code, Top.st) \notin fvals
  /\ fvals' = fvals \cup {C(Top.code, Top.st)}
  /\ UNCHANGED <<stack, val, aborted, wlog, alias, laund>>
  /\ Step([act |-> "Mint", pkg |-> Top.code, minter |-> Top.st])

Write(o) ==
  /\ ~aborted
  /\ IF RealObj(o) => OwnerOf[o] = Top.st
     THEN /\ val' = IF o = "vR" THEN [val EXCEPT ![o] = 1] ELSE val
          /\ wlog' = IF o = "vR" THEN [obj |-> o, code |-> Top.code, st |-> Top.st, auth |-> Top.auth] ELSE wlog
          /\ UNCHANGED aborted
     ELSE /\ aborted' = TRUE              \* readonly panic: the transaction fails, nothing persists
          /\ val' = [x \in Objs |-> 0]
          /\ wlog' = NoWrite
  /\ UNCHANGED <<stack, fvals, alias, laund>>
  /\ Step([act |-> "Write", obj |-> o])

\* composite literal / new() / conversion producing a value of a type declared in realm p: allowed only while
\* the storage context is p (Allocator.checkConstructionTime, doOpConvert case 2); otherwise the tx aborts
Construct(p) ==
  /\ ~aborted /\ p = Victim /\ Top.st # p     \* at home it is a no-op for this model; elsewhere the tx aborts
  /\ aborted' = TRUE /\ val' = [x \in Objs |-> 0] /\ wlog' = NoWrite
  /\ UNCHANGED <<stack, fvals, alias, laund>>
  /\ Step([act |-> "Construct", pkg |-> p])

\* Convert(p): the running frame re-types a victim-owned value as a named type of library package p (a type with
\* mutating methods: sort.IntSlice, a /p/ slice/map/array/struct twin).  doOpConvert "case 1" refuses the conversion of
\* a real value stored in another realm (ConvertGuard); it is allowed while the storage context IS the victim.  Afterwards
\* methods of p can be dispatched on a victim-owned receiver (borrow rule #2 then switches to the victim).  `laund`
\* remembers receivers re-typed by a frame without the victim's authority: their methods do not act for the victim.
Convert(p) ==
  /\ ~aborted /\ KindOf[p] = "p" /\ p \notin alias
  /\ IF ConvertGuard /\ Top.st # Victim
     THEN aborted' = TRUE /\ val' = [x \in Objs |-> 0] /\ wlog' = NoWrite /\ UNCHANGED <<alias, laund>>
     ELSE /\ alias' = alias \cup {p}
          /\ laund' = IF Top.auth THEN laund ELSE laund \cup {p}
          /\ UNCHANGED <<aborted, val, wlog>>
  /\ UNCHANGED <<stack, fvals>>
  /\ Step([act |-> "Convert", pkg |-> p])

MachineNext == (\E p \in MPkgs : Convert(p)) \/ (\E p \in MPkgs : Construct(p)) \/ ( (\E c \in Callable(Top) : Call(c)) \/ Return \/ Mint \/ (\E o \in Objs : Write(o)) )

\* ---- invariants of the machine
StorageImpliesAuthority == \A i \in 1..Len(stack) : stack[i].st = Victim => stack[i].auth
AttackerTextNeverAuthorised == \A i \in 1..Len(stack) : KindOf[stack[i].code] \in {"r", "e"} /\ stack[i].code # Victim => stack[i].st # Victim
NoForeignWrite == (wlog.obj # None /\ RealObj(wlog.obj) /\ OwnerOf[wlog.obj] = Victim) => wlog.auth
NothingPersistsFromAbort == aborted => \A o \in Objs : val[o] = 0
\* construction of a victim-declared value succeeds only in a frame whose storage context is the victim
\* (guard of Construct); such a frame is never attacker-declared realm / script code
ConstructOnlyAtHome == \A i \in 1..Len(stack) : (stack[i].st = Victim /\ KindOf[stack[i].code] # "p") => stack[i].code = Victim
\* no library-typed alias of a victim object was ever produced outside the victim's authority
NoLaunderedReceiver == laund = {}
RealmCodeRunsAtHome == \A i \in 1..Len(stack) : RealmDeclared(stack[i].code, EphemeralIsRealm) => stack[i].st = stack[i].code

\* ------------------------------------------------------------------ SHAPES
\* "own" in a write kind's chain = a type declared by the package whose code contains the write statement
OwnCode(ctx, path) == LET b == Chain(Main, ctx.calls \o path.via, TRUE) IN b[Len(b)].code
Resolve(via, own) == [i \in DOMAIN via |-> IF via[i].pkg = "own" THEN [via[i] EXCEPT !.pkg = own] ELSE via[i]]
WriterChain(ctx, path, wk) == ctx.calls \o path.via \o Resolve(wk.via, OwnCode(ctx, path))

ShapeOK(ctx, path, wk) ==
  /\ wk.typ = path.typ
  /\ path.name \in ctx.paths
  /\ ctx.ponly => path.pname                          \* a /p/ helper cannot name realm-declared types
  /\ (wk.needcur => ctx.hascur)

\* A write kind with conv # None first RE-TYPES the victim-owned handle (to a library / attacker-declared / unnamed
\* type) and then writes through the converted value (index write or a mutating method, wk.via).  The conversion is
\* executed by the frame convAt calls below the statement (0 = the statement itself, 1 = inside the library function it
\* calls, e.g. sort.Ints converts to sort.IntSlice).  Documented rule: that frame must hold the victim's storage context.
ShapeRec(ctx, path, wk, inl) ==
  LET chD == Chain(Main, WriterChain(ctx, path, wk), TRUE)
      chE == Chain(Main, WriterChain(ctx, path, wk), FALSE)
      wD == chD[Len(chD)]
      wE == chE[Len(chE)]
      ci == Len(ctx.calls) + Len(path.via) + 1 + wk.convAt
      cD == chD[ci]
      cE == chE[ci]
      isConv == wk.conv # None
      cls == IF path.typ \in {"ctor", "pcur"} THEN "forbid"
             ELSE IF isConv THEN (IF cD.auth THEN "open" ELSE "verdict")
             ELSE IF wD.code \in {Victim, "L"} THEN "control"
             ELSE IF wD.code = "Q" /\ wD.auth THEN "open"
             ELSE "verdict"
  IN [act |-> "Shape", ctx |-> ctx.name, path |-> path.name, wk |-> wk.name, inl |-> inl,
      wcode |-> wD.code, wst |-> wD.st, cls |-> cls, conv |-> wk.conv,
      mutDoc |-> (path.typ # "pcur" /\ wD.st = Victim /\ (isConv => cD.st = Victim)),
      mutEph |-> (path.typ # "pcur" /\ wE.st = Victim /\ (isConv => cE.st = Victim)),
      mutConv |-> (isConv /\ wD.st = Victim),          \* what happens if the conversion guard is missing
      depth |-> Len(chD)]

Pick ==
  /\ n = 0
  /\ \E ctx \in Ctxs, path \in Paths, wk \in Writes, inl \in BOOLEAN :
       /\ ShapeOK(ctx, path, wk)
       /\ inl => (path.inl /\ ctx.inl)
       /\ LET r == ShapeRec(ctx, path, wk, inl)
              ch == Chain(Main, WriterChain(ctx, path, wk), EphemeralIsRealm)
          IN /\ stack' = ch
             /\ hist' = <<r>>
             /\ n' = 1
  /\ UNCHANGED <<fvals, val, aborted, wlog, alias, laund>>

ShapeWrite ==
  /\ n = 1
  /\ LET o == "vR" IN
     /\ IF OwnerOf[o] = Top.st
        THEN /\ val' = [val EXCEPT ![o] = 1]
             /\ wlog' = [obj |-> o, code |-> Top.code, st |-> Top.st, auth |-> Top.auth]
             /\ UNCHANGED aborted
        ELSE /\ aborted' = TRUE /\ UNCHANGED <<val, wlog>>
  /\ n' = 2
  /\ UNCHANGED <<stack, fvals, hist, alias, laund>>

ShapeNext == Pick \/ ShapeWrite

\* every verdict shape is blocked by the documented rules; every control mutates
VerdictShapesBlocked == (Shapes /\ n >= 1) => (hist[1].cls \in {"verdict", "forbid"} => ~hist[1].mutDoc)
ControlsMutate == (Shapes /\ n >= 1) => (hist[1].cls \in {"control", "open"} => hist[1].mutDoc)
ShapeAgreesWithMachine == (Shapes /\ n = 2 /\ hist[1].cls # "forbid" /\ hist[1].conv = None) => ((val["vR"] = 1) <=> hist[1].mutDoc)

Next == IF Shapes THEN ShapeNext ELSE MachineNext
Spec == Init /\ [][Next]_vars

Emit == PrintT(<<"TRACE", ToJson(hist)>>)
EmitEdge == (Shapes /\ n = 0) => PrintT(<<"EDGE", ToJson(hist')>>)
=============================================================================
