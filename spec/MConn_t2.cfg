CONSTANTS
  Chans <- Ch1
  BadCh = 9
  MaxPay = 2
  Hdr = 1
  RecvCap <- Cap1
  QCap = 1
  MsgLens <- Lens03
  MaxMsgs = 1
  MaxInject = 1
  InjectKinds <- InjPing
  Senders <- Both
  Stoppers <- Both
INIT Init
NEXT Next
INVARIANTS TypeOK PerChannelFIFOExactlyOnce NoPartialDelivery CompleteAtCleanClose
PROPERTIES MalformedCloses
