CONSTANTS
  Chans <- Ch12
  BadCh = 9
  MaxPay = 2
  Hdr = 1
  RecvCap <- Cap12
  QCap = 2
  MsgLens <- Lens03
  MaxMsgs = 2
  MaxInject = 1
  InjectKinds <- InjPing
  Senders <- Both
  Stoppers <- Both
INIT Init
NEXT Next
INVARIANTS TypeOK PerChannelFIFOExactlyOnce NoPartialDelivery CompleteAtCleanClose
PROPERTIES MalformedCloses
