CONSTANTS
  P = 4
  InitSets <- InitS
  ChangeLists <- ChS
  Times <- T123
  MaxTotal = 1000
  MaxLen = 12
  FairOnly = FALSE
INIT Init
NEXT NextSim
VIEW View
INVARIANTS TypeOK Fairness PriorityWindow SortedUnique PowersPositive TotalBounded ProposerIsMember
PROPERTIES NeverEmptied RejectedUpdateIsNoOp
INVARIANT EmitAtEnd
