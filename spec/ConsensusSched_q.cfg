CONSTANTS
  Honest <- H3
  Byz <- B1
  MaxRound = 0
  MaxLen = 90
  Orders <- OrdersB0
  Quiet = TRUE
  ByzReuse = FALSE
  ByzVoteKinds <- KNone
INIT Init
NEXT Next
VIEW View
INVARIANTS Agreement NoHonestEquivocation PrecommitHasPolka DecisionHasCommit BlockInHandMatchesParts
