---------------------------- MODULE Overflow ----------------------------
(* C19. tm2/pkg/overflow/overflow.go: Add, Sub, Mul, Div (and the panicking variants
   Addp..Divp, which panic iff the boolean is false) for every integer type.

   The module has two layers, both over mathematical integers:
   * the IMPLEMENTATION layer transcribes each helper line by line over wrapping machine
     arithmetic of width W (Wrap = reduction into MIN..MAX modulo 2^W, TruncDiv = Go's
     truncating division): AddImplOk, SubImplOk, MulImplOk, DivImplOk and the returned
     values AddImplR ... DivImplR;
   * the PROPERTY layer says what C19 states: the helper succeeds exactly when the
     mathematical result is representable (Rep) and then returns it.
   The invariants *Exact say the two layers agree. They are decided
   - by Apalache for all operand pairs at W = 8, 16, 32, 64, signed and unsigned
     (symbolic, checks/c19.py), and
   - by TLC for all 2^16 pairs at W = 8 (MCOverflow.tla), which also emits the PROPERTY
     layer as tables; harness/cmd/overflow replays every entry on the real generic
     instantiations (int8/uint8 exhaustively, wider types through exact embeddings and
     through the boundary witnesses of OverflowW.tla).
   The module is written in the fragment both tools accept (no RECURSIVE, no Json).     *)
EXTENDS Integers

CONSTANTS
  \* @type: Int;
  W,
  \* @type: Bool;
  Signed

VARIABLES
  \* @type: Int;
  a,
  \* @type: Int;
  b

MIN == IF Signed THEN -(2^(W - 1)) ELSE 0
MAX == IF Signed THEN 2^(W - 1) - 1 ELSE 2^W - 1
MOD == 2^W

\* machine arithmetic
Wrap(x) == ((x - MIN) % MOD) + MIN
Abs(x) == IF x < 0 THEN -x ELSE x
Sgn(x) == IF x < 0 THEN -1 ELSE 1
\* Go's / truncates toward zero; only evaluated with y # 0
TruncDiv(x, y) == Sgn(x) * Sgn(y) * (Abs(x) \div Abs(y))
Rep(x) == MIN <= x /\ x <= MAX

\* ------------------------------------------------ implementation layer (overflow.go)
\* func Add: c := a + b; return c, (c > a) == (b > 0)
AddImplR == Wrap(a + b)
AddImplOk == (AddImplR > a) = (b > 0)
\* func Sub: c := a - b; return c, (c < a) == (b > 0)
SubImplR == Wrap(a - b)
SubImplOk == (SubImplR < a) = (b > 0)
\* func Mul: if a == 0 || b == 0 { return 0, true }; c := a * b;
\*           return c, (c < 0) == ((a < 0) != (b < 0)) && (c/b == a)
MulImplR == IF a = 0 \/ b = 0 THEN 0 ELSE Wrap(a * b)
MulImplOk == IF a = 0 \/ b = 0 THEN TRUE
             ELSE LET c == Wrap(a * b)
                  IN ((c < 0) = ((a < 0) # (b < 0))) /\ (Wrap(TruncDiv(c, b)) = a)
\* func Div: if b == 0 { return 0, false }; c := a / b; return c, c != a || b == 1 || a == 0
DivImplR == IF b = 0 THEN 0 ELSE Wrap(TruncDiv(a, b))
DivImplOk == IF b = 0 THEN FALSE
             ELSE LET c == Wrap(TruncDiv(a, b)) IN c # a \/ b = 1 \/ a = 0

\* ------------------------------------------------ property layer (statement of C19)
AddSpecOk == Rep(a + b)
SubSpecOk == Rep(a - b)
MulSpecOk == Rep(a * b)
DivSpecOk == b # 0 /\ Rep(TruncDiv(a, b))
DivSpecR == IF b = 0 THEN 0 ELSE TruncDiv(a, b)

AddExact == AddImplOk = AddSpecOk /\ (AddSpecOk => AddImplR = a + b)
SubExact == SubImplOk = SubSpecOk /\ (SubSpecOk => SubImplR = a - b)
MulExact == MulImplOk = MulSpecOk /\ (MulSpecOk => MulImplR = a * b)
DivExact == DivImplOk = DivSpecOk /\ (DivSpecOk => DivImplR = DivSpecR)
AllExact == AddExact /\ SubExact /\ MulExact /\ DivExact

\* ------------------------------------------------ state space: every operand pair
Init == a \in MIN..MAX /\ b \in MIN..MAX
Next == UNCHANGED <<a, b>>

\* Apalache constant initialisers (--cinit)
CInitS8 == W = 8 /\ Signed = TRUE
CInitS16 == W = 16 /\ Signed = TRUE
CInitS32 == W = 32 /\ Signed = TRUE
CInitS64 == W = 64 /\ Signed = TRUE
CInitU8 == W = 8 /\ Signed = FALSE
CInitU16 == W = 16 /\ Signed = FALSE
CInitU32 == W = 32 /\ Signed = FALSE
CInitU64 == W = 64 /\ Signed = FALSE
=============================================================================
