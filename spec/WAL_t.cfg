CONSTANTS
  MaxH = 3
  MaxMsgs = 4
  MaxFiles = 4
  MaxLen = 8
  MaxCrash = 2
  MaxCorrupt = 1
INIT Init
NEXT Next
VIEW View
INVARIANTS TypeOK ReadIsSubsequence ReadComplete NothingInvented SyncedDurable MarkersUnique

