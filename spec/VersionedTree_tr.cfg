CONSTANTS
  NK = 3
  NV = 2
  MaxVer = 1
  MaxLen = 6
  NR = 1
  Impl = "bptree"
  SmallTree = TRUE
  Opts <- Opts2
  Reads = TRUE
  BadArgs = FALSE
  SvAlways = FALSE
  Quiet = FALSE
  FillSizes <- FillNone
  Scripts <- NoScripts
INIT Init
NEXT NextReadsF
VIEW View
INVARIANTS TypeOK Contig WorkingRetained ReadersRetained CleanIsSaved NotRetainedIsBlank HkFunctional
PROPERTIES SavedImmutable PruneKeepsRetained OnlyNext SessionDrop
ACTION_CONSTRAINT EmitEdge
