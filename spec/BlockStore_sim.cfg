CONSTANTS
  K = 100000
  H0 = 99990
  MaxLen = 24
  NV = 3
  FirstHs <- F13
  MaxFirst = 3
INIT Init
NEXT Next
VIEW View
INVARIANTS TypeOK LoadEqualsSaved Contiguous HeightIsLastSaved ValsAtHeightCorrect ParamsAtHeightCorrect KnownRange
PROPERTIES HeightMonotone
INVARIANT EmitAtEnd
