---------------------------- MODULE VersionedTree ----------------------------
(* C23 / C24 / C30. A versioned ordered map as tm2/pkg/bptree.MutableTree (Impl = "bptree")
   and tm2/pkg/iavl.MutableTree (Impl = "iavl") present it: a working tree over the last
   saved / loaded version, saved versions in a DB (a contiguous range first..latest),
   read-only snapshots of saved versions, pruning of a prefix of the versions, re-opening
   the DB with other options, export / import into an empty DB.

   Keys are 1..NK in the byte order of the driver's key table (the spec only needs the
   order), values 1..NV (0 = absent). One action per public call; the guards transcribe the
   refusals of the code (branch order of PruneVersionsTo, SaveVersion on an existing version,
   the poisoned session of bptree).  Macro actions (Fill, RemoveRange, Sparse) issue many
   Set / Remove calls in one step so that simulated behaviours over several hundred keys
   split, merge and rebalance B = 32 nodes.

   Hash identity (C24): the root hash of the working tree is a function of its history key
   <<ver, pend>> (the saved version it started from and the writes since), the hash of saved
   version v of its number (versions are linear: a save on top of an existing version only
   succeeds when it reproduces it). Everything else (options, re-opening, pruning, snapshots,
   reads, rolled-back sessions, load round trips, export / import) is hash-neutral. In script
   mode (NextScript) the hash-relevant calls are forced from a given script and only neutral
   actions are chosen freely: behaviours generated from the same script form a family whose
   hashes must be byte-equal at every script position.

   Named deviations from a naive reading (documented behaviour of the code):
   * bptree: a failed SaveVersion (the version exists with other contents) poisons the session:
     Set / Remove / SaveVersion refuse until Rollback or a successful LoadVersion; the working
     tree of a poisoned session is not read (its staged values were discarded by design).
   * bptree: PruneVersionsTo refuses with uncommitted changes, when the working tree is loaded
     at a pruned version, and when a snapshot of a pruned version is open. iavl has no such
     refusals; its documentation makes the caller responsible, so for iavl these calls are
     not generated.
   * iavl deletes versions lazily: the root node of a deleted version survives while a retained
     version shares it, so GetImmutable of a deleted version may still succeed, and after a
     restart (first version rediscovered by probing root keys) such a version is listed and loadable
     again, intact. Its documentation only promises snapshots "provided the version is not
     deleted". LoadVersion / GetImmutable / GetVersioned naming a deleted version are not generated
     for iavl and the driver does not compare VersionExists / AvailableVersions below the first
     retained version. iavl.AvailableVersions reports [0] for a DB without versions; 0 is dropped.
   * SaveVersion on an existing version with EQUAL contents but a different history: the
     outcome depends on the tree shape; generated only where the shape is a function of the
     contents (bptree with all keys in one node: SmallTree) or the history key is the same.
   * Iterators are drained and closed within one step.  *)
EXTENDS Integers, Sequences, FiniteSets, TLC, Json

CONSTANTS NK, NV, MaxVer, MaxLen, NR,
          Impl,        \* "bptree" | "iavl"
          SmallTree,   \* TRUE: every key set fits in one bptree node (NK <= 32)
          Opts,        \* set of option records [cache, fast] for Reopen / Migrate
          Reads,       \* TRUE: explicit read actions are generated
          BadArgs,     \* TRUE: Set with empty key / nil value is generated (bptree)
          SvAlways,    \* TRUE: every record carries the contents of all retained versions
          Quiet,       \* TRUE: no history (exhaustive runs that emit nothing)
          FillSizes,   \* sizes of the macro actions (simulation)
          Scripts      \* sequence of scripts (script mode), <<>> otherwise

Keys == 1..NK
Vals == 1..NV
Vers == 1..MaxVer
Rdrs == 1..NR
EmptyMap == [k \in Keys |-> 0]
NoHk == <<0, <<>>>>

VARIABLES work,      \* [Keys -> 0..NV] the working tree
          saved,     \* [Vers -> [Keys -> 0..NV]] contents of the saved versions (EmptyMap when not retained)
          exists,    \* SUBSET Vers: versions in the DB
          first, latest,
          ver,       \* version the working tree was saved as / loaded from (0 = none)
          dirty,     \* the session has staged mutations
          poisoned,  \* bptree: a SaveVersion failed
          readers,   \* [Rdrs -> 0..MaxVer] open snapshots (0 = closed)
          opt,       \* current options (ghost: does not influence any reply)
          pend,      \* ghost: hash-relevant writes since ver
          shk,       \* ghost: [Vers -> history key the version was saved from]
          n, hist,
          fam, pc, gap, gapmax, spend, script,  \* script mode (script = Scripts[fam], read once: the constant is re-read from its file at every reference)
          kinds                         \* simulation: the kinds of action tried in this step

svars == <<work, saved, exists, first, latest, ver, dirty, poisoned, readers, opt, pend, shk>>
scvars == <<fam, pc, gap, gapmax, spend, script>>
vars == <<svars, n>>
View == <<work, saved, exists, first, latest, ver, dirty, poisoned, readers, n>>

Bptree == Impl = "bptree"

\* ------------------------------------------------------------------ the ordered-map reads
Present(m) == {k \in Keys : m[k] # 0}
SizeR(m) == Cardinality(Present(m))
Rank(m, k) == Cardinality({j \in Present(m) : j < k})     \* keys below k = index of k / insertion index
GetR(m, k) == m[k]
HasR(m, k) == m[k] # 0
WithIndexR(m, k) == [idx |-> Rank(m, k), v |-> m[k]]
KeySeq == [k \in Keys |-> k]
PresentSeq(m) == SelectSeq(KeySeq, LAMBDA k : m[k] # 0)      \* the keys of m in order
ByIndexR(m, i) == LET ps == PresentSeq(m) IN
                  IF i < 0 \/ i >= Len(ps) THEN [k |-> 0, v |-> 0] ELSE [k |-> ps[i + 1], v |-> m[ps[i + 1]]]
\* bounds: 0 = nil (unbounded), k = the key k; start inclusive, end exclusive
PairsUp(m) == [j \in Keys |-> <<j, m[j]>>]
PairsDown(m) == [j \in Keys |-> <<NK + 1 - j, m[NK + 1 - j]>>]
RangeR(m, s, e, asc) == SelectSeq(IF asc THEN PairsUp(m) ELSE PairsDown(m),
                                  LAMBDA p : p[2] # 0 /\ (s = 0 \/ p[1] >= s) /\ (e = 0 \/ p[1] < e))

SavedOf(v) == IF v = 0 THEN EmptyMap ELSE saved[v]
SortedVers(S) == SelectSeq([v \in Vers |-> v], LAMBDA v : v \in S)

\* ------------------------------------------------------------------ projection and log
St == [ver |-> ver, avail |-> SortedVers(exists), w |-> work, poisoned |-> poisoned, dirty |-> dirty,
       wk |-> <<ver, pend>>, opt |-> opt]
\* the retained versions with their contents, in order: << <<v, saved[v]>>, ... >>
SvList == LET vs == SortedVers(exists) IN [i \in 1..Len(vs) |-> <<vs[i], saved[vs[i]]>>]
VerActs == {"Init", "SaveVersion", "Rollback", "LoadVersion", "Reopen", "Prune", "Migrate", "Finish"}
Log(r) == /\ n' = n + 1
          /\ hist' = IF Quiet THEN hist
                     ELSE Append(hist, r @@ [st |-> St']
                                         @@ (IF SvAlways \/ r.act \in VerActs THEN [sv |-> SvList'] ELSE <<>>))

Init ==
  /\ work = EmptyMap /\ saved = [v \in Vers |-> EmptyMap] /\ exists = {} /\ first = 0 /\ latest = 0
  /\ ver = 0 /\ dirty = FALSE /\ poisoned = FALSE /\ readers = [r \in Rdrs |-> 0]
  /\ opt \in Opts /\ pend = <<>> /\ shk = [v \in Vers |-> NoHk]
  /\ n = 1
  /\ \E sc \in {Scripts} : /\ fam \in (IF sc = <<>> THEN {0} ELSE 1..Len(sc))
                           /\ script = (IF sc = <<>> THEN <<>> ELSE sc[fam])
  /\ pc = 1 /\ gap = 0 /\ gapmax = 2 /\ spend = <<>> /\ kinds = {1, 2, 30}
  /\ hist = IF Quiet THEN <<>>
            ELSE << [act |-> "Init", reply |-> "ok", fam |-> fam, st |-> St, sv |-> SvList] >>

Refused == Bptree /\ poisoned

\* ------------------------------------------------------------------ writes
Set(k, v) ==
  /\ n < MaxLen
  /\ IF Refused
     THEN UNCHANGED svars /\ Log([act |-> "Set", k |-> k, v |-> v, reply |-> "poisoned"])
     ELSE /\ work' = [work EXCEPT ![k] = v]
          /\ dirty' = TRUE
          /\ pend' = Append(pend, <<"s", k, v>>)
          /\ UNCHANGED <<saved, exists, first, latest, ver, poisoned, readers, opt, shk>>
          /\ Log([act |-> "Set", k |-> k, v |-> v, reply |-> IF work[k] # 0 THEN "updated" ELSE "new"])

\* Set with an empty key / a nil value: refused before anything is staged
SetBad(cls) ==
  /\ n < MaxLen /\ BadArgs
  /\ UNCHANGED svars
  /\ Log([act |-> "SetBad", cls |-> cls, reply |-> IF Refused THEN "poisoned" ELSE "err"])

Remove(k) ==
  /\ n < MaxLen
  /\ IF Refused
     THEN UNCHANGED svars /\ Log([act |-> "Remove", k |-> k, reply |-> "poisoned", old |-> 0])
     ELSE IF work[k] = 0
     THEN UNCHANGED svars /\ Log([act |-> "Remove", k |-> k, reply |-> "absent", old |-> 0])
     ELSE /\ work' = [work EXCEPT ![k] = 0]
          /\ dirty' = TRUE
          /\ pend' = Append(pend, <<"r", k>>)
          /\ UNCHANGED <<saved, exists, first, latest, ver, poisoned, readers, opt, shk>>
          /\ Log([act |-> "Remove", k |-> k, reply |-> "removed", old |-> work[k]])

\* macro actions: the driver issues one Set / Remove per key, in the given direction
ValOf(k, salt) == ((k + salt) % NV) + 1
\* (TLC re-evaluates LET definitions at every use: membership is written as arithmetic, not as a set)
InSpan(k, from, cnt) == k >= from /\ k < from + cnt
Fill(from, cnt, salt, asc) ==
  /\ n < MaxLen /\ ~Refused
  /\ work' = [k \in Keys |-> IF InSpan(k, from, cnt) THEN ValOf(k, salt) ELSE work[k]]
  /\ dirty' = TRUE
  /\ pend' = Append(pend, <<"f", from, cnt, salt, asc>>)
  /\ UNCHANGED <<saved, exists, first, latest, ver, poisoned, readers, opt, shk>>
  /\ Log([act |-> "Fill", from |-> from, cnt |-> cnt, salt |-> salt, asc |-> asc,
          reply |-> Cardinality({k \in Keys : InSpan(k, from, cnt) /\ work[k] # 0})])
\* every stride-th key from off: scattered inserts
InSparse(k, off, stride) == k >= off /\ (k - off) % stride = 0
Sparse(off, stride, salt) ==
  /\ n < MaxLen /\ ~Refused
  /\ work' = [k \in Keys |-> IF InSparse(k, off, stride) THEN ValOf(k, salt) ELSE work[k]]
  /\ dirty' = (dirty \/ off <= NK)            \* off > NK: no key is written, the session stays as it is
  /\ pend' = IF off <= NK THEN Append(pend, <<"p", off, stride, salt>>) ELSE pend
  /\ UNCHANGED <<saved, exists, first, latest, ver, poisoned, readers, opt, shk>>
  /\ Log([act |-> "Sparse", off |-> off, stride |-> stride, salt |-> salt,
          reply |-> Cardinality({k \in Keys : InSparse(k, off, stride) /\ work[k] # 0})])
RemoveRange(from, cnt, asc) ==
  /\ n < MaxLen /\ ~Refused
  /\ work' = [k \in Keys |-> IF InSpan(k, from, cnt) THEN 0 ELSE work[k]]
  /\ dirty' = (dirty \/ work' # work)
  /\ pend' = IF work' = work THEN pend ELSE Append(pend, <<"x", from, cnt, asc>>)
  /\ UNCHANGED <<saved, exists, first, latest, ver, poisoned, readers, opt, shk>>
  /\ Log([act |-> "RemoveRange", from |-> from, cnt |-> cnt, asc |-> asc,
          reply |-> Cardinality({k \in Keys : InSpan(k, from, cnt) /\ work[k] # 0})])

\* of every `period` consecutive keys of the span remove those at offsets lo..hi-1. Generator bias only (the
\* map has no notion of nodes): after an ascending fill every B = 32 leaf holds 31 consecutive keys, so
\* period 31 / offsets 16..30 trims every leaf inside the span to the minimum fill wherever the span
\* starts, a short span makes neighbouring leaves unequal, and a single offset plucks one key per period,
\* which underflows minimum leaves (merges) and, above them, inner nodes (borrow from a sibling / merge).
InThin(k, from, cnt, period, lo, hi) == InSpan(k, from, cnt) /\ (k - from) % period >= lo /\ (k - from) % period < hi
Thin(from, cnt, period, lo, hi, asc) ==
  /\ n < MaxLen /\ ~Refused
  /\ work' = [k \in Keys |-> IF InThin(k, from, cnt, period, lo, hi) THEN 0 ELSE work[k]]
  /\ dirty' = (dirty \/ work' # work)
  /\ pend' = IF work' = work THEN pend ELSE Append(pend, <<"t", from, cnt, period, lo, hi, asc>>)
  /\ UNCHANGED <<saved, exists, first, latest, ver, poisoned, readers, opt, shk>>
  /\ Log([act |-> "Thin", from |-> from, cnt |-> cnt, period |-> period, lo |-> lo, hi |-> hi, asc |-> asc,
          reply |-> Cardinality({k \in Keys : InThin(k, from, cnt, period, lo, hi) /\ work[k] # 0})])

\* ------------------------------------------------------------------ versions
SaveVersion ==
  /\ n < MaxLen
  /\ LET nv == ver + 1 IN
     IF Refused
     THEN UNCHANGED svars /\ Log([act |-> "SaveVersion", reply |-> "poisoned", v |-> 0])
     ELSE IF nv \in exists
     THEN IF work # saved[nv]
          THEN \* other contents => other hash: refused, bptree poisons the session
               /\ poisoned' = Bptree
               /\ UNCHANGED <<work, saved, exists, first, latest, ver, dirty, readers, opt, pend, shk>>
               /\ Log([act |-> "SaveVersion", reply |-> "mismatch", v |-> 0])
          ELSE \* same contents: idempotent when the hash is the same; the persisted version is adopted
               /\ (Bptree /\ SmallTree) \/ <<ver, pend>> = shk[nv] \/ work = EmptyMap
               /\ ver' = nv /\ dirty' = FALSE /\ pend' = <<>>
               /\ UNCHANGED <<work, saved, exists, first, latest, poisoned, readers, opt, shk>>
               /\ Log([act |-> "SaveVersion", reply |-> "ok", v |-> nv])
     ELSE /\ nv <= MaxVer
          /\ saved' = [saved EXCEPT ![nv] = work]
          /\ exists' = exists \cup {nv}
          /\ latest' = nv
          /\ first' = IF first = 0 THEN nv ELSE first
          /\ ver' = nv /\ dirty' = FALSE /\ pend' = <<>>
          /\ shk' = [shk EXCEPT ![nv] = <<ver, pend>>]
          /\ UNCHANGED <<work, poisoned, readers, opt>>
          /\ Log([act |-> "SaveVersion", reply |-> "ok", v |-> nv])

\* Replay: the tree was loaded at a version whose successor exists; the caller re-applies exactly the writes the
\* successor was saved from (block replay after a restart at an older height). The working tree then IS the
\* successor: a SaveVersion is accepted as idempotent (same hash, same version, the persisted version adopted) and
\* the history goes on as if nothing had happened; any other write before it makes the save a mismatch.
CanReplay == /\ ~dirty /\ ~poisoned /\ pend = <<>> /\ ver < latest /\ (ver + 1) \in exists
             /\ shk[ver + 1][1] = ver /\ shk[ver + 1][2] # <<>>
AtReplayEnd == dirty /\ ~poisoned /\ ver < latest /\ (ver + 1) \in exists /\ <<ver, pend>> = shk[ver + 1]
Replay ==
  /\ n < MaxLen /\ CanReplay
  /\ work' = saved[ver + 1]                 \* = the recorded writes applied to saved[ver] (HkFunctional)
  /\ dirty' = TRUE
  /\ pend' = shk[ver + 1][2]
  /\ UNCHANGED <<saved, exists, first, latest, ver, poisoned, readers, opt, shk>>
  /\ Log([act |-> "Replay", ops |-> shk[ver + 1][2], reply |-> "ok"])

Rollback ==
  /\ n < MaxLen
  /\ work' = SavedOf(ver)
  /\ dirty' = FALSE /\ poisoned' = FALSE /\ pend' = <<>>
  /\ UNCHANGED <<saved, exists, first, latest, ver, readers, opt, shk>>
  /\ Log([act |-> "Rollback", reply |-> "ok"])

\* v = 0: the latest version
Undeleted(v) == Bptree \/ v = 0 \/ v \in exists \/ v > latest   \* iavl: calls naming a deleted version are not generated
LoadVersion(v) ==
  /\ n < MaxLen /\ Undeleted(v)
  /\ LET t == IF v = 0 THEN latest ELSE v IN
     IF t = 0
     THEN UNCHANGED svars /\ Log([act |-> "LoadVersion", v |-> v, reply |-> "ok", ret |-> 0])
     ELSE IF t \notin exists
     THEN UNCHANGED svars /\ Log([act |-> "LoadVersion", v |-> v, reply |-> "err", ret |-> 0])
     ELSE /\ work' = saved[t]
          /\ ver' = t /\ dirty' = FALSE /\ poisoned' = FALSE /\ pend' = <<>>
          /\ UNCHANGED <<saved, exists, first, latest, readers, opt, shk>>
          /\ Log([act |-> "LoadVersion", v |-> v, reply |-> "ok", ret |-> latest])

\* close the tree, open the same DB with options o, Load
Reopen(o) ==
  /\ n < MaxLen
  /\ work' = SavedOf(latest)
  /\ ver' = latest /\ dirty' = FALSE /\ poisoned' = FALSE /\ pend' = <<>>
  /\ readers' = [r \in Rdrs |-> 0]
  /\ opt' = o
  /\ UNCHANGED <<saved, exists, first, latest, shk>>
  /\ Log([act |-> "Reopen", o |-> o, reply |-> "ok"])

PruneOk(to) ==
  /\ exists' = {v \in exists : v > to}
  /\ first' = to + 1
  /\ saved' = [v \in Vers |-> IF v <= to THEN EmptyMap ELSE saved[v]]
  /\ shk' = [v \in Vers |-> IF v <= to THEN NoHk ELSE shk[v]]
  /\ UNCHANGED <<work, latest, ver, dirty, poisoned, readers, opt, pend>>
  /\ Log([act |-> "Prune", to |-> to, reply |-> "ok"])
PruneNo(to, r) == UNCHANGED svars /\ Log([act |-> "Prune", to |-> to, reply |-> r])
Prune(to) ==
  /\ n < MaxLen
  /\ IF Bptree
     THEN IF to >= latest THEN PruneNo(to, "err")
          ELSE IF to < first THEN PruneNo(to, "ok")
          ELSE IF dirty THEN PruneNo(to, "err")
          ELSE IF ver <= to THEN PruneNo(to, "err")
          ELSE IF \E r \in Rdrs : readers[r] # 0 /\ readers[r] <= to THEN PruneNo(to, "err")
          ELSE PruneOk(to)
     ELSE \* iavl: the caller keeps pruned versions unused
          /\ ~dirty /\ ver > to /\ \A r \in Rdrs : readers[r] = 0 \/ readers[r] > to
          /\ IF to >= latest THEN PruneNo(to, "err")
             ELSE IF to < first THEN PruneNo(to, "ok")
             ELSE PruneOk(to)

GetImmutable(r, v) ==
  /\ n < MaxLen /\ readers[r] = 0
  /\ Undeleted(v)
  /\ IF v \in exists
     THEN /\ readers' = [readers EXCEPT ![r] = v]
          /\ UNCHANGED <<work, saved, exists, first, latest, ver, dirty, poisoned, opt, pend, shk>>
          /\ Log([act |-> "GetImmutable", r |-> r, v |-> v, reply |-> "ok"])
     ELSE UNCHANGED svars /\ Log([act |-> "GetImmutable", r |-> r, v |-> v, reply |-> "err"])
CloseReader(r) ==
  /\ n < MaxLen /\ readers[r] # 0
  /\ readers' = [readers EXCEPT ![r] = 0]
  /\ UNCHANGED <<work, saved, exists, first, latest, ver, dirty, poisoned, opt, pend, shk>>
  /\ Log([act |-> "CloseReader", r |-> r, reply |-> "ok"])

\* export version v, import it into an empty DB: contents and hash are reproduced
ExportImport(v) ==
  /\ n < MaxLen /\ v \in exists
  /\ UNCHANGED svars
  /\ Log([act |-> "ExportImport", v |-> v, reply |-> IF saved[v] = EmptyMap THEN "empty" ELSE "ok", m |-> saved[v]])
\* ... and continue on the imported DB (options o): it holds the latest version only
Migrate(o) ==
  /\ n < MaxLen /\ latest > 0 /\ ver = latest /\ ~dirty /\ ~poisoned /\ saved[latest] # EmptyMap
  /\ exists' = {latest} /\ first' = latest
  /\ saved' = [v \in Vers |-> IF v = latest THEN saved[v] ELSE EmptyMap]
  /\ shk' = [v \in Vers |-> IF v = latest THEN shk[v] ELSE NoHk]
  /\ readers' = [r \in Rdrs |-> 0]
  /\ opt' = o
  /\ UNCHANGED <<work, latest, ver, dirty, poisoned, pend>>
  /\ Log([act |-> "Migrate", o |-> o, reply |-> "ok"])

\* ------------------------------------------------------------------ reads: target 0 = working tree, r = snapshot r
MapOf(t) == IF t = 0 THEN work ELSE saved[readers[t]]
Targets == (IF Refused THEN {} ELSE {0}) \cup {r \in Rdrs : readers[r] # 0}
LogR(r) == UNCHANGED svars /\ Log(r)
Get(t, k) == n < MaxLen /\ LogR([act |-> "Get", t |-> t, k |-> k, reply |-> GetR(MapOf(t), k)])
Has(t, k) == n < MaxLen /\ LogR([act |-> "Has", t |-> t, k |-> k, reply |-> HasR(MapOf(t), k)])
ByIndex(t, i) == n < MaxLen /\ LogR([act |-> "ByIndex", t |-> t, i |-> i, reply |-> ByIndexR(MapOf(t), i)])
WithIndex(t, k) == n < MaxLen /\ LogR([act |-> "WithIndex", t |-> t, k |-> k, reply |-> WithIndexR(MapOf(t), k)])
Iter(t, s, e, asc) == n < MaxLen /\ LogR([act |-> "Iter", t |-> t, s |-> s, e |-> e, asc |-> asc,
                                          reply |-> RangeR(MapOf(t), s, e, asc)])
Size(t) == n < MaxLen /\ LogR([act |-> "Size", t |-> t, reply |-> SizeR(MapOf(t))])
\* versioned point read: nil for a missing version
GetVersioned(k, v) == n < MaxLen /\ Undeleted(v) /\ LogR([act |-> "GetVersioned", k |-> k, v |-> v,
                                          reply |-> IF v \in exists THEN saved[v][k] ELSE 0])

ReadNext ==
  \E t \in Targets :
     \/ \E k \in Keys : Get(t, k) \/ Has(t, k) \/ WithIndex(t, k)
     \/ \E i \in (0 - 1)..NK : ByIndex(t, i)
     \/ \E s, e \in 0..NK, asc \in BOOLEAN : Iter(t, s, e, asc)
     \/ Size(t)

Next ==
  \/ \E k \in Keys, v \in Vals : Set(k, v)
  \/ \E k \in Keys : Remove(k)
  \/ \E c \in {"emptykey", "nilvalue"} : SetBad(c)
  \/ SaveVersion \/ Rollback \/ Replay
  \/ \E v \in 0..(MaxVer + 1) : LoadVersion(v)
  \/ \E o \in Opts : Reopen(o)
  \/ \E to \in Vers : Prune(to)
  \/ \E r \in Rdrs, v \in Vers : GetImmutable(r, v)
  \/ \E r \in Rdrs : CloseReader(r)
  \/ (Reads /\ ReadNext)
  \/ (Reads /\ \E k \in Keys, v \in 0..(MaxVer + 1) : GetVersioned(k, v))

\* the read-only part of the machine: every map over the keys, read through the working tree and a snapshot
NextReads ==
  \/ \E k \in Keys, v \in Vals : Set(k, v)
  \/ \E k \in Keys : Remove(k)
  \/ SaveVersion
  \/ \E r \in Rdrs, v \in Vers : GetImmutable(r, v)
  \/ ReadNext
  \/ \E k \in Keys, v \in 0..(MaxVer + 1) : GetVersioned(k, v)

\* ------------------------------------------------------------------ simulation (several hundred keys)
\* arguments drawn with RandomElement; the reference to n keeps TLC from folding the set into a constant
RE(S) == RandomElement({x \in S : n >= 0})
SimWrite(j) ==
  CASE j = 1 -> \E f \in {RE(Keys)}, c \in {RE(FillSizes)}, s \in {RE(0..5)}, a \in {RE(BOOLEAN)} : Fill(f, c, s, a)
    [] j = 2 -> \E f \in {RE(1..(NK \div 4 + 1))}, c \in {RE(FillSizes)}, s \in {RE(0..5)}, a \in {RE(BOOLEAN)} : Fill(f, c, s, a)
    [] j = 3 -> \E o \in {RE(1..7)}, d \in {RE({2, 3, 5, 7})}, s \in {RE(0..5)} : Sparse(o, d, s)
    [] j \in 4..5 -> \E f \in {RE(Keys)}, c \in {RE(FillSizes)}, a \in {RE(BOOLEAN)} : RemoveRange(f, c, a)
    [] j = 6 -> \E k \in {RE(Keys)}, v \in {RE(Vals)} : Set(k, v)
    [] j = 7 -> \E k \in {RE(Keys)} : Remove(k)
SimWrites == \E j \in {RE(1..7)} : SimWrite(j)
SimRead(t, j) ==
  CASE j = 1 -> \E k \in {RE(Keys)} : Get(t, k)
    [] j = 2 -> \E k \in {RE(Keys)} : Has(t, k)
    [] j = 3 -> \E k \in {RE(Keys)} : WithIndex(t, k)
    [] j = 4 -> \E i \in {RE((0 - 1)..NK)} : ByIndex(t, i)
    [] j = 5 -> \E i \in {RE({0, SizeR(MapOf(t)) - 1, SizeR(MapOf(t))})} : ByIndex(t, i)
    [] j = 6 -> \E s \in {RE(0..NK)}, e \in {RE(0..NK)}, asc \in {RE(BOOLEAN)} : Iter(t, s, e, asc)
    [] j \in 7..8 -> \E s \in {RE(Keys)}, w \in {RE(0..40)}, asc \in {RE(BOOLEAN)} : Iter(t, s, IF s + w > NK THEN 0 ELSE s + w, asc)
    [] j = 9 -> Size(t)
SimReads == \E t \in {RE(Targets \cup {0})}, j \in {RE(1..9)} : t \in Targets /\ SimRead(t, j)
\* TLC computes every successor before it picks one; with several hundred keys that is the whole cost of
\* a behaviour. So the kinds of action tried in a step are drawn in the previous step (variable kinds):
\* four random kinds plus a single-key Set (always enabled), instead of all of them.
NKinds == 32
KindAct(j) ==
  CASE j \in 1..6 -> SimWrites
    [] j \in 7..10 -> SaveVersion
    [] j = 11 -> Rollback
    [] j = 12 -> \E v \in {RE(0..(MaxVer + 1))} : LoadVersion(v)
    [] j = 13 -> \E v \in {RE({x \in exists : x < latest} \cup {0})} : LoadVersion(v)   \* an older version: replay
    [] j = 14 -> \E o \in {RE(Opts)} : Reopen(o)
    [] j = 15 -> \E to \in {RE({v \in Vers : v < latest /\ v < ver} \cup {1})} : Prune(to)
    [] j = 16 -> \E to \in {RE(Vers)} : Prune(to)
    [] j \in 17..18 -> \E to \in {RE({v \in Vers : v < latest} \cup {1})} : Prune(to)
    [] j = 19 -> \E r \in {RE(Rdrs)}, v \in {RE(Vers)} : GetImmutable(r, v)
    [] j \in 20..21 -> \E r \in {RE(Rdrs)}, v \in {RE(exists \cup {1})} : GetImmutable(r, v)
    [] j = 22 -> \E r \in {RE(Rdrs)} : CloseReader(r)
    [] j \in 23..27 -> SimReads
    [] j = 28 -> \E k \in {RE(Keys)}, v \in {RE(0..(MaxVer + 1))} : GetVersioned(k, v)
    [] j = 29 -> \E v \in {RE(exists \cup {1})} : ExportImport(v)
    [] j = 30 -> \E k \in {RE(Keys)}, v \in {RE(Vals)} : Set(k, v)
    [] j \in 31..32 -> \E v \in {RE({x \in exists : x < latest} \cup {0})} : LoadVersion(v)
    [] j = 40 -> Replay
\* after a load of an older version the replay of its successor is one of two candidates; at the end of a replay
\* the save (idempotent) or one more write (then the save is a mismatch)
SimKinds == IF CanReplay THEN {40} \cup (IF RE(1..3) = 1 THEN {RE(1..NKinds)} ELSE {})
            ELSE IF AtReplayEnd THEN {7} \cup (IF RE(1..3) = 1 THEN {RE(1..6)} ELSE {})
            ELSE {RE(1..NKinds), RE(1..NKinds), RE(1..NKinds), RE(1..NKinds), 30}
\* Tiny-tree simulation (C30): a version whose whole tree is a single leaf, one or more UNCHANGED versions after it
\* (SaveVersion without writes), versions that add keys (the old leaf lives on as a child), then the old versions
\* deleted one per call (as a store does at every commit), then anything; all retained versions are read and
\* proven after every prune.
TinyAct(j) ==
  CASE j = 101 -> \E k \in {RE(Keys)}, v \in {RE(Vals)} : Set(k, v)
    [] j \in {102, 103, 105} -> SaveVersion
    [] j = 104 -> \E k \in {RE({x \in Keys : work[x] = 0} \cup {1})}, v \in {RE(Vals)} : Set(k, v)
    [] j = 106 -> Prune(first)
    [] OTHER -> KindAct(j)
TinyNext(j) ==
  CASE j = 101 -> {102}
    [] j = 102 -> {103}
    [] j = 103 -> IF RE(1..2) = 1 /\ latest < MaxVer - 3 THEN {103} ELSE {104}
    [] j = 104 -> {105}
    [] j = 105 -> IF RE(1..3) = 1 /\ latest < MaxVer - 1 THEN {104} ELSE {106}
    [] j = 106 -> IF first < latest /\ RE(1..4) <= 3 THEN {106} ELSE SimKinds
    [] OTHER -> SimKinds
NextTiny == \E j \in (IF n = 1 THEN {101} ELSE kinds) : TinyAct(j) /\ kinds' = TinyNext(j)'
\* universes of 1000 keys and more start with a fill of all keys (ascending: 90/10 splits, > 32 nearly full
\* leaves; descending: 50/50 splits, half-full leaves), so that the root is an inner node over inner nodes
\* and the later range removals merge and redistribute at both levels
NextSim == /\ IF n = 1 /\ NK >= 1000
              THEN \E s \in {RE(0..5)}, a \in {RE(BOOLEAN)} : Fill(1, NK, s, a)
              ELSE \E j \in kinds : KindAct(j)
           /\ kinds' = SimKinds'

\* Shape simulation (C23): a tree of three levels (a full fill of >= 1000 keys), then mostly thinning, plucking
\* and small re-fills, so that leaves sit at the minimum fill next to fuller ones and inner nodes underflow:
\* borrow from the right / left inner sibling, inner merges, root collapse; with saves, re-opening, loads and
\* index reads in between.
\* one key out of every leaf of the whole tree, upwards or downwards: with the leaves at the minimum every other
\* removal merges two leaves, the inner nodes lose children and underflow one after the other, next to siblings
\* whose children already differ in size (31 / 16 / 30 ...)
FullPass == \E p \in {RE({16, 31})}, o \in {RE(0..15)}, a \in {RE(BOOLEAN)} : Thin(1, NK, p, o, o + 1, a)
ShapeWrite(j) ==
  CASE j \in 1..3 -> \* trim the leaves of a long span to the minimum (ascending fill: 31 per leaf; descending: 16 / 17 already)
         \E f \in {RE(1..(NK \div 2))}, c \in {RE({300, 600, NK})}, a \in {RE(BOOLEAN)} : Thin(f, c, 31, 16, 31, a)
    [] j \in 4..5 -> \* one or two leaves only: unequal neighbours
         \E f \in {RE(Keys)}, c \in {RE({31, 45, 62})}, lo \in {RE({16, 17, 20})}, a \in {RE(BOOLEAN)} : Thin(f, c, 31, lo, 31, a)
    [] j \in 9..10 -> FullPass
    [] j \in 6..8 -> \* pluck one key per leaf (or every second / third leaf), mostly from the high keys down, so that the
                       \* right-hand inner node is already uneven when the left-hand one underflows
         \E f \in {1 + 31 * RE(0..(NK \div 62))}, c \in {RE({300, 600, NK, NK})}, p \in {RE({16, 31, 31, 47, 62})}, o \in {RE(0..15)}, a \in {RE(BOOLEAN)} :
            Thin(f, c, p, o, o + 1, a)
    [] j = 11 -> \E k \in {RE(Keys)} : Remove(k)
    [] j \in 12..13 -> \E f \in {RE(Keys)}, c \in {RE({5, 17, 33, 90, 250})}, a \in {RE(BOOLEAN)} : RemoveRange(f, c, a)
    [] j = 14 -> \E f \in {RE(Keys)}, c \in {RE({5, 17, 40, 90})}, s \in {RE(0..5)}, a \in {RE(BOOLEAN)} : Fill(f, c, s, a)
    [] j = 15 -> \E o \in {RE(1..7)}, d \in {RE({5, 7, 11})}, s \in {RE(0..5)} : Sparse(o, d, s)
ShapeAct(j) ==
  CASE j \in 1..15 -> ShapeWrite(j)
    [] j \in 16..18 -> SaveVersion
    [] j = 19 -> \E o \in {RE(Opts)} : Reopen(o)
    [] j = 20 -> \E v \in {RE(exists \cup {0})} : LoadVersion(v)
    [] j = 21 -> Rollback
    [] j = 22 -> \E to \in {RE({v \in Vers : v < latest /\ v < ver} \cup {1})} : Prune(to)
    [] j = 23 -> \E r \in {RE(Rdrs)}, v \in {RE(exists \cup {1})} : GetImmutable(r, v)
    [] j = 24 -> \E r \in {RE(Rdrs)} : CloseReader(r)
    [] j \in 25..26 -> \E t \in {RE(Targets \cup {0})}, i \in {RE(0..NK)} : t \in Targets /\ ByIndex(t, i)
    [] j \in 27..28 -> \E t \in {RE(Targets \cup {0})}, k \in {RE(Keys)} : t \in Targets /\ WithIndex(t, k)
    [] j = 29 -> \E k \in {RE(Keys)}, v \in {RE(Vals)} : Set(k, v)
    [] j = 30 -> poisoned /\ Rollback               \* the writes refuse on a poisoned session: the way out
    \* a cycle: empty the tree, fill it in one direction, (ascending: trim every leaf to the minimum), one full pass
    [] j = 40 -> \E a \in {RE(BOOLEAN)} : RemoveRange(1, NK, a)
    [] j = 41 -> \E s \in {RE(0..5)} : Fill(1, NK, s, TRUE)
    [] j = 42 -> \E s \in {RE(0..5)} : Fill(1, NK, s, FALSE)
    [] j = 31 -> \E lo \in {RE({16, 16, 17})}, a \in {RE(BOOLEAN)} : Thin(1, NK, 31, lo, 31, a)
    [] j = 32 -> FullPass
    \* chains of small sessions, each saved at once: a handful of removals (often a single one) out of leaves at the
    \* minimum merge two leaves, the inner node above them underflows and is merged into a sibling that this session
    \* has not touched, and nothing else of the session passes through the merged node before SaveVersion
    [] j = 43 -> \/ \E k \in {RE((NK \div 3)..NK)} : work[k] # 0 /\ Remove(k)
                 \/ \E f \in {RE(Keys)}, c \in {RE({1, 17, 40, 90})}, p \in {RE({16, 31})}, o \in {RE(0..15)}, a \in {RE(BOOLEAN)} :
                       Thin(f, c, p, o, o + 1, a)
    [] j = 44 -> SaveVersion
    \* one key out of the last leaves: after a descending fill the last inner node and its left sibling are both at
    \* the minimum, so this single removal merges two leaves and then the last inner node into its left sibling
    [] j = 45 -> \E k \in {RE((NK - 100)..NK)} : work[k] # 0 /\ Remove(k)
    [] OTHER -> FALSE
Chain == IF latest < MaxVer /\ ~poisoned THEN {43} ELSE {RE(1..15), 30}
FreeKinds == {RE(1..15), RE(1..29), 30} \cup (IF RE(1..3) = 1 THEN {40} ELSE {})
SkelKinds == {RE(1..15), 16} \cup (IF RE(1..3) = 1 THEN {40} ELSE {})        \* C24 scripts: writes and saves only
NextKinds(j, skel) ==
  LET free == IF skel THEN SkelKinds ELSE FreeKinds IN
  CASE j = 40 -> {RE({41, 42})}
    [] j = 41 -> {31}
    [] j = 42 -> IF skel \/ RE(1..2) = 1 THEN {44} ELSE {32}     \* save and go on in small sessions, or a full pass
    [] j = 31 -> IF RE(1..2) = 1 THEN {32} ELSE {44}
    [] j = 32 -> IF RE(1..2) = 1 THEN {44} ELSE free
    [] j \in {43, 45} -> IF dirty THEN {44} ELSE Chain               \* (a removal that hit nothing: try again)
    [] j = 44 -> LET x == RE(1..8) IN
                 IF skel /\ latest = 1 /\ ~poisoned THEN {45}
                 ELSE IF x <= 5 \/ (skel /\ x <= 7) THEN Chain ELSE IF x = 6 /\ ~skel THEN {19} ELSE free
    [] OTHER -> free
\* the first step starts a cycle; then the kinds of a step are drawn in the step before (two free ones, now and
\* then the start of a new cycle). The scripts of C24 start with a descending fill (every inner node but the first
\* at the minimum), saved, and go on in small sessions.
NextShape == \E j \in (IF n = 1 THEN {RE({41, 42})} ELSE kinds) : ShapeAct(j) /\ kinds' = NextKinds(j, FALSE)'
NextShapeSkel == \E j \in (IF n = 1 THEN {42} ELSE kinds) : ShapeAct(j) /\ kinds' = NextKinds(j, TRUE)'

\* skeleton generator (C24): hash-relevant calls only
NextSkel == \E j \in {RE(1..3)} : IF j = 1 /\ dirty THEN SaveVersion ELSE SimWrites

\* ------------------------------------------------------------------ script mode (C24)
S == script
Done == pc > Len(S)
\* the working tree is exactly where the script left it
InStep == ver = latest /\ ~poisoned /\ pend = spend
Scripted ==
  /\ ~Done /\ InStep
  /\ LET s == S[pc] IN
     /\ CASE s.act = "Set" -> Set(s.k, s.v)
          [] s.act = "Remove" -> Remove(s.k)
          [] s.act = "Fill" -> Fill(s.from, s.cnt, s.salt, s.asc)
          [] s.act = "Sparse" -> Sparse(s.off, s.stride, s.salt)
          [] s.act = "RemoveRange" -> RemoveRange(s.from, s.cnt, s.asc)
          [] s.act = "Thin" -> Thin(s.from, s.cnt, s.period, s.lo, s.hi, s.asc)
          [] s.act = "SaveVersion" -> SaveVersion
     /\ pc' = pc + 1 /\ gap' = 0 /\ gapmax' = (IF s.act = "SaveVersion" THEN RE(0..4) ELSE (LET x == RE(0..7) IN IF x <= 5 THEN 0 ELSE x - 5))
     /\ spend' = pend'
     /\ UNCHANGED <<fam, script>>
Budget == gap < gapmax
NeutralStep(A) == A /\ gap' = gap + 1 /\ UNCHANGED <<fam, pc, gapmax, spend, script>>
\* a session the script does not know about: must be rolled back before the script goes on
Scratch == spend = <<>> /\ ~poisoned /\
           \/ \E k \in {RE(Keys)}, v \in {RE(Vals)} : Set(k, v)
           \/ \E k \in {RE(Keys)} : Remove(k)
           \/ \E f \in {RE(Keys)}, c \in {RE(FillSizes)}, a \in {RE(BOOLEAN)} : RemoveRange(f, c, a)
           \/ \E f \in {RE(Keys)}, c \in {RE(FillSizes)}, s \in {RE(0..5)}, a \in {RE(BOOLEAN)} : Fill(f, c, s, a)
\* (as in NextSim, the neutral kinds tried in a step are drawn in the previous step)
NeutralKind(j) ==
  CASE j = 1 -> Budget /\ \E to \in {RE({v \in Vers : v < latest} \cup {1})} : Prune(to)
    [] j \in 2..5 -> Budget /\ ~dirty /\ \E to \in {RE({v \in Vers : v < latest /\ v < ver /\ \A r \in Rdrs : readers[r] = 0 \/ v < readers[r]} \cup {1})} : Prune(to)
    [] j \in 6..7 -> Budget /\ \E r \in {RE(Rdrs)}, v \in {RE(exists \cup {1})} : GetImmutable(r, v)
    [] j \in 8..9 -> Budget /\ \E r \in {RE(Rdrs)} : CloseReader(r)
    [] j \in 10..11 -> Budget /\ SimReads
    [] j \in 12..13 -> Budget /\ \E v \in {RE(exists \cup {1})} : ExportImport(v)
    [] j \in 14..15 -> Budget /\ Scratch
    \* session-dropping calls: only when the script has nothing pending
    [] j \in 16..17 -> Budget /\ spend = <<>> /\ \E v \in {RE(exists \cup {0})} : LoadVersion(v)
    [] j \in 18..19 -> Budget /\ spend = <<>> /\ InStep /\ \E o \in {RE(Opts)} : Migrate(o)
    \* ... these three also bring a scratch session / a load of an old version back to where the script goes on
    [] j \in 20..22 -> (Budget \/ ~InStep) /\ spend = <<>> /\ \E o \in {RE(Opts)} : Reopen(o)
    [] j = 23 -> (Budget \/ (~InStep /\ ver = latest)) /\ spend = <<>> /\ Rollback
    [] j = 24 -> (Budget \/ ~InStep) /\ spend = <<>> /\ LoadVersion(0)
    [] OTHER -> FALSE
Neutral == \E j \in (kinds \cup (IF InStep THEN {} ELSE {20, 23, 24})) : NeutralKind(j)
ScriptEnd == Done /\ ~Budget /\ InStep
\* the last step is unique (see Finish): gapmax = -1 marks the end
FinishS == /\ UNCHANGED svars /\ Log([act |-> "Finish", reply |-> "ok"])
           /\ gapmax' = 0 - 1 /\ UNCHANGED <<fam, pc, gap, spend, script, kinds>>
NextScript == /\ gapmax >= 0
              /\ IF ScriptEnd THEN FinishS
                 ELSE /\ Scripted \/ NeutralStep(Neutral)
                      /\ kinds' = {RE(1..24), RE(1..24), RE(1..24)}

\* the free modes leave the script variables alone
NextF == Next /\ UNCHANGED <<scvars, kinds>>
NextReadsF == NextReads /\ UNCHANGED <<scvars, kinds>>
\* simulation: TLC evaluates the invariants on every successor before it picks one, so the last step is
\* made unique (Finish) and a behaviour is emitted exactly once
Finish == n = MaxLen - 1 /\ UNCHANGED svars /\ Log([act |-> "Finish", reply |-> "ok"])
NextSimF == (IF n < MaxLen - 1 THEN NextSim ELSE (Finish /\ UNCHANGED kinds)) /\ UNCHANGED scvars
NextSkelF == (IF n < MaxLen - 1 THEN NextSkel ELSE Finish) /\ UNCHANGED <<scvars, kinds>>
NextTinyF == (IF n < MaxLen - 1 THEN NextTiny ELSE (Finish /\ UNCHANGED kinds)) /\ UNCHANGED scvars
NextShapeF == (IF n < MaxLen - 1 THEN NextShape ELSE (Finish /\ UNCHANGED kinds)) /\ UNCHANGED scvars
NextShapeSkelF == (IF n < MaxLen - 1 THEN NextShapeSkel ELSE (Finish /\ UNCHANGED kinds)) /\ UNCHANGED scvars
Spec == Init /\ [][NextF]_<<vars, hist, scvars, kinds>>

\* ---------------------------------------------------------------- properties (C23)
TypeOK == /\ work \in [Keys -> 0..NV]
          /\ exists \subseteq Vers /\ ver \in 0..MaxVer /\ first \in 0..(MaxVer + 1) /\ latest \in 0..MaxVer
\* the versions in the DB are first..latest
Contig == exists = (IF latest = 0 THEN {} ELSE first..latest)
\* the working tree and every open snapshot rest on a version that is still there
WorkingRetained == ver = 0 \/ ver \in exists
ReadersRetained == \A r \in Rdrs : readers[r] = 0 \/ readers[r] \in exists
\* an untouched session shows the version it was loaded from (RollbackRestores, load, reopen, save)
CleanIsSaved == (~dirty /\ ~poisoned) => work = SavedOf(ver)
NotRetainedIsBlank == \A v \in Vers \ exists : saved[v] = EmptyMap
\* a saved version never changes while it is retained
SavedImmutable == [][\A v \in exists \cap exists' : saved'[v] = saved[v]]_vars
\* pruning removes a prefix of the versions and never the latest
PruneKeepsRetained == [][(exists' # exists /\ latest' = latest)
                          => (latest \in exists' /\ \A v \in exists \ exists' : \A u \in exists' : v < u)]_vars
\* only SaveVersion creates versions, and only the next one
OnlyNext == [][\A v \in exists' \ exists : v = latest + 1 /\ saved'[v] = work]_vars
\* a rollback / load / reopen shows a saved version, never a mixture
SessionDrop == [][(dirty /\ ~dirty' /\ exists' = exists) => work' = SavedOf(ver')]_vars
\* history keys identify contents (C24 in the model): same key, same map
HkFunctional == \A v \in exists : (shk[v] = <<ver, pend>>) => saved[v] = work

Emit == PrintT(<<"TRACE", ToJson(hist)>>)
EmitAtEnd == n < MaxLen \/ Emit
EmitEdge == PrintT(<<"EDGE", ToJson(hist')>>)
\* script mode: emitted once, at the Finish record
EmitScript == gapmax >= 0 \/ PrintT(<<"TRACE", ToJson(hist)>>)
NextScriptStop == NextScript
=============================================================================
