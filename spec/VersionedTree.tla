---------------------------- MODULE VersionedTree ----------------------------
(* C23 / C24 / C30. A versioned ordered map as tm2/pkg/bptree.MutableTree (Impl = "bptree")
   and tm2/pkg/iavl.MutableTree (Impl = "iavl") present it: a working tree over the last
   saved / loaded version, saved versions in a DB (a contiguous range first..latest),
   read-only snapshots of saved versions, pruning of a prefix of the versions, re-opening
   the DB with other options, export / import into an empty DB.

   Keys are 1..NK in the byte order of the driver's key table (the spec only needs the
   order), values 1..NV (0 = absent). One action per public call; the guards transcribe the
   refusals of the code (branch order of PruneVersionsTo, SaveVersion on an existing version,
   the poisoned session of bptree).  Macro actions (Fill, RemoveRange, Sparse) issue many
   Set / Remove calls in one step so that simulated behaviours over several hundred keys
   split, merge and rebalance B = 32 nodes.

   Hash identity (C24): the root hash of the working tree is a function of its history key
   <<ver, pend>> (the saved version it started from and the writes since), the hash of saved
   version v of its number (versions are linear: a save on top of an existing version only
   succeeds when it reproduces it). Everything else (options, re-opening, pruning, snapshots,
   reads, rolled-back sessions, load round trips, export / import) is hash-neutral. In script
   mode (NextScript) the hash-relevant calls are forced from a given script and only neutral
   actions are chosen freely: behaviours generated from the same script form a family whose
   hashes must be byte-equal at every script position.

   Named deviations from a naive reading (documented behaviour of the code):
   * bptree: a failed SaveVersion (the version exists with other contents) poisons the session:
     Set / Remove / SaveVersion refuse until Rollback or a successful LoadVersion; the working
     tree of a poisoned session is not read (its staged values were discarded by design).
   * bptree: PruneVersionsTo refuses with uncommitted changes, when the working tree is loaded
     at a pruned version, and when a snapshot of a pruned version is open. iavl has no such
     refusals; its documentation makes the caller responsible, so for iavl these calls are
     not generated.
   * SaveVersion on an existing version with EQUAL contents but a different history: the
     outcome depends on the tree shape; generated only where the shape is a function of the
     contents (bptree with all keys in one node: SmallTree) or the history key is the same.
   * Iterators are drained and closed within one step.  *)
EXTENDS Integers, Sequences, FiniteSets, TLC, Json

CONSTANTS NK, NV, MaxVer, MaxLen, NR,
          Impl,        \* "bptree" | "iavl"
          SmallTree,   \* TRUE: every key set fits in one bptree node (NK <= 32)
          Opts,        \* set of option records [cache, fast] for Reopen / Migrate
          Reads,       \* TRUE: explicit read actions are generated
          BadArgs,     \* TRUE: Set with empty key / nil value is generated (bptree)
          SvAlways,    \* TRUE: every record carries the contents of all retained versions
          Quiet,       \* TRUE: no history (exhaustive runs that emit nothing)
          FillSizes,   \* sizes of the macro actions (simulation)
          Scripts      \* sequence of scripts (script mode), <<>> otherwise

Keys == 1..NK
Vals == 1..NV
Vers == 1..MaxVer
Rdrs == 1..NR
EmptyMap == [k \in Keys |-> 0]
NoHk == <<0, <<>>>>

VARIABLES work,      \* [Keys -> 0..NV] the working tree
          saved,     \* [Vers -> [Keys -> 0..NV]] contents of the saved versions (EmptyMap when not retained)
          exists,    \* SUBSET Vers: versions in the DB
          first, latest,
          ver,       \* version the working tree was saved as / loaded from (0 = none)
          dirty,     \* the session has staged mutations
          poisoned,  \* bptree: a SaveVersion failed
          readers,   \* [Rdrs -> 0..MaxVer] open snapshots (0 = closed)
          opt,       \* current options (ghost: does not influence any reply)
          pend,      \* ghost: hash-relevant writes since ver
          shk,       \* ghost: [Vers -> history key the version was saved from]
          n, hist,
          fam, pc, gap, gapmax, spend   \* script mode

svars == <<work, saved, exists, first, latest, ver, dirty, poisoned, readers, opt, pend, shk>>
scvars == <<fam, pc, gap, gapmax, spend>>
vars == <<svars, n>>
View == <<work, saved, exists, first, latest, ver, dirty, poisoned, readers, n>>

Bptree == Impl = "bptree"

\* ------------------------------------------------------------------ the ordered-map reads
Present(m) == {k \in Keys : m[k] # 0}
SizeR(m) == Cardinality(Present(m))
Rank(m, k) == Cardinality({j \in Present(m) : j < k})     \* keys below k = index of k / insertion index
GetR(m, k) == m[k]
HasR(m, k) == m[k] # 0
WithIndexR(m, k) == [idx |-> Rank(m, k), v |-> m[k]]
ByIndexR(m, i) == IF i < 0 \/ i >= SizeR(m) THEN [k |-> 0, v |-> 0]
                  ELSE LET k == CHOOSE x \in Present(m) : Rank(m, x) = i IN [k |-> k, v |-> m[k]]
KeySeq == [k \in Keys |-> k]
Rev(sq) == [i \in 1..Len(sq) |-> sq[Len(sq) + 1 - i]]
\* bounds: 0 = nil (unbounded), k = the key k; start inclusive, end exclusive
RangeKeys(m, s, e) == LET In(k) == m[k] # 0 /\ (s = 0 \/ k >= s) /\ (e = 0 \/ k < e) IN SelectSeq(KeySeq, In)
RangeR(m, s, e, asc) == LET ks == IF asc THEN RangeKeys(m, s, e) ELSE Rev(RangeKeys(m, s, e))
                        IN [i \in 1..Len(ks) |-> <<ks[i], m[ks[i]]>>]

SavedOf(v) == IF v = 0 THEN EmptyMap ELSE saved[v]
SortedVers(S) == SelectSeq([v \in Vers |-> v], LAMBDA v : v \in S)

\* ------------------------------------------------------------------ projection and log
St == [ver |-> ver, avail |-> SortedVers(exists), w |-> work, poisoned |-> poisoned,
       wk |-> <<ver, pend>>, opt |-> opt]
VerActs == {"Init", "SaveVersion", "Rollback", "LoadVersion", "Reopen", "Prune", "Migrate"}
Log(r) == /\ n' = n + 1
          /\ hist' = IF Quiet THEN hist
                     ELSE Append(hist, r @@ [st |-> St']
                                         @@ (IF SvAlways \/ r.act \in VerActs THEN [sv |-> saved'] ELSE <<>>))

Init ==
  /\ work = EmptyMap /\ saved = [v \in Vers |-> EmptyMap] /\ exists = {} /\ first = 0 /\ latest = 0
  /\ ver = 0 /\ dirty = FALSE /\ poisoned = FALSE /\ readers = [r \in Rdrs |-> 0]
  /\ opt \in Opts /\ pend = <<>> /\ shk = [v \in Vers |-> NoHk]
  /\ n = 1
  /\ fam \in (IF Scripts = <<>> THEN {0} ELSE 1..Len(Scripts))
  /\ pc = 1 /\ gap = 0 /\ gapmax = 2 /\ spend = <<>>
  /\ hist = IF Quiet THEN <<>>
            ELSE << [act |-> "Init", reply |-> "ok", fam |-> fam, st |-> St, sv |-> saved] >>

Refused == Bptree /\ poisoned

\* ------------------------------------------------------------------ writes
Set(k, v) ==
  /\ n < MaxLen
  /\ IF Refused
     THEN UNCHANGED svars /\ Log([act |-> "Set", k |-> k, v |-> v, reply |-> "poisoned"])
     ELSE /\ work' = [work EXCEPT ![k] = v]
          /\ dirty' = TRUE
          /\ pend' = Append(pend, <<"s", k, v>>)
          /\ UNCHANGED <<saved, exists, first, latest, ver, poisoned, readers, opt, shk>>
          /\ Log([act |-> "Set", k |-> k, v |-> v, reply |-> IF work[k] # 0 THEN "updated" ELSE "new"])

\* Set with an empty key / a nil value: refused before anything is staged
SetBad(cls) ==
  /\ n < MaxLen /\ BadArgs
  /\ UNCHANGED svars
  /\ Log([act |-> "SetBad", cls |-> cls, reply |-> IF Refused THEN "poisoned" ELSE "err"])

Remove(k) ==
  /\ n < MaxLen
  /\ IF Refused
     THEN UNCHANGED svars /\ Log([act |-> "Remove", k |-> k, reply |-> "poisoned", old |-> 0])
     ELSE IF work[k] = 0
     THEN UNCHANGED svars /\ Log([act |-> "Remove", k |-> k, reply |-> "absent", old |-> 0])
     ELSE /\ work' = [work EXCEPT ![k] = 0]
          /\ dirty' = TRUE
          /\ pend' = Append(pend, <<"r", k>>)
          /\ UNCHANGED <<saved, exists, first, latest, ver, poisoned, readers, opt, shk>>
          /\ Log([act |-> "Remove", k |-> k, reply |-> "removed", old |-> work[k]])

\* macro actions: the driver issues one Set / Remove per key, in the given direction
ValOf(k, salt) == ((k + salt) % NV) + 1
Span(from, cnt) == from..(IF from + cnt - 1 > NK THEN NK ELSE from + cnt - 1)
Fill(from, cnt, salt, asc) ==
  /\ n < MaxLen /\ ~Refused
  /\ LET S == Span(from, cnt) IN
     /\ work' = [k \in Keys |-> IF k \in S THEN ValOf(k, salt) ELSE work[k]]
     /\ dirty' = TRUE
     /\ pend' = Append(pend, <<"f", from, cnt, salt, asc>>)
     /\ UNCHANGED <<saved, exists, first, latest, ver, poisoned, readers, opt, shk>>
     /\ Log([act |-> "Fill", from |-> from, cnt |-> cnt, salt |-> salt, asc |-> asc,
             reply |-> Cardinality({k \in S : work[k] # 0})])
\* every stride-th key from off: scattered inserts
Sparse(off, stride, salt) ==
  /\ n < MaxLen /\ ~Refused
  /\ LET S == {k \in Keys : k >= off /\ (k - off) % stride = 0} IN
     /\ work' = [k \in Keys |-> IF k \in S THEN ValOf(k, salt) ELSE work[k]]
     /\ dirty' = TRUE
     /\ pend' = Append(pend, <<"p", off, stride, salt>>)
     /\ UNCHANGED <<saved, exists, first, latest, ver, poisoned, readers, opt, shk>>
     /\ Log([act |-> "Sparse", off |-> off, stride |-> stride, salt |-> salt,
             reply |-> Cardinality({k \in S : work[k] # 0})])
RemoveRange(from, cnt, asc) ==
  /\ n < MaxLen /\ ~Refused
  /\ LET S == Span(from, cnt)
         hit == {k \in S : work[k] # 0} IN
     /\ work' = [k \in Keys |-> IF k \in S THEN 0 ELSE work[k]]
     /\ dirty' = (dirty \/ hit # {})
     /\ pend' = IF hit = {} THEN pend ELSE Append(pend, <<"x", from, cnt, asc>>)
     /\ UNCHANGED <<saved, exists, first, latest, ver, poisoned, readers, opt, shk>>
     /\ Log([act |-> "RemoveRange", from |-> from, cnt |-> cnt, asc |-> asc, reply |-> Cardinality(hit)])

\* ------------------------------------------------------------------ versions
SaveVersion ==
  /\ n < MaxLen
  /\ LET nv == ver + 1 IN
     IF Refused
     THEN UNCHANGED svars /\ Log([act |-> "SaveVersion", reply |-> "poisoned", v |-> 0])
     ELSE IF nv \in exists
     THEN IF work # saved[nv]
          THEN \* other contents => other hash: refused, bptree poisons the session
               /\ poisoned' = Bptree
               /\ UNCHANGED <<work, saved, exists, first, latest, ver, dirty, readers, opt, pend, shk>>
               /\ Log([act |-> "SaveVersion", reply |-> "mismatch", v |-> 0])
          ELSE \* same contents: idempotent when the hash is the same; the persisted version is adopted
               /\ (Bptree /\ SmallTree) \/ <<ver, pend>> = shk[nv] \/ work = EmptyMap
               /\ ver' = nv /\ dirty' = FALSE /\ pend' = <<>>
               /\ UNCHANGED <<work, saved, exists, first, latest, poisoned, readers, opt, shk>>
               /\ Log([act |-> "SaveVersion", reply |-> "ok", v |-> nv])
     ELSE /\ nv <= MaxVer
          /\ saved' = [saved EXCEPT ![nv] = work]
          /\ exists' = exists \cup {nv}
          /\ latest' = nv
          /\ first' = IF first = 0 THEN nv ELSE first
          /\ ver' = nv /\ dirty' = FALSE /\ pend' = <<>>
          /\ shk' = [shk EXCEPT ![nv] = <<ver, pend>>]
          /\ UNCHANGED <<work, poisoned, readers, opt>>
          /\ Log([act |-> "SaveVersion", reply |-> "ok", v |-> nv])

Rollback ==
  /\ n < MaxLen
  /\ work' = SavedOf(ver)
  /\ dirty' = FALSE /\ poisoned' = FALSE /\ pend' = <<>>
  /\ UNCHANGED <<saved, exists, first, latest, ver, readers, opt, shk>>
  /\ Log([act |-> "Rollback", reply |-> "ok"])

\* v = 0: the latest version
LoadVersion(v) ==
  /\ n < MaxLen
  /\ LET t == IF v = 0 THEN latest ELSE v IN
     IF t = 0
     THEN UNCHANGED svars /\ Log([act |-> "LoadVersion", v |-> v, reply |-> "ok", ret |-> 0])
     ELSE IF t \notin exists
     THEN UNCHANGED svars /\ Log([act |-> "LoadVersion", v |-> v, reply |-> "err", ret |-> 0])
     ELSE /\ work' = saved[t]
          /\ ver' = t /\ dirty' = FALSE /\ poisoned' = FALSE /\ pend' = <<>>
          /\ UNCHANGED <<saved, exists, first, latest, readers, opt, shk>>
          /\ Log([act |-> "LoadVersion", v |-> v, reply |-> "ok", ret |-> latest])

\* close the tree, open the same DB with options o, Load
Reopen(o) ==
  /\ n < MaxLen
  /\ work' = SavedOf(latest)
  /\ ver' = latest /\ dirty' = FALSE /\ poisoned' = FALSE /\ pend' = <<>>
  /\ readers' = [r \in Rdrs |-> 0]
  /\ opt' = o
  /\ UNCHANGED <<saved, exists, first, latest, shk>>
  /\ Log([act |-> "Reopen", o |-> o, reply |-> "ok"])

PruneOk(to) ==
  /\ exists' = {v \in exists : v > to}
  /\ first' = to + 1
  /\ saved' = [v \in Vers |-> IF v <= to THEN EmptyMap ELSE saved[v]]
  /\ shk' = [v \in Vers |-> IF v <= to THEN NoHk ELSE shk[v]]
  /\ UNCHANGED <<work, latest, ver, dirty, poisoned, readers, opt, pend>>
  /\ Log([act |-> "Prune", to |-> to, reply |-> "ok"])
PruneNo(to, r) == UNCHANGED svars /\ Log([act |-> "Prune", to |-> to, reply |-> r])
Prune(to) ==
  /\ n < MaxLen
  /\ IF Bptree
     THEN IF to >= latest THEN PruneNo(to, "err")
          ELSE IF to < first THEN PruneNo(to, "ok")
          ELSE IF dirty THEN PruneNo(to, "err")
          ELSE IF ver <= to THEN PruneNo(to, "err")
          ELSE IF \E r \in Rdrs : readers[r] # 0 /\ readers[r] <= to THEN PruneNo(to, "err")
          ELSE PruneOk(to)
     ELSE \* iavl: the caller keeps pruned versions unused
          /\ ~dirty /\ ver > to /\ \A r \in Rdrs : readers[r] = 0 \/ readers[r] > to
          /\ IF to >= latest THEN PruneNo(to, "err")
             ELSE IF to < first THEN PruneNo(to, "ok")
             ELSE PruneOk(to)

GetImmutable(r, v) ==
  /\ n < MaxLen /\ readers[r] = 0
  /\ IF v \in exists
     THEN /\ readers' = [readers EXCEPT ![r] = v]
          /\ UNCHANGED <<work, saved, exists, first, latest, ver, dirty, poisoned, opt, pend, shk>>
          /\ Log([act |-> "GetImmutable", r |-> r, v |-> v, reply |-> "ok"])
     ELSE UNCHANGED svars /\ Log([act |-> "GetImmutable", r |-> r, v |-> v, reply |-> "err"])
CloseReader(r) ==
  /\ n < MaxLen /\ readers[r] # 0
  /\ readers' = [readers EXCEPT ![r] = 0]
  /\ UNCHANGED <<work, saved, exists, first, latest, ver, dirty, poisoned, opt, pend, shk>>
  /\ Log([act |-> "CloseReader", r |-> r, reply |-> "ok"])

\* export version v, import it into an empty DB: contents and hash are reproduced
ExportImport(v) ==
  /\ n < MaxLen /\ v \in exists
  /\ UNCHANGED svars
  /\ Log([act |-> "ExportImport", v |-> v, reply |-> IF saved[v] = EmptyMap THEN "empty" ELSE "ok", m |-> saved[v]])
\* ... and continue on the imported DB (options o): it holds the latest version only
Migrate(o) ==
  /\ n < MaxLen /\ latest > 0 /\ ver = latest /\ ~dirty /\ ~poisoned /\ saved[latest] # EmptyMap
  /\ exists' = {latest} /\ first' = latest
  /\ saved' = [v \in Vers |-> IF v = latest THEN saved[v] ELSE EmptyMap]
  /\ shk' = [v \in Vers |-> IF v = latest THEN shk[v] ELSE NoHk]
  /\ readers' = [r \in Rdrs |-> 0]
  /\ opt' = o
  /\ UNCHANGED <<work, latest, ver, dirty, poisoned, pend>>
  /\ Log([act |-> "Migrate", o |-> o, reply |-> "ok"])

\* ------------------------------------------------------------------ reads: target 0 = working tree, r = snapshot r
MapOf(t) == IF t = 0 THEN work ELSE saved[readers[t]]
Targets == (IF Refused THEN {} ELSE {0}) \cup {r \in Rdrs : readers[r] # 0}
LogR(r) == UNCHANGED svars /\ Log(r)
Get(t, k) == n < MaxLen /\ LogR([act |-> "Get", t |-> t, k |-> k, reply |-> GetR(MapOf(t), k)])
Has(t, k) == n < MaxLen /\ LogR([act |-> "Has", t |-> t, k |-> k, reply |-> HasR(MapOf(t), k)])
ByIndex(t, i) == n < MaxLen /\ LogR([act |-> "ByIndex", t |-> t, i |-> i, reply |-> ByIndexR(MapOf(t), i)])
WithIndex(t, k) == n < MaxLen /\ LogR([act |-> "WithIndex", t |-> t, k |-> k, reply |-> WithIndexR(MapOf(t), k)])
Iter(t, s, e, asc) == n < MaxLen /\ LogR([act |-> "Iter", t |-> t, s |-> s, e |-> e, asc |-> asc,
                                          reply |-> RangeR(MapOf(t), s, e, asc)])
Size(t) == n < MaxLen /\ LogR([act |-> "Size", t |-> t, reply |-> SizeR(MapOf(t))])
\* versioned point read: nil for a missing version
GetVersioned(k, v) == n < MaxLen /\ LogR([act |-> "GetVersioned", k |-> k, v |-> v,
                                          reply |-> IF v \in exists THEN saved[v][k] ELSE 0])

ReadNext ==
  \E t \in Targets :
     \/ \E k \in Keys : Get(t, k) \/ Has(t, k) \/ WithIndex(t, k)
     \/ \E i \in (0 - 1)..NK : ByIndex(t, i)
     \/ \E s, e \in 0..NK, asc \in BOOLEAN : Iter(t, s, e, asc)
     \/ Size(t)

Next ==
  \/ \E k \in Keys, v \in Vals : Set(k, v)
  \/ \E k \in Keys : Remove(k)
  \/ \E c \in {"emptykey", "nilvalue"} : SetBad(c)
  \/ SaveVersion \/ Rollback
  \/ \E v \in 0..(MaxVer + 1) : LoadVersion(v)
  \/ \E o \in Opts : Reopen(o)
  \/ \E to \in Vers : Prune(to)
  \/ \E r \in Rdrs, v \in Vers : GetImmutable(r, v)
  \/ \E r \in Rdrs : CloseReader(r)
  \/ (Reads /\ ReadNext)
  \/ (Reads /\ \E k \in Keys, v \in 0..(MaxVer + 1) : GetVersioned(k, v))

\* the read-only part of the machine: every map over the keys, read through the working tree and a snapshot
NextReads ==
  \/ \E k \in Keys, v \in Vals : Set(k, v)
  \/ \E k \in Keys : Remove(k)
  \/ SaveVersion
  \/ \E r \in Rdrs, v \in Vers : GetImmutable(r, v)
  \/ ReadNext
  \/ \E k \in Keys, v \in 0..(MaxVer + 1) : GetVersioned(k, v)

\* ------------------------------------------------------------------ simulation (several hundred keys)
\* arguments drawn with RandomElement; the reference to n keeps TLC from folding the set into a constant
RE(S) == RandomElement({x \in S : n >= 0})
SimWrites ==
  \/ \E f \in {RE(Keys)}, c \in {RE(FillSizes)}, s \in {RE(0..5)}, a \in {RE(BOOLEAN)} : Fill(f, c, s, a)
  \/ \E f \in {RE(1..(NK \div 4 + 1))}, c \in {RE(FillSizes)}, s \in {RE(0..5)}, a \in {RE(BOOLEAN)} : Fill(f, c, s, a)
  \/ \E o \in {RE(1..7)}, d \in {RE({2, 3, 5, 7})}, s \in {RE(0..5)} : Sparse(o, d, s)
  \/ \E f \in {RE(Keys)}, c \in {RE(FillSizes)}, a \in {RE(BOOLEAN)} : RemoveRange(f, c, a)
  \/ \E f \in {RE(Keys)}, c \in {RE(FillSizes)}, a \in {RE(BOOLEAN)} : RemoveRange(f, c, a)
  \/ \E k \in {RE(Keys)}, v \in {RE(Vals)} : Set(k, v)
  \/ \E k \in {RE(Keys)} : Remove(k)
SimReads ==
  \E t \in {RE(Targets \cup {0})} : t \in Targets /\
     \/ \E k \in {RE(Keys)} : Get(t, k) \/ Has(t, k) \/ WithIndex(t, k)
     \/ \E i \in {RE((0 - 1)..NK)} : ByIndex(t, i)
     \/ \E i \in {RE({0, SizeR(MapOf(t)) - 1, SizeR(MapOf(t))})} : ByIndex(t, i)
     \/ \E s \in {RE(0..NK)}, e \in {RE(0..NK)}, asc \in {RE(BOOLEAN)} : Iter(t, s, e, asc)
     \/ \E s \in {RE(Keys)}, w \in {RE(0..40)}, asc \in {RE(BOOLEAN)} : Iter(t, s, IF s + w > NK THEN 0 ELSE s + w, asc)
NextSim ==
  \/ SimWrites \/ SimWrites
  \/ SaveVersion \/ SaveVersion \/ SaveVersion
  \/ Rollback
  \/ \E v \in {RE(0..(MaxVer + 1))} : LoadVersion(v)
  \/ \E v \in {RE(exists \cup {0})} : LoadVersion(v)
  \/ \E o \in {RE(Opts)} : Reopen(o)
  \/ \E to \in {RE(Vers)} : Prune(to)
  \/ \E to \in {RE({v \in Vers : v < latest} \cup {1})} : Prune(to)
  \/ \E r \in {RE(Rdrs)}, v \in {RE(Vers)} : GetImmutable(r, v)
  \/ \E r \in {RE(Rdrs)}, v \in {RE(exists \cup {1})} : GetImmutable(r, v)
  \/ \E r \in {RE(Rdrs)} : CloseReader(r)
  \/ SimReads \/ SimReads
  \/ \E k \in {RE(Keys)}, v \in {RE(0..(MaxVer + 1))} : GetVersioned(k, v)
  \/ \E v \in {RE(exists \cup {1})} : ExportImport(v)

\* skeleton generator (C24): hash-relevant calls only
NextSkel ==
  \/ SimWrites \/ SimWrites
  \/ (dirty /\ SaveVersion)
  \/ (dirty /\ SaveVersion)

\* ------------------------------------------------------------------ script mode (C24)
S == Scripts[fam]
Done == pc > Len(S)
\* the working tree is exactly where the script left it
InStep == ver = latest /\ ~poisoned /\ pend = spend
Scripted ==
  /\ ~Done /\ InStep
  /\ LET s == S[pc] IN
     /\ CASE s.act = "Set" -> Set(s.k, s.v)
          [] s.act = "Remove" -> Remove(s.k)
          [] s.act = "Fill" -> Fill(s.from, s.cnt, s.salt, s.asc)
          [] s.act = "Sparse" -> Sparse(s.off, s.stride, s.salt)
          [] s.act = "RemoveRange" -> RemoveRange(s.from, s.cnt, s.asc)
          [] s.act = "SaveVersion" -> SaveVersion
     /\ pc' = pc + 1 /\ gap' = 0 /\ gapmax' = RE({0, 0, 1, 1, 2, 3})
     /\ spend' = pend'
     /\ fam' = fam
Budget == gap < gapmax
NeutralStep(A) == A /\ gap' = gap + 1 /\ UNCHANGED <<fam, pc, gapmax, spend>>
\* a session the script does not know about: must be rolled back before the script goes on
Scratch == spend = <<>> /\ ~poisoned /\
           \/ \E k \in {RE(Keys)}, v \in {RE(Vals)} : Set(k, v)
           \/ \E k \in {RE(Keys)} : Remove(k)
           \/ \E f \in {RE(Keys)}, c \in {RE(FillSizes)}, a \in {RE(BOOLEAN)} : RemoveRange(f, c, a)
           \/ \E f \in {RE(Keys)}, c \in {RE(FillSizes)}, s \in {RE(0..5)}, a \in {RE(BOOLEAN)} : Fill(f, c, s, a)
Neutral ==
  \/ (Budget /\ \E to \in {RE({v \in Vers : v < latest} \cup {1})} : Prune(to))
  \/ (Budget /\ \E r \in {RE(Rdrs)}, v \in {RE(exists \cup {1})} : GetImmutable(r, v))
  \/ (Budget /\ \E r \in {RE(Rdrs)} : CloseReader(r))
  \/ (Budget /\ SimReads)
  \/ (Budget /\ \E v \in {RE(exists \cup {1})} : ExportImport(v))
  \/ (Budget /\ Scratch)
  \* session-dropping calls: only when the script has nothing pending
  \/ ((Budget \/ ~InStep) /\ spend = <<>> /\ \E o \in {RE(Opts)} : Reopen(o))
  \/ ((Budget \/ (~InStep /\ ver = latest)) /\ spend = <<>> /\ Rollback)
  \/ ((Budget \/ ~InStep) /\ spend = <<>> /\ LoadVersion(0))
  \/ (Budget /\ spend = <<>> /\ \E v \in {RE(exists \cup {0})} : LoadVersion(v))
  \/ (Budget /\ spend = <<>> /\ InStep /\ \E o \in {RE(Opts)} : Migrate(o))
NextScript == Scripted \/ NeutralStep(Neutral)

\* the free modes leave the script variables alone
NextF == Next /\ UNCHANGED scvars
NextReadsF == NextReads /\ UNCHANGED scvars
NextSimF == NextSim /\ UNCHANGED scvars
NextSkelF == NextSkel /\ UNCHANGED scvars
Spec == Init /\ [][NextF]_<<vars, hist, scvars>>

\* ---------------------------------------------------------------- properties (C23)
TypeOK == /\ work \in [Keys -> 0..NV]
          /\ exists \subseteq Vers /\ ver \in 0..MaxVer /\ first \in 0..(MaxVer + 1) /\ latest \in 0..MaxVer
\* the versions in the DB are first..latest
Contig == exists = (IF latest = 0 THEN {} ELSE first..latest)
\* the working tree and every open snapshot rest on a version that is still there
WorkingRetained == ver = 0 \/ ver \in exists
ReadersRetained == \A r \in Rdrs : readers[r] = 0 \/ readers[r] \in exists
\* an untouched session shows the version it was loaded from (RollbackRestores, load, reopen, save)
CleanIsSaved == (~dirty /\ ~poisoned) => work = SavedOf(ver)
NotRetainedIsBlank == \A v \in Vers \ exists : saved[v] = EmptyMap
\* a saved version never changes while it is retained
SavedImmutable == [][\A v \in exists \cap exists' : saved'[v] = saved[v]]_vars
\* pruning removes a prefix of the versions and never the latest
PruneKeepsRetained == [][(exists' # exists /\ latest' = latest)
                          => (latest \in exists' /\ \A v \in exists \ exists' : \A u \in exists' : v < u)]_vars
\* only SaveVersion creates versions, and only the next one
OnlyNext == [][\A v \in exists' \ exists : v = latest + 1 /\ saved'[v] = work]_vars
\* a rollback / load / reopen shows a saved version, never a mixture
SessionDrop == [][(dirty /\ ~dirty' /\ exists' = exists) => work' = SavedOf(ver')]_vars
\* history keys identify contents (C24 in the model): same key, same map
HkFunctional == \A v \in exists : (shk[v] = <<ver, pend>>) => saved[v] = work

Emit == PrintT(<<"TRACE", ToJson(hist)>>)
EmitAtEnd == n < MaxLen \/ Emit
EmitEdge == PrintT(<<"EDGE", ToJson(hist')>>)
\* script mode: emit when the script is finished and the trailing neutral budget is used up
ScriptEnd == Done /\ ~Budget /\ InStep
EmitScript == ~ScriptEnd \/ PrintT(<<"TRACE", ToJson(hist)>>)
NextScriptStop == ~ScriptEnd /\ NextScript
=============================================================================
