CONSTANTS
  MaxH = 2
  MaxMsgs = 3
  MaxFiles = 3
  MaxLen = 6
  MaxCrash = 1
  MaxCorrupt = 1
INIT Init
NEXT Next
VIEW View
INVARIANTS TypeOK ReadIsSubsequence ReadComplete NothingInvented SyncedDurable MarkersUnique

