CONSTANTS
  K = 4
  H0 = 1
  MaxLen = 6
  NV = 1
  FirstHs <- F1
  MaxFirst = 1
INIT Init
NEXT Next
VIEW View
INVARIANTS TypeOK LoadEqualsSaved Contiguous HeightIsLastSaved ValsAtHeightCorrect ParamsAtHeightCorrect KnownRange
PROPERTIES HeightMonotone

