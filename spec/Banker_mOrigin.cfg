CONSTANTS
  FromCheck = TRUE
  CurrentCheck = TRUE
  OriginDecrement = FALSE
  OriginTotal = TRUE
  DenomCheck = TRUE
  MaxTx = 1
  MaxOps = 2
INIT Init
NEXT Next
INVARIANTS InvDecrease InvDenom InvCapsNeedGrant InvOriginNet
