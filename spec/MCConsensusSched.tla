---------------------------- MODULE MCConsensusSched ----------------------------
EXTENDS ConsensusSched
H3 == {"h1", "h2", "h3"}
B1 == {"b1"}
\* proposer orders: the position of the Byzantine validator (honest validators are interchangeable)
OB0 == [r \in 0..3 |-> CASE r = 0 -> "b1" [] r = 1 -> "h1" [] r = 2 -> "h2" [] r = 3 -> "h3"]
OB1 == [r \in 0..3 |-> CASE r = 0 -> "h1" [] r = 1 -> "b1" [] r = 2 -> "h2" [] r = 3 -> "h3"]
OB2 == [r \in 0..3 |-> CASE r = 0 -> "h1" [] r = 1 -> "h2" [] r = 2 -> "b1" [] r = 3 -> "h3"]
OB3 == [r \in 0..3 |-> CASE r = 0 -> "h1" [] r = 1 -> "h2" [] r = 2 -> "h3" [] r = 3 -> "b1"]
OrdersAll == {OB0, OB1, OB2, OB3}
KBoth == {"prevote", "precommit"}
KPrevote == {"prevote"}
KNone == {}
OrdersB0 == {OB0}
OrdersB1 == {OB1}
=============================================================================
