CONSTANTS
  Part = "simple"
  NI = 2
  MaxRep = 3
  MaxN = 5
  NKeys = 1
INIT Init
NEXT Next
INVARIANTS Complete Sound SingleFieldRejected GapOnly EmitCase
