CONSTANTS
  ND = 2
  Amts <- AmtsExt
  MIN <- MinS
  MAX <- MaxS
  MaxLen = 2
  Ops <- OpsEdge
INIT Init
NEXT Next
VIEW View
INVARIANTS TypeOK ImplMatchesModel ResultValid AddCommutes AddSubInverse SubIffGTE CmpPerDenom
ACTION_CONSTRAINT EmitEdge
