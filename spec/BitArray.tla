---------------------------- MODULE BitArray ----------------------------
(* C48. Boolean-vector model of tm2/pkg/bitarray.BitArray (registers Regs) and of
   tm2/pkg/crypto/multisig/bitarray.CompactBitArray (registers CRegs).
   A value is nil or a finite sequence of booleans; one action per public call:
     New/Empty/Set/Copy/Not/Or/And/Sub/Update            (BitArray)
     CNew/CEmpty/CSet/CCopy                              (CompactBitArray)
   Reads (Size, GetIndex, IsEmpty, IsFull, true indices, Bytes, JSON, and for compact arrays
   NumTrueBitsBefore) are the projection P of the destination register, compared by the driver after
   every step together with the unchanged contents of all other registers (no aliasing) and the
   decode(encode(x)) = x round trips.

   Documented size / nil rules modelled (bit_array.go doc comments and tests):
     NewBitArray(n <= 0) = nil;  GetIndex / SetIndex outside 0..size-1 = false, no change;
     Or: nil,nil -> nil; one nil -> copy of the other; else size = max, shorter operand zero-padded;
     And: a nil operand -> nil; size = min;   Sub: a nil operand -> nil; size of the receiver, argument
     zero-padded / truncated;  Not(nil) = nil;  IsEmpty(nil) = IsFull(nil) = TRUE;  Copy(nil) = nil;
     Update: no-op when either side is nil.
   Named deviations (outside the documented contract, not generated):
     * Update between arrays of different sizes (no size rule is documented; the code copies whole words);
     * negative indices.
   Registers may coincide (a.Or(a)): the boolean-vector answer is required.                          *)
EXTENDS Integers, Sequences, FiniteSets, TLC, Json

CONSTANTS Regs, CRegs,   \* register names of the two array types
          Sizes,         \* sizes offered to New / CNew (may contain values <= 0)
          SmallMax,      \* sizes <= SmallMax get every bit pattern, larger ones the boundary family
          Mode,          \* "free": any action;  "pairs": New(a), New(b), then one operation into c
          Laws,          \* evaluate the algebraic-law invariant (small configurations only)
          NewUntil,      \* New / Empty / CNew / CEmpty are offered while Len(hist) < NewUntil (keeps simulation
                         \* behaviours from being dominated by constructor calls)
          MaxLen

VARIABLES val, cval, hist,
          fin            \* simulation only: set by Finish so that one behaviour is emitted per trace
vars == <<val, cval>>
View == vars

Nil == [nil |-> TRUE, bits |-> <<>>]
Arr(s) == [nil |-> FALSE, bits |-> s]
Size(v) == Len(v.bits)
At(v, i) == i >= 0 /\ i < Size(v) /\ v.bits[i + 1]
MaxI(x, y) == IF x >= y THEN x ELSE y
MinI(x, y) == IF x <= y THEN x ELSE y
RECURSIVE Pow2(_)
Pow2(e) == IF e = 0 THEN 1 ELSE 2 * Pow2(e - 1)

\* ------------------------------------------------------------------ patterns
BoundaryPos == {0, 1, 7, 8, 62, 63, 64, 65, 126, 127, 128}
PatsFor(sz) ==
  IF sz <= 0 THEN {[k |-> "zeros", a |-> 0]}
  ELSE IF sz <= SmallMax THEN {[k |-> "mask", a |-> m] : m \in 0..(Pow2(sz) - 1)}
  ELSE {[k |-> "zeros", a |-> 0], [k |-> "ones", a |-> 0], [k |-> "alt", a |-> 0], [k |-> "alt", a |-> 1]}
       \cup {[k |-> "single", a |-> p] : p \in {q \in BoundaryPos \cup {sz - 1} : q < sz}}
       \cup {[k |-> "prefix", a |-> p] : p \in {q \in BoundaryPos : q > 0 /\ q < sz}}
       \cup {[k |-> "hole", a |-> p] : p \in {q \in BoundaryPos \cup {sz - 1} : q < sz}}
Bit(p, i) == CASE p.k = "mask" -> (p.a \div Pow2(i)) % 2 = 1
               [] p.k = "zeros" -> FALSE
               [] p.k = "ones" -> TRUE
               [] p.k = "alt" -> i % 2 = p.a
               [] p.k = "single" -> i = p.a
               [] p.k = "prefix" -> i < p.a
               [] p.k = "hole" -> i # p.a

\* ------------------------------------------------------------------ the boolean-vector operations
NewV(sz, p) == IF sz <= 0 THEN Nil ELSE Arr([i \in 1..sz |-> Bit(p, i - 1)])
CanSet(v, i) == ~v.nil /\ i >= 0 /\ i < Size(v)
SetV(v, i, b) == IF CanSet(v, i) THEN Arr([v.bits EXCEPT ![i + 1] = b]) ELSE v
OrV(x, y) == IF x.nil /\ y.nil THEN Nil ELSE IF x.nil THEN y ELSE IF y.nil THEN x
             ELSE Arr([i \in 1..MaxI(Size(x), Size(y)) |-> At(x, i - 1) \/ At(y, i - 1)])
AndV(x, y) == IF x.nil \/ y.nil THEN Nil
              ELSE Arr([i \in 1..MinI(Size(x), Size(y)) |-> x.bits[i] /\ y.bits[i]])
NotV(x) == IF x.nil THEN Nil ELSE Arr([i \in 1..Size(x) |-> ~x.bits[i]])
SubV(x, y) == IF x.nil \/ y.nil THEN Nil ELSE Arr([i \in 1..Size(x) |-> x.bits[i] /\ ~At(y, i - 1)])
UpdateV(x, y) == IF x.nil \/ y.nil THEN x ELSE y               \* sizes equal (guard of Update)
IsEmptyV(v) == \A i \in 1..Size(v) : ~v.bits[i]
IsFullV(v) == \A i \in 1..Size(v) : v.bits[i]
TrueSet(v) == {i \in 0..(Size(v) - 1) : v.bits[i + 1]}
NumTrueBefore(v, j) == Cardinality({i \in TrueSet(v) : i < j})
RECURSIVE Asc(_, _, _)
Asc(v, i, acc) == IF i >= Size(v) THEN acc ELSE Asc(v, i + 1, IF v.bits[i + 1] THEN Append(acc, i) ELSE acc)
TrueIdx(v) == Asc(v, 0, <<>>)
ByteAt(v, j) == LET b(t) == IF At(v, 8 * j + t) THEN Pow2(t) ELSE 0
                IN b(0) + b(1) + b(2) + b(3) + b(4) + b(5) + b(6) + b(7)
BytesV(v) == [j \in 1..((Size(v) + 7) \div 8) |-> ByteAt(v, j - 1)]
RECURSIVE StrFrom(_, _)
StrFrom(s, i) == IF i > Len(s) THEN "" ELSE (IF s[i] THEN "x" ELSE "_") \o StrFrom(s, i + 1)
Str(v) == StrFrom(v.bits, 1)

P(v) == [nil |-> v.nil, size |-> Size(v), bits |-> Str(v), empty |-> IsEmptyV(v), full |-> IsFullV(v),
         tidx |-> TrueIdx(v), bytes |-> BytesV(v)]
CP(v) == [nil |-> v.nil, size |-> Size(v), bits |-> Str(v),
          ntb |-> [j \in 1..(Size(v) + 2) |-> NumTrueBefore(v, j - 1)]]   \* NumTrueBitsBefore(0..size+1)

NoPat == [k |-> "", a |-> 0]
\* hist keeps the raw value of the destination register (field st); the projection P / CP is computed when a
\* behaviour is emitted (Expand), not for every successor TLC generates
Rec(act, d, x, y, sz, p, i, b, reply, v) ==
  [act |-> act, d |-> d, a |-> x, b |-> y, sz |-> sz, pat |-> p, i |-> i, v |-> b, reply |-> reply, st |-> v]
IsCompact(r) == r.act \in {"CNew", "CEmpty", "CSet", "CCopy"}
Expand(h) == [j \in 1..Len(h) |-> [h[j] EXCEPT !.st = IF IsCompact(h[j]) THEN CP(@) ELSE P(@)]]

Init == /\ val = [r \in Regs |-> Nil] /\ cval = [r \in CRegs |-> Nil] /\ hist = <<>> /\ fin = FALSE

Free == Mode = "free"
\* pairs mode: step 1 writes register "a", step 2 register "b", step 3 is one operation with receiver "a"
\* into "c" (argument "b" or "a" itself); all ordered pairs of values are enumerated by steps 1 and 2
Slot(d) == Free \/ (Len(hist) = 0 /\ d = "a") \/ (Len(hist) = 1 /\ d = "b")
OpSlot(d, x) == Free \/ (Len(hist) = 2 /\ d = "c" /\ x = "a")

Put(d, v, rec) == /\ val' = [val EXCEPT ![d] = v] /\ UNCHANGED <<cval, fin>> /\ hist' = Append(hist, rec)
CPut(d, v, rec) == /\ cval' = [cval EXCEPT ![d] = v] /\ UNCHANGED <<val, fin>> /\ hist' = Append(hist, rec)

New(d, sz, p) == /\ Len(hist) < MaxLen /\ Len(hist) < NewUntil /\ Slot(d)
                 /\ Put(d, NewV(sz, p), Rec("New", d, "", "", sz, p, 0, FALSE, TRUE, NewV(sz, p)))
Empty(d) == /\ Len(hist) < MaxLen /\ Len(hist) < NewUntil /\ Slot(d)
            /\ Put(d, Arr(<<>>), Rec("Empty", d, "", "", 0, NoPat, 0, FALSE, TRUE, Arr(<<>>)))
IdxFor(v) == {i \in {0, 1, Size(v) - 1, Size(v), Size(v) + 1} \cup BoundaryPos : i >= 0 /\ i <= Size(v) + 1}
Set(d, i, b) == /\ Len(hist) < MaxLen /\ Free
                /\ LET v == SetV(val[d], i, b)
                   IN Put(d, v, Rec("Set", d, "", "", 0, NoPat, i, b, CanSet(val[d], i), v))
Copy(d, x) == /\ Len(hist) < MaxLen /\ OpSlot(d, x)
              /\ Put(d, val[x], Rec("Copy", d, x, "", 0, NoPat, 0, FALSE, TRUE, val[x]))
Not(d, x) == /\ Len(hist) < MaxLen /\ OpSlot(d, x)
             /\ Put(d, NotV(val[x]), Rec("Not", d, x, "", 0, NoPat, 0, FALSE, TRUE, NotV(val[x])))
Bin(name, d, x, y, v) == /\ Len(hist) < MaxLen /\ OpSlot(d, x)
                         /\ Put(d, v, Rec(name, d, x, y, 0, NoPat, 0, FALSE, TRUE, v))
Or(d, x, y) == Bin("Or", d, x, y, OrV(val[x], val[y]))
And(d, x, y) == Bin("And", d, x, y, AndV(val[x], val[y]))
Sub(d, x, y) == Bin("Sub", d, x, y, SubV(val[x], val[y]))
\* x.Update(y): the destination is the receiver itself
Update(x, y) == /\ Len(hist) < MaxLen /\ (Free \/ (Len(hist) = 2 /\ x = "a"))
                /\ (val[x].nil \/ val[y].nil \/ Size(val[x]) = Size(val[y]))
                /\ Put(x, UpdateV(val[x], val[y]), Rec("Update", x, x, y, 0, NoPat, 0, FALSE, TRUE, UpdateV(val[x], val[y])))

CNew(d, sz, p) == /\ Len(hist) < MaxLen /\ Len(hist) < NewUntil /\ Free
                  /\ CPut(d, NewV(sz, p), Rec("CNew", d, "", "", sz, p, 0, FALSE, TRUE, NewV(sz, p)))
CEmpty(d) == /\ Len(hist) < MaxLen /\ Len(hist) < NewUntil /\ Free
             /\ CPut(d, Arr(<<>>), Rec("CEmpty", d, "", "", 0, NoPat, 0, FALSE, TRUE, Arr(<<>>)))
CSet(d, i, b) == /\ Len(hist) < MaxLen /\ Free
                 /\ LET v == SetV(cval[d], i, b)
                    IN CPut(d, v, Rec("CSet", d, "", "", 0, NoPat, i, b, CanSet(cval[d], i), v))
CCopy(d, x) == /\ Len(hist) < MaxLen /\ Free
               /\ CPut(d, cval[x], Rec("CCopy", d, x, "", 0, NoPat, 0, FALSE, TRUE, cval[x]))

Next ==
  \/ \E d \in Regs, sz \in Sizes : \E p \in PatsFor(sz) : New(d, sz, p)
  \/ \E d \in Regs : Empty(d)
  \/ \E d \in Regs : \E i \in IdxFor(val[d]), b \in BOOLEAN : Set(d, i, b)
  \/ \E d \in Regs, x \in Regs : Copy(d, x) \/ Not(d, x)
  \/ \E d \in Regs, x \in Regs, y \in Regs : Or(d, x, y) \/ And(d, x, y) \/ Sub(d, x, y)
  \/ \E x \in Regs, y \in Regs : Update(x, y)
  \/ \E d \in CRegs, sz \in Sizes : \E p \in PatsFor(sz) : CNew(d, sz, p)
  \/ \E d \in CRegs : CEmpty(d)
  \/ \E d \in CRegs : \E i \in IdxFor(cval[d]), b \in BOOLEAN : CSet(d, i, b)
  \/ \E d \in CRegs, x \in CRegs : CCopy(d, x)

\* simulation: TLC evaluates invariants on every generated successor, so emission is tied to a last step
\* that has exactly one successor
Finish == Len(hist) >= MaxLen /\ ~fin /\ fin' = TRUE /\ UNCHANGED <<vars, hist>>
NextSim == Next \/ Finish
Spec == Init /\ [][Next]_<<vars, hist, fin>>

\* ------------------------------------------------------------------ invariants of the model
TypeOK == /\ \A r \in Regs : val[r].nil \in BOOLEAN /\ (val[r].nil => val[r].bits = <<>>)
          /\ \A r \in CRegs : cval[r].nil \in BOOLEAN /\ (cval[r].nil => cval[r].bits = <<>>)
\* the operations are the boolean-vector ones: algebraic laws over every pair of register values
FromBytes(bs, sz) == [i \in 1..sz |-> (bs[((i - 1) \div 8) + 1] \div Pow2((i - 1) % 8)) % 2 = 1]
LawsHold ==
  ~Laws \/ \A r \in Regs, s \in Regs :
    LET x == val[r] y == val[s] IN
    /\ NotV(NotV(x)) = x
    /\ (IsFullV(x) <=> IsEmptyV(NotV(x)))
    /\ (IsEmptyV(x) <=> TrueIdx(x) = <<>>) /\ (IsFullV(x) <=> Len(TrueIdx(x)) = Size(x))
    /\ OrV(x, x) = x /\ (~x.nil => AndV(x, x) = x /\ IsEmptyV(SubV(x, x)) /\ Size(SubV(x, x)) = Size(x))
    /\ OrV(x, y) = OrV(y, x) /\ AndV(x, y) = AndV(y, x)
    /\ (~x.nil /\ ~y.nil => /\ Size(OrV(x, y)) = MaxI(Size(x), Size(y))
                            /\ Size(AndV(x, y)) = MinI(Size(x), Size(y))
                            /\ Size(SubV(x, y)) = Size(x)
                            /\ TrueSet(OrV(x, y)) = TrueSet(x) \cup TrueSet(y)
                            /\ TrueSet(AndV(x, y)) = TrueSet(x) \cap TrueSet(y)
                            /\ TrueSet(SubV(x, y)) = TrueSet(x) \ TrueSet(y))
    /\ (~x.nil /\ ~y.nil /\ Size(x) = Size(y) => /\ NotV(OrV(x, y)) = AndV(NotV(x), NotV(y))
                                                /\ SubV(x, y) = AndV(x, NotV(y)))
    /\ (~x.nil => FromBytes(BytesV(x), Size(x)) = x.bits)
    /\ NumTrueBefore(x, Size(x)) = Len(TrueIdx(x))

Emit == PrintT(<<"TRACE", ToJson(Expand(hist))>>)
EmitAtEnd == ~fin \/ Emit
EmitEdge == PrintT(<<"EDGE", ToJson(Expand(hist'))>>)
=============================================================================
