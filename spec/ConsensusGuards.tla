---------------------------- MODULE ConsensusGuards ----------------------------
(* The safety-relevant guards of tm2/pkg/bft/consensus/state.go as predicates over "the
   messages a node has seen". Shared by Consensus.tla (which proves them sufficient for
   Agreement on the bounded model) and ConsensusTrace.tla (which holds the real nodes to
   them). No variables, no constants.                                                  *)
EXTENDS Integers, FiniteSets
Nil == "nil"

RECURSIVE WeightP(_, _)
WeightP(pw, S) == IF S = {} THEN 0 ELSE LET x == CHOOSE y \in S : TRUE IN pw[x] + WeightP(pw, S \ {x})

\* ---------------------------------------------------------------- guards over seen messages
\* (pw = voting power function; S = set of vote records with fields src, round, value)
Voters(S, r, v) == {m.src : m \in {x \in S : x.round = r /\ x.value = v}}
AnyVoters(S, r) == {m.src : m \in {x \in S : x.round = r}}
HasQuorumP(pw, S, r, v) == 3 * WeightP(pw, Voters(S, r, v)) > 2 * WeightP(pw, DOMAIN pw)
HasQuorumAnyP(pw, S, r) == 3 * WeightP(pw, AnyVoters(S, r)) > 2 * WeightP(pw, DOMAIN pw)

\* defaultDoPrevote: locked => the locked block; else nil, or the block in hand for this round: the round's
\* proposal, or a block whose parts were fetched because this round already has a polka for it
PrevoteOKP(pw, lockedV, props, pvs, r, v) ==
  IF lockedV # Nil THEN v = lockedV
  ELSE \/ v = Nil
       \/ \E m \in props : m.round = r /\ m.value = v
       \/ HasQuorumP(pw, pvs, r, v)
LockOKP(pw, pvs, r, v) == v # Nil /\ HasQuorumP(pw, pvs, r, v)
UnlockOKP(pw, pvs, lockedR, lockedV, curRound) ==
  \E m \in pvs : /\ lockedR < m.round /\ m.round <= curRound /\ m.value # lockedV
                 /\ HasQuorumP(pw, pvs, m.round, m.value)
DecideOKP(pw, pcs, v) == v # Nil /\ \E m \in pcs : m.value = v /\ HasQuorumP(pw, pcs, m.round, v)

=============================================================================
