SPECIFICATION Spec
CONSTANTS
  Addrs <- A4
  Amts <- Amt012
  Cap = 100
  MaxLen = 12
  MaxTime = 5
  RawOps = TRUE
  IOIns <- InsT4
  IOOuts <- OutsT4
  Genesis <- Gen3
VIEW View
INVARIANTS SupplyEq BalanceWellFormed SupplyWellFormed HolderHasAccount NumsUnique
INVARIANT EmitAtEnd
