CONSTANTS
  MaxH = 2
  MaxMsgs = 2
  MaxFiles = 3
  MaxLen = 5
  MaxCrash = 1
  MaxCorrupt = 1
INIT Init
NEXT Next
VIEW View
INVARIANTS TypeOK ReadIsSubsequence ReadComplete NothingInvented SyncedDurable MarkersUnique
ACTION_CONSTRAINT EmitEdge
