CONSTANTS
  Honest <- H3
  Byz <- B1
  MaxRound = 3
  MaxLen = 130
  Orders <- OrdersAll
  Quiet = FALSE
  ByzReuse = TRUE
  ByzVoteKinds <- KBoth
INIT InitSim
NEXT NextSim
INVARIANTS Agreement NoHonestEquivocation PrecommitHasPolka DecisionHasCommit BlockInHandMatchesParts
INVARIANT EmitAtEnd
