CONSTANTS
  MaxLen = 4
  MaxArr = 3
  MaxCap = 2
  Full = FALSE
  Directed = FALSE
  Quiet = TRUE
INIT Init
NEXT Next
VIEW view
INVARIANTS WellFormed
CHECK_DEADLOCK FALSE
