SPECIFICATION Spec
CONSTANTS
  Sess <- S2
  Menu <- MenuT
  Creates <- CreatesQ
  Fees <- F12
  Pre <- PreA
  MaxTime = 5
  MaxLen = 3
VIEW View
INVARIANTS TypeOK WithinLimit UsedCovers
PROPERTIES DeadAuthorizesNothing RejectIsFree StepWithinBudget Independent
ACTION_CONSTRAINT EmitEdge
