SPECIFICATION Spec
CONSTANTS
  Sess <- S2
  Menu <- MenuT
  MixMenu <- MixQ
  Creates <- CreatesQ
  Fees <- F12
  Pre <- PreA
  MaxTime = 5
  MaxLen = 3
VIEW View
INVARIANTS TypeOK WithinLimit UsedCovers
PROPERTIES DeadAuthorizesNothing RejectIsFree StepWithinBudget Independent RestrictionsEverywhere
ACTION_CONSTRAINT EmitEdge
