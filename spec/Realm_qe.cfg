CONSTANTS
  Nodes = {1, 2, 3}
  RootObjs <- R1
  RootPkg <- Pkg1
  RootSlots <- Slots1
  Realms = {1}
  MaxOps = 3
  MaxOps1 = 3
  MaxTx = 2
  OwnerFix = TRUE
  AttachGuard = TRUE
  SaveGuard = TRUE
  ObjSeq <- Seq3a
  HandMode = FALSE
  Bias = FALSE
  Quiet = FALSE
INIT Init
NEXT Next
VIEW view
ACTION_CONSTRAINT EmitEdge
INVARIANTS RefinesDecl RefCountExact OwnerIffSingle NoDangling IdCounter ReachableUnlessCyclic NoPanic
CHECK_DEADLOCK FALSE
