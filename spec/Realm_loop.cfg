CONSTANTS
  Nodes = {1, 2}
  RootObjs <- R1
  RootPkg <- Pkg1
  RootSlots <- Slots1
  Realms = {1}
  MaxOps = 4
  MaxOps1 = 2
  MaxTx = 2
  OwnerFix = TRUE
  AttachGuard = TRUE
  SaveGuard = TRUE
  ObjSeq <- Seq2a
  HandMode = FALSE
  Bias = TRUE
  Quiet = FALSE
INIT Init
NEXT Next
VIEW view
ACTION_CONSTRAINT EmitLoopEdge
INVARIANTS RefinesDecl RefCountExact OwnerIffSingle NoDangling IdCounter ReachableUnlessCyclic NoPanic
CHECK_DEADLOCK FALSE
