CONSTANTS
  Sits <- AllSits
  PairsFor <- PairsQ
  ExtraSets <- Extras
INIT Init
NEXT Next
VIEW View
INVARIANTS TypeOK Sound Complete EmitAtEnd
