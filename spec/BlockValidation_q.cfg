CONSTANTS
  Sits <- AllSits
  PairsFor <- PairsQ
  PairFields <- FieldsQ
  ExtraSets <- Extras
INIT Init
NEXT Next
VIEW View
INVARIANTS TypeOK Sound Complete QuorumExact EmitAtEnd
