CONSTANTS
  NK = 4
  NV = 2
  MaxLen = 6
  Reads <- ReadsAll
  Lims <- Lims02
  Grow = 0
  Quiet = FALSE
INIT Init
NEXT Next
VIEW View
INVARIANTS TypeOK Refines Balanced WellFormed
ACTION_CONSTRAINT EmitEdge
