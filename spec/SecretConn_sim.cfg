CONSTANTS
  WriteSizes <- WAll
  ReadSizes <- RAll
  BufSizes <- BAll
  MaxWrites = 2
  MaxReads = 4
  MaxLen = 16
  AdvBudget = 3
  AdvAfter = 5
  AdvActs <- ActsFrame
  EphChoices <- None
  DataMax = 1024
  Writers <- Both
  Readers <- Both
INIT Init
NEXT Next
VIEW View
INVARIANTS TypeOK AuthenticatedPeer NoGhostSession StreamIntegrity TamperFails
INVARIANT EmitAtEnd
