---------------------------- MODULE SecretConn ----------------------------
(* C42. Mirrors tm2/pkg/p2p/conn/secret_connection.go: MakeSecretConnection (shareEphPubKey,
   key/challenge derivation from the DH secret, shareAuthSignature through the sealed channel,
   challenge verification), Write (one sealed frame per <= DataMax bytes, nonce++ per frame) and
   Read (recvBuffer first, else one frame: open with (recvKey, recvNonce), nonce++ only on success).

   Symbolic cryptography.  Ephemeral keys are the atoms 1 (a), 2 (b), 3/4 (the adversary's key
   presented to a / b), 5 (a key whose private part nobody has), 0 (a low-order point).  The DH
   secret of x and y is the unordered pair {x,y}; the HKDF output is <<lo, hi, half>> (two AEAD
   keys) and <<lo, hi>> (the challenge); as in the code, the endpoint whose ephemeral key sorts
   first (ties included: `locIsLeast` is true for equal keys) receives with half 1 and sends with
   half 2.  A sealed frame is a record carrying its key and nonce; it opens only with the same key
   and nonce.  A signature is (signer, challenge) and verifies only for the signer's public key
   and that challenge.  The adversary knows a key iff one of the pair is 3 or 4.

   The adversary owns the wire.  Everything an endpoint writes is held in out[e]; the adversary
   delivers / drops / duplicates / swaps / modifies / truncates / reflects frames, substitutes ephemeral
   keys (its own, the victim's own = reflection, an unknown one, a low-order point) and, on a leg
   whose key it knows, injects auth messages (its own key; the peer's auth message forwarded =
   full man-in-the-middle relay; the peer's key with its own signature).

   Endpoint reactions that the real code performs inside MakeSecretConnection (blocked in a read)
   are folded into the adversary step that feeds them (Arrive / EphArrive), so that after every
   step the projected state (handshake outcome, RemotePubKey, frames written) can be compared.

   Reader model: Read(e, k, bs) is the driver's loop "call sc.Read with a buffer of at most bs
   bytes until k bytes were returned, an error occurred, or the transport has nothing more"; the
   spec fixes the number of bytes obtained, their position in the peer's stream and the way the
   loop ends (ok / blocked / eof / err) - not how many bytes an individual Read returns.

   Named deviations (DESIGN 4.3):
   * A rejected frame is consumed and leaves the nonce unchanged (code lines 223-227); reading on
     after the error is modelled as the code does it: a replayed frame costs one error and the
     stream continues, after a dropped / modified frame every later frame fails.  The property
     (nothing altered is ever delivered; what is delivered is a prefix of what was written) is
     stated on accepted bytes only.
   * A handshake with the adversary's OWN long-term key succeeds with RemotePubKey = that key:
     the code documents that callers must compare RemotePubKey with the expected identity.
     AuthenticatedPeer says: the authenticated key belongs to whoever shares the session key.
   * Truncation at a frame boundary is indistinguishable from a close (EOF): what was read is
     still a prefix.                                                                        *)
EXTENDS Integers, Sequences, FiniteSets, TLC, Json

CONSTANTS WriteSizes,   \* sizes of application writes
          ReadSizes,    \* k: bytes the reader asks for
          BufSizes,     \* bs: size of the buffer handed to each sc.Read
          MaxWrites,    \* writes per endpoint
          MaxReads,     \* reads per endpoint
          MaxLen,       \* bound on the history
          AdvBudget,    \* number of non-Deliver adversary steps
          AdvActs,      \* adversary step kinds enabled
          AdvAfter,     \* the adversary stays passive for the first AdvAfter steps (steers simulation past the handshake)
          EphChoices,   \* substituted ephemeral keys: subset of {"adv","reflect","unknown","low"}
          DataMax,      \* payload bytes per frame (1024 in the code)
          Writers,      \* endpoints whose application writes / reads in this configuration
          Readers

E == {"a", "b"}
Peer(e) == IF e = "a" THEN "b" ELSE "a"
Eph(e) == IF e = "a" THEN 1 ELSE 2
LT(e) == IF e = "a" THEN "A" ELSE "B"
AdvEph(e) == IF e = "a" THEN 3 ELSE 4
Owner(x) == IF x = 1 THEN "A" ELSE IF x = 2 THEN "B" ELSE IF x \in {3, 4} THEN "M" ELSE "nobody"
EphAtom(e, c) == IF c = "adv" THEN AdvEph(e) ELSE IF c = "reflect" THEN Eph(e) ELSE IF c = "unknown" THEN 5 ELSE 0

Min(x, y) == IF x <= y THEN x ELSE y
Max(x, y) == IF x <= y THEN y ELSE x

VARIABLES ph,     \* [E -> {"eph","auth","open","failed"}]  where MakeSecretConnection stands / how it ended
          rem,    \* [E -> 0..5]  ephemeral key received (0 before)
          rpk,    \* [E -> {"none","A","B","M"}]  RemotePubKey()
          sn, rn, \* send / receive nonce
          wr,     \* bytes written by the application of e
          acc,    \* bytes of the peer's stream accepted by e (opened frames)
          rd,     \* bytes handed to the reader of e
          out,    \* [E -> Seq(frame)] frames written by e, held by the adversary
          inb,    \* [E -> Seq(frame)] frames delivered to e's socket, not yet read
          cut,    \* [E -> BOOLEAN] the stream towards e was closed by the adversary
          used,   \* adversary steps taken
          nw, nr, \* writes / reads done per endpoint
          bad,    \* ghost: a frame was accepted out of position / from the wrong writer
          hist

vars == <<ph, rem, rpk, sn, rn, wr, acc, rd, out, inb, cut, used, nw, nr, bad>>

\* --- key schedule (deriveSecretAndChallenge) -------------------------------------------------
SendKeyOf(me, r) == <<Min(me, r), Max(me, r), IF me <= r THEN 2 ELSE 1>>
RecvKeyOf(me, r) == <<Min(me, r), Max(me, r), IF me <= r THEN 1 ELSE 2>>
ChalOf(me, r) == <<Min(me, r), Max(me, r)>>
SendKey(e) == SendKeyOf(Eph(e), rem[e])
RecvKey(e) == RecvKeyOf(Eph(e), rem[e])
Chal(e) == ChalOf(Eph(e), rem[e])
Knows(k) == k[1] \in {3, 4} \/ k[2] \in {3, 4}

NoKey == <<0, 0, 0>>
Frame(k, n, t, pub, sg, ch, off, len) ==
  [k |-> k, n |-> n, t |-> t, pub |-> pub, sg |-> sg, ch |-> ch, off |-> off, len |-> len, part |-> FALSE]
Junk == Frame(NoKey, 0, "junk", "", "", <<0, 0>>, 0, 0)
PartialJunk == [Junk EXCEPT !.part = TRUE]
AuthMsg(k, pub, sg, ch) == Frame(k, 0, "auth", pub, sg, ch, 0, 0)

Init ==
  /\ ph = [e \in E |-> "eph"]       \* both endpoints have written their ephemeral key
  /\ rem = [e \in E |-> 0]
  /\ rpk = [e \in E |-> "none"]
  /\ sn = [e \in E |-> 0] /\ rn = [e \in E |-> 0]
  /\ wr = [e \in E |-> 0] /\ acc = [e \in E |-> 0] /\ rd = [e \in E |-> 0]
  /\ out = [e \in E |-> <<>>] /\ inb = [e \in E |-> <<>>]
  /\ cut = [e \in E |-> FALSE]
  /\ used = 0
  /\ nw = [e \in E |-> 0] /\ nr = [e \in E |-> 0]
  /\ bad = FALSE
  /\ hist = <<>>

\* what the driver can read from the real objects after a step
Proj(p, k, o) == [ph |-> p, rpk |-> k, nout |-> [e \in E |-> Len(o[e])]]
Log(rec) == hist' = Append(hist, rec)
Spend(act) == /\ act \in AdvActs /\ used < AdvBudget /\ Len(hist) >= AdvAfter /\ used' = used + 1

\* --- endpoint reactions ----------------------------------------------------------------------
\* e, blocked in shareEphPubKey, receives ephemeral key x: low-order points are refused, otherwise
\* it derives the keys and writes its auth message (first sealed frame, nonce 0)
EphArrive(e, x) ==
  IF x = 0
  THEN /\ ph' = [ph EXCEPT ![e] = "failed"]
       /\ UNCHANGED <<rem, out, sn>>
  ELSE /\ ph' = [ph EXCEPT ![e] = "auth"]
       /\ rem' = [rem EXCEPT ![e] = x]
       /\ out' = [out EXCEPT ![e] = <<AuthMsg(SendKeyOf(Eph(e), x), LT(e), LT(e), ChalOf(Eph(e), x))>>]
       /\ sn' = [sn EXCEPT ![e] = 1]

\* frame f reaches dst.  Inside shareAuthSignature the endpoint consumes it at once: it must open
\* and carry a key + signature of THIS session's challenge.  An open endpoint just buffers it.
Arrive(dst, f) ==
  IF ph[dst] = "auth"
  THEN LET opens == ~f.part /\ f.k = RecvKey(dst) /\ f.n = rn[dst]
           good == opens /\ f.t = "auth" /\ f.sg = f.pub /\ f.ch = Chal(dst)
       IN /\ ph' = [ph EXCEPT ![dst] = IF good THEN "open" ELSE "failed"]
          /\ rpk' = [rpk EXCEPT ![dst] = IF good THEN f.pub ELSE @]
          /\ rn' = [rn EXCEPT ![dst] = IF opens THEN @ + 1 ELSE @]
          /\ UNCHANGED inb
  ELSE /\ inb' = [inb EXCEPT ![dst] = IF ph[dst] = "open" THEN Append(@, f) ELSE @]
       /\ UNCHANGED <<ph, rpk, rn>>

\* --- adversary: ephemeral keys ---------------------------------------------------------------
EphDeliver(e) ==
  /\ Len(hist) < MaxLen /\ ph[e] = "eph" /\ ~cut[e]
  /\ EphArrive(e, Eph(Peer(e)))
  /\ UNCHANGED <<rpk, rn, wr, acc, rd, inb, cut, used, nw, nr, bad>>
  /\ Log([act |-> "EphDeliver", e |-> e, st |-> Proj(ph', rpk, out')])

EphSubst(e, c) ==
  /\ Len(hist) < MaxLen /\ ph[e] = "eph" /\ ~cut[e] /\ c \in EphChoices
  /\ Spend("EphSubst")
  /\ EphArrive(e, EphAtom(e, c))
  /\ UNCHANGED <<rpk, rn, wr, acc, rd, inb, cut, nw, nr, bad>>
  /\ Log([act |-> "EphSubst", e |-> e, c |-> c, st |-> Proj(ph', rpk, out')])

\* --- adversary: sealed frames ----------------------------------------------------------------
CanFeed(src) == LET dst == Peer(src) IN
  out[src] # <<>> /\ ph[dst] \in {"auth", "open"} /\ ~cut[dst]

Deliver(src) ==
  /\ Len(hist) < MaxLen /\ CanFeed(src)
  /\ Arrive(Peer(src), Head(out[src]))
  /\ out' = [out EXCEPT ![src] = Tail(@)]
  /\ UNCHANGED <<rem, sn, wr, acc, rd, cut, used, nw, nr, bad>>
  /\ Log([act |-> "Deliver", src |-> src, st |-> Proj(ph', rpk', out')])

Drop(src) ==
  /\ Len(hist) < MaxLen /\ CanFeed(src) /\ Spend("Drop")
  /\ out' = [out EXCEPT ![src] = Tail(@)]
  /\ UNCHANGED <<ph, rem, rpk, sn, rn, wr, acc, rd, inb, cut, nw, nr, bad>>
  /\ Log([act |-> "Drop", src |-> src, st |-> Proj(ph, rpk, out')])

\* replay: a copy goes to the receiver now, the original stays first in line
Dup(src) ==
  /\ Len(hist) < MaxLen /\ CanFeed(src) /\ Spend("Dup")
  /\ Arrive(Peer(src), Head(out[src]))
  /\ UNCHANGED <<rem, sn, wr, acc, rd, out, cut, nw, nr, bad>>
  /\ Log([act |-> "Dup", src |-> src, st |-> Proj(ph', rpk', out)])

Swap(src) ==
  /\ Len(hist) < MaxLen /\ CanFeed(src) /\ Len(out[src]) >= 2 /\ Spend("Swap")
  /\ out' = [out EXCEPT ![src] = <<@[2], @[1]>> \o SubSeq(@, 3, Len(@))]
  /\ UNCHANGED <<ph, rem, rpk, sn, rn, wr, acc, rd, inb, cut, nw, nr, bad>>
  /\ Log([act |-> "Swap", src |-> src, st |-> Proj(ph, rpk, out')])

\* reflection: a copy of e's own frame is sent back to e
Reflect(e) ==
  /\ Len(hist) < MaxLen /\ out[e] # <<>> /\ ph[e] \in {"auth", "open"} /\ ~cut[e] /\ Spend("Reflect")
  /\ Arrive(e, Head(out[e]))
  /\ UNCHANGED <<rem, sn, wr, acc, rd, out, cut, nw, nr, bad>>
  /\ Log([act |-> "Reflect", e |-> e, st |-> Proj(ph', rpk', out)])

\* any change of any byte of the sealed frame: it no longer opens under any key
Modify(src) ==
  /\ Len(hist) < MaxLen /\ CanFeed(src) /\ Spend("Modify")
  /\ Arrive(Peer(src), Junk)
  /\ out' = [out EXCEPT ![src] = Tail(@)]
  /\ UNCHANGED <<rem, sn, wr, acc, rd, cut, nw, nr, bad>>
  /\ Log([act |-> "Modify", src |-> src, st |-> Proj(ph', rpk', out')])

\* the stream towards dst ends: at a message boundary (mid = FALSE) or after part of a message
Trunc(dst, mid) ==
  /\ Len(hist) < MaxLen /\ ~cut[dst] /\ ph[dst] # "failed" /\ Spend("Trunc")
  /\ cut' = [cut EXCEPT ![dst] = TRUE]
  /\ IF ph[dst] = "open"
     THEN /\ inb' = [inb EXCEPT ![dst] = IF mid THEN Append(@, PartialJunk) ELSE @]
          /\ UNCHANGED ph
     ELSE /\ ph' = [ph EXCEPT ![dst] = "failed"]
          /\ UNCHANGED inb
  /\ out' = [out EXCEPT ![Peer(dst)] = <<>>]
  /\ UNCHANGED <<rem, rpk, sn, rn, wr, acc, rd, nw, nr, bad>>
  /\ Log([act |-> "Trunc", dst |-> dst, mid |-> mid, st |-> Proj(ph', rpk, out')])

\* the adversary shares dst's session key and seals an auth message of its own making:
\*   "own"  its long-term key M and M's signature of dst's challenge
\*   "fwd"  the peer's auth message, opened on the other leg and re-sealed (man-in-the-middle relay)
\*   "mix"  the peer's public key with M's signature of dst's challenge
AdvAuth(dst, m) ==
  LET p == Peer(dst) IN
  /\ Len(hist) < MaxLen /\ ph[dst] = "auth" /\ ~cut[dst] /\ Knows(RecvKey(dst))
  /\ Spend("AdvAuth")
  /\ m \in {"own", "fwd", "mix"}
  /\ m = "fwd" => (ph[p] # "eph" /\ rem[p] # 0 /\ Knows(SendKey(p)) /\ out[p] # <<>> /\ Head(out[p]).t = "auth")
  /\ Arrive(dst, CASE m = "own" -> AuthMsg(RecvKey(dst), "M", "M", Chal(dst))
                   [] m = "fwd" -> AuthMsg(RecvKey(dst), LT(p), LT(p), Chal(p))
                   [] m = "mix" -> AuthMsg(RecvKey(dst), LT(p), "M", Chal(dst)))
  /\ UNCHANGED <<rem, sn, wr, acc, rd, out, cut, nw, nr, bad>>
  /\ Log([act |-> "AdvAuth", dst |-> dst, m |-> m, st |-> Proj(ph', rpk', out)])

\* --- application ------------------------------------------------------------------------------
NFrames(n) == (n + DataMax - 1) \div DataMax
Write(e, n) ==
  /\ Len(hist) < MaxLen /\ e \in Writers /\ ph[e] = "open" /\ nw[e] < MaxWrites /\ n \in WriteSizes
  /\ LET c == NFrames(n)
         fs == [i \in 1..c |-> Frame(SendKey(e), sn[e] + i - 1, "data", "", "", <<0, 0>>,
                                      wr[e] + (i - 1) * DataMax, Min(DataMax, n - (i - 1) * DataMax))]
     IN /\ out' = [out EXCEPT ![e] = @ \o fs]
        /\ sn' = [sn EXCEPT ![e] = @ + c]
  /\ wr' = [wr EXCEPT ![e] = @ + n]
  /\ nw' = [nw EXCEPT ![e] = @ + 1]
  /\ UNCHANGED <<ph, rem, rpk, rn, acc, rd, inb, cut, used, nr, bad>>
  /\ Log([act |-> "Write", e |-> e, n |-> n, off |-> wr[e], st |-> Proj(ph, rpk, out')])

RECURSIVE RdLoop(_, _, _, _, _, _, _, _)
RdLoop(e, q, n, ac, r, got, k, b) ==
  IF got = k THEN [q |-> q, rn |-> n, acc |-> ac, rd |-> r, got |-> got, res |-> "ok", bad |-> b]
  ELSE IF ac > r THEN LET m == Min(k - got, ac - r) IN RdLoop(e, q, n, ac, r + m, got + m, k, b)
  ELSE IF q = <<>> THEN [q |-> q, rn |-> n, acc |-> ac, rd |-> r, got |-> got,
                          res |-> IF cut[e] THEN "eof" ELSE "blocked", bad |-> b]
  ELSE LET f == Head(q) IN
       IF f.part THEN [q |-> Tail(q), rn |-> n, acc |-> ac, rd |-> r, got |-> got, res |-> "eof", bad |-> b]
       ELSE IF f.k = RecvKey(e) /\ f.n = n /\ f.t = "data"
            THEN RdLoop(e, Tail(q), n + 1, ac + f.len, r, got, k, b \/ f.off # ac)
            ELSE [q |-> Tail(q), rn |-> n, acc |-> ac, rd |-> r, got |-> got, res |-> "err", bad |-> b]

Read(e, k, bs) ==
  /\ Len(hist) < MaxLen /\ e \in Readers /\ ph[e] = "open" /\ nr[e] < MaxReads /\ k \in ReadSizes /\ bs \in BufSizes
  /\ LET x == RdLoop(e, inb[e], rn[e], acc[e], rd[e], 0, k, bad) IN
     /\ inb' = [inb EXCEPT ![e] = x.q]
     /\ rn' = [rn EXCEPT ![e] = x.rn]
     /\ acc' = [acc EXCEPT ![e] = x.acc]
     /\ rd' = [rd EXCEPT ![e] = x.rd]
     /\ bad' = x.bad
     /\ Log([act |-> "Read", e |-> e, k |-> k, bs |-> bs, off |-> rd[e], got |-> x.got, res |-> x.res,
             st |-> Proj(ph, rpk, out)])
  /\ nr' = [nr EXCEPT ![e] = @ + 1]
  /\ UNCHANGED <<ph, rem, rpk, sn, wr, out, cut, used, nw>>

Next == \/ \E e \in E : EphDeliver(e)
        \/ \E e \in E, c \in EphChoices : EphSubst(e, c)
        \/ \E s \in E : Deliver(s) \/ Drop(s) \/ Dup(s) \/ Swap(s) \/ Modify(s) \/ Reflect(s)
        \/ \E d \in E, mid \in BOOLEAN : Trunc(d, mid)
        \/ \E d \in E, m \in {"own", "fwd", "mix"} : AdvAuth(d, m)
        \/ \E e \in E, n \in WriteSizes : Write(e, n)
        \/ \E e \in E, k \in ReadSizes, bs \in BufSizes : Read(e, k, bs)

Spec == Init /\ [][Next]_<<vars, hist>>
View == vars

\* ---------------------------------------------------------------- properties (C42)
\* an endpoint that completed the handshake authenticated the key of whoever shares its session key
\* (never its own key), and with an untouched key exchange that is the peer's long-term key
AuthenticatedPeer == \A e \in E : ph[e] = "open" =>
                        /\ rpk[e] = Owner(rem[e])
                        /\ rpk[e] # LT(e)
                        /\ (rem[e] = Eph(Peer(e)) => rpk[e] = LT(Peer(e)))
\* no session is ever established on a key nobody or only the endpoint itself knows
NoGhostSession == \A e \in E : ph[e] = "open" => rem[e] \in {Eph(Peer(e)), AdvEph(e)}
\* bytes handed to the reader are a prefix of the bytes the session peer wrote, in order
StreamIntegrity == /\ ~bad
                   /\ \A e \in E : rd[e] <= acc[e]
                   /\ \A e \in E : rem[e] = Eph(Peer(e)) => acc[e] <= wr[Peer(e)]
\* a frame that is not the next frame of the session peer is never accepted: every accepted data
\* frame advanced the nonce by one and carried exactly the next stream position
TamperFails == \A e \in E : ph[e] = "open" =>
                  /\ rn[e] >= 1
                  /\ (rem[e] = Eph(Peer(e)) => rn[e] <= sn[Peer(e)])
TypeOK == /\ \A e \in E : ph[e] \in {"eph", "auth", "open", "failed"}
          /\ \A e \in E : rpk[e] \in {"none", "A", "B", "M"}
          /\ used \in 0..AdvBudget

Emit == PrintT(<<"TRACE", ToJson(hist)>>)
\* simulation: a behaviour is emitted when it is complete (history full, or nothing left to do)
EmitAtEnd == (Len(hist) < MaxLen /\ ENABLED Next) \/ Emit
EmitEdge == PrintT(<<"EDGE", ToJson(hist')>>)
=============================================================================
