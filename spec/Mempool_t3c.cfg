CONSTANTS
  Txs <- T3
  SizeOf <- Size3
  GasOf <- Gas3
  CfgSize = 3
  CfgMaxBytes = 6
  CacheSize = 2
  Recheck = TRUE
  InitMaxTx = 3
  MaxTxChoices <- MaxTx0
  BanChoices <- BanKeep
  MaxCommit = 2
  ReapBytes <- Reap135
  ReapGas <- Reap024
  MaxLen = 8
INIT Init
NEXT Next
VIEW View
INVARIANTS TypeOK NoDuplicates SizeWithinLimits CacheWellFormed
PROPERTIES StepProps
ACTION_CONSTRAINT EmitEdge
