---------------------------- MODULE MCCoins ----------------------------
EXTENDS Coins
OpsEdge == {"Add", "Sub", "Cmp", "Query", "Parse"}
OpsAll == {"Add", "Sub", "Cmp", "Query", "Parse", "Swap"}
AmtsNat == {0, 1, 2}
AmtsBit == {0, 1}
AmtsInt == -2..2
AmtsExt == {-8, -7, -1, 0, 1, 7}      \* scaled by 2^60 in the driver: -8 is MinInt64
AmtsSim == {-1, 0, 3}
MinFree == -1000   \* identity embedding: no overflow reachable
MaxFree == 1000
MinS == -8          \* scaled embedding v -> v * 2^60: exactly the int64 range
MaxS == 7
=============================================================================
