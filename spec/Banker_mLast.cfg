CONSTANTS
  FromCheck = TRUE
  CurrentCheck = TRUE
  OriginDecrement = TRUE
  OriginTotal = FALSE
  DenomCheck = TRUE
  MaxTx = 1
  MaxOps = 3
INIT Init
NEXT Next
INVARIANTS InvDecrease InvDenom InvCapsNeedGrant InvOriginNet
