CONSTANTS
  Keys <- KeysS
  DataKeys <- KeysS
  Vals = {"a", ""}
  Prefixes <- PfxS
  Stores = {"s1", "s2"}
  MaxLayers = 2
  MaxLen = 4
  InitBases <- Bases1
  ReadAll = FALSE
  LogViews = FALSE
  Quiet = FALSE
INIT Init
NEXT Next
VIEW View
INVARIANTS TypeOK OverlayEqualsFlat CheckpointIsSaved LastScanOK
PROPERTIES FlushIsLocal PopDiscards
ACTION_CONSTRAINT EmitEdge
