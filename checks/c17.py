"""C17 — The block gas price follows its adjustment rule. spec/GasPriceFn.tla (the rule and the
statement's clauses as operators), spec/GasPrice.tla (the stored price as a state machine: EndBlock(used),
SetParams), spec/GasPriceApa.tla (Apalache harness over the whole int64 input domain).
(M) Apalache: the rule's value lies in its clause interval (Up / Down / Floor / Stay / range) for EVERY
    valid input (NoError expected); TLC: the same as step properties on a bounded grid of the machine.
(R) every grid edge, seeded multi-block simulations (with parameter changes) and every Apalache model
    (one per boundary class: saturation, target 0, rounding to 0, >64-bit products, clipping at the floor, ...)
    are replayed through the real auth.EndBlocker -> GasPriceKeeper.UpdateGasPrice on a real store.
Verdict keys: C17:NoPanic:<target-zero|price-overflow|other>, C17:Up, C17:Down, C17:Floor, C17:Stay, C17:Free,
C17:NoOverflow:intermediate (value differs exactly where the rule needs more than 64 bits)."""
import json, os, shutil, subprocess, threading, time
from concurrent.futures import ThreadPoolExecutor
import vlib

LEVEL = "model_checking"
_lock = threading.Lock()
NCLASSES = 24
OBLIGATIONS = ("UpOK", "DownOK", "FloorOK", "StayOK", "RangeOK")
MODEL_VARS = ("last", "used", "maxGas", "ratio", "comp", "init", "out", "lo", "hi")


def _big(x):
    if isinstance(x, dict) and "#bigint" in x:
        return int(x["#bigint"])
    return x


def apalache(ctx, module, inv, cinit, init=None, nxt=None, view=None, max_error=None, timeout=900):
    """One `apalache-mc check --length=0` run in its own scratch dir."""
    d = ctx.scratch_dir("apa")
    for f in os.listdir(vlib.SPEC):
        if f.endswith(".tla"):
            shutil.copy(os.path.join(vlib.SPEC, f), d)
    tmp = os.path.join(d, "tmp")
    os.makedirs(tmp)
    args = ["apalache-mc", "check", "--length=0", "--inv=" + inv, "--cinit=" + cinit,
            "--out-dir=" + os.path.join(d, "out"), "--run-dir=" + os.path.join(d, "run")]
    if init:
        args.append("--init=" + init)
    if nxt:
        args.append("--next=" + nxt)
    if view:
        args.append("--view=" + view)
    if max_error:
        args.append("--max-error=%d" % max_error)
    args.append(module + ".tla")
    env = dict(os.environ)
    env["TMPDIR"] = tmp
    env.setdefault("JVM_ARGS", "-Xmx2g -XX:TieredStopAtLevel=1")
    t0 = time.time()
    try:
        p = subprocess.run(args, cwd=d, env=env, capture_output=True, text=True, timeout=timeout)
    except subprocess.TimeoutExpired:
        return {"outcome": "Unknown", "models": [], "wall": time.time() - t0, "tail": "timeout after %ds" % timeout}
    out = p.stdout + p.stderr
    res = {"wall": round(time.time() - t0, 2), "tail": out[-1500:], "models": []}
    if "The outcome is: NoError" in out:
        res["outcome"] = "NoError"
    elif "The outcome is: Error" in out:
        res["outcome"] = "Error"
        rd = os.path.join(d, "run")
        for fn in sorted(os.listdir(rd)):
            if fn.startswith("violation") and fn.endswith(".itf.json") and fn != "violation.itf.json":
                st = json.load(open(os.path.join(rd, fn)))["states"][0]
                res["models"].append({k: _big(v) for k, v in st.items() if k != "#meta"})
    else:
        res["outcome"] = "Unknown"
    shutil.rmtree(d, ignore_errors=True)
    return res


def model_behaviour(m):
    """An Apalache model (one symbolic block) as a behaviour for the driver; integers as decimal strings."""
    prm = {k: str(m[k]) for k in ("maxGas", "ratio", "comp", "init")}
    init = dict(prm, act="Init", price=str(m["last"]), st=str(m["last"]))
    step = dict(prm, act="EndBlock", used=str(m["used"]), last=str(m["last"]), cls=m["cls"], lo=str(m["lo"]),
                hi=str(m["hi"]), tz=bool(m["tz"]), sat=bool(m["sat"]), big=bool(m["big"]), st=str(m["out"]), wcls=m.get("wcls", 0))
    return [init, step]


MISMATCHES = {}     # key -> [count, first what, first case]


def _collect(res):
    """Like vlib.handle_driver_results, but mismatches are grouped per key and reported once per key
    at the end (report_mismatches), so every failing clause gets its own VIOLATION line."""
    keep = []
    for r in res:
        if r.get("kind") == "mismatch":
            m = MISMATCHES.setdefault(r.get("key") or "C17:mismatch", [0, r.get("what", ""), r.get("case")])
            m[0] += 1
        else:
            keep.append(r)
    return keep


def report_mismatches(ctx):
    for key in sorted(MISMATCHES):
        n, what, case = MISMATCHES[key]
        if key == "C17:NoOverflow:intermediate" and ctx.cov.get("drift"):
            # the code's rule differs from the transcription everywhere, not just where 64 bits run out:
            # a changed formula, not an overflow -> guidance only
            ctx.add("drift", n)
            continue
        ctx.violation(key, what, case)
    MISMATCHES.clear()


def replay(ctx, binary, behs, label):
    s = vlib.handle_driver_results(ctx, _collect(vlib.run_driver(ctx, binary, [], behaviours=behs)))
    ctx.add("traces_validated_against_impl", int(s.get("replays", 0)))
    ctx.add("impl_steps", int(s.get("steps", 0)))
    ctx.add("drift", int(s.get("drift", 0)))
    for k, v in s.items():
        if k.startswith("cls:") or k.startswith("mismatch:"):
            ctx.add("replayed_" + k.replace(":", "_"), int(v))
    ctx.log("%s: %d behaviours, %d steps on the real keeper, %d mismatching steps, drift %d" %
            (label, len(behs), s.get("steps", 0), s.get("mismatches", 0), s.get("drift", 0)))
    return s


def run(ctx):
    try:
        _run(ctx)
    finally:
        report_mismatches(ctx)      # mismatches seen on the real keeper count even if a later stage is inconclusive


def _run(ctx):
    binary = vlib.go_build("gasprice", ctx)
    case = ctx.replay_case()
    if case:
        replay(ctx, binary, [case["steps"]], "replay")
        report_mismatches(ctx)
        ctx.cov.update({"states": 1, "transitions": 1, "traces_validated_against_impl": 1})
        ctx.sample(case["steps"])
        return
    quick = ctx.tier == "quick"
    _orig = ctx.scratch_dir

    def _locked(name):          # vlib's scratch_dir counter is not thread-safe; the jobs below run in threads
        with _lock:
            return _orig(name)
    ctx.scratch_dir = _locked
    jvm = ["-Djava.io.tmpdir=" + ctx.scratch]
    jobs = {}
    with ThreadPoolExecutor(max_workers=6 if quick else 8) as ex:
        ecfg = "GasPrice_qe.cfg" if quick else "GasPrice_te.cfg"
        jobs["edges"] = ex.submit(vlib.run_tlc, ctx, "MCGasPrice", ecfg, tags=("EDGE",), timeout=3000, workers=4, jvm=jvm)
        jobs["sim"] = ex.submit(vlib.run_tlc, ctx, "MCGasPrice", "GasPrice_sim.cfg", mode="simulate",
                                simulate=100 if quick else 3000, depth=20, tags=("TRACE",), timeout=3000, jvm=jvm)
        for inv in (("RangeOK",) if quick else OBLIGATIONS):
            jobs[("apa", inv)] = ex.submit(apalache, ctx, "GasPriceApa", inv, "CInit64", init="InitAll")
        for part in ("InitW1", "InitW2"):
            jobs[("wit", part)] = ex.submit(apalache, ctx, "GasPriceApa", "NoWitness", "CInit64", init=part,
                                            view="ViewW", max_error=NCLASSES, timeout=1500)
        done = {k: f.result() for k, f in jobs.items()}

    # ---- (M) TLC grid + (R) one replay per edge
    r = done["edges"]
    vlib.require_model_ok(r, ecfg)
    ctx.add_tlc(r, "exhaustive grid + edges " + ecfg)
    behs = vlib.dedup_prefix(r.traces)
    ctx.cov["edges_emitted"] = len(r.traces)
    if not behs:
        raise vlib.Inconclusive("VACUOUS", "no edges emitted")
    replay(ctx, binary, behs, "grid edges")
    ctx.sample(behs[len(behs) // 3])
    # ---- multi-block simulations with parameter changes
    r = done["sim"]
    vlib.require_model_ok(r, "GasPrice_sim")
    ctx.add_tlc(r, "simulate multi-block depth 16")
    replay(ctx, binary, r.traces, "simulation")
    # ---- Apalache boundary models
    ws = [done[k] for k in done if isinstance(k, tuple) and k[0] == "wit"]
    models = [m for w in ws for m in w["models"]]
    got = {m["wcls"] for m in models}
    if any(w["outcome"] != "Error" for w in ws) or got != set(range(1, NCLASSES + 1)):
        raise vlib.Inconclusive("APALACHE", "witness runs: outcomes %s, classes missing %s\n%s" %
                                ([w["outcome"] for w in ws], sorted(set(range(1, NCLASSES + 1)) - got), ws[0]["tail"]))
    w = {"wall": max(w["wall"] for w in ws)}
    wbehs = [model_behaviour(m) for m in sorted(models, key=lambda m: m["wcls"])]
    replay(ctx, binary, wbehs, "Apalache boundary models")
    ctx.cov["apalache_witnesses_replayed"] = len(wbehs)
    report_mismatches(ctx)
    ctx.cov.setdefault("apalache_runs", []).append({"inv": "NoWitness", "models": len(wbehs), "wall_s": w["wall"]})
    ctx.sample(wbehs[1])
    for c in ("Up", "Down", "Floor", "Stay", "Free"):
        if not ctx.cov.get("replayed_cls_" + c):
            raise vlib.Inconclusive("VACUOUS", "clause %s never replayed on the real keeper" % c)
    # ---- (M) symbolic obligations over the whole int64 domain
    undecided, cex = [], []
    for k, a in done.items():
        if not (isinstance(k, tuple) and k[0] == "apa"):
            continue
        ctx.cov.setdefault("apalache_runs", []).append({"inv": k[1], "outcome": a["outcome"], "wall_s": a["wall"]})
        if a["outcome"] == "Error":
            cex += [(k[1], m) for m in a["models"]]
        elif a["outcome"] != "NoError":
            undecided.append(k[1])
    if cex:
        # a counter-model of the design: replay it; the real keeper decides (rule 1). If the code
        # reproduces it the driver reports the clause; either way the model needs attention.
        replay(ctx, binary, [model_behaviour(m) for _, m in cex], "Apalache counter-models")
        report_mismatches(ctx)
        raise vlib.Inconclusive("MODEL-DIVERGENCE", "Apalache refutes %s: %s" % (cex[0][0], {k: cex[0][1][k] for k in MODEL_VARS}))
    ctx.cov["symbolic_obligations"] = sum(1 for k in done if isinstance(k, tuple) and k[0] == "apa")
    ctx.cov["symbolic_undecided"] = undecided
    if undecided:
        raise vlib.Inconclusive("APALACHE", "obligations not decided: %s" % undecided)
    ctx.log("symbolic: %s NoError for all int64 inputs" % ", ".join(k[1] for k in done if isinstance(k, tuple) and k[0] == "apa"))
    if ctx.cov.get("drift"):
        ctx.notes.append("the real keeper's value differs from the rule transcribed in GasPriceFn.tla on %d steps "
                         "(inside the clause intervals): the symbolic result no longer transfers to the code" % ctx.cov["drift"])
    ctx.cov["exhaustive"] = True
    ctx.assumptions += [
        "domain: last, init, used in 0..2^63-1, Block.MaxGas in 0..2^63-1 (MaxGas = -1, no limit, not modelled), ratio 0..100, compressor >= 1",
        "for target < 1 (MaxGas*ratio < 100) only no-panic and the int64 range are demanded (rule undefined there)",
        "the magnitude of a move is a guidance observable (drift), the clause interval is the verdict",
        "Z3 (through Apalache) decides the non-linear obligations soundly; every model it returns is replayed on the real keeper"]
