"""C37 — Proposer selection is fair and validator-set updates are well-behaved.
spec/ValidatorSet.tla (M: Fairness, PriorityWindow, RejectedUpdateIsNoOp, SortedUnique, ...) +
(R) replay of fairness runs, every edge of the bounded update graph and random update/increment
sequences on the real types.ValidatorSet (full priority vectors compared)."""
import threading
from concurrent.futures import ThreadPoolExecutor
import vlib
LEVEL = "model_checking"


def replay(ctx, binary, behs, label, maxtotal=1000):
    s = vlib.handle_driver_results(ctx, vlib.run_driver(ctx, binary, ["-x", "maxtotal=%d" % maxtotal], behaviours=behs))
    ctx.add("traces_validated_against_impl", int(s.get("replays", 0)))
    for k in ("steps", "updates_accepted", "updates_rejected", "increments", "inexact_steps"):
        ctx.add("impl_" + k, int(s.get(k, 0)))
    ctx.log("%s: %d behaviours / %d steps replayed, %d ok" % (label, len(behs), s.get("steps", 0), s.get("replays_ok", 0)))
    return s


def run(ctx):
    binary = vlib.go_build("valset", ctx)
    case = ctx.replay_case()
    if case:
        s = vlib.handle_driver_results(ctx, vlib.run_driver(ctx, binary, ["-x", "maxtotal=%d" % case.get("maxtotal", 1000)],
                                                            behaviours=[case["steps"]]))
        ctx.cov.update({"states": 1, "transitions": 1, "traces_validated_against_impl": int(s.get("replays", 0))})
        ctx.sample(case["steps"])
        return
    quick = ctx.tier == "quick"
    # (key, cfg, label, run_tlc kwargs, maxtotal, replayed?)
    jobs = [
        # 1. fairness: every power vector over 4 keys, 2*total+1 single increments each
        ("fair", "ValidatorSet_fairq.cfg" if quick else "ValidatorSet_fairt.cfg",
         "fairness, all power vectors over 4 keys, powers <= %d" % (3 if quick else 5), dict(tags=("TRACE",)), 1000, True),
        # 2. updates: every edge of the bounded graph (3 keys, change lists of <= 2 entries + malformed ones)
        ("edges", "ValidatorSet_qe.cfg" if quick else "ValidatorSet_te.cfg", "exhaustive+edges updates", dict(tags=("EDGE",)), 1000, True),
        # 3. total-voting-power bound (model MaxTotal = 100 mapped onto MaxTotalVotingPower)
        ("bound", "ValidatorSet_be.cfg", "exhaustive+edges around MaxTotalVotingPower", dict(tags=("EDGE",)), 100, True),
        # 4. random deeper sequences (4 keys, <= 3 changes per update, times <= 3)
        ("sim", "ValidatorSet_sim.cfg", "simulate 4 keys depth 12",
         dict(mode="simulate", simulate=250 if quick else 6000, depth=14, tags=("TRACE",)), 1000, True),
    ]
    if not quick:
        jobs += [
            ("bsim", "ValidatorSet_bsim.cfg", "simulate around MaxTotalVotingPower",
             dict(mode="simulate", simulate=2000, depth=10, tags=("TRACE",)), 100, True),
            ("t4", "ValidatorSet_t4.cfg", "exhaustive updates len<=4 (3 keys), no emission", dict(), 1000, False),
        ]
    # the TLC runs are independent and small: run them side by side (JVM start dominates)
    lock, orig = threading.Lock(), ctx.scratch_dir

    def locked_scratch(name):
        with lock:
            return orig(name)
    ctx.scratch_dir = locked_scratch

    def one(job):
        key, cfg, label, kw, _, _ = job
        if kw.get("mode") != "simulate":
            kw = dict(kw, workers=max(2, vlib.NCPU // 4))
        try:
            return vlib.run_tlc(ctx, "MCValidatorSet", cfg, timeout=3000, **kw)
        except vlib.Inconclusive as e:
            return e
    with ThreadPoolExecutor(max_workers=4) as ex:
        results = list(ex.map(one, jobs))
    ctx.scratch_dir = orig
    for job, r in zip(jobs, results):
        key, cfg, label, kw, maxtotal, rep = job
        if isinstance(r, Exception):
            raise r
        vlib.require_model_ok(r, cfg)
        ctx.add_tlc(r, label + " " + cfg)
        if not rep:
            continue
        if not r.traces:
            raise vlib.Inconclusive("VACUOUS", "no behaviour emitted by " + cfg)
        behs = vlib.dedup_prefix(r.traces) if "EDGE" in kw.get("tags", ()) else r.traces
        if key == "fair":
            ctx.cov["fairness_sets"] = len(behs)
        if key == "edges":
            ctx.cov["edges_emitted"] = len(r.traces)
        replay(ctx, binary, behs, key, maxtotal)
    ctx.cov["exhaustive"] = True
    ctx.assumptions += [
        "Fairness is stated for a set not updated since NewValidatorSet (spec header)",
        "int64 clipping (safeAddClip/safeSubClip) is unreachable below MaxTotalVotingPower and not modelled; powers near the bound are mapped affinely from the model's MaxTotal = 100 and compared on membership/powers/accept-reject only",
        "validators = 3-4 keys, powers <= 5 (exact comparison of priority vectors), change lists <= 3 entries",
    ]
