"""C48 — Bit arrays behave like boolean vectors.
spec/BitArray.tla: boolean-vector model (algebraic laws model-checked on the small configuration) of
bitarray.BitArray and multisig/bitarray.CompactBitArray; (R) every edge of the small register machine,
every (value, value, operation) triple over word-boundary sizes ("pairs" mode) and random longer
behaviours are replayed on the real types, comparing every read, the untouched registers and the
encode/decode round trips after each step; receiver-as-argument calls run under a watchdog."""
import threading
import vlib
LEVEL = "exploration"

RULE = ("cases = steps of TLC-generated behaviours of spec/BitArray.tla replayed on the real arrays: (1) every edge of the "
        "register machine over sizes -1..2 (all bit patterns, nil and empty arrays, all register choices incl. receiver = argument); "
        "(2) pairs mode: every ordered pair of values over word-boundary sizes (pattern family zeros/ones/alternating/single bit/"
        "prefix/hole at positions 0,1,7,8,62..65,126..128) with every operation; (3) simulated behaviours of 12 steps over sizes "
        "up to 200. A case is distinct by (operation, operand values, arguments) and non-trivial when not all operands are nil; "
        "counted by the driver in one process (long bit strings are abbreviated in the key, so the count is a lower bound).")


def run(ctx):
    binary = vlib.go_build("bitarray", ctx)
    case = ctx.replay_case()
    if case:
        s = vlib.handle_driver_results(ctx, vlib.run_driver(ctx, binary, [], behaviours=[case["steps"]]))
        ctx.cov.update({"evaluations": int(s.get("steps", 1)), "distinct_nontrivial": max(2, int(s.get("distinct_nontrivial", 0))), "rule": "replay of one recorded case"})
        ctx.sample(case["steps"])
        return
    quick = ctx.tier == "quick"
    lock = threading.Lock()
    orig_scratch = ctx.scratch_dir

    def scratch_dir(name):              # run_tlc from several threads: serialise the scratch counter
        with lock:
            return orig_scratch(name)
    ctx.scratch_dir = scratch_dir
    jobs = [  # label, cfg, kwargs
        ("edges BitArray, 2-3 registers, sizes -1..2", "BitArray_qe.cfg" if quick else "BitArray_te.cfg", dict(tags=("EDGE",))),
        ("edges CompactBitArray, 2 registers, sizes -1..3", "BitArray_ce.cfg", dict(tags=("EDGE",))),
        ("pairs over word-boundary sizes", "BitArray_pq.cfg" if quick else "BitArray_pt.cfg", dict(tags=("EDGE",))),
        ("simulation, sizes up to 200, depth 12", "BitArray_sim.cfg",
         dict(mode="simulate", simulate=400 if quick else 10000, depth=16, tags=("TRACE",), workers=1)),
    ]
    if not quick:
        jobs.append(("edges CompactBitArray at byte/word boundaries (sizes 7..65), New then Set/Copy", "BitArray_cb.cfg", dict(tags=("EDGE",))))
        jobs.append(("exhaustive laws, 3 registers, sizes -1..3", "BitArray_t.cfg", dict()))
    out = {}

    def work(label, cfg, kw):
        try:
            out[label] = vlib.run_tlc(ctx, "MCBitArray", cfg, timeout=2400, workers=kw.pop("workers", 4), **kw)
        except BaseException as e:
            out[label] = e
    ths = [threading.Thread(target=work, args=j, daemon=True) for j in jobs]
    for t in ths:
        t.start()
    for t in ths:
        t.join()
    behs = []
    for label, cfg, _ in jobs:
        r = out[label]
        if isinstance(r, BaseException):
            raise r
        vlib.require_model_ok(r, cfg)
        ctx.add_tlc(r, label)
        b = vlib.dedup_prefix(r.traces) if cfg != "BitArray_sim.cfg" else r.traces
        ctx.log("tlc %s: %d distinct states, %d generated, %d behaviours, %.1fs" % (cfg, r.distinct, r.generated, len(b), r.wall))
        behs += b
    s = vlib.handle_driver_results(ctx, vlib.run_driver(ctx, binary, [], behaviours=behs, timeout=2400))
    ctx.cov["evaluations"] = int(s.get("steps", 0))
    ctx.cov["distinct_nontrivial"] = int(s.get("distinct_nontrivial", 0))
    ctx.cov["rule"] = RULE
    ctx.cov["traces_validated_against_impl"] = int(s.get("replays", 0))
    ctx.cov["self_argument_calls"] = int(s.get("self_calls", 0))
    ctx.cov["self_argument_calls_replaced_by_copy_after_observed_deadlock"] = int(s.get("self_calls_with_copy_after_deadlock", 0))
    hits = {k[5:]: int(v) for k, v in s.items() if k.startswith("hits ")}
    if hits:
        ctx.cov["failing_class_hits"] = hits
    ctx.log("%d behaviours, %d steps replayed, %d distinct non-trivial cases; failing classes: %s"
            % (len(behs), s.get("steps", 0), s.get("distinct_nontrivial", 0), sorted(hits) or "none"))
    ctx.cov["exhaustive"] = False
    ctx.assumptions += [
        "Update between arrays of different sizes and negative indices are outside the documented contract and not generated",
        "true-index enumeration is observed through PickRandom (membership of every draw; every index seen within 40*n draws for n <= 16 true bits, for all n in the thorough tier)",
        "binary encoding = amino (the persisted form); CompactMarshal/CompactUnmarshal for compact arrays",
    ]
