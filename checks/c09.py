"""C09 — Realm storage usage and deposits are accounted exactly.

(M) spec/StorageDeposit.tla (per-message lock / refund of object delta + chain/params delta in sorted realm order, price at message
    start, truncating refund ratio, restricted-denom routing) model-checked with TLC.
(V) seeded histories of deployments / grow / shrink / rewrite / cross-realm writes /
    foreign-owned objects / chain-params writes / price changes / restricted-denom toggles run
    on the REAL gno.land application (harness/cmd/storagedep); after every committed
    transaction the per-realm byte deltas are re-derived from the raw store and
    spec/StorageDepositTrace.tla must explain every verdict, counter and balance exactly,
    with Realm.Storage = bytes on disk in every recorded state."""
import json, os
import vlib, tracelib

LEVEL = "model_checking"
REALMS = ["p", "a", "b", "c"]          # sorted by path, as in StorageDepositTrace.tla
DEFAULT_LIMIT = 600000000


def mirror(prev, e):
    """Python mirror of StorageDeposit!Msg, used ONLY to name the field of a rejected line (the
    verdict is TLC's)."""
    st = json.loads(json.dumps(prev))
    caller, fee = e["caller"], e["fee"]
    limit = e["limit"] or DEFAULT_LIMIT
    s = {"storage": dict(st["storage"]), "deposit": dict(st["deposit"]), "dbal": dict(st["dbal"]), "bal": dict(st["bal"])}
    s["bal"][caller] -= fee
    err = False
    for r in REALMS:
        d = e["diffs"].get(r, 0)
        if d > 0:
            req = d * st["price"]
            if limit < req or s["bal"][caller] < req:
                err = True
                continue
            s["bal"][caller] -= req
            s["dbal"][r] += req
            s["deposit"][r] += req
            s["storage"][r] += d
            limit -= req
        elif d < 0:
            rel = -d
            if s["storage"][r] < rel:
                err = True
                break
            unl = s["deposit"][r] if s["storage"][r] == rel else s["deposit"][r] * rel // s["storage"][r]
            recv = "coll" if st["restricted"] else caller
            s["dbal"][r] -= unl
            s["bal"][recv] = s["bal"].get(recv, 0) + unl
            s["deposit"][r] -= unl
            s["storage"][r] -= rel
    if err:
        out = json.loads(json.dumps(prev))
        out["bal"][caller] -= fee
        return False, out
    out = json.loads(json.dumps(prev))
    out.update(s)
    if e.get("setprice"):
        out["price"] = e["setprice"]
    if e.get("setrestr"):
        out["restricted"] = e["setrestr"] == "on"
    return True, out


def name_rejection(lines, k):
    """key + text for the rejected line k (1-based)."""
    e = lines[k - 1]
    prev = None
    for x in reversed(lines[:k - 1]):
        if "st" in x:
            prev = x["st"]
            break
    what = e.get("what", e.get("act"))
    if prev is None or e.get("act") != "Msg":
        return "C09:trace-rejected:" + str(what), "line %d (%s) rejected" % (k, what)
    st = e["st"]
    for r in REALMS:
        if st["storage"][r] != st["disk"][r]:
            return "C09:StorageMatchesDisk", "after %s: Realm.Storage of realm %s is %d, bytes on disk %d" % (what, r, st["storage"][r], st["disk"][r])
        if st["dbal"][r] < st["deposit"][r]:
            return "C09:DepositBacked", "after %s: deposit of realm %s is %d, its deposit address holds %d" % (what, r, st["deposit"][r], st["dbal"][r])
    if e.get("nodiffs"):
        return "C09:non-deposit-failure-effects", "failed message %s left effects beyond the fee" % what
    ok, exp = mirror(prev, e)
    if ok != e["ok"]:
        return "C09:verdict:%s" % ("should-fail" if e["ok"] else "should-pass"), \
            "%s by %s with limit %s, deltas %s at price %s: reported ok=%s, the rules give ok=%s" % (what, e["caller"], e["limit"], e["diffs"], prev["price"], e["ok"], ok)
    kinds = sorted({("lock" if d > 0 else "refund") for d in e["diffs"].values() if d != 0}) or ["none"]
    for fld in ("storage", "deposit", "dbal", "bal", "price", "restricted"):
        if exp.get(fld) != st.get(fld):
            if isinstance(exp.get(fld), dict):
                bad = {x: (st[fld].get(x), exp[fld].get(x)) for x in exp[fld] if st[fld].get(x) != exp[fld].get(x)}
            else:
                bad = (st.get(fld), exp.get(fld))
            return "C09:%s:%s" % (fld, "+".join(kinds)), \
                "%s (deltas %s, price at message start %s, restricted=%s): %s recorded vs expected %s" % (what, e["diffs"], prev["price"], prev["restricted"], fld, bad)
    return "C09:trace-rejected:" + str(what), "line %d (%s) rejected" % (k, what)


def validate_all(ctx, lines):
    """validate; on a rejection report it, then continue after the rejected line by re-initialising
    from the recorded state (so that one defect does not hide another)."""
    remaining = list(lines)
    offset = 0
    accepted_lines = 0
    rounds = 0
    while remaining and rounds < 8:
        rounds += 1
        ok, k, r = tracelib.validate(ctx, "StorageDepositTrace", "StorageDepositTrace.cfg", "storagedep_trace.ndjson", remaining, timeout=1800)
        ctx.cov["trace_states"] = ctx.cov.get("trace_states", 0) + r.distinct
        if ok:
            accepted_lines += len(remaining)
            return accepted_lines
        if k is None or k < 1 or k > len(remaining):
            raise vlib.Inconclusive("TRACE", "rejected without a usable position:\n" + r.out[-1500:])
        key, what = name_rejection(remaining, k)
        ctx.violation(key, what, {"lines": remaining[max(0, k - 6):k], "failed_at": offset + k})
        accepted_lines += k - 1
        bad = remaining[k - 1]
        rest = remaining[k:]
        if bad.get("act") != "Msg" or not rest:
            return accepted_lines
        if rest and rest[0].get("act") == "Reset":
            rest = rest[1:]
            remaining = rest
        else:
            remaining = [{"act": "Init", "st": bad["st"]}] + rest
        offset += k
    if remaining and rounds >= 8:
        raise vlib.Inconclusive("TRACE", "more than 8 rejected lines; stopping")
    return accepted_lines


def run(ctx):
    binary = vlib.go_build("storagedep", ctx)
    case = ctx.replay_case()
    if case:
        lines = case["lines"]
        if lines and lines[0].get("act") != "Init":
            lines = [{"act": "Init", "st": lines[0]["st"]}] + lines[1:]
        ok, k, r = tracelib.validate(ctx, "StorageDepositTrace", "StorageDepositTrace.cfg", "storagedep_trace.ndjson", lines)
        ctx.cov.update({"states": r.distinct or 1, "transitions": r.generated or 1, "traces_validated_against_impl": 1})
        ctx.sample(lines[-1])
        if not ok:
            key, what = name_rejection(lines, k) if k else ("C09:replayed-trace-rejected", "rejected")
            ctx.violation(key, what, case)
        return
    quick = ctx.tier == "quick"
    cfg = "StorageDeposit_q.cfg" if quick else "StorageDeposit_t.cfg"
    for c in ([cfg] if quick else [cfg, "StorageDeposit_t2.cfg"]):
        r = vlib.run_tlc(ctx, "MCStorageDeposit", c, timeout=3000, workers=4 if quick else 8)
        vlib.require_model_ok(r, c)
        ctx.add_tlc(r, "exhaustive " + c)
    out = os.path.join(ctx.scratch_dir("rec"), "storagedep_trace.ndjson")
    nhist, ntx = (1, 56) if quick else (6, 160)
    res = vlib.run_driver(ctx, binary, ["-out", out, "-n", str(ntx), "-x", str(nhist)], timeout=3000)
    s = vlib.handle_driver_results(ctx, res)
    lines = [json.loads(l) for l in open(out) if l.strip()]
    msgs = [x for x in lines if x.get("act") == "Msg"]
    ctx.cov["recorded_lines"] = len(lines)
    ctx.cov["messages"] = {"ok": int(s.get("ok", 0)), "failed": int(s.get("failed", 0)), "twins": int(s.get("twins", 0))}
    cls = {"lock": 0, "refund": 0, "lock+refund": 0, "multi_realm": 0, "price_change": 0, "restricted_refund": 0,
           "limit_failures": 0, "foreign_owned": 0, "params": 0,
           # one realm changes its objects AND its own chain/params bytes in one message
           # >= 2 realms grow in one message under an explicit max-deposit: each requirement fits, the sum does not / the sum fits
           "limit_each_fits_sum_does_not": 0, "limit_sum_fits_two_realms": 0,
           "obj+params_same_sign": 0, "obj+params_opposite_sign": 0, "obj+params_two_realms": 0}
    prev = None
    for x in lines:
        if x.get("act") == "Msg" and prev is not None:
            ds = [d for d in x["diffs"].values() if d]
            if any(d > 0 for d in ds):
                cls["lock"] += 1
            if any(d < 0 for d in ds):
                cls["refund"] += 1
                if prev.get("restricted") and x["ok"]:
                    cls["restricted_refund"] += 1
            if any(d > 0 for d in ds) and any(d < 0 for d in ds):
                cls["lock+refund"] += 1
            if len(ds) > 1:
                cls["multi_realm"] += 1
            if x["st"]["price"] != prev["price"]:
                cls["price_change"] += 1
            if not x["ok"] and not x.get("nodiffs"):
                cls["limit_failures"] += 1
            if "Lend" in x.get("what", ""):
                cls["foreign_owned"] += 1
            if "Param" in x.get("what", ""):
                cls["params"] += 1
            grow = [d * prev["price"] for d in x["diffs"].values() if d > 0]
            if len(grow) >= 2 and x["limit"] > 0 and not x.get("nodiffs"):
                if max(grow) <= x["limit"] < sum(grow):
                    cls["limit_each_fits_sum_does_not"] += 1
                elif sum(grow) <= x["limit"]:
                    cls["limit_sum_fits_two_realms"] += 1
            both = [(x["odiffs"][r], x["pdiffs"][r]) for r in REALMS if x.get("odiffs", {}).get(r) and x.get("pdiffs", {}).get(r)]
            if x["ok"]:
                cls["obj+params_same_sign"] += sum(1 for o, p in both if (o > 0) == (p > 0))
                cls["obj+params_opposite_sign"] += sum(1 for o, p in both if (o > 0) != (p > 0))
                if len(both) > 1:
                    cls["obj+params_two_realms"] += 1
        if "st" in x:
            prev = x["st"]
    ctx.cov["message_classes"] = cls
    need = ["lock", "refund", "multi_realm", "price_change", "params"] + ([] if quick else ["limit_failures", "restricted_refund", "foreign_owned"])
    missing = [k for k in need if not cls[k]]
    for k, nq, nt in (("limit_each_fits_sum_does_not", 1, 6), ("limit_sum_fits_two_realms", 1, 6), ("obj+params_same_sign", 3, 30), ("obj+params_opposite_sign", 2, 20), ("obj+params_two_realms", 1, 6)):
        if cls[k] < (nq if quick else nt):
            missing.append("%s (%d)" % (k, cls[k]))
    if missing:
        raise vlib.Inconclusive("VACUOUS", "the recorded histories never produced: %s" % missing)
    for x in msgs[:4]:
        ctx.sample({k: v for k, v in x.items() if k != "st"})
    ctx.add("traces_validated_against_impl", nhist)
    acc = validate_all(ctx, lines)
    ctx.cov["lines_accepted"] = acc
    if not quick:
        # the binding, demonstrated once: one corrupted counter makes TLC reject the trace
        bad = json.loads(json.dumps(lines[:12]))
        for x in bad:
            if x.get("act") == "Msg" and x["ok"] and any(x["diffs"].values()):
                r0 = [r for r in REALMS if x["diffs"][r]][0]
                x["st"]["deposit"][r0] += 1
                break
        ok, k, _ = tracelib.validate(ctx, "StorageDepositTrace", "StorageDepositTrace.cfg", "storagedep_trace.ndjson", bad)
        if ok:
            raise vlib.Inconclusive("VACUOUS", "a trace with a corrupted deposit counter was accepted")
        ctx.cov["binding_selftest"] = "corrupted deposit rejected at line %s" % k
    ctx.cov["exhaustive"] = True
    ctx.assumptions += [
        "byte deltas of a FAILED message are those measured on its twin (same message, same realm state, well-funded caller, default limit): the VM is deterministic (C01)",
        "amounts are kept below 2^31 (storage price 1..5 ugnot/byte, realms below 46 KB) because TLC integers are 32-bit; the refund ratio is evaluated as (a div c)*b + ((a mod c)*b) div c",
        "one VM message per transaction; gas fee is a constant input of the action",
    ]
