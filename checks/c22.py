"""C22 — Cache and prefix store layers behave like their overlay model.
spec/KVOverlay.tla (M) + replay (R) of every edge of the bounded graph and of simulated long
behaviours on real stacks of cache stores (CacheWrap and cachemulti) and prefix stores over
dbadapter/memdb (harness/cmd/kvoverlay), with a full scan of every level at the end of each."""
import json, os, re, threading
import vlib

LEVEL = "model_checking"

VARIANTS = [
    {"mode": "plain", "base": "memdb", "gas": False},
    {"mode": "multi", "base": "memdb", "gas": True},
    {"mode": "plain", "base": "collecting", "gas": True},
    {"mode": "multi", "base": "collecting", "gas": False},
]
# cfg -> (key universe operator of MCKVOverlay.tla, store names)
CFGS = {
    "KVOverlay_qe.cfg": ("KeysS", ["s1"]),
    "KVOverlay_qme.cfg": ("KeysS", ["s1", "s2"]),
    "KVOverlay_te.cfg": ("KeysS", ["s1"]),
    "KVOverlay_tme.cfg": ("KeysS", ["s1", "s2"]),
    "KVOverlay_sim.cfg": ("KeysM", ["s1", "s2"]),
}


def key_universe(name):
    """read the key set from the MC module, so that driver and model cannot drift apart"""
    src = open(os.path.join(vlib.SPEC, "MCKVOverlay.tla")).read()
    m = re.search(r"^%s == \{(.*?)\}" % name, src, re.M | re.S)
    if not m:
        raise vlib.Inconclusive("SPEC", "no %s in MCKVOverlay.tla" % name)
    return [[int(x) for x in t.split(",") if x.strip()] for t in re.findall(r"<<(.*?)>>", m.group(1))]


class Locked:
    _lock = threading.Lock()

    def __init__(self, ctx):
        object.__setattr__(self, "_c", ctx)

    def __getattr__(self, k):
        return getattr(self._c, k)

    def scratch_dir(self, name):
        with Locked._lock:
            return self._c.scratch_dir(name)


def parallel(jobs):
    res, err = [None] * len(jobs), []

    def run(i, fn):
        try:
            res[i] = fn()
        except BaseException as e:   # noqa
            err.append(e)
    ths = [threading.Thread(target=run, args=(i, fn)) for i, fn in enumerate(jobs)]
    for t in ths:
        t.start()
    for t in ths:
        t.join()
    if err:
        raise err[0]
    return res


def behaviours(r):
    """payload {h: hist, v: views after the last step} -> behaviour whose last record carries 'final'"""
    out = []
    for p in r.traces:
        h = p["h"]
        h[-1] = dict(h[-1], final=p["v"])
        out.append(h)
    return out


class Run:
    def __init__(self, ctx, binary):
        self.ctx, self.lctx, self.binary = ctx, Locked(ctx), binary
        self.flaky, self.sum, self.lock = [], {}, threading.Lock()

    def tlc(self, cfg, label, **kw):
        r = vlib.run_tlc(self.lctx, "MCKVOverlay", cfg, **kw)
        vlib.require_model_ok(r, cfg)
        with self.lock:
            self.ctx.add_tlc(r, label)
            self.ctx.log("tlc %s: %d generated, %d distinct, %d payloads, %.1fs" % (cfg, r.generated, r.distinct, len(r.traces), r.wall))
        return r

    def drive(self, cfg, behs, prefix_replays=0, variants=VARIANTS):
        if not behs:
            return
        keys, stores = CFGS[cfg]
        x = {"variants": variants, "keys": key_universe(keys), "stores": stores, "prefix_replays": prefix_replays}
        res = vlib.run_driver(self.lctx, self.binary, ["-x", json.dumps(x)], behaviours=behs, timeout=1500)
        with self.lock:
            self.flaky += [r for r in res if r.get("kind") == "flaky"]
            s = vlib.handle_driver_results(self.ctx, res)
            for k, v in s.items():
                if isinstance(v, (int, float)) and not isinstance(v, bool):
                    self.sum[k] = self.sum.get(k, 0) + v


def run(ctx):
    binary = vlib.go_build("kvoverlay", ctx)
    ctx.log("driver built")
    R = Run(ctx, binary)
    case = ctx.replay_case()
    if case:
        steps = case["steps"]
        if case.get("scan"):   # the failure was seen by the full scan after the last step
            steps[-1] = dict(steps[-1], final=case["views"])
        x = {"variants": [case["variant"]], "keys": case["keys"], "stores": case["stores"], "prefix_replays": 0}
        out = vlib.run_driver(ctx, binary, ["-x", json.dumps(x)], behaviours=[steps])
        vlib.handle_driver_results(ctx, out)
        ctx.cov.update({"states": 1, "transitions": 1, "traces_validated_against_impl": 1})
        ctx.sample([{k: v for k, v in s.items() if k not in ("st", "final")} for s in steps[:10]])
        return
    quick = ctx.tier == "quick"
    ecfg, mcfg = ("KVOverlay_qe.cfg", "KVOverlay_qme.cfg") if quick else ("KVOverlay_te.cfg", "KVOverlay_tme.cfg")
    nsim = 100 if quick else 4000
    jobs = [
        lambda: R.tlc(ecfg, "exhaustive+edges 1 store " + ecfg, tags=("EDGE",), timeout=2400, workers=6),
        lambda: R.tlc(mcfg, "exhaustive+edges cachemulti 2 stores " + mcfg, tags=("EDGE",), timeout=2400, workers=6),
        lambda: R.tlc("KVOverlay_sim.cfg", "simulate 10 keys, 3 prefixes, 2 stores, <=4 layers, depth 40",
                      mode="simulate", simulate=nsim, depth=45, tags=("TRACE",), timeout=2400),
        lambda: R.tlc("KVOverlay_q.cfg", "exhaustive <=3 layers len<=5 (no emission)", timeout=2400, workers=4),
    ]
    if not quick:
        jobs += [lambda: R.tlc("KVOverlay_t1.cfg", "exhaustive <=3 layers len<=7 (no emission)", timeout=3000, workers=4),
                 lambda: R.tlc("KVOverlay_t2.cfg", "exhaustive 10 keys len<=5 (no emission)", timeout=3000, workers=4)]
    rs = parallel(jobs)
    edges, medges, sim = behaviours(rs[0]), behaviours(rs[1]), behaviours(rs[2])
    ctx.cov["edges_emitted"] = len(edges) + len(medges)
    ctx.log("TLC done: %d + %d edges, %d simulated behaviours" % (len(edges), len(medges), len(sim)))
    parallel([
        lambda: R.drive(ecfg, edges),
        lambda: R.drive(mcfg, medges),
        lambda: R.drive("KVOverlay_sim.cfg", sim, prefix_replays=3),
    ])
    s = R.sum
    ctx.add("traces_validated_against_impl", int(s.get("replays", 0)))
    ctx.add("impl_steps", int(s.get("steps", 0)))
    ctx.cov["scan_points"] = int(s.get("scan_points", 0))
    ctx.cov["variants"] = ["%s/%s/%s" % (v["mode"], v["base"], "gas" if v["gas"] else "nogas") for v in VARIANTS]
    ctx.cov["exhaustive"] = True
    ctx.log("replayed %d behaviours (%d scan points) x %d variants = %d replays (%d ok), %d steps" %
            (len(edges) + len(medges) + len(sim), s.get("scan_points", 0), len(VARIANTS), s.get("replays", 0), s.get("replays_ok", 0), s.get("steps", 0)))
    ctx.assumptions += [
        "modifying calls go to the top of the stack only (a cache store keeps clean reads: writing a parent under a live child is outside the stores' contract); reads at every level",
        "iterators are drained and closed before the next call",
        "the base is dbadapter over memdb (directly, or behind a CollectingDB that is drained after every step); other back ends are C29's subject",
        "gas amounts are not compared (C10); the gas variants only route the calls through the metered paths",
    ]
    if R.flaky:
        raise vlib.Inconclusive("FLAKY", json.dumps(R.flaky[:3])[:1500])
