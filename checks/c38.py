"""C38 — The consensus write-ahead log preserves what was written. spec/WAL.tla (M) + replay (R) of
every edge of the bounded graph on the real wal.baseWAL / autofile.Group in a temp dir (read-all and
SearchForHeight for every height in both modes after every step) + byte-level fault enumeration
(every truncation byte, every byte position x replacement values of every message line) on the final
log of every distinct layout."""
import os, shutil, tempfile
import vlib
LEVEL = "fault_enumeration"

RULE = ("cases are generated from TLC behaviours of spec/WAL.tla (Write/WriteSync/WriteEnd/Rotate/Crash/Corrupt); "
        "a fault case = (distinct final log layout: line sequence + lines per file, fault) with fault = truncation at one "
        "byte offset of the concatenated log | truncation of the real group files at a line boundary / mid-line | one byte "
        "of one message line (incl. its newline) replaced by one other value; layouts are de-duplicated, so every counted "
        "fault case is distinct; all are non-trivial (each decodes a log with >= 1 line through the real WALReader)")


def replay(ctx, binary, behs, label, tmp, allvalues=False, mode="replay"):
    env = {"TMPDIR": tmp} if tmp else None
    args = ["-mode", mode] + (["-x", "allvalues"] if allvalues else [])
    res = vlib.run_driver(ctx, binary, args, behaviours=behs, env_extra=env, timeout=3000)
    s = vlib.handle_driver_results(ctx, res)
    ctx.add("traces_validated_against_impl", int(s.get("replays", 0)))
    faults = int(s.get("truncation_probes", 0)) + int(s.get("group_truncation_probes", 0)) + int(s.get("corruption_probes", 0))
    ctx.add("evaluations", faults + int(s.get("searches", 0)) + int(s.get("steps", 0)))
    ctx.add("distinct_nontrivial", faults)
    for k in ("steps", "searches", "distinct_final_layouts", "truncation_probes", "group_truncation_probes", "corruption_probes"):
        ctx.add("impl_" + k, int(s.get(k, 0)))
    ctx.log("%s: %d behaviours replayed, %d ok; %d searches, %d layouts, %d fault cases" % (
        label, len(behs), s.get("replays_ok", 0), s.get("searches", 0), s.get("distinct_final_layouts", 0), faults))


def run(ctx):
    binary = vlib.go_build("wal", ctx)
    tmp = None
    if os.path.isdir("/dev/shm") and os.access("/dev/shm", os.W_OK):
        tmp = tempfile.mkdtemp(prefix="verif.C38.", dir="/dev/shm")   # fsync-heavy: keep it on tmpfs
    try:
        _run(ctx, binary, tmp)
    finally:
        if tmp:
            shutil.rmtree(tmp, ignore_errors=True)


def _run(ctx, binary, tmp):
    ctx.cov["rule"] = RULE
    case = ctx.replay_case()
    if case:
        replay(ctx, binary, [case["steps"]], "replay", tmp, allvalues=True)
        ctx.cov.update({"states": 1, "transitions": 1})
        ctx.cov["distinct_nontrivial"] = max(2, ctx.cov.get("distinct_nontrivial", 0))
        ctx.sample(case["steps"])
        return
    quick = ctx.tier == "quick"
    if not quick:   # quick: the edge run below is itself exhaustive with all invariants
        for cfg in ("WAL_q.cfg", "WAL_t.cfg"):
            r = vlib.run_tlc(ctx, "MCWAL", cfg, timeout=3000)
            vlib.require_model_ok(r, cfg)
            ctx.add_tlc(r, "exhaustive " + cfg)
    ecfg = "WAL_qe.cfg" if quick else "WAL_te.cfg"
    r = vlib.run_tlc(ctx, "MCWAL", ecfg, tags=("EDGE",), timeout=3000)
    vlib.require_model_ok(r, ecfg)
    ctx.add_tlc(r, "exhaustive+edges " + ecfg)
    ctx.add("edges_emitted", len(r.traces))
    # one behaviour per edge, compared at its last step: every transition is checked exactly once
    replay(ctx, binary, r.traces, "edges", tmp, allvalues=not quick, mode="last")
    # long logs over many files: the backwards/binary search of SearchForHeight
    n = 100 if quick else 4000
    r = vlib.run_tlc(ctx, "MCWAL", "WAL_sim.cfg", mode="simulate", simulate=n, depth=40, tags=("TRACE",), timeout=1800)
    vlib.require_model_ok(r, "WAL_sim")
    ctx.add_tlc(r, "simulate <=30 steps, <=12 files, markers 0..8")
    replay(ctx, binary, r.traces, "simulation", tmp)
    ctx.cov["exhaustive"] = True
    ctx.assumptions += [
        "the driver's payload type (amino-registered struct) stands for the consensus message types, which are unexported",
        "log lines are small, so the group's 40 KiB write buffer never flushes by itself; the periodic flush is disabled (24 h interval)",
        "CRC-32C detects every single-byte change of a line (burst <= 32 bits); changes that leave the decoded bytes identical are not corruptions",
        "meta lines carry no CRC (TODO in the code): corruption inside a marker line is not generated; markers are strictly increasing",
        "pruning removes at most the oldest file per rotation (ensureTotalSizeLimit with several removals is outside the statement)",
    ]
