"""C31 — Honest nodes never commit conflicting blocks. (M) spec/Consensus.tla exhaustive;
(V) real ConsensusState objects stepped by a seeded adversarial scheduler (harness/cmd/consensus),
every step validated against the guards of ConsensusGuards.tla by spec/ConsensusTrace.tla;
(R+V) model-driven schedules: behaviours of spec/ConsensusSched.tla (a realisable, delivery-explicit refinement
of Consensus.tla) are replayed step by step into the real nodes (-mode sched), the real projection is compared
with the model's after every step (differences only abandon the behaviour: unrealisable:<reason>), and the recorded
execution goes through the same ConsensusTrace validation, which alone produces verdicts.

VERIF_C31_STAGES (diagnostics only; default "model,chaos,sched"): comma list of model, chaos, chaos-nodirected,
directed, sched."""
import collections, json, os, random, re, threading, vlib, tracelib
LEVEL = "model_checking"


def validate(ctx, lines, max_bad=None):
    """Returns list of (scenario_lines, line_in_scenario, guard names / 'Agreement').
    max_bad: stop looking after that many rejected scenarios (the rest is not validated)."""
    scens = [s for _, s in tracelib.split_scenarios(lines)]
    bad = []
    remaining = scens
    states = 0
    for _ in range(10):
        if not remaining:
            break
        flat = [x for s in remaining for x in s]
        if flat and flat[-1].get("act") == "Reset":
            flat = flat[:-1]
        d = ctx.scratch_dir("trace")
        path = os.path.join(d, "consensus_trace.ndjson")
        tracelib.write_ndjson(path, flat)
        r = vlib.run_tlc(ctx, "ConsensusTrace", "ConsensusTrace.cfg", workers=1, timeout=1800, extra_files=[path], deadlock=True, tags=(), jvm=["-Xmx4g"])
        states += r.distinct
        if r.violated:
            ls = re.findall(r"/\\ l = (\d+)", r.out)
            vs = re.findall(r"/\\ viol = (\{[^}]*\})", r.out, re.S)
            k = int(ls[-1]) - 1 if ls else 1      # the step that produced the bad state consumed line l-1
            names = "+".join(sorted(re.findall(r'"([^"]+)"', vs[-1]))) if vs else "unknown"
            what = r.violated if r.violated == "Agreement" else names
            pos = 0
            for j, s in enumerate(remaining):
                if pos < k <= pos + len(s):
                    bad.append((s, k - pos, what))
                    remaining = remaining[j + 1:]
                    if max_bad is not None and len(bad) >= max_bad:
                        remaining = []
                    break
                pos += len(s)
            else:
                raise vlib.Inconclusive("TRACE", "cannot locate line %d" % k)
            continue
        if r.error or not r.ok:
            raise vlib.Inconclusive("TLC-ERROR", (r.error or r.out[-1500:]))
        remaining = []
    if remaining and not bad:
        raise vlib.Inconclusive("TRACE", "too many rejected scenarios")
    return bad, len(scens), states      # (with ten rejected scenarios the rest is left unvalidated: they are reported)


REQUIRED_SITUATIONS = ["lock-then-different-polka", "unlock", "relock", "stale-polka-after-round-change", "equivocating-proposal-split"]


def report_trace_violations(ctx, stage, bad, extra=None):
    ctx.log("stage %s: %d recorded scenario(s) rejected by ConsensusTrace%s" % (stage, len(bad), (": " + ", ".join(sorted({str(w) for _, _, w in bad}))) if bad else ""))
    for scen, k, what in bad:
        ev = scen[k - 1] if 0 < k <= len(scen) else {}
        case = {"scenario": scen, "failed_at": k, "stage": stage}
        if extra:
            case.update(extra(scen) or {})
        ctx.violation("C31:%s" % what, "[%s stage] node %s at line %d of the scenario: %s; event %s" % (stage, ev.get("node"), k, what, json.dumps(ev)[:500]), case)


def report_panics(ctx, s, lines):
    if s.get("node_panics"):
        ctx.notes.append("%d node panics recorded (halted nodes)" % s["node_panics"])
        pl = [x for x in lines if x.get("act") == "Panic" and x.get("honest")]
        if pl:
            ctx.violation("C31:honest-node-panicked:" + pl[0].get("where", "")[:80], "an honest node panicked inside a consensus step: %s" % json.dumps(pl[0])[:400], {"panic": pl[0]})


def select_behaviours(behs, k, seed):
    """Coverage-guided choice of k behaviours out of the simulated ones: behaviours showing the rarest situations /
    code branches first (all of them for rare ones, a quota for frequent ones), the rest at random."""
    rng = random.Random(seed)
    tags = []
    for b in behs:
        t = set()
        for st in b[1:]:
            t.update("sit:" + x for x in st.get("sit", []))
            t.update("br:" + x for x in st.get("br", []))
        tags.append(t)
    freq = collections.Counter(x for t in tags for x in t)
    order = list(range(len(behs)))
    rng.shuffle(order)
    chosen, cs, have = [], set(), collections.Counter()
    quota = max(8, k // 8)
    for tag in sorted(freq, key=lambda x: (freq[x], x)):
        for i in order:
            if len(chosen) >= k or have[tag] >= quota:
                break
            if tag in tags[i] and i not in cs:
                chosen.append(i)
                cs.add(i)
                have.update(tags[i])
    for i in order:
        if len(chosen) >= k:
            break
        if i not in cs:
            chosen.append(i)
            cs.add(i)
    return [behs[i] for i in chosen]


def validate_parallel(ctx, lines, nchunks, max_bad):
    scens = [s for _, s in tracelib.split_scenarios(lines)]
    nchunks = max(1, min(nchunks, len(scens)))
    chunks = [[x for s in scens[i::nchunks] for x in s] for i in range(nchunks)]
    out, errs = [None] * nchunks, []

    def work(i):
        try:
            out[i] = validate(ctx, chunks[i], max_bad=max_bad)
        except BaseException as e:      # re-raised in the caller's thread
            errs.append(e)
    ths = [threading.Thread(target=work, args=(i,)) for i in range(nchunks)]
    for t in ths:
        t.start()
    for t in ths:
        t.join()
    if errs:
        raise errs[0]
    return [b for o in out for b in o[0]], sum(o[1] for o in out), sum(o[2] for o in out)


def sched_stage(ctx, binary, behaviours=None):
    """Model-driven schedules (spec/ConsensusSched.tla -> harness/cmd/consensus -mode sched -> ConsensusTrace.tla)."""
    quick = ctx.tier == "quick"
    if behaviours is None:
        if not quick:
            # the delivery-explicit model itself, exhaustively, where that is feasible: round 0, a Byzantine proposer that
            # equivocates with two blocks, no Byzantine votes -- refinement invariants and the guard assertion on every transition
            rq = vlib.run_tlc(ctx, "MCConsensusSched", "ConsensusSched_q.cfg", timeout=7200, workers=6, jvm=["-Xmx6g"])
            vlib.require_model_ok(rq, "ConsensusSched_q.cfg")
            ctx.add_tlc(rq, "ConsensusSched exhaustive: round 0, equivocating Byzantine proposer, no Byzantine votes")
        cfg, per, workers, k, depth = ("ConsensusSched_sim.cfg", 250, 4, 260, 100) if quick else ("ConsensusSched_simt.cfg", 800, 6, 2000, 140)
        r = vlib.run_tlc(ctx, "MCConsensusSched", cfg, mode="simulate", simulate=per, depth=depth, workers=workers, tags=("TRACE",),
                         timeout=1800 if quick else 7200, jvm=["-Xmx4g"])
        vlib.require_model_ok(r, cfg)      # a failing model run is never a verdict
        ctx.add_tlc(r, "ConsensusSched simulation (%s): %d behaviours" % (cfg, len(r.traces)))
        if len(r.traces) < k // 2:
            raise vlib.Inconclusive("TLC-ERROR", "only %d behaviours out of the ConsensusSched simulation" % len(r.traces))
        ctx.cov["sched_behaviours_generated"] = len(r.traces)
        behaviours = select_behaviours(r.traces, k, ctx.seed)
    out = os.path.join(ctx.scratch_dir("sched"), "consensus_trace.ndjson")
    res = vlib.run_driver(ctx, binary, ["-mode", "sched", "-out", out], behaviours=behaviours, timeout=3000)
    s = vlib.handle_driver_results(ctx, res)
    lines = [json.loads(l) for l in open(out) if l.strip()]
    nb, nend = int(s.get("sched_behaviours", 0)), int(s.get("sched_replayed_to_end", 0))
    if nb != len(behaviours):
        raise vlib.Inconclusive("DRIVER", "sched driver replayed %d of %d behaviours" % (nb, len(behaviours)))
    grp = lambda pre: {k[len(pre):]: int(v) for k, v in sorted(s.items()) if k.startswith(pre)}
    unreal = grp("unreal:")
    ctx.cov.update({"sched_behaviours_replayed": nb, "sched_replayed_to_end": nend, "sched_realisable_ratio": round(nend / max(1, nb), 3),
                    "sched_steps_realised": int(s.get("sched_steps", 0)), "sched_model_steps": int(s.get("sched_model_steps", 0)),
                    "sched_trace_lines": len(lines), "sched_unrealisable": unreal, "sched_actions": grp("act:"), "sched_branches": grp("br:"),
                    "sched_situation_steps": grp("sit:"), "sched_situation_behaviours": grp("sitb:"), "sched_real_node_events": grp("real:"),
                    "sched_proposer_orders": grp("order:")})
    for x in [x for x in res if x.get("kind") == "unrealisable"][:3]:
        ctx.notes.append("unrealisable:%s at step %s: %s" % (x.get("reason"), x.get("step"), str(x.get("detail"))[:300]))
    report_panics(ctx, s, lines)
    # verdicts: the recorded execution against the guards / Agreement, exactly as for the chaos traces
    beh_of = {id(scen[0]): b for b, (_, scen) in zip(behaviours, tracelib.split_scenarios(lines))}   # keyed by the Init line object
    bad, nscen, states = validate_parallel(ctx, lines, 1 if quick else 6, max_bad=3)
    ctx.add("trace_states", states)
    ctx.add("traces_validated_against_impl", nscen)
    report_trace_violations(ctx, "model-driven", bad, extra=lambda scen: {"behaviour": beh_of.get(id(scen[0]))})
    # not vacuous: the situations the locking rules exist for were reached ON THE REAL NODES (steps that replayed)
    sitb = ctx.cov["sched_situation_behaviours"]
    missing = [x for x in REQUIRED_SITUATIONS if not sitb.get(x)]
    if nend < 0.7 * nb:
        raise vlib.Inconclusive("SCHED-UNREALISABLE", "only %d of %d model behaviours replay to their end on the real nodes: %s" % (nend, nb, unreal))
    if missing:
        raise vlib.Inconclusive("VACUOUS", "no replayed model-driven behaviour reached: %s" % ", ".join(missing))
    for x in lines[1:3]:
        ctx.sample(x, limit=6)


def run(ctx):
    binary = vlib.go_build("consensus", ctx)
    case = ctx.replay_case()
    if case:
        if case.get("behaviour"):
            # a model-driven schedule: run it again on the real nodes, then validate what they did
            sched_stage_replay(ctx, binary, case)
            return
        bad, n, states = validate(ctx, case["scenario"])
        ctx.cov.update({"states": states or 1, "transitions": states or 1, "traces_validated_against_impl": 1})
        ctx.sample(case["scenario"][:2])
        for s, k, what in bad:
            ctx.violation("C31:replayed-trace:" + str(what), "recorded trace violates %s at line %d" % (what, k), case)
        return
    stages = set(x.strip() for x in os.environ.get("VERIF_C31_STAGES", "model,chaos,sched").split(",") if x.strip())
    if stages != {"model", "chaos", "sched"}:
        ctx.notes.append("partial run (diagnostics): stages %s" % sorted(stages))
    todo = []
    if "model" in stages:
        todo.append(lambda: model_stage(ctx))
    for st in ("chaos", "chaos-nodirected", "directed"):
        if st in stages:
            todo.append(lambda st=st: chaos_stage(ctx, binary, {"chaos": [], "chaos-nodirected": ["-x", "nodirected"], "directed": ["-x", "directedonly"]}[st]))
    if "sched" in stages:
        todo.append(lambda: sched_stage(ctx, binary))
    inconclusive = None
    for stage in todo:
        # an inconclusive stage does not keep the others from looking (what they see on the real code still counts)
        try:
            stage()
        except vlib.Inconclusive as e:
            ctx.log("stage inconclusive: %s" % str(e)[:300])
            inconclusive = inconclusive or e
    ctx.cov.setdefault("states", 1)
    ctx.cov.setdefault("transitions", 1)
    ctx.assumptions += ["4 validators (3-4 honest real ConsensusState objects; the Byzantine one is played by two twin instances with the same key, crafted votes and false +2/3 claims); kvstore application; MockPV (no double-sign protection, so the consensus logic itself is what is held to the guards)",
                        "chaos schedules are sampled (seeded), not enumerated; exhaustiveness is on the model side",
                        "model-driven schedules: behaviours of ConsensusSched.tla (3 honest + 1 Byzantine validator of equal power, one height, rounds 0..2 quick / 0..3 thorough) obtained by biased TLC simulation and chosen for situation / branch coverage, not enumerated (the delivery-explicit model has > 2.6 M states at depth 11 of round 0 alone); a node's own votes are processed before the next stimulus; a proposal travels with its block; no false +2/3 claims in this stage",
                        "liveness is checked as bounded progress after the scheduler starts delivering everything"]
    if inconclusive is not None:
        raise inconclusive


def sched_stage_replay(ctx, binary, case):
    out = os.path.join(ctx.scratch_dir("sched"), "consensus_trace.ndjson")
    res = vlib.run_driver(ctx, binary, ["-mode", "sched", "-out", out], behaviours=[case["behaviour"]], timeout=600)
    vlib.handle_driver_results(ctx, res)
    lines = [json.loads(l) for l in open(out) if l.strip()]
    bad, n, states = validate(ctx, lines)
    ctx.cov.update({"states": states or 1, "transitions": states or 1, "traces_validated_against_impl": 1})
    ctx.sample(lines[:2])
    for s, k, what in bad:
        ctx.violation("C31:replayed-trace:" + str(what), "re-run model-driven schedule violates %s at line %d" % (what, k), case)


def model_stage(ctx):
    # (M) the guards are sufficient for Agreement on the bounded model; too much Byzantine power breaks it (non-vacuity)
    cfgs = [("Consensus_q.cfg", "3 honest + 1 byzantine (equal power), rounds 0..1")]
    if ctx.tier == "thorough":
        cfgs += [("Consensus_u.cfg", "4 honest + 1 byzantine, unequal powers, rounds 0..1"), ("Consensus_t.cfg", "3 honest + 1 byzantine, rounds 0..2")]
    for cfg, label in cfgs:
        r = vlib.run_tlc(ctx, "MCConsensus", cfg, timeout=21600)      # Consensus_t: 43 M states, 7.6 min idle, > 2 h at load 100
        vlib.require_model_ok(r, cfg)
        ctx.add_tlc(r, label)
    rb = vlib.run_tlc(ctx, "MCConsensus", "Consensus_bad.cfg", timeout=900, workers=4, jvm=["-Xmx3g"])
    if rb.violated != "Agreement":
        raise vlib.Inconclusive("VACUOUS", "Agreement does not fail with >= 1/3 byzantine power: the model does not exercise it")


def chaos_stage(ctx, binary, xargs):
    # (V) real nodes
    n = 12 if ctx.tier == "quick" else 120
    out = os.path.join(ctx.scratch_dir("rec"), "consensus_trace.ndjson")
    res = vlib.run_driver(ctx, binary, ["-out", out, "-n", str(n)] + xargs, timeout=3000)
    s = vlib.handle_driver_results(ctx, res)
    noprog = [x for x in res if x.get("kind") == "noprogress"]
    lines = [json.loads(l) for l in open(out) if l.strip()]
    bad, nscen, states = validate(ctx, lines)
    ctx.add("trace_states", states)
    ctx.cov["impl_steps"] = int(s.get("steps", 0))
    ctx.cov["heights_committed"] = int(s.get("heights", 0))
    ctx.cov["directed_lock_splits"] = int(s.get("directed_lock_splits", 0))
    ctx.cov["locks_carried_to_later_round"] = int(s.get("locks_carried_to_later_round", 0))
    report_panics(ctx, s, lines)
    ctx.add("traces_validated_against_impl", nscen)
    report_trace_violations(ctx, "chaos" + "".join(xargs[1:]), bad)
    if noprog:
        # bounded progress after GST: reproduce once with the same seed before reporting
        res2 = vlib.run_driver(ctx, binary, ["-out", out + ".2", "-n", str(n)] + xargs, timeout=3000)
        again = [x for x in res2 if x.get("kind") == "noprogress"]
        if again and {x["scenario"] for x in again} & {x["scenario"] for x in noprog}:
            ctx.violation("C31:no-progress-after-GST", "honest nodes did not commit two further heights after all messages were delivered: %s" % noprog[:2], {"noprogress": noprog})
        else:
            ctx.notes.append("FLAKY: a no-progress report did not reproduce")
    for x in lines[1:4]:
        ctx.sample(x, limit=5)
    if not s.get("locks_carried_to_later_round"):
        raise vlib.Inconclusive("VACUOUS", "no scenario carried a lock into a later round")
