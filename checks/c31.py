"""C31 — Honest nodes never commit conflicting blocks. (M) spec/Consensus.tla exhaustive;
(V) real ConsensusState objects stepped by a seeded adversarial scheduler (harness/cmd/consensus),
every step validated against the guards of ConsensusGuards.tla by spec/ConsensusTrace.tla."""
import json, os, re, vlib, tracelib
LEVEL = "model_checking"


def validate(ctx, lines):
    """Returns list of (scenario_lines, line_in_scenario, guard names / 'Agreement')."""
    scens = [s for _, s in tracelib.split_scenarios(lines)]
    bad = []
    remaining = scens
    states = 0
    for _ in range(10):
        if not remaining:
            break
        flat = [x for s in remaining for x in s]
        if flat and flat[-1].get("act") == "Reset":
            flat = flat[:-1]
        d = ctx.scratch_dir("trace")
        path = os.path.join(d, "consensus_trace.ndjson")
        tracelib.write_ndjson(path, flat)
        r = vlib.run_tlc(ctx, "ConsensusTrace", "ConsensusTrace.cfg", workers=1, timeout=1800, extra_files=[path], deadlock=True, tags=(), jvm=["-Xmx4g"])
        states += r.distinct
        if r.violated:
            ls = re.findall(r"/\\ l = (\d+)", r.out)
            vs = re.findall(r"/\\ viol = (\{[^}]*\})", r.out, re.S)
            k = int(ls[-1]) - 1 if ls else 1      # the step that produced the bad state consumed line l-1
            names = "+".join(sorted(re.findall(r'"([^"]+)"', vs[-1]))) if vs else "unknown"
            what = r.violated if r.violated == "Agreement" else names
            pos = 0
            for j, s in enumerate(remaining):
                if pos < k <= pos + len(s):
                    bad.append((s, k - pos, what))
                    remaining = remaining[j + 1:]
                    break
                pos += len(s)
            else:
                raise vlib.Inconclusive("TRACE", "cannot locate line %d" % k)
            continue
        if r.error or not r.ok:
            raise vlib.Inconclusive("TLC-ERROR", (r.error or r.out[-1500:]))
        remaining = []
    if remaining:
        raise vlib.Inconclusive("TRACE", "too many rejected scenarios")
    return bad, len(scens), states


def run(ctx):
    binary = vlib.go_build("consensus", ctx)
    case = ctx.replay_case()
    if case:
        bad, n, states = validate(ctx, case["scenario"])
        ctx.cov.update({"states": states or 1, "transitions": states or 1, "traces_validated_against_impl": 1})
        ctx.sample(case["scenario"][:2])
        for s, k, what in bad:
            ctx.violation("C31:replayed-trace:" + str(what), "recorded trace violates %s at line %d" % (what, k), case)
        return
    # (M) the guards are sufficient for Agreement on the bounded model; too much Byzantine power breaks it (non-vacuity)
    cfgs = [("Consensus_q.cfg", "3 honest + 1 byzantine (equal power), rounds 0..1")]
    if ctx.tier == "thorough":
        cfgs += [("Consensus_u.cfg", "4 honest + 1 byzantine, unequal powers, rounds 0..1"), ("Consensus_t.cfg", "3 honest + 1 byzantine, rounds 0..2")]
    for cfg, label in cfgs:
        r = vlib.run_tlc(ctx, "MCConsensus", cfg, timeout=7200)
        vlib.require_model_ok(r, cfg)
        ctx.add_tlc(r, label)
    rb = vlib.run_tlc(ctx, "MCConsensus", "Consensus_bad.cfg", timeout=900, workers=4, jvm=["-Xmx3g"])
    if rb.violated != "Agreement":
        raise vlib.Inconclusive("VACUOUS", "Agreement does not fail with >= 1/3 byzantine power: the model does not exercise it")
    # (V) real nodes
    n = 12 if ctx.tier == "quick" else 120
    out = os.path.join(ctx.scratch_dir("rec"), "consensus_trace.ndjson")
    res = vlib.run_driver(ctx, binary, ["-out", out, "-n", str(n)], timeout=3000)
    s = vlib.handle_driver_results(ctx, res)
    noprog = [x for x in res if x.get("kind") == "noprogress"]
    lines = [json.loads(l) for l in open(out) if l.strip()]
    if not s.get("locks_carried_to_later_round"):
        raise vlib.Inconclusive("VACUOUS", "no scenario carried a lock into a later round")
    bad, nscen, states = validate(ctx, lines)
    ctx.cov["trace_states"] = states
    ctx.cov["impl_steps"] = int(s.get("steps", 0))
    ctx.cov["heights_committed"] = int(s.get("heights", 0))
    ctx.cov["directed_lock_splits"] = int(s.get("directed_lock_splits", 0))
    ctx.cov["locks_carried_to_later_round"] = int(s.get("locks_carried_to_later_round", 0))
    if s.get("node_panics"):
        ctx.notes.append("%d node panics recorded (halted nodes)" % s["node_panics"])
        pl = [x for x in lines if x.get("act") == "Panic" and x.get("honest")]
        if pl:
            ctx.violation("C31:honest-node-panicked:" + pl[0].get("where", "")[:80], "an honest node panicked inside a consensus step: %s" % json.dumps(pl[0])[:400], {"panic": pl[0]})
    ctx.add("traces_validated_against_impl", nscen)
    for scen, k, what in bad:
        ev = scen[k - 1] if 0 < k <= len(scen) else {}
        ctx.violation("C31:%s" % what, "node %s at line %d of the scenario: %s; event %s" % (ev.get("node"), k, what, json.dumps(ev)[:500]),
                      {"scenario": scen, "failed_at": k})
    if noprog:
        # bounded progress after GST: reproduce once with the same seed before reporting
        res2 = vlib.run_driver(ctx, binary, ["-out", out + ".2", "-n", str(n)], timeout=3000)
        again = [x for x in res2 if x.get("kind") == "noprogress"]
        if again and {x["scenario"] for x in again} & {x["scenario"] for x in noprog}:
            ctx.violation("C31:no-progress-after-GST", "honest nodes did not commit two further heights after all messages were delivered: %s" % noprog[:2], {"noprogress": noprog})
        else:
            ctx.notes.append("FLAKY: a no-progress report did not reproduce")
    for x in lines[1:4]:
        ctx.sample(x, limit=5)
    ctx.assumptions += ["4 validators (3-4 honest real ConsensusState objects; the Byzantine one is played by two twin instances with the same key, crafted votes and false +2/3 claims); kvstore application; MockPV (no double-sign protection, so the consensus logic itself is what is held to the guards)",
                        "schedules are sampled (seeded), not enumerated; exhaustiveness is on the model side",
                        "liveness is checked as bounded progress after the scheduler starts delivering everything"]
