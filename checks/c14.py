"""C14 — Coin supply is conserved and balance / account records stay well-formed.
spec/Bank.tla model-checked (M); one behaviour per edge of the bounded graph and simulated
behaviours replayed on the REAL bank keeper with a raw dump of both balance tiers, the supply
counters, the account objects and the repository's own invariants after every step (R);
histories of the REAL gno.land application validated against spec/BankTrace.tla (V)."""
import json, os, threading, time, vlib, tracelib
LEVEL = "model_checking"
PID = "C14"

NEED_CLASSES = ["AnteTx/ok", "AnteTx/funds", "AnteTx:collector-cosigner", "AnteTx:collector-first", "AnteTx:others", "SendCoins/ok", "SendCoins/insufficient", "SendCoins/vesting", "SendCoins/restricted",
                "SendCoinsUnrestricted/ok", "SendCoinsUnrestricted/insufficient", "DeductFee/ok", "DeductFee/funds",
                "InputOutputCoins/ok", "InputOutputCoins/insufficient", "InputOutputCoins/mismatch",
                "MultiSend:outputs-carry-a-denomination-no-input-carries", "MultiSend:inputs-carry-a-denomination-no-output-carries",
                "MultiSend:same-denominations-unequal-amounts", "MultiSend:balanced", "MintCoins/ok", "BurnCoins/ok",
                "BurnCoins/vesting", "AddCoins/ok", "SubtractCoins/ok", "SetCoins/ok", "RecomputeSupply/ok", "Time/ok"]
NEED_SCALED = ["MintCoins/range", "AddCoins/panic", "SendCoins/panic"]
NEED_THOROUGH = ["BurnCoins/range"]


JVM = ["-XX:ActiveProcessorCount=4", "-XX:TieredStopAtLevel=1"]   # short runs: C1 only, few GC threads (shared machine)


def validate(ctx, module, cfg, fname, lines, timeout=900):
    """tracelib.validate with this check's JVM options. Returns (accepted, failing line 1-based or None, TLCResult)."""
    import re
    d = ctx.scratch_dir("trace")
    path = os.path.join(d, fname)
    tracelib.write_ndjson(path, lines)
    r = vlib.run_tlc(ctx, module, cfg, workers=1, timeout=timeout, extra_files=[path], deadlock=True, tags=(), jvm=["-Xmx3g"] + JVM)
    m = re.search(r'<<"REJECTED-AT", (\d+)>>', r.out)
    if m:
        return False, int(m.group(1)), r
    if r.violated and "Accepted" not in str(r.violated):
        ls = re.findall(r"/\\ l = (\d+)", r.out)
        return False, (int(ls[-1]) if ls else None), r
    if r.error:
        raise vlib.Inconclusive("TLC-ERROR", "%s %s: %s" % (module, cfg, r.error))
    if not r.ok:
        raise vlib.Inconclusive("TLC-ERROR", "%s %s: %s" % (module, cfg, r.out[-1500:]))
    return True, None, r


def par(ctx, jobs):
    """Run independent jobs (TLC run + driver run each) in threads; everything that touches ctx's
    evidence / verdict state is done afterwards on the calling thread, in job order."""
    lock = threading.Lock()
    orig = ctx.scratch_dir

    def locked(name):
        with lock:
            return orig(name)
    ctx.scratch_dir = locked
    out, errs, walls = {}, {}, {}

    def runner(name, fn):
        t0 = time.time()
        try:
            out[name] = fn()
        except BaseException as e:      # re-raised below, on the main thread
            errs[name] = e
        walls[name] = round(time.time() - t0, 1)
    ths = [threading.Thread(target=runner, args=j) for j in jobs]
    for t in ths:
        t.start()
    for t in ths:
        t.join()
    ctx.scratch_dir = orig
    ctx.cov["job_wall_s"] = walls
    for name, _ in jobs:
        if name in errs:
            raise errs[name]
    return out


def edges_job(ctx, binary, cfg, scaled):
    r = vlib.run_tlc(ctx, "MCBank", cfg, tags=("EDGE",), timeout=2400, workers=4, jvm=JVM)
    vlib.require_model_ok(r, cfg)
    behs = vlib.dedup_prefix(r.traces)
    res = vlib.run_driver(ctx, binary, ["-mode", "replay", "-x", "scale=60" if scaled else "scale=1"], behaviours=behs, timeout=3000)
    return r, behs, res, len(r.traces)


def sim_job(ctx, binary, cfg, scaled, n):
    r = vlib.run_tlc(ctx, "MCBank", cfg, mode="simulate", simulate=n, depth=14, tags=("TRACE",), timeout=1800, jvm=["-XX:ActiveProcessorCount=2", "-XX:TieredStopAtLevel=1"])
    vlib.require_model_ok(r, cfg)
    res = vlib.run_driver(ctx, binary, ["-mode", "replay", "-x", "scale=60" if scaled else "scale=1"], behaviours=r.traces, timeout=3000)
    return r, r.traces, res, 0


def model_job(ctx, cfg):
    r = vlib.run_tlc(ctx, "MCBank", cfg, timeout=2400, workers=4, jvm=JVM)
    vlib.require_model_ok(r, cfg)
    return r


def account(ctx, label, job, cls, sim):
    """Main-thread part of an edges / simulation job: evidence, reply classes, verdicts."""
    r, behs, res, nedges = job
    ctx.add_tlc(r, label)
    if nedges:
        ctx.add("edges_emitted", nedges)
    for b in behs:
        for k in (range(1, len(b)) if sim else (len(b) - 1,)):
            x = b[k]
            key = "%s/%s" % (x.get("act"), x.get("reply"))
            cls[key] = cls.get(key, 0) + 1
            if x.get("act") == "InputOutputCoins":
                tin = {d: sum(i["amt"][d] for i in x["ins"]) for d in ("u", "t")}
                tout = {d: sum(o["amt"][d] for o in x["outs"]) for d in ("u", "t")}
                if any(tout[d] > 0 and tin[d] == 0 for d in tin):
                    io = "outputs-carry-a-denomination-no-input-carries"
                elif any(tin[d] > 0 and tout[d] == 0 for d in tin):
                    io = "inputs-carry-a-denomination-no-output-carries"
                elif tin != tout:
                    io = "same-denominations-unequal-amounts"
                else:
                    io = "balanced"
                cls["MultiSend:" + io] = cls.get("MultiSend:" + io, 0) + 1
            if x.get("act") == "AnteTx" and x.get("reply") == "ok":
                sg = x.get("signers", [])
                who = "collector-cosigner" if "coll" in sg[1:] else "collector-first" if sg[0] == "coll" else "others"
                cls["AnteTx:" + who] = cls.get("AnteTx:" + who, 0) + 1
    s = vlib.handle_driver_results(ctx, res)
    if s.get("flaky"):
        raise vlib.Inconclusive("FLAKY", "%s: %d behaviours failed once and passed on a fresh keeper" % (label, s["flaky"]))
    ctx.add("traces_validated_against_impl", int(s.get("replays", 0)))
    ctx.add("impl_steps", int(s.get("steps", 0)))
    ctx.log("%s: %d behaviours replayed on the real keeper, %d ok" % (label, len(behs), s.get("replays_ok", 0)))


def app_record(ctx, binary, blocks):
    out = os.path.join(ctx.scratch_dir("rec"), "bank_trace.ndjson")
    res = vlib.run_driver(ctx, binary, ["-mode", "record", "-out", out, "-n", str(blocks)], timeout=3000)
    lines = [json.loads(l) for l in open(out) if l.strip()]
    return res, lines


def app_validation(ctx, res, lines):
    s = vlib.handle_driver_results(ctx, res)
    ctx.cov["app_outcomes"] = {k[2:]: v for k, v in s.items() if k.startswith("n_")}
    need = ["n_ok", "n_fail:funds", "n_deposit-lock", "n_deposit-refund", "n_collector-first-signer", "n_collector-cosigner"]
    if ctx.tier != "quick":
        need.append("n_fail:std.VestingLockedCoinsError")
    missing = [k for k in need if not s.get(k)]
    if missing:
        raise vlib.Inconclusive("VACUOUS", "recorded application run never produced %s" % missing)
    ok, k, r = validate(ctx, "BankTrace", "BankTrace.cfg", "bank_trace.ndjson", lines, timeout=1800)
    ctx.add("trace_states", r.distinct)
    ctx.add("app_txs_validated", int(s.get("n_tx", 0)))
    if not ok:
        if k is None:
            raise vlib.Inconclusive("TRACE", "rejected without position:\n" + r.out[-2000:])
        bad = lines[k - 1] if 0 < k <= len(lines) else {}
        # the lines of the block that could not be explained
        a = k - 1
        while a > 0 and lines[a - 1].get("act") == "Tx":
            a -= 1
        blk = lines[a:k]
        what = "an invariant of Bank.tla fails in the recorded state" if r.violated and "Accepted" not in str(r.violated) else \
               "the recorded %s is not explained by the bank operators" % bad.get("act", "?")
        kinds = sorted({(m.get("fn") or m.get("kind")) for x in blk if x.get("act") == "Tx" for m in x.get("msgs", [])})
        key = "%s:app:%s:%s" % (PID, bad.get("act", "?"), "+".join(kinds))
        if any(x.get("act") == "Tx" and x.get("ante") and "coll" in x.get("signers", [])[1:] for x in blk):
            # a signer of the block's transaction is the fee collector at position >= 1: the ante handler wrote a stale copy back
            key = "%s:ante:collector-cosigner:fee-destroyed" % PID
        ctx.violation(key,
                      "%s at line %d of the application trace (violated: %s)" % (what, k, r.violated),
                      {"trace": lines[:k], "failed_at": k})
    else:
        ctx.add("traces_validated_against_impl", 1)
        ctx.log("application trace: %d lines (%d txs) accepted by BankTrace" % (len(lines), s.get("n_tx", 0)))
    for x in lines[1:3]:
        ctx.sample(x, limit=6)


def run(ctx):
    binary = vlib.go_build("bank", ctx)
    case = ctx.replay_case()
    if case:
        if "trace" in case:
            ok, k, r = validate(ctx, "BankTrace", "BankTrace.cfg", "bank_trace.ndjson", case["trace"])
            ctx.cov.update({"states": r.distinct or 1, "transitions": r.generated or 1, "traces_validated_against_impl": 1})
            ctx.sample(case["trace"][:2])
            if not ok:
                ctx.violation("%s:replayed-trace-rejected" % PID, "recorded trace rejected at line %s" % k, case)
            return
        res = vlib.run_driver(ctx, binary, ["-mode", "replay", "-x", "scale=60" if case.get("scale", 1) != 1 else "scale=1"], behaviours=[case["steps"]])
        vlib.handle_driver_results(ctx, res)
        ctx.cov.update({"states": 1, "transitions": 1, "traces_validated_against_impl": 1})
        ctx.sample(case["steps"][-1])
        return
    quick = ctx.tier == "quick"
    cls, cls_s = {}, {}
    jobs = [("app", lambda: app_record(ctx, binary, 40 if quick else 600))]
    plain = ("Bank_qe.cfg",) if quick else ("Bank_te.cfg", "Bank_te3.cfg")
    scaled = "Bank_qse.cfg" if quick else "Bank_tse.cfg"
    # (M)+(R) exhaustive with all invariants and action properties AND one behaviour per edge, plain and scaled embedding
    for cfg in plain:
        jobs.append((cfg, lambda cfg=cfg: edges_job(ctx, binary, cfg, False)))
    jobs.append((scaled, lambda: edges_job(ctx, binary, scaled, True)))
    # (R) simulation: 4 addresses, histories of 11 calls
    jobs.append(("Bank_sim.cfg", lambda: sim_job(ctx, binary, "Bank_sim.cfg", False, 150 if quick else 4000)))
    jobs.append(("Bank_sims.cfg", lambda: sim_job(ctx, binary, "Bank_sims.cfg", True, 100 if quick else 3000)))
    if not quick:
        # (M) exhaustive, all invariants and action properties, one more step than the edge configurations
        jobs.append(("Bank_t.cfg", lambda: model_job(ctx, "Bank_t.cfg")))
    out = par(ctx, jobs)
    if not quick:
        ctx.add_tlc(out["Bank_t.cfg"], "exhaustive, invariants + action properties, Bank_t.cfg")
    for cfg in plain:
        account(ctx, "exhaustive + one behaviour per edge, " + cfg, out[cfg], cls, False)
    account(ctx, "exhaustive + one behaviour per edge (scaled), " + scaled, out[scaled], cls_s, False)
    account(ctx, "simulate Bank_sim.cfg", out["Bank_sim.cfg"], cls, True)
    account(ctx, "simulate (scaled) Bank_sims.cfg", out["Bank_sims.cfg"], cls_s, True)
    missing = [k for k in NEED_CLASSES if not cls.get(k)] + [k for k in NEED_SCALED if not cls_s.get(k)]
    if not quick:
        missing += [k for k in NEED_THOROUGH if not cls.get(k)]
    if missing:
        raise vlib.Inconclusive("VACUOUS", "reply classes never generated: %s" % missing)
    ctx.cov["reply_classes"] = dict(sorted({**cls, **{"scaled:" + k: v for k, v in cls_s.items()}}.items()))
    # (V) the real application
    app_validation(ctx, *out["app"])
    ctx.cov["exhaustive"] = True
    ctx.assumptions += [
        "amounts are embedded as v*2^60 in the scaled configurations (a+b leaves 0..7 iff the int64 sum overflows); vesting in those configurations is delayed-only so that the embedding commutes with the schedule",
        "a panic inside a keeper call is a transaction abort (the driver discards the call's cache layer, as runTx does); an error return is NOT rolled back by the driver except for InputOutputCoins, which is atomic only behind the bank handler",
        "application side: gas is generous (no out-of-gas outcomes), the storage deposit of a call is read from the deposit address (input), ante acceptance is an input (C15); bank.MsgMultiSend is not registered with amino and cannot be delivered in a transaction, so multi-send is covered at keeper level only",
    ]
