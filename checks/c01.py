"""C01 — Chain replay is deterministic across runs, restarts, caches and back ends.
One seeded history (deployments, realm calls persisting objects, cross-realm calls, MsgRun
scripts iterating maps, sends, failing txs) is executed by separate processes of
harness/cmd/history under different variants; spec/ReplayPair.tla is the statement every
(reference, variant) pair of blocks must satisfy."""
import json, os, re, subprocess, concurrent.futures as cf, vlib, tracelib
LEVEL = "exploration"


def _proc(ctx, binary, seed, nblocks, x, gomaxprocs, tag):
    out = os.path.join(ctx.scratch_dir("hist"), "h.ndjson")
    env = dict(os.environ)
    env.update({"VERIF_SEED": str(seed), "VERIF_TIER": ctx.tier, "TMPDIR": ctx.scratch, "GOMAXPROCS": str(gomaxprocs)})
    p = subprocess.run([binary, "-out", out, "-n", str(nblocks), "-x", x], env=env, capture_output=True, text=True, timeout=1200)
    if p.returncode != 0:
        raise vlib.Inconclusive("DRIVER-DIED", "history %s: %s" % (tag, p.stderr[-2000:]))
    summ = {}
    for line in p.stdout.splitlines():
        if line.startswith("{"):
            summ = json.loads(line)
    return [json.loads(l) for l in open(out) if l.strip()], summ


def run_variant(ctx, binary, seed, nblocks, db, restart, gomaxprocs, tag, split=0):
    """split > 0: a TRUE restart — blocks [0,split) run in one process, the rest in a second process that opens the
    same on-disk DB, so every process-global cache (amino/type caches, compiled stdlibs) is cold."""
    if not split:
        return _proc(ctx, binary, seed, nblocks, "db=%s;restart=%d" % (db, restart), gomaxprocs, tag)
    d = ctx.scratch_dir("splitdb")
    a, sa = _proc(ctx, binary, seed, nblocks, "db=%s;dir=%s;to=%d" % (db, d, split), gomaxprocs, tag + "/1")
    b, sb = _proc(ctx, binary, seed, nblocks, "db=%s;dir=%s;from=%d;restart=%d" % (db, d, split, restart), gomaxprocs, tag + "/2")
    return a + b, {"tx_ok": sa.get("tx_ok", 0) + sb.get("tx_ok", 0), "tx_fail": sa.get("tx_fail", 0) + sb.get("tx_fail", 0)}


def run(ctx):
    binary = vlib.go_build("history", ctx)
    nblocks = 8 if ctx.tier == "quick" else 10
    allmask = (1 << nblocks) - 1
    if ctx.tier == "quick":
        seeds = [ctx.seed]
        variants = [("memdb", allmask, 1, 0), ("goleveldb", 0b101010, 16, 0), ("pebbledb", 0b010101, 16, 0), ("boltdb", allmask, 2, 0), ("memdb", 0, 16, 0),
                    ("goleveldb", 0, 16, 3), ("pebbledb", 0, 4, 5)]
    else:
        seeds = [ctx.seed * 7 + k for k in range(3)]
        variants = []
        for db in ("memdb", "goleveldb", "pebbledb", "boltdb"):
            for mask in (0, allmask, 0b10101010, 0b01010101, 0b00011000, 1 << (nblocks - 1)):
                for gmp in (1, 16):
                    variants.append((db, mask & allmask, gmp, 0))
        for db in ("goleveldb", "pebbledb", "boltdb"):
            for split in range(1, nblocks):
                variants.append((db, 0, 16, split))
    pairs, evals, restarts = [], 0, 0
    tx_ok = tx_fail = 0
    for seed in seeds:
        with cf.ThreadPoolExecutor(max_workers=6) as ex:
            ref_f = ex.submit(run_variant, ctx, binary, seed, nblocks, "memdb", 0, 16, "ref")
            futs = [(v, ex.submit(run_variant, ctx, binary, seed, nblocks, v[0], v[1], v[2], str(v), v[3])) for v in variants]
            ref, rs = ref_f.result()
            tx_ok += rs.get("tx_ok", 0)
            tx_fail += rs.get("tx_fail", 0)
            for v, fu in futs:
                lines, _ = fu.result()
                evals += 1
                restarts += bin(v[1]).count("1")
                if len(lines) != len(ref):
                    ctx.violation("C01:block-count-differs:%s" % v[0], "variant %s produced %d blocks, reference %d" % (v, len(lines), len(ref)), {"seed": seed, "variant": v})
                    continue
                for a, b in zip(ref, lines):
                    pairs.append({"a": a, "b": b, "variant": {"db": v[0], "restart": v[1], "gomaxprocs": v[2], "process_split_at": v[3]}, "seed": seed})
    if tx_ok == 0 or tx_fail == 0:
        raise vlib.Inconclusive("VACUOUS", "history without both successful and failed transactions (ok=%d fail=%d)" % (tx_ok, tx_fail))
    # TLC evaluates the statement on every pair; a violated invariant names the clause and the pair
    remaining = pairs
    guard = 0
    while remaining and guard < 10:
        guard += 1
        d = ctx.scratch_dir("pairs")
        path = os.path.join(d, "pairs.ndjson")
        tracelib.write_ndjson(path, remaining)
        r = vlib.run_tlc(ctx, "ReplayPair", "ReplayPair.cfg", workers=1, timeout=900, extra_files=[path], deadlock=True, tags=(), jvm=["-Xmx3g"])
        if r.violated:
            ls = re.findall(r"l = (\d+)", r.out)
            k = int(ls[-1]) if ls else 1
            bad = remaining[k - 1]
            v = bad["variant"]
            kind = "process-restart" if v.get("process_split_at") else ("restart" if v["restart"] else ("backend" if v["db"] != "memdb" else "rerun"))
            ctx.violation("C01:%s:%s" % (r.violated, kind), "block h=%s differs between the reference run and variant %s (seed %s): %s" % (bad["a"].get("h"), v, bad["seed"], r.violated), bad)
            # drop every pair of that variant+seed and continue with the rest
            remaining = [p for p in remaining[k:] if not (p["variant"] == v and p["seed"] == bad["seed"])]
            continue
        if r.error:
            raise vlib.Inconclusive("TLC-ERROR", r.error)
        break
    ctx.cov.update({"evaluations": evals + len(seeds), "distinct_nontrivial": evals,
                    "rule": "one evaluation = one full run of a seeded history (%d blocks, 1-4 txs each: package deployments, realm calls persisting linked objects and maps, cross-realm calls, MsgRun scripts iterating maps and emitting events, sends, failing and partially failing txs) in its own process under one variant (db back end x restart mask x GOMAXPROCS x process split: the history continued by a second process on the same on-disk DB); distinct_nontrivial = variant runs (all differ from the reference in at least one of back end / restarts / GOMAXPROCS / process map seed) compared block by block" % nblocks,
                    "pairs_checked": len(pairs), "restarts_exercised": restarts, "tx_ok": tx_ok, "tx_fail": tx_fail, "histories": len(seeds)})
    for p in pairs[:2]:
        ctx.sample({"variant": p["variant"], "h": p["a"]["h"], "apphash": p["a"]["apphash"], "txs": [{k: t[k] for k in ("ok", "cls", "used")} for t in p["a"]["txs"]]})
    ctx.assumptions += ["scheduling nondeterminism inside one process is exercised only through GOMAXPROCS and repeated processes, not enumerated",
                        "cgo back ends (lmdb, mdbx) not included"]
