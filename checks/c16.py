"""C16 — Session keys cannot exceed their spend limit or allowed actions.
spec/Session.tla model-checked (M); one behaviour per edge of the bounded graph and simulated
longer histories replayed on the REAL gno.land application (R): real session keys, the ante
pre-check, fee deduction, the bank SendCoins hook, realm calls with attached coins, storage
deposit lock / refund, failing messages after partial spend, period resets, expiry, revocation,
AllowPaths. The master's balance is compared after every block; the spec's ghost `out`
(accumulated from those balances only) must stay within the session's limit."""
import random, threading, vlib
LEVEL = "model_checking"
PID = "C16"
JVM = ["-XX:ActiveProcessorCount=4", "-XX:TieredStopAtLevel=1"]   # short runs on a shared machine
JVM1 = ["-XX:ActiveProcessorCount=2", "-XX:TieredStopAtLevel=1"]

NEED = ["session-ok", "session-fail-fee-kept", "reject-over-declared-limit", "reject-expired", "reject-revoked-or-absent",
        "reject-not-allowed", "reject-auth-message", "fail-deposit-over-limit", "refund-in-session-tx", "period-reset",
        "second-session-independent", "master-tx", "mixed:ordinary-signed-message-before-violating-session-message",
        "mixed:violating-session-message-first", "mixed:ordinary-then-always-denied-auth-message", "mixed:ok-ordinary-first", "mixed:ok-session-first", "mixed:fail-fee-kept", "create-ok", "create-duplicate", "revoke-ok", "revokeall", "time"]


def classes(beh, acc):
    """classify every step of a behaviour (needs the state before the step)"""
    prev = beh[0]["st"]
    allow = {s: c.get("allow") for s, c in beh[0]["pre"].items()}
    for step in beh[1:]:
        act, reply, st = step["act"], step["reply"], step["st"]
        ks = set()
        if act == "SessionTx":
            s = step["s"]
            before = prev["sess"][s]
            kinds = [m["k"] for m in step["msgs"]]
            if reply == "ok":
                ks.add("session-ok")
                if "shrink" in kinds:
                    ks.add("refund-in-session-tx")
                if s == "s2":
                    ks.add("second-session-independent")
            elif reply == "fail":
                if st["mbal"] < prev["mbal"]:
                    ks.add("session-fail-fee-kept")
                if "grow" in kinds:
                    ks.add("fail-deposit-over-limit")
            else:
                if not before["exists"]:
                    ks.add("reject-revoked-or-absent")
                elif before["expires"] > 0 and step["now"] >= before["expires"]:
                    ks.add("reject-expired")
                elif "revoke" in kinds:
                    ks.add("reject-auth-message")
                elif allow.get(s) not in ("*", None) :
                    ks.add("reject-not-allowed")
                else:
                    ks.add("reject-over-declared-limit")
            if st["sess"][s]["exists"] and before["exists"] and st["sess"][s]["reset"] > before["reset"]:
                ks.add("period-reset")
        elif act == "MixedTx":
            sname = step["s"]
            kinds = [m["k"] for m in step["msgs"]]
            al = allow.get(sname)
            ok_kinds = {"*": None, "send": {"send"}, "exec": {"pay", "paypanic", "grow", "shrink", "give"}, "execother": {"other"}}.get(al)
            bad = [i for i, k in enumerate(kinds) if k != "osend" and (k == "revoke" or (ok_kinds is not None and k not in ok_kinds))]
            alive = prev["sess"][sname]["exists"] and not (prev["sess"][sname]["expires"] > 0 and step["now"] >= prev["sess"][sname]["expires"])
            if bad and alive:
                # a session-signed message that violates the session's restrictions ...
                if any(kinds[j] == "osend" for j in range(bad[0])):
                    ks.add("mixed:ordinary-signed-message-before-violating-session-message")   # ... after a message of an ordinary signer
                else:
                    ks.add("mixed:violating-session-message-first")
                if "revoke" in [kinds[i] for i in bad] and kinds[0] == "osend":
                    ks.add("mixed:ordinary-then-always-denied-auth-message")
            elif reply == "ok":
                ks.add("mixed:ok-ordinary-first" if kinds[0] == "osend" else "mixed:ok-session-first")
            elif reply == "fail":
                ks.add("mixed:fail-fee-kept")
            elif alive:
                ks.add("mixed:reject-over-limit-or-funds")
        elif act == "MasterTx":
            ks.add("master-tx")
        elif act == "CreateSession":
            ks.add("create-ok" if reply == "ok" else "create-duplicate")
            if reply == "ok":
                allow[step["s"]] = step["c"]["allow"]
        elif act == "Revoke":
            ks.add("revoke-ok" if reply == "ok" else "revoke-absent")
        elif act == "RevokeAll":
            ks.add("revokeall")
        elif act == "AdvanceTime":
            ks.add("time")
        for k in ks:
            acc[k] = acc.get(k, 0) + 1
        prev = st


def run(ctx):
    binary = vlib.go_build("session", ctx)
    case = ctx.replay_case()
    if case:
        res = vlib.run_driver(ctx, binary, [], behaviours=[case["steps"]], timeout=1200)
        vlib.handle_driver_results(ctx, res)
        ctx.cov.update({"states": 1, "transitions": 1, "traces_validated_against_impl": 1})
        ctx.sample(case["steps"][-1])
        return
    quick = ctx.tier == "quick"
    jobs = {"e": ("Session_qe.cfg" if quick else "Session_te.cfg", "check", None)}
    if not quick:
        jobs["eb"] = ("Session_teb.cfg", "check", None)
        jobs["e4"] = ("Session_t4e.cfg", "check", None)      # 3 steps after setup: exhaustive in the model, sampled for replay
    jobs["s1"] = ("Session_sim.cfg", "simulate", 40 if quick else 1000)
    jobs["s2"] = ("Session_simb.cfg", "simulate", 40 if quick else 1000)
    out, errs = {}, {}
    lock = threading.Lock()
    orig = ctx.scratch_dir

    def locked(name):
        with lock:
            return orig(name)
    ctx.scratch_dir = locked

    def tlc(name, cfg, mode, n):
        try:
            if mode == "check":
                out[name] = vlib.run_tlc(ctx, "MCSession", cfg, tags=("EDGE",), timeout=3000, workers=4, jvm=JVM)
            else:
                out[name] = vlib.run_tlc(ctx, "MCSession", cfg, mode="simulate", simulate=n, depth=12, tags=("TRACE",), timeout=1800, jvm=JVM1)
        except BaseException as e:
            errs[name] = e
    ths = [threading.Thread(target=tlc, args=(k,) + v) for k, v in jobs.items()]
    for t in ths:
        t.start()
    for t in ths:
        t.join()
    ctx.scratch_dir = orig
    for k in jobs:
        if k in errs:
            raise errs[k]
        vlib.require_model_ok(out[k], jobs[k][0])
        ctx.add_tlc(out[k], ("exhaustive (WithinLimit, UsedCovers, DeadAuthorizesNothing, RejectIsFree, Independent)" if jobs[k][1] == "check" else "simulate") + " " + jobs[k][0])
    edges = []
    for k in ("e", "eb"):
        if k in out:
            edges += vlib.dedup_prefix(out[k].traces)
    if "e4" in out:
        deep = [b for b in vlib.dedup_prefix(out["e4"].traces) if len(b) == 4]
        random.Random(ctx.seed).shuffle(deep)
        edges += deep[:9000]
    ctx.cov["edges_emitted"] = sum(len(out[k].traces) for k in ("e", "eb", "e4") if k in out)
    sims = out["s1"].traces + out["s2"].traces
    if quick:
        # a few behaviours of every (action, message kinds, reply) class and a seeded sample of the rest
        rng = random.Random(ctx.seed)
        rng.shuffle(edges)
        per, first, later = {}, [], []
        for b in edges:
            s = b[-1]
            k = (s["act"], s.get("s"), s.get("fee"), tuple(m["k"] for m in s.get("msgs", [])), s["reply"])
            per[k] = per.get(k, 0) + 1
            (first if per[k] <= 1 else later).append(b)
        edges = first + later[:max(0, 320 - len(first))]
        # every required step class that the edge graph offers is represented in the sample
        have = {}
        for b in edges + sims:
            classes(b, have)
        for need in NEED:
            if have.get(need):
                continue
            for b in later:
                one = {}
                classes(b, one)
                if one.get(need):
                    edges.append(b)
                    classes(b, have)
                    break
    ctx.cov["edges_replayed"] = len(edges)
    seen = {}
    for b in edges + sims:
        classes(b, seen)
    missing = [k for k in NEED if not seen.get(k)]
    if missing:
        raise vlib.Inconclusive("VACUOUS", "step classes never generated: %s" % missing)
    ctx.cov["step_classes"] = dict(sorted(seen.items()))
    res = vlib.run_driver(ctx, binary, [], behaviours=edges + sims, timeout=6000)
    s = vlib.handle_driver_results(ctx, res)
    if s.get("flaky"):
        raise vlib.Inconclusive("FLAKY", "%d behaviours failed once and passed on a fresh application" % s["flaky"])
    ctx.add("traces_validated_against_impl", int(s.get("replays", 0)))
    ctx.add("impl_steps", int(s.get("steps", 0)))
    ctx.log("%d behaviours replayed on the real application (%d txs), %d ok" % (len(edges) + len(sims), s.get("steps", 0), s.get("replays_ok", 0)))
    ctx.cov["exhaustive"] = True
    ctx.assumptions += [
        "'within one spend period' is read with the code's documented period rule (a new period starts at the first counted spend at or after start + period); sliding windows are not claimed",
        "1 unit = 10 000 ugnot = 100 bytes of realm storage at the default storage price; the driver calibrates (and aborts as inconclusive otherwise) that growth and shrinkage of a realm object lock / refund exactly that",
        "every transaction pays a positive fee (a zero fee cannot be expressed on the wire); session transactions have the master as only signer or the master plus one ordinary account (two sessions of one master cannot co-sign: one signature per signer address); bank.MsgMultiSend cannot travel in a transaction; MsgRun is not generated",
        "quick tier replays a stratified seeded sample of the edges of the 2-step graph plus simulated 8-step histories; the thorough tier replays every edge of the 2-step graphs, a seeded sample of 9000 edges of the 3-step graph (model-checked exhaustively) and 2000 simulated histories",
    ]
