"""C35 — Vote sets track quorums exactly. spec/VoteSet.tla (M) + edge-coverage replay (R)
on the real types.VoteSet (prevote and precommit instances)."""
import vlib
LEVEL = "model_checking"

CFGS = {  # cfg -> (power, blocks)
    "VoteSet_q.cfg": ("1,1,2", "A,B,nil"),
    "VoteSet_t1.cfg": ("1,2,3,4", "A,B,nil"),
    "VoteSet_t2.cfg": ("1,1,1,1", "A,B"),
    "VoteSet_sim.cfg": ("1,2,3,4", "A,B,nil"),
}


def replay(ctx, binary, behs, cfg, label):
    power, blocks = CFGS[cfg]
    res = vlib.run_driver(ctx, binary, ["-x", "%s|%s" % (power, blocks)], behaviours=behs)
    s = vlib.handle_driver_results(ctx, res)
    ctx.add("traces_validated_against_impl", int(s.get("replays", 0)))
    ctx.add("impl_steps", int(s.get("steps", 0)))
    ctx.log("%s: %d behaviours replayed x2 vote types, %d ok" % (label, len(behs), s.get("replays_ok", 0)))


def run(ctx):
    binary = vlib.go_build("voteset", ctx)
    case = ctx.replay_case()
    if case:
        power = ",".join(str(x) for x in case["power"])
        blocks = "A,B,nil"
        res = vlib.run_driver(ctx, binary, ["-x", "%s|%s" % (power, blocks)], behaviours=[case["steps"]])
        vlib.handle_driver_results(ctx, res)
        ctx.cov.update({"states": 1, "transitions": 1, "traces_validated_against_impl": 1})
        ctx.sample(case["steps"])
        return
    # (M)+(R) exhaustive with edge emission: one behaviour per transition of the bounded graph
    ecfg = "VoteSet_qe4.cfg" if ctx.tier == "quick" else "VoteSet_qe.cfg"
    r = vlib.run_tlc(ctx, "MCVoteSet", ecfg, tags=("EDGE",), timeout=900)
    vlib.require_model_ok(r, ecfg)
    ctx.add_tlc(r, "exhaustive+edges P=(1,1,2) " + ecfg)
    ctx.log("edge emission done: %d edges" % len(r.traces))
    if ctx.tier == "quick":
        r2 = vlib.run_tlc(ctx, "MCVoteSet", "VoteSet_q.cfg", timeout=600)
        vlib.require_model_ok(r2, "VoteSet_q")
        ctx.add_tlc(r2, "exhaustive P=(1,1,2) len<=5")
    behs = vlib.dedup_prefix(r.traces)
    ctx.cov["edges_emitted"] = len(r.traces)
    replay(ctx, binary, behs, "VoteSet_q.cfg", "edges")
    # simulation with all vote classes, 4 validators with unequal powers, 2 peers
    n = 400 if ctx.tier == "quick" else 6000
    r = vlib.run_tlc(ctx, "MCVoteSet", "VoteSet_sim.cfg", mode="simulate", simulate=n, depth=14, tags=("TRACE",), timeout=900)
    vlib.require_model_ok(r, "VoteSet_sim")
    ctx.add_tlc(r, "simulate P=(1,2,3,4) all classes depth 12")
    replay(ctx, binary, r.traces, "VoteSet_sim.cfg", "simulation")
    if ctx.tier == "thorough":
        for cfg, label in (("VoteSet_t1.cfg", "exhaustive P=(1,2,3,4) len<=6"), ("VoteSet_t2.cfg", "exhaustive P=(1,1,1,1) len<=7")):
            r = vlib.run_tlc(ctx, "MCVoteSet", cfg, timeout=3000)
            vlib.require_model_ok(r, cfg)
            ctx.add_tlc(r, label)
    # second layer: HeightVoteSet (round tracking, per-peer catch-up rounds, POLInfo)
    hb = vlib.go_build("hvoteset", ctx)
    r = vlib.run_tlc(ctx, "MCHeightVoteSet", "HeightVoteSet_qe.cfg", tags=("EDGE",), timeout=1200)
    vlib.require_model_ok(r, "HeightVoteSet_qe")
    ctx.add_tlc(r, "HeightVoteSet exhaustive+edges 3 validators rounds 0..2 len<=3")
    s2 = vlib.handle_driver_results(ctx, vlib.run_driver(ctx, hb, ["-x", "3,2"], behaviours=vlib.dedup_prefix(r.traces)))
    ctx.add("traces_validated_against_impl", int(s2.get("replays", 0)))
    r = vlib.run_tlc(ctx, "MCHeightVoteSet", "HeightVoteSet_sim.cfg", mode="simulate", simulate=(300 if ctx.tier == "quick" else 5000), depth=14, tags=("TRACE",), timeout=900)
    vlib.require_model_ok(r, "HeightVoteSet_sim")
    ctx.add_tlc(r, "HeightVoteSet simulate 2 peers rounds 0..3 depth 12")
    s3 = vlib.handle_driver_results(ctx, vlib.run_driver(ctx, hb, ["-x", "3,3"], behaviours=r.traces))
    ctx.add("traces_validated_against_impl", int(s3.get("replays", 0)))
    ctx.log("HeightVoteSet: %d edge behaviours + %d simulated replayed" % (s2.get("replays", 0), s3.get("replays", 0)))
    if ctx.tier == "thorough":
        r = vlib.run_tlc(ctx, "MCHeightVoteSet", "HeightVoteSet_t.cfg", timeout=3000)
        vlib.require_model_ok(r, "HeightVoteSet_t")
        ctx.add_tlc(r, "HeightVoteSet exhaustive 2 peers rounds 0..3 len<=4")
    ctx.cov["exhaustive"] = True
    ctx.assumptions += ["ed25519 signatures of the test keys verify/fail as the primitive specifies (C44/C47 territory)",
                        "MakeCommit clause read as CommitCarriesMajority (see spec header, DESIGN C35)"]
