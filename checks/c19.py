"""C19 — Overflow-checked integer arithmetic is exact. spec/Overflow.tla (implementation layer =
line-by-line transcription of overflow.go over wrapping W-bit arithmetic; property layer = "ok iff
the mathematical result is representable, and then that result").
(M) Apalache decides the *Exact invariants symbolically for every operand pair at W = 8..64,
    signed and unsigned; TLC decides them explicitly on all 2^16 pairs at W = 8 (signed and unsigned).
(R) TLC emits the property layer as tables (one row per left operand); harness/cmd/overflow replays
    every entry on the real int8/uint8 instantiations (all eight functions) and, through exact
    embeddings, on every wider type; Apalache boundary witnesses (OverflowW.tla: one operand pair per
    branch outcome of each helper at W = 16/32/64, with the solver-computed required outcome) are
    replayed on the real wide instantiations (thorough tier).
(R) boundary sweep (OverflowB.tla, harness/cmd/overflow/sweep.go): for every built-in and named integer type,
    ~450 000 operand pairs derived from where the exact result crosses MIN/MAX (every magnitude 2^k +- e, square
    roots of the bounds, seeded random operands of every bit length, every pair of magnitude bands and signs),
    classified by OverflowB.ClassId. (V) Apalache validates the records (every disagreeing one + a seeded sample of
    class representatives) against OverflowB.Conforms before a disagreement becomes a VIOLATION; (G) Apalache decides
    that no operand pair lies in a class the sweep did not exercise (pairs of missed classes are replayed; hitting the
    enumeration limit is INCONCLUSIVE VACUOUS)."""
import json, os, shutil, subprocess, threading, time
from concurrent.futures import ThreadPoolExecutor
import vlib

LEVEL = "model_checking"
_lock = threading.Lock()
GUARD_MAX = 40      # the guard enumerates at most this many uncovered classes; reaching the limit = inconclusive


def _big(x):
    if isinstance(x, dict) and "#bigint" in x:
        return int(x["#bigint"])
    return x


def apalache(ctx, module, inv, cinit, init=None, nxt=None, view=None, max_error=None, timeout=900, extra=None):
    """One `apalache-mc check --length=0` run in its own scratch dir. extra = {module name: text} of
    generated modules. Returns dict(outcome in NoError|Error|Unknown, models=[{var: value}], wall, tail)."""
    d = ctx.scratch_dir("apa")
    for f in os.listdir(vlib.SPEC):
        if f.endswith(".tla"):
            shutil.copy(os.path.join(vlib.SPEC, f), d)
    for name, text in (extra or {}).items():
        with open(os.path.join(d, name + ".tla"), "w") as fo:
            fo.write(text)
    tmp = os.path.join(d, "tmp")
    os.makedirs(tmp)
    args = ["apalache-mc", "check", "--length=0", "--inv=" + inv,
            "--out-dir=" + os.path.join(d, "out"), "--run-dir=" + os.path.join(d, "run")]
    if cinit:
        args.append("--cinit=" + cinit)
    if init:
        args.append("--init=" + init)
    if nxt:
        args.append("--next=" + nxt)
    if view:
        args.append("--view=" + view)
    if max_error:
        args.append("--max-error=%d" % max_error)
    args.append(module + ".tla")
    env = dict(os.environ)
    env["TMPDIR"] = tmp
    env.setdefault("JVM_ARGS", "-Xmx2g -XX:TieredStopAtLevel=1")
    t0 = time.time()
    try:
        p = subprocess.run(args, cwd=d, env=env, capture_output=True, text=True, timeout=timeout)
    except subprocess.TimeoutExpired:
        return {"outcome": "Unknown", "models": [], "wall": time.time() - t0, "tail": "timeout after %ds" % timeout}
    out = p.stdout + p.stderr
    res = {"wall": round(time.time() - t0, 2), "tail": out[-1500:], "models": []}
    if "The outcome is: NoError" in out:
        res["outcome"] = "NoError"
    elif "The outcome is: Error" in out:
        res["outcome"] = "Error"
        rd = os.path.join(d, "run")
        for fn in sorted(os.listdir(rd)):
            if fn.startswith("violation") and fn.endswith(".itf.json") and fn != "violation.itf.json":
                st = json.load(open(os.path.join(rd, fn)))["states"][0]
                res["models"].append({k: _big(v) for k, v in st.items() if k != "#meta"})
    else:
        res["outcome"] = "Unknown"
    shutil.rmtree(d, ignore_errors=True)
    return res


def cname(w, signed):
    return "CInit%s%d" % ("S" if signed else "U", w)


def witness_steps(models, w, signed):
    behs = []
    for m in sorted(models, key=lambda m: m["cls"]):
        s = {"act": "Witness", "w": w, "signed": signed, "cls": m["cls"]}
        for k in ("a", "b", "rAdd", "rSub", "rMul", "rDiv"):
            s[k] = str(m[k])
        for k in ("okAdd", "okSub", "okMul", "okDiv"):
            s[k] = bool(m[k])
        behs.append([s])
    return behs


def tag(w, signed):
    return "%s%d" % ("S" if signed else "U", w)


def guard_module(w, signed, exercised):
    """(G) generated module: is there an operand pair (of any of the four operations) whose boundary class
    (OverflowB.ClassId) is not among the classes the sweep exercised on the real code? Every model carries the
    required outcome computed by the solver, so that it can be replayed."""
    return """---- MODULE OverflowG_%s ----
EXTENDS Integers
VARIABLES
  \\* @type: Int;
  a,
  \\* @type: Int;
  b,
  \\* @type: Int;
  op,
  \\* @type: Bool;
  gok,
  \\* @type: Int;
  gr,
  \\* @type: Int;
  gcls
INSTANCE OverflowB WITH W <- %d, Signed <- %s
Exercised == {%s}
InitG == /\\ Init /\\ op \\in 0..3
         /\\ gok = ReqOk(op, a, b) /\\ gr = Exact(op, a, b) /\\ gcls = ClassId(op, a, b)
NextG == UNCHANGED <<a, b, op, gok, gr, gcls>>
Covered == gcls \\in Exercised
ViewG == gcls
====
""" % (tag(w, signed), w, "TRUE" if signed else "FALSE", ", ".join(str(c) for c in sorted(exercised)))


def validation_module(name, recs):
    """(V) generated module: every recorded evaluation (operands, required ok / result and boundary class as the
    driver's exact-integer evaluator and classifier claim them) conforms to OverflowB.Conforms. Ground formulas:
    Apalache's constant folding evaluates the spec's definitions on the literals."""
    inst, conj = [], []
    for w, sg in sorted({(r["w"], r["signed"]) for r in recs}):
        inst.append("%s == INSTANCE OverflowB WITH W <- %d, Signed <- %s" % (tag(w, sg), w, "TRUE" if sg else "FALSE"))
    for r in recs:
        conj.append("  /\\ %s!Conforms(%d, %s, %s, %s, %s, %d)" % (tag(r["w"], r["signed"]), r["op"], r["a"], r["b"],
                                                               "TRUE" if r["ok"] else "FALSE", r["r"], r["cls"]))
    return """---- MODULE %s ----
EXTENDS Integers
VARIABLES
  \\* @type: Int;
  a,
  \\* @type: Int;
  b
%s
AllRecs ==
%s
InitV == a = 0 /\\ b = 0
NextV == UNCHANGED <<a, b>>
====
""" % (name, "\n".join(inst), "\n".join(conj))


def sweep(ctx, binary, nrand):
    """boundary-directed replay on every type; returns (summary, classes{(w,signed): {cls: n}}, candidates, records)."""
    out = os.path.join(ctx.scratch_dir("sweep"), "recs.ndjson")
    res = vlib.run_driver(ctx, binary, ["-mode", "sweep", "-n", str(nrand), "-out", out])
    classes, cands = {}, []
    for r in res:
        if r.get("kind") == "classes":
            classes[(r["w"], r["signed"])] = {int(k): v for k, v in r["counts"].items()}
            ctx.cov.setdefault("sweep_types", []).extend(r["types"])
        elif r.get("kind") == "candidate":
            cands.append(r)
    s = vlib.handle_driver_results(ctx, [r for r in res if r.get("kind") in ("summary", "sample")])
    recs = [json.loads(l) for l in open(out)]
    return s, classes, cands, recs


# classes of OverflowW.Class that have a model (signed: all; unsigned: those not needing negatives)
EXPECT_CLASSES = {True: set(range(1, 31)),
                  False: {1, 3, 5, 8, 10, 11, 14, 18, 19, 20, 21, 22, 24, 25, 27, 28, 30}}


def run(ctx):
    binary = vlib.go_build("overflow", ctx)
    case = ctx.replay_case()
    if case:
        res = vlib.run_driver(ctx, binary, ["-mode", "case", "-x", json.dumps(case)])
        vlib.handle_driver_results(ctx, res)
        ctx.cov.update({"states": 1, "transitions": 1, "traces_validated_against_impl": 1})
        ctx.sample(case)
        return
    quick = ctx.tier == "quick"
    _orig = ctx.scratch_dir

    def _locked(name):          # vlib's scratch_dir counter is not thread-safe; jobs below run in threads
        with _lock:
            return _orig(name)
    ctx.scratch_dir = _locked
    widths = (64,) if quick else (8, 16, 32, 64)
    # ---- (R) boundary sweep on the real helpers (all types, all widths): before the solver jobs, which need its classes
    sw, classes, cands, recs = sweep(ctx, binary, 1 if quick else 4)
    ctx.add("traces_validated_against_impl", int(sw.get("sweep_pairs", 0)))
    ctx.add("impl_evaluations", int(sw.get("evaluations", 0)))
    ctx.cov["sweep_pairs"] = int(sw.get("sweep_pairs", 0))
    ctx.cov["sweep_classes_exercised"] = {tag(w, sg): len(c) for (w, sg), c in sorted(classes.items())}
    ctx.cov["sweep_classes_with_fewer_than_3_pairs"] = {tag(w, sg): sum(1 for v in c.values() if v < 3) for (w, sg), c in sorted(classes.items())}
    ctx.cov["sweep_pairs_per_class_min_median"] = {tag(w, sg): [min(c.values()), sorted(c.values())[len(c) // 2]] for (w, sg), c in sorted(classes.items())}
    ctx.log("sweep: %d boundary-directed pairs on %d types, %d calls on real helpers, %d disagreeing calls, classes exercised %s" %
            (sw.get("sweep_pairs", 0), len(ctx.cov.get("sweep_types", [])), sw.get("evaluations", 0), sw.get("mismatches", 0),
             ctx.cov["sweep_classes_exercised"]))
    # records to validate against the spec: every record a real helper disagreed on + a seeded sample of class representatives
    import random
    rng = random.Random(ctx.seed)
    vrecs = [r for r in recs if r["mis"]]
    for key in sorted(classes):
        pool = [r for r in recs if (r["w"], r["signed"]) == key and not r["mis"]]
        vrecs += rng.sample(pool, min(len(pool), 3 if quick else 40))
    jobs = {}
    with ThreadPoolExecutor(max_workers=7 if quick else 8) as ex:
        # (V) the driver's evaluator / classifier against OverflowB.Conforms
        chunk = 40
        for i in range(0, len(vrecs), chunk):
            name = "OverflowV_%d" % (i // chunk)
            jobs[("val", i)] = ex.submit(apalache, ctx, name, "AllRecs", None, init="InitV", nxt="NextV", timeout=1500,
                                         extra={name: validation_module(name, vrecs[i:i + chunk])})
        # (G) vacuity guard: a pair of a class the sweep did not exercise?
        for w in widths:
            for sg in (True, False):
                name = "OverflowG_" + tag(w, sg)
                jobs[("guard", w, sg)] = ex.submit(apalache, ctx, name, "Covered", None, init="InitG", nxt="NextG", view="ViewG",
                                                   max_error=GUARD_MAX, timeout=1500,
                                                   extra={name: guard_module(w, sg, classes[(w, sg)])})
        # (M) explicit, W = 8: invariants on every pair + table emission
        for cfg in ("Overflow_s8.cfg", "Overflow_u8.cfg"):
            jobs[("tlc", cfg)] = ex.submit(vlib.run_tlc, ctx, "MCOverflow", cfg, tags=("ROW",), timeout=900, workers=4,
                                            jvm=["-Djava.io.tmpdir=" + ctx.scratch])
        # (M) symbolic: every operand pair at full width
        for w in widths:
            for sg in (True, False):
                invs = ("AllExact",) if quick else ("AddExact", "SubExact", "MulExact", "DivExact")
                for inv in invs:
                    jobs[("apa", w, sg, inv)] = ex.submit(apalache, ctx, "Overflow", inv, cname(w, sg))
        # boundary witnesses for the wide types
        for w, sg in ([] if quick else [(w, sg) for w in (16, 32, 64) for sg in (True, False)]):
            for part in ("InitW1", "InitW2", "InitW3"):
                jobs[("wit", w, sg, part)] = ex.submit(apalache, ctx, "OverflowW", "NoWitness", cname(w, sg),
                                                       init=part, nxt="NextW", view="ViewW", max_error=30, timeout=1500)
        done = {k: f.result() for k, f in jobs.items()}   # Inconclusive from run_tlc propagates

    # ---- (R) tables -> real code
    rows = []
    for k, r in done.items():
        if k[0] != "tlc":
            continue
        vlib.require_model_ok(r, k[1])
        ctx.add_tlc(r, "exhaustive operand pairs " + k[1])
        if r.traces:
            if len(r.traces) != 256:
                raise vlib.Inconclusive("VACUOUS", "%s emitted %d rows, expected 256" % (k[1], len(r.traces)))
            rows += r.traces
    s = vlib.handle_driver_results(ctx, vlib.run_driver(ctx, binary, [], behaviours=rows))
    ctx.add("traces_validated_against_impl", int(s.get("replays", 0)))
    ctx.add("impl_evaluations", int(s.get("evaluations", 0)))
    ctx.log("tables: %d rows replayed, %d calls on real helpers, %d mismatches" % (len(rows), s.get("evaluations", 0), s.get("mismatches", 0)))
    ctx.sample({"row_a": rows[0][0]["a"], "signed": rows[0][0]["signed"], "add[0..7]": rows[0][0]["add"][:8], "mul[120..135]": rows[0][0]["mul"][120:136]})

    # ---- (R) Apalache witnesses -> real code
    wbehs = []
    for w, sg in sorted({(k[1], k[2]) for k in done if k[0] == "wit"}):
        parts = [done[k] for k in done if k[0] == "wit" and k[1] == w and k[2] == sg]
        models = [m for r in parts for m in r["models"]]
        got = {m["cls"] for m in models}
        if any(r["outcome"] not in ("Error", "NoError") for r in parts) or not EXPECT_CLASSES[sg] <= got:
            raise vlib.Inconclusive("APALACHE", "witness runs W=%d signed=%s: outcomes %s, classes %s missing\n%s" %
                                    (w, sg, [r["outcome"] for r in parts], sorted(EXPECT_CLASSES[sg] - got), parts[0]["tail"]))
        wbehs += witness_steps(models, w, sg)
        ctx.cov.setdefault("apalache_runs", []).append({"module": "OverflowW", "W": w, "signed": sg, "witnesses": len(models),
                                                        "wall_s": max(r["wall"] for r in parts)})
    if wbehs:
        s = vlib.handle_driver_results(ctx, vlib.run_driver(ctx, binary, ["-mode", "witness"], behaviours=wbehs))
        ctx.add("traces_validated_against_impl", int(s.get("replays", 0)))
        ctx.add("impl_evaluations", int(s.get("evaluations", 0)))
        ctx.log("witnesses: %d Apalache models (OverflowW) replayed on the wide types, %d mismatches" % (len(wbehs), s.get("mismatches", 0)))
    ctx.cov["apalache_witnesses_replayed"] = len(wbehs)

    # ---- (G) class coverage of the sweep, decided by the spec
    gbehs = []
    for k, r in sorted((k, r) for k, r in done.items() if k[0] == "guard"):
        _, w, sg = k
        ctx.cov.setdefault("apalache_runs", []).append({"module": "OverflowG", "W": w, "signed": sg, "outcome": r["outcome"],
                                                        "uncovered_classes": len(r["models"]), "wall_s": r["wall"]})
        if r["outcome"] not in ("NoError", "Error") or len(r["models"]) >= GUARD_MAX:
            raise vlib.Inconclusive("VACUOUS", "class-coverage guard W=%d signed=%s: outcome %s, %d uncovered classes (limit %d)\n%s" %
                                    (w, sg, r["outcome"], len(r["models"]), GUARD_MAX, r["tail"]))
        for m in r["models"]:       # classes the generator missed: exercise them through the solver's pair
            gbehs.append([{"act": "WitnessOp", "w": w, "signed": sg, "op": m["op"], "a": str(m["a"]), "b": str(m["b"]),
                           "ok": bool(m["gok"]), "r": str(m["gr"]), "cls": m["gcls"]}])
    if gbehs:
        s = vlib.handle_driver_results(ctx, vlib.run_driver(ctx, binary, ["-mode", "witness"], behaviours=gbehs))
        ctx.add("traces_validated_against_impl", int(s.get("replays", 0)))
        ctx.add("impl_evaluations", int(s.get("evaluations", 0)))
    ctx.cov["guard_classes_added_by_solver"] = len(gbehs)
    ctx.log("guard: every non-empty boundary class of W in %s exercised on the real code (%d classes reached only through solver pairs)" % (list(widths), len(gbehs)))

    # ---- (V) the sweep's required outcomes are the spec's; only then a disagreement is a violation
    vals = [r for k, r in done.items() if k[0] == "val"]
    for r in vals:
        ctx.cov.setdefault("apalache_runs", []).append({"module": "OverflowV", "outcome": r["outcome"], "wall_s": r["wall"]})
    if any(r["outcome"] == "Error" for r in vals):
        raise vlib.Inconclusive("ORACLE-DIVERGENCE", "a record of the sweep (required outcome / class computed by the driver) does not conform to OverflowB.Conforms")
    if any(r["outcome"] != "NoError" for r in vals):
        raise vlib.Inconclusive("APALACHE", "validation of sweep records undecided: %s" % [r["tail"][-300:] for r in vals if r["outcome"] != "NoError"][:1])
    ctx.cov["sweep_records_validated_by_spec"] = len(vrecs)
    seen_keys = set()
    for c in cands:                  # spec-confirmed: the real helper contradicts the exact result
        if c["key"] not in seen_keys:
            seen_keys.add(c["key"])
            ctx.violation(c["key"], c["what"], c["case"])
    ctx.log("validation: %d sweep records (incl. %d disagreeing) conform to OverflowB.Conforms" % (len(vrecs), sum(1 for r in vrecs if r["mis"])))

    # ---- (M) symbolic obligations
    undecided = []
    for k, r in done.items():
        if k[0] != "apa":
            continue
        _, w, sg, inv = k
        ctx.cov.setdefault("apalache_runs", []).append({"module": "Overflow", "W": w, "signed": sg, "inv": inv, "outcome": r["outcome"], "wall_s": r["wall"]})
        if r["outcome"] == "Error":
            # a counter-model of the transcription: it only counts if the real helper misbehaves on it;
            # the table / witness replays above are the judge. Not a verdict by itself.
            raise vlib.Inconclusive("MODEL-DIVERGENCE", "Apalache: %s fails at W=%d signed=%s, model %s" % (inv, w, sg, r["models"][:1]))
        if r["outcome"] != "NoError":
            undecided.append("%s W=%d %s" % (inv, w, "signed" if sg else "unsigned"))
    ctx.cov["symbolic_obligations"] = sum(1 for k in done if k[0] == "apa")
    ctx.cov["symbolic_undecided"] = undecided
    if undecided:
        raise vlib.Inconclusive("APALACHE", "undecided obligations: %s" % undecided)
    ctx.log("symbolic: %d obligations NoError (W in %s, signed+unsigned)" % (ctx.cov["symbolic_obligations"], list(widths)))
    ctx.cov["exhaustive"] = True
    ctx.assumptions += [
        "the helpers are one generic source: the 8-bit exhaustive replay plus boundary witnesses bind the transcription to the code at the other widths",
        "embeddings x -> x<<k are exact homomorphisms for Add/Sub (both operands) and Mul (one operand): overflow at width 8+k iff overflow at width 8",
        "Z3 (through Apalache) decides the non-linear obligations soundly; every model it returns is replayed on the real helper",
        "int/uint are 64-bit on the build platform",
        "sweep: the driver's exact-integer evaluator (math/big) and classifier are transcriptions of OverflowB.tla, checked against TLC's tables on every 8-bit pair and against OverflowB.Conforms (Apalache) on a seeded sample of class representatives and on every disagreeing record"]
