"""C25 — Merkle proofs are sound and complete.
spec/MerkleProof.tla (symbolic injective hashes): TLC checks Complete / Sound / SingleFieldRejected /
GapOnly on every enumerated case of (a) the simple Merkle tree of tm2/pkg/crypto/merkle and (b) an
ics23-style key-value tree, and prints the cases; harness/cmd/merkleproof rebuilds every simple case
on SimpleProofsFromByteSlices / SimpleProofsFromMap / SimpleProof.Verify (+ the ics23 conversion the
multistore uses), harness/cmd/vtree -mode treecases every tree case on a real bptree and a real iavl
tree, and -mode proofs runs honest proofs and every mutation class on the tree states produced by
the simulated behaviours of spec/VersionedTree.tla (C23 / C30 machines)."""
import json, os, sys
sys.path.insert(0, os.path.dirname(os.path.abspath(__file__)))
import vlib
import vtree_common as vt

LEVEL = "exploration"
V1 = [{"db": "memdb", "cache": 100, "fast": False}]
SIM_V = [{"db": "memdb", "init": True}]


def cases_of(ctx, R, cfg, label):
    with vt.TLC_SLOTS:
        r = vlib.run_tlc(R.lctx, "MCMerkleProof", cfg, tags=("CASE",), timeout=2400, workers=4, jvm=["-Xmx4g"])
    vlib.require_model_ok(r, cfg)
    with R.lock:
        ctx.add_tlc(r, label)
        ctx.log("tlc %s: %d cases, %.1fs" % (cfg, len(r.traces), r.wall))
    if not r.traces:
        raise vlib.Inconclusive("VACUOUS", "no case printed by " + cfg)
    return r.traces


def run(ctx):
    vbin, mbin = vt.parallel([lambda: vlib.go_build("vtree", vt.Locked(ctx)), lambda: vlib.go_build("merkleproof", vt.Locked(ctx))])
    ctx.log("drivers built")
    case = ctx.replay_case()
    if case:
        if case.get("part") == "simple":
            res = vlib.run_driver(ctx, mbin, ["-x", json.dumps({"prop": "C25"})], behaviours=[case["steps"]])
            vlib.handle_driver_results(ctx, res)
            ctx.sample(case["steps"][:3])
        else:
            vt.replay_case(ctx, vbin, case)
        ctx.cov.update({"evaluations": 1, "distinct_nontrivial": 2, "rule": "replay of a stored case"})
        return
    R = vt.Run(ctx, vbin, "C25")
    quick = ctx.tier == "quick"
    scfgs = ["MerkleProof_sq.cfg"] if quick else ["MerkleProof_s.cfg", "MerkleProof_sL.cfg"]
    tcfgs = ["MerkleProof_t.cfg"] if quick else ["MerkleProof_t.cfg", "MerkleProof_tL.cfg"]
    n_m, n_x, n_i = (8, 2, 6) if quick else (300, 60, 300)
    procs = 1 if quick else 4
    jobs = [(lambda c=c: cases_of(ctx, R, c, "simple Merkle tree cases " + c)) for c in scfgs]
    jobs += [(lambda c=c: cases_of(ctx, R, c, "key-value tree cases " + c)) for c in tcfgs]
    jobs += [
        lambda: R.sims("VersionedTree_simm.cfg", "bptree states: simulate 90 keys", n_m, 55, procs=procs, timeout=3000),
        lambda: R.sims("VersionedTree_simx.cfg", "bptree states: simulate 1300 keys", n_x, 55, procs=procs, timeout=3000),
        lambda: R.sims("VersionedTree_isim.cfg", "iavl states: simulate 300 keys", n_i, 55, procs=procs, timeout=3000),
    ]
    rs = vt.parallel(jobs)
    ns, nt = len(scfgs), len(tcfgs)
    simple = [c for r in rs[:ns] for c in r]
    tcases = rs[ns:ns + nt]
    sims_m, sims_x, sims_i = rs[ns + nt], rs[ns + nt + 1], rs[ns + nt + 2]
    out = {}

    def simple_run():
        res = vlib.run_driver(R.lctx, mbin, ["-x", json.dumps({"prop": "C25"})], behaviours=[simple], timeout=2400)
        with R.lock:
            out["simple"] = vlib.handle_driver_results(ctx, res)

    def tree_run(impl, i):
        x = {"prop": "C25", "impl": impl, "nk": 5 + i, "nv": 2, "maxver": 1, "variants": V1}
        res = vlib.run_driver(R.lctx, vbin, ["-mode", "treecases", "-x", json.dumps(x)], behaviours=[tcases[i]], timeout=2400)
        with R.lock:
            out["tree:%s:%d" % (impl, i)] = vlib.handle_driver_results(ctx, res)

    def proofs_run(name, cfg, behs):
        out["proofs:" + name] = R.drive(cfg, behs, SIM_V, mode="proofs", proofs=3, bitflips=0 if quick else 32, nofast=True)
    djobs = [simple_run]
    djobs += [(lambda impl=impl, i=i: tree_run(impl, i)) for impl in ("bptree", "iavl") for i in range(nt)]
    djobs += [lambda: proofs_run("bptree-90", "VersionedTree_simm.cfg", sims_m),
              lambda: proofs_run("bptree-1300", "VersionedTree_simx.cfg", sims_x),
              lambda: proofs_run("iavl-300", "VersionedTree_isim.cfg", sims_i)]
    vt.parallel(djobs)
    R.finish()
    tot = lambda k: sum(int(v.get(k, 0)) for v in out.values())   # noqa
    ncases = tot("cases")
    ctx.add("traces_validated_against_impl", ncases)
    ctx.cov["cases_replayed"] = ncases
    ctx.cov["cases_by_run"] = {k: int(v.get("cases", 0)) for k, v in out.items() if v.get("cases")}
    for k in ("tree_states_probed", "membership_proofs", "nonmembership_proofs", "mutations_rejected", "bitflips_rejected", "skipped_empty_value"):
        ctx.cov[k] = tot(k)
    ctx.cov["evaluations"] = ncases + tot("membership_proofs") + tot("nonmembership_proofs") + tot("mutations_rejected") + tot("bitflips_rejected")
    ctx.cov["distinct_nontrivial"] = ncases + tot("tree_states_probed")
    ctx.cov["rule"] = ("accept / reject of the real verifiers equals exp of spec/MerkleProof.tla on every enumerated case; on simulated tree states: "
                       "honest proofs accepted, every mutation class rejected, gap proofs accepted exactly inside their gap")
    ctx.log("%d enumerated cases replayed; on tree states: %d + %d honest proofs, %d mutations and %d bit flips rejected" % (
        ncases, tot("membership_proofs"), tot("nonmembership_proofs"), tot("mutations_rejected"), tot("bitflips_rejected")))
    ctx.assumptions += [
        "collision resistance of SHA-256 (the spec's hashes are injective terms)",
        "SimpleProof authenticates (index, total) up to the path shape (documented: 'Check sp.Index/sp.Total manually if needed')",
        "ics23 cannot verify empty values (documented for bptree and iavl): proof runs use non-empty values",
        "the NonExistenceProof.Key field is not read by ics23: bit flips inside it are no mutation",
    ]
