"""C34 — A validator never double-signs, even across crashes. spec/PrivVal.tla (M) + edge-coverage
replay (R) on the real privval.PrivValidator / FileState / WriteFileAtomic; crash points realised
with a panicking types.Signer, with child processes killed by a seccomp filter at open/write/
rename/unlink inside WriteFileAtomic, and with constructed on-disk states (old file + stray temp)."""
import os, random, shutil, tempfile
import vlib
LEVEL = "model_checking"


def replay(ctx, binary, behs, label, killmod, tmp):
    env = {"TMPDIR": tmp} if tmp else None
    res = vlib.run_driver(ctx, binary, ["-n", str(killmod)], behaviours=behs, env_extra=env, timeout=2400)
    s = vlib.handle_driver_results(ctx, res)
    ctx.add("traces_validated_against_impl", int(s.get("replays", 0)))
    for k in ("steps", "crash_steps", "real_kills", "constructed_crashes", "kill_unsupported",
              "real_kill_disk_shape_as_modelled"):
        ctx.add("impl_" + k, int(s.get(k, 0)))
    if s.get("kill_note"):
        ctx.cov["kill_note"] = str(s["kill_note"])[:300]
    ctx.log("%s: %d behaviours replayed, %d ok, %d crash steps (%d real kills, %d constructed)" % (
        label, len(behs), s.get("replays_ok", 0), s.get("crash_steps", 0), s.get("real_kills", 0),
        s.get("constructed_crashes", 0)))
    return s


def run(ctx):
    binary = vlib.go_build("privval", ctx)
    # the state file is written with O_SYNC on every sign; a tmpfs keeps 10^5 writes cheap
    tmp = None
    if os.path.isdir("/dev/shm") and os.access("/dev/shm", os.W_OK):
        tmp = tempfile.mkdtemp(prefix="verif.C34.", dir="/dev/shm")
    try:
        _run(ctx, binary, tmp)
    finally:
        if tmp:
            shutil.rmtree(tmp, ignore_errors=True)


def _run(ctx, binary, tmp):
    case = ctx.replay_case()
    if case:
        for km in sorted({int(case.get("killmod", 0)), 1, 0}):
            s = replay(ctx, binary, [case["steps"]], "replay killmod=%d" % km, km, tmp)
        ctx.cov.update({"states": 1, "transitions": 1})
        ctx.sample(case["steps"])
        return
    quick = ctx.tier == "quick"
    # (M) exhaustive, full request alphabet
    if not quick:   # quick: the edge run below is itself exhaustive with all invariants
        for cfg, n in (("PrivVal_q.cfg", 3), ("PrivVal_t.cfg", 4)):
            r = vlib.run_tlc(ctx, "MCPrivVal", cfg, timeout=3000)
            vlib.require_model_ok(r, cfg)
            ctx.add_tlc(r, "exhaustive H=1..2 R=0..1 S=1..3 D=2 TS=2, <=%d calls, <=2 crashes" % n)
    # (M)+(R) exhaustive with edge emission
    total_kills = 0
    for ecfg, label in ([("PrivVal_qe.cfg", "edges H=1 R=0..1 <=3 calls")] if quick else
                        [("PrivVal_te.cfg", "edges H=1 R=0..1 <=4 calls"), ("PrivVal_te2.cfg", "edges H=1..2 R=0 D=3 <=3 calls, <=3 crashes")]):
        r = vlib.run_tlc(ctx, "MCPrivVal", ecfg, tags=("EDGE",), timeout=3000)
        vlib.require_model_ok(r, ecfg)
        ctx.add_tlc(r, label)
        behs = vlib.dedup_prefix(r.traces)
        ctx.add("edges_emitted", len(r.traces))
        # every K-th crash step is a real kill of a child process; K from the crash-step count
        ncrash = sum(1 for b in behs for s in b if s.get("crash") not in ("none", "idle"))
        target = 160 if quick else 1500
        km = max(1, ncrash // target)
        s = replay(ctx, binary, behs, label, km, tmp)
        total_kills += int(s.get("real_kills", 0))
    # simulation: 3 heights, 3 rounds, 3 data values, 12 calls, 4 crashes
    n = 200 if quick else 5000
    r = vlib.run_tlc(ctx, "MCPrivVal", "PrivVal_sim.cfg", mode="simulate", simulate=n, depth=80, tags=("TRACE",), timeout=1800)
    vlib.require_model_ok(r, "PrivVal_sim")
    ctx.add_tlc(r, "simulate H=1..3 R=0..2 D=3, 12 calls, <=4 crashes")
    s = replay(ctx, binary, r.traces, "simulation", 6 if quick else 12, tmp)
    total_kills += int(s.get("real_kills", 0))
    if total_kills == 0:
        ctx.notes.append("seccomp kill points unavailable on this host: crash-inside-WriteFileAtomic states were constructed only")
    ctx.cov["exhaustive"] = True
    ctx.assumptions += [
        "crash = process death (kill); the code does not fsync the temp file or the directory, so power-loss semantics are not covered",
        "ed25519 signing is deterministic and verifies as specified (C44/C47 territory)",
        "a crash between signer.Sign and the return of the call releases nothing (the signature dies with the process; a remote signer is trusted not to leak it)",
        "I/O errors of the state-file write (disk full) are not crash points and are outside the statement",
    ]
