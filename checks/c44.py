"""C44 — Signature verification, including multisig, is exact and never panics.
spec/Multisig.tla (M: Algo = Accept on every reachable multisignature shape) + (R) every edge of the
bounded graph and random deeper behaviours replayed on the real multisig.Multisignature,
PubKeyMultisigThreshold.VerifyBytes (ed25519 / secp256k1 / mixed member keys, five realisations of an
invalid signature) and auth.DefaultSigVerificationGasConsumer; byte-level neighbours of the encodings
are probed for panics; the single-key clause runs through the VerifyMember action."""
import threading
import vlib
LEVEL = "model_checking"


def replay(ctx, binary, behs, label, extra=None):
    args = ["-x", extra] if extra else []
    res = vlib.run_driver(ctx, binary, args, behaviours=behs, timeout=1500)
    s = vlib.handle_driver_results(ctx, res)
    ctx.add("traces_validated_against_impl", int(s.get("replays", 0)))
    for k in ("steps", "verify_calls", "gas_consumer_calls", "byte_probes", "member_checks"):
        ctx.add("impl_" + k, int(s.get(k, 0)))
    hits = {k[5:]: int(v) for k, v in s.items() if k.startswith("hits ")}
    if hits:
        agg = ctx.cov.setdefault("failing_class_hits", {})
        for k, v in hits.items():
            agg[k] = agg.get(k, 0) + v
    ctx.log("%s: %d behaviours x key types replayed (%d replays, %d VerifyBytes calls, %d byte probes); failing classes: %s"
            % (label, len(behs), s.get("replays", 0), s.get("verify_calls", 0), s.get("byte_probes", 0), sorted(hits) or "none"))


def run(ctx):
    binary = vlib.go_build("multisig", ctx)
    case = ctx.replay_case()
    if case:
        replay(ctx, binary, [case["steps"]], "replay", extra="%s|%s" % (case.get("keytype", ""), case.get("bad", "")))
        ctx.cov.update({"states": 1, "transitions": 1})
        ctx.sample(case["steps"])
        return
    quick = ctx.tier == "quick"
    lock = threading.Lock()
    orig_scratch = ctx.scratch_dir

    def scratch_dir(name):              # run_tlc from several threads: serialise the scratch counter
        with lock:
            return orig_scratch(name)
    ctx.scratch_dir = scratch_dir
    side = {}

    def bg(name, fn):
        def w():
            try:
                side[name] = fn()
            except BaseException as e:   # re-raised in the main thread
                side[name] = e
        t = threading.Thread(target=w, daemon=True)
        t.start()
        return t

    def get(t, name):
        t.join()
        if isinstance(side[name], BaseException):
            raise side[name]
        return side[name]
    mcfg = "Multisig_q.cfg" if quick else "Multisig_t.cfg"
    num = 1500 if quick else 30000
    # (M): deeper exhaustive run without emission; (R) source: simulation on larger keys (n up to 17:
    # Elems of 1..3 bytes, ExtraBitsStored 0..9 and 200). Both run beside the edge run.
    t_mc = bg("mc", lambda: vlib.run_tlc(ctx, "MCMultisig", mcfg, timeout=2400, workers=4))
    t_sim = bg("sim", lambda: vlib.run_tlc(ctx, "MCMultisig", "Multisig_sim.cfg", mode="simulate", simulate=num,
                                             depth=18, tags=("TRACE",), timeout=1500))
    # (M)+(R): exhaustive graph with one behaviour per edge
    ecfg = "Multisig_qe.cfg" if quick else "Multisig_te.cfg"
    r = vlib.run_tlc(ctx, "MCMultisig", ecfg, tags=("EDGE",), timeout=1500, workers=4)
    vlib.require_model_ok(r, ecfg)
    ctx.add_tlc(r, "exhaustive+edges " + ecfg)
    ctx.log("tlc %s: %d distinct states, %d edges, %.1fs" % (ecfg, r.distinct, len(r.traces), r.wall))
    ctx.cov["edges_emitted"] = len(r.traces)
    behs = vlib.dedup_prefix(r.traces)
    r = get(t_sim, "sim")
    vlib.require_model_ok(r, "Multisig_sim")
    ctx.add_tlc(r, "simulate n in {3,4,5,8,9,16,17}, 14 steps")
    ctx.log("tlc simulate: %d behaviours, %.1fs" % (len(r.traces), r.wall))
    # one driver run over both sources: each failing class is reported once, with its smallest case
    replay(ctx, binary, behs + r.traces, "edges + simulation")
    r = get(t_mc, "mc")
    vlib.require_model_ok(r, mcfg)
    ctx.add_tlc(r, "exhaustive " + mcfg)
    ctx.log("tlc %s: %d distinct states, %d generated, %.1fs" % (mcfg, r.distinct, r.generated, r.wall))
    ctx.cov["exhaustive"] = True
    ctx.assumptions += [
        "member signatures are abstracted to {valid for key j, valid for no key}; the driver realises them with real ed25519/secp256k1 keys (invalid = bit flip, empty, truncated, over-long, other message)",
        "'arbitrary signature bytes' is covered for structured malformed multisignatures, all truncations and single-byte changes of their encodings, every single-bit change and every length 0..70 of a member signature — not by a byte-level fuzzer of the primitives",
        "surplus signatures (more signatures than marked positions, list length within k..n) are ignored, as in the code; nested multisig members are not generated",
    ]
