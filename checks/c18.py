"""C18 — Coin-set arithmetic matches the multiset model. spec/Coins.tla: PROPERTY layer = per-denomination
multiset model (ModelAdd/ModelSub, helpers as documented), DESIGN layer = AddUnsafe's merge as it is meant to
work; TLC checks ImplMatchesModel, ResultValid, AddCommutes, AddSubInverse, SubIffGTE, CmpPerDenom on every
pair of coin sets of the bounded universe.
(R) one behaviour per edge (every ordered pair x {Add, Sub}, valid pairs x Cmp, every set x Query/Parse)
    replayed on the real std.Coins, under the identity embedding and under v -> v*2^60 (overflow reachable,
    -8 = MinInt64), plus seeded multi-step chains x := x op y (simulation).
Verdict keys: C18:<Add|Sub>:reply, :result, :operand-mutated[:zero-amount-entry] (F3), C18:Sub:min-amount-negation,
C18:Cmp:<helper>, C18:AmountOf, C18:IsValid, C18:IsZero, C18:Parse."""
import threading
from concurrent.futures import ThreadPoolExecutor
import vlib

LEVEL = "model_checking"
_lock = threading.Lock()
# cfg -> (shift passed to the driver, label)
EDGE_CFGS = {
    "quick": [("Coins_qa.cfg", 0, "3 denoms, amounts 0..1"), ("Coins_qb.cfg", 0, "2 denoms, amounts -2..2"),
              ("Coins_qs.cfg", 60, "2 denoms, amounts {-8,-7,-1,0,1,7} * 2^60")],
    "thorough": [("Coins_t.cfg", 0, "3 denoms, amounts -2..2"), ("Coins_ts.cfg", 60, "3 denoms, amounts {-8,-7,-1,0,1,7} * 2^60"),
                 ("Coins_qb.cfg", 0, "2 denoms, amounts -2..2")],
}
MISMATCHES = {}     # key -> [count, first what, first case]


def _collect(res):
    keep = []
    for r in res:
        if r.get("kind") == "mismatch":
            m = MISMATCHES.setdefault(r.get("key") or "C18:mismatch", [0, r.get("what", ""), r.get("case")])
            m[0] += 1
        else:
            keep.append(r)
    return keep


def report_mismatches(ctx):
    """one VIOLATION per failing class (key), with the first reproducing case"""
    for key in sorted(MISMATCHES):
        n, what, case = MISMATCHES[key]
        ctx.violation(key, what, case)
    MISMATCHES.clear()


def replay(ctx, binary, behs, shift, label):
    s = vlib.handle_driver_results(ctx, _collect(vlib.run_driver(ctx, binary, ["-x", str(shift)], behaviours=behs)))
    ctx.add("traces_validated_against_impl", int(s.get("replays", 0)))
    ctx.add("impl_steps", int(s.get("steps", 0)))
    for k, v in s.items():
        if k.startswith("act:") or k.startswith("mismatch:"):
            ctx.add("replayed_" + k.replace(":", "_"), int(v))
    ctx.log("%s: %d behaviours, %d steps on real std.Coins, %d mismatching steps" %
            (label, len(behs), s.get("steps", 0), s.get("mismatches", 0)))
    return s


def run(ctx):
    try:
        _run(ctx)
    finally:
        report_mismatches(ctx)      # what was seen on the real code counts even if a later stage is inconclusive


def _run(ctx):
    binary = vlib.go_build("coins", ctx)
    case = ctx.replay_case()
    if case:
        replay(ctx, binary, [case["steps"]], case.get("shift", 0), "replay")
        ctx.cov.update({"states": 1, "transitions": 1, "traces_validated_against_impl": 1})
        ctx.sample(case["steps"])
        return
    _orig = ctx.scratch_dir

    def _locked(name):          # vlib's scratch_dir counter is not thread-safe; the TLC jobs below run in threads
        with _lock:
            return _orig(name)
    ctx.scratch_dir = _locked
    jvm = ["-Djava.io.tmpdir=" + ctx.scratch]
    cfgs = EDGE_CFGS[ctx.tier]
    jobs = {}
    with ThreadPoolExecutor(max_workers=4) as ex:
        for cfg, shift, label in cfgs:
            jobs[cfg] = ex.submit(vlib.run_tlc, ctx, "MCCoins", cfg, tags=("EDGE",), timeout=3000, workers=4, jvm=jvm)
        jobs["sim"] = ex.submit(vlib.run_tlc, ctx, "MCCoins", "Coins_sim.cfg", mode="simulate",
                                simulate=150 if ctx.tier == "quick" else 4000, depth=12, tags=("TRACE",), timeout=3000, jvm=jvm)
        done = {k: f.result() for k, f in jobs.items()}
    for cfg, shift, label in cfgs:
        r = done[cfg]
        vlib.require_model_ok(r, cfg)
        ctx.add_tlc(r, "exhaustive pairs + edges: " + label)
        behs = vlib.dedup_prefix(r.traces)
        if not behs:
            raise vlib.Inconclusive("VACUOUS", "%s emitted no edges" % cfg)
        ctx.add("edges_emitted", len(r.traces))
        replay(ctx, binary, behs, shift, "%s (shift %d)" % (cfg, shift))
        if shift == 0:
            # the same behaviours with amounts of other magnitudes (v -> v*2^k stays a homomorphism and, with
            # |v| <= 4, stays far from the int64 bounds): amounts around 2^31..2^33 and 2^47..2^49
            for k in (31, 47):
                replay(ctx, binary, behs, k, "%s (shift %d)" % (cfg, k))
        ctx.sample(behs[len(behs) // 2], limit=3)
    r = done["sim"]
    vlib.require_model_ok(r, "Coins_sim")
    ctx.add_tlc(r, "simulate chains x := x op y, 3 denoms, scaled")
    replay(ctx, binary, r.traces, 60, "simulation (shift 60)")
    for a in ("Add", "Sub", "Cmp", "Query", "Parse"):
        if not ctx.cov.get("replayed_act_" + a):
            raise vlib.Inconclusive("VACUOUS", "action %s never replayed to completion" % a)
    ctx.cov["exhaustive"] = True
    ctx.assumptions += [
        "identity-embedding behaviours are replayed at amounts v, v*2^31 and v*2^47 (mid-range magnitudes)",
        "embedding v -> v*2^60 is an exact homomorphism for + and - : a result leaves -8..7 iff it overflows int64",
        "operands are denomination-sorted and duplicate-free (Add's stated precondition); amounts may be zero or negative",
        "comparison helpers: verdict on valid sets only; IsEqual's documented denomination-mismatch panic is read as 'not equal'",
        "denominations aaa..ccc stand for all valid denominations (the merge only compares them)"]
