"""C32 — Applied blocks are valid and block validation is robust (the ValidateBlock half).
spec/BlockValidation.tla (M: Sound / Complete of the transcribed sequence of checks against the
property's list, on every enumerated mutant) + (R) every mutant built for real, decoded from its
amino encoding and given to the real State.ValidateBlock under recover."""
import json
import vlib
LEVEL = "exploration"


def run(ctx):
    binary = vlib.go_build("blockval", ctx)
    case = ctx.replay_case()
    if case:
        s = vlib.handle_driver_results(ctx, vlib.run_driver(ctx, binary, [], behaviours=[case["steps"]]))
        ctx.cov.update({"evaluations": int(s.get("cases", 0)), "distinct_nontrivial": int(s.get("nontrivial", 0)),
                        "rule": "replay of one recorded case"})
        ctx.sample(case["steps"])
        return
    cfg = "BlockValidation_q.cfg" if ctx.tier == "quick" else "BlockValidation_t.cfg"
    r = vlib.run_tlc(ctx, "MCBlockValidation", cfg, tags=("TRACE",), timeout=2400)
    vlib.require_model_ok(r, cfg)
    ctx.add_tlc(r, "all single and pair mutations " + cfg)
    if len(r.traces) != r.distinct - 1:
        raise vlib.Inconclusive("VACUOUS", "%d cases emitted for %d states" % (len(r.traces), r.distinct))
    spec_acc = sum(1 for t in r.traces if t[0]["reply"] == "accept")
    ctx.log("TLC: %d mutants (%d valid ones), Sound/Complete hold, %.1fs" % (len(r.traces), spec_acc, r.wall))
    s = vlib.handle_driver_results(ctx, vlib.run_driver(ctx, binary, [], behaviours=r.traces, timeout=2400))
    distinct = {json.dumps([t[0]["sit"], sorted((m["f"], m["v"]) for m in t[0]["muts"])]) for t in r.traces if t[0]["muts"]}
    ctx.add("evaluations", int(s.get("cases", 0)))
    ctx.cov["distinct_nontrivial"] = len(distinct)
    ctx.cov["rule"] = ("a case = (situation in {genesis block with initial height 1 / 5, block 2, block 8 after a validator-set change, 6 quorum situations with 3-7 previous validators}, "
                       "set of field mutations of the valid block): every single mutation, every pair on two different fields, plus listed "
                       "triples; enumerated by TLC from spec/BlockValidation.tla; distinct = distinct (situation, mutation set), "
                       "non-trivial = at least one mutation; each is built with real signatures and hashes, decoded from its amino "
                       "encoding and validated by the real State.ValidateBlock")
    ctx.add("traces_validated_against_impl", int(s.get("replays", 0)))
    ctx.cov["spec_valid_mutants"] = spec_acc
    ctx.cov["impl_accepts"] = int(s.get("accepts", 0))
    ctx.cov["blocks_decoded_from_amino"] = int(s.get("decodable", 0))
    ctx.cov["agreeing"] = int(s.get("replays_ok", 0))
    if spec_acc < 2:
        raise vlib.Inconclusive("VACUOUS", "no valid mutant among the cases")
    # the quorum boundary must be exercised for every residue of the total power mod 3: a LastCommit tallying
    # exactly floor(2T/3) (rejected for lack of power), floor(2T/3)+1 and T (accepted)
    seen = set()
    for t in r.traces:
        c = t[0]
        T, tally = c.get("total", 0), c.get("tally", -1)
        if T <= 0 or tally < 0:
            continue
        if tally == (2 * T) // 3 and c["why"] == "commit:power":
            seen.add((T % 3, "floor"))
        if tally == (2 * T) // 3 + 1 and c["reply"] == "accept":
            seen.add((T % 3, "floor+1"))
        if tally == T and c["reply"] == "accept":
            seen.add((T % 3, "all"))
    need = {(m, k) for m in (0, 1, 2) for k in ("floor", "floor+1", "all")}
    if need - seen:
        raise vlib.Inconclusive("VACUOUS", "quorum boundary not exercised: missing %s (total mod 3, tally)" % sorted(need - seen))
    ctx.cov["quorum_boundary_classes"] = len(seen)
    ctx.log("validated %d mutants on the real State.ValidateBlock: %d agree, %d accepted" % (s.get("cases", 0), s.get("replays_ok", 0), s.get("accepts", 0)))
    ctx.cov["exhaustive"] = True
    ctx.assumptions += [
        "structured mutants only (single fields and pairs of a valid block at 4 chain situations, every subset of blanked / stray precommits over 6 previous validator sets with total power 0, 1, 2 mod 3); arbitrary byte strings are not generated",
        "the clause 'every applied block passed validation' (consensus / fast-sync call sites) is not covered by this check",
        "a precommit's weight in the median is the power of the validator at its index in the commit (the one whose signature VerifyCommit checked)",
        "ed25519 / merkle / amino primitives trusted",
    ]
