"""C53 — Genesis application is deterministic and representation-independent. Seeded genesis
documents (balances incl. duplicates, 0-3 package deployments, calls, failing txs, cross-realm
calls, sends, time/height-stamping calls, every genesis tx metadata shape (none, timestamp override, failed-on-source,
historical with height override, provenance only), auth param overrides, InitialHeight 1/5) are applied by the real InitChainer in
separate processes: twice in memory and twice streamed from disk (GenesisStateRef); every pair
is held to spec/ReplayPair.tla (same app hash, same per-tx result bytes and gas, same state)."""
import json, os, re, subprocess, concurrent.futures as cf, vlib, tracelib
LEVEL = "exploration"


def run_one(ctx, binary, seed, mode):
    out = os.path.join(ctx.scratch_dir("gen"), "g.ndjson")
    env = dict(os.environ)
    env.update({"VERIF_SEED": str(seed), "VERIF_TIER": ctx.tier, "TMPDIR": ctx.scratch})
    p = subprocess.run([binary, "-out", out, "-x", mode], env=env, capture_output=True, text=True, timeout=900)
    if p.returncode != 0:
        raise vlib.Inconclusive("DRIVER-DIED", "genesis %s seed %s: %s" % (mode, seed, p.stderr[-2000:]))
    summ = {}
    for line in p.stdout.splitlines():
        if line.startswith("{"):
            summ = json.loads(line)
    return [json.loads(l) for l in open(out) if l.strip()], summ


def run(ctx):
    binary = vlib.go_build("genesis", ctx)
    n = 6 if ctx.tier == "quick" else 24
    seeds = [ctx.seed * 1000 + k for k in range(n)]
    pairs, sums = [], []
    with cf.ThreadPoolExecutor(max_workers=8) as ex:
        futs = {}
        for s in seeds:
            for j, mode in enumerate(("mem", "mem", "stream", "stream")):
                futs[(s, j)] = ex.submit(run_one, ctx, binary, s, mode)
        for s in seeds:
            ref, rs = futs[(s, 0)].result()
            sums.append(rs)
            for j, mode in ((1, "mem-again"), (2, "stream"), (3, "stream-again")):
                lines, _ = futs[(s, j)].result()
                if len(lines) != len(ref):
                    ctx.violation("C53:record-count-differs:" + mode, "seed %d: %d vs %d records" % (s, len(lines), len(ref)), {"seed": s, "mode": mode})
                    continue
                for a, b in zip(ref, lines):
                    pairs.append({"a": a, "b": b, "variant": {"mode": mode}, "seed": s})
    tx_ok = sum(x.get("tx_ok", 0) for x in sums)
    tx_fail = sum(x.get("tx_fail", 0) for x in sums)
    nontrivial = sum(1 for x in sums if x.get("tx_ok", 0) + x.get("tx_fail", 0) > 0)
    if tx_ok == 0 or tx_fail == 0 or nontrivial < 2:
        raise vlib.Inconclusive("VACUOUS", "generated genesis documents lack successful / failing txs (ok=%d fail=%d)" % (tx_ok, tx_fail))
    # genesis tx metadata shapes (none / timestamp / failed / historical / provenance-only): the interesting documents
    # are those where a tx WITHOUT some metadata field follows a tx that sets it
    meta = {}
    for x in sums:
        for k, v in (x.get("metadata") or {}).items():
            meta[k] = meta.get(k, 0) + v
    ctx.cov["genesis_tx_metadata_shapes"] = meta
    need = ["none", "timestamp", "failed", "historical"]
    if any(not meta.get(k) for k in need):
        raise vlib.Inconclusive("VACUOUS", "generated genesis documents lack a metadata shape: %s" % meta)
    remaining = pairs
    for _ in range(8):
        if not remaining:
            break
        d = ctx.scratch_dir("pairs")
        path = os.path.join(d, "pairs.ndjson")
        tracelib.write_ndjson(path, remaining)
        r = vlib.run_tlc(ctx, "ReplayPair", "ReplayPair.cfg", workers=1, timeout=900, extra_files=[path], deadlock=True, tags=(), jvm=["-Xmx3g"])
        if r.violated:
            ls = re.findall(r"l = (\d+)", r.out)
            k = int(ls[-1]) if ls else 1
            bad = remaining[k - 1]
            ctx.violation("C53:%s:%s" % (r.violated, bad["variant"]["mode"].split("-")[0]),
                          "genesis seed %s: record h=%s differs between in-memory reference and %s run: %s" % (bad["seed"], bad["a"].get("h"), bad["variant"]["mode"], r.violated), bad)
            remaining = [p for p in remaining[k:] if not (p["variant"] == bad["variant"] and p["seed"] == bad["seed"])]
            continue
        if r.error:
            raise vlib.Inconclusive("TLC-ERROR", r.error)
        break
    ctx.cov.update({"evaluations": 4 * len(seeds), "distinct_nontrivial": nontrivial,
                    "rule": "one evaluation = one process applying one seeded genesis document in one mode; distinct_nontrivial = distinct genesis documents that contain at least one genesis transaction (all are compared across 2 in-memory and 2 streamed runs)",
                    "pairs_checked": len(pairs), "genesis_tx_ok": tx_ok, "genesis_tx_fail": tx_fail,
                    "with_initial_height": sum(1 for x in sums if x.get("initial_height", 0) > 1)})
    for x in sums[:3]:
        ctx.sample({k: v for k, v in x.items() if k != "kind"})
    ctx.assumptions += ["genesis documents are drawn from a seeded component grammar, not all documents", "memdb back end (back ends are C01/C29)"]
