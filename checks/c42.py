"""C42 — Secret connections are confidential, authenticated and tamper-evident.
spec/SecretConn.tla (symbolic cryptography, adversary owns the wire) model-checked with TLC (M);
one behaviour per edge of the bounded graphs + simulated long behaviours replayed (R) on two real
conn.MakeSecretConnection endpoints whose transport middle is the driver (= the spec's adversary)."""
import json, threading
import vlib
LEVEL = "model_checking"


def behaviours_with(behs, act):
    return [b for b in behs if any(s.get("act") == act for s in b)]


def pick_modify(behs, limit):
    """Behaviours containing a Modify step, one per distinct shape (sequence of act/endpoint), for
    the every-byte-position sweep."""
    seen, out = set(), []
    for b in behaviours_with(behs, "Modify"):
        sig = tuple((s.get("act"), s.get("src") or s.get("e") or s.get("dst"), s.get("n")) for s in b)
        if sig in seen:
            continue
        seen.add(sig)
        out.append(b)
    out.sort(key=lambda b: -len(b))
    # longest first: the modified frame is then followed by reads; keep auth-frame and data-frame cases
    return out[:limit]


def replay(ctx, binary, behs, label, extra=None, mode=None, timeout=1800):
    args = []
    if extra is not None:
        args += ["-x", json.dumps(extra)]
    if mode:
        args += ["-mode", mode]
    res = vlib.run_driver(ctx, binary, args, behaviours=behs, timeout=timeout)
    s = vlib.handle_driver_results(ctx, res)
    ctx.add("traces_validated_against_impl", int(s.get("replays", 0)))
    ctx.add("impl_steps", int(s.get("steps", 0)))
    ctx.add("impl_reads", int(s.get("reads", 0)))
    ctx.add("impl_bytes_read", int(s.get("bytes_read", 0)))
    ctx.add("modify_positions", int(s.get("modify_positions", 0)))
    soft = [r for r in res if r.get("kind") in ("drift", "advfail")]
    ctx.log("%s: %d behaviours, %d replays, %d agree on every step%s" % (
        label, len(behs), s.get("replays", 0), s.get("behaviours_ok", 0),
        (", %d soft disagreements" % len(soft)) if soft else ""))
    return soft


def run(ctx):
    binary = vlib.go_build("secretconn", ctx)
    ctx.log("driver built")
    case = ctx.replay_case()
    if case:
        replay(ctx, binary, [case["steps"]], "replay", extra={"seed": case.get("seed", 1), "modpos": case.get("modpos", -1)}, mode="case")
        ctx.cov.update({"states": 1, "transitions": 1})
        ctx.sample(case["steps"])
        return
    quick = ctx.tier == "quick"
    lock = threading.Lock()
    orig = ctx.scratch_dir

    def scratch_dir(name):
        with lock:
            return orig(name)
    ctx.scratch_dir = scratch_dir

    ecfgs = [("SecretConn_qe.cfg", "data phase: all write/read/buffer size classes a->b, 1 frame-level adversary step"),
             ("SecretConn_hse.cfg", "handshake: key substitution (own/reflected/unknown/low-order), injected auth messages, relay; 4 adversary steps")]
    if not quick:
        ecfgs += [("SecretConn_ge.cfg", "both directions, every adversary step kind, budget 1"),
                  ("SecretConn_te2.cfg", "both directions, every adversary step kind, budget 2"),
                  ("SecretConn_te.cfg", "data phase: 2 writes of every size class, 1 frame-level adversary step")]
    import queue
    q = queue.Queue()

    def tlc(cfg, what):
        try:
            q.put((cfg, what, vlib.run_tlc(ctx, "MCSecretConn", cfg, tags=("EDGE",), timeout=2400, workers=4)))
        except Exception as e:   # re-raised in the main thread
            q.put((cfg, what, e))

    def simulate():
        n = 100 if quick else 3000
        what = "simulate: both directions, all size classes, 3 frame-level adversary steps after the handshake, 16 steps"
        try:
            q.put(("SecretConn_sim.cfg", what, vlib.run_tlc(ctx, "MCSecretConn", "SecretConn_sim.cfg", mode="simulate", simulate=n,
                                                          depth=18, tags=("TRACE",), timeout=2400)))
        except Exception as e:
            q.put(("SecretConn_sim.cfg", what, e))
    ths = [threading.Thread(target=tlc, args=(c, w)) for c, w in ecfgs] + [threading.Thread(target=simulate)]
    for t in ths:
        t.start()
    soft = []
    allb = []
    err = None
    for _ in ths:        # replay each batch as soon as its TLC run is finished
        cfg, what, r = q.get()
        if err is not None:
            continue
        if isinstance(r, Exception):
            err = r
            continue
        try:
            vlib.require_model_ok(r, cfg)
        except vlib.Inconclusive as e:
            err = e
            continue
        ctx.log("TLC %s: %d distinct states, %d payloads, %.0fs" % (cfg, r.distinct, len(r.traces), r.wall))
        if cfg == "SecretConn_sim.cfg":
            ctx.add_tlc(r, what)
            soft += replay(ctx, binary, r.traces, "simulation")
            continue
        ctx.add_tlc(r, "exhaustive+edges " + what)
        ctx.add("edges_emitted", len(r.traces))
        behs = vlib.dedup_prefix(r.traces)
        allb += behs
        soft += replay(ctx, binary, behs, "edges " + cfg)
    for t in ths:
        t.join()
    if err is not None:
        raise err
    # Modify: every byte position of the sealed frame (thorough) / a few shapes x all positions (quick)
    mods = pick_modify(allb, 3 if quick else 40)
    soft += replay(ctx, binary, mods, "Modify at every byte position of the frame", extra={"modall": True})
    if not quick:
        r = vlib.run_tlc(ctx, "MCSecretConn", "SecretConn_t.cfg", timeout=3000)
        vlib.require_model_ok(r, "SecretConn_t")
        ctx.add_tlc(r, "exhaustive: both directions, budget 2, write sizes {1,1024,1025}")
    if soft and not ctx.violations:
        raise vlib.Inconclusive("MODEL-DRIFT", "the driver could not follow the model on %d behaviours (framing or key schedule of the tree differs from the model's): %s" % (len(soft), soft[0].get("what", "")[:500]))
    ctx.cov["exhaustive"] = True
    ctx.assumptions += [
        "symbolic cryptography: X25519, HKDF, ChaCha20-Poly1305 and ed25519 behave as ideal primitives (C46/C47 territory); secrecy proper is not decided",
        "the adversary of the driver re-implements the key schedule (HKDF label, half selection by key order) to share a leg's session keys",
        "a handshake with the adversary's own long-term key succeeds by design (callers compare RemotePubKey with the expected identity)"]
