"""C40 — The mempool never duplicates, loses order, or over-reaps. spec/Mempool.tla (M) +
edge-coverage / simulation replay (R) on the real CListMempool wired to a scripted ABCI
application through the local client, + (V) concurrent callers validated by MempoolTrace.tla."""
import json, os
import vlib
LEVEL = "model_checking"

S2, G2 = {"a": 2, "b": 1}, {"a": 1, "b": 2}
S3, G3 = {"a": 3, "b": 1, "c": 2}, {"a": 1, "b": 2, "c": 1}
S4, G4 = {"a": 3, "b": 1, "c": 2, "d": 2}, {"a": 1, "b": 2, "c": 1, "d": 3}


def K(sizes, gas, cfgSize, cfgMaxBytes, cacheSize, recheck, initMaxTx):
    return {"sizes": sizes, "gas": gas, "cfgSize": cfgSize, "cfgMaxBytes": cfgMaxBytes,
            "cacheSize": cacheSize, "recheck": recheck, "initMaxTx": initMaxTx}


# constants of each TLC configuration (mirror of spec/Mempool_*.cfg + MCMempool.tla)
CFGS = {
    "Mempool_qe.cfg": K(S2, G2, 2, 3, 1, True, 2),
    "Mempool_t3.cfg": K(S3, G3, 3, 5, 2, True, 3),
    "Mempool_t3c.cfg": K(S3, G3, 3, 6, 2, True, 3),
    "Mempool_t3n.cfg": K(S3, G3, 2, 4, 3, False, 3),
    "Mempool_t4.cfg": K(S4, G4, 3, 7, 3, True, 3),
    "Mempool_sim.cfg": K(S4, G4, 3, 7, 3, True, 3),
    "Mempool_simk.cfg": K(S4, G4, 3, 7, 3, True, 3),
    "MempoolTrace.cfg": K(S4, G4, 3, 7, 4, True, 3),
}
TRACE = "mempool_trace.ndjson"


def check_cfg_mirror(cfg):
    """The scalar constants are read back from the .cfg so the table above cannot drift silently."""
    want = CFGS[cfg]
    txt = open(os.path.join(vlib.SPEC, cfg)).read()
    names = {"CfgSize": "cfgSize", "CfgMaxBytes": "cfgMaxBytes", "CacheSize": "cacheSize", "InitMaxTx": "initMaxTx"}
    for line in txt.splitlines():
        parts = line.replace("=", " = ").split()
        if len(parts) == 3 and parts[1] == "=":
            if parts[0] in names and int(parts[2]) != want[names[parts[0]]]:
                raise vlib.Inconclusive("CFG-DRIFT", "%s: %s" % (cfg, line))
            if parts[0] == "Recheck" and (parts[2] == "TRUE") != want["recheck"]:
                raise vlib.Inconclusive("CFG-DRIFT", "%s: %s" % (cfg, line))


def replay(ctx, binary, behs, cfg, label):
    check_cfg_mirror(cfg)
    res = vlib.run_driver(ctx, binary, ["-x", json.dumps(CFGS[cfg])], behaviours=behs, timeout=1800)
    s = vlib.handle_driver_results(ctx, res)
    ctx.add("traces_validated_against_impl", int(s.get("replays", 0)))
    ctx.add("impl_steps", int(s.get("steps", 0)))
    found = {k[2:]: int(v) for k, v in s.items() if k.startswith("n:")}
    for k, v in found.items():
        d = ctx.cov.setdefault("disagreements_by_key", {})
        d[k] = d.get(k, 0) + v
    ctx.log("%s: %d behaviours replayed, %d agree on every step%s" % (
        label, len(behs), s.get("replays_ok", 0), (", disagreements: %s" % found) if found else ""))
    return s


def run(ctx):
    binary = vlib.go_build("mempool", ctx)
    case = ctx.replay_case()
    if case and case.get("mode") == "conc":
        conc(ctx, binary)   # un-gated: re-runs the recorded seed (VERIF_SEED) against the current tree
        ctx.cov.setdefault("states", 1); ctx.cov.setdefault("transitions", 1); ctx.cov.setdefault("traces_validated_against_impl", 0)
        return
    if case:
        res = vlib.run_driver(ctx, binary, ["-x", json.dumps(case["consts"])], behaviours=[case["steps"]])
        vlib.handle_driver_results(ctx, res)
        ctx.cov.update({"states": 1, "transitions": 1, "traces_validated_against_impl": 1})
        ctx.sample(case["steps"])
        return
    quick = ctx.tier == "quick"
    # (M)+(R): exhaustive with edge emission, one behaviour per transition of the bounded graph
    ecfgs = [("Mempool_qe.cfg", "2 txs, cache 1, limits change")]
    if not quick:
        ecfgs += [("Mempool_t3.cfg", "3 txs, cache 2, limits change"),
                  ("Mempool_t3c.cfg", "3 txs, cache 2, blocks of <= 2 txs"),
                  ("Mempool_t3n.cfg", "3 txs, recheck off, limits change")]
    for cfg, what in ecfgs:
        r = vlib.run_tlc(ctx, "MCMempool", cfg, tags=("EDGE",), timeout=1500)
        vlib.require_model_ok(r, cfg)
        ctx.add_tlc(r, "exhaustive+edges " + what)
        behs = vlib.dedup_prefix(r.traces)
        ctx.add("edges_emitted", len(r.traces))
        replay(ctx, binary, behs, cfg, "edges " + cfg)
    # simulation: 4 txs, cache 3, blocks of <= 2 txs, 12 calls; once unrestricted and once steered
    # away from the known defect classes so that long behaviours stay replayable
    n = 150 if quick else 4000
    for cfg, what in (("Mempool_sim.cfg", "simulate 4 txs depth 12"), ("Mempool_simk.cfg", "simulate 4 txs depth 12, AvoidKnown")):
        r = vlib.run_tlc(ctx, "MCMempool", cfg, mode="simulate", simulate=n, depth=14, tags=("TRACE",), timeout=1500)
        vlib.require_model_ok(r, cfg)
        ctx.add_tlc(r, what)
        replay(ctx, binary, r.traces, cfg, what)
    if not quick:
        r = vlib.run_tlc(ctx, "MCMempool", "Mempool_t4.cfg", timeout=3000)
        vlib.require_model_ok(r, "Mempool_t4")
        ctx.add_tlc(r, "exhaustive 4 txs, cache 3, blocks of <= 2 txs, len<=8")
    conc(ctx, binary)
    ctx.cov["exhaustive"] = True
    ctx.assumptions += [
        "ABCI application scripted (verdict per call chosen by the model); local (synchronous) client, as in a gno.land node",
        "cache policy is the LRU documented at mapTxCache; cache and `rechecking` are read through reflection (read-only)",
        "the (V) part is un-gated: it validates the schedules the Go runtime happened to produce"]


def conc_round(ctx, binary, n, seed, label):
    cfg = "MempoolTrace.cfg"
    check_cfg_mirror(cfg)
    path = os.path.join(ctx.scratch_dir("trace"), TRACE)
    res = vlib.run_driver(ctx, binary, ["-mode", "conc", "-n", str(n), "-out", path, "-x", json.dumps(CFGS[cfg])],
                          timeout=900, env_extra={"VERIF_SEED": str(seed)})
    o = {"mismatches": [r for r in res if r.get("kind") == "mismatch"],
         "suspects": [r for r in res if r.get("kind") == "suspect"],
         "summary": next((r for r in res if r.get("kind") == "summary"), {}), "path": path, "rejected": None, "tlc": None}
    if o["mismatches"] or o["suspects"]:
        return o
    r = vlib.run_tlc(ctx, "MempoolTrace", cfg, workers=1, tags=("HWM",), timeout=1800, extra_files=[path])
    o["tlc"] = r
    if r.ok:
        return o
    if r.traces and "Accepted" in (r.out or ""):
        hwm = int(r.traces[0])
        lines = open(path).read().splitlines()
        first = max([i for i, l in enumerate(lines[:hwm + 1]) if '"act":"Reset"' in l] or [0])
        end = next((i for i in range(first + 1, len(lines)) if '"act":"Reset"' in lines[i]), len(lines))
        o["rejected"] = ([json.loads(l) for l in lines[first:end]], hwm, lines[hwm] if hwm < len(lines) else "")
        return o
    if r.violated:
        # an invariant / step property of Mempool.tla fails on a linearisation prefix of a REAL history:
        # handled like a rejection (reproduce first)
        o["rejected"] = ([], -1, "model property %s violated on the recorded history" % r.violated)
        return o
    raise vlib.Inconclusive("TLC-ERROR", "%s: %s" % (label, r.error or r.out[-800:]))


def conc(ctx, binary):
    """(V): concurrent CheckTx x3 / committer / reaper on the real mempool, linearised by TLC against Mempool.tla."""
    n = 40 if ctx.tier == "quick" else 400
    label = "concurrent callers seed %d" % ctx.seed
    o = conc_round(ctx, binary, n, ctx.seed, label)
    if o["mismatches"] or o["suspects"] or o["rejected"]:
        ctx.log("%s: disagreement (%d panics, %d hangs, rejected=%s) — re-running the same seed twice" % (
            label, len(o["mismatches"]), len(o["suspects"]), bool(o["rejected"])))
        again = [conc_round(ctx, binary, max(n, 400), ctx.seed, label) for _ in (1, 2)]
        if o["mismatches"]:
            m = o["mismatches"][0]
            if all(any(x.get("key") == m.get("key") for x in a["mismatches"]) for a in again):
                ctx.violation(m.get("key"), m.get("what", ""), m.get("case"))
                return
            raise vlib.Inconclusive("FLAKY", "%s did not reproduce twice" % m.get("key"))
        if o["suspects"]:
            if all(a["suspects"] for a in again):
                ctx.violation("C40:conc:hang", "concurrent callers of the mempool never return (3 of 3 runs of the seed)",
                              {"mode": "conc", "seed": ctx.seed, "events": o["suspects"][0].get("events")})
                return
            raise vlib.Inconclusive("FLAKY", "hang of concurrent callers did not reproduce twice (timing-only)")
        if all(a["rejected"] for a in again):
            ev, hwm, nxt = o["rejected"]
            ctx.violation("C40:conc:not-linearizable",
                          "history of concurrent callers has no linearisation w.r.t. Mempool.tla: longest consumable prefix ends at line %d, next event %s (3 of 3 runs of the seed)" % (hwm, nxt),
                          {"mode": "conc", "seed": ctx.seed, "events": ev})
            return
        raise vlib.Inconclusive("FLAKY", "rejected history did not reproduce twice")
    s, r = o["summary"], o["tlc"]
    ctx.add("traces_validated_against_impl", int(s.get("runs", 0)))
    ctx.add("impl_calls_concurrent", int(s.get("ops", 0)))
    ctx.add_tlc(r, "linearisation of %d concurrent runs" % s.get("runs", 0))
    ctx.log("%s: %d runs, %d calls accepted (%d states, %.0fs)" % (label, s.get("runs", 0), s.get("ops", 0), r.distinct, r.wall))
