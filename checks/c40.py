"""C40 — The mempool never duplicates, loses order, or over-reaps. spec/Mempool.tla (M) +
edge-coverage / simulation replay (R) on the real CListMempool wired to a scripted ABCI
application through the local client, + (V) concurrent callers validated by MempoolTrace.tla."""
import json, os
import vlib
LEVEL = "model_checking"

S2, G2 = {"a": 2, "b": 1}, {"a": 1, "b": 2}
S3, G3 = {"a": 3, "b": 1, "c": 2}, {"a": 1, "b": 2, "c": 1}
S4, G4 = {"a": 3, "b": 1, "c": 2, "d": 2}, {"a": 1, "b": 2, "c": 1, "d": 3}


def K(sizes, gas, cfgSize, cfgMaxBytes, cacheSize, recheck, initMaxTx):
    return {"sizes": sizes, "gas": gas, "cfgSize": cfgSize, "cfgMaxBytes": cfgMaxBytes,
            "cacheSize": cacheSize, "recheck": recheck, "initMaxTx": initMaxTx}


# constants of each TLC configuration (mirror of spec/Mempool_*.cfg + MCMempool.tla)
CFGS = {
    "Mempool_qe.cfg": K(S2, G2, 2, 3, 1, True, 2),
    "Mempool_t3.cfg": K(S3, G3, 3, 5, 2, True, 3),
    "Mempool_t3c.cfg": K(S3, G3, 3, 6, 2, True, 3),
    "Mempool_t3n.cfg": K(S3, G3, 2, 4, 3, False, 3),
    "Mempool_t4.cfg": K(S4, G4, 3, 7, 3, True, 3),
    "Mempool_sim.cfg": K(S4, G4, 3, 7, 3, True, 3),
    "Mempool_simk.cfg": K(S4, G4, 3, 7, 3, True, 3),
}


def check_cfg_mirror(cfg):
    """The scalar constants are read back from the .cfg so the table above cannot drift silently."""
    want = CFGS[cfg]
    txt = open(os.path.join(vlib.SPEC, cfg)).read()
    names = {"CfgSize": "cfgSize", "CfgMaxBytes": "cfgMaxBytes", "CacheSize": "cacheSize", "InitMaxTx": "initMaxTx"}
    for line in txt.splitlines():
        parts = line.replace("=", " = ").split()
        if len(parts) == 3 and parts[1] == "=":
            if parts[0] in names and int(parts[2]) != want[names[parts[0]]]:
                raise vlib.Inconclusive("CFG-DRIFT", "%s: %s" % (cfg, line))
            if parts[0] == "Recheck" and (parts[2] == "TRUE") != want["recheck"]:
                raise vlib.Inconclusive("CFG-DRIFT", "%s: %s" % (cfg, line))


def replay(ctx, binary, behs, cfg, label):
    check_cfg_mirror(cfg)
    res = vlib.run_driver(ctx, binary, ["-x", json.dumps(CFGS[cfg])], behaviours=behs, timeout=1800)
    s = vlib.handle_driver_results(ctx, res)
    ctx.add("traces_validated_against_impl", int(s.get("replays", 0)))
    ctx.add("impl_steps", int(s.get("steps", 0)))
    found = {k[2:]: int(v) for k, v in s.items() if k.startswith("n:")}
    for k, v in found.items():
        d = ctx.cov.setdefault("disagreements_by_key", {})
        d[k] = d.get(k, 0) + v
    ctx.log("%s: %d behaviours replayed, %d agree on every step%s" % (
        label, len(behs), s.get("replays_ok", 0), (", disagreements: %s" % found) if found else ""))
    return s


def run(ctx):
    binary = vlib.go_build("mempool", ctx)
    case = ctx.replay_case()
    if case:
        res = vlib.run_driver(ctx, binary, ["-x", json.dumps(case["consts"])], behaviours=[case["steps"]])
        vlib.handle_driver_results(ctx, res)
        ctx.cov.update({"states": 1, "transitions": 1, "traces_validated_against_impl": 1})
        ctx.sample(case["steps"])
        return
    quick = ctx.tier == "quick"
    # (M)+(R): exhaustive with edge emission, one behaviour per transition of the bounded graph
    ecfgs = [("Mempool_qe.cfg", "2 txs, cache 1, limits change")]
    if not quick:
        ecfgs += [("Mempool_t3.cfg", "3 txs, cache 2, limits change"),
                  ("Mempool_t3c.cfg", "3 txs, cache 2, blocks of <= 2 txs"),
                  ("Mempool_t3n.cfg", "3 txs, recheck off, limits change")]
    for cfg, what in ecfgs:
        r = vlib.run_tlc(ctx, "MCMempool", cfg, tags=("EDGE",), timeout=1500)
        vlib.require_model_ok(r, cfg)
        ctx.add_tlc(r, "exhaustive+edges " + what)
        behs = vlib.dedup_prefix(r.traces)
        ctx.add("edges_emitted", len(r.traces))
        replay(ctx, binary, behs, cfg, "edges " + cfg)
    # simulation: 4 txs, cache 3, blocks of <= 2 txs, 12 calls; once unrestricted and once steered
    # away from the known defect classes so that long behaviours stay replayable
    n = 150 if quick else 4000
    for cfg, what in (("Mempool_sim.cfg", "simulate 4 txs depth 12"), ("Mempool_simk.cfg", "simulate 4 txs depth 12, AvoidKnown")):
        r = vlib.run_tlc(ctx, "MCMempool", cfg, mode="simulate", simulate=n, depth=14, tags=("TRACE",), timeout=1500)
        vlib.require_model_ok(r, cfg)
        ctx.add_tlc(r, what)
        replay(ctx, binary, r.traces, cfg, what)
    if not quick:
        r = vlib.run_tlc(ctx, "MCMempool", "Mempool_t4.cfg", timeout=3000)
        vlib.require_model_ok(r, "Mempool_t4")
        ctx.add_tlc(r, "exhaustive 4 txs, cache 3, blocks of <= 2 txs, len<=8")
    conc(ctx, binary)
    ctx.cov["exhaustive"] = True
    ctx.assumptions += [
        "ABCI application scripted (verdict per call chosen by the model); local (synchronous) client, as in a gno.land node",
        "cache policy is the LRU documented at mapTxCache; cache and `rechecking` are read through reflection (read-only)",
        "the (V) part is un-gated: it validates the schedules the Go runtime happened to produce"]


def conc(ctx, binary):
    pass
