"""C07 — a realm's persisted state changes only under that realm's authority.
spec/Interrealm.tla: (M) the call-frame / storage-context machine (PushFrameCall borrow rules, write
guard) model-checked over all call chains within MaxDepth; (R) TLC enumerates attack shapes
(context x access path x write kind), harness/cmd/interrealm instantiates each from Gno templates
against the fixed victim realm and runs it on the REAL gno.land application. Verdict shapes (every
write statement textually in attacker-declared code) are judged model-independently: victim state
(Dump() through vm/qeval + raw committed oid: entries) unchanged, or the transaction failed."""
import json, os, random, threading, concurrent.futures as cf, vlib
LEVEL = "exploration"

EPH_KEY = "C07:foreign-write:ephemeral-package-funcdecl-runs-with-callers-realm"
_lock = threading.Lock()


def tlc(ctx, cfg, **kw):
    return vlib.run_tlc(ctx, "MCInterrealm", cfg, **kw)


def lock_scratch(ctx):
    """ctx.scratch_dir is not thread-safe: serialise it once for the whole run."""
    orig = ctx.scratch_dir

    def locked(name):
        with _lock:
            return orig(name)
    ctx.scratch_dir = locked


def drive(ctx, binary, shapes):
    res = vlib.run_driver(ctx, binary, ["-mode", "shapes"], behaviours=[[s] for s in shapes], timeout=3000)
    return res


def collect(ctx, results, tot, notes):
    for r in results:
        k = r.get("kind")
        if k == "summary":
            for kk, vv in r.items():
                if isinstance(vv, int) and not isinstance(vv, bool) and kk != "contexts_executed":
                    tot[kk] = tot.get(kk, 0) + vv
            tot["contexts_executed"] = max(tot.get("contexts_executed", 0), r.get("contexts_executed", 0))
        elif k == "mismatch":
            notes["mismatch"].append(r)
        elif k == "sample":
            ctx.sample(r.get("sample"), limit=3)
        elif k in ("inert", "rejected", "flaky", "benign"):
            notes[k].append(r)


def run(ctx):
    lock_scratch(ctx)
    binary = vlib.go_build("interrealm", ctx)
    case = ctx.replay_case()
    if case:
        res = drive(ctx, binary, [case["shape"]])
        s = vlib.handle_driver_results(ctx, res)
        ctx.cov.update({"evaluations": 1, "distinct_nontrivial": 2, "rule": "replay of one recorded shape"})
        ctx.sample(case["shape"])
        return
    quick = ctx.tier == "quick"
    with cf.ThreadPoolExecutor(max_workers=4) as ex:
        f_m = ex.submit(tlc, ctx, "Interrealm_q.cfg" if quick else "Interrealm_t.cfg", timeout=1500, workers=4 if quick else None)
        f_e = ex.submit(tlc, ctx, "Interrealm_eph.cfg", timeout=600, workers=2)
        f_c = ex.submit(tlc, ctx, "Interrealm_conv.cfg", timeout=600, workers=2)
        f_s = ex.submit(tlc, ctx, "Interrealm_shapes.cfg", tags=("EDGE",), timeout=900, workers=1)
        rm, re_, rs, rc = f_m.result(), f_e.result(), f_s.result(), f_c.result()
    vlib.require_model_ok(rm, "Interrealm machine")
    ctx.add_tlc(rm, "machine: all call chains, depth<=%d" % (4 if quick else 5))
    # the named deviation switch must matter: without borrow rule #1 for /e/ packages the MODEL has a foreign write
    if re_.violated != "NoForeignWrite":
        raise vlib.Inconclusive("VACUOUS", "Interrealm_eph.cfg did not violate NoForeignWrite (%s / %s)" % (re_.violated, re_.error))
    ctx.add_tlc(re_, "deviation witness (EphemeralIsRealm=FALSE violates NoForeignWrite)")
    # likewise the conversion guard: without it the MODEL re-types a victim object and a library method writes it
    if rc.violated != "NoForeignWrite":
        raise vlib.Inconclusive("VACUOUS", "Interrealm_conv.cfg did not violate NoForeignWrite (%s / %s)" % (rc.violated, rc.error))
    ctx.add_tlc(rc, "deviation witness (ConvertGuard=FALSE violates NoForeignWrite)")
    vlib.require_model_ok(rs, "Interrealm shapes")
    ctx.add_tlc(rs, "shape enumeration")
    shapes = [t[0] for t in rs.traces if len(t) == 1 and t[0].get("act") == "Shape"]
    if len(shapes) < 1000:
        raise vlib.Inconclusive("VACUOUS", "only %d shapes enumerated" % len(shapes))
    ctx.cov["shapes_enumerated"] = len(shapes)
    ctx.cov["shape_classes"] = {c: sum(1 for s in shapes if s["cls"] == c) for c in ("verdict", "control", "open", "forbid")}
    shapes.sort(key=lambda s: (s["ctx"], s["path"], s["wk"], s["inl"]))
    if quick:
        rng = random.Random(ctx.seed)
        by = {}
        for s in shapes:
            by.setdefault((s["ctx"], s["cls"]), []).append(s)
        sel = [s for s in shapes if s["path"] in ("pcur", "swapown")]
        take = {"verdict": 4, "control": 2, "open": 2, "forbid": 1}
        bytekinds = ("cvLibBytesSet", "cvLibBytesSwap", "cvLibBytesSetP", "cvOwnBytesSet", "cvLibRunesSet", "cvLibRunesSwap", "cvLibRunesSetP", "cvOwnRunesSet")
        libslice = ("cvSortSwap", "cvSortRev", "cvSortInts", "cvLibSet", "cvLibSwap", "cvStrSwap", "cvStrSort", "cvFlSwap", "cvFlSort", "cvNamedSortSwap", "cvUnnamedSort")
        for (c, cls), lst in sorted(by.items()):
            lst = [s for s in lst if s["path"] not in ("pcur", "swapown")]
            rng.shuffle(lst)
            plain = [s for s in lst if s.get("conv", "none") == "none"]
            conv = [s for s in lst if s.get("conv", "none") != "none"]
            sel += plain[:take[cls]]
            if cls == "verdict":
                # the "convert a victim-owned value, then mutate through the converted value" family: one write through a
                # library method on a converted victim slice, one other conversion kind, per context
                sel += [s for s in conv if s["wk"] in libslice][:1] + [s for s in conv if s["wk"] not in libslice and s["wk"] not in bytekinds][:1]
                sel += [s for s in conv if s["wk"] in ("cvLibBytesSet", "cvLibBytesSwap", "cvLibBytesSetP")][:1]
                if c in ("s_main", "a_cross", "a_nc", "q_fn_s"):
                    sel += [s for s in plain if s["wk"] in ("byString", "ruString")][:2] + [s for s in conv if s["wk"] in bytekinds and not s["wk"].startswith("cvLibBytes")][:2]
            else:
                sel += conv[:1]
        parts = [sel[0::2], sel[1::2]]
    else:
        parts = [shapes[i::6] for i in range(6)]
    tot, notes = {}, {"mismatch": [], "inert": [], "rejected": [], "flaky": [], "benign": []}
    with cf.ThreadPoolExecutor(max_workers=len(parts)) as ex:
        futs = []
        for p in parts:
            futs.append(ex.submit(drive, ctx, binary, p))
        for fu in futs:
            collect(ctx, fu.result(), tot, notes)
    n = tot.get("shapes", 0)
    executed = tot.get("executed", 0)
    ctx.cov.update({"evaluations": n, "distinct_nontrivial": tot.get("distinct_executed", 0),
                    "rule": "one evaluation = one TLC-enumerated shape (attacker context x access path x write kind x inline/alias) instantiated from Gno templates and run on the real gno.land app against r/verif/victim (attacker packages deployed with MsgAddPackage, attack as MsgRun); distinct_nontrivial = distinct shapes whose program passed type-check/deployment and reached the VM (blocked by a VM guard, or executed to completion)",
                    "executed": executed, "rejected_at_typecheck": tot.get("rejected_at_typecheck", 0), "rejected_at_deploy": tot.get("rejected_at_deploy", 0),
                    "verdict_blocked_by_vm": tot.get("verdict_blocked", 0), "verdict_ok_state_unchanged": tot.get("verdict_ok_unchanged", 0),
                    "controls_mutated": tot.get("control_mutated", 0), "controls_inert": tot.get("control_inert", 0),
                    "open_mutated": tot.get("open_mutated", 0), "open_inert": tot.get("open_inert", 0),
                    "forbidden_operations_refused": tot.get("forbid_refused", 0),
                    "conversion_shapes_executed": tot.get("conv_executed", 0), "conversion_to_library_type_executed": tot.get("conv_library_executed", 0),
                    "write_through_converted_victim_slice_via_library_method": tot.get("conv_library_slice_executed", 0),
                    "victim_own_write_through_converted_slice_observed": tot.get("ctl_swapown_mutated", 0),
                    "write_through_converted_victim_bytes_via_p_method": tot.get("conv_p_method_on_victim_bytes_executed", 0),
                    "legal_string_conversion_of_victim_bytes_ok": tot.get("legal_string_conversion_ok", 0),
                    "contexts_executed": tot.get("contexts_executed", 0), "flaky": tot.get("flaky", 0),
                    "exhaustive": not quick})
    for r in notes["rejected"][:5]:
        ctx.notes.append("rejected: %s — %s" % (r.get("shape"), str(r.get("log"))[:160]))
    for r in notes["inert"][:5]:
        ctx.notes.append("control/open shape did not mutate: %s (%s)" % (r.get("shape"), r.get("tx")))
    # violations observed on the real VM: report the first two of every key, count the rest
    bykey = {}
    for r in notes["mismatch"]:
        bykey.setdefault(r["key"], []).append(r)
    ctx.cov["violations_by_key"] = {k: len(v) for k, v in bykey.items()}
    for k, v in sorted(bykey.items()):
        for r in v[:2]:
            ctx.violation(k, r.get("what", ""), r.get("case"))
    if notes["flaky"]:
        raise vlib.Inconclusive("FLAKY", "%d shapes changed the victim once but not on the re-run: %s" % (len(notes["flaky"]), notes["flaky"][:3]))
    if n == 0 or executed * 10 < n * 6:
        raise vlib.Inconclusive("VACUOUS", "only %d of %d shapes reached the VM" % (executed, n))
    if tot.get("control_mutated", 0) < 5:
        raise vlib.Inconclusive("VACUOUS", "negative controls did not mutate the victim (%d): the harness cannot observe a mutation" % tot.get("control_mutated", 0))
    if tot.get("forbid_refused", 0) < 10 and not bykey:
        raise vlib.Inconclusive("VACUOUS", "construction / realm-value persistence shapes were not exercised (%d refused)" % tot.get("forbid_refused", 0))
    if not bykey and (tot.get("conv_library_slice_executed", 0) < 20 or tot.get("ctl_swapown_mutated", 0) < 1):
        raise vlib.Inconclusive("VACUOUS", "writes through a converted victim-owned slice via a library method were not exercised (%d attack shapes on the VM, %d control mutations observed)" % (
            tot.get("conv_library_slice_executed", 0), tot.get("ctl_swapown_mutated", 0)))
    if not bykey and (tot.get("conv_p_method_on_victim_bytes_executed", 0) < 20 or tot.get("legal_string_conversion_ok", 0) < 1):
        raise vlib.Inconclusive("VACUOUS", "writes through a converted victim []byte via a /p/ method not exercised (%d), or the legal string(victim bytes) control did not succeed (%d)" % (
            tot.get("conv_p_method_on_victim_bytes_executed", 0), tot.get("legal_string_conversion_ok", 0)))
    if tot.get("contexts_executed", 0) < 25:
        raise vlib.Inconclusive("VACUOUS", "only %d attacker contexts executed" % tot.get("contexts_executed", 0))
    ctx.log("shapes run %d, executed %d, verdict blocked %d / ok-unchanged %d, controls mutated %d, open mutated %d, violations %s" % (
        n, executed, tot.get("verdict_blocked", 0), tot.get("verdict_ok_unchanged", 0), tot.get("control_mutated", 0), tot.get("open_mutated", 0), ctx.cov["violations_by_key"]))
    ctx.assumptions += ["the victim's Dump() renders every persisted field; raw comparison covers every committed oid: entry of the victim's package id (the #realm bookkeeping entry excluded); in the four _flush contexts the victim itself rewrites all its objects with their own values after the attack (so that an in-memory-only foreign write would be saved) and Dump() alone decides",
                        "shapes are the grammar of spec/MCInterrealm.tla (34 contexts x 57 access paths x 105 write kinds incl. the convert-then-mutate family, type-applicable combinations), not all Gno programs",
                        "documented-open classes (top-level /p/ function or value-receiver /p/ method invoked by victim-authorised code; library method on a victim-owned receiver; closures minted by the victim) are negative controls, not verdicts"]
