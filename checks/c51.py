"""C51 — GRC20 tokens conserve supply and honour allowances. spec/GRC20.tla (M): ledger machine
with the code's order of checks, invariant SupplyEq and action properties FailedIsNoOp,
TransferNeutral, AllowanceHonoured, MintBurnExact on every transition; (R): TLC behaviours
(edges of the bounded graph, simulation) compiled into Gno programs that drive the real
gno.land/p/demo/tokens/grc20 package (PrivateLedger + every Teller flavour) on the real GnoVM
(MsgRun on the real gno.land app, sources from $VERIF_REPO/examples), under two exact embeddings
of the abstract amounts into int64 (scaled to the int64 boundary / offset by a sink account)."""
import json, random, threading
from concurrent.futures import ThreadPoolExecutor
import vlib

LEVEL = "model_checking"
JVM = ["-XX:ParallelGCThreads=2"]
ACCT_ARGS = ("a", "from", "o", "sp", "to")


def _lock_scratch(ctx):
    if getattr(ctx, "_locked", False):
        return
    lock = threading.Lock()
    orig = ctx.scratch_dir

    def locked(name):
        with lock:
            return orig(name)
    ctx.scratch_dir = locked
    ctx._locked = True


def stratum(beh):
    """Class of the last step of a behaviour: operation, teller flavour, predicted reply, sign of
    the amount, which account arguments are invalid / equal, whether the state changed."""
    s = beh[-1]
    seen, pat = {}, []
    for k in ACCT_ARGS:
        if k in s:
            v = s[k]
            pat.append("inv" if v == 0 else seen.setdefault(v, len(seen)))
    n = s.get("n", 0)
    prev = beh[-2]["st"] if len(beh) > 1 else None
    return json.dumps([s["act"], s.get("via"), s["reply"], tuple(pat), (n > 0) - (n < 0), prev is None or prev != s["st"]], default=str)


def stratified(behs, k, seed):
    rng = random.Random(seed)
    by = {}
    for b in behs:
        by.setdefault(stratum(b), []).append(b)
    out = []
    for key in sorted(by):
        grp = by[key]
        out += grp if len(grp) <= k else rng.sample(grp, k)
    return out, len(by)


def replay(ctx, binary, jobs, workers):
    """jobs: [(label, na, cap, behaviours)]; each driver process = one in-process gno.land app."""
    _lock_scratch(ctx)
    total = sum(len(b) for _, _, _, b in jobs)
    if total == 0:
        return
    workers = max(1, min(workers, total // 100 + 1))
    shards = [[] for _ in range(workers)]
    for label, na, cap, behs in jobs:
        size = (len(behs) + workers - 1) // workers
        for w in range(workers):
            part = behs[w * size:(w + 1) * size]
            if part:
                shards[w] += [{"na": na, "cap": cap, "label": label}] + part
    env = {"GNOROOT": vlib.REPO, "GOMAXPROCS": "3"}

    def one(shard):
        return vlib.run_driver(ctx, binary, [], behaviours=shard, timeout=3000, env_extra=env)
    with ThreadPoolExecutor(max_workers=workers) as ex:
        results = list(ex.map(one, [s for s in shards if s]))
    per = {}
    for res in results:
        for line in res:
            if line.get("kind") == "summary":
                d = per.setdefault(line.get("set", "?"), {})
                for k, v in line.items():
                    if isinstance(v, (int, float)) and not isinstance(v, bool):
                        d[k] = d.get(k, 0) + v
                    elif k == "drift_sample" and v:
                        d[k] = v
        vlib.handle_driver_results(ctx, res)
    for label, _, _, behs in jobs:
        d = per.get(label, {})
        if int(d.get("behaviours", 0)) != len(behs):
            raise vlib.Inconclusive("DRIVER-INCOMPLETE", "%s: %d of %d behaviours replayed" % (label, d.get("behaviours", 0), len(behs)))
        ctx.add("traces_validated_against_impl", int(d.get("replays", 0)))
        ctx.add("impl_lines_compared", int(d.get("lines", 0)))
        ctx.add("gno_msgruns", int(d.get("msgruns", 0)))
        ctx.add("errclass_drift", int(d.get("errclass_drift", 0)))
        if d.get("unreported_failures"):
            ctx.add("unreported_failures", int(d["unreported_failures"]))
        if d.get("drift_sample"):
            ctx.cov.setdefault("drift_sample", d["drift_sample"])
        ctx.log("%s: %d behaviours x 2 embeddings replayed on the real grc20 package, %d ok, %d output lines compared, error-class drift %d" % (
            label, len(behs), d.get("replays_ok", 0), d.get("lines", 0), d.get("errclass_drift", 0)))


def require_acts(behs, acts, what):
    """Vacuity guard: every action of the spec occurs in the behaviours that are replayed."""
    seen = set()
    for b in behs:
        for s in b:
            seen.add(s["act"])
            if "via" in s:
                seen.add("via:" + s["via"])
    missing = sorted(set(acts) - seen)
    if missing:
        raise vlib.Inconclusive("VACUOUS", "%s: no behaviour takes %s" % (what, missing))


def run(ctx):
    binary = vlib.go_build("grc20", ctx)
    case = ctx.replay_case()
    if case:
        replay(ctx, binary, [("replay", int(case["na"]), int(case["cap"]), [case["steps"]])], 1)
        ctx.cov.update({"states": 1, "transitions": 1})
        ctx.sample(case["steps"])
        return
    quick = ctx.tier == "quick"
    _lock_scratch(ctx)
    if quick:
        runs = [("edges 2 accounts cap 3, all tellers, <= 3 calls", "GRC20_qe.cfg", (2, 3), "edge"),
                ("exhaustive 2 accounts cap 3, <= 5 calls", "GRC20_q.cfg", None, "check"),
                ("simulation 3 accounts cap 7, 30 calls", "GRC20_sim.cfg", (3, 7), "sim")]
        nsim, kstr = 12, 2
    else:
        runs = [("edges 2 accounts cap 3, all tellers, <= 3 calls", "GRC20_qe.cfg", (2, 3), "edge"),
                ("edges 2 accounts cap 3, amounts -1..3, <= 4 calls", "GRC20_te.cfg", (2, 3), "edge-sampled"),
                ("exhaustive 2 accounts cap 3 (complete graph)", "GRC20_t1.cfg", None, "check"),
                ("exhaustive 3 accounts cap 7, <= 4 calls", "GRC20_t2.cfg", None, "check"),
                ("witness: TransferFrom as coded", "GRC20_w.cfg", None, "witness"),
                ("simulation 3 accounts cap 7, 30 calls", "GRC20_sim.cfg", (3, 7), "sim")]
        nsim, kstr = 300, 12

    def tlc(run_):
        label, cfg, dims, mode = run_
        if mode == "sim":
            return vlib.run_tlc(ctx, "MCGRC20", cfg, mode="simulate", simulate=nsim, depth=31, tags=("TRACE",), timeout=3000, jvm=JVM)
        return vlib.run_tlc(ctx, "MCGRC20", cfg, tags=("EDGE",) if mode.startswith("edge") else (), workers=4 if quick else 6, timeout=3000, jvm=JVM)
    with ThreadPoolExecutor(max_workers=3) as ex:
        results = list(ex.map(tlc, runs))
    jobs = []
    for (label, cfg, dims, mode), r in zip(runs, results):
        if mode == "witness":
            # the literal transcription of TransferFrom must violate FailedIsNoOp in the model
            ctx.cov["witness_ascode"] = "violates %s" % r.violated if r.violated else "no violation (%s)" % (r.error or "ok")
            ctx.log("TLC %s: %s" % (label, ctx.cov["witness_ascode"]))
            continue
        vlib.require_model_ok(r, cfg)
        ctx.add_tlc(r, label + " (" + cfg + ")")
        behs = None
        if mode == "edge":
            behs = vlib.dedup_prefix(r.traces)
            behs, ns = stratified(behs, kstr if quick else 8, ctx.seed)
            ctx.cov["strata_qe"] = ns
        elif mode == "edge-sampled":
            behs, ns = stratified(r.traces, kstr, ctx.seed)
            ctx.cov["strata_te"] = ns
        elif mode == "sim":
            behs = r.traces
        if behs is not None:
            jobs.append((label, dims[0], dims[1], behs))
        ctx.log("TLC %s: %d distinct states, %d transitions, %d behaviours emitted, %d replayed, %.1fs" % (
            label, r.distinct, r.generated, len(r.traces), len(behs or []), r.wall))
    require_acts([b for _, _, _, bs in jobs for b in bs], ["Mint", "Burn", "Transfer", "Approve", "TransferFrom", "SpendAllowance",
                                                           "via:ledger", "via:imp", "via:realm", "via:caller", "via:ro"], "C51")
    replay(ctx, binary, jobs, 4 if quick else 8)
    ctx.cov["exhaustive"] = True
    ctx.assumptions += [
        "abstract amounts 0..Cap are embedded into int64 by n -> n*2^k (Cap*2^k <= MaxInt64 < (Cap+1)*2^k) and by n -> n with a sink account holding MaxInt64-Cap; both are exact for the ledger's additive checks",
        "account 0 is the empty (invalid) address; accounts are bech32 addresses of test keys; account 1 signs the MsgRun (RealmTeller/CallerTeller resolve to it)",
        "error class (which sentinel error) is a guidance observable; ok/not-ok, supply, balances and allowances are verdicts; KnownAccounts/HasAddr are not compared",
    ]
