"""C39 — Block part sets reassemble exactly the proposed block.
spec/PartSet.tla (M: completeness, only the sender's bytes stored, rejected parts harmless) + (R) every
edge of the bounded graphs (1..6 parts, 9 part classes, out-of-range indices), every arrival order of the
good parts (perm mode) and long random interleavings on blocks of up to 17 parts, replayed on real
types.PartSet objects (NewPartSetFromData -> NewPartSetFromHeader -> AddPart -> GetReader) under several
realisations of the block (part sizes 4, 33 and the real 65536; short/full last part; distinct/uniform
content)."""
import threading
import vlib
LEVEL = "model_checking"


def run(ctx):
    binary = vlib.go_build("partset", ctx)
    case = ctx.replay_case()
    if case:
        r = case.get("real") or {}
        x = "%s/%s/%s" % (r.get("part_size", 4), r.get("tail", 4), r.get("content", "distinct"))
        vlib.handle_driver_results(ctx, vlib.run_driver(ctx, binary, ["-x", x], behaviours=[case["steps"]]))
        ctx.cov.update({"states": 1, "transitions": 1, "traces_validated_against_impl": 1})
        ctx.sample(case["steps"])
        return
    quick = ctx.tier == "quick"
    lock = threading.Lock()
    orig_scratch = ctx.scratch_dir

    def scratch_dir(name):              # run_tlc from several threads: serialise the scratch counter
        with lock:
            return orig_scratch(name)
    ctx.scratch_dir = scratch_dir
    jobs = [
        ("edges, 1..%d parts, all classes" % (4 if quick else 6), "PartSet_qe.cfg" if quick else "PartSet_te.cfg", dict(tags=("EDGE",))),
        ("every arrival order, %s parts" % ("3..5" if quick else "4..7"), "PartSet_pq.cfg" if quick else "PartSet_pt.cfg", dict(tags=("EDGE",))),
        ("simulation, 5..17 parts, 40 adds", "PartSet_sim.cfg",
         dict(mode="simulate", simulate=120 if quick else 4000, depth=44, tags=("TRACE",), workers=1)),
    ]
    out = {}

    def work(label, cfg, kw):
        try:
            out[label] = vlib.run_tlc(ctx, "MCPartSet", cfg, timeout=2400, workers=kw.pop("workers", 4), **kw)
        except BaseException as e:
            out[label] = e
    ths = [threading.Thread(target=work, args=j, daemon=True) for j in jobs]
    for t in ths:
        t.start()
    for t in ths:
        t.join()
    behs = []
    for label, cfg, _ in jobs:
        r = out[label]
        if isinstance(r, BaseException):
            raise r
        vlib.require_model_ok(r, cfg)
        ctx.add_tlc(r, label)
        b = vlib.dedup_prefix(r.traces) if cfg != "PartSet_sim.cfg" else r.traces
        ctx.log("tlc %s: %d distinct states, %d generated, %d behaviours, %.1fs" % (cfg, r.distinct, r.generated, len(b), r.wall))
        behs += b
    s = vlib.handle_driver_results(ctx, vlib.run_driver(ctx, binary, [], behaviours=behs, timeout=2400))
    ctx.add("traces_validated_against_impl", int(s.get("replays", 0)))
    ctx.add("impl_steps", int(s.get("steps", 0)))
    ctx.add("complete_sets_read_back", int(s.get("complete_sets_read_back", 0)))
    hits = {k[5:]: int(v) for k, v in s.items() if k.startswith("hits ")}
    if hits:
        ctx.cov["failing_class_hits"] = hits
    ctx.log("%d behaviours, %d replays (block realisations), %d steps, %d complete sets read back; failing classes: %s"
            % (len(behs), s.get("replays", 0), s.get("steps", 0), s.get("complete_sets_read_back", 0), sorted(hits) or "none"))
    ctx.cov["exhaustive"] = True
    ctx.assumptions += [
        "the merkle tree (SimpleProofsFromByteSlices / SimpleProof.Verify) is trusted as a collision-free commitment (C25); part classes are realised by single-field changes of real proofs",
        "a validated part (Part.ValidateBasic: Index >= 0) is the precondition of AddPart — every network path is screened in consensus/reactor.go Receive; negative indices (which panic in AddPart) are not generated (DESIGN F9, named deviation in the spec)",
        "blocks are non-empty (NewPartSetFromData panics on zero bytes; a serialised block is never empty)",
    ]
