"""C06 — Persisted object graph stays consistent after every transaction.

(M) spec/Realm.tla: the marking algorithm of realm.go transcribed (DidUpdate, the phases of
    FinalizeRealmTransaction, per-realm mark lists) is model-checked against the declarative
    ownership layer (kept set / reference counts / escaped / owner) and the statement's
    invariants (spec/RealmInv.tla) on every bounded history of transactions.
(R) one behaviour per commit edge of the small state graph + biased simulation over two
    realms are replayed on the REAL gno.land application (universal realms heap / heapx, one
    MsgCall per spec transaction): the user-level nodes read from the RAW committed base store
    are compared with the predicted persisted graph.
(state-V) the WHOLE persisted graph of the realm packages, dumped from the raw store after
    every committed transaction, is evaluated by TLC against the same RealmInv.tla
    (spec/RealmDump.tla): RefCountExact / OwnerIffSingle / NoDangling / HashMatches /
    ReachableUnlessCyclic / IdCounter (every persisted id <= the persisted Realm.Time of its realm) on every dumped state."""
import json, os, random, subprocess, threading, glob
import vlib

LEVEL = "model_checking"
PID = "C06"


def _locked_scratch(ctx):
    """vlib.Ctx.scratch_dir is not thread-safe; TLC runs are started from threads here."""
    if getattr(ctx, "_c06_locked", False):
        return
    lock = threading.Lock()
    orig = ctx.scratch_dir

    def f(name):
        with lock:
            return orig(name)
    ctx.scratch_dir = f
    ctx._c06_locked = True


def par(jobs):
    """run callables in threads, re-raise the first exception, return results in order."""
    res = [None] * len(jobs)
    err = []

    def w(i, j):
        try:
            res[i] = j()
        except BaseException as e:      # noqa
            err.append(e)
    ths = [threading.Thread(target=w, args=(i, j)) for i, j in enumerate(jobs)]
    for t in ths:
        t.start()
    for t in ths:
        t.join()
    if err:
        raise err[0]
    return res


def eval_dumps(ctx, dump_dir, nlines, behs, label):
    """TLC (RealmDump.tla) evaluates the statement's invariants on every dumped graph."""
    if nlines == 0:
        return 0
    nchunk = 1 if nlines < 150 else min(8, max(2, nlines // 250))
    bounds = [(i * nlines // nchunk + 1, (i + 1) * nlines // nchunk) for i in range(nchunk)]

    def job(lo, hi):
        def run():
            d = ctx.scratch_dir("dumpchunk")
            nfile = os.path.join(d, "realm_dump_n.json")
            with open(nfile, "w") as f:
                f.write(json.dumps({"lo": lo, "hi": hi}) + "\n")
            files = [nfile] + [os.path.join(dump_dir, "realm_dump_%d.json" % i) for i in range(lo, hi + 1)]
            r = vlib.run_tlc(ctx, "RealmDump", "RealmDump.cfg", workers=1, timeout=7000, extra_files=files,
                             tags=("DUMPFAIL",), deadlock=True, jvm=["-Xmx2g", "-XX:TieredStopAtLevel=1"])
            if r.error or not r.ok:
                raise vlib.Inconclusive("TLC-ERROR", "RealmDump lines %d-%d: %s" % (lo, hi, (r.error or r.out)[-1500:]))
            return r
        return run
    rs = par([job(lo, hi) for lo, hi in bounds])
    n = 0
    for r in rs:
        ctx.cov["dump_states_evaluated"] = ctx.cov.get("dump_states_evaluated", 0) + max(0, r.distinct - 1)
        for rep in r.traces:
            beh = behs[rep["beh"]] if rep["beh"] < len(behs) else None
            for b in rep["bad"]:
                for clause in b["fails"]:
                    n += 1
                    byk = ctx.cov.setdefault("dump_failures_by_clause", {})
                    byk[clause] = byk.get(clause, 0) + 1
                    if byk[clause] > 1:
                        continue          # one violation (and one replay file) per failing class
                    ctx.violation("C06:" + clause,
                                  "persisted graph after a committed transaction violates %s at object %s (rc=%s owner=%r escaped=%s) [%s, behaviour %d step %d]"
                                  % (clause, b["id"], b["rc"], b["owner"], b["esc"], label, rep["beh"], rep["step"] + 1),
                                  {"steps": beh, "failed_at": rep["step"] + 1})
    return n


def replay(ctx, binary, behs, label, mode="replay"):
    """replay behaviours on the real app, compare user-level nodes, evaluate the dumps."""
    if not behs:
        return {}
    dump_dir = ctx.scratch_dir("dump")
    res = vlib.run_driver(ctx, binary, ["-mode", mode, "-out", dump_dir], behaviours=behs, timeout=6000)
    s = vlib.handle_driver_results(ctx, res)
    crash = [r["case"] for r in res if r.get("kind") == "crashcase"]
    ctx.add("traces_validated_against_impl", int(s.get("replays", 0)))
    ctx.add("impl_transactions", int(s.get("steps", 0)))
    for k in ("handover_equal_size_measured", "alloc_after_handover", "nodes_compared", "cross_realm_txs", "seen_escaped", "seen_shared", "aborted", "drift_outcome", "stale_child_hash", "instances"):
        if s.get(k):
            ctx.add(k, int(s[k]))
    nl = int(s.get("dump_lines", 0))
    nbad = eval_dumps(ctx, dump_dir, nl, behs, label)
    ctx.log("%s: %d behaviours / %d txs replayed, %d ok, %d nodes compared, %d dumped graphs evaluated by TLC (%d failing clauses), %d crash cases"
            % (label, len(behs), s.get("steps", 0), s.get("replays_ok", 0), s.get("nodes_compared", 0), nl, nbad, len(crash)))
    return {"summary": s, "crash": crash}


def crash_probe(ctx, binary, cases):
    """A transaction on which the transcribed recursive save meets an object that is already being
    saved is executed in a process of its own: realm.go as pinned recurses until the Go stack is
    exhausted (fatal error: stack overflow - not a recoverable panic, the process dies)."""
    for case in cases[:3]:
        beh = case["steps"][:case["failed_at"]]
        d = ctx.scratch_dir("crash")
        inp = os.path.join(d, "behaviours.ndjson")
        with open(inp, "w") as f:
            f.write(json.dumps(beh, separators=(",", ":")) + "\n")
        dump_dir = ctx.scratch_dir("dump")
        env = dict(os.environ)
        env.update({"VERIF_SEED": str(ctx.seed), "VERIF_TIER": ctx.tier, "TMPDIR": ctx.scratch})
        try:
            p = subprocess.run([binary, "-mode", "crash", "-in", inp, "-out", dump_dir], capture_output=True, text=True, timeout=900, env=env)
        except subprocess.TimeoutExpired:
            raise vlib.Inconclusive("TIMEOUT", "crash probe")
        if p.returncode != 0:
            if "fatal error: stack overflow" in p.stderr and "saveUnsavedObjectRecursively" in p.stderr:
                ctx.violation("C06:finalize:stack-overflow-saving-unsaved-cycle",
                              "FinalizeRealmTransaction never returns: saveUnsavedObjectRecursively recurses between a new object and a dirty object that refer to each other until the Go stack is exhausted (fatal error: stack overflow - the process dies inside DeliverTx)",
                              {"steps": beh, "failed_at": len(beh)})
                ctx.add("crash_probes_died", 1)
                continue
            raise vlib.Inconclusive("DRIVER-DIED", "crash probe exit %d: %s" % (p.returncode, p.stderr[:2000]))
        res = [json.loads(l) for l in p.stdout.splitlines() if l.startswith("{")]
        s = vlib.handle_driver_results(ctx, res)
        ctx.add("traces_validated_against_impl", int(s.get("replays", 0)))
        ctx.add("impl_transactions", int(s.get("steps", 0)))
        eval_dumps(ctx, dump_dir, int(s.get("dump_lines", 0)), [beh], "crash-probe")
        ctx.add("crash_probes_survived", 1)


def model(ctx, cfg, label, timeout=3000, workers=None):
    r = vlib.run_tlc(ctx, "MCRealm", cfg, timeout=timeout, workers=workers, jvm=["-Xmx6g"])
    vlib.require_model_ok(r, cfg)
    ctx.add_tlc(r, label)
    return r


def witness(ctx):
    """the named deviation: with realm.go's owner handling as pinned the MODEL violates OwnerIffSingle."""
    r = vlib.run_tlc(ctx, "MCRealm", "Realm_bug.cfg", timeout=900, workers=4, jvm=["-Xmx2g"])
    if r.violated != "OwnerIffSingle":
        raise vlib.Inconclusive("VACUOUS", "Realm_bug.cfg: expected OwnerIffSingle to be violated, got %s %s" % (r.violated, (r.error or "")[:300]))
    ctx.cov["deviation_witness"] = "OwnerFix=FALSE violates OwnerIffSingle after %d states" % r.generated
    return r


def edges(ctx, cfg, timeout=3000):
    r = vlib.run_tlc(ctx, "MCRealm", cfg, tags=("EDGE",), timeout=timeout, workers=3, jvm=["-Xmx4g", "-XX:TieredStopAtLevel=1"])
    vlib.require_model_ok(r, cfg)
    ctx.add_tlc(r, "exhaustive + one behaviour per commit edge " + cfg)
    return r


def simulate(ctx, n, depth=60):
    r = vlib.run_tlc(ctx, "MCRealm", "Realm_sim.cfg", mode="simulate", simulate=n, depth=depth, tags=("TRACE",), timeout=3000,
                     jvm=["-XX:TieredStopAtLevel=1"])
    vlib.require_model_ok(r, "Realm_sim.cfg")
    ctx.add_tlc(r, "simulate 2 realms, 4 nodes, 4 txs of <= 5 ops")
    return r


def _one_violation_per_key(ctx):
    if getattr(ctx, "_c06_dedup", False):
        return
    orig = ctx.violation
    seen = ctx.cov.setdefault("violations_by_key", {})

    def v(key, what, replay_obj=None):
        seen[key] = seen.get(key, 0) + 1
        if seen[key] > 1:
            return False
        return orig(key, what, replay_obj)
    ctx.violation = v
    ctx._c06_dedup = True


def run(ctx):
    _locked_scratch(ctx)
    _one_violation_per_key(ctx)
    binary = vlib.go_build("realm", ctx)
    case = ctx.replay_case()
    if case:
        beh = case["steps"][:case.get("failed_at") or len(case["steps"])]
        if beh and beh[-1].get("loop"):
            crash_probe(ctx, binary, [{"steps": beh, "failed_at": len(beh)}])
        else:
            replay(ctx, binary, [beh], "replay")
        ctx.cov.update({"states": ctx.cov.get("states", 1) or 1, "transitions": ctx.cov.get("transitions", 1) or 1})
        ctx.sample(beh[:2])
        return
    quick = ctx.tier == "quick"
    rng = random.Random(ctx.seed)
    # the exhaustive model runs go on in the background while the behaviours are replayed
    bg = []
    bgres = {}

    def start(name, fn):
        def w():
            try:
                bgres[name] = fn()
            except BaseException as e:      # noqa
                bgres[name] = e
        t = threading.Thread(target=w)
        t.start()
        bg.append(t)
    if not quick:
        start("model", lambda: model(ctx, "Realm_t.cfg", "exhaustive 1 realm, 3 nodes, 3 txs of <= 3 ops", workers=6))
        start("modelx", lambda: model(ctx, "Realm_x.cfg", "exhaustive 2 realms, 3 nodes, 2 txs of <= 4 ops", workers=6))
        start("witness", lambda: witness(ctx))
    # directed: the commit edges on which the recursive save meets an object already being saved
    start("loop", lambda: edges(ctx, "Realm_loop.cfg"))
    # Realm_hand.cfg: directed 3-transaction behaviours - realm 1 allocates a node and hands it to realm 2
    # (crossing call), realm 2 stores it: the id is minted from realm 1's counter by realm 2's finalisation;
    # the next transaction replaces it by an equal-sized node of realm 1 (realm 1's bytes cancel out); the
    # third transaction is free (realm 1 allocates again: its persisted counter must not be behind)
    re_, rx, rh, rs = par([lambda: edges(ctx, "Realm_qe.cfg"), lambda: edges(ctx, "Realm_xq.cfg"),
                           lambda: edges(ctx, "Realm_hand.cfg"), lambda: simulate(ctx, 20 if quick else 350)])
    ctx.cov["edges_emitted"] = len(re_.traces) + len(rx.traces) + len(rh.traces)
    behs = []
    for r, nq, nt in ((re_, 36, 1500), (rx, 18, 700), (rh, 12, 300)):
        eb = vlib.dedup_prefix(r.traces)
        eb.sort(key=lambda b: json.dumps(b, sort_keys=True))
        n = nq if quick else nt
        if r is rh:
            # prefer the directed behaviours whose last transaction lets the first realm allocate again
            eb = [b for b in eb if any(o["op"] == "new" for o in b[-1]["ops"])] or eb
        behs += rng.sample(eb, min(n, len(eb)))
    behs += rs.traces
    ctx.log("emission done: %d behaviours selected" % len(behs))
    out = replay(ctx, binary, behs, "edges+simulation")
    s = out.get("summary", {})
    if not s.get("seen_escaped") or not s.get("seen_shared") or not s.get("nodes_compared") or not s.get("cross_realm_txs"):
        raise vlib.Inconclusive("VACUOUS", "replayed behaviours never produced a shared / escaped node or a cross-realm transaction: %s" % s)
    need = (5, 2) if quick else (150, 60)
    if int(s.get("handover_equal_size_measured", 0)) < need[0] or int(s.get("alloc_after_handover", 0)) < need[1]:
        raise vlib.Inconclusive("VACUOUS", "hand-over with equal-sized replacement measured %s times, followed by an allocation of the first realm %s times"
                                % (s.get("handover_equal_size_measured", 0), s.get("alloc_after_handover", 0)))
    for t in bg:
        t.join()
    for name, r in bgres.items():
        if isinstance(r, BaseException):
            raise r
    loops = sorted(bgres["loop"].traces, key=lambda b: (len(json.dumps(b)), json.dumps(b, sort_keys=True)))
    ctx.cov["loop_edges"] = len(loops)
    if not loops:
        raise vlib.Inconclusive("VACUOUS", "Realm_loop.cfg emitted no edge on which the save recursion meets an object being saved")
    crash_probe(ctx, binary, [{"steps": b, "failed_at": len(b)} for b in loops[:1 if quick else 2]] + out.get("crash", [])[:1])
    ctx.cov["crash_cases_seen"] = len(out.get("crash", []))
    ctx.cov["exhaustive"] = True
    ctx.assumptions += [
        "a user-level node is one *node.Node of the universal realm (HeapItemValue + StructValue pair in the store); programs are drawn from the alphabet new / pointer assignment / scalar write / call into a second realm (one crossing call per op group)",
        "the declarative kept set is reference counting over the objects that are or became real (unreachable cycles stay, as the statement exempts them)",
        "ok/abort of a transaction is a guidance observable: where the model aborts and the code commits (or vice versa) the prediction is dropped and the committed graph is judged by the invariants alone",
    ]
